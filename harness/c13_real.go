package main

import (
	"bytes"
	"context"
	"encoding/hex"
	"fmt"
	"io"
	"net/http/httptest"
	"os"
	"path/filepath"
	"sort"
	"strings"
	"time"

	"github.com/go-logr/logr"
	"github.com/spf13/cobra"
	wrgl "github.com/wrgl/wrgl/cmd/wrgl"
	"github.com/wrgl/wrgl/cmd/wrgl/fetch"
	"github.com/wrgl/wrgl/cmd/wrgl/utils"
	"github.com/wrgl/wrgl/pkg/conf"
	"github.com/wrgl/wrgl/pkg/credentials"
	"github.com/wrgl/wrgl/pkg/local"
	"github.com/wrgl/wrgl/pkg/objects"
	objmock "github.com/wrgl/wrgl/pkg/objects/mock"
	"github.com/wrgl/wrgl/pkg/pbar"
	"github.com/wrgl/wrgl/pkg/ref"

	"verifharness/xt"
)

// c13_real.go - C13 with the REAL operations instead of their re-enacted call sequences:
//   ops 0/1/3/4/5: cmd/wrgl commit, commitWithTable, runMerge through the `verif` export hooks
//     (cmd/wrgl/verif_export.go), on the recording / fault-injecting stores;
//   op (8 objs upd): the exported fetch.Fetch (cmd/wrgl/fetch/root.go) runs on the recording /
//     fault-injecting stores against the in-process reference server of harness/c09_server.go, which
//     serves a remote repository holding the advertised commits; objs is the generator's prediction
//     of the object sequence (what the model receives), upd the remote branches and the force bits.
//   CLI scenarios (flags = (workers cli scenario)): histories with SHALLOW commits produced by the real
//     `wrgl pull` / `wrgl fetch --depth` against the reference server, then `wrgl merge` in its ff modes
//     and `wrgl pull --depth`, all through wrgl.RootCmd() on a badger + sqlite repository; the
//     invariants are judged after every command.

// ---------------------------------------------------------------- the real commit / merge of cmd/wrgl

// a bare command with the flags and the context the functions of cmd/wrgl read
func (e *c13Env) cliCmd(stdin []byte) *cobra.Command {
	cmd := &cobra.Command{Use: "wrgl"}
	cmd.Flags().IntP("num-workers", "n", e.workers, "")
	cmd.Flags().Uint64("mem-limit", 0, "")
	cmd.Flags().Bool("no-progress", true, "")
	cmd.Flags().String("delimiter", "", "")
	lg := logr.Discard()
	cmd.SetContext(utils.SetLogger(context.Background(), &lg))
	cmd.SetOut(io.Discard)
	cmd.SetErr(io.Discard)
	if stdin != nil {
		cmd.SetIn(bytes.NewReader(stdin))
	}
	return cmd
}

var c13Conf = &conf.Config{User: &conf.User{Name: "V", Email: "v@x.y"}}

func (e *c13Env) realCommit(st *c13Stores, r int, tbl *xt.T, nonce int) error {
	csv := e.u.csv[c13TableKey(tbl)]
	if csv == nil {
		return fmt.Errorf("c13: no CSV for table %s", tbl)
	}
	_, err := wrgl.VerifCommit(e.cliCmd(csv), st.db, st.rs, "-", fmt.Sprintf("c%d", nonce), fmt.Sprintf("b%d", r),
		[]string{"id"}, c13Conf, true, nil, 0)
	return err
}

func (e *c13Env) realCommitWithTable(st *c13Stores, r int, tbl *xt.T, nonce int) error {
	ts := e.u.tableSum[c13TableKey(tbl)]
	if ts == nil {
		return fmt.Errorf("c13: unknown table")
	}
	_, err := wrgl.VerifCommitWithTable(e.cliCmd(nil), c13Conf, st.db, st.rs, fmt.Sprintf("b%d", r), ts, fmt.Sprintf("c%d", nonce), nil)
	return err
}

func (e *c13Env) realMerge(st *c13Stores, r int, others [][]byte, nonce int, ff conf.FastForward) error {
	args := []string{fmt.Sprintf("b%d", r)}
	for _, o := range others {
		args = append(args, hex.EncodeToString(o))
	}
	return wrgl.VerifRunMerge(e.cliCmd(nil), c13Conf, st.db, st.rs, args, false, false, ff, "", e.workers, fmt.Sprintf("c%d", nonce), nil)
}

// putCommitFull stores a commit, its ancestors, their tables and blocks (as a full remote has them)
func (u *c13Universe) putCommitFull(db objects.Store, cid *xt.T) {
	for _, p := range cid.Kids[1].Kids {
		u.putCommitFull(db, p)
	}
	sum := u.sumOfCid(cid)
	db.Set(append([]byte("com/"), sum...), u.comBytes[string(sum)])
	ts := u.tableSum[c13TableKey(cid.Kids[0])]
	db.Set(append([]byte("tbl/"), ts...), u.tableBytes[string(ts)])
	for _, b := range c13TableBlocks(cid.Kids[0]) {
		db.Set(append([]byte("blk/"), u.blockSum[b]...), u.blockBytes[b])
	}
}

// realFetch: fetch.Fetch(db, rs) from a reference server whose branches b<k> are the advertised commits
func (e *c13Env) realFetch(st *c13Stores, upd *xt.T) error {
	rdb := objmock.NewStore()
	rst := c13NewStores(nil)
	defer rst.close()
	var specs []*conf.Refspec
	for _, x := range upd.Kids {
		r := int(x.Kids[0].N)
		if r < 10 || r >= 20 {
			return fmt.Errorf("c13: real fetch updates remote-tracking refs only")
		}
		e.u.putCommitFull(rdb, x.Kids[1])
		if err := ref.CommitHead(rst.rs.s, fmt.Sprintf("b%d", r-10), e.u.sumOfCid(x.Kids[1]), c13CommitObj(nil, nil, 0), nil); err != nil {
			return err
		}
		f := ""
		if x.Kids[2].N != 0 {
			f = "+"
		}
		specs = append(specs, conf.MustParseRefspec(fmt.Sprintf("%srefs/heads/b%d:refs/remotes/origin/b%d", f, r-10, r-10)))
	}
	srv := c09NewServer(rdb, rst.rs.s)
	ts := httptest.NewServer(srv)
	defer ts.Close()
	cs, err := credentials.NewStore()
	if err != nil {
		return err
	}
	cm := utils.NewClientMap(cs, logr.Discard())
	cmd := &cobra.Command{}
	buf := &bytes.Buffer{}
	cmd.SetOut(buf)
	cmd.SetErr(buf)
	return fetch.Fetch(cmd, st.db, st.rs, cm, &conf.User{Name: "V", Email: "v@x.y"}, "origin",
		&conf.Remote{URL: ts.URL}, specs, false, 0, logr.Discard(), pbar.NewContainer(io.Discard, true))
}

// ---------------------------------------------------------------- CLI histories with shallow commits

// scenario = (len depth mode viaPull): the remote branch "main" is a chain r1 <- ... <- r<len> (each
// with its own table), the remote branch "base" is r1. Locally: `wrgl pull main origin
// refs/heads/base:refs/remotes/origin/base` creates the branch main at r1 (full); then the rest of
// the chain arrives with --depth (by `wrgl fetch`, or by `wrgl pull` when viaPull=1), which leaves the
// commits below the depth SHALLOW (commit present, table absent). Then `wrgl merge main <commit>`
// for every commit of the chain, in mode 0 default / 1 --no-ff / 2 --ff-only / 3 --ff.
// After every command the repository must satisfy the invariants; in particular the branch must
// never point at a commit whose table is absent.
func c13ShallowCLI(ctx *Ctx, env *c13Env, scn *xt.T) (class, msg string) {
	if scn.Kids[0].N == 100 {
		return c13TxCLI(ctx, env, scn)
	}
	t0 := time.Now()
	defer func() { ctx.Info["ms_cli_shallow"] += int(time.Since(t0).Milliseconds()) }()
	n, depth, mode, viaPull := int(scn.Kids[0].N), int(scn.Kids[1].N), int(scn.Kids[2].N), scn.Kids[3].N != 0
	tables := scn.Kids[4].Kids
	os.Setenv("XDG_CONFIG_HOME", filepath.Join(ctx.Tmp, "xdg"))
	os.Setenv("HOME", filepath.Join(ctx.Tmp, "home"))
	root, err := os.MkdirTemp(ctx.Tmp, "c13shallow")
	if err != nil {
		panic(err)
	}
	defer os.RemoveAll(root)
	old, _ := os.Getwd()
	if err := os.Chdir(root); err != nil {
		panic(err)
	}
	defer os.Chdir(old)
	// the remote
	rdb := objmock.NewStore()
	rst := c13NewStores(nil)
	defer rst.close()
	var chain []*xt.T
	for i := 0; i < n; i++ {
		var ps []*xt.T
		if i > 0 {
			ps = []*xt.T{chain[i-1]}
		}
		chain = append(chain, c13MkCid(tables[i%len(tables)], ps, 9000+i))
	}
	env.u.putCommitFull(rdb, chain[n-1])
	dummy := c13CommitObj(nil, nil, 0)
	if err := ref.CommitHead(rst.rs.s, "main", env.u.sumOfCid(chain[n-1]), dummy, nil); err != nil {
		return "harness-setup", err.Error()
	}
	if err := ref.CommitHead(rst.rs.s, "base", env.u.sumOfCid(chain[0]), dummy, nil); err != nil {
		return "harness-setup", err.Error()
	}
	ts := httptest.NewServer(c09NewServer(rdb, rst.rs.s))
	defer ts.Close()
	// the local repository
	wrglDir := filepath.Join(root, ".wrgl")
	rd, err := local.NewRepoDir(wrglDir, "")
	if err != nil {
		return "harness-setup", err.Error()
	}
	if err := rd.Init(); err != nil {
		return "harness-setup", err.Error()
	}
	c10WriteConfig(wrglDir, ts.URL, 0)
	judge := func(after string) (string, string) {
		db, err := rd.OpenObjectsStore()
		if err != nil {
			return "harness-setup", err.Error()
		}
		defer db.Close()
		j := c13JudgeDB(db, rd.OpenRefStore(), false)
		if !j.inv {
			return "cli-" + strings.TrimPrefix(j.class, "crash-"), fmt.Sprintf("after `%s` (chain of %d, depth %d): %s", after, n, depth, j.msg)
		}
		return "", ""
	}
	run := func(args ...string) (string, int) {
		out, oc := c10RunCmd(wrglDir, args...)
		return out, oc
	}
	if out, oc := run("pull", "main", "origin", "refs/heads/base:refs/remotes/origin/base", "--no-progress"); oc != 0 {
		return "harness-setup", "wrgl pull (base): " + out
	}
	if c, m := judge("wrgl pull main origin base"); c != "" {
		return c, m
	}
	d := fmt.Sprintf("%d", depth)
	if viaPull {
		// fetches with --depth and merges the fetched tip into main
		args := []string{"pull", "main", "origin", "refs/heads/main:refs/remotes/origin/main", "--depth", d, "--no-progress"}
		switch mode {
		case 1:
			args = append(args, "--no-ff")
		case 2:
			args = append(args, "--ff-only")
		case 3:
			args = append(args, "--ff")
		}
		out, _ := run(args...)
		if c, m := judge("wrgl " + fmt.Sprint(args)); c != "" {
			return c, m + " | " + out
		}
	} else {
		if out, oc := run("fetch", "origin", "refs/heads/main:refs/remotes/origin/main", "--depth", d, "--no-progress"); oc != 0 {
			return "harness-setup", "wrgl fetch --depth: " + out
		}
		if c, m := judge("wrgl fetch --depth " + d); c != "" {
			return c, m
		}
	}
	// which commits are shallow now
	shallow := 0
	func() {
		db, err := rd.OpenObjectsStore()
		if err != nil {
			return
		}
		defer db.Close()
		for _, c := range chain {
			if com, err := objects.GetCommit(db, env.u.sumOfCid(c)); err == nil && !objects.TableExist(db, com.Table) {
				shallow++
			}
		}
	}()
	ctx.Info["cli_shallow_commits"] += shallow
	ctx.Count("cli_shallow_histories")
	// merge every commit of the chain into main, oldest first (each descends from the head)
	order := make([]int, 0, n)
	for i := 1; i < n; i++ {
		order = append(order, i)
	}
	if scn.Kids[3].N == 2 { // newest first
		sort.Sort(sort.Reverse(sort.IntSlice(order)))
	}
	for _, i := range order {
		args := []string{"merge", "main", hex.EncodeToString(env.u.sumOfCid(chain[i])), "-n", "1"}
		switch mode {
		case 1:
			args = append(args, "--no-ff")
		case 2:
			args = append(args, "--ff-only")
		case 3:
			args = append(args, "--ff")
		}
		out, _ := run(args...) // merging a shallow commit must be refused; whatever it returns, the invariants hold
		ctx.Count("cli_merges")
		if c, m := judge("wrgl " + fmt.Sprint(args)); c != "" {
			return c, m + " | " + out
		}
	}
	return "", ""
}
