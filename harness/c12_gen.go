package main

// C12 case generator: fixed witnesses, exhaustive small scope, random repositories, CLI modes.

import (
	"fmt"
	"sort"

	"verifharness/xt"
)

// ---------------------------------------------------------------------------
// block id pool: slot L = id/100000 (odd L: 255 rows, even L: 2 rows); the id of slot L is the first one whose
// block hash and block index hash both fall into bucket L of c12PoolSize, so that for any subset of the pool
// id order = block key order = block index key order.

const c12PoolSize = 16

var c12PoolIDs []uint64

func c12Bucket(sum string, n int) int {
	return ((int(sum[0])<<8 | int(sum[1])) * n) >> 16
}

func c12Pool() []uint64 {
	if c12PoolIDs != nil {
		return c12PoolIDs
	}
	ids := make([]uint64, c12PoolSize)
	for l := 0; l < c12PoolSize; l++ {
		found := false
		for s := uint64(1); s < 100000; s++ {
			b := uint64(l)*100000 + s
			rows, content := c12BlkContent(b)
			if c12Bucket(c12Sum(content), c12PoolSize) != l {
				continue
			}
			if c12Bucket(c12Sum(c12IdxContent(rows)), c12PoolSize) != l {
				continue
			}
			ids[l] = b
			found = true
			break
		}
		if !found {
			panic(fmt.Sprintf("c12: no block id for pool slot %d", l))
		}
	}
	c12PoolIDs = ids
	return ids
}

// c12FixOrder chooses the salts of the tables and commits so that key order = id order
// (rank r of n ids -> the hash lies in the r-th of n buckets).
func c12FixOrder(st *c12State) {
	// tables
	tbls := map[uint64]*c12Table{}
	var tids []uint64
	for i := range st.tables {
		t := &st.tables[i]
		if _, ok := tbls[t.id]; !ok {
			tbls[t.id] = t
			tids = append(tids, t.id)
		}
	}
	c12SortU64(tids)
	for r, id := range tids {
		t := tbls[id]
		if len(t.blks) != len(t.idxs) {
			continue
		}
		for salt := uint64(0); salt < 100000; salt++ {
			t.salt = salt
			if c12Bucket(c12Sum(c12TableContent(t)), len(tids)) == r {
				break
			}
		}
	}
	// commits
	stT := *st
	stT.commits, stT.refs = nil, nil
	p, err := c12MakePlan(&stT)
	if err != nil {
		return
	}
	coms, topo, err := c12Topo(st)
	if err != nil {
		return
	}
	cids := append([]uint64{}, topo...)
	c12SortU64(cids)
	rank := map[uint64]int{}
	for r, id := range cids {
		rank[id] = r
	}
	sums := map[uint64]string{}
	for _, id := range topo {
		c := coms[id]
		ts, err := p.tableSum(c.table)
		if err != nil {
			return
		}
		var ps []string
		for _, par := range c.parents {
			if s, ok := sums[par]; ok {
				ps = append(ps, s)
			} else {
				ps = append(ps, c12MissingCommitSum(par))
			}
		}
		for salt := uint64(0); salt < 100000; salt++ {
			c.salt = salt
			s := c12Sum(c12CommitContent(c, ts, ps))
			if c12Bucket(s, len(cids)) == rank[id] {
				sums[id] = s
				break
			}
		}
	}
}

// ---------------------------------------------------------------------------
// abstract simulation of a case (to count the deletes of a prune and to mark Nontrivial)

func c12Key(id uint64) string { return fmt.Sprintf("%020d", id) }

func c12Keys(l []uint64) []string {
	r := make([]string, len(l))
	for i, x := range l {
		r[i] = c12Key(x)
	}
	return r
}

type c12Sim struct {
	g    *c12G
	refs map[[2]uint64]uint64
}

func c12NewSim(st *c12State) *c12Sim {
	g := &c12G{commits: map[string]*c12GC{}, tables: map[string]*c12GT{}}
	for k := range g.sets {
		g.sets[k] = map[string]bool{}
	}
	for _, c := range st.commits {
		if g.commits[c12Key(c.id)] == nil {
			g.commits[c12Key(c.id)] = &c12GC{table: c12Key(c.table), parents: c12Keys(c.parents)}
			g.sets[5][c12Key(c.id)] = true
		}
	}
	for _, t := range st.tables {
		if g.tables[c12Key(t.id)] == nil {
			g.tables[c12Key(t.id)] = &c12GT{blocks: c12Keys(t.blks), idxs: c12Keys(t.idxs)}
			g.sets[0][c12Key(t.id)] = true
		}
	}
	for k, l := range [][]uint64{nil, st.tblidx, st.prof, st.blocks, st.blkidx} {
		for _, x := range l {
			g.sets[k][c12Key(x)] = true
		}
	}
	s := &c12Sim{g: g, refs: map[[2]uint64]uint64{}}
	for _, r := range st.refs {
		s.refs[[2]uint64{r.kind, r.num}] = r.commit
	}
	return s
}

// prune applies a prune cut after limit deletes (limit < 0: none) and returns the number of deletes done.
func (s *c12Sim) prune(limit int) (int, *c12Exp) {
	s.g.refs = nil
	for _, c := range s.refs {
		s.g.refs = append(s.g.refs, c12Key(c))
	}
	sort.Strings(s.g.refs)
	exp := c12Expect(s.g)
	n := len(exp.dels)
	if limit >= 0 && limit < n {
		n = limit
	}
	for _, d := range exp.dels[:n] {
		delete(s.g.sets[d.kind], d.key)
		switch d.kind {
		case 0:
			delete(s.g.tables, d.key)
		case 5:
			delete(s.g.commits, d.key)
		}
	}
	return n, exp
}

// ---------------------------------------------------------------------------
// case construction helpers

func c12OpPrune() *xt.T                    { return xt.N(xt.LI(0)) }
func c12OpDel(kind, num uint64) *xt.T      { return xt.N(xt.LI(1), xt.L(kind), xt.L(num)) }
func c12OpSet(kind, num, com uint64) *xt.T { return xt.N(xt.LI(2), xt.L(kind), xt.L(num), xt.L(com)) }
func c12OpCrash(k int) *xt.T               { return xt.N(xt.LI(3), xt.LI(k)) }
func c12Com(id, table uint64, parents ...uint64) c12Commit {
	return c12Commit{id: id, table: table, parents: parents}
}
func c12Tbl(id uint64, blks ...uint64) c12Table {
	return c12Table{id: id, blks: blks, idxs: append([]uint64{}, blks...)}
}

// c12StoreAll marks every table index / profile / block / block index of the listed tables as stored.
func c12StoreAll(st *c12State) *c12State {
	seenB, seenI, seenT := map[uint64]bool{}, map[uint64]bool{}, map[uint64]bool{}
	for _, t := range st.tables {
		if !seenT[t.id] {
			seenT[t.id] = true
			st.tblidx = append(st.tblidx, t.id)
			st.prof = append(st.prof, t.id)
		}
		for _, b := range t.blks {
			if !seenB[b] {
				seenB[b] = true
				st.blocks = append(st.blocks, b)
			}
		}
		for _, b := range t.idxs {
			if !seenI[b] {
				seenI[b] = true
				st.blkidx = append(st.blkidx, b)
			}
		}
	}
	return st
}

func c12CloneState(st *c12State) *c12State {
	n := &c12State{}
	for _, c := range st.commits {
		c.parents = append([]uint64{}, c.parents...)
		n.commits = append(n.commits, c)
	}
	for _, t := range st.tables {
		t.blks = append([]uint64{}, t.blks...)
		t.idxs = append([]uint64{}, t.idxs...)
		n.tables = append(n.tables, t)
	}
	n.tblidx = append([]uint64{}, st.tblidx...)
	n.prof = append([]uint64{}, st.prof...)
	n.blocks = append([]uint64{}, st.blocks...)
	n.blkidx = append([]uint64{}, st.blkidx...)
	n.refs = append([]c12Ref{}, st.refs...)
	return n
}

// c12Relabel renames the commit ids (ids outside the map stay).
func c12Relabel(st *c12State, f map[uint64]uint64) *c12State {
	n := c12CloneState(st)
	m := func(x uint64) uint64 {
		if y, ok := f[x]; ok {
			return y
		}
		return x
	}
	for i := range n.commits {
		n.commits[i].id = m(n.commits[i].id)
		for j := range n.commits[i].parents {
			n.commits[i].parents[j] = m(n.commits[i].parents[j])
		}
	}
	for i := range n.refs {
		n.refs[i].commit = m(n.refs[i].commit)
	}
	return n
}

type c12Genr struct {
	ctx   *Ctx
	cases []Case
}

// simulate returns (deletes done by the prune ops, deletes due at the first prune op)
func c12Simulate(st *c12State, ops []*xt.T, ages map[uint64]uint64) (total int, first int, sawErr bool) {
	sim := c12NewSim(st)
	first = -1
	for _, op := range ops {
		switch c12Num(c12Nth(op, 0)) {
		case 1:
			delete(sim.refs, [2]uint64{c12Num(c12Nth(op, 1)), c12Num(c12Nth(op, 2))})
		case 2:
			sim.refs[[2]uint64{c12Num(c12Nth(op, 1)), c12Num(c12Nth(op, 2))}] = c12Num(c12Nth(op, 3))
		case 4:
			ttl := c12Num(c12Nth(op, 1))
			for kn := range sim.refs {
				if c12Expired(ages, ttl, kn[0], kn[1]) {
					delete(sim.refs, kn)
				}
			}
			fallthrough
		case 0:
			n, exp := sim.prune(-1)
			if first < 0 {
				first = len(exp.dels)
			}
			sawErr = sawErr || exp.err
			total += n
		case 3:
			n, exp := sim.prune(int(c12Num(c12Nth(op, 1))))
			if first < 0 {
				first = len(exp.dels)
			}
			sawErr = sawErr || exp.err
			total += n
		}
	}
	return
}

func c12OpGC(ttl uint64) *xt.T { return xt.N(xt.LI(4), xt.L(ttl)) }

// c12EnvT: the optional 4th component of a case: process time zone code and transaction ages (minutes)
type c12EnvT struct {
	tz   uint64            // 0 = leave alone, else UTC offset in minutes + 1000
	tzB  uint64            // zone while the repository is built (transactions opened); 0 = same as tz
	ages map[uint64]uint64 // transaction group -> age
}

func (g *c12Genr) add(tag string, mode int, st *c12State, ops ...*xt.T) {
	g.addEnv(tag, mode, st, nil, ops...)
}

func (g *c12Genr) addEnv(tag string, mode int, st *c12State, env *c12EnvT, ops ...*xt.T) {
	st = c12CloneState(st)
	crash := false
	for _, op := range ops {
		if c12Num(c12Nth(op, 0)) == 3 {
			crash = true
		}
	}
	if crash {
		c12FixOrder(st)
		g.ctx.Count("gen_cases_with_crash_op")
	}
	var ages map[uint64]uint64
	if env != nil {
		ages = env.ages
	}
	total, _, sawErr := c12Simulate(st, ops, ages)
	ncom := map[uint64]bool{}
	for _, c := range st.commits {
		ncom[c.id] = true
	}
	if sawErr {
		g.ctx.Count("gen_cases_with_walk_error")
	}
	if total > 0 {
		g.ctx.Count("gen_cases_deleting")
	}
	g.ctx.Count("gen_tag_" + tag)
	c := xt.N(xt.LI(mode), c12EncodeState(st), xt.N(ops...))
	if env != nil {
		at := xt.N()
		var gs []uint64
		for gr := range env.ages {
			gs = append(gs, gr)
		}
		for _, gr := range c12SortU64(gs) {
			at.Add(xt.N(xt.L(gr), xt.L(env.ages[gr])))
		}
		e := xt.N(xt.L(env.tz), at)
		if env.tzB != 0 {
			e.Add(xt.L(env.tzB))
		}
		c.Add(e)
	}
	g.cases = append(g.cases, Case{Tag: tag, Nontrivial: len(ncom) >= 3 && total > 0, C: c})
}

// ---------------------------------------------------------------------------
// Gen

func c12Gen(ctx *Ctx) []Case {
	g := &c12Genr{ctx: ctx}
	c12Witnesses(g)
	c12Exhaustive(g)
	c12Random(g)
	c12CLI(g)
	c12Badger(g)
	c12GCZones(g)
	return g.cases
}

func c12Witnesses(g *c12Genr) {
	P := c12Pool()
	S0, F1, S2, F3, S4, S6 := P[0], P[1], P[2], P[3], P[4], P[6]
	pp := []*xt.T{c12OpPrune(), c12OpPrune()}
	head := func(num, com uint64) c12Ref { return c12Ref{0, num, com} }

	// (a) the fixed defect (98a13da): reachable shallow commit + an orphan commit
	for x := uint64(4000); x < 4004; x++ {
		// no table object at all
		g.add("wit", 0, &c12State{commits: []c12Commit{c12Com(1, x), c12Com(2, x+4)}, refs: []c12Ref{head(1, 1)}}, pp...)
		// shallow sum before / after / between / anywhere relative to the table keys
		st := c12StoreAll(&c12State{tables: []c12Table{c12Tbl(1, S0), c12Tbl(2, S0, S2), c12Tbl(3, S4)},
			commits: []c12Commit{c12Com(1, x), c12Com(2, 1), c12Com(3, 2), c12Com(4, 3, 1)},
			refs:    []c12Ref{head(1, 4), head(3, 3)}})
		g.add("wit", 0, st, pp...)
		// only the orphan has a table
		st = c12StoreAll(&c12State{tables: []c12Table{c12Tbl(1, S0)},
			commits: []c12Commit{c12Com(1, x), c12Com(2, 1)}, refs: []c12Ref{head(1, 1)}})
		g.add("wit", 0, st, pp...)
		// the shallow commit is the orphan, every table is live
		st = c12StoreAll(&c12State{tables: []c12Table{c12Tbl(1, S0), c12Tbl(2, S2)},
			commits: []c12Commit{c12Com(1, 1), c12Com(2, 2, 1), c12Com(3, x, 1)}, refs: []c12Ref{head(1, 2)}})
		g.add("wit", 0, st, pp...)
	}

	// (b) like prune_test.go: an orphaned branch, a ref moved back, two tables sharing blocks
	branches := c12StoreAll(&c12State{
		tables: []c12Table{c12Tbl(1, S0), c12Tbl(2, S0, S2), c12Tbl(3, S2, S4), c12Tbl(4, S6), c12Tbl(5, F1, S6)},
		commits: []c12Commit{c12Com(1, 1), c12Com(2, 2, 1), c12Com(3, 3, 2), c12Com(4, 4), c12Com(5, 5, 4),
			c12Com(6, 4)},
		refs: []c12Ref{head(1, 3), head(2, 5), head(3, 6)}})
	g.add("wit", 0, branches, c12OpPrune(), c12OpDel(0, 2), c12OpPrune(), c12OpSet(0, 1, 1), c12OpPrune(), c12OpPrune())
	g.add("wit", 0, c12StoreAll(&c12State{tables: []c12Table{c12Tbl(1, S0, S2), c12Tbl(2, S0, S4)},
		commits: []c12Commit{c12Com(1, 1), c12Com(2, 2, 1)}, refs: []c12Ref{head(1, 1)}}), pp...)

	// (c) early return although there is garbage: no unreachable commit
	early := c12StoreAll(&c12State{tables: []c12Table{c12Tbl(1, S0), c12Tbl(2, S2, S4)},
		commits: []c12Commit{c12Com(1, 1)}, refs: []c12Ref{head(1, 1)}})
	early.blocks = append(early.blocks, S6)
	early.blkidx = append(early.blkidx, F3)
	g.add("wit", 0, early, pp...)
	g.add("wit", 0, &c12State{}, pp...)
	g.add("wit", 0, c12StoreAll(&c12State{tables: []c12Table{c12Tbl(1, S0)}}), pp...)

	// (d) crash inside a table triple
	triple := c12StoreAll(&c12State{tables: []c12Table{c12Tbl(1, S0), c12Tbl(2, S2)},
		commits: []c12Commit{c12Com(1, 1), c12Com(2, 2)}, refs: []c12Ref{head(1, 1)}})
	g.add("wit", 0, triple, c12OpCrash(1), c12OpPrune(), c12OpPrune())
	g.add("wit", 0, triple, c12OpCrash(2), c12OpPrune(), c12OpPrune())

	// (e) orphan chain of three commits, a crash at every position
	chain := c12StoreAll(&c12State{tables: []c12Table{c12Tbl(1, S0), c12Tbl(2, S2), c12Tbl(3, S2, S4), c12Tbl(4, F1, S6)},
		commits: []c12Commit{c12Com(1, 1), c12Com(2, 2), c12Com(3, 3, 2), c12Com(4, 4, 3)}, refs: []c12Ref{head(1, 1)}})
	// the same chain with the parents on the larger ids, and a chain of five in mixed order plus a merge
	chainDown := c12StoreAll(&c12State{tables: []c12Table{c12Tbl(1, S0), c12Tbl(2, S2), c12Tbl(3, S2, S4), c12Tbl(4, F1, S6)},
		commits: []c12Commit{c12Com(1, 1), c12Com(4, 2), c12Com(3, 3, 4), c12Com(2, 4, 3)}, refs: []c12Ref{head(1, 1)}})
	chainMix := c12StoreAll(&c12State{tables: []c12Table{c12Tbl(1, S0), c12Tbl(2, S2)},
		commits: []c12Commit{c12Com(1, 1), c12Com(4, 2), c12Com(6, 2, 4), c12Com(3, 2, 6), c12Com(5, 1, 3), c12Com(2, 2, 5, 4),
			c12Com(7, 2, 6, 6)}, refs: []c12Ref{head(1, 1)}})
	for _, st := range []*c12State{chain, chainDown, chainMix} {
		_, d, _ := c12Simulate(st, pp, nil)
		for k := 0; k <= d; k++ {
			g.add("wit", 0, st, c12OpCrash(k), c12OpPrune(), c12OpPrune())
		}
	}

	// (f) a commit whose parent is not stored: reachable (error) / unreachable (just removed)
	g.add("wit", 0, c12StoreAll(&c12State{tables: []c12Table{c12Tbl(1, S0), c12Tbl(2, S2)},
		commits: []c12Commit{c12Com(1, 1, 77), c12Com(2, 2)}, refs: []c12Ref{head(1, 1)}}), pp...)
	g.add("wit", 0, c12StoreAll(&c12State{tables: []c12Table{c12Tbl(1, S0), c12Tbl(2, S2)},
		commits: []c12Commit{c12Com(1, 1), c12Com(2, 2, 77)}, refs: []c12Ref{head(1, 1)}}), pp...)
	g.add("wit", 0, c12StoreAll(&c12State{tables: []c12Table{c12Tbl(1, S0), c12Tbl(2, S2)},
		commits: []c12Commit{c12Com(1, 1), c12Com(2, 2, 1), c12Com(3, 2, 2, 77), c12Com(4, 1)}, refs: []c12Ref{head(1, 3)}}),
		c12OpPrune(), c12OpSet(0, 1, 2), c12OpPrune(), c12OpPrune())

	// (g) refs to commits that are not stored
	g.add("wit", 0, c12StoreAll(&c12State{tables: []c12Table{c12Tbl(1, S0), c12Tbl(2, S2)},
		commits: []c12Commit{c12Com(1, 1), c12Com(2, 2)}, refs: []c12Ref{head(1, 1), head(9, 99)}}), pp...)
	g.add("wit", 0, c12StoreAll(&c12State{tables: []c12Table{c12Tbl(1, S0), c12Tbl(2, S2)},
		commits: []c12Commit{c12Com(1, 1), c12Com(2, 2, 1)}, refs: []c12Ref{{1, 9, 99}}}), pp...)
	g.add("wit", 0, c12StoreAll(&c12State{tables: []c12Table{c12Tbl(1, S0)},
		commits: []c12Commit{c12Com(1, 1), c12Com(2, 1, 1)}}), pp...)

	// (h) several commits on one table
	shared := c12StoreAll(&c12State{tables: []c12Table{c12Tbl(1, S0, S2), c12Tbl(2, S2)},
		commits: []c12Commit{c12Com(1, 1), c12Com(2, 1), c12Com(3, 1, 2), c12Com(4, 2, 1)}, refs: []c12Ref{head(1, 1), {1, 4, 4}}})
	g.add("wit", 0, shared, c12OpPrune(), c12OpDel(0, 1), c12OpPrune(), c12OpDel(1, 4), c12OpPrune(), c12OpPrune())

	// (i) merges, refs of all four kinds dropped one at a time
	merges := c12StoreAll(&c12State{
		tables: []c12Table{c12Tbl(1, S0), c12Tbl(2, S0, S2), c12Tbl(3, S4), c12Tbl(4, F1, S6), c12Tbl(5, F1, F3, S6)},
		commits: []c12Commit{c12Com(1, 1), c12Com(2, 2, 1), c12Com(3, 3, 1), c12Com(4, 2, 2, 3), c12Com(5, 4, 4),
			c12Com(6, 5), c12Com(7, 4, 5, 6), c12Com(8, 4001, 7)},
		refs: []c12Ref{head(1, 8), {1, 1, 4}, {2, 1, 6}, {2, 5, 3}, {3, 5, 2}, {3, 6, 7}}})
	g.add("wit", 0, merges, c12OpPrune(), c12OpDel(0, 1), c12OpPrune(), c12OpDel(3, 6), c12OpPrune(), c12OpDel(2, 1), c12OpPrune(),
		c12OpDel(1, 1), c12OpPrune(), c12OpDel(2, 5), c12OpPrune(), c12OpDel(3, 5), c12OpPrune(), c12OpPrune())
	g.add("wit", 1, merges, c12OpDel(0, 1), c12OpPrune(), c12OpDel(3, 6), c12OpPrune(), c12OpPrune())
	g.add("wit", 2, merges, c12OpDel(0, 1), c12OpPrune(), c12OpDel(3, 6), c12OpDel(2, 1), c12OpPrune(), c12OpPrune())

	// (k) every name shape of every ref kind (flat and multi-component; transactions with and without a row in
	// the ref store) as the ONLY ref that keeps a commit, its parent, their tables and blocks alive, next to an
	// orphan; then the ref is dropped
	for kind := uint64(0); kind < 4; kind++ {
		for num := uint64(0); num < 12; num++ {
			only := c12StoreAll(&c12State{tables: []c12Table{c12Tbl(1, S0, S2), c12Tbl(2, S2, S4), c12Tbl(3, S6)},
				commits: []c12Commit{c12Com(1, 1), c12Com(2, 2, 1), c12Com(3, 3)}, refs: []c12Ref{{kind, num, 2}}})
			g.add("refnames", 0, only, c12OpPrune(), c12OpPrune(), c12OpDel(kind, num), c12OpPrune(), c12OpPrune())
			g.ctx.Count(fmt.Sprintf("gen_refname_kind%d_shape%d", kind, num%4))
		}
	}
	for _, num := range []uint64{1, 2, 3, 9, 10} {
		only := c12StoreAll(&c12State{tables: []c12Table{c12Tbl(1, S0, S2), c12Tbl(2, S2, S4), c12Tbl(3, S6)},
			commits: []c12Commit{c12Com(1, 1), c12Com(2, 2, 1), c12Com(3, 3)}, refs: []c12Ref{{3, num, 2}}})
		g.add("refnames", 1, only, c12OpPrune(), c12OpDel(3, num), c12OpPrune())
		g.add("refnames", 2, only, c12OpPrune(), c12OpDel(3, num), c12OpPrune())
	}
	for _, kn := range [][2]uint64{{0, 1}, {0, 2}, {1, 2}, {2, 1}, {2, 2}, {2, 3}} {
		only := c12StoreAll(&c12State{tables: []c12Table{c12Tbl(1, S0, S2), c12Tbl(2, S2, S4), c12Tbl(3, S6)},
			commits: []c12Commit{c12Com(1, 1), c12Com(2, 2, 1), c12Com(3, 3)}, refs: []c12Ref{{kn[0], kn[1], 2}}})
		g.add("refnames", 1, only, c12OpPrune(), c12OpDel(kn[0], kn[1]), c12OpPrune())
	}

	// (j) odds and ends: duplicate bindings (first wins), tables without index/profile, leftovers,
	// tables naming blocks that are not stored, repeated block ids, empty table
	odd := &c12State{
		tables: []c12Table{c12Tbl(1, S0, S0), c12Tbl(2, S2, S4), c12Tbl(1, S6), c12Tbl(3), {id: 5, blks: []uint64{S0, S2}, idxs: []uint64{S4, S4}}},
		commits: []c12Commit{c12Com(1, 1), c12Com(2, 2, 1), c12Com(1, 2, 2), c12Com(3, 3), c12Com(4, 5, 3),
			c12Com(5, 9)},
		tblidx: []uint64{1, 9, 4002, 3, 3}, prof: []uint64{2, 9, 4003, 5},
		blocks: []uint64{S0, S2, S6, S6}, blkidx: []uint64{S0, S4, F1},
		refs: []c12Ref{head(1, 2), head(2, 4)}}
	g.add("wit", 0, odd, c12OpPrune(), c12OpDel(0, 2), c12OpPrune(), c12OpPrune())
	g.add("wit", 0, odd, c12OpDel(0, 2), c12OpCrash(4), c12OpPrune(), c12OpPrune())

	// (k) real ingest sharing blocks with crafted tables
	ing := c12StoreAll(&c12State{
		tables:  []c12Table{{id: 1, blks: []uint64{F1, F3, S4}, idxs: []uint64{F1, F3, S4}, flavor: 1}, c12Tbl(2, F1, S6), {id: 3, blks: []uint64{S0}, idxs: []uint64{S0}, flavor: 1}},
		commits: []c12Commit{c12Com(1, 1), c12Com(2, 2, 1), c12Com(3, 3, 2)},
		refs:    []c12Ref{head(1, 3)}})
	g.add("ingest", 0, ing, c12OpPrune(), c12OpSet(0, 1, 2), c12OpPrune(), c12OpSet(0, 1, 1), c12OpCrash(3), c12OpPrune(), c12OpPrune())
	g.add("ingest", 0, ing, c12OpDel(0, 1), c12OpSet(1, 1, 2), c12OpPrune(), c12OpPrune())
}

// c12Exhaustive: commits c1..cN, parents any subset of the earlier ones, table of each commit in
// {t1, t2, shallow 4001}, refs any subset of {heads/b_i -> c_i}; everything stored.
func c12Exhaustive(g *c12Genr) {
	P := c12Pool()
	S0, S2 := P[0], P[2]
	tabs := []uint64{1, 2, 4001}
	var all []*c12State
	var byN [4][]*c12State
	for n := 2; n <= 3; n++ {
		nPar := 1
		for i := 0; i < n; i++ {
			nPar <<= uint(i)
		}
		nTab := 1
		for i := 0; i < n; i++ {
			nTab *= 3
		}
		for pm := 0; pm < nPar; pm++ {
			for tm := 0; tm < nTab; tm++ {
				for rm := 0; rm < 1<<uint(n); rm++ {
					st := &c12State{tables: []c12Table{c12Tbl(1, S0), c12Tbl(2, S0, S2)}}
					c12StoreAll(st)
					pbits, tsel := pm, tm
					for i := 0; i < n; i++ {
						var ps []uint64
						for j := 0; j < i; j++ {
							if pbits&1 == 1 {
								ps = append(ps, uint64(j+1))
							}
							pbits >>= 1
						}
						st.commits = append(st.commits, c12Commit{id: uint64(i + 1), table: tabs[tsel%3], parents: ps})
						tsel /= 3
						if rm>>uint(i)&1 == 1 {
							st.refs = append(st.refs, c12Ref{0, uint64(i + 1), uint64(i + 1)})
						}
					}
					byN[n] = append(byN[n], st)
				}
			}
		}
	}
	for _, st := range byN[2] {
		g.add("exh", 0, st, c12OpPrune(), c12OpPrune())
		all = append(all, st)
	}
	if g.ctx.Thorough() {
		for _, st := range byN[3] {
			g.add("exh", 0, st, c12OpPrune(), c12OpPrune())
		}
	} else {
		for i := 0; i < 300; i++ {
			g.add("exh", 0, byN[3][g.ctx.Pick(len(byN[3]))], c12OpPrune(), c12OpPrune())
		}
	}
	all = append(all, byN[3]...)
	nCrash := 40
	if g.ctx.Thorough() {
		nCrash = 300
	}
	for i := 0; i < nCrash; {
		st := all[g.ctx.Pick(len(all))]
		_, d, _ := c12Simulate(st, []*xt.T{c12OpPrune()}, nil)
		if d == 0 && g.ctx.Pick(10) != 0 {
			continue
		}
		i++
		if g.ctx.Pick(2) == 0 {
			// parents on the larger ids: the key order alone would delete children first
			n := uint64(len(st.commits))
			f := map[uint64]uint64{}
			for j := uint64(1); j <= n; j++ {
				f[j] = n + 1 - j
			}
			st = c12Relabel(st, f)
			g.ctx.Count("gen_exhcrash_reversed_ids")
		}
		for k := 0; k <= d; k++ {
			g.add("exhcrash", 0, st, c12OpCrash(k), c12OpPrune())
		}
	}
}

// c12RandState: a random repository. small: sizes fit for the CLI modes.
func c12RandState(g *c12Genr, small bool, ingestFlavor bool) *c12State {
	ctx := g.ctx
	P := c12Pool()
	st := &c12State{}
	nC := 3 + ctx.Pick(23)
	nT := 1 + ctx.Pick(8)
	nB := 1 + ctx.Pick(10)
	if small {
		nC, nT, nB = 3+ctx.Pick(5), 1+ctx.Pick(3), 1+ctx.Pick(4)
	}
	// the blocks in play: a random subset of the pool, mostly the short ones
	perm := ctx.Rng.Perm(len(P))
	var blocks []uint64
	for _, i := range perm {
		if len(blocks) == nB {
			break
		}
		if i%2 == 1 && ctx.Pick(4) != 0 {
			continue
		}
		blocks = append(blocks, P[i])
	}
	if len(blocks) == 0 {
		blocks = []uint64{P[0]}
	}
	c12SortU64(blocks)
	used := map[uint64]bool{}
	var tids []uint64
	for i := 0; i < nT; i++ {
		t := c12Table{id: uint64(1 + i*3 + ctx.Pick(3))}
		if ingestFlavor && i < 2 {
			// full blocks ascending, then one short block
			var fulls, shorts []uint64
			for _, b := range P {
				if c12BlkRows(b) == 255 {
					fulls = append(fulls, b)
				} else {
					shorts = append(shorts, b)
				}
			}
			nf := ctx.Pick(3)
			start := ctx.Pick(len(fulls) - nf)
			t.blks = append(t.blks, fulls[start:start+nf]...)
			last := uint64(0)
			if nf > 0 {
				last = fulls[start+nf-1]
			}
			var cands []uint64
			for _, b := range shorts {
				if b > last {
					cands = append(cands, b)
				}
			}
			if len(cands) == 0 || (nf > 0 && ctx.Pick(4) == 0) {
				// a table of full blocks only
				if nf == 0 {
					t.blks = []uint64{fulls[start]}
				}
			} else {
				t.blks = append(t.blks, cands[ctx.Pick(len(cands))])
			}
			t.idxs = append([]uint64{}, t.blks...)
			t.flavor = 1
			ctx.Count("gen_ingest_tables")
		} else {
			n := ctx.Pick(5)
			if ctx.Pick(8) == 0 {
				n = 0
			}
			for j := 0; j < n; j++ {
				t.blks = append(t.blks, blocks[ctx.Pick(len(blocks))])
			}
			if ctx.Pick(4) != 0 {
				// the usual shape: distinct ascending blocks
				m := map[uint64]bool{}
				var l []uint64
				for _, b := range t.blks {
					if !m[b] {
						m[b] = true
						l = append(l, b)
					}
				}
				t.blks = c12SortU64(l)
			}
			t.idxs = append([]uint64{}, t.blks...)
			if ctx.Pick(10) == 0 {
				for j := range t.idxs {
					t.idxs[j] = blocks[ctx.Pick(len(blocks))]
				}
				ctx.Count("gen_tables_with_foreign_indices")
			}
		}
		for _, b := range t.blks {
			used[b] = true
		}
		for _, b := range t.idxs {
			used[b] = true
		}
		st.tables = append(st.tables, t)
		tids = append(tids, t.id)
		if ctx.Pick(100) < 85 {
			st.tblidx = append(st.tblidx, t.id)
		} else {
			ctx.Count("gen_tables_without_index")
		}
		if ctx.Pick(100) < 85 {
			st.prof = append(st.prof, t.id)
		}
	}
	// stored blocks / indices: most of the used ones, some leftovers
	for _, b := range P {
		if used[b] {
			if ctx.Pick(100) < 92 {
				st.blocks = append(st.blocks, b)
			} else {
				ctx.Count("gen_listed_block_not_stored")
			}
			if ctx.Pick(100) < 92 {
				st.blkidx = append(st.blkidx, b)
			}
		} else if c12BlkRows(b) == 2 || ctx.Pick(3) == 0 {
			if ctx.Pick(100) < 12 {
				st.blocks = append(st.blocks, b)
				ctx.Count("gen_leftover_block")
			}
			if ctx.Pick(100) < 12 {
				st.blkidx = append(st.blkidx, b)
			}
		}
	}
	// shallow tables and leftovers of tables that are gone
	var shallow []uint64
	for i, n := 0, ctx.Pick(4); i < n; i++ {
		shallow = append(shallow, uint64(4000+ctx.Pick(40)))
	}
	if ctx.Pick(6) == 0 {
		st.tblidx = append(st.tblidx, uint64(5000+ctx.Pick(8)))
		ctx.Count("gen_leftover_tblidx")
	}
	if ctx.Pick(6) == 0 {
		st.prof = append(st.prof, uint64(5000+ctx.Pick(8)))
	}
	if len(shallow) > 0 && ctx.Pick(4) == 0 {
		st.tblidx = append(st.tblidx, shallow[0])
	}
	// commits
	for i := 0; i < nC; i++ {
		c := c12Commit{id: uint64(i + 1)}
		if len(shallow) > 0 && ctx.Pick(100) < 15 {
			c.table = shallow[ctx.Pick(len(shallow))]
			ctx.Count("gen_shallow_commits")
		} else {
			c.table = tids[ctx.Pick(len(tids))]
		}
		np := 0
		if i > 0 {
			switch r := ctx.Pick(100); {
			case r < 15:
				np = 0
			case r < 75:
				np = 1
			default:
				np = 2
			}
		}
		for j := 0; j < np; j++ {
			lo := 0
			if ctx.Pick(5) != 0 && i > 3 {
				lo = i - 3
			}
			p := uint64(lo + ctx.Pick(i-lo) + 1)
			dup := false
			for _, q := range c.parents {
				dup = dup || q == p
			}
			if !dup {
				c.parents = append(c.parents, p)
			}
		}
		st.commits = append(st.commits, c)
	}
	if ctx.Pick(100) < 5 {
		i := ctx.Pick(nC)
		st.commits[i].parents = append(st.commits[i].parents, uint64(900+ctx.Pick(5)))
		ctx.Count("gen_missing_parent")
	}
	if ctx.Pick(2) == 0 {
		ctx.Rng.Shuffle(len(st.commits), func(i, j int) { st.commits[i], st.commits[j] = st.commits[j], st.commits[i] })
	}
	// refs
	nR := 1 + ctx.Pick(6)
	if ctx.Pick(20) == 0 {
		nR = 0
	}
	seen := map[[2]uint64]bool{}
	for i := 0; i < nR; i++ {
		r := c12Ref{kind: uint64(ctx.Pick(4)), num: uint64(ctx.Pick(16))}
		if seen[[2]uint64{r.kind, r.num}] {
			continue
		}
		seen[[2]uint64{r.kind, r.num}] = true
		if ctx.Pick(3) == 0 {
			r.commit = uint64(1 + ctx.Pick(nC))
		} else {
			r.commit = uint64(nC - ctx.Pick((nC+2)/3))
		}
		st.refs = append(st.refs, r)
		ctx.Count(fmt.Sprintf("gen_ref_kind_%d", r.kind))
	}
	if ctx.Pick(100) < 5 {
		st.refs = append(st.refs, c12Ref{kind: uint64(ctx.Pick(4)), num: 20, commit: 950})
		ctx.Count("gen_dangling_ref")
	}
	if ctx.Pick(2) == 0 {
		// ids 1..nC in random order, so that parents are not always the smaller ids (keys)
		f := map[uint64]uint64{}
		for i, j := range ctx.Rng.Perm(nC) {
			f[uint64(i+1)] = uint64(j + 1)
		}
		st = c12Relabel(st, f)
		ctx.Count("gen_permuted_commit_ids")
	}
	return st
}

func c12RandOps(g *c12Genr, st *c12State, crashOK bool) []*xt.T {
	ctx := g.ctx
	refs := append([]c12Ref{}, st.refs...)
	nC := len(st.commits)
	var ops []*xt.T
	for i, n := 0, 2+ctx.Pick(7); i < n; i++ {
		switch r := ctx.Pick(100); {
		case r < 30:
			ops = append(ops, c12OpPrune())
		case r < 60:
			if len(refs) == 0 {
				ops = append(ops, c12OpDel(uint64(ctx.Pick(4)), uint64(ctx.Pick(12))))
				continue
			}
			j := ctx.Pick(len(refs))
			ops = append(ops, c12OpDel(refs[j].kind, refs[j].num))
			refs = append(refs[:j], refs[j+1:]...)
		case r < 75:
			nr := c12Ref{kind: uint64(ctx.Pick(4)), num: uint64(ctx.Pick(16)), commit: uint64(1 + ctx.Pick(nC))}
			ops = append(ops, c12OpSet(nr.kind, nr.num, nr.commit))
			refs = append(refs, nr)
		default:
			if !crashOK {
				ops = append(ops, c12OpPrune())
				continue
			}
			ops = append(ops, c12OpCrash(ctx.Pick(31)), c12OpPrune())
		}
	}
	return append(ops, c12OpPrune(), c12OpPrune())
}

func c12Random(g *c12Genr) {
	n := 400
	if g.ctx.Thorough() {
		n = 6000
	}
	for i := 0; i < n; i++ {
		ing := g.ctx.Pick(100) < 8
		st := c12RandState(g, false, ing)
		tag := "rnd"
		if ing {
			tag = "ingest"
		}
		g.add(tag, 0, st, c12RandOps(g, st, true)...)
	}
}

func c12CLI(g *c12Genr) {
	n := 4
	if g.ctx.Thorough() {
		n = 25
	}
	for mode := 1; mode <= 2; mode++ {
		tag := "cli-prune"
		if mode == 2 {
			tag = "cli-gc"
		}
		for i := 0; i < n; i++ {
			st := c12RandState(g, true, i%5 == 4)
			ops := []*xt.T{}
			if len(st.refs) > 0 {
				r := st.refs[g.ctx.Pick(len(st.refs))]
				ops = append(ops, c12OpDel(r.kind, r.num))
			}
			g.add(tag, mode, st, append(ops, c12OpPrune(), c12OpPrune())...)
		}
	}
}

// ---------------------------------------------------------------------------
// big repositories on the real badger store: more than 100 keys follow every scanned prefix (badger's iterator
// prefetch window), every commit has its own table with index and profile; judged by the same oracle, compared
// with the same model.  mode 3 = prune.Prune on the badger store (with delete trace and crash prefixes),
// modes 1/2 = the CLI commands.

func c12BigState(g *c12Genr, nC int, manyBlocks bool) *c12State {
	ctx := g.ctx
	P := c12Pool()
	st := &c12State{}
	for i := 1; i <= nC; i++ {
		t := c12Table{id: uint64(i)}
		if manyBlocks {
			// own small blocks (ids below 100000 are 2-row blocks) + one shared with the neighbour
			t.blks = []uint64{uint64(1000 + 3*i), uint64(1001 + 3*i), uint64(1000 + 3*(i+1))}
		} else {
			t.blks = []uint64{P[2*ctx.Pick(4)]}
			if ctx.Pick(2) == 0 {
				t.blks = append(t.blks, P[8+2*ctx.Pick(4)])
			}
		}
		t.idxs = append([]uint64{}, t.blks...)
		st.tables = append(st.tables, t)
		c := c12Commit{id: uint64(i), table: uint64(i)}
		switch {
		case i == 1 || ctx.Pick(12) == 0: // a root
		case ctx.Pick(6) == 0 && i > 2: // a merge
			c.parents = []uint64{uint64(i - 1), uint64(1 + ctx.Pick(i-2))}
		default:
			c.parents = []uint64{uint64(1 + ctx.Pick(i-1))}
			if ctx.Pick(3) != 0 {
				c.parents = []uint64{uint64(i - 1)}
			}
		}
		st.commits = append(st.commits, c)
	}
	c12StoreAll(st)
	// refs of every kind on about a third of the commits, always including a few of the newest
	used := map[[2]uint64]bool{}
	addRef := func(com uint64) {
		for {
			r := c12Ref{kind: uint64(ctx.Pick(4)), num: uint64(ctx.Pick(16)), commit: com}
			if !used[[2]uint64{r.kind, r.num}] {
				used[[2]uint64{r.kind, r.num}] = true
				st.refs = append(st.refs, r)
				return
			}
		}
	}
	addRef(uint64(nC - ctx.Pick(3)))
	for i := 0; i < 2+ctx.Pick(4); i++ {
		addRef(uint64(1 + ctx.Pick(nC)))
	}
	return st
}

func c12Badger(g *c12Genr) {
	ctx := g.ctx
	type spec struct {
		mode, nC int
		many     bool
	}
	specs := []spec{{3, 40, false}, {1, 36, true}}
	if ctx.Thorough() {
		specs = nil
		for i := 0; i < 14; i++ {
			specs = append(specs, spec{3, 30 + ctx.Pick(60), i%3 == 2})
		}
		for i := 0; i < 5; i++ {
			specs = append(specs, spec{1, 30 + ctx.Pick(40), i%2 == 1}, spec{2, 30 + ctx.Pick(40), i%2 == 0})
		}
		specs = append(specs, spec{3, 130, false}, spec{3, 110, true})
	}
	for _, sp := range specs {
		st := c12BigState(g, sp.nC, sp.many)
		ops := []*xt.T{c12OpPrune(), c12OpPrune()}
		// drop refs one at a time, prune after each
		for i, r := range st.refs {
			if i >= 3 {
				break
			}
			ops = append(ops, c12OpDel(r.kind, r.num))
			if sp.mode == 3 && !sp.many && i == 1 {
				ops = append(ops, c12OpCrash(ctx.Pick(40)))
			}
			ops = append(ops, c12OpPrune())
		}
		ops = append(ops, c12OpPrune())
		g.add("badger", sp.mode, st, ops...)
		ctx.Count(fmt.Sprintf("gen_badger_mode%d", sp.mode))
	}
}

// ---------------------------------------------------------------------------
// gc (transaction.GarbageCollect + prune, as cmd/wrgl/gc_cmd.go) under several process time zones, with TTLs around
// the zone offset and open transactions younger and older than the TTL: the result must not depend on the zone.

func c12GCZones(g *c12Genr) {
	ctx := g.ctx
	zones := []int{-480, 0, 540}
	if ctx.Thorough() {
		zones = []int{-480, 0, 540, -210, 345, -720, 840}
	}
	reps := 2
	if ctx.Thorough() {
		reps = 14
	}
	P := c12Pool()
	for _, off := range zones {
		abs := off
		if abs < 0 {
			abs = -abs
		}
		ttls := []uint64{60, 1440}
		if abs > 120 {
			ttls = append(ttls, uint64(abs-60), uint64(abs+60))
		} else {
			ttls = append(ttls, 300)
		}
		for _, ttl := range ttls {
			for rep := 0; rep < reps; rep++ {
				mode := 0
				switch {
				case rep == 1 && ttl == ttls[0]:
					mode = 2
				case rep == 1 && ttl == ttls[1]:
					mode = 3
				case ctx.Thorough() && rep%7 == 5:
					mode = 2
				case ctx.Thorough() && rep%7 == 6:
					mode = 3
				}
				// a main line on a branch, and one pending commit (own table) per transaction group
				st := &c12State{}
				nMain := 2 + ctx.Pick(3)
				id := uint64(0)
				newCommit := func(parents ...uint64) uint64 {
					id++
					t := c12Table{id: id, blks: []uint64{P[2*ctx.Pick(8)]}}
					t.idxs = append([]uint64{}, t.blks...)
					st.tables = append(st.tables, t)
					st.commits = append(st.commits, c12Commit{id: id, table: id, parents: parents})
					return id
				}
				tip := uint64(0)
				for i := 0; i < nMain; i++ {
					if tip == 0 {
						tip = newCommit()
					} else {
						tip = newCommit(tip)
					}
				}
				st.refs = append(st.refs, c12Ref{0, uint64(ctx.Pick(4)), tip})
				env := &c12EnvT{tz: uint64(1000 + off), ages: map[uint64]uint64{}}
				// the transactions may have been opened by a process in another zone than the one gc runs in:
				// one hour apart (what a DST change does to one machine), half-hour zones, the far side of the globe
				if rep%2 == 1 || ctx.Pick(3) == 0 {
					builds := []int{off + 60, off - 60, 330, -210, 345, -570, off + 720, off - 720, 0, 840, -720}
					b := builds[ctx.Pick(len(builds))]
					for b > 840 {
						b -= 1440
					}
					for b < -720 {
						b += 1440
					}
					if b != off {
						env.tzB = uint64(1000 + b)
						ctx.Count("gen_gczone_build_zone_differs")
						if b-off == 60 || off-b == 60 {
							ctx.Count("gen_gczone_build_zone_one_hour_apart")
						}
						if b%60 != 0 {
							ctx.Count("gen_gczone_build_zone_half_hour")
						}
					}
				}
				// ages well away from the TTL (the clock moves by milliseconds between build and gc)
				ageChoices := []uint64{0, 1, ttl / 2, ttl - 20, ttl + 20, ttl + 45, 2 * ttl, ttl + 900}
				for grp := uint64(0); grp < 6; grp++ {
					if ctx.Pick(5) == 0 {
						continue
					}
					env.ages[grp] = ageChoices[ctx.Pick(len(ageChoices))]
					// one or two pending commits on top of the main line, staged under nested branch names
					pend := newCommit(uint64(1 + ctx.Pick(nMain)))
					st.refs = append(st.refs, c12Ref{3, grp*4 + uint64(ctx.Pick(4)), pend})
					if ctx.Pick(3) == 0 {
						pend2 := newCommit(pend)
						for {
							n := grp*4 + uint64(ctx.Pick(4))
							if n != st.refs[len(st.refs)-1].num {
								st.refs = append(st.refs, c12Ref{3, n, pend2})
								break
							}
						}
					}
				}
				newCommit() // an orphan, so that prune has work even when nothing expires
				c12StoreAll(st)
				ops := []*xt.T{c12OpGC(ttl), c12OpPrune()}
				if mode == 2 {
					ops = []*xt.T{c12OpGC(ttl), c12OpGC(ttl)}
				} else if ctx.Pick(2) == 0 {
					// a second gc with a shorter TTL after the first
					ops = []*xt.T{c12OpGC(ttl + 30), c12OpGC(ttl), c12OpGC(ttl / 3), c12OpPrune()}
				}
				g.addEnv("gczone", mode, st, env, ops...)
				ctx.Count(fmt.Sprintf("gen_gczone_utc%+d", off))
			}
		}
	}
}
