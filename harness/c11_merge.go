package main

import (
	"bytes"
	"context"
	"database/sql"
	"encoding/csv"
	"encoding/hex"
	"fmt"
	"io"
	"os"
	"path/filepath"
	"sort"
	"strings"

	"github.com/go-logr/logr"
	_ "github.com/mattn/go-sqlite3"
	"github.com/spf13/cobra"
	wrgl "github.com/wrgl/wrgl/cmd/wrgl"
	"github.com/wrgl/wrgl/cmd/wrgl/utils"
	"github.com/wrgl/wrgl/pkg/conf"
	"github.com/wrgl/wrgl/pkg/ingest"
	"github.com/wrgl/wrgl/pkg/objects"
	"github.com/wrgl/wrgl/pkg/ref"
	refsql "github.com/wrgl/wrgl/pkg/ref/sql"
	"github.com/wrgl/wrgl/pkg/sorter"

	"verifharness/xt"
)

// C11, kind 5: which merge base does the merge COMMAND use (cmd/wrgl runMerge, reached through the
// verif hook wrgl.VerifRunMerge = the body of `wrgl merge` / `wrgl pull` with several heads).
// Every commit of the graph carries the table {a=1, b=n<i>}; with --no-gui and at least two heads that
// differ from the base the command writes CONFLICTS_*.csv whose "BASE <sum7>" row is the base's row
// (b = n<base>); a fast-forward / "identical" outcome names the base through the command output.
// Judged (a) against ref.SeekCommonAncestor called once with all heads (what runMerge is specified to
// do) and (b) by the graph oracle of kind 1.

// outcome: 0 found x | 1 error | 2 "not found" | 3 nil | (command only) 4 base not observable | 5 the command panicked
func c11BaseOutcome(w *c11World, base []byte, err error) (int, int) {
	switch {
	case err != nil && strings.Contains(err.Error(), "common ancestor commit not found"):
		return 2, 0
	case err != nil:
		return 1, 0
	case base == nil:
		return 3, 0
	}
	return 0, w.idx(base)
}

func c11BaseText(outcome, x int) string {
	switch outcome {
	case 0:
		return fmt.Sprintf("commit %d", x)
	case 1:
		return "an error"
	case 2:
		return "\"common ancestor commit not found\""
	}
	return fmt.Sprintf("outcome %d", outcome)
}

func c11BaseObs(outcome, x int) *xt.T {
	if outcome == 0 {
		return xt.N(xt.LI(0), xt.LI(x))
	}
	return xt.N(xt.LI(outcome))
}

// c11JudgeBase: the merge-base clauses of the property, by DFS reachability and set intersection.
// prefix = "seek" (library) or "merge" (command); a base that is not common for >= 3 inputs is the
// library's known class in both cases.
func c11JudgeBase(w *c11World, cs []int, outcome, x int, err error, prefix, what string, bad func(class, format string, a ...interface{})) {
	ar := "2"
	if len(cs) >= 3 {
		ar = "3"
	}
	missing := false
	reaches := make([]map[int]bool, len(cs))
	for i, c := range cs {
		var m bool
		reaches[i], m = w.reach([]int{c})
		missing = missing || m
	}
	common := []int{}
	if len(cs) > 0 {
		for y := range reaches[0] {
			all := true
			for _, r := range reaches[1:] {
				all = all && r[y]
			}
			if all {
				common = append(common, y)
			}
		}
		sort.Ints(common)
	}
	inputBase := -1 // first input that is an ancestor-or-self of every other input
	if len(cs) > 1 {
		for i, c := range cs {
			all := true
			for j := range cs {
				all = all && (i == j || reaches[j][c])
			}
			if all {
				inputBase = c
				break
			}
		}
	}
	switch outcome {
	case 2:
		if !missing && len(common) > 0 {
			bad(prefix+ar+"-missing-although-exists", "%s%v reports no common ancestor but %v are common ancestors", what, cs, common)
		}
	case 1:
		if !missing {
			bad(prefix+"-unexpected-error", "%s%v on a complete history: %v", what, cs, err)
		}
	case 3:
		bad(prefix+"-nil-result", "%s%v returned neither a commit nor an error", what, cs)
	default:
		if missing {
			return
		}
		isCommon := false
		for _, y := range common {
			isCommon = isCommon || y == x
		}
		if !isCommon {
			class := prefix + ar + "-result-not-common-ancestor"
			if ar == "3" {
				class = "seek3-result-not-common-ancestor"
			}
			bad(class, "%s%v = %d which is not an ancestor-or-self of every input (common ancestors: %v)", what, cs, x, common)
		} else if inputBase >= 0 {
			// the result must be an input that is an ancestor-or-self of all the others
			okIn := false
			for i, y := range cs {
				if y != x {
					continue
				}
				all := true
				for j := range cs {
					all = all && (i == j || reaches[j][y])
				}
				okIn = okIn || all
			}
			if !okIn {
				bad(prefix+ar+"-input-base-not-returned", "%s%v = %d although input %d is an ancestor-or-self of all the others", what, cs, x, inputBase)
			}
		}
	}
}

func c11IngestTable(db objects.Store, i int) []byte {
	s, err := sorter.NewSorter(sorter.WithRunSize(1 << 30))
	if err != nil {
		panic(err)
	}
	data := fmt.Sprintf("a,b\n1,n%d\n", i)
	sum, err := ingest.IngestTable(db, s, io.NopCloser(strings.NewReader(data)), []string{"a"}, logr.Discard())
	if err != nil {
		panic(err)
	}
	return sum
}

func c11RefStore() (ref.Store, func()) {
	db, err := sql.Open("sqlite3", ":memory:")
	if err != nil {
		panic(err)
	}
	db.SetMaxOpenConns(1)
	for _, stmt := range refsql.CreateTableStmts {
		if _, err := db.Exec(stmt); err != nil {
			panic(err)
		}
	}
	return refsql.NewStore(db), func() { db.Close() }
}

var c11Conf = &conf.Config{User: &conf.User{Name: "V", Email: "v@x.y"}}

// c11MergeBase runs the command and returns (outcome, base index, error of the command)
func c11MergeBase(ctx *Ctx, w *c11World, heads []int) (int, int, error) {
	rs, closeRS := c11RefStore()
	defer closeRS()
	if err := ref.SaveRef(rs, "heads/main", w.sum(heads[0]), "V", "v@x.y", "commit", "init", nil); err != nil {
		panic(err)
	}
	wd := filepath.Join(ctx.Tmp, "c11merge")
	os.RemoveAll(wd)
	if err := os.MkdirAll(wd, 0o755); err != nil {
		panic(err)
	}
	old, err := os.Getwd()
	if err != nil {
		panic(err)
	}
	if err := os.Chdir(wd); err != nil {
		panic(err)
	}
	defer func() {
		os.Chdir(old)
		os.RemoveAll(wd)
	}()
	cmd := &cobra.Command{Use: "wrgl"}
	cmd.Flags().IntP("num-workers", "n", 1, "")
	cmd.Flags().Uint64("mem-limit", 0, "")
	cmd.Flags().Bool("no-progress", true, "")
	cmd.Flags().String("delimiter", "", "")
	lg := logr.Discard()
	cmd.SetContext(utils.SetLogger(context.Background(), &lg))
	outBuf := bytes.NewBuffer(nil)
	cmd.SetOut(outBuf)
	cmd.SetErr(outBuf)
	args := []string{"main"}
	for _, h := range heads[1:] {
		args = append(args, hex.EncodeToString(w.sum(h)))
	}
	panicked := false
	func() {
		defer func() {
			if r := recover(); r != nil {
				panicked = true
				err = fmt.Errorf("panic: %v", r)
			}
		}()
		err = wrgl.VerifRunMerge(cmd, c11Conf, w.db, rs, args, false, true, conf.FF_Default, "", 1, "", nil)
	}()
	if panicked {
		return 5, 0, err
	}
	if err != nil {
		o, _ := c11BaseOutcome(w, nil, err)
		return o, 0, err
	}
	text := outBuf.String()
	switch {
	case strings.Contains(text, "All commits are identical"):
		return 0, heads[0], nil
	case strings.Contains(text, "Fast forward to "):
		// exactly one distinct head differs from the base: the base is any other head
		h7 := strings.TrimSpace(text[strings.Index(text, "Fast forward to ")+len("Fast forward to "):])
		for _, h := range heads {
			if !strings.HasPrefix(hex.EncodeToString(w.sum(h)), h7) {
				return 0, h, nil
			}
		}
		return 4, 0, fmt.Errorf("fast forward to %s but every head has that sum", h7)
	}
	files, _ := filepath.Glob(filepath.Join(wd, "CONFLICTS_*.csv"))
	if len(files) != 1 {
		return 4, 0, fmt.Errorf("no fast-forward and %d CONFLICTS files (output %q)", len(files), text)
	}
	f, err := os.Open(files[0])
	if err != nil {
		panic(err)
	}
	defer f.Close()
	r := csv.NewReader(f)
	r.FieldsPerRecord = -1
	rows, err := r.ReadAll()
	if err != nil {
		return 4, 0, err
	}
	for _, row := range rows {
		if len(row) >= 3 && strings.HasPrefix(row[0], "BASE ") && strings.HasPrefix(row[2], "n") {
			var b int
			if _, err := fmt.Sscanf(row[2], "n%d", &b); err != nil || b >= len(w.sums) {
				return 4, 0, fmt.Errorf("unreadable BASE row %v", row)
			}
			if !strings.HasPrefix(hex.EncodeToString(w.sums[b]), strings.TrimPrefix(row[0], "BASE ")) {
				return 4, 0, fmt.Errorf("BASE row %v carries the table of commit %d but another commit's sum", row, b)
			}
			return 0, b, nil
		}
	}
	return 4, 0, fmt.Errorf("CONFLICTS file without a BASE row: %v", rows)
}

func c11RunMerge(ctx *Ctx, w *c11World, q *xt.T, bad func(class, format string, a ...interface{})) *xt.T {
	heads := c11Ints(q)
	if len(heads) == 0 {
		panic("c11: merge query without heads")
	}
	outcome, x, err := c11MergeBase(ctx, w, heads)
	if outcome == 4 {
		bad("merge-base-unobservable", "merge of heads %v: %v", heads, err)
		return xt.N(xt.LI(4))
	}
	// (a) the command's base = the library's answer for all heads at once
	lbase, lerr := ref.SeekCommonAncestor(w.db, c11Sums(w, heads)...)
	lo, lx := c11BaseOutcome(w, lbase, lerr)
	if outcome == 5 {
		// the command crashed after selecting its base.  Narrow class for the crash of the --no-gui report when
		// the base is itself one of the heads and at least two other heads remain (labels are not filtered
		// together with the commits); anything else is a plain panic.
		others := 0
		isHead := false
		for _, h := range heads {
			if lo == 0 && h == lx {
				isHead = true
			} else {
				others++
			}
		}
		if isHead && others >= 2 {
			bad("merge-nogui-panics-when-base-is-a-head", "merge --no-gui of heads %v (base %d is one of them): %v", heads, lx, err)
		} else {
			bad("panic", "merge of heads %v: %v", heads, err)
		}
		return xt.N(xt.LI(5))
	}
	if lo != outcome || (lo == 0 && lx != x) {
		bad("merge-base-differs-from-library", "merge of heads %v answered %s but SeekCommonAncestor over all heads answers %s",
			heads, c11BaseText(outcome, x), c11BaseText(lo, lx))
	}
	// (b) the graph oracle
	c11JudgeBase(w, heads, outcome, x, err, "merge", "merge base of heads ", bad)
	return c11BaseObs(outcome, x)
}

// ---------------------------------------------------------------------------
// generator of merge-command cases
// ---------------------------------------------------------------------------

func c11Perms(l []int) [][]int {
	if len(l) <= 1 {
		return [][]int{append([]int{}, l...)}
	}
	var res [][]int
	for i := range l {
		rest := append(append([]int{}, l[:i]...), l[i+1:]...)
		for _, p := range c11Perms(rest) {
			res = append(res, append([]int{l[i]}, p...))
		}
	}
	return res
}

// histories with SEVERAL independent common ancestors: k unrelated roots (each optionally continued by one
// commit), merge heads over pairs of root lines in either parent order (criss-cross), tail heads that
// descend from one line only.  Returns the shape and the interesting heads.
func c11MultiBaseShape(k int, ext []bool, merges [][2]int, tails []int) (shape [][]int, tips, mergeHeads, tailHeads []int) {
	for i := 0; i < k; i++ {
		shape = append(shape, []int{})
		tips = append(tips, i)
	}
	for i := 0; i < k; i++ {
		if ext[i] {
			shape = append(shape, []int{tips[i]})
			tips[i] = len(shape) - 1
		}
	}
	for _, m := range merges {
		shape = append(shape, []int{tips[m[0]], tips[m[1]]})
		mergeHeads = append(mergeHeads, len(shape)-1)
	}
	for _, t := range tails {
		shape = append(shape, []int{tips[t]})
		tailHeads = append(tailHeads, len(shape)-1)
	}
	return
}

func c11GenMerge(ctx *Ctx, e *c11Emitter) {
	P := func(ps ...int) []int { return ps }
	emitAlso := func(tag string, nodes []c11Node, qs [][]int) {
		e.emit(tag, 5, nodes, c11TupleQueries(qs), 6)
		e.emit(tag, 1, nodes, c11TupleQueries(qs), 40) // the library on the same tuples
	}
	// fixed: the fast-forward history and the >= 3-input witnesses through the command
	ff := [][]int{P(), P(0), P(1), P(2, 0)}
	for r := 0; r < c11NRegimes; r++ {
		nodes := c11ApplyRegime(ctx, ff, r)
		emitAlso("merge-witness", nodes, [][]int{{1, 3}, {3, 1}, {2}, {2, 2}, {1, 1, 3}, {0, 1, 2, 3}, {3, 2, 1}})
	}
	{
		nodes := c11ApplyRegime(ctx, [][]int{P(), P(), P(1, 0), P(2)}, c11Topo)
		emitAlso("merge-witness", nodes, [][]int{{0, 1}, {0, 1, 3}, {3, 0}})
		gone := c11ApplyRegime(ctx, ff, c11Topo)
		gone[1].present = false
		emitAlso("merge-witness", gone, [][]int{{3, 2}, {2, 3}, {1, 3}, {3, 1}, {3, 9}})
	}
	// small exhaustive criss-cross scope: 2 roots, two merge heads in all parent orders, one tail head on either
	// root, all regimes; every order of (merge, merge, tail) and with a root itself as a head
	for o1 := 0; o1 < 2; o1++ {
		for o2 := 0; o2 < 2; o2++ {
			for t := 0; t < 2; t++ {
				shape, tips, ms, ts := c11MultiBaseShape(2, []bool{false, false},
					[][2]int{{o1, 1 - o1}, {o2, 1 - o2}}, []int{t})
				for r := 0; r < c11NRegimes; r++ {
					nodes := c11ApplyRegime(ctx, shape, r)
					ctx.Count("merge_crisscross_graphs")
					qs := c11Perms([]int{ms[0], ms[1], ts[0]})
					qs = append(qs, []int{ms[0], ms[1], tips[t]}, []int{tips[t], ms[1], ms[0]}, []int{ms[0], ms[1]},
						[]int{ms[0], ms[1], ts[0], tips[1-t]})
					emitAlso("merge-cc", nodes, qs)
				}
			}
		}
	}
	// random members of the family: 2..3 roots, optional continuation, 2..3 merge heads, 1..2 tails
	nfam := 12
	if ctx.Thorough() {
		nfam = 400
	}
	for it := 0; it < nfam; it++ {
		k := 2 + ctx.Pick(2)
		ext := make([]bool, k)
		for i := range ext {
			ext[i] = ctx.Pick(3) == 0
		}
		var merges [][2]int
		for i := 0; i < 2+ctx.Pick(2); i++ {
			a := ctx.Pick(k)
			b := (a + 1 + ctx.Pick(k-1)) % k
			merges = append(merges, [2]int{a, b})
		}
		var tails []int
		for i := 0; i < 1+ctx.Pick(2); i++ {
			tails = append(tails, ctx.Pick(k))
		}
		shape, tips, ms, ts := c11MultiBaseShape(k, ext, merges, tails)
		nodes := c11ApplyRegime(ctx, shape, ctx.Pick(c11NRegimes))
		ctx.Count("merge_family_graphs")
		heads := append(append(append([]int{}, ms...), ts...), tips[ctx.Pick(k)])
		var qs [][]int
		for j := 0; j < 6; j++ {
			n := 2 + ctx.Pick(3)
			perm := ctx.Rng.Perm(len(heads))
			var q []int
			for _, i := range perm {
				if len(q) < n {
					q = append(q, heads[i])
				}
			}
			qs = append(qs, q)
		}
		emitAlso("merge-family", nodes, qs)
	}
	// a sample of the exhaustive small scope (all DAGs <= 5 commits): heads = ordered tuples without repetition
	ngr, per := 60, 3
	if ctx.Thorough() {
		ngr, per = 1500, 6
	}
	for it := 0; it < ngr; it++ {
		n := 3 + ctx.Pick(3)
		shapes := c11Shapes(n)
		shape := shapes[ctx.Pick(len(shapes))]
		nodes := c11ApplyRegime(ctx, shape, ctx.Pick(c11NRegimes))
		var qs [][]int
		for j := 0; j < per; j++ {
			qs = append(qs, ctx.Rng.Perm(n)[:2+ctx.Pick(c11MinI(n-1, 3))])
		}
		emitAlso("merge-exh", nodes, qs)
	}
}

func c11MinI(a, b int) int {
	if a < b {
		return a
	}
	return b
}
