package main

import (
	"bufio"
	"context"
	"database/sql"
	"encoding/csv"
	"fmt"
	"io"
	"os"
	"path/filepath"
	"strings"
	"time"

	"github.com/go-logr/logr"
	_ "github.com/mattn/go-sqlite3"
	"github.com/spf13/cobra"
	wrgl "github.com/wrgl/wrgl/cmd/wrgl"
	"github.com/wrgl/wrgl/cmd/wrgl/utils"
	"github.com/wrgl/wrgl/pkg/conf"
	"github.com/wrgl/wrgl/pkg/local"
	"github.com/wrgl/wrgl/pkg/objects"
	"github.com/wrgl/wrgl/pkg/ref"
	refsql "github.com/wrgl/wrgl/pkg/ref/sql"

	"verifharness/xt"
)

// command-level entry points of C16 (always executed in a child process, see c16RunChild)

func c16RefStore() (ref.Store, func()) {
	sdb, err := sql.Open("sqlite3", ":memory:")
	if err != nil {
		panic(err)
	}
	sdb.SetMaxOpenConns(1)
	for _, stmt := range refsql.CreateTableStmts {
		if _, err := sdb.Exec(stmt); err != nil {
			panic(err)
		}
	}
	return refsql.NewStore(sdb), func() { sdb.Close() }
}

// a bare command with the flags and the context that commit() / ingestTable() read
func c16Cmd(workers int, noProgress bool) *cobra.Command {
	cmd := &cobra.Command{Use: "commit"}
	cmd.Flags().IntP("num-workers", "n", workers, "")
	cmd.Flags().Uint64("mem-limit", 0, "")
	cmd.Flags().Bool("no-progress", noProgress, "")
	cmd.Flags().String("delimiter", "", "")
	lg := logr.Discard()
	cmd.SetContext(utils.SetLogger(context.Background(), &lg))
	cmd.SetOut(io.Discard)
	cmd.SetErr(io.Discard)
	return cmd
}

// ---------------------------------------------------------------- kind 9: wrgl commit, failing block writes

func c16CommitChild(ctx *Ctx, c *xt.T) (*xt.T, Verdict) {
	req, nblocks, bars := int(c16Kid(c, 1).N), int(c16Kid(c, 2).N), c16Kid(c, 3).N != 0
	path := filepath.Join(ctx.Tmp, "c16commit.csv")
	c16WriteCSV(path, nblocks*255-3, 11)
	defer os.Remove(path)
	cfg := &conf.Config{User: &conf.User{Name: "V", Email: "v@x.y"}}
	obs := xt.N()
	v := OK()
	bad := func(class, format string, a ...interface{}) {
		if v.OK {
			v = Fail(class, format, a...)
		}
	}
	var okTable []byte
	for k := 0; k <= nblocks; k++ { // k = 0: no failure; k >= 1: the k-th block write fails (once)
		db := c16NewStore(int64(k), 20, 10)
		db.failNthBlk = k
		rs, closeRS := c16RefStore()
		var sum []byte
		var err error
		finished, pv := c16Guard(15*time.Second, func() {
			sum, err = wrgl.VerifCommit(c16Cmd(req, !bars), db, rs, path, "m", "main", []string{"id"}, cfg, !bars, nil, 0)
		})
		switch {
		case !finished:
			obs.Add(xt.L(3))
			bad("commit-hang-on-worker-error", "wrgl commit -n %d (progress bars %v) over %d blocks has not returned 15s after block write #%d failed: the worker's error never reaches the caller", req, bars, nblocks, k)
			// the stuck command owns the package-level bar container: stop here (the child exits)
			return c16Pad(obs, nblocks+1), v
		case pv != nil:
			obs.Add(xt.L(2))
			bad("panic", "wrgl commit panicked: %v", pv)
		case err != nil:
			obs.Add(xt.L(1))
			if k == 0 {
				bad("unexpected-error", "wrgl commit without injected failure returned %v", err)
			} else if !strings.Contains(err.Error(), errC16Injected.Error()) {
				bad("wrong-error", "block write #%d failed with the injected error but commit reported: %v", k, err)
			}
		default:
			obs.Add(xt.L(0))
			if k > 0 {
				bad("error-swallowed", "block write #%d failed but wrgl commit -n %d reported success (commit %x)", k, req, sum)
				break
			}
			com, gerr := objects.GetCommit(db, sum)
			if gerr != nil {
				bad("commit-unreadable", "commit %x cannot be read back: %v", sum, gerr)
				break
			}
			t, gerr := objects.GetTable(db, com.Table)
			if gerr != nil || int(t.RowsCount) != nblocks*255-3 || len(t.Blocks) != nblocks {
				bad("rowcount-wrong", "committed table: %v rows / blocks, expected %d / %d (%v)", t, nblocks*255-3, nblocks, gerr)
			}
			okTable = com.Table
		}
		closeRS()
		ctx.Count("commit_runs")
	}
	_ = okTable
	return obs, v
}

func c16Pad(t *xt.T, n int) *xt.T {
	for len(t.Kids) < n {
		t.Add(xt.L(9))
	}
	return t
}

// ---------------------------------------------------------------- kind 10: wrgl diff FILE FILE -n N

func c16WriteDiffCSVs(dir string, nblocks, added, removed, modified int) {
	n := nblocks * 255
	of, err := os.Create(filepath.Join(dir, "old.csv"))
	if err != nil {
		panic(err)
	}
	nf, err := os.Create(filepath.Join(dir, "new.csv"))
	if err != nil {
		panic(err)
	}
	ow, nw := csv.NewWriter(bufio.NewWriter(of)), csv.NewWriter(bufio.NewWriter(nf))
	ow.Write([]string{"id", "name", "value"})
	nw.Write([]string{"id", "name", "value"})
	// disjoint positions: rows 0,3,6,.. are removed, rows 1,4,7,.. modified (counts <= n/3)
	if removed > n/3 || modified > n/3 {
		panic("c16: too many removed / modified rows for the file size")
	}
	for i := 0; i < n; i++ {
		row := []string{fmt.Sprintf("%07d", i), fmt.Sprintf("name-%d", i), fmt.Sprint(i * 7)}
		ow.Write(row)
		switch {
		case i%3 == 0 && i/3 < removed:
		case i%3 == 1 && i/3 < modified:
			nw.Write([]string{row[0], row[1], row[2] + "-changed"})
		default:
			nw.Write(row)
		}
	}
	for i := 0; i < added; i++ {
		nw.Write([]string{fmt.Sprintf("9%06d", i), fmt.Sprintf("new-%d", i), "0"})
	}
	ow.Flush()
	nw.Flush()
	of.Close()
	nf.Close()
}

func c16DiffOnce(dir, wrglDir string, workers int) (a, r, m int, err error) {
	old, _ := filepath.Glob(filepath.Join(dir, "DIFF_*.csv"))
	for _, p := range old {
		os.Remove(p)
	}
	cmd := wrgl.RootCmd()
	cmd.SetOut(io.Discard)
	cmd.SetErr(io.Discard)
	cmd.SetArgs([]string{"diff", "new.csv", "old.csv", "--primary-key", "id", "--no-gui", "--no-progress",
		"--wrgl-dir", wrglDir, "--num-workers", fmt.Sprint(workers)})
	if err = cmd.Execute(); err != nil {
		return
	}
	matches, _ := filepath.Glob(filepath.Join(dir, "DIFF_*.csv"))
	if len(matches) != 1 {
		return 0, 0, 0, fmt.Errorf("expected one DIFF_*.csv, found %d", len(matches))
	}
	f, err := os.Open(matches[0])
	if err != nil {
		return
	}
	defer f.Close()
	rd := csv.NewReader(f)
	rd.FieldsPerRecord = -1
	recs, err := rd.ReadAll()
	if err != nil {
		return
	}
	for _, rec := range recs {
		switch {
		case strings.HasPrefix(rec[0], "ADDED IN"):
			a++
		case strings.HasPrefix(rec[0], "REMOVED IN"):
			r++
		case strings.HasPrefix(rec[0], "MODIFIED IN"):
			m++
		}
	}
	return
}

func c16DiffChild(ctx *Ctx, c *xt.T) (*xt.T, Verdict) {
	nblocks, workers := int(c16Kid(c, 1).N), int(c16Kid(c, 2).N)
	added, removed, modified, reps := int(c16Kid(c, 3).N), int(c16Kid(c, 4).N), int(c16Kid(c, 5).N), int(c16Kid(c, 6).N)
	if reps < 1 {
		reps = 1
	}
	dir := filepath.Join(ctx.Tmp, "c16diff")
	os.RemoveAll(dir)
	if err := os.MkdirAll(dir, 0700); err != nil {
		panic(err)
	}
	defer os.RemoveAll(dir)
	wrglDir := filepath.Join(dir, ".wrgl")
	rd, err := local.NewRepoDir(wrglDir, "")
	if err != nil {
		panic(err)
	}
	if err := rd.Init(); err != nil {
		panic(err)
	}
	rd.Close()
	c16WriteDiffCSVs(dir, nblocks, added, removed, modified)
	wd, _ := os.Getwd()
	if err := os.Chdir(dir); err != nil {
		panic(err)
	}
	defer os.Chdir(wd)
	v := OK()
	bad := func(class, format string, a ...interface{}) {
		if v.OK {
			v = Fail(class, format, a...)
		}
	}
	// single-threaded reference
	var a1, r1, m1 int
	var e1 error
	if fin, pv := c16Guard(60*time.Second, func() { a1, r1, m1, e1 = c16DiffOnce(dir, wrglDir, 1) }); !fin || pv != nil || e1 != nil {
		return xt.N(xt.L(9)), Fail("reference-error", "wrgl diff -n 1 failed: finished=%v panic=%v err=%v", fin, pv, e1)
	}
	if a1 != added || r1 != removed || m1 != modified {
		bad("diff-result-wrong", "wrgl diff -n 1 reports +%d/-%d/m%d, the files differ by +%d/-%d/m%d", a1, r1, m1, added, removed, modified)
	}
	obs := xt.N(xt.L(0), xt.LI(a1), xt.LI(r1), xt.LI(m1))
	for rep := 0; rep < reps && v.OK; rep++ {
		var a, r, m int
		var err error
		fin, pv := c16Guard(60*time.Second, func() { a, r, m, err = c16DiffOnce(dir, wrglDir, workers) })
		switch {
		case !fin:
			obs = xt.N(xt.L(3))
			bad("hang", "wrgl diff -n %d did not return within 60s", workers)
		case pv != nil:
			obs = xt.N(xt.L(2))
			bad("panic", "wrgl diff -n %d panicked: %v", workers, pv)
		case err != nil:
			obs = xt.N(xt.L(1))
			bad("diff-error-multi-worker", "wrgl diff NEW.csv OLD.csv -n %d fails (%v) where -n 1 succeeds (%d blocks per file, repetition %d)", workers, err, nblocks, rep)
		case a != a1 || r != r1 || m != m1:
			obs = xt.N(xt.L(0), xt.LI(a), xt.LI(r), xt.LI(m))
			bad("diff-result-differs-from-one-worker", "wrgl diff -n %d reports +%d/-%d/m%d, -n 1 reports +%d/-%d/m%d", workers, a, r, m, a1, r1, m1)
		}
		ctx.Count("diff_cmd_runs")
	}
	return obs, v
}
