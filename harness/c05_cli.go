package main

import (
	"bytes"
	"encoding/csv"
	"fmt"
	"os"
	"path/filepath"
	"sort"
	"strings"
	"time"

	"github.com/spf13/viper"
	wrgl "github.com/wrgl/wrgl/cmd/wrgl"
	"github.com/wrgl/wrgl/pkg/local"
	"github.com/wrgl/wrgl/pkg/objects"
	"github.com/wrgl/wrgl/pkg/ref"

	"verifharness/xt"
)

// CLI route of C05: wrgl merge --no-gui / --no-commit / commit + wrgl export, in-process.

func c05Cmd(args ...string) (string, error) {
	cmd := wrgl.RootCmd()
	buf := bytes.NewBuffer(nil)
	cmd.SetOut(buf)
	cmd.SetErr(buf)
	cmd.SetArgs(args)
	err := cmd.Execute()
	return buf.String(), err
}

func c05ReadCSV(path string) ([][]string, error) {
	b, err := os.ReadFile(path)
	if err != nil {
		return nil, err
	}
	r := csv.NewReader(bytes.NewReader(b))
	r.FieldsPerRecord = -1
	return r.ReadAll()
}

func c05Glob1(dir, pat string) (string, error) {
	l, _ := filepath.Glob(filepath.Join(dir, pat))
	if len(l) != 1 {
		return "", fmt.Errorf("expected one file %s, found %d", pat, len(l))
	}
	return l[0], nil
}

func c05RunCLI(ctx *Ctx, base *c05Table, others []*c05Table) (*xt.T, Verdict) {
	if len(others) != 2 {
		return xt.N(xt.LI(1)), OK() // wrgl merge takes exactly BRANCH COMMIT
	}
	root, err := os.MkdirTemp(ctx.Tmp, "c05cli")
	if err != nil {
		panic(err)
	}
	defer os.RemoveAll(root)
	old, _ := os.Getwd()
	if err := os.Chdir(root); err != nil {
		panic(err)
	}
	defer os.Chdir(old)
	setup := func(err error) (*xt.T, Verdict) { return xt.N(xt.LI(1)), Fail("harness-setup", "%v", err) }
	wrglDir := filepath.Join(root, ".wrgl")
	rd, err := local.NewRepoDir(wrglDir, "")
	if err != nil {
		return setup(err)
	}
	if err := rd.Init(); err != nil {
		return setup(err)
	}
	viper.Set("wrgl_dir", wrglDir)
	defer viper.Set("wrgl_dir", "")
	if _, err := c05Cmd("config", "set", "user.email", "v@x.y"); err != nil {
		return setup(err)
	}
	if _, err := c05Cmd("config", "set", "user.name", "V"); err != nil {
		return setup(err)
	}
	db, err := rd.OpenObjectsStore()
	if err != nil {
		return setup(err)
	}
	rs := rd.OpenRefStore()
	mk := func(tb *c05Table, msg string, parents [][]byte) ([]byte, *objects.Commit, error) {
		sum, _, err := c05Ingest(db, tb)
		if err != nil {
			return nil, nil, err
		}
		com := &objects.Commit{Table: sum, Parents: parents, Time: time.Unix(1600000000, 0),
			AuthorName: "V", AuthorEmail: "v@x.y", Message: msg}
		buf := bytes.NewBuffer(nil)
		if _, err := com.WriteTo(buf); err != nil {
			return nil, nil, err
		}
		cs, err := objects.SaveCommit(db, buf.Bytes())
		return cs, com, err
	}
	bsum, bcom, err := mk(base, "base", nil)
	if err != nil {
		db.Close()
		return setup(err)
	}
	if err := ref.CommitHead(rs, "b1", bsum, bcom, nil); err != nil {
		db.Close()
		return setup(err)
	}
	for i, o := range others {
		s, c, err := mk(o, fmt.Sprintf("branch %d", i+1), [][]byte{bsum})
		if err != nil {
			db.Close()
			return setup(err)
		}
		if err := ref.CommitHead(rs, fmt.Sprintf("b%d", i+1), s, c, nil); err != nil {
			db.Close()
			return setup(err)
		}
	}
	db.Close()
	rd.Close()

	// 1. --no-gui
	if out, err := c05Cmd("merge", "b1", "b2", "--no-gui"); err != nil {
		_ = out
		return xt.N(xt.LI(1)), c05JudgeError(base, others)
	}
	cf, err := c05Glob1(root, "CONFLICTS_*.csv")
	if err != nil {
		return xt.N(xt.LI(1)), Fail("cli-no-conflicts-file", "%v", err)
	}
	recs, err := c05ReadCSV(cf)
	if err != nil || len(recs) < 3 {
		return xt.N(xt.LI(1)), Fail("cli-conflicts-file-unreadable", "%v (%d records)", err, len(recs))
	}
	names := recs[0][1:]
	flags := xt.N()
	for l := 0; l < 2; l++ {
		fl := xt.N()
		for _, s := range recs[1+l][1:] {
			switch s {
			case "NEW":
				fl.Add(xt.LI(1))
			case "REMOVED":
				fl.Add(xt.LI(2))
			default:
				fl.Add(xt.LI(0))
			}
		}
		flags.Add(fl)
	}
	var resolutions, rest [][]string
	conflicts := false
	for _, r := range recs[3:] {
		switch {
		case r[0] == "":
			rest = append(rest, r[1:])
		case r[0] == "RESOLUTION":
			resolutions = append(resolutions, r[1:])
			conflicts = true
		default:
			conflicts = true
		}
	}
	sort.Slice(resolutions, func(i, j int) bool { return c05LessCells(resolutions[i], resolutions[j]) })
	obs := xt.N(xt.LI(0), xt.Strs(names), flags, c05RowsTree(resolutions), c05RowsTree(rest))
	v := OK()

	// library run for the oracle (policy 1, nil removedCols = what --no-gui computes)
	lib, lerr := c05RunLib(base, others, 1, 0, 0)
	if lerr == nil && lib.Status == 0 {
		v = c05Judge(base, others, 1, 0, lib)
		if v.OK && (!c05EqStrs(lib.Cols, names) || fmt.Sprint(lib.Rows) != fmt.Sprint(rest)) {
			v = Fail("cli-nogui-vs-library", "CONFLICTS csv rest rows %q (columns %q) differ from the library result %q (%q)",
				c05Trunc(rest), names, c05Trunc(lib.Rows), lib.Cols)
		}
	}
	commit := xt.N()
	unresolved := conflicts
	var unresKeys [][]string
	if lerr == nil && lib.Status == 0 {
		unresolved = false
		for _, r := range lib.Recs {
			if !r.Resolved {
				unresolved = true
				unresKeys = append(unresKeys, r.Key)
			}
		}
	}
	if !unresolved && !conflicts {
		var v2 Verdict
		commit, v2 = c05CLICommit(root, base, others)
		if v.OK {
			v = v2
		}
	} else {
		// never silent, at command level: a record that the library reports as unresolved must be
		// shown as a conflict or make the command refuse.  This verdict does not depend on (and
		// takes precedence over) whatever the library result itself was judged to be.
		var v2 Verdict
		commit, v2 = c05CLIConflictPath(root, wrglDir, base, unresKeys)
		if !v2.OK {
			v = v2
		}
	}
	obs.Add(commit)
	return obs, v
}

func c05Head(wrglDir, branch string) []byte {
	rd, err := local.NewRepoDir(wrglDir, "")
	if err != nil {
		return nil
	}
	defer rd.Close()
	sum, err := ref.GetHead(rd.OpenRefStore(), branch)
	if err != nil {
		return nil
	}
	return sum
}

// c05CLIConflictPath runs `wrgl merge` WITHOUT --no-gui although something conflicts.  The merge
// tool cannot start (TERM names no terminal), so the command must fail and leave the branch alone;
// a command that succeeds has concluded the merge on its own, silently picking a side.
//
//	observation: (1) refused | ((col ...) ((cell ...) ...)) what it committed / wrote
func c05CLIConflictPath(root, wrglDir string, base *c05Table, unresKeys [][]string) (commit *xt.T, v Verdict) {
	v = OK()
	oldTerm, hadTerm := os.LookupEnv("TERM")
	os.Setenv("TERM", "wrgl-verif-no-such-terminal")
	defer func() {
		if hadTerm {
			os.Setenv("TERM", oldTerm)
		} else {
			os.Unsetenv("TERM")
		}
	}()
	defer func() {
		if r := recover(); r != nil {
			commit = xt.N(xt.LI(2))
			v = Fail("cli-merge-panic", "wrgl merge panicked on the conflict path: %v", r)
		}
	}()
	describe := func(rows [][]string, cols []string) string {
		// which unresolved keys reappear with the base row
		pkIdx := c05PKIdx(cols, base.PK)
		var kept []string
		for _, k := range unresKeys {
			for _, r := range rows {
				ok := len(pkIdx) > 0
				for i, p := range pkIdx {
					if p < 0 || p >= len(r) || r[p] != k[i] {
						ok = false
					}
				}
				if ok {
					kept = append(kept, fmt.Sprintf("%q", r))
				}
			}
		}
		return fmt.Sprintf("unresolved keys %q; rows for them in the result: %v", unresKeys, kept)
	}
	head0 := c05Head(wrglDir, "b1")
	if _, err := c05Cmd("merge", "b1", "b2", "--no-commit"); err == nil {
		if mf, gerr := c05Glob1(root, "MERGE_*.csv"); gerr == nil {
			if mrecs, rerr := c05ReadCSV(mf); rerr == nil && len(mrecs) > 0 {
				return xt.N(xt.Strs(mrecs[0]), c05RowsTree(mrecs[1:])),
					Fail("merge-cmd-unresolved-not-reported", "wrgl merge --no-commit wrote a result without reporting the conflict: %s",
						describe(mrecs[1:], mrecs[0]))
			}
		}
		return xt.N(xt.LI(0)), Fail("merge-cmd-unresolved-not-reported", "wrgl merge --no-commit succeeded although the library reports unresolved records %q", unresKeys)
	}
	_, err := c05Cmd("merge", "b1", "b2")
	head1 := c05Head(wrglDir, "b1")
	if err == nil || !bytes.Equal(head0, head1) {
		out, _ := c05Cmd("export", "b1")
		er := csv.NewReader(strings.NewReader(out))
		er.FieldsPerRecord = -1
		erecs, _ := er.ReadAll()
		if len(erecs) == 0 {
			erecs = [][]string{{}}
		}
		return xt.N(xt.Strs(erecs[0]), c05RowsTree(erecs[1:])),
			Fail("merge-cmd-unresolved-not-reported", "wrgl merge committed (err=%v, branch moved=%v) without reporting the conflict: %s",
				err, !bytes.Equal(head0, head1), describe(erecs[1:], erecs[0]))
	}
	return xt.N(xt.LI(1)), v
}

func c05CLICommit(root string, base *c05Table, others []*c05Table) (commit *xt.T, v Verdict) {
	v = OK()
	// the library result first: when it already shows a known defect the CLI steps are still
	// run, but their outcome (possibly a panic on the malformed table) is attributed to it
	lib2, lerr := c05RunLib(base, others, 1, 1, 0)
	if lerr == nil && lib2.Status == 0 {
		v = c05Judge(base, others, 1, 1, lib2)
	}
	defer func() {
		if r := recover(); r != nil {
			commit = xt.N(xt.LI(2))
			if v.OK {
				v = Fail("cli-commit-panic", "wrgl merge panicked: %v", r)
			}
		}
	}()
	fail := func(class, format string, a ...interface{}) (*xt.T, Verdict) {
		if v.OK {
			v = Fail(class, format, a...)
		}
		return xt.N(xt.LI(1)), v
	}
	// 2. --no-commit
	if _, err := c05Cmd("merge", "b1", "b2", "--no-commit"); err != nil {
		return fail("cli-no-commit-error", "%v", err)
	}
	mf, err := c05Glob1(root, "MERGE_*.csv")
	if err != nil {
		return fail("cli-no-merge-file", "%v", err)
	}
	mrecs, err := c05ReadCSV(mf)
	if err != nil || len(mrecs) < 1 {
		return fail("cli-merge-file-unreadable", "%v", err)
	}
	// 3. commit + export
	if out, err := c05Cmd("merge", "b1", "b2"); err != nil {
		return fail("cli-commit-error", "%v %s", err, out)
	}
	out, err := c05Cmd("export", "b1")
	if err != nil {
		return fail("cli-export-error", "%v", err)
	}
	er := csv.NewReader(strings.NewReader(out))
	er.FieldsPerRecord = -1
	erecs, err := er.ReadAll()
	if err != nil || len(erecs) < 1 {
		return fail("cli-export-unreadable", "%v", err)
	}
	commit = xt.N(xt.Strs(mrecs[0]), c05RowsTree(mrecs[1:]))
	if v.OK && lerr == nil && lib2.Status == 0 &&
		(!c05EqStrs(lib2.Cols, mrecs[0]) || fmt.Sprint(lib2.Rows) != fmt.Sprint(mrecs[1:])) {
		v = Fail("cli-nocommit-vs-library", "MERGE csv %q differs from the library result %q", c05Trunc(mrecs), c05Trunc(lib2.Rows))
	}
	if v.OK && fmt.Sprint(mrecs) != fmt.Sprint(erecs) {
		v = Fail("cli-commit-vs-nocommit", "export of the merge commit %q differs from MERGE csv %q", c05Trunc(erecs), c05Trunc(mrecs))
	}
	return commit, v
}
