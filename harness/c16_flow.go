package main

import (
	"bufio"
	"context"
	"encoding/csv"
	"fmt"
	"os"
	"path/filepath"
	"reflect"
	"runtime"
	"sort"
	"strconv"
	"strings"
	"time"

	"github.com/go-logr/logr"
	"github.com/wrgl/wrgl/pkg/diff"
	"github.com/wrgl/wrgl/pkg/index"
	"github.com/wrgl/wrgl/pkg/ingest"
	"github.com/wrgl/wrgl/pkg/merge"
	"github.com/wrgl/wrgl/pkg/misc"
	"github.com/wrgl/wrgl/pkg/objects"
	"github.com/wrgl/wrgl/pkg/sorter"

	"verifharness/xt"
)

// abstract table: rows (key, val) sorted by key, keys distinct.  Stored as CSV "k,v" with
// k = %06d of key (so that string order = numeric order) and primary key k.
type c16Row struct{ K, V int }

func c16ParseTable(t *xt.T) []c16Row {
	r := make([]c16Row, len(t.Kids))
	for i, k := range t.Kids {
		r[i] = c16Row{int(c16Kid(k, 0).N), int(c16Kid(k, 1).N)}
	}
	return r
}

func c16TableTree(rows []c16Row) *xt.T {
	t := xt.N()
	for _, r := range rows {
		t.Add(xt.N(xt.LI(r.K), xt.LI(r.V)))
	}
	return t
}

type c16Tbl struct {
	Sum  []byte
	T    *objects.Table
	Idx  [][]string
	Rows []c16Row
}

// c16Maps: pk hash -> key, row sum -> value (for mapping diff events back to the abstract level)
type c16Maps struct {
	key map[string]int
	val map[string]int
}

func c16StoreTable(db objects.Store, tmp string, rows []c16Row, m *c16Maps) *c16Tbl {
	path := filepath.Join(tmp, "c16tbl.csv")
	f, err := os.Create(path)
	if err != nil {
		panic(err)
	}
	w := csv.NewWriter(bufio.NewWriter(f))
	w.Write([]string{"k", "v"})
	for i := len(rows) - 1; i >= 0; i-- { // unsorted on purpose
		w.Write([]string{fmt.Sprintf("%06d", rows[i].K), strconv.Itoa(rows[i].V)})
	}
	w.Flush()
	f.Close()
	defer os.Remove(path)
	s, err := sorter.NewSorter(sorter.WithRunSize(1 << 40))
	if err != nil {
		panic(err)
	}
	rf, _ := os.Open(path)
	sum, err := ingest.IngestTable(db, s, rf, []string{"k"}, logr.Discard())
	if err != nil {
		panic(fmt.Sprintf("c16: ingest of an abstract table failed: %v", err))
	}
	t, err := objects.GetTable(db, sum)
	if err != nil {
		panic(err)
	}
	idx, err := objects.GetTableIndex(db, sum)
	if err != nil {
		panic(err)
	}
	if m != nil {
		var bb []byte
		var blk [][]string
		var bi *objects.BlockIndex
		for j := range t.Blocks {
			blk, bb, err = objects.GetBlock(db, bb, t.Blocks[j])
			if err != nil {
				panic(err)
			}
			bi, bb, err = objects.GetBlockIndex(db, bb, t.BlockIndices[j])
			if err != nil {
				panic(err)
			}
			for i, row := range blk {
				k, _ := strconv.Atoi(strings.TrimLeft(row[0], "0"))
				v, _ := strconv.Atoi(row[1])
				m.key[string(bi.Rows[i][:16])] = k
				m.val[string(bi.Rows[i][16:])] = v
			}
		}
	}
	return &c16Tbl{Sum: sum, T: t, Idx: idx, Rows: rows}
}

type c16Ev struct {
	Key            int
	Sum, Old       int // -1 = nil
	Off, OldOff    int
	HasSum, HasOld bool
}

func c16OptTree(has bool, v int) *xt.T {
	if !has {
		return xt.N()
	}
	return xt.N(xt.LI(v))
}

func (e c16Ev) tree() *xt.T {
	return xt.N(xt.LI(e.Key), c16OptTree(e.HasSum, e.Sum), xt.LI(e.Off), c16OptTree(e.HasOld, e.Old), xt.LI(e.OldOff))
}

type c16Rec struct {
	Key     int
	HasBase bool
	Base    int
	BaseOff int
	Others  []c16Ev // per layer: HasSum/Sum/Off used
}

func (r *c16Rec) tree() *xt.T {
	o := xt.N()
	for _, x := range r.Others {
		o.Add(xt.N(c16OptTree(x.HasSum, x.Sum), xt.LI(x.Off)))
	}
	return xt.N(xt.LI(r.Key), c16OptTree(r.HasBase, r.Base), xt.LI(r.BaseOff), o)
}

func c16Find(rows []c16Row, k int) (int, int, bool) {
	i := sort.Search(len(rows), func(i int) bool { return rows[i].K >= k })
	if i < len(rows) && rows[i].K == k {
		return i, rows[i].V, true
	}
	return 0, 0, false
}

// the grouping loop of merge.mergeTables, copied literally (it is unexported), applied to
// events received from the real differ goroutines in their real arrival order
func c16Group(n int, recv func() (int, c16Ev, bool)) map[int]*c16Rec {
	merges := map[int]*c16Rec{}
	for {
		chosen, d, ok := recv()
		if !ok {
			break
		}
		if m, ok := merges[d.Key]; !ok {
			merges[d.Key] = &c16Rec{Key: d.Key, HasBase: d.HasOld, Base: d.Old, BaseOff: d.OldOff, Others: make([]c16Ev, n)}
			merges[d.Key].Others[chosen] = c16Ev{HasSum: d.HasSum, Sum: d.Sum, Off: d.Off}
		} else {
			m.Others[chosen] = c16Ev{HasSum: d.HasSum, Sum: d.Sum, Off: d.Off}
		}
	}
	return merges
}

func c16RecsTree(m map[int]*c16Rec) *xt.T {
	keys := make([]int, 0, len(m))
	for k := range m {
		keys = append(keys, k)
	}
	sort.Ints(keys)
	t := xt.N()
	for _, k := range keys {
		t.Add(m[k].tree())
	}
	return t
}

// ---------------------------------------------------------------- kind 2: dataflow

func c16RunFlow(ctx *Ctx, c *xt.T) (*xt.T, Verdict) {
	base := c16ParseTable(c16Kid(c, 1))
	var layers [][]c16Row
	for _, l := range c16Kid(c, 2).Kids {
		layers = append(layers, c16ParseTable(l))
	}
	n := len(layers)
	seed := int64(len(c16Kid(c, 3).Kids))
	for _, p := range c16Kid(c, 3).Kids {
		seed = seed*31 + int64(p.N)
	}
	db := c16NewStore(seed, 40, 50)
	maps := &c16Maps{key: map[string]int{}, val: map[string]int{}}
	db.yieldPct = 0
	bt := c16StoreTable(db, ctx.Tmp, base, maps)
	lts := make([]*c16Tbl, n)
	for i := range layers {
		lts[i] = c16StoreTable(db, ctx.Tmp, layers[i], maps)
	}
	db.yieldPct = 40
	v := OK()
	bad := func(class, format string, a ...interface{}) {
		if v.OK {
			v = Fail(class, format, a...)
		}
	}
	// as merge.Merger.Start: one differ goroutine per layer, all sending errors on one channel
	errChan := make(chan error, n+2)
	chans := make([]<-chan *objects.Diff, n)
	for i, lt := range lts {
		chans[i], _ = diff.DiffTables(db, db, lt.T, bt.T, lt.Idx, bt.Idx, errChan, logr.Discard(), diff.WithEmitUnchangedRow())
	}
	streams := make([][]c16Ev, n)
	conv := func(d *objects.Diff) c16Ev {
		e := c16Ev{}
		k, ok := maps.key[string(d.PK)]
		if !ok {
			bad("diff-unknown-key", "diff event with a primary-key hash %x that no row has", d.PK)
			k = 999999
		}
		e.Key = k
		if d.Sum != nil {
			e.HasSum = true
			e.Sum = maps.val[string(d.Sum)]
		}
		if d.OldSum != nil {
			e.HasOld = true
			e.Old = maps.val[string(d.OldSum)]
		}
		e.Off, e.OldOff = int(d.Offset), int(d.OldOffset)
		return e
	}
	var merges map[int]*c16Rec
	finished, pv := c16Guard(60*time.Second, func() {
		cases := make([]reflect.SelectCase, n)
		closed := make([]bool, n)
		nclosed := 0
		for i, ch := range chans {
			cases[i] = reflect.SelectCase{Dir: reflect.SelectRecv, Chan: reflect.ValueOf(ch)}
		}
		merges = c16Group(n, func() (int, c16Ev, bool) {
			for nclosed < n {
				chosen, recv, ok := reflect.Select(cases)
				if !ok {
					if !closed[chosen] {
						closed[chosen] = true
						nclosed++
						cases[chosen].Chan = reflect.ValueOf((<-chan *objects.Diff)(nil)) // never ready again
					}
					continue
				}
				e := conv(recv.Interface().(*objects.Diff))
				streams[chosen] = append(streams[chosen], e)
				return chosen, e, true
			}
			return 0, c16Ev{}, false
		})
	})
	if !finished {
		return xt.N(xt.L(3)), Fail("hang", "differ goroutines did not finish within 60s")
	}
	if pv != nil {
		return xt.N(xt.L(2)), Fail("panic", "%v", pv)
	}
	close(errChan)
	if err, ok := <-errChan; ok {
		return xt.N(xt.L(1)), Fail("unexpected-error", "differ reported %v", err)
	}
	st := xt.N()
	for i := range streams {
		l := xt.N()
		for _, e := range streams[i] {
			l.Add(e.tree())
		}
		st.Add(l)
	}
	obs := xt.N(st, c16RecsTree(merges))

	// ---- oracle, independent of the model
	// (a) the assumption of C16_dataflow: old sum / old offset of a key agree between layers
	type old struct {
		has    bool
		v, off int
	}
	olds := map[int]old{}
	for i := range streams {
		for _, e := range streams[i] {
			o := old{e.HasOld, e.Old, e.OldOff}
			if p, ok := olds[e.Key]; ok && p != o {
				bad("diff-old-disagree", "key %d: layer %d reports base (%v %d @%d), another layer (%v %d @%d)", e.Key, i, o.has, o.v, o.off, p.has, p.v, p.off)
			}
			olds[e.Key] = o
		}
	}
	// (b) events of every layer = set difference semantics computed from the abstract tables
	for i, l := range layers {
		want := map[int]c16Ev{}
		for off, r := range l {
			e := c16Ev{Key: r.K, HasSum: true, Sum: r.V, Off: off}
			if bo, bv, ok := c16Find(base, r.K); ok {
				e.HasOld, e.Old, e.OldOff = true, bv, bo
			}
			want[r.K] = e
		}
		for off, r := range base {
			if _, _, ok := c16Find(l, r.K); !ok {
				want[r.K] = c16Ev{Key: r.K, HasOld: true, Old: r.V, OldOff: off}
			}
		}
		got := map[int]c16Ev{}
		for _, e := range streams[i] {
			if _, dup := got[e.Key]; dup {
				bad("diff-duplicate-event", "layer %d emits two events for key %d", i, e.Key)
			}
			got[e.Key] = e
		}
		if len(got) != len(want) {
			bad("diff-events-wrong", "layer %d: %d events, %d expected", i, len(got), len(want))
		}
		for k, e := range want {
			if g, ok := got[k]; !ok || g != e {
				bad("diff-events-wrong", "layer %d key %d: event %+v, expected %+v", i, k, g, e)
				break
			}
		}
	}
	// (c) grouping in arrival order = grouping in the single-threaded order (layer 0, 1, ...)
	li, pi := 0, 0
	seq := c16Group(n, func() (int, c16Ev, bool) {
		for li < n && pi >= len(streams[li]) {
			li, pi = li+1, 0
		}
		if li >= n {
			return 0, c16Ev{}, false
		}
		pi++
		return li, streams[li][pi-1], true
	})
	if c16RecsTree(seq).String() != c16RecsTree(merges).String() {
		bad("merge-grouping-schedule-dependent", "grouping in arrival order %s differs from the sequential grouping %s",
			c16RecsTree(merges).String(), c16RecsTree(seq).String())
	}
	return obs, v
}

// ---------------------------------------------------------------- kind 5: merge end to end

func c16MergeOnce(db *c16Store, bt *c16Tbl, lts []*c16Tbl) (string, error) {
	hs, err := index.NewHashSet(misc.NewBuffer(nil), 0)
	if err != nil {
		panic(err)
	}
	col, err := merge.NewCollector(db, bt.T, hs)
	if err != nil {
		panic(err)
	}
	tbls := []*objects.Table{bt.T}
	others := make([]*objects.Table, len(lts))
	sums := make([][]byte, len(lts))
	for i, l := range lts {
		tbls = append(tbls, l.T)
		others[i] = l.T
		sums[i] = l.Sum
	}
	buf, err := diff.BlockBufferWithSingleStore(db, tbls)
	if err != nil {
		return "", err
	}
	m, err := merge.NewMerger(db, col, buf, 0, bt.T, others, bt.Sum, sums, logr.Discard())
	if err != nil {
		return "", err
	}
	defer m.Close()
	ch, err := m.Start()
	if err != nil {
		return "", err
	}
	// as cmd/wrgl merge: drain the channel first (the collector goroutine owns the row
	// collector until the channel is closed), resolve afterwards
	var conflicts []string
	var pending []*merge.Merge
	for mg := range ch {
		if mg.ColDiff != nil {
			continue
		}
		pending = append(pending, mg)
	}
	for _, mg := range pending {
		// unresolved: resolve by dropping the row (keeps the outcome a function of the conflict set)
		conflicts = append(conflicts, fmt.Sprintf("%x:%x:%x", mg.PK, mg.Base, mg.Others))
		if err := m.SaveResolvedRow(mg.PK, nil); err != nil {
			return "", err
		}
	}
	if err := m.Error(); err != nil {
		return "", err
	}
	sort.Strings(conflicts)
	rowsCh, err := m.SortedRows(context.Background(), nil)
	if err != nil {
		return "", err
	}
	var sb strings.Builder
	for r := range rowsCh {
		for _, row := range r.Rows {
			sb.WriteString(strings.Join(row, ","))
			sb.WriteByte(';')
		}
	}
	if err := m.Error(); err != nil {
		return "", err
	}
	return strings.Join(conflicts, "|") + "#" + sb.String(), nil
}

func c16RunMerge(ctx *Ctx, c *xt.T) (*xt.T, Verdict) {
	base := c16ParseTable(c16Kid(c, 1))
	var layers [][]c16Row
	for _, l := range c16Kid(c, 2).Kids {
		layers = append(layers, c16ParseTable(l))
	}
	reps, seed := int(c16Kid(c, 3).N), int64(c16Kid(c, 4).N)
	if reps < 2 {
		reps = 2
	}
	db := c16NewStore(seed, 0, 0)
	bt := c16StoreTable(db, ctx.Tmp, base, nil)
	lts := make([]*c16Tbl, len(layers))
	for i := range layers {
		lts[i] = c16StoreTable(db, ctx.Tmp, layers[i], nil)
	}
	defer runtime.GOMAXPROCS(runtime.GOMAXPROCS(0))
	procs := []int{1, 2, 4, 8, 16, 3}
	first := ""
	for rep := 0; rep < reps; rep++ {
		runtime.GOMAXPROCS(procs[rep%len(procs)])
		db.mu.Lock()
		db.yieldPct, db.sleepUs = 0, 0
		if rep > 0 {
			db.yieldPct, db.sleepUs = 30+10*(rep%4), 40
		}
		db.mu.Unlock()
		base := runtime.NumGoroutine()
		var res string
		var err error
		finished, pv := c16Guard(60*time.Second, func() { res, err = c16MergeOnce(db, bt, lts) })
		if !finished {
			return xt.N(xt.L(3)), Fail("hang", "merge did not finish within 60s (rep %d)", rep)
		}
		if pv != nil {
			return xt.N(xt.L(2)), Fail("panic", "merge panicked: %v", pv)
		}
		if err != nil {
			return xt.N(xt.L(1)), Fail("unexpected-error", "merge returned %v", err)
		}
		if ok, now := c16Settled(base); !ok {
			return xt.N(xt.L(0)), Fail("goroutine-leak", "%d goroutines before the merge, %d still running 1s after it", base, now)
		}
		if rep == 0 {
			first = res
		} else if res != first {
			d := 0
			for d < len(res) && d < len(first) && res[d] == first[d] {
				d++
			}
			lo := d - 60
			if lo < 0 {
				lo = 0
			}
			return xt.N(xt.L(0)), Fail("merge-result-varies", "repetition %d (GOMAXPROCS %d) gives a different merge outcome than the single-processor run; first difference at byte %d: ...%.160s vs ...%.160s", rep, procs[rep%len(procs)], d, res[lo:], first[lo:])
		}
		ctx.Count("merge_runs")
	}
	return xt.N(xt.L(0)), OK()
}

// ---------------------------------------------------------------- kind 6: store failing during a merge

func c16RunMergeFail(ctx *Ctx, c *xt.T) (*xt.T, Verdict) {
	nrows, k := int(c16Kid(c, 1).N), int(c16Kid(c, 2).N)
	mk := func(mod, val int) []c16Row {
		r := make([]c16Row, nrows)
		for i := range r {
			r[i] = c16Row{i + 1, 1}
			if mod > 0 && i%mod == 0 {
				r[i].V = val
			}
		}
		return r
	}
	db := c16NewStore(1, 0, 0)
	bt := c16StoreTable(db, ctx.Tmp, mk(0, 0), nil)
	lts := []*c16Tbl{c16StoreTable(db, ctx.Tmp, mk(3, 2), nil), c16StoreTable(db, ctx.Tmp, mk(5, 3), nil)}
	db.mu.Lock()
	db.nget = 0
	db.failGetFrom = k
	db.mu.Unlock()
	var err error
	finished, pv := c16Guard(5*time.Second, func() { _, err = c16MergeOnce(db, bt, lts) })
	if !finished {
		return xt.N(xt.L(3)), Fail("merge-errchan-hang", "merge of two %d-row layers did not return within 5s after the store's Get started failing at call %d (errChan capacity len(otherTs) < number of senders)", nrows, k)
	}
	if pv != nil {
		return xt.N(xt.L(2)), Fail("panic", "merge panicked: %v", pv)
	}
	if err == nil {
		return xt.N(xt.L(0)), Fail("error-swallowed", "store Get fails from call %d on but the merge reported success", k)
	}
	return xt.N(xt.L(1)), OK()
}

// ---------------------------------------------------------------- kind 8: progress trackers

// c16RunProgress runs DiffTables (mode 0) or a Merger (mode 1) with a real tick period over a
// store whose Get is slow, consumes the data and the progress channel with the loop shape of
// cmd/wrgl (diff_cmd.go collectChanges / merge_cmd.go collectMergeConflicts), waits gapUs (the
// progress-bar teardown that cmd/wrgl does between the loop and Stop) and calls Stop / Error /
// Close under a watchdog.
func c16RunProgress(ctx *Ctx, c *xt.T) (*xt.T, Verdict) {
	mode, nrows := int(c16Kid(c, 1).N), int(c16Kid(c, 2).N)
	period := time.Duration(c16Kid(c, 3).N) * time.Microsecond
	slowGet, gap, reps := int(c16Kid(c, 4).N), time.Duration(c16Kid(c, 5).N)*time.Microsecond, int(c16Kid(c, 6).N)
	if reps < 1 {
		reps = 1
	}
	mk := func(mod, val int) []c16Row {
		r := make([]c16Row, nrows)
		for i := range r {
			r[i] = c16Row{i + 1, 1}
			if mod > 0 && i%mod == 0 {
				r[i].V = val
			}
		}
		return r
	}
	db := c16NewStore(1, 0, 0)
	bt := c16StoreTable(db, ctx.Tmp, mk(0, 0), nil)
	lts := []*c16Tbl{c16StoreTable(db, ctx.Tmp, mk(3, 2), nil), c16StoreTable(db, ctx.Tmp, mk(5, 3), nil)}
	db.mu.Lock()
	db.slowGetUs = slowGet
	db.mu.Unlock()
	v := OK()
	bad := func(class, format string, a ...interface{}) {
		if v.OK {
			v = Fail(class, format, a...)
		}
	}
	guard := func(what string, f func()) bool {
		finished, pv := c16Guard(5*time.Second, f)
		if !finished {
			bad("progress-stop-hang", "%s did not return within 5s (tick period %v, store Get %dus, %d rows)", what, period, slowGet, nrows)
			return false
		}
		if pv != nil {
			bad("panic", "%s panicked: %v", what, pv)
			return false
		}
		return true
	}
	for rep := 0; rep < reps && v.OK; rep++ {
		base := runtime.NumGoroutine()
		ticks, items := 0, 0
		if mode == 0 {
			errChan := make(chan error, 1)
			diffChan, pt := diff.DiffTables(db, db, lts[0].T, bt.T, lts[0].Idx, bt.Idx, errChan, logr.Discard(), diff.WithProgressInterval(period))
			progChan := pt.Start()
			ok := guard("the diff loop", func() {
			mainLoop:
				for {
					select {
					case <-progChan:
						ticks++
					case _, ok := <-diffChan:
						if !ok {
							break mainLoop
						}
						items++
					}
				}
			})
			if !ok {
				break
			}
			time.Sleep(gap)
			if !guard("Tracker.Stop() after the diff", pt.Stop) {
				break
			}
			close(errChan)
			if err, ok := <-errChan; ok {
				bad("unexpected-error", "diff reported %v", err)
			}
		} else {
			hs, err := index.NewHashSet(misc.NewBuffer(nil), 0)
			if err != nil {
				panic(err)
			}
			col, err := merge.NewCollector(db, bt.T, hs)
			if err != nil {
				panic(err)
			}
			buf, err := diff.BlockBufferWithSingleStore(db, []*objects.Table{bt.T, lts[0].T, lts[1].T})
			if err != nil {
				panic(err)
			}
			m, err := merge.NewMerger(db, col, buf, period, bt.T, []*objects.Table{lts[0].T, lts[1].T}, bt.Sum, [][]byte{lts[0].Sum, lts[1].Sum}, logr.Discard())
			if err != nil {
				panic(err)
			}
			mch, err := m.Start()
			if err != nil {
				bad("unexpected-error", "Merger.Start: %v", err)
				break
			}
			pch := m.Progress.Start()
			ok := guard("the merge loop", func() {
			mainLoop:
				for {
					select {
					case <-pch:
						ticks++
					case _, ok := <-mch:
						if !ok {
							break mainLoop
						}
						items++
					}
				}
			})
			if !ok {
				break
			}
			time.Sleep(gap)
			if !guard("Merger.Progress.Stop()", m.Progress.Stop) {
				break
			}
			var merr error
			if !guard("Merger.Error()", func() { merr = m.Error() }) {
				break
			}
			if merr != nil {
				bad("unexpected-error", "merge reported %v", merr)
			}
			if !guard("Merger.Close()", func() { m.Close() }) {
				break
			}
		}
		ctx.Count("progress_runs")
		if ticks > 0 {
			ctx.Count("progress_runs_with_ticks")
		}
		if ok, now := c16Settled(base); !ok {
			bad("progress-goroutine-leak", "%d goroutines before, %d still alive 1s after Stop() returned: the tracker goroutine is parked in `t.c <- Event{}` (a tick fired after the consumer's last receive; period %v, %d ticks and %d items received)", base, now, period, ticks, items)
		}
	}
	return xt.N(xt.L(0)), v
}
