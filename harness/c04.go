package main

import (
	"bytes"
	"encoding/csv"
	"fmt"
	"io"
	"sort"
	"strconv"

	"github.com/go-logr/logr"
	"github.com/pckhoi/meow"
	"github.com/wrgl/wrgl/pkg/diff"
	"github.com/wrgl/wrgl/pkg/ingest"
	"github.com/wrgl/wrgl/pkg/objects"
	objmock "github.com/wrgl/wrgl/pkg/objects/mock"
	"github.com/wrgl/wrgl/pkg/sorter"

	"verifharness/xt"
)

// C04: diff.DiffTables / findOverlappingBlocks vs model (coq/model/Diff.v) and vs an
// independent map-based oracle.
//
// case kind 0:  (0 flags T1 T2)   flags bit0 = emitUnchanged, bit1 = both tables in one object store,
//               bit2 = table indices rebuilt by ingest.IndexTable (the route of a received table);
//               T = (pknames columns rows), pknames/columns = lists of
//               byte strings, rows = ((key rowid) ...) sorted by key, key = list of byte strings.
//     The harness turns a row into CSV cells: the j-th pk column gets key[j] (keyless table:
//     column i gets key[i]), the first non-pk column gets the decimal rowid, further non-pk
//     columns get "x".  Tables are built by ingest.IngestTable into an objmock store.
//     observation: (status events), status 0 ok / 1 error / 2 panic,
//         event = (0 key row off) added | (1 key row off oldrow oldoff) modified | (2 key oldrow oldoff) removed
//         in emission order; PK / Sum / OldSum hashes are mapped back to key / rowid by hashing
//         every key and row of the case the way block_index.go does.
// case kind 1:  (1 idx1 idx2)  two table indices; observation: for every off1 the list over
//     prevEnd = 0..len(idx2) of (start end) of diff.VerifFindOverlappingBlocks; negative z = (|z|).

func init() { props["C04"] = &Prop{Gen: genC04, Run: runC04} }

type c04Row struct {
	Key   []string
	RowID int
}

type c04Table struct {
	PK   []string
	Cols []string
	Rows []c04Row
}

func c04TableTree(t *c04Table) *xt.T {
	rows := xt.N()
	for _, r := range t.Rows {
		rows.Add(xt.N(xt.Strs(r.Key), xt.LI(r.RowID)))
	}
	return xt.N(xt.Strs(t.PK), xt.Strs(t.Cols), rows)
}

func c04Strs(t *xt.T) []string {
	ss := make([]string, len(t.Kids))
	for i, k := range t.Kids {
		ss[i] = string(k.AsBytes())
	}
	return ss
}

func c04ParseTable(t *xt.T) *c04Table {
	tb := &c04Table{PK: c04Strs(t.Kids[0]), Cols: c04Strs(t.Kids[1])}
	for _, r := range t.Kids[2].Kids {
		tb.Rows = append(tb.Rows, c04Row{Key: c04Strs(r.Kids[0]), RowID: int(r.Kids[1].N)})
	}
	return tb
}

func c04Cells(t *c04Table, r c04Row) []string {
	cells := make([]string, len(t.Cols))
	first := true
	for i, c := range t.Cols {
		if len(t.PK) == 0 {
			if i < len(r.Key) {
				cells[i] = r.Key[i]
			}
			continue
		}
		pkPos := -1
		for j, p := range t.PK {
			if p == c {
				pkPos = j
			}
		}
		switch {
		case pkPos >= 0:
			if pkPos < len(r.Key) {
				cells[i] = r.Key[pkPos]
			}
		case first:
			cells[i] = strconv.Itoa(r.RowID)
			first = false
		default:
			cells[i] = "x"
		}
	}
	return cells
}

// c04Built is a table stored through the real ingest pipeline plus reverse maps.
type c04Built struct {
	db     *objmock.Store
	tbl    *objects.Table
	sum    []byte
	idx    [][]string
	byPK   map[string]int // pk hash -> row position in the case
	bySum  map[string]int // row hash -> row position in the case
	src    *c04Table
	blocks map[int][][]string
}

var c04Cache = map[string]*c04Built{}

func c04Hash(enc *objects.StrListEncoder, ss []string) string {
	arr := meow.Checksum(0, enc.Encode(ss))
	return string(arr[:])
}

// c04Reindex rebuilds the table index (and block indices) of a stored table with
// ingest.IndexTable, which is what a repository does for every table it RECEIVES (fetch, pull,
// push); the diff must not depend on which of the two routes produced the index.
func c04Reindex(b *c04Built) {
	sum := b.sum
	if err := ingest.IndexTable(b.db, sum, b.tbl, logr.Discard()); err != nil {
		panic(fmt.Sprintf("IndexTable: %v", err))
	}
	idx, err := objects.GetTableIndex(b.db, sum)
	if err != nil {
		panic(err)
	}
	b.idx = idx
}

func c04BuildFlags(t *c04Table, text string, reindexed bool) *c04Built {
	if !reindexed {
		return c04Build(t, text)
	}
	if b, ok := c04Cache[text+"#reindexed"]; ok {
		return b
	}
	b := c04BuildInto(objmock.NewStore(), t)
	c04Reindex(b)
	c04Cache[text+"#reindexed"] = b
	return b
}

func c04Build(t *c04Table, text string) *c04Built {
	if b, ok := c04Cache[text]; ok {
		return b
	}
	b := c04BuildInto(objmock.NewStore(), t)
	if len(c04Cache) > 64 {
		c04Cache = map[string]*c04Built{}
	}
	c04Cache[text] = b
	return b
}

func c04CSVBytes(t *c04Table) []byte {
	buf := &bytes.Buffer{}
	w := csv.NewWriter(buf)
	if err := w.Write(t.Cols); err != nil {
		panic(err)
	}
	// feed the rows back to front: ordering them is the sorter's job
	for i := len(t.Rows) - 1; i >= 0; i-- {
		if err := w.Write(c04Cells(t, t.Rows[i])); err != nil {
			panic(err)
		}
	}
	w.Flush()
	return buf.Bytes()
}

func c04BuildInto(db *objmock.Store, t *c04Table) *c04Built {
	s, err := sorter.NewSorter()
	if err != nil {
		panic(err)
	}
	sum, err := ingest.IngestTable(db, s, io.NopCloser(bytes.NewReader(c04CSVBytes(t))), t.PK, logr.Discard())
	if err != nil {
		panic(fmt.Sprintf("ingest: %v", err))
	}
	tbl, err := objects.GetTable(db, sum)
	if err != nil {
		panic(err)
	}
	idx, err := objects.GetTableIndex(db, sum)
	if err != nil {
		panic(err)
	}
	b := &c04Built{db: db, tbl: tbl, sum: sum, idx: idx, byPK: map[string]int{}, bySum: map[string]int{}, src: t, blocks: map[int][][]string{}}
	enc := objects.NewStrListEncoder(true)
	for i, r := range t.Rows {
		cells := c04Cells(t, r)
		rs := c04Hash(enc, cells)
		b.bySum[rs] = i
		if len(t.PK) == 0 {
			b.byPK[rs] = i
		} else {
			b.byPK[c04Hash(enc, r.Key)] = i
		}
	}
	return b
}

// rowAt reads the row addressed by off from the stored table (block off/255, row off%255).
func (b *c04Built) rowAt(off uint32) ([]string, bool) {
	blk, ro := off/255, off%255 // independent of diff.RowToBlockAndOffset
	if int(blk) >= len(b.tbl.Blocks) {
		return nil, false
	}
	rows, ok := b.blocks[int(blk)]
	if !ok {
		var err error
		rows, _, err = objects.GetBlock(b.db, nil, b.tbl.Blocks[blk])
		if err != nil {
			panic(err)
		}
		b.blocks[int(blk)] = rows
	}
	if int(ro) >= len(rows) {
		return nil, false
	}
	return rows[ro], true
}

func c04StrsEq(a, b []string) bool {
	if len(a) != len(b) {
		return false
	}
	for i := range a {
		if a[i] != b[i] {
			return false
		}
	}
	return true
}

func c04KeyLess(a, b []string) bool {
	for i := range a {
		if i >= len(b) {
			return false
		}
		if a[i] != b[i] {
			return a[i] < b[i]
		}
	}
	return len(a) < len(b)
}

func c04Z(z int) *xt.T {
	if z < 0 {
		return xt.N(xt.LI(-z))
	}
	return xt.LI(z)
}

func runC04(ctx *Ctx, c *xt.T) (*xt.T, Verdict) {
	switch c.Kids[0].N {
	case 1:
		return runC04Windows(c)
	case 2:
		return runC04CLI(ctx, c)
	case 3:
		return runC04Readers(c)
	}
	emitUnchanged := c.Kids[1].N&1 != 0
	shared := c.Kids[1].N&2 != 0
	reindexed := c.Kids[1].N&4 != 0
	t1 := c04ParseTable(c.Kids[2])
	t2 := c04ParseTable(c.Kids[3])
	var b1, b2 *c04Built
	if shared {
		// both tables in ONE object store (diff of two commits of a repository); otherwise each
		// table lives in its own store (diff against a fetched table / an in-memory file commit)
		db := objmock.NewStore()
		b1 = c04BuildInto(db, t1)
		b2 = c04BuildInto(db, t2)
		if reindexed {
			c04Reindex(b1)
			c04Reindex(b2)
		}
	} else {
		b1 = c04BuildFlags(t1, c.Kids[2].String(), reindexed)
		b2 = c04BuildFlags(t2, c.Kids[3].String(), reindexed)
	}
	v := OK()
	bad := func(class, format string, a ...interface{}) {
		if v.OK {
			v = Fail(class, format, a...)
		}
	}
	if len(b1.idx) != len(b1.tbl.Blocks) || len(b2.idx) != len(b2.tbl.Blocks) {
		bad("table-index-length", "table index has %d/%d entries for %d/%d blocks", len(b1.idx), len(b2.idx), len(b1.tbl.Blocks), len(b2.tbl.Blocks))
	}
	if int(b1.tbl.RowsCount) != len(t1.Rows) || int(b2.tbl.RowsCount) != len(t2.Rows) {
		bad("ingest-rows", "ingest stored %d/%d rows for %d/%d case rows (duplicate keys in the case?)", b1.tbl.RowsCount, b2.tbl.RowsCount, len(t1.Rows), len(t2.Rows))
	}
	errCh := make(chan error, 4)
	var opts []diff.DiffOption
	if emitUnchanged {
		opts = append(opts, diff.WithEmitUnchangedRow())
	}
	diffCh, _ := diff.DiffTables(b1.db, b2.db, b1.tbl, b2.tbl, b1.idx, b2.idx, errCh, logr.Discard(), opts...)
	var diffs []*objects.Diff
	for d := range diffCh {
		diffs = append(diffs, d)
	}
	select {
	case err := <-errCh:
		bad("diff-error", "DiffTables reported %v", err)
		return xt.N(xt.LI(1), xt.N()), v
	default:
	}

	events := xt.N()
	var got []c04Ev
	keyOf := func(pk []byte) ([]string, int, int) {
		p1, ok1 := b1.byPK[string(pk)]
		p2, ok2 := b2.byPK[string(pk)]
		if !ok1 {
			p1 = -1
		}
		if !ok2 {
			p2 = -1
		}
		switch {
		case ok1:
			return t1.Rows[p1].Key, p1, p2
		case ok2:
			return t2.Rows[p2].Key, p1, p2
		}
		return nil, -1, -1
	}
	for _, d := range diffs {
		key, kp1, kp2 := keyOf(d.PK)
		if key == nil {
			bad("unknown-pk-hash", "event carries a PK hash %x that is no key of either table", d.PK)
			events.Add(xt.N(xt.LI(9)))
			continue
		}
		p1, p2 := -1, -1
		if d.Sum != nil {
			p, ok := b1.bySum[string(d.Sum)]
			if !ok || p != kp1 {
				bad("sum-not-row-of-key", "event for key %q: Sum %x is not the row of that key in table 1", key, d.Sum)
				events.Add(xt.N(xt.LI(9)))
				continue
			}
			p1 = p
			row, ok := b1.rowAt(d.Offset)
			if !ok || !c04StrsEq(row, c04Cells(t1, t1.Rows[p1])) {
				bad("offset-wrong-row", "event for key %q: Offset %d addresses %q in table 1, expected %q", key, d.Offset, row, c04Cells(t1, t1.Rows[p1]))
			}
		}
		if d.OldSum != nil {
			p, ok := b2.bySum[string(d.OldSum)]
			if !ok || p != kp2 {
				bad("oldsum-not-row-of-key", "event for key %q: OldSum %x is not the row of that key in table 2", key, d.OldSum)
				events.Add(xt.N(xt.LI(9)))
				continue
			}
			p2 = p
			row, ok := b2.rowAt(d.OldOffset)
			if !ok || !c04StrsEq(row, c04Cells(t2, t2.Rows[p2])) {
				bad("oldoffset-wrong-row", "event for key %q: OldOffset %d addresses %q in table 2, expected %q", key, d.OldOffset, row, c04Cells(t2, t2.Rows[p2]))
			}
		}
		switch {
		case p1 >= 0 && p2 >= 0:
			events.Add(xt.N(xt.LI(1), xt.Strs(key), xt.LI(t1.Rows[p1].RowID), xt.L(uint64(d.Offset)), xt.LI(t2.Rows[p2].RowID), xt.L(uint64(d.OldOffset))))
			got = append(got, c04Ev{1, p1, p2})
		case p1 >= 0:
			events.Add(xt.N(xt.LI(0), xt.Strs(key), xt.LI(t1.Rows[p1].RowID), xt.L(uint64(d.Offset))))
			got = append(got, c04Ev{0, p1, -1})
		case p2 >= 0:
			events.Add(xt.N(xt.LI(2), xt.Strs(key), xt.LI(t2.Rows[p2].RowID), xt.L(uint64(d.OldOffset))))
			got = append(got, c04Ev{2, -1, p2})
		default:
			bad("empty-event", "event for key %q has neither Sum nor OldSum", key)
			events.Add(xt.N(xt.LI(9)))
		}
	}

	c04Judge(t1, t2, emitUnchanged, got, c.Kids[2].String() == c.Kids[3].String(), bad)
	return xt.N(xt.LI(0), events), v
}

// c04Ev is one reported event: kind 0 added / 1 modified / 2 removed, with the positions of the
// rows in the case tables (-1 = none).
type c04Ev struct {
	kind, pos1, pos2 int
}

// c04Judge is the oracle: two maps key -> row, independent of blocks, windows and offsets.
func c04Judge(t1, t2 *c04Table, emitUnchanged bool, got []c04Ev, sameTable bool, bad func(class, format string, a ...interface{})) {
	pkEqual := c04StrsEq(t1.PK, t2.PK)
	colsEqual := c04StrsEq(t1.Cols, t2.Cols)
	if pkEqual && (len(t1.PK) > 0 || colsEqual) {
		kstr := func(k []string) string { return fmt.Sprintf("%q", k) }
		m1 := map[string]int{}
		m2 := map[string]int{}
		for i, r := range t1.Rows {
			m1[kstr(r.Key)] = i
		}
		for i, r := range t2.Rows {
			m2[kstr(r.Key)] = i
		}
		want := map[string]c04Ev{}
		for k, i := range m1 {
			if j, ok := m2[k]; ok {
				same := colsEqual && c04StrsEq(c04Cells(t1, t1.Rows[i]), c04Cells(t2, t2.Rows[j]))
				if !same || emitUnchanged {
					want[k] = c04Ev{1, i, j}
				}
			} else {
				want[k] = c04Ev{0, i, -1}
			}
		}
		for k, j := range m2 {
			if _, ok := m1[k]; !ok {
				want[k] = c04Ev{2, -1, j}
			}
		}
		seen := map[string]bool{}
		kindName := []string{"added", "modified", "removed"}
		for _, g := range got {
			var k string
			if g.pos1 >= 0 {
				k = kstr(t1.Rows[g.pos1].Key)
			} else {
				k = kstr(t2.Rows[g.pos2].Key)
			}
			if seen[k] {
				bad("key-twice", "key %s reported twice", k)
				continue
			}
			seen[k] = true
			w, ok := want[k]
			if !ok {
				bad("spurious-"+kindName[g.kind], "key %s reported as %s but the rows are identical", k, kindName[g.kind])
			} else if w != g {
				bad("wrong-kind", "key %s reported as %s (rows %d,%d), expected %s (rows %d,%d)", k, kindName[g.kind], g.pos1, g.pos2, kindName[w.kind], w.pos1, w.pos2)
			}
		}
		var missing []string
		for k := range want {
			if !seen[k] {
				missing = append(missing, k)
			}
		}
		if len(missing) > 0 {
			sort.Strings(missing)
			bad("missed-"+kindName[want[missing[0]].kind], "%d expected events not reported, first: key %s (%s)", len(missing), missing[0], kindName[want[missing[0]].kind])
		}
		if len(t1.Rows) > 0 && sameTable && !emitUnchanged && len(got) > 0 {
			bad("self-diff-nonempty", "diff of a table against itself yields %d events", len(got))
		}
	}
}

func runC04Windows(c *xt.T) (*xt.T, Verdict) {
	var idx1, idx2 [][]string
	for _, k := range c.Kids[1].Kids {
		idx1 = append(idx1, c04Strs(k))
	}
	for _, k := range c.Kids[2].Kids {
		idx2 = append(idx2, c04Strs(k))
	}
	n := len(idx2)
	out := xt.N()
	for off1 := range idx1 {
		row := xt.N()
		for pe := 0; pe <= n; pe++ {
			s, e := diff.VerifFindOverlappingBlocks(idx1, idx2, off1, pe)
			row.Add(xt.N(c04Z(s), c04Z(e)))
		}
		out.Add(row)
	}
	// oracle: thread prevEnd as iterateAndMatch does; every block of table 2 whose key range
	// [B[j], B[j+1]) meets the range [A[i], A[i+1]) of block i must lie inside window i, and the
	// slice arithmetic of getBlockIndices must stay in range.
	v := OK()
	prevStart, prevEnd, prevLen := 0, 0, 0
	for i := range idx1 {
		s, e := diff.VerifFindOverlappingBlocks(idx1, idx2, i, prevEnd)
		if s < 0 || e < s || e > n || (n > 0 && s >= n) {
			return out, Fail("window-out-of-range", "block %d: window (%d,%d) with %d blocks in table 2", i, s, e, n)
		}
		if s != e && prevEnd > s && (s-prevStart < 0 || s-prevStart > prevLen) {
			return out, Fail("window-slice-panic", "block %d: window (%d,%d) after (%d,%d): prevSl[%d:] out of range", i, s, e, prevStart, prevEnd, s-prevStart)
		}
		for j := range idx2 {
			overlap := (j+1 >= n || c04KeyLess(idx1[i], idx2[j+1])) && (i+1 >= len(idx1) || c04KeyLess(idx2[j], idx1[i+1]))
			if overlap && !(s <= j && j < e) {
				return out, Fail("window-incomplete", "block %d of table 1 overlaps block %d of table 2 but the window is (%d,%d)", i, j, s, e)
			}
		}
		prevStart, prevEnd = s, e
		if s == e {
			prevLen = 0
		} else {
			prevLen = e - s
		}
	}
	return out, v
}

// ---------------------------------------------------------------------------------------
// generators

func c04Key1(i int) []string { return []string{fmt.Sprintf("%05d", i)} }

// rowid as a function of key number and table variant: equal for most keys across variants
func c04RowID(i, variant int) int {
	if variant != 0 && i%variant == 0 {
		return (i*7 + variant) % 5
	}
	return i % 3
}

func c04IntTable(ints []int, variant int) *c04Table {
	sort.Ints(ints)
	t := &c04Table{PK: []string{"a"}, Cols: []string{"a", "v"}}
	prev := -1
	for _, i := range ints {
		if i == prev || i < 0 { // "%05d" of a negative number would not sort like the number
			continue
		}
		prev = i
		t.Rows = append(t.Rows, c04Row{Key: c04Key1(i), RowID: c04RowID(i, variant)})
	}
	return t
}

func c04Range(lo, hi, step int) []int {
	var r []int
	for i := lo; i < hi; i += step {
		r = append(r, i)
	}
	return r
}

func c04SortRows(t *c04Table) {
	sort.Slice(t.Rows, func(i, j int) bool { return c04KeyLess(t.Rows[i].Key, t.Rows[j].Key) })
	// drop duplicate keys
	out := t.Rows[:0]
	for i, r := range t.Rows {
		if i > 0 && c04StrsEq(r.Key, t.Rows[i-1].Key) {
			continue
		}
		out = append(out, r)
	}
	t.Rows = out
}

func c04DiffCase(tag string, emitUnchanged bool, t1, t2 *c04Table) Case {
	return Case{Tag: tag, Nontrivial: len(t1.Rows)+len(t2.Rows) > 0,
		C: xt.N(xt.LI(0), xt.Bool(emitUnchanged), c04TableTree(t1), c04TableTree(t2))}
}

func c04WinCase(tag string, idx1, idx2 [][]string) Case {
	return Case{Tag: tag, Nontrivial: len(idx1) > 0 && len(idx2) > 0,
		C: xt.N(xt.LI(1), xt.List(xt.Strs, idx1), xt.List(xt.Strs, idx2))}
}

func genC04(ctx *Ctx) []Case {
	var cases []Case
	// window cases run in the harness goroutine (no process death on a panic) and shrink to a few
	// keys: they are emitted right after the fixed witnesses, before the table cases
	var wcases []Case
	count := func(t1, t2 *c04Table) {
		nb := func(t *c04Table) int { return (len(t.Rows) + 254) / 255 }
		ctx.Count(fmt.Sprintf("blocks_%dx%d", nb(t1), nb(t2)))
		if len(t1.Rows) == 0 || len(t2.Rows) == 0 {
			ctx.Count("one_side_empty")
		}
	}
	byTag := map[string][][2]*c04Table{}
	add := func(tag string, eu bool, t1, t2 *c04Table) {
		count(t1, t2)
		byTag[tag] = append(byTag[tag], [2]*c04Table{t1, t2})
		cases = append(cases, c04DiffCase(tag, eu, t1, t2))
	}
	// other case kinds / flags over the same table pairs
	addK := func(tag string, kind, field int, t1, t2 *c04Table) {
		ctx.Count(fmt.Sprintf("kind%d_field%d", kind, field))
		cases = append(cases, Case{Tag: tag, Nontrivial: len(t1.Rows)+len(t2.Rows) > 0,
			C: xt.N(xt.LI(kind), xt.LI(field), c04TableTree(t1), c04TableTree(t2))})
	}

	// --- fixed witnesses: the defect fixed by 7a1623b (non-empty vs empty), both directions
	empty := c04IntTable(nil, 0)
	one := c04IntTable([]int{500}, 0)
	add("witness", false, one, empty)
	add("witness", false, empty, one)
	add("witness", false, empty, empty)
	add("witness", false, c04IntTable(c04Range(0, 300, 1), 0), empty)
	add("witness", false, empty, c04IntTable(c04Range(0, 300, 1), 0))

	// --- exhaustive small scope: each of 3 keys absent / rowid 0 / rowid 1, all pairs of tables
	var small []*c04Table
	for code := 0; code < 27; code++ {
		t := &c04Table{PK: []string{"a"}, Cols: []string{"a", "v"}}
		x := code
		for k := 0; k < 3; k++ {
			if x%3 > 0 {
				t.Rows = append(t.Rows, c04Row{Key: []string{string(rune('p' + k))}, RowID: x%3 - 1})
			}
			x /= 3
		}
		small = append(small, t)
	}
	for _, t1 := range small {
		for _, t2 := range small {
			add("exh", false, t1, t2)
		}
	}

	// --- multi-block tables, all ordered pairs (tables are ingested once and reused)
	big := []*c04Table{
		empty,
		one,
		c04IntTable(c04Range(0, 255, 1), 0),     // exactly one full block
		c04IntTable(c04Range(0, 256, 1), 0),     // one row into the second block
		c04IntTable(c04Range(1, 255, 1), 0),     // 254 rows
		c04IntTable(c04Range(0, 1200, 2), 0),    // evens, 3 blocks
		c04IntTable(c04Range(1, 1200, 2), 0),    // odds (interleaved, disjoint key sets)
		c04IntTable(c04Range(400, 700, 1), 0),   // nested in the ranges above
		c04IntTable(c04Range(0, 700, 1), 3),     // same keys as others, some rows changed
		c04IntTable(c04Range(2000, 2300, 1), 0), // disjoint, above everything
		c04IntTable(c04Range(0, 1020, 1), 0),    // exactly 4 full blocks
	}
	full4b := c04IntTable(c04Range(0, 1020, 1), 4) // identical key range of 4 full blocks, changed rows
	if ctx.Thorough() {
		big = append(big, full4b,
			c04IntTable(c04Range(0, 510, 1), 0),
			c04IntTable(c04Range(0, 511, 1), 2),
			c04IntTable(c04Range(300, 1275, 1), 5), // 975 rows, blocks misaligned with the 0-based tables
			c04IntTable(c04Range(0, 1300, 5), 0),
			c04IntTable(append(c04Range(0, 100, 1), c04Range(1500, 1700, 1)...), 0),
		)
		for k := 0; k < 6; k++ {
			var ints []int
			p := 20 + ctx.Pick(70)
			for i := 0; i < 1400; i++ {
				if ctx.Pick(100) < p {
					ints = append(ints, i)
				}
			}
			big = append(big, c04IntTable(ints, 2+ctx.Pick(5)))
		}
	}
	for _, t1 := range big {
		for _, t2 := range big {
			add("blocks", false, t1, t2)
		}
	}

	// --- keys clustered at block edges: remove / insert one key around positions 254..256, 509..511
	edgeN := []int{255, 256, 510, 511, 600}
	if !ctx.Thorough() {
		edgeN = []int{256, 511}
	}
	for _, n := range edgeN {
		base := c04IntTable(c04Range(0, 2*n, 2), 0)
		for _, p := range []int{0, 253, 254, 255, 256, 509, 510, n - 1} {
			if p >= n {
				continue
			}
			// variant A: drop the key at position p (shifts every later block boundary)
			var ints []int
			for i := 0; i < n; i++ {
				if i != p {
					ints = append(ints, 2*i)
				}
			}
			a := c04IntTable(ints, 0)
			// variant B: insert a key just before position p, change the row at p
			ints = append(c04Range(0, 2*n, 2), 2*p-1+2)
			b := c04IntTable(ints, 0)
			b.Rows[p].RowID += 7
			add("edges", false, base, a)
			add("edges", false, a, base)
			add("edges", false, base, b)
			add("edges", false, b, a)
			ctx.Count("edge_pairs")
		}
	}

	// --- composite keys tying on the first component; pk columns not first / in another order
	comp := func(n, groups int, variant int, pk, cols []string) *c04Table {
		t := &c04Table{PK: pk, Cols: cols}
		for i := 0; i < n; i++ {
			g := i % groups
			t.Rows = append(t.Rows, c04Row{Key: []string{fmt.Sprintf("g%d", g), fmt.Sprintf("%04d", i/groups*3+variant)}, RowID: c04RowID(i, variant)})
		}
		c04SortRows(t)
		return t
	}
	layouts := [][2][]string{
		{{"a", "b"}, {"a", "b", "v"}},
		{{"a", "b"}, {"v", "b", "a"}},
		{{"b", "a"}, {"a", "v", "b"}},
	}
	for _, lay := range layouts {
		ts := []*c04Table{
			comp(300, 2, 0, lay[0], lay[1]), comp(300, 2, 1, lay[0], lay[1]),
			comp(600, 3, 0, lay[0], lay[1]), comp(280, 1, 0, lay[0], lay[1]),
			{PK: lay[0], Cols: lay[1]},
		}
		for _, t1 := range ts {
			for _, t2 := range ts {
				add("composite", false, t1, t2)
			}
		}
	}
	// composite keys with an empty component and a prefix relation between components
	odd := &c04Table{PK: []string{"a", "b"}, Cols: []string{"a", "b", "v"}}
	for _, k := range [][]string{{"", ""}, {"", "a"}, {"a", ""}, {"a", "a"}, {"a", "ab"}, {"ab", ""}, {"ab", "a"}, {"b", ""}} {
		odd.Rows = append(odd.Rows, c04Row{Key: k, RowID: len(k[0]) + len(k[1])})
	}
	c04SortRows(odd)
	odd2 := &c04Table{PK: odd.PK, Cols: odd.Cols, Rows: append([]c04Row{}, odd.Rows[1:6]...)}
	odd2.Rows[2].RowID = 9
	add("composite", false, odd, odd2)
	add("composite", false, odd2, odd)
	add("composite", false, odd, odd)

	// --- composite keys built to break "join the components, then compare": first components that
	//     are prefixes of one another followed by bytes below / at / above a separator (',' 0x2c,
	//     '\x00', ' ', '!', '-', high bytes), groups sharing the first component larger than a
	//     block or straddling block boundaries
	fam := []string{"", " ", "a", "a ", "a!", "a,", "a-", "a\x00", "ab", "a\xff", "a\"", "b,", "\x80"}
	sort.Strings(fam)
	prefixTable := func(firsts []string, lo, hi, step, variant int, three bool) *c04Table {
		t := &c04Table{PK: []string{"a", "b"}, Cols: []string{"a", "b", "v"}}
		if three {
			t = &c04Table{PK: []string{"a", "b", "c"}, Cols: []string{"a", "v", "b", "c"}}
		}
		n := 0
		for _, f := range firsts {
			if three {
				for _, g := range firsts {
					for i := lo; i < hi; i += step {
						n++
						t.Rows = append(t.Rows, c04Row{Key: []string{f, g, fmt.Sprintf("%03d", i)}, RowID: c04RowID(n, variant)})
					}
				}
				continue
			}
			for i := lo; i < hi; i += step {
				n++
				// the second component starts with a digit or with a separator-like byte
				sec := fmt.Sprintf("%04d", i)
				if i%7 == 3 {
					sec = fmt.Sprintf(" %03d", i)
				}
				t.Rows = append(t.Rows, c04Row{Key: []string{f, sec}, RowID: c04RowID(n, variant)})
			}
		}
		c04SortRows(t)
		return t
	}
	grp := 60 // rows per first-component group: 255 and 510 fall inside groups
	if ctx.Thorough() {
		grp = 100
	}
	pfx := []*c04Table{
		prefixTable(fam, 0, grp, 1, 0, false),                            // 13 groups: block boundaries fall inside groups
		prefixTable(fam, 20, 20+grp, 2, 3, false),                        // overlapping second components, other block cuts
		prefixTable(fam[2:9], 0, 300, 1, 0, false),                       // groups larger than a block
		prefixTable([]string{"a", "a ", "a,", "ab"}, 0, 90, 1, 4, false), // nested in the above
		prefixTable(fam[1:8], 0, 12, 1, 0, true),                         // 3 columns, 49 groups x 12
		prefixTable(fam[2:9], 3, 15, 1, 5, true),
		{PK: []string{"a", "b"}, Cols: []string{"a", "b", "v"}},
	}
	for _, t1 := range pfx {
		for _, t2 := range pfx {
			if len(t1.PK) != len(t2.PK) {
				continue
			}
			add("prefix", false, t1, t2)
		}
	}

	// --- keyless tables with equal columns (the key is the whole row), and with different columns
	keyless := func(ints []int, cols []string) *c04Table {
		t := &c04Table{Cols: cols}
		for _, i := range ints {
			t.Rows = append(t.Rows, c04Row{Key: []string{fmt.Sprintf("%04d", i), fmt.Sprintf("w%d", i%4)}})
		}
		c04SortRows(t)
		return t
	}
	kl := []*c04Table{
		keyless(c04Range(0, 300, 1), []string{"a", "b"}), keyless(c04Range(100, 420, 1), []string{"a", "b"}),
		keyless(c04Range(0, 600, 2), []string{"a", "b"}), keyless(nil, []string{"a", "b"}),
		keyless(c04Range(0, 300, 1), []string{"a", "c"}),
	}
	for _, t1 := range kl {
		for _, t2 := range kl {
			add("keyless", false, t1, t2)
		}
	}

	// --- same pk, different columns (every common key is reported); different pk (nothing is);
	//     emitUnchanged
	wide := func(t *c04Table) *c04Table {
		return &c04Table{PK: t.PK, Cols: append(append([]string{}, t.Cols...), "w"), Rows: t.Rows}
	}
	otherPK := func(t *c04Table) *c04Table {
		return &c04Table{PK: []string{"z"}, Cols: []string{"z", "v"}, Rows: t.Rows}
	}
	for _, pr := range [][2]int{{8, 7}, {7, 8}, {2, 3}, {5, 6}, {8, 8}, {1, 0}} {
		t1, t2 := big[pr[0]], big[pr[1]]
		add("columns", false, t1, wide(t2))
		add("columns", false, wide(t1), t2)
		add("columns", false, wide(t1), wide(t2))
		add("columns", false, t1, otherPK(t2))
		add("columns", true, t1, t2)
		add("columns", true, wide(t1), t2)
	}

	// --- random tables: density, block count and overlap shape drawn at random
	nr := 25
	if ctx.Thorough() {
		nr = 400
	}
	for k := 0; k < nr; k++ {
		mk := func(lo, hi int) *c04Table {
			var ints []int
			p := 5 + ctx.Pick(95)
			for i := lo; i < hi; i++ {
				if ctx.Pick(100) < p {
					ints = append(ints, i)
				}
			}
			return c04IntTable(ints, 2+ctx.Pick(6))
		}
		span := 50 + ctx.Pick(1100)
		lo1 := ctx.Pick(400)
		t1 := mk(lo1, lo1+span)
		var t2 *c04Table
		switch ctx.Pick(5) {
		case 0: // disjoint
			t2 = mk(lo1+span+ctx.Pick(50), lo1+span+50+ctx.Pick(700))
			ctx.Count("rand_disjoint")
		case 1: // nested
			a := lo1 + ctx.Pick(span/2+1)
			t2 = mk(a, a+1+ctx.Pick(span/2+1))
			ctx.Count("rand_nested")
		case 2: // a few edits of t1
			t2 = &c04Table{PK: t1.PK, Cols: t1.Cols}
			for _, r := range t1.Rows {
				switch ctx.Pick(40) {
				case 0:
				case 1:
					t2.Rows = append(t2.Rows, c04Row{Key: r.Key, RowID: r.RowID + 10})
				default:
					t2.Rows = append(t2.Rows, r)
				}
			}
			ctx.Count("rand_edited")
		default: // overlapping ranges
			a := lo1 + ctx.Pick(span)
			t2 = mk(a-ctx.Pick(300), a+ctx.Pick(900))
			ctx.Count("rand_overlap")
		}
		if ctx.Pick(2) == 0 {
			t1, t2 = t2, t1
		}
		add("rand", ctx.Pick(8) == 0, t1, t2)
	}

	// --- whole blocks shared at shifted positions: a side inserted / removed an exact multiple of 255
	//     rows in front of untouched blocks, a middle block removed, blocks exchanged between key
	//     ranges, with edits inside and outside the shared blocks.  Run with emitUnchanged off and on
	//     (on: every unchanged row is an event whose two offsets must address that row in each table).
	{
		const b0 = 1000
		nb := 3 // blocks of the base table B0 .. B(nb-1)
		if ctx.Thorough() {
			nb = 4
		}
		last := nb - 1
		blks := func(from, to int) []int { return c04Range(b0+255*from, b0+255*to, 1) } // blocks [from, to)
		edit := func(t *c04Table, keys ...int) *c04Table {
			out := &c04Table{PK: t.PK, Cols: t.Cols, Rows: append([]c04Row{}, t.Rows...)}
			for i := range out.Rows {
				for _, k := range keys {
					if out.Rows[i].Key[0] == c04Key1(k)[0] {
						out.Rows[i].RowID += 7
					}
				}
			}
			return out
		}
		cat := func(parts ...[]int) []int {
			var r []int
			for _, p := range parts {
				r = append(r, p...)
			}
			return r
		}
		sh := []*c04Table{
			c04IntTable(blks(0, nb), 0),                                                            // B0 .. Blast
			c04IntTable(blks(1, nb), 0),                                                            // first block removed
			c04IntTable(cat(blks(0, 1), blks(2, nb)), 0),                                           // middle block removed
			c04IntTable(cat(c04Range(0, 255, 1), blks(0, nb)), 0),                                  // 255 rows inserted in front
			edit(c04IntTable(blks(1, nb), 0), b0+300, b0+255*nb-1),                                 // shifted, edits inside shared blocks
			c04IntTable(cat(blks(last, nb), c04Range(5000, 5300, 1)), 0),                           // last block moved to the front of other rows
			c04IntTable(cat(blks(1, nb), c04Range(5000, 5080, 1)), 0),                              // shifted + short last block
			edit(c04IntTable(cat(c04Range(0, 255, 1), blks(0, nb)), 0), 7, b0+254, b0+255, b0+600), // edits at block edges
		}
		if ctx.Thorough() {
			sh = append(sh,
				c04IntTable(blks(2, nb), 0),
				c04IntTable(cat(c04Range(0, 510, 1), blks(0, nb), c04Range(5000, 5080, 1)), 0), // 510 rows inserted in front
				c04IntTable(cat(blks(0, 1), blks(last, nb)), 0),                                // B0 Blast
			)
		}
		for i, t1 := range sh {
			for j, t2 := range sh {
				if !ctx.Thorough() && !(i == 0 || j == 0 || (i+2*j)%11 == 0) {
					continue
				}
				add("shifted", false, t1, t2)
				addK("shifted", 0, 1, t1, t2)
				if ctx.Thorough() || (i+j)%5 == 0 {
					addK("shifted", 0, 3, t1, t2) // one store: shared blocks are the very same objects
					addK("shifted", 3, 1, t1, t2) // through the readers
				}
			}
		}
	}

	// --- table indices rebuilt by ingest.IndexTable, as for a table that was received (fetch / pull /
	//     push) instead of ingested: same answer required.  Needs key columns that are not the leading
	//     columns and several blocks to matter.
	{
		notFirst := func(ints []int, variant int) *c04Table {
			t := c04IntTable(ints, variant)
			t.Cols = []string{"v", "w", "a"}
			return t
		}
		nf := []*c04Table{
			notFirst(c04Range(0, 700, 1), 0), notFirst(c04Range(100, 900, 1), 3),
			notFirst(c04Range(0, 1400, 2), 0), notFirst(c04Range(300, 560, 1), 4),
		}
		for i, t1 := range nf {
			for j, t2 := range nf {
				if !ctx.Thorough() && (i+j)%2 == 1 {
					continue
				}
				addK("reindexed", 0, 4, t1, t2)
			}
		}
		for i, pr := range byTag["composite"] {
			if i%3 == 0 || ctx.Thorough() {
				addK("reindexed", 0, 4+i%2, pr[0], pr[1])
			}
		}
		for i, pr := range byTag["keyless"] {
			if i%2 == 0 || ctx.Thorough() {
				addK("reindexed", 0, 4, pr[0], pr[1])
			}
		}
		for i, pr := range byTag["shifted"] {
			if i%6 == 0 {
				addK("reindexed", 3, 5, pr[0], pr[1])
			}
		}
	}

	// --- options and stores: emitUnchanged on (as merge uses it), both tables in one object store
	//     (kind 0 otherwise keeps each table in its own store, as when diffing a fetched table)
	for _, pr := range byTag["exh"] {
		addK("emit-unchanged", 0, 1, pr[0], pr[1])
	}
	for i, pr := range byTag["blocks"] {
		if i%5 == 0 || ctx.Thorough() {
			addK("emit-unchanged", 0, 1, pr[0], pr[1])
		}
		if i%6 == 1 || ctx.Thorough() {
			addK("one-store", 0, 2, pr[0], pr[1])
		}
	}
	for i, pr := range byTag["edges"] {
		addK("one-store", 0, 2+i%2, pr[0], pr[1])
	}
	for i, pr := range byTag["exh"] {
		if i%3 == 0 {
			addK("one-store", 0, 2, pr[0], pr[1])
		}
	}

	// --- the consumers of the interactive diff: RowListReader / RowChangeReader / TableReader
	for _, tag := range []string{"edges", "keyless", "columns", "composite", "blocks", "rand", "prefix"} {
		for i, pr := range byTag[tag] {
			if !ctx.Thorough() && ((tag == "blocks" || tag == "composite" || tag == "prefix") && i%5 != 0 || tag == "edges" && i%2 != 0) {
				continue
			}
			addK("readers", 3, i%2, pr[0], pr[1])
		}
	}

	// --- wrgl diff --no-gui in-process: two branches (0), file vs branch (1), branch vs file (2)
	{
		smallA := small[5]  // p (rowid 1), q (rowid 0)
		smallB := small[15] // q (rowid 1), r (rowid 0)
		n := 600
		base := c04IntTable(c04Range(0, 2*n, 2), 0)
		var ints []int
		for i := 0; i < n; i++ {
			if i != 255 {
				ints = append(ints, 2*i)
			}
		}
		ints = append(ints, 2*256+1, 2*509+1)
		edited := c04IntTable(ints, 0)
		edited.Rows[254].RowID += 7
		edited.Rows[509].RowID += 7
		kl1 := keyless(c04Range(0, 300, 1), []string{"a", "b"})
		kl2 := keyless(c04Range(100, 420, 1), []string{"a", "b"})
		cp1 := comp(300, 2, 0, layouts[1][0], layouts[1][1])
		cp2 := comp(600, 3, 0, layouts[1][0], layouts[1][1])
		cli := []struct {
			mode   int
			t1, t2 *c04Table
		}{
			{0, smallA, smallB}, {1, smallA, smallB}, {2, smallB, smallA},
			{0, edited, base}, {1, base, edited}, {2, edited, base},
			{0, cp1, cp2}, {1, cp2, cp1},
			{0, kl1, kl2}, {1, kl2, kl1},
			{0, big[8], wide(big[7])}, {2, wide(big[8]), big[5]},
			{0, big[10], full4b},
			{0, big[3], empty}, {1, empty, big[3]},
			{0, big[8], otherPK(big[7])},
			{0, pfx[0], pfx[1]}, {1, pfx[3], pfx[2]}, {2, pfx[4], pfx[5]},
		}
		if ctx.Thorough() {
			for i, pr := range byTag["edges"] {
				cli = append(cli, struct {
					mode   int
					t1, t2 *c04Table
				}{i % 3, pr[0], pr[1]})
			}
			for i, pr := range byTag["rand"] {
				if i < 60 {
					cli = append(cli, struct {
						mode   int
						t1, t2 *c04Table
					}{i % 3, pr[0], pr[1]})
				}
			}
			for i, pr := range byTag["prefix"] {
				cli = append(cli, struct {
					mode   int
					t1, t2 *c04Table
				}{i % 3, pr[0], pr[1]})
			}
			for i, pr := range byTag["composite"] {
				if i%4 == 0 {
					cli = append(cli, struct {
						mode   int
						t1, t2 *c04Table
					}{i % 3, pr[0], pr[1]})
				}
			}
		}
		for _, x := range cli {
			addK("cli", 2, x.mode, x.t1, x.t2)
		}
	}

	// --- findOverlappingBlocks directly: all pairs of strictly increasing first-key vectors of
	//     length <= 4 over a 6-word alphabet (prefix-related words included)
	words := []string{"", "a", "ab", "b", "ba", "c"}
	var vecs [][][]string
	for mask := 0; mask < 1<<len(words); mask++ {
		var v [][]string
		for i, w := range words {
			if mask&(1<<i) != 0 {
				v = append(v, []string{w})
			}
		}
		if len(v) <= 4 {
			vecs = append(vecs, v)
		}
	}
	for _, a := range vecs {
		if len(a) == 0 {
			continue
		}
		for _, b := range vecs {
			wcases = append(wcases, c04WinCase("windows-exh", a, b))
			ctx.Count("window_cases")
		}
	}
	// exhaustive over composite first keys whose order differs from the order of the joined
	// strings: all pairs of strictly increasing vectors of length <= 3 over these keys
	wkeys := [][]string{
		{"", "a,"}, {"a", ""}, {"a", "z"}, {"a ", "a"}, {"a!", "a"}, {"a,", "a"}, {"a-", "a"},
		{"a\x00", "z"}, {"ab", ""}, {"a\xff", ","},
	}
	sort.Slice(wkeys, func(i, j int) bool { return c04KeyLess(wkeys[i], wkeys[j]) })
	if !ctx.Thorough() {
		wkeys = wkeys[:8]
	}
	var wvecs [][][]string
	for mask := 0; mask < 1<<len(wkeys); mask++ {
		var v [][]string
		for i, w := range wkeys {
			if mask&(1<<i) != 0 {
				v = append(v, w)
			}
		}
		if len(v) <= 3 {
			wvecs = append(wvecs, v)
		}
	}
	for _, a := range wvecs {
		if len(a) == 0 {
			continue
		}
		for _, b := range wvecs {
			wcases = append(wcases, c04WinCase("windows-prefix", a, b))
			ctx.Count("window_cases")
		}
	}
	// three columns, the prefix relation in the middle column: vectors of length <= 2 (thorough: 3)
	mids := []string{"", " ", "a", "a ", "a,", "a-", "ab"}
	var wkeys3 [][]string
	for _, m := range mids {
		wkeys3 = append(wkeys3, []string{"k", m, "1"})
	}
	wkeys3 = append(wkeys3, []string{"k ", "", "0"}, []string{"k,", "", "0"})
	sort.Slice(wkeys3, func(i, j int) bool { return c04KeyLess(wkeys3[i], wkeys3[j]) })
	maxLen3 := 2
	if ctx.Thorough() {
		maxLen3 = 3
	}
	var wvecs3 [][][]string
	for mask := 0; mask < 1<<len(wkeys3); mask++ {
		var v [][]string
		for i, w := range wkeys3 {
			if mask&(1<<i) != 0 {
				v = append(v, w)
			}
		}
		if len(v) <= maxLen3 {
			wvecs3 = append(wvecs3, v)
		}
	}
	for _, a := range wvecs3 {
		if len(a) == 0 {
			continue
		}
		for _, b := range wvecs3 {
			wcases = append(wcases, c04WinCase("windows-prefix", a, b))
			ctx.Count("window_cases")
		}
	}
	// random composite first-key vectors tying on the first component
	nw := 300
	if ctx.Thorough() {
		nw = 6000
	}
	for k := 0; k < nw; k++ {
		mk := func() [][]string {
			n := ctx.Pick(7)
			set := map[string][]string{}
			for i := 0; i < n; i++ {
				pool := words
				if k%2 == 1 {
					pool = fam
				}
				key := []string{pool[ctx.Pick(4)], pool[ctx.Pick(len(pool))]}
				if ctx.Pick(3) == 0 {
					key = append(key, pool[ctx.Pick(len(pool))])
				} else {
					key = append(key, "")
				}
				set[fmt.Sprintf("%q", key)] = key
			}
			var v [][]string
			for _, key := range set {
				v = append(v, key)
			}
			sort.Slice(v, func(i, j int) bool { return c04KeyLess(v[i], v[j]) })
			return v
		}
		a := mk()
		if len(a) == 0 {
			continue
		}
		wcases = append(wcases, c04WinCase("windows-rand", a, mk()))
		ctx.Count("window_cases")
	}
	out := append([]Case{}, cases[:5]...)
	out = append(out, wcases...)
	return append(out, cases[5:]...)
}
