package main

import (
	"fmt"
	"sort"
	"strings"

	"github.com/wrgl/wrgl/pkg/diff"
)

// Specification oracle for C05, independent of the Coq model: the name-based
// three-way merge computed over maps  key -> (column name -> value).
//
// Cell states: NoCell (the table has no such column, or the branch removed the row),
// Val v.  For key k and column c the base state is NoCell when c is not a base
// column, Val when the base has the row, and "absent" (different from every
// branch state) when the base lacks the row.  The set of distinct branch states
// that differ from the base state decides: empty => base state, one => it,
// more => conflict.  A row removed by one branch and changed by another is a
// row-level conflict; removed by some and unchanged by the rest => removed.

type c05Cell struct {
	Has bool
	V   string
}

func (c c05Cell) String() string {
	if !c.Has {
		return "<none>"
	}
	return fmt.Sprintf("%q", c.V)
}

type c05RowMap map[string]string // column name -> value

func c05MapEq(a, b c05RowMap) bool {
	if len(a) != len(b) {
		return false
	}
	for k, v := range a {
		if w, ok := b[k]; !ok || w != v {
			return false
		}
	}
	return true
}

type c05TabMap struct {
	Cols map[string]bool
	Rows map[string]c05RowMap // key (joined) -> row
	Keys map[string][]string
}

func c05KeyStr(k []string) string { return strings.Join(k, "\x00") + fmt.Sprintf("\x01%d", len(k)) }

func c05ToMap(tb *c05Table) *c05TabMap {
	m := &c05TabMap{Cols: map[string]bool{}, Rows: map[string]c05RowMap{}, Keys: map[string][]string{}}
	for _, c := range tb.Cols {
		m.Cols[c] = true
	}
	for _, r := range tb.Rows {
		k := c05KeyOf(tb, r)
		rm := c05RowMap{}
		for i, c := range tb.Cols {
			rm[c] = r[i]
		}
		m.Rows[c05KeyStr(k)] = rm
		m.Keys[c05KeyStr(k)] = k
	}
	return m
}

const (
	c05Unchanged   = iota // no branch changed the row: no merge record, base row stays
	c05Removed            // removed (resolved, no row)
	c05RowConflict        // removed by one branch, changed by another
	c05Cellwise           // resolved / conflicting per cell
)

type c05SpecRow struct {
	Kind     int
	Cells    map[string]c05Cell // Cellwise: value per non-conflicting column of names
	Conflict map[string]bool    // Cellwise: conflicting columns
}

func c05SpecKey(names []string, base *c05TabMap, others []*c05TabMap, k string) *c05SpecRow {
	b, bok := base.Rows[k]
	var present []int
	removed := 0
	changed := 0
	for i, o := range others {
		r, ok := o.Rows[k]
		if ok {
			present = append(present, i)
			if bok && !c05MapEq(r, b) {
				changed++
			}
		} else if bok {
			removed++
		}
	}
	if bok {
		if removed == 0 && changed == 0 {
			return &c05SpecRow{Kind: c05Unchanged}
		}
		if removed > 0 && changed == 0 {
			return &c05SpecRow{Kind: c05Removed}
		}
		if removed > 0 {
			return &c05SpecRow{Kind: c05RowConflict}
		}
	}
	sr := &c05SpecRow{Kind: c05Cellwise, Cells: map[string]c05Cell{}, Conflict: map[string]bool{}}
	for _, c := range names {
		// base state: 0 NoCell, 1 Val, 2 absent
		bst, bv := 0, ""
		if base.Cols[c] {
			if bok {
				bst, bv = 1, b[c]
			} else {
				bst = 2
			}
		}
		changes := map[c05Cell]bool{}
		for _, i := range present {
			st := c05Cell{}
			if others[i].Cols[c] {
				st = c05Cell{true, others[i].Rows[k][c]}
			}
			same := (bst == 0 && !st.Has) || (bst == 1 && st.Has && st.V == bv)
			if !same {
				changes[st] = true
			}
		}
		switch len(changes) {
		case 0:
			sr.Cells[c] = c05Cell{bst == 1, bv}
		case 1:
			for st := range changes {
				sr.Cells[c] = st
			}
		default:
			sr.Conflict[c] = true
		}
	}
	return sr
}

func c05Dup(l []string) bool {
	m := map[string]bool{}
	for _, s := range l {
		if m[s] {
			return true
		}
		m[s] = true
	}
	return false
}

func c05EqStrs(a, b []string) bool {
	if len(a) != len(b) {
		return false
	}
	for i := range a {
		if a[i] != b[i] {
			return false
		}
	}
	return true
}

// c05InScope: tables the property quantifies over (shared primary key or all keyless,
// well-formed column lists).  Keyless tables additionally need equal column lists,
// otherwise row identity is undefined.
func c05InScope(base *c05Table, others []*c05Table) bool {
	for _, t := range append([]*c05Table{base}, others...) {
		if c05Dup(t.Cols) || c05Dup(t.PK) || !c05EqStrs(t.PK, base.PK) || len(t.Cols) == 0 {
			return false
		}
		for _, p := range c05PKIdx(t.Cols, t.PK) {
			if p < 0 {
				return false
			}
		}
		if len(base.PK) == 0 && !c05EqStrs(t.Cols, base.Cols) {
			return false
		}
		seen := map[string]bool{}
		for _, r := range t.Rows {
			k := c05KeyStr(c05KeyOf(t, r))
			if seen[k] {
				return false
			}
			seen[k] = true
		}
	}
	return len(others) > 0
}

func c05JudgeError(base *c05Table, others []*c05Table) Verdict {
	if c05InScope(base, others) {
		return Fail("merge-error-in-scope", "merge failed on tables sharing a primary key")
	}
	return OK()
}

// c05JudgeColDiff: Names is duplicate-free and the union of all column names, key names
// first (in key order), every table's columns map injectively onto their own names,
// Added/Removed are the set differences with the base.
func c05JudgeColDiff(base *c05Table, others []*c05Table, cd *diff.ColDiff) Verdict {
	all := append([]*c05Table{base}, others...)
	for _, t := range all {
		if c05Dup(t.Cols) || c05Dup(t.PK) {
			return OK() // outside the precondition (ingest guarantees distinct names)
		}
		for _, p := range c05PKIdx(t.Cols, t.PK) {
			if p < 0 {
				return OK()
			}
		}
	}
	if c05Dup(cd.Names) {
		return Fail("names-duplicate", "Names %q has a duplicate", cd.Names)
	}
	union := map[string]bool{}
	for _, t := range all {
		for _, c := range t.Cols {
			union[c] = true
		}
	}
	pos := map[string]int{}
	for i, s := range cd.Names {
		pos[s] = i
		if !union[s] {
			return Fail("names-phantom", "Names contains %q which no table has", s)
		}
	}
	if len(pos) != len(union) {
		return Fail("names-missing", "Names %q misses a column", cd.Names)
	}
	pk := others[0].PK
	for i, p := range pk {
		if i >= len(cd.Names) || cd.Names[i] != p {
			return Fail("names-pk-not-first", "Names %q does not start with the key %q", cd.Names, pk)
		}
	}
	// relative order of non-key columns of every table is kept? (not required by the property) - skip
	chk := func(what string, cols []string, idx map[uint32]uint32) *Verdict {
		if len(idx) != len(cols) {
			v := Fail("idx-not-injective", "%s index map has %d entries for %d columns", what, len(idx), len(cols))
			return &v
		}
		for i, c := range cols {
			if j, ok := idx[uint32(pos[c])]; !ok || int(j) != i {
				v := Fail("idx-wrong", "%s column %q (position %d) not mapped from Names[%d]", what, c, i, pos[c])
				return &v
			}
		}
		return nil
	}
	if v := chk("base", base.Cols, cd.BaseIdx); v != nil {
		return *v
	}
	bm := map[string]bool{}
	for _, c := range base.Cols {
		bm[c] = true
	}
	for l, o := range others {
		if v := chk(fmt.Sprintf("branch %d", l), o.Cols, cd.OtherIdx[l]); v != nil {
			return *v
		}
		om := map[string]bool{}
		for _, c := range o.Cols {
			om[c] = true
		}
		for i, s := range cd.Names {
			_, a := cd.Added[l][uint32(i)]
			_, r := cd.Removed[l][uint32(i)]
			if a != (om[s] && !bm[s]) || r != (bm[s] && !om[s]) {
				return Fail("added-removed-wrong", "branch %d column %q: added=%v removed=%v", l, s, a, r)
			}
		}
	}
	return OK()
}

// c05CrossLayout: for key k two of the tables (base, branches) have different column
// lists but the same cell sequence - the situation in which the merger's row sums
// (hashes of the cell sequence in the table's own layout) coincide or differ for the
// wrong reason (known finding merge-rowsum-compared-across-layouts).
func c05CrossLayout(tabs []*c05Table, k string) bool {
	type rc struct {
		cols []string
		row  []string
	}
	var l []rc
	for _, t := range tabs {
		for _, r := range t.Rows {
			if c05KeyStr(c05KeyOf(t, r)) == k {
				l = append(l, rc{t.Cols, r})
			}
		}
	}
	for i := range l {
		for j := i + 1; j < len(l); j++ {
			if !c05EqStrs(l[i].cols, l[j].cols) && c05EqStrs(l[i].row, l[j].row) {
				return true
			}
		}
	}
	return false
}

// c05PermutedLayout: some branch holding key k has the base columns in another order
func c05PermutedLayout(base *c05Table, others []*c05Table, k string) bool {
	for _, t := range others {
		has := false
		for _, r := range t.Rows {
			if c05KeyStr(c05KeyOf(t, r)) == k {
				has = true
			}
		}
		if has && !c05EqStrs(t.Cols, base.Cols) {
			return true
		}
	}
	return false
}

type c05Dev struct {
	prio int
	v    Verdict
}

func c05Judge(base *c05Table, others []*c05Table, policy, remmode int, res *c05Result) Verdict {
	if !c05InScope(base, others) {
		return OK()
	}
	if len(base.PK) == 0 {
		return c05JudgeKeyless(base, others, policy, remmode, res)
	}
	if v := c05JudgeColDiff(base, others, res.CD); !v.OK {
		return v
	}
	names := res.CD.Names
	all := append([]*c05Table{base}, others...)
	bm := c05ToMap(base)
	oms := make([]*c05TabMap, len(others))
	for i, o := range others {
		oms[i] = c05ToMap(o)
	}
	keys := map[string][]string{}
	for _, m := range append([]*c05TabMap{bm}, oms...) {
		for k, v := range m.Keys {
			keys[k] = v
		}
	}
	recOf := map[string]*c05Rec{}
	for _, r := range res.Recs {
		recOf[c05KeyStr(r.Key)] = r
	}
	removedCol := map[string]bool{} // columns removed by some branch
	for l := range others {
		for i := range res.CD.Removed[l] {
			removedCol[names[i]] = true
		}
	}
	// deviations: all are collected; one of an unexplained class is reported in preference
	// to one of a class that has a recognised cause
	var devs []c05Dev
	curKey := ""
	dev := func(class, format string, a ...interface{}) {
		prio := 0
		switch {
		case c05CrossLayout(all, curKey):
			class, prio = "merge-rowsum-compared-across-layouts", 1
		case class == "spurious-conflict-removed" && c05PermutedLayout(base, others, curKey):
			class, prio = "merge-reorder-vs-removal-spurious-conflict", 1
		}
		devs = append(devs, c05Dev{prio, Fail(class, format, a...)})
	}
	// expected final table: key -> column -> value
	expect := map[string]c05RowMap{}
	baseRow := func(k string) c05RowMap {
		rm := c05RowMap{}
		for _, c := range names {
			rm[c] = bm.Rows[k][c] // "" when not a base column
		}
		return rm
	}
	rowMapOf := func(row []string) c05RowMap {
		rm := c05RowMap{}
		for i, c := range names {
			rm[c] = row[i]
		}
		return rm
	}
	var skeys []string
	for k := range keys {
		skeys = append(skeys, k)
	}
	sort.Strings(skeys)
	for _, k := range skeys {
		curKey = k
		sp := c05SpecKey(names, bm, oms, k)
		rec := recOf[k]
		key := keys[k]
		if rec != nil && rec.Row != nil && len(rec.Row) != len(names) {
			return Fail("resolved-row-width", "key %q: resolved row %q has not the width of Names %q", key, rec.Row, names)
		}
		switch sp.Kind {
		case c05Unchanged:
			// a record is harmless when it resolves to the base content
			if rec != nil && !(rec.Resolved && rec.Row != nil && c05MapEq(rowMapOf(rec.Row), baseRow(k))) {
				dev("record-for-unchanged-row", "key %q: no branch changed the row but the merger produced the record %+v", key, *rec)
			}
			expect[k] = baseRow(k)
		case c05Removed:
			if rec == nil {
				dev("removed-row-kept", "key %q removed by a branch, unchanged elsewhere, but no merge record", key)
			} else if !rec.Resolved {
				dev("spurious-conflict-removed", "key %q: removal vs unchanged reported as a conflict", key)
			} else if rec.Row != nil {
				dev("removed-row-kept", "key %q removed by a branch, unchanged elsewhere, but resolved to %q", key, rec.Row)
			}
		case c05RowConflict:
			if rec == nil || rec.Resolved {
				dev("missed-conflict", "key %q removed by one branch and changed by another, but no conflict reported", key)
			}
		case c05Cellwise:
			if rec == nil {
				dev("change-lost", "key %q changed by a branch but the merger produced no record", key)
				if _, ok := bm.Rows[k]; ok {
					expect[k] = baseRow(k)
				}
				break
			}
			if len(sp.Conflict) > 0 {
				if rec.Resolved {
					dev("missed-conflict", "key %q: columns %v conflict but the row is reported resolved as %q", key, c05SetStr(sp.Conflict), rec.Row)
				} else {
					got := map[string]bool{}
					for _, i := range rec.Unresolved {
						got[names[i]] = true
					}
					if c05SetStr(got) != c05SetStr(sp.Conflict) {
						dev("unresolved-cols-wrong", "key %q: conflicting columns %s, reported %s", key, c05SetStr(sp.Conflict), c05SetStr(got))
					}
				}
			} else {
				if !rec.Resolved {
					dev("spurious-conflict", "key %q: no cell conflicts, yet reported unresolved (cols %v)", key, rec.Unresolved)
				} else if rec.Row == nil {
					dev("change-lost", "key %q: resolved to no row", key)
				}
			}
			// every non-conflicting cell carries the spec value (also inside unresolved rows)
			if rec.Row != nil {
				for i, c := range names {
					if sp.Conflict[c] {
						continue
					}
					want := sp.Cells[c]
					if rec.Row[i] != want.V { // NoCell is rendered as ""
						cls := "silent-alter"
						if !c05ValueKnown(rec.Row[i], c, k, bm, oms) {
							cls = "invented-value"
						}
						dev(cls, "key %q column %q: expected %v, resolved row has %q", key, c, want, rec.Row[i])
					} else if !want.Has && bm.Cols[c] && !removedCol[c] {
						dev("cell-dropped", "key %q column %q: spec says no cell but the column is not removed", key, c)
					}
				}
			}
			if rec.Resolved && rec.Row != nil {
				expect[k] = rowMapOf(rec.Row)
			}
		}
		// conflicting rows: the caller's policy decides
		if rec != nil && !rec.Resolved {
			delete(expect, k)
			switch policy {
			case 0:
				if _, ok := bm.Rows[k]; ok {
					expect[k] = baseRow(k)
				}
			case 2:
				if rec.Row != nil {
					expect[k] = rowMapOf(rec.Row)
				}
			}
		}
	}
	// ---- final table
	var wantCols []string
	for i, c := range names {
		if remmode == 1 {
			drop := false
			for l := range others {
				if _, ok := res.CD.Removed[l][uint32(i)]; ok {
					drop = true
				}
			}
			if drop {
				continue
			}
		}
		wantCols = append(wantCols, c)
	}
	if !c05EqStrs(wantCols, res.Cols) {
		return Fail("result-columns", "result columns %q, expected %q", res.Cols, wantCols)
	}
	if len(devs) == 0 {
		var wantRows [][]string
		var ekeys [][]string
		for k := range expect {
			ekeys = append(ekeys, keys[k])
		}
		sort.Slice(ekeys, func(i, j int) bool { return c05LessCells(ekeys[i], ekeys[j]) })
		for _, key := range ekeys {
			rm := expect[c05KeyStr(key)]
			row := make([]string, len(wantCols))
			for i, c := range wantCols {
				row[i] = rm[c]
			}
			wantRows = append(wantRows, row)
		}
		if fmt.Sprint(wantRows) != fmt.Sprint(res.Rows) || len(wantRows) != len(res.Rows) || res.Status != 0 {
			// Known finding F1: the collector sorts/deduplicates on the BASE key positions and
			// re-adds untouched (and, policy 0, unresolved) base rows in the BASE layout.  It can
			// bite only when the key is not at the front of the base columns, or when the merged
			// layout differs from the base layout and some base row is re-added.
			readded := false
			for k := range bm.Rows {
				r := recOf[k]
				if r == nil || (!r.Resolved && policy == 0) {
					readded = true
				}
			}
			pkFront := true
			for i, p := range c05PKIdx(base.Cols, base.PK) {
				if p != i {
					pkFront = false
				}
			}
			if !pkFront || (!c05EqStrs(names, base.Cols) && readded) {
				devs = append(devs, c05Dev{2, Fail("merge-untouched-rows-in-base-layout",
					"merged layout %q != base layout %q (key %q): status %d result %q, expected %q (columns %q)",
					names, base.Cols, base.PK, res.Status, c05Trunc(res.Rows), c05Trunc(wantRows), wantCols)})
			} else {
				devs = append(devs, c05Dev{0, Fail("merge-result-wrong", "status %d result %q, expected %q (columns %q)",
					res.Status, c05Trunc(res.Rows), c05Trunc(wantRows), wantCols)})
			}
		}
	}
	if len(devs) == 0 {
		return OK()
	}
	sort.SliceStable(devs, func(i, j int) bool { return devs[i].prio < devs[j].prio })
	return devs[0].v
}

func c05Trunc(rows [][]string) [][]string {
	if len(rows) > 8 {
		return rows[:8]
	}
	return rows
}

func c05ValueKnown(v, col, k string, bm *c05TabMap, oms []*c05TabMap) bool {
	if r, ok := bm.Rows[k]; ok && bm.Cols[col] && r[col] == v {
		return true
	}
	for _, o := range oms {
		if r, ok := o.Rows[k]; ok && o.Cols[col] && r[col] == v {
			return true
		}
	}
	return v == ""
}

func c05SetStr(m map[string]bool) string {
	var l []string
	for k, v := range m {
		if v {
			l = append(l, k)
		}
	}
	sort.Strings(l)
	return fmt.Sprintf("%q", l)
}

// keyless tables with equal columns: rows are their own keys; three-way set merge
func c05JudgeKeyless(base *c05Table, others []*c05Table, policy, remmode int, res *c05Result) Verdict {
	if !c05EqStrs(res.CD.Names, base.Cols) {
		return Fail("names-wrong", "keyless, equal columns: Names %q != %q", res.CD.Names, base.Cols)
	}
	inBase := map[string][]string{}
	for _, r := range base.Rows {
		inBase[c05KeyStr(r)] = r
	}
	want := map[string][]string{}
	for k, r := range inBase {
		keep := true
		for _, o := range others {
			found := false
			for _, q := range o.Rows {
				if c05KeyStr(q) == k {
					found = true
				}
			}
			if !found {
				keep = false
			}
		}
		if keep {
			want[k] = r
		}
	}
	for _, o := range others {
		for _, q := range o.Rows {
			if _, ok := inBase[c05KeyStr(q)]; !ok {
				want[c05KeyStr(q)] = q
			}
		}
	}
	for _, r := range res.Recs {
		if !r.Resolved {
			return Fail("merge-keyless-result-wrong", "keyless merge reports a conflict for row %q", r.Key)
		}
	}
	var wantRows [][]string
	for _, r := range want {
		wantRows = append(wantRows, r)
	}
	sort.Slice(wantRows, func(i, j int) bool { return c05LessCells(wantRows[i], wantRows[j]) })
	if fmt.Sprint(wantRows) != fmt.Sprint(res.Rows) || len(wantRows) != len(res.Rows) {
		return Fail("merge-keyless-result-wrong", "keyless merge result %q, expected %q", c05Trunc(res.Rows), c05Trunc(wantRows))
	}
	return OK()
}
