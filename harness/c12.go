package main

// C12: prune (pkg/prune.Prune, `wrgl prune`, `wrgl gc`) vs the model coq/model/Prune.v (+ PruneRepo.v)
// and vs an independent reachability oracle.
//
// Exchange format (identical to the comment at the top of coq/model/Prune.v):
//
//	case   = (mode state (op ...) [env])
//	env    = (tz ((txgroup ageMinutes) ...) [tzBuild])   tz: process time zone while the ops run (0 = leave time.Local alone,
//	         else UTC offset in minutes + 1000); age of the transaction row of group num/4 (default 0 = opened now);
//	         tzBuild: zone while the repository is built (0 = same as tz).  The model ignores tz: results must not depend on it.
//	mode   = 0 prune.Prune(db, rs, nil) in-process: objmock store wrapped in a recording store + in-memory sqlite refs
//	         1 `wrgl prune` in-process (wrgl.RootCmd) on a real repo dir (badger + sqlite) under ctx.Tmp
//	         2 `wrgl gc` likewise
//	         3 prune.Prune in-process on a recording store over the REAL badger store of a repo dir (+ its sqlite ref store)
//	state  = (commits tables tblidx prof blocks blkidx refs)
//	commits= ((id tableid (parent ...) [salt]) ...)     first binding of an id wins
//	tables = ((id (blk ...) (blkidx ...) flavor [salt]) ...)   flavor 0 crafted object | 1 built by the real ingest
//	         (flavor and the salts are ignored by the model: they only select the bytes, hence the hashes, of the
//	         objects; Gen uses the salts to make the hash order equal to the id order when a case contains a
//	         crash op, because the position of the crash in the delete sequence depends on the key order)
//	tblidx, prof, blocks, blkidx = (id ...)             sets of the ids that are STORED (tblidx/prof: table ids)
//	refs   = ((kind num commit) ...)   kind 0 heads/ | 1 tags/ | 2 remotes/ | 3 txs/<uuid(num/4)>/ ; num%4 selects a flat or a
//	         multi-component name (heads/a/b<num>, tags/rel/1/t<num>, remotes/origin/feature/x<num>, remotes/my/remote/x<num>,
//	         txs/<uuid>/feature/x<num>, txs/<uuid>/a/b/c<num>, ...: see c12RefName); transaction groups with (num/4)%3 != 2
//	         exist as rows of the ref store, the others are txs/ refs without a transaction row
//	op     = (0) prune | (1 kind num) delete ref | (2 kind num commit) set ref
//	       | (3 k) prune on a store whose (k+1)-th Delete fails and deletes nothing (modes 0 and 3)
//	       | (4 ttl) gc exactly as cmd/wrgl/gc_cmd.go: transaction.GarbageCollect(db, rs, ttl minutes) then prune.Prune
//	         (modes 0, 3; mode 2: `wrgl gc` with transactionTTL = ttl in the repo config); obs = prune obs + the ref names
//	         (kind<<32 | num) left in the ref store, ascending
//	obs    = (r ...) one per op; r = () for ops 1,2 (and unknown tags); for ops 0,3: (status trace keysets)
//	         status  0 nil error | 1 error          (2 panic / 3 fuel exist only on the model side)
//	         trace   mode 0: ((kind ...) (T ids) (TI ids) (P ids) (B ids) (BI ids) (C ids)); modes 1,2: ()
//	                 kinds of the successful Delete calls in call order (0 tbl/ 1 tblidx/ 2 tblsum/ 3 blk/ 4 blkidx/ 5 com/),
//	                 then per kind the abstract ids deleted, ascending
//	         keysets (commits tables tblidx prof blocks blkidx): abstract ids of the keys present after the op, ascending
//	A case that cannot be built (cycle, op 3 in mode 1/2, tables whose two lists differ in length, ...) gives obs (98).
//
// How ids become objects (all deterministic):
//
//	block b     rows [%010d(b*1000+i), v<b*1000+i>], i < n, n = 255 if (b/100000) is odd else 2; pk column 0.
//	            (Blocks carry no salt, so Gen only uses the ids of c12Pool(): slot L = b/100000, picked so that the
//	            block hash and the block index hash both fall in the L-th of c12PoolSize buckets.)
//	blkidx x    the real index of block x
//	table t     flavor 0: objects.Table{Columns {"k","t<id>[_salt]"}, PK {0}, RowsCount (len-1)*255+rows(last block)}
//	            flavor 1: CSV of the rows of its blocks run through ingest.IngestTable; must give the same sum
//	            a table id without entry: sum crafted from the id (id%4: 0 low, 1 high, 2 median of real tables + id, 3 md5)
//	commit c    objects.Commit{Message "c<id>[.salt]", fixed author, Time base+(c*7919)%1000 s}; a commit id without
//	            entry: md5("commit<id>")

import (
	"bytes"
	"context"
	"crypto/md5"
	"database/sql"
	"encoding/binary"
	"encoding/csv"
	"fmt"
	"io"
	"os"
	"path/filepath"
	"sort"
	"strings"
	"time"

	wrgl "github.com/wrgl/wrgl/cmd/wrgl"
	wrglutils "github.com/wrgl/wrgl/cmd/wrgl/utils"
	"github.com/wrgl/wrgl/pkg/conf"
	conffs "github.com/wrgl/wrgl/pkg/conf/fs"
	"github.com/wrgl/wrgl/pkg/ingest"
	"github.com/wrgl/wrgl/pkg/local"
	"github.com/wrgl/wrgl/pkg/objects"
	objmock "github.com/wrgl/wrgl/pkg/objects/mock"
	"github.com/wrgl/wrgl/pkg/prune"
	"github.com/wrgl/wrgl/pkg/ref"
	refsql "github.com/wrgl/wrgl/pkg/ref/sql"
	"github.com/wrgl/wrgl/pkg/sorter"
	"github.com/wrgl/wrgl/pkg/transaction"

	"verifharness/xt"
)

func init() { props["C12"] = &Prop{Gen: c12Gen, Run: c12Run} }

// ---------------------------------------------------------------------------
// abstract state + total tree coders (mirror lib/Tree.v d_nth / d_N / d_list)

type c12Commit struct {
	id, table uint64
	parents   []uint64
	salt      uint64
}

type c12Table struct {
	id           uint64
	blks, idxs   []uint64
	flavor, salt uint64
}

type c12Ref struct{ kind, num, commit uint64 }

type c12State struct {
	commits                      []c12Commit
	tables                       []c12Table
	tblidx, prof, blocks, blkidx []uint64
	refs                         []c12Ref
}

func c12Nth(t *xt.T, i int) *xt.T {
	if t == nil || t.IsLeaf || i >= len(t.Kids) {
		return xt.N()
	}
	return t.Kids[i]
}

func c12Num(t *xt.T) uint64 {
	if t != nil && t.IsLeaf && t.Big == nil {
		return t.N
	}
	return 0
}

func c12Kids(t *xt.T) []*xt.T {
	if t == nil || t.IsLeaf {
		return nil
	}
	return t.Kids
}

func c12Nums(t *xt.T) []uint64 {
	ks := c12Kids(t)
	r := make([]uint64, len(ks))
	for i, k := range ks {
		r[i] = c12Num(k)
	}
	return r
}

func c12HasBig(t *xt.T) bool {
	if t == nil {
		return false
	}
	if t.IsLeaf {
		return t.Big != nil
	}
	for _, k := range t.Kids {
		if c12HasBig(k) {
			return true
		}
	}
	return false
}

func c12DecodeState(t *xt.T) *c12State {
	st := &c12State{}
	for _, k := range c12Kids(c12Nth(t, 0)) {
		st.commits = append(st.commits, c12Commit{id: c12Num(c12Nth(k, 0)), table: c12Num(c12Nth(k, 1)),
			parents: c12Nums(c12Nth(k, 2)), salt: c12Num(c12Nth(k, 3))})
	}
	for _, k := range c12Kids(c12Nth(t, 1)) {
		st.tables = append(st.tables, c12Table{id: c12Num(c12Nth(k, 0)), blks: c12Nums(c12Nth(k, 1)),
			idxs: c12Nums(c12Nth(k, 2)), flavor: c12Num(c12Nth(k, 3)), salt: c12Num(c12Nth(k, 4))})
	}
	st.tblidx = c12Nums(c12Nth(t, 2))
	st.prof = c12Nums(c12Nth(t, 3))
	st.blocks = c12Nums(c12Nth(t, 4))
	st.blkidx = c12Nums(c12Nth(t, 5))
	for _, k := range c12Kids(c12Nth(t, 6)) {
		st.refs = append(st.refs, c12Ref{kind: c12Num(c12Nth(k, 0)), num: c12Num(c12Nth(k, 1)), commit: c12Num(c12Nth(k, 2))})
	}
	return st
}

func c12U64s(l []uint64) *xt.T {
	t := xt.N()
	for _, x := range l {
		t.Add(xt.L(x))
	}
	return t
}

func c12EncodeState(st *c12State) *xt.T {
	cs := xt.N()
	for _, c := range st.commits {
		e := xt.N(xt.L(c.id), xt.L(c.table), c12U64s(c.parents))
		if c.salt != 0 {
			e.Add(xt.L(c.salt))
		}
		cs.Add(e)
	}
	ts := xt.N()
	for _, t := range st.tables {
		e := xt.N(xt.L(t.id), c12U64s(t.blks), c12U64s(t.idxs), xt.L(t.flavor))
		if t.salt != 0 {
			e.Add(xt.L(t.salt))
		}
		ts.Add(e)
	}
	rs := xt.N()
	for _, r := range st.refs {
		rs.Add(xt.N(xt.L(r.kind), xt.L(r.num), xt.L(r.commit)))
	}
	return xt.N(cs, ts, c12U64s(st.tblidx), c12U64s(st.prof), c12U64s(st.blocks), c12U64s(st.blkidx), rs)
}

// ---------------------------------------------------------------------------
// objects from ids

// c12Null discards everything: objects.Save* on it is a way to get the checksum the repository
// itself computes, without importing the hash package.
type c12Null struct{}

func (c12Null) Get([]byte) ([]byte, error)               { return nil, objects.ErrKeyNotFound }
func (c12Null) Set([]byte, []byte) error                 { return nil }
func (c12Null) Delete([]byte) error                      { return nil }
func (c12Null) Exist([]byte) bool                        { return false }
func (c12Null) Filter([]byte) (map[string][]byte, error) { return nil, nil }
func (c12Null) FilterKey([]byte) ([][]byte, error)       { return nil, nil }
func (c12Null) Clear([]byte) error                       { return nil }
func (c12Null) Close() error                             { return nil }

func c12Sum(content []byte) string {
	sum, err := objects.SaveTable(c12Null{}, content)
	if err != nil {
		panic(err)
	}
	return string(sum)
}

// c12Hash is a hash.Hash computing the repository's object checksum (for objects.IndexBlock).
type c12Hash struct{ buf []byte }

func (h *c12Hash) Write(p []byte) (int, error) { h.buf = append(h.buf, p...); return len(p), nil }
func (h *c12Hash) Sum(b []byte) []byte         { return append(b, c12Sum(h.buf)...) }
func (h *c12Hash) Reset()                      { h.buf = h.buf[:0] }
func (h *c12Hash) Size() int                   { return 16 }
func (h *c12Hash) BlockSize() int              { return 1 }

type c12Blk struct {
	id                  uint64
	n                   int
	rows                [][]string
	content, compressed []byte
	sum                 string
	idxContent          []byte
	idxSum              string
}

func c12BlkRows(b uint64) int {
	if (b/100000)%2 == 1 {
		return 255
	}
	return 2
}

func c12BlkContent(b uint64) ([][]string, []byte) {
	n := c12BlkRows(b)
	rows := make([][]string, n)
	for i := 0; i < n; i++ {
		v := b*1000 + uint64(i)
		rows[i] = []string{fmt.Sprintf("%010d", v), fmt.Sprintf("v%d", v)}
	}
	buf := bytes.NewBuffer(nil)
	if _, err := objects.WriteBlockTo(objects.NewStrListEncoder(true), buf, rows); err != nil {
		panic(err)
	}
	return rows, buf.Bytes()
}

func c12IdxContent(rows [][]string) []byte {
	idx, err := objects.IndexBlock(objects.NewStrListEncoder(true), &c12Hash{}, rows, []uint32{0})
	if err != nil {
		panic(err)
	}
	buf := bytes.NewBuffer(nil)
	if _, err := idx.WriteTo(buf); err != nil {
		panic(err)
	}
	return buf.Bytes()
}

var c12BlkCache = map[uint64]*c12Blk{}

func c12Block(b uint64) *c12Blk {
	if e, ok := c12BlkCache[b]; ok {
		return e
	}
	e := &c12Blk{id: b, n: c12BlkRows(b)}
	e.rows, e.content = c12BlkContent(b)
	sum, comp, err := objects.SaveBlock(c12Null{}, nil, e.content)
	if err != nil {
		panic(err)
	}
	e.sum, e.compressed = string(sum), comp
	e.idxContent = c12IdxContent(e.rows)
	e.idxSum = c12Sum(e.idxContent)
	if len(c12BlkCache) > 4096 {
		c12BlkCache = map[uint64]*c12Blk{}
	}
	c12BlkCache[b] = e
	return e
}

func c12ColName(t *c12Table) string {
	if t.salt == 0 {
		return fmt.Sprintf("t%d", t.id)
	}
	return fmt.Sprintf("t%d_%d", t.id, t.salt)
}

func c12TableRows(t *c12Table) uint32 {
	if len(t.blks) == 0 {
		return 0
	}
	return uint32((len(t.blks)-1)*255 + c12BlkRows(t.blks[len(t.blks)-1]))
}

// c12TableContent: the bytes of the table object (nil if the two lists differ in length: such an object
// cannot be read back, Table.ReadFrom reads ceil(rows/255) entries of each list).
func c12TableContent(t *c12Table) []byte {
	if len(t.blks) != len(t.idxs) {
		return nil
	}
	tbl := &objects.Table{Columns: []string{"k", c12ColName(t)}, PK: []uint32{0}, RowsCount: c12TableRows(t)}
	for _, b := range t.blks {
		tbl.Blocks = append(tbl.Blocks, []byte(c12Block(b).sum))
	}
	for _, b := range t.idxs {
		tbl.BlockIndices = append(tbl.BlockIndices, []byte(c12Block(b).idxSum))
	}
	buf := bytes.NewBuffer(nil)
	if _, err := tbl.WriteTo(buf); err != nil {
		panic(err)
	}
	return buf.Bytes()
}

func c12IngestOK(t *c12Table) error {
	if len(t.blks) == 0 {
		return fmt.Errorf("ingest table %d has no block", t.id)
	}
	if len(t.blks) != len(t.idxs) {
		return fmt.Errorf("ingest table %d: lists differ", t.id)
	}
	for i, b := range t.blks {
		if t.idxs[i] != b {
			return fmt.Errorf("ingest table %d: blkidx list differs from blk list", t.id)
		}
		if i > 0 && t.blks[i-1] >= b {
			return fmt.Errorf("ingest table %d: block ids not strictly ascending", t.id)
		}
		if i < len(t.blks)-1 && c12BlkRows(b) != 255 {
			return fmt.Errorf("ingest table %d: non-final block %d is not full", t.id, b)
		}
	}
	return nil
}

var c12TimeBase = time.Unix(1600000000, 0).UTC()

func c12CommitContent(c *c12Commit, table string, parents []string) []byte {
	msg := fmt.Sprintf("c%d", c.id)
	if c.salt != 0 {
		msg = fmt.Sprintf("c%d.%d", c.id, c.salt)
	}
	com := &objects.Commit{
		Table:       []byte(table),
		AuthorName:  "Verif Harness",
		AuthorEmail: "verif@example.com",
		Time:        c12TimeBase.Add(time.Duration((c.id*7919)%1000) * time.Second),
		Message:     msg,
	}
	for _, p := range parents {
		com.Parents = append(com.Parents, []byte(p))
	}
	buf := bytes.NewBuffer(nil)
	if _, err := com.WriteTo(buf); err != nil {
		panic(err)
	}
	return buf.Bytes()
}

func c12MissingCommitSum(id uint64) string {
	s := md5.Sum([]byte(fmt.Sprintf("commit%d", id)))
	return string(s[:])
}

// c12MissingTableSum crafts the sum of a table id that has no table object; sorted = the real table sums.
func c12MissingTableSum(id uint64, sorted []string) string {
	b := make([]byte, 16)
	switch id % 4 {
	case 0:
		binary.BigEndian.PutUint64(b[8:], id)
	case 1:
		for i := range b {
			b[i] = 0xff
		}
		binary.BigEndian.PutUint64(b[8:], id)
		b[8] = 0xff
	case 2:
		if len(sorted) == 0 {
			s := md5.Sum([]byte(fmt.Sprintf("table%d", id)))
			return string(s[:])
		}
		copy(b, sorted[len(sorted)/2])
		// big-endian add of id
		carry := id
		for i := 15; i >= 0 && carry > 0; i-- {
			v := uint64(b[i]) + carry&0xff
			b[i] = byte(v)
			carry = carry>>8 + v>>8
		}
	default:
		s := md5.Sum([]byte(fmt.Sprintf("table%d", id)))
		return string(s[:])
	}
	return string(b)
}

// c12Plan: every id of the state resolved to bytes and sums.
type c12Plan struct {
	st         *c12State
	coms       map[uint64]*c12Commit
	tbls       map[uint64]*c12Table
	topo       []uint64
	tblContent map[uint64][]byte
	comContent map[uint64][]byte
	tblSum     map[uint64]string
	comSum     map[uint64]string
	tblID      map[string]uint64
	comID      map[string]uint64
	blkID      map[string]uint64
	idxID      map[string]uint64
	realTables []string // sorted sums of the table objects
}

func c12Reg(m map[string]uint64, what string, sum string, id uint64) error {
	if old, ok := m[sum]; ok && old != id {
		return fmt.Errorf("%s ids %d and %d collide on sum %x", what, old, id, sum)
	}
	m[sum] = id
	return nil
}

func (p *c12Plan) tableSum(id uint64) (string, error) {
	if s, ok := p.tblSum[id]; ok {
		return s, nil
	}
	s := c12MissingTableSum(id, p.realTables)
	if err := c12Reg(p.tblID, "table", s, id); err != nil {
		return "", err
	}
	p.tblSum[id] = s
	return s, nil
}

func (p *c12Plan) commitSum(id uint64) (string, error) {
	if s, ok := p.comSum[id]; ok {
		return s, nil
	}
	s := c12MissingCommitSum(id)
	if err := c12Reg(p.comID, "commit", s, id); err != nil {
		return "", err
	}
	p.comSum[id] = s
	return s, nil
}

func (p *c12Plan) block(b uint64) (*c12Blk, error) {
	e := c12Block(b)
	if err := c12Reg(p.blkID, "block", e.sum, b); err != nil {
		return nil, err
	}
	if err := c12Reg(p.idxID, "block index", e.idxSum, b); err != nil {
		return nil, err
	}
	return e, nil
}

// c12Topo orders the first-binding commits parents first; error on a cycle.
func c12Topo(st *c12State) (map[uint64]*c12Commit, []uint64, error) {
	coms := map[uint64]*c12Commit{}
	var ids []uint64
	for i := range st.commits {
		c := &st.commits[i]
		if _, ok := coms[c.id]; !ok {
			coms[c.id] = c
			ids = append(ids, c.id)
		}
	}
	state := map[uint64]int{}
	var order []uint64
	for _, root := range ids {
		if state[root] != 0 {
			continue
		}
		type frame struct {
			id uint64
			i  int
		}
		stack := []frame{{root, 0}}
		state[root] = 1
		for len(stack) > 0 {
			f := &stack[len(stack)-1]
			ps := coms[f.id].parents
			if f.i < len(ps) {
				p := ps[f.i]
				f.i++
				if _, ok := coms[p]; !ok {
					continue
				}
				switch state[p] {
				case 1:
					return nil, nil, fmt.Errorf("commit parents form a cycle through %d", p)
				case 0:
					state[p] = 1
					stack = append(stack, frame{p, 0})
				}
				continue
			}
			state[f.id] = 2
			order = append(order, f.id)
			stack = stack[:len(stack)-1]
		}
	}
	return coms, order, nil
}

func c12MakePlan(st *c12State) (*c12Plan, error) {
	p := &c12Plan{st: st, tbls: map[uint64]*c12Table{},
		tblContent: map[uint64][]byte{}, comContent: map[uint64][]byte{},
		tblSum: map[uint64]string{}, comSum: map[uint64]string{},
		tblID: map[string]uint64{}, comID: map[string]uint64{}, blkID: map[string]uint64{}, idxID: map[string]uint64{}}
	var err error
	if p.coms, p.topo, err = c12Topo(st); err != nil {
		return nil, err
	}
	for _, l := range [][]uint64{st.blocks, st.blkidx} {
		for _, b := range l {
			if _, err := p.block(b); err != nil {
				return nil, err
			}
		}
	}
	for i := range st.tables {
		t := &st.tables[i]
		if _, ok := p.tbls[t.id]; ok {
			continue
		}
		p.tbls[t.id] = t
		for _, l := range [][]uint64{t.blks, t.idxs} {
			for _, b := range l {
				if _, err := p.block(b); err != nil {
					return nil, err
				}
			}
		}
		if t.flavor > 1 {
			return nil, fmt.Errorf("table %d: unknown flavor %d", t.id, t.flavor)
		}
		if t.flavor == 1 {
			if err := c12IngestOK(t); err != nil {
				return nil, err
			}
		}
		content := c12TableContent(t)
		if content == nil {
			return nil, fmt.Errorf("table %d lists %d blocks but %d block indices: no readable table object has that shape",
				t.id, len(t.blks), len(t.idxs))
		}
		s := c12Sum(content)
		if err := c12Reg(p.tblID, "table", s, t.id); err != nil {
			return nil, err
		}
		p.tblSum[t.id] = s
		p.tblContent[t.id] = content
		p.realTables = append(p.realTables, s)
	}
	sort.Strings(p.realTables)
	for _, l := range [][]uint64{st.tblidx, st.prof} {
		for _, t := range l {
			if _, err := p.tableSum(t); err != nil {
				return nil, err
			}
		}
	}
	for _, id := range p.topo {
		c := p.coms[id]
		ts, err := p.tableSum(c.table)
		if err != nil {
			return nil, err
		}
		var ps []string
		for _, par := range c.parents {
			s, err := p.commitSum(par)
			if err != nil {
				return nil, err
			}
			ps = append(ps, s)
		}
		content := c12CommitContent(c, ts, ps)
		s := c12Sum(content)
		if err := c12Reg(p.comID, "commit", s, id); err != nil {
			return nil, err
		}
		p.comSum[id] = s
		p.comContent[id] = content
	}
	for _, r := range st.refs {
		if _, err := p.commitSum(r.commit); err != nil {
			return nil, err
		}
	}
	return p, nil
}

// ---------------------------------------------------------------------------
// refs

func c12TxID(num uint64) (tx ref.Transaction) {
	s := md5.Sum([]byte(fmt.Sprintf("tx%d", num/4)))
	copy(tx.ID[:], s[:])
	tx.ID[6] = (tx.ID[6] & 0x0f) | 0x40
	tx.ID[8] = (tx.ID[8] & 0x3f) | 0x80
	tx.Status = ref.TSInProgress
	tx.Begin = time.Now()
	return
}

// c12TxHasRow: two of every three transaction groups exist as rows of the ref store (rs.NewTransaction);
// the refs of the third are plain txs/<uuid>/... refs without a transaction row - still refs.
func c12TxHasRow(num uint64) bool { return (num/4)%3 != 2 }

// c12RefName: names of every kind come flat and with multi-component branch / tag / remote names,
// selected by num%4 (the model treats names as opaque, prune must honour every one of them).
func c12RefName(kind, num uint64) (string, error) {
	if num >= 1<<32 {
		return "", fmt.Errorf("ref number %d too large", num)
	}
	v := num % 4
	switch kind {
	case 0:
		return [4]string{"heads/b%d", "heads/a/b%d", "heads/feature/x/b%d", "heads/b%d/c"}[v], nil
	case 1:
		return [4]string{"tags/t%d", "tags/v/%d", "tags/rel/1/t%d", "tags/t%d/x"}[v], nil
	case 2:
		return [4]string{"remotes/r%[2]d/b%[1]d", "remotes/origin/feature/x%[1]d", "remotes/my/remote/x%[1]d", "remotes/r%[2]d/a/b/c%[1]d"}[v], nil
	case 3:
		tx := c12TxID(num)
		return "txs/" + tx.ID.String() + [4]string{"/b%d", "/feature/x%d", "/a/b/c%d", "/x%d/y"}[v], nil
	}
	return "", fmt.Errorf("unknown ref kind %d", kind)
}

func c12RefNameOf(kind, num uint64) (string, error) {
	f, err := c12RefName(kind, num)
	if err != nil {
		return "", err
	}
	if kind == 2 {
		return fmt.Sprintf(f, num, num%3), nil
	}
	return fmt.Sprintf(f, num), nil
}

// c12Refs writes refs into the ref store and keeps the expected ref map (name -> sum) itself: the
// oracle's roots are this map (every ref of the case, whatever its name looks like), not a listing
// of the store.
type c12Refs struct {
	rs   ref.Store
	cur  map[string]string    // expected refs: name -> sum
	kn   map[string][2]uint64 // name -> (kind, num)
	ages map[uint64]uint64    // transaction group -> age of its row in minutes
}

// ensureTx: the transaction row of the group of num exists; its begin is "age minutes ago" on the
// process clock and in the process time zone, as a client that opened it then would have stored it
func (r *c12Refs) ensureTx(num uint64) error {
	tx := c12TxID(num)
	if _, err := r.rs.GetTransaction(tx.ID); err == nil {
		return nil
	}
	tx.Begin = time.Now().Add(-time.Duration(r.ages[num/4]) * time.Minute)
	_, err := r.rs.NewTransaction(&tx)
	return err
}

func (r *c12Refs) set(kind, num uint64, sum string) error {
	name, err := c12RefNameOf(kind, num)
	if err != nil {
		return err
	}
	if kind == 3 && c12TxHasRow(num) {
		if err := r.ensureTx(num); err != nil {
			return err
		}
	}
	if r.cur == nil {
		r.cur, r.kn = map[string]string{}, map[string][2]uint64{}
	}
	r.cur[name] = sum
	r.kn[name] = [2]uint64{kind, num}
	return r.rs.Set(name, []byte(sum))
}

func (r *c12Refs) del(kind, num uint64) error {
	name, err := c12RefNameOf(kind, num)
	if err != nil {
		return err
	}
	delete(r.cur, name)
	return r.rs.Delete(name)
}

// c12Expired: gc with this TTL has to discard the transaction of this ref (kind 3, row present, old enough)
func c12Expired(ages map[uint64]uint64, ttl uint64, kind, num uint64) bool {
	return kind == 3 && c12TxHasRow(num) && ages[num/4] >= ttl
}

// expire removes the refs of the transactions a gc with this TTL must discard from the expected map
func (r *c12Refs) expire(ttl uint64) (gone map[string]bool) {
	gone = map[string]bool{}
	for name := range r.cur {
		kn := r.kn[name]
		if c12Expired(r.ages, ttl, kn[0], kn[1]) {
			gone[name] = true
		}
	}
	for name := range gone {
		delete(r.cur, name)
	}
	return gone
}

// roots: the targets of the expected refs, in name order
func (r *c12Refs) roots() []string {
	names := make([]string, 0, len(r.cur))
	for n := range r.cur {
		names = append(names, n)
	}
	sort.Strings(names)
	l := make([]string, 0, len(names))
	for _, n := range names {
		l = append(l, r.cur[n])
	}
	return l
}

// storeDiff compares the ref store with the expected ref map: refs missing from the store (or pointing
// elsewhere), refs the store has but the map has not
func (r *c12Refs) storeDiff() (missing, extra []string, err error) {
	m, err := ref.ListAllRefs(r.rs)
	if err != nil {
		return nil, nil, err
	}
	for n, sum := range r.cur {
		if got, ok := m[n]; !ok || string(got) != sum {
			missing = append(missing, n)
		}
	}
	for n := range m {
		if _, ok := r.cur[n]; !ok {
			extra = append(extra, n)
		}
	}
	sort.Strings(missing)
	sort.Strings(extra)
	return
}

// ---------------------------------------------------------------------------
// building the repository

var c12IngestFn func(db objects.Store, csvBytes []byte) ([]byte, error)

func c12Ingest(db objects.Store, csvBytes []byte) ([]byte, error) {
	if c12IngestFn == nil {
		// a logr.Logger obtained through the CLI's own setup (verbosity 0: silent)
		cmd := wrgl.RootCmd()
		cmd.SetOut(io.Discard)
		cmd.SetErr(io.Discard)
		cmd.SetContext(context.Background())
		if err := cmd.ParseFlags(nil); err != nil {
			return nil, err
		}
		if _, err := wrglutils.SetupLogger(cmd); err != nil {
			return nil, err
		}
		lg := wrglutils.GetLogger(cmd)
		if lg == nil {
			return nil, fmt.Errorf("no logger")
		}
		c12IngestFn = func(db objects.Store, csvBytes []byte) ([]byte, error) {
			s, err := sorter.NewSorter(sorter.WithRunSize(1 << 26))
			if err != nil {
				return nil, err
			}
			return ingest.IngestTable(db, s, io.NopCloser(bytes.NewReader(csvBytes)), []string{"k"}, *lg)
		}
	}
	return c12IngestFn(db, csvBytes)
}

var c12Prefixes = []string{"tbl/", "tblidx/", "tblsum/", "blk/", "blkidx/", "com/"}

func c12TblIdxContent(t *c12Table) []byte {
	var rows [][]string
	if t == nil {
		rows = [][]string{{"x"}}
	} else {
		for _, b := range t.blks {
			rows = append(rows, []string{c12Block(b).rows[0][0]})
		}
	}
	buf := bytes.NewBuffer(nil)
	if _, err := objects.WriteBlockTo(objects.NewStrListEncoder(true), buf, rows); err != nil {
		panic(err)
	}
	return buf.Bytes()
}

func c12ProfContent(t *c12Table) []byte {
	prof := &objects.TableProfile{Columns: []*objects.ColumnProfile{{Name: "k"}, {Name: "v"}}}
	if t != nil {
		prof.RowsCount = c12TableRows(t)
		prof.Columns[1].Name = c12ColName(t)
	}
	buf := bytes.NewBuffer(nil)
	if _, err := prof.WriteTo(buf); err != nil {
		panic(err)
	}
	return buf.Bytes()
}

func c12Set(l []uint64) map[uint64]bool {
	m := map[uint64]bool{}
	for _, x := range l {
		m[x] = true
	}
	return m
}

func (p *c12Plan) build(raw objects.Store, refs *c12Refs) error {
	st := p.st
	wr := &c12Rec{inner: raw, failAt: -1}
	var db objects.Store = wr
	want := map[string]bool{} // full keys expected in the store
	// real ingest first (it stores blocks, indices, table index, profile, table)
	for _, t := range p.tbls {
		if t.flavor != 1 {
			continue
		}
		buf := bytes.NewBuffer(nil)
		w := csv.NewWriter(buf)
		w.Write([]string{"k", c12ColName(t)})
		for _, b := range t.blks {
			w.WriteAll(c12Block(b).rows)
		}
		w.Flush()
		sum, err := c12Ingest(db, buf.Bytes())
		if err != nil {
			return fmt.Errorf("ingest of table %d failed: %v", t.id, err)
		}
		if string(sum) != p.tblSum[t.id] {
			got, gerr := objects.GetTable(db, sum)
			return fmt.Errorf("HARNESS BUG: ingest of table %d gave sum %x, crafted %x (ingested %+v %v)", t.id, sum, p.tblSum[t.id], got, gerr)
		}
	}
	for b := range c12Set(st.blocks) {
		e := c12Block(b)
		sum, err := objects.SaveCompressedBlock(db, e.content, e.compressed)
		if err != nil {
			return err
		}
		if string(sum) != e.sum {
			return fmt.Errorf("HARNESS BUG: block %d sum changed", b)
		}
		want["blk/"+e.sum] = true
	}
	for b := range c12Set(st.blkidx) {
		e := c12Block(b)
		sum, _, err := objects.SaveBlockIndex(db, nil, e.idxContent)
		if err != nil {
			return err
		}
		if string(sum) != e.idxSum {
			return fmt.Errorf("HARNESS BUG: block index %d sum changed", b)
		}
		want["blkidx/"+e.idxSum] = true
	}
	for id, t := range p.tbls {
		if t.flavor == 0 {
			sum, err := objects.SaveTable(db, p.tblContent[id])
			if err != nil {
				return err
			}
			if string(sum) != p.tblSum[id] {
				return fmt.Errorf("HARNESS BUG: table %d sum changed", id)
			}
		}
		want["tbl/"+p.tblSum[id]] = true
	}
	for id := range c12Set(st.tblidx) {
		s := p.tblSum[id]
		want["tblidx/"+s] = true
		if t := p.tbls[id]; t != nil && t.flavor == 1 && db.Exist([]byte("tblidx/"+s)) {
			continue // keep what the ingest wrote
		}
		if err := objects.SaveTableIndex(db, []byte(s), c12TblIdxContent(p.tbls[id])); err != nil {
			return err
		}
	}
	for id := range c12Set(st.prof) {
		s := p.tblSum[id]
		want["tblsum/"+s] = true
		if t := p.tbls[id]; t != nil && t.flavor == 1 && db.Exist([]byte("tblsum/"+s)) {
			continue
		}
		if err := objects.SaveTableProfile(db, []byte(s), c12ProfContent(p.tbls[id])); err != nil {
			return err
		}
	}
	for _, id := range p.topo {
		sum, err := objects.SaveCommit(db, p.comContent[id])
		if err != nil {
			return err
		}
		if string(sum) != p.comSum[id] {
			return fmt.Errorf("HARNESS BUG: commit %d sum changed", id)
		}
		want["com/"+p.comSum[id]] = true
	}
	// drop what the abstract state says is not stored: every key written above went through [wr], so this
	// does not rely on the key listing of the store under test
	for _, le := range wr.log {
		if le.op == 'S' && !want[le.key] {
			if err := raw.Delete([]byte(le.key)); err != nil {
				return err
			}
		}
	}
	for k := range want {
		if !raw.Exist([]byte(k)) {
			return fmt.Errorf("HARNESS BUG: key %q was written but is not in the store", k)
		}
	}
	// refs
	seen := map[string]bool{}
	for _, r := range st.refs {
		name, err := c12RefNameOf(r.kind, r.num)
		if err != nil {
			return err
		}
		if seen[name] {
			return fmt.Errorf("ref %s bound twice in the initial state", name)
		}
		seen[name] = true
		if err := refs.set(r.kind, r.num, p.comSum[r.commit]); err != nil {
			return err
		}
	}
	return nil
}

// ---------------------------------------------------------------------------
// recording store

type c12LogEntry struct {
	op  byte // 'S' Set, 'D' Delete, 'C' Clear
	key string
}

type c12Rec struct {
	inner   objects.Store
	log     []c12LogEntry // successful mutating calls
	deletes int           // Delete calls seen since arm
	failAt  int           // index of the Delete call that fails; -1 = never
}

func (s *c12Rec) arm(failAt int) { s.log, s.deletes, s.failAt = nil, 0, failAt }

func (s *c12Rec) Get(k []byte) ([]byte, error) { return s.inner.Get(k) }
func (s *c12Rec) Set(k, v []byte) error {
	if err := s.inner.Set(k, v); err != nil {
		return err
	}
	s.log = append(s.log, c12LogEntry{'S', string(k)})
	return nil
}
func (s *c12Rec) Delete(k []byte) error {
	i := s.deletes
	s.deletes++
	if i == s.failAt {
		return fmt.Errorf("c12: injected failure of Delete call #%d (%q)", i+1, k)
	}
	if err := s.inner.Delete(k); err != nil {
		return err
	}
	s.log = append(s.log, c12LogEntry{'D', string(k)})
	return nil
}
func (s *c12Rec) Exist(k []byte) bool                        { return s.inner.Exist(k) }
func (s *c12Rec) Filter(p []byte) (map[string][]byte, error) { return s.inner.Filter(p) }
func (s *c12Rec) FilterKey(p []byte) ([][]byte, error)       { return s.inner.FilterKey(p) }
func (s *c12Rec) Clear(p []byte) error {
	if err := s.inner.Clear(p); err != nil {
		return err
	}
	s.log = append(s.log, c12LogEntry{'C', string(p)})
	return nil
}
func (s *c12Rec) Close() error { return s.inner.Close() }

// ---------------------------------------------------------------------------
// the independent oracle: a graph over opaque string keys (raw sums when it judges the implementation,
// zero-padded decimal ids when Gen simulates a case)

type c12GC struct {
	table   string
	parents []string
}

type c12GT struct{ blocks, idxs []string }

type c12G struct {
	commits map[string]*c12GC
	tables  map[string]*c12GT
	sets    [6]map[string]bool // by kind: 0 tables 1 tblidx 2 prof 3 blocks 4 blkidx 5 commits
	refs    []string
}

type c12Del struct {
	kind int
	key  string
}

type c12Exp struct {
	err       bool               // a reachable stored commit has a parent that is not stored
	early     bool               // no stored commit is unreachable: nothing may be deleted
	orphans   bool               // there is an unreferenced stored table / block / block index anyway
	reachable map[string]bool    // stored reachable commits
	keep      [6]map[string]bool // expected survivors by kind
	dels      []c12Del           // the delete calls of a key-ordered sweep (tables, blocks, indices, commits)
}

func c12SortedKeys(m map[string]bool) []string {
	l := make([]string, 0, len(m))
	for k := range m {
		l = append(l, k)
	}
	sort.Strings(l)
	return l
}

func c12Expect(g *c12G) *c12Exp {
	e := &c12Exp{reachable: map[string]bool{}}
	seen := map[string]bool{}
	stack := append([]string{}, g.refs...)
	for len(stack) > 0 {
		c := stack[len(stack)-1]
		stack = stack[:len(stack)-1]
		if seen[c] {
			continue
		}
		seen[c] = true
		cm := g.commits[c]
		if cm == nil {
			continue
		}
		e.reachable[c] = true
		for _, p := range cm.parents {
			if g.commits[p] == nil {
				e.err = true
			}
			stack = append(stack, p)
		}
	}
	for k := 0; k < 6; k++ {
		e.keep[k] = map[string]bool{}
		for x := range g.sets[k] {
			e.keep[k][x] = true
		}
	}
	usedT, usedB, usedI := map[string]bool{}, map[string]bool{}, map[string]bool{}
	for _, cm := range g.commits {
		usedT[cm.table] = true
	}
	for _, t := range g.tables {
		for _, b := range t.blocks {
			usedB[b] = true
		}
		for _, b := range t.idxs {
			usedI[b] = true
		}
	}
	for t := range g.sets[0] {
		if !usedT[t] {
			e.orphans = true
		}
	}
	for b := range g.sets[3] {
		if !usedB[b] {
			e.orphans = true
		}
	}
	for b := range g.sets[4] {
		if !usedI[b] {
			e.orphans = true
		}
	}
	if e.err {
		return e
	}
	if len(e.reachable) == len(g.commits) {
		e.early = true
		return e
	}
	liveT := map[string]bool{}
	for c := range e.reachable {
		liveT[g.commits[c].table] = true
	}
	liveB, liveI := map[string]bool{}, map[string]bool{}
	for _, t := range c12SortedKeys(g.sets[0]) {
		if liveT[t] {
			if tb := g.tables[t]; tb != nil {
				for _, b := range tb.blocks {
					liveB[b] = true
				}
				for _, b := range tb.idxs {
					liveI[b] = true
				}
			}
			continue
		}
		delete(e.keep[0], t)
		delete(e.keep[1], t)
		delete(e.keep[2], t)
		e.dels = append(e.dels, c12Del{0, t}, c12Del{1, t}, c12Del{2, t})
	}
	for _, b := range c12SortedKeys(g.sets[3]) {
		if !liveB[b] {
			delete(e.keep[3], b)
			e.dels = append(e.dels, c12Del{3, b})
		}
	}
	for _, b := range c12SortedKeys(g.sets[4]) {
		if !liveI[b] {
			delete(e.keep[4], b)
			e.dels = append(e.dels, c12Del{4, b})
		}
	}
	// commits: children first (Kahn, FIFO, seeded in key order), so that a cut never leaves a stored
	// commit without its parent; commits on a cycle are never output
	var rem []string
	isRem := map[string]bool{}
	for _, c := range c12SortedKeys(g.sets[5]) {
		if !e.reachable[c] {
			rem = append(rem, c)
			isRem[c] = true
		}
	}
	pending := map[string]int{}
	for _, c := range rem {
		for _, p := range g.commits[c].parents {
			if isRem[p] {
				pending[p]++
			}
		}
	}
	var queue []string
	for _, c := range rem {
		if pending[c] == 0 {
			queue = append(queue, c)
		}
	}
	for len(queue) > 0 {
		c := queue[0]
		queue = queue[1:]
		delete(e.keep[5], c)
		e.dels = append(e.dels, c12Del{5, c})
		for _, p := range g.commits[c].parents {
			if isRem[p] {
				pending[p]--
				if pending[p] == 0 {
					queue = append(queue, p)
				}
			}
		}
	}
	return e
}

// ---------------------------------------------------------------------------
// snapshots of the real store, through the repository's own readers

type c12Snap struct {
	g        *c12G
	listDiff string   // the store's key listing disagrees with point lookups
	badCom   []string // keys that do not decode
	badTbl   []string
	readErr  error
}

// c12Snapshot: which objects are stored is decided by point lookups (Exist) of every key the case can ever hold
// (the plan's universe), so the oracle does not depend on the key listing the code under test uses; the listing
// (objects.GetAll*Keys = store.FilterKey) is compared with it and any difference is reported on its own.
func c12Snapshot(db objects.Store, refs *c12Refs, plan *c12Plan) *c12Snap {
	s := &c12Snap{g: &c12G{commits: map[string]*c12GC{}, tables: map[string]*c12GT{}}}
	fail := func(err error) *c12Snap { s.readErr = err; return s }
	getters := []func(objects.Store) ([][]byte, error){objects.GetAllTableKeys, objects.GetAllTableIndexKeys,
		objects.GetAllTableProfileKeys, objects.GetAllBlockKeys, objects.GetAllBlockIndexKeys, objects.GetAllCommitKeys}
	universe := [6]map[string]uint64{plan.tblID, plan.tblID, plan.tblID, plan.blkID, plan.idxID, plan.comID}
	for k, get := range getters {
		s.g.sets[k] = map[string]bool{}
		for sum := range universe[k] {
			if db.Exist([]byte(c12Prefixes[k] + sum)) {
				s.g.sets[k][sum] = true
			}
		}
		keys, err := get(db)
		if err != nil {
			return fail(err)
		}
		listed := map[string]int{}
		for _, key := range keys {
			listed[string(key)]++
		}
		for key, n := range listed {
			switch {
			case n > 1 && s.listDiff == "":
				s.listDiff = fmt.Sprintf("%s key %x is listed %d times", c12KindName[k], key, n)
			case !s.g.sets[k][key] && s.listDiff == "":
				if _, known := universe[k][key]; known || !db.Exist([]byte(c12Prefixes[k]+key)) {
					s.listDiff = fmt.Sprintf("%s key %x is listed but not stored", c12KindName[k], key)
				} else {
					s.g.sets[k][key] = true // a key outside the case's universe that really is there: judged below
				}
			}
		}
		for key := range s.g.sets[k] {
			if listed[key] == 0 && s.listDiff == "" {
				s.listDiff = fmt.Sprintf("%s key %x is stored but missing from the key listing (%d keys listed, %d stored)",
					c12KindName[k], key, len(keys), len(s.g.sets[k]))
			}
		}
	}
	for c := range s.g.sets[5] {
		com, err := objects.GetCommit(db, []byte(c))
		if err != nil {
			s.badCom = append(s.badCom, c)
			s.g.commits[c] = &c12GC{}
			continue
		}
		gc := &c12GC{table: string(com.Table)}
		for _, p := range com.Parents {
			gc.parents = append(gc.parents, string(p))
		}
		s.g.commits[c] = gc
	}
	for t := range s.g.sets[0] {
		tbl, err := objects.GetTable(db, []byte(t))
		if err != nil {
			s.badTbl = append(s.badTbl, t)
			s.g.tables[t] = &c12GT{}
			continue
		}
		gt := &c12GT{}
		for _, b := range tbl.Blocks {
			gt.blocks = append(gt.blocks, string(b))
		}
		for _, b := range tbl.BlockIndices {
			gt.idxs = append(gt.idxs, string(b))
		}
		s.g.tables[t] = gt
	}
	s.g.refs = refs.roots()
	return s
}

var c12KindName = [6]string{"table", "table index", "table profile", "block", "block index", "commit"}

// ---------------------------------------------------------------------------
// Run

type c12Env struct {
	mode    uint64
	plan    *c12Plan
	db      objects.Store // mode 0: the inner objmock store; modes 1,2: the (re)opened badger store
	rec     *c12Rec
	refs    *c12Refs
	sqlDB   *sql.DB
	rd      *local.RepoDir
	dir     string
	cleanup []func()
}

func (e *c12Env) close() {
	for i := len(e.cleanup) - 1; i >= 0; i-- {
		e.cleanup[i]()
	}
}

func c12Malformed(format string, a ...interface{}) (*xt.T, Verdict) {
	return xt.N(xt.LI(98)), Fail("c12-malformed-case", format, a...)
}

func (e *c12Env) idOf(kind int, sum string) (uint64, bool) {
	var m map[string]uint64
	switch kind {
	case 0, 1, 2:
		m = e.plan.tblID
	case 3:
		m = e.plan.blkID
	case 4:
		m = e.plan.idxID
	default:
		m = e.plan.comID
	}
	id, ok := m[sum]
	return id, ok
}

func c12SortU64(l []uint64) []uint64 {
	sort.Slice(l, func(i, j int) bool { return l[i] < l[j] })
	return l
}

func c12Run(ctx *Ctx, c *xt.T) (*xt.T, Verdict) {
	if c12HasBig(c) {
		return c12Malformed("numbers beyond 64 bits")
	}
	mode := c12Num(c12Nth(c, 0))
	st := c12DecodeState(c12Nth(c, 1))
	ops := c12Kids(c12Nth(c, 2))
	if mode > 3 {
		return c12Malformed("unknown mode %d", mode)
	}
	envT := c12Nth(c, 3)
	tz, tzBuild := c12Num(c12Nth(envT, 0)), c12Num(c12Nth(envT, 2))
	if tz > 2000 || tzBuild > 2000 {
		return c12Malformed("time zone code out of range")
	}
	if tzBuild == 0 {
		tzBuild = tz
	}
	ages := map[uint64]uint64{}
	for _, k := range c12Kids(c12Nth(envT, 1)) {
		g, a := c12Num(c12Nth(k, 0)), c12Num(c12Nth(k, 1))
		if a > 1<<30 {
			return c12Malformed("transaction age too large")
		}
		if _, dup := ages[g]; !dup { // first binding wins, as in the model
			ages[g] = a
		}
	}
	oldLocal := time.Local
	defer func() { time.Local = oldLocal }()
	setZone := func(code uint64) {
		if code != 0 {
			off := int(code) - 1000
			time.Local = time.FixedZone(fmt.Sprintf("c12%+d", off), off*60)
		}
	}
	for _, op := range ops {
		tag := c12Num(c12Nth(op, 0))
		if tag == 3 && mode != 0 && mode != 3 {
			return c12Malformed("crash op in mode %d", mode)
		}
		if tag == 4 && (mode == 1 || c12Num(c12Nth(op, 1)) > 1<<30) {
			return c12Malformed("gc op in mode %d / ttl too large", mode)
		}
		if tag == 1 || tag == 2 {
			if _, err := c12RefNameOf(c12Num(c12Nth(op, 1)), c12Num(c12Nth(op, 2))); err != nil {
				return c12Malformed("%v", err)
			}
		}
	}
	plan, err := c12MakePlan(st)
	if err != nil {
		return c12Malformed("%v", err)
	}
	for _, op := range ops {
		if c12Num(c12Nth(op, 0)) == 2 {
			if _, err := plan.commitSum(c12Num(c12Nth(op, 3))); err != nil {
				return c12Malformed("%v", err)
			}
		}
	}
	env := &c12Env{mode: mode, plan: plan}
	defer env.close()
	if mode == 0 {
		env.db = objmock.NewStore()
		sdb, err := sql.Open("sqlite3", ":memory:")
		if err != nil {
			panic(err)
		}
		sdb.SetMaxOpenConns(1)
		env.cleanup = append(env.cleanup, func() { sdb.Close() })
		for _, stmt := range refsql.CreateTableStmts {
			if _, err := sdb.Exec(stmt); err != nil {
				panic(err)
			}
		}
		env.refs = &c12Refs{rs: refsql.NewStore(sdb), ages: ages}
		env.rec = &c12Rec{inner: env.db, failAt: -1}
	} else {
		root, err := os.MkdirTemp(ctx.Tmp, "c12repo")
		if err != nil {
			panic(err)
		}
		env.cleanup = append(env.cleanup, func() { os.RemoveAll(root) })
		env.dir = filepath.Join(root, ".wrgl")
		rd, err := local.NewRepoDir(env.dir, "")
		if err != nil {
			panic(err)
		}
		env.rd = rd
		env.cleanup = append(env.cleanup, func() { rd.Close() })
		if err := rd.Init(); err != nil {
			panic(err)
		}
		if env.db, err = rd.OpenObjectsStore(); err != nil {
			panic(err)
		}
		env.cleanup = append(env.cleanup, func() {
			if env.db != nil {
				env.db.Close()
			}
		})
		env.refs = &c12Refs{rs: rd.OpenRefStore(), ages: ages}
		if mode == 3 {
			env.rec = &c12Rec{inner: env.db, failAt: -1}
		}
	}
	setZone(tzBuild)
	if err := plan.build(env.db, env.refs); err != nil {
		return c12Malformed("%v", err)
	}
	setZone(tz)

	out := xt.N()
	v := OK()
	bad := func(class, format string, a ...interface{}) {
		if v.OK {
			v = Fail(class, format, a...)
		}
	}
	for opi, op := range ops {
		tag := c12Num(c12Nth(op, 0))
		switch tag {
		case 1:
			if err := env.refs.del(c12Num(c12Nth(op, 1)), c12Num(c12Nth(op, 2))); err != nil {
				bad("c12-ref-op-failed", "op %d: delete ref: %v", opi, err)
			}
			out.Add(xt.N())
		case 2:
			sum, _ := plan.commitSum(c12Num(c12Nth(op, 3)))
			if err := env.refs.set(c12Num(c12Nth(op, 1)), c12Num(c12Nth(op, 2)), sum); err != nil {
				bad("c12-ref-op-failed", "op %d: set ref: %v", opi, err)
			}
			out.Add(xt.N())
		case 0, 3:
			limit := -1
			if tag == 3 {
				k := c12Num(c12Nth(op, 1))
				if k > 1<<30 {
					k = 1 << 30
				}
				limit = int(k)
			}
			out.Add(env.pruneOp(ctx, opi, limit, -1, bad))
		case 4:
			out.Add(env.pruneOp(ctx, opi, -1, int64(c12Num(c12Nth(op, 1))), bad))
		default:
			out.Add(xt.N())
		}
	}
	return out, v
}

// pruneOp runs one prune (limit >= 0: the (limit+1)-th Delete fails), observes and judges it.
func (e *c12Env) checkRefs(opi int, when string, gone map[string]bool, bad func(class, format string, a ...interface{})) {
	missing, extra, err := e.refs.storeDiff()
	if err != nil {
		bad("c12-snapshot-failed", "op %d: %s: cannot list the refs: %v", opi, when, err)
		return
	}
	for _, n := range missing {
		if strings.HasPrefix(n, "txs/") && gone != nil {
			bad("c12-gc-open-transaction-discarded", "op %d: %s: ref %s of a transaction younger than the TTL (or without a row) is gone", opi, when, n)
		} else {
			bad("c12-ref-store-mismatch", "op %d: %s: ref %s is missing from the ref store or was moved", opi, when, n)
		}
	}
	for _, n := range extra {
		if gone[n] {
			bad("c12-gc-expired-transaction-kept", "op %d: %s: ref %s of a transaction older than the TTL is still there", opi, when, n)
		} else {
			bad("c12-ref-store-mismatch", "op %d: %s: unexpected ref %s in the ref store", opi, when, n)
		}
	}
}

// pruneOp runs one prune (limit >= 0: the (limit+1)-th Delete fails; gcTTL >= 0: transaction.GarbageCollect
// with that TTL in minutes first, as `wrgl gc` does), observes and judges it.
func (e *c12Env) pruneOp(ctx *Ctx, opi int, limit int, gcTTL int64, bad func(class, format string, a ...interface{})) *xt.T {
	e.checkRefs(opi, "before the op", nil, bad)
	var gone map[string]bool
	if gcTTL >= 0 {
		// what the gc half has to do, decided from the case alone: the roots of the prune half
		gone = e.refs.expire(uint64(gcTTL))
		ctx.Count("gc_ops")
		if len(gone) > 0 {
			ctx.Count("gc_ops_expiring_a_transaction")
		}
	}
	before := c12Snapshot(e.db, e.refs, e.plan)
	listMsg := ""
	if before.listDiff != "" {
		listMsg = "before the prune: " + before.listDiff
	}
	if before.readErr != nil {
		bad("c12-snapshot-failed", "op %d: cannot read the store before the prune: %v", opi, before.readErr)
	}
	if len(before.badCom)+len(before.badTbl) > 0 {
		bad("c12-snapshot-failed", "op %d: %d commits / %d tables of the built store do not decode", opi, len(before.badCom), len(before.badTbl))
	}
	exp := c12Expect(before.g)

	var runErr error
	switch e.mode {
	case 0, 3:
		e.rec.arm(limit)
		if gcTTL >= 0 {
			// cmd/wrgl/gc_cmd.go: transaction.GarbageCollect(db, rs, c.GetTransactionTTL(), bar); then runPrune
			runErr = transaction.GarbageCollect(e.rec, e.refs.rs, time.Duration(gcTTL)*time.Minute, nil)
		}
		if runErr == nil {
			runErr = prune.Prune(e.rec, e.refs.rs, nil)
		}
	default:
		if gcTTL >= 0 {
			cs := conffs.NewStore(e.dir, conffs.LocalSource, "")
			cfg, err := cs.Open()
			if err != nil {
				panic(err)
			}
			cfg.TransactionTTL = conf.Duration(time.Duration(gcTTL) * time.Minute)
			if err := cs.Save(cfg); err != nil {
				panic(err)
			}
		}
		if err := e.db.Close(); err != nil {
			panic(err)
		}
		e.db = nil
		cmd := wrgl.RootCmd()
		name := "prune"
		if e.mode == 2 {
			name = "gc"
		}
		cmd.SetArgs([]string{name, "--wrgl-dir", e.dir, "--no-progress"})
		cmd.SetOut(io.Discard)
		cmd.SetErr(io.Discard)
		runErr = cmd.Execute()
		db, err := e.rd.OpenObjectsStore()
		if err != nil {
			panic(err)
		}
		e.db = db
	}
	after := c12Snapshot(e.db, e.refs, e.plan)
	if after.listDiff != "" && listMsg == "" {
		listMsg = "after the prune: " + after.listDiff
	}
	e.checkRefs(opi, "after the op (prune must not touch refs, gc only those of expired transactions)", gone, bad)
	if after.readErr != nil {
		bad("c12-snapshot-failed", "op %d: cannot read the store after the prune: %v", opi, after.readErr)
	}

	// ---- observation
	status := 0
	if runErr != nil {
		status = 1
	}
	trace := xt.N()
	var delLog []c12Del
	if e.rec != nil {
		kinds := xt.N()
		var ids [6][]uint64
		for _, le := range e.rec.log {
			if le.op != 'D' {
				continue
			}
			kind := -1
			for k, pre := range c12Prefixes {
				if strings.HasPrefix(le.key, pre) {
					kind = k
				}
			}
			if kind < 0 {
				bad("c12-unexpected-write", "op %d: Delete of a key outside the object prefixes: %q", opi, le.key)
				continue
			}
			sum := le.key[len(c12Prefixes[kind]):]
			id, ok := e.idOf(kind, sum)
			if !ok {
				bad("c12-unexpected-write", "op %d: Delete of an unknown %s key %x", opi, c12KindName[kind], sum)
				id = 999999999
			}
			kinds.Add(xt.LI(kind))
			ids[kind] = append(ids[kind], id)
			delLog = append(delLog, c12Del{kind, sum})
		}
		trace.Add(kinds)
		for k := 0; k < 6; k++ {
			trace.Add(c12U64s(c12SortU64(ids[k])))
		}
	}
	keysets := xt.N()
	for _, k := range []int{5, 0, 1, 2, 3, 4} {
		var ids []uint64
		for sum := range after.g.sets[k] {
			id, ok := e.idOf(k, sum)
			if !ok {
				bad("c12-unexpected-write", "op %d: unknown %s key %x in the store after the prune", opi, c12KindName[k], sum)
				id = 999999999
			}
			ids = append(ids, id)
		}
		keysets.Add(c12U64s(c12SortU64(ids)))
	}
	obs := xt.N(xt.LI(status), trace, keysets)
	if gcTTL >= 0 {
		var names []uint64
		if m, err := ref.ListAllRefs(e.refs.rs); err == nil {
			for n := range m {
				kn, ok := e.refs.kn[n]
				if !ok {
					kn = [2]uint64{9, 0}
				}
				names = append(names, kn[0]<<32|kn[1])
			}
		}
		obs.Add(c12U64s(c12SortU64(names)))
	}

	// ---- judgement
	describe := func(k int, sum string) string {
		id, _ := e.idOf(k, sum)
		return fmt.Sprintf("%s %d (%x)", c12KindName[k], id, sum)
	}
	nDel := len(delLog)
	D := len(exp.dels)
	ctx.Count("prune_ops")
	switch {
	case exp.err:
		ctx.Count("prune_expected_error")
	case exp.early:
		ctx.Count("early_return")
		if exp.orphans {
			ctx.Count("early_return_leaves_orphans")
		}
	default:
		ctx.Count("prune_with_garbage")
	}
	wantErr := exp.err || (limit >= 0 && D > limit)
	if runErr != nil && !wantErr {
		bad("c12-unexpected-error", "op %d: error %q but every reachable commit has its parents (%d deletes due, limit %d)", opi, runErr, D, limit)
	}
	if runErr == nil && wantErr {
		if exp.err {
			bad("c12-missing-error", "op %d: no error although a reachable commit has a parent that is not stored", opi)
		} else {
			bad("c12-missing-error", "op %d: no error although Delete call #%d of %d was made to fail", opi, limit+1, D)
		}
	}
	// nothing new may appear
	for k := 0; k < 6; k++ {
		for sum := range after.g.sets[k] {
			if !before.g.sets[k][sum] {
				bad("c12-unexpected-write", "op %d: %s appeared during the prune", opi, describe(k, sum))
			}
		}
	}
	// safety: everything the full prune keeps is still there (also after a crash / an error)
	for k := 0; k < 6; k++ {
		for _, sum := range c12SortedKeys(exp.keep[k]) {
			if !after.g.sets[k][sum] {
				why := "expected to survive"
				switch {
				case exp.err:
					why = "the prune had to fail without deleting anything"
				case exp.early:
					why = "no commit is unreachable, nothing may be deleted"
				}
				bad("c12-reachable-object-deleted", "op %d: %s is gone (%s)", opi, describe(k, sum), why)
			}
		}
	}
	// completeness: a prune that ran to the end leaves no garbage
	if runErr == nil && !wantErr {
		for k := 0; k < 6; k++ {
			for _, sum := range c12SortedKeys(after.g.sets[k]) {
				if !exp.keep[k][sum] {
					bad("c12-garbage-left", "op %d: %s is still stored but nothing reachable needs it", opi, describe(k, sum))
				}
			}
		}
	}
	// closedness: a stored commit that had all its parents before the op still has them
	for _, c := range c12SortedKeys(after.g.sets[5]) {
		cm := before.g.commits[c]
		if cm == nil {
			continue
		}
		had := true
		for _, p := range cm.parents {
			had = had && before.g.sets[5][p]
		}
		if !had {
			continue
		}
		for _, p := range cm.parents {
			if !after.g.sets[5][p] {
				bad("c12-closed-broken", "op %d: %s is still stored but its parent %s was deleted", opi, describe(5, c), describe(5, p))
			}
		}
	}
	// read-back of everything reachable
	var bbuf []byte
	for _, c := range c12SortedKeys(exp.reachable) {
		com, err := objects.GetCommit(e.db, []byte(c))
		if err != nil {
			bad("c12-readback-failed", "op %d: GetCommit of reachable %s: %v", opi, describe(5, c), err)
			continue
		}
		t := string(com.Table)
		if !before.g.sets[0][t] {
			continue
		}
		tbl, err := objects.GetTable(e.db, com.Table)
		if err != nil {
			bad("c12-readback-failed", "op %d: GetTable of %s of reachable %s: %v", opi, describe(0, t), describe(5, c), err)
			continue
		}
		for _, b := range tbl.Blocks {
			if before.g.sets[3][string(b)] {
				if _, bbuf, err = objects.GetBlock(e.db, bbuf, b); err != nil {
					bad("c12-readback-failed", "op %d: GetBlock %s of %s: %v", opi, describe(3, string(b)), describe(0, t), err)
				}
			}
		}
		for _, b := range tbl.BlockIndices {
			if before.g.sets[4][string(b)] {
				if _, bbuf, err = objects.GetBlockIndex(e.db, bbuf, b); err != nil {
					bad("c12-readback-failed", "op %d: GetBlockIndex %s of %s: %v", opi, describe(4, string(b)), describe(0, t), err)
				}
			}
		}
		if before.g.sets[1][t] {
			if _, err := objects.GetTableIndex(e.db, com.Table); err != nil {
				bad("c12-readback-failed", "op %d: GetTableIndex of %s: %v", opi, describe(0, t), err)
			}
		}
		if before.g.sets[2][t] {
			if _, err := objects.GetTableProfile(e.db, com.Table); err != nil {
				bad("c12-readback-failed", "op %d: GetTableProfile of %s: %v", opi, describe(0, t), err)
			}
		}
	}
	// trace discipline (modes 0, 3)
	if e.rec != nil {
		for _, le := range e.rec.log {
			if le.op != 'D' {
				bad("c12-unexpected-write", "op %d: prune called %c on %q", opi, le.op, le.key)
			}
		}
		phase := 0
		for i := 0; i < len(delLog); {
			d := delLog[i]
			if d.kind <= 2 {
				if phase > 0 {
					bad("c12-delete-order", "op %d: delete #%d is a %s delete after the block/commit phase began", opi, i+1, c12KindName[d.kind])
				}
				if d.kind != 0 {
					bad("c12-delete-order", "op %d: delete #%d: %s deleted before its table object", opi, i+1, c12KindName[d.kind])
					i++
					continue
				}
				// a triple tbl, tblidx, tblsum on the same key (possibly cut short by the injected failure)
				for j := 1; j <= 2 && i+j < len(delLog); j++ {
					if delLog[i+j].kind != j || delLog[i+j].key != d.key {
						bad("c12-delete-order", "op %d: delete #%d: table delete not followed by index and profile of the same table", opi, i+1)
					}
				}
				if i+3 > len(delLog) && !(runErr != nil && limit >= 0) {
					bad("c12-delete-order", "op %d: incomplete table/index/profile triple at the end of the trace", opi)
				}
				i += 3
				continue
			}
			if d.kind-2 < phase {
				bad("c12-delete-order", "op %d: delete #%d (%s) is out of phase order tables, blocks, block indices, commits", opi, i+1, c12KindName[d.kind])
			}
			phase = d.kind - 2
			i++
		}
		// children first inside the commit phase
		pos := map[string]int{}
		for i, d := range delLog {
			if d.kind == 5 {
				pos[d.key] = i
			}
		}
		for _, c := range c12SortedKeys(before.g.sets[5]) {
			i, ok := pos[c]
			if !ok {
				continue
			}
			for _, p := range before.g.commits[c].parents {
				if j, ok := pos[p]; ok && j < i {
					bad("c12-commit-order", "op %d: %s deleted (delete #%d) before its child %s (delete #%d)", opi, describe(5, p), j+1, describe(5, c), i+1)
				}
			}
		}
		if exp.err && nDel != 0 {
			bad("c12-reachable-object-deleted", "op %d: %d deletes although the ref walk had to fail first", opi, nDel)
		}
		if !exp.err && limit >= 0 {
			if runErr != nil && nDel != limit {
				bad("c12-crash-count", "op %d: error after %d successful deletes, the store was armed to fail call #%d", opi, nDel, limit+1)
			}
			if runErr == nil && nDel > limit {
				bad("c12-crash-count", "op %d: %d deletes succeeded but call #%d had to fail", opi, nDel, limit+1)
			}
		}
	}
	// reported last, so that the damage done to the repository (if any) names the case
	if listMsg != "" {
		bad("c12-key-listing-wrong", "op %d: objects.GetAll*Keys disagrees with point lookups: %s", opi, listMsg)
	}
	return obs
}
