package main

import (
	"fmt"
)

// Generators for C05.

func c05T(cols []string, pk []string, rows ...[]string) *c05Table {
	return &c05Table{Cols: cols, PK: pk, Rows: rows}
}

func c05S(s ...string) []string { return s }

func c05Clone(t *c05Table) *c05Table {
	n := &c05Table{Cols: append([]string{}, t.Cols...), PK: append([]string{}, t.PK...)}
	for _, r := range t.Rows {
		n.Rows = append(n.Rows, append([]string{}, r...))
	}
	return n
}

func c05Witnesses() []Case {
	var cs []Case
	add := func(tag string, mode int, base *c05Table, others []*c05Table, policy, remmode, blocks int) {
		cs = append(cs, Case{Tag: tag, Nontrivial: true, C: c05Case(mode, base, others, policy, remmode, blocks)})
	}
	id := c05S("id")
	// F1: key column not first
	f1b := c05T(c05S("x", "id"), id, c05S("a", "1"), c05S("b", "2"), c05S("c", "3"))
	f1x := c05T(c05S("x", "id"), id, c05S("a2", "1"), c05S("b", "2"), c05S("c", "3"))
	f1y := c05T(c05S("x", "id"), id, c05S("a", "1"), c05S("b", "2"), c05S("c3", "3"))
	add("wit-f1", 0, f1b, []*c05Table{f1x, f1y}, 0, 1, 0)
	add("wit-f1", 0, f1b, []*c05Table{f1x, f1y}, 0, 1, 1)
	add("wit-f1", 1, f1b, []*c05Table{f1x, f1y}, 0, 0, 0)
	// F1: a branch adds a column, one row untouched
	add("wit-f1", 0, c05T(c05S("id", "v"), id, c05S("1", "a"), c05S("2", "b")),
		[]*c05Table{c05T(c05S("id", "w", "v"), id, c05S("1", "n", "a"), c05S("2", "m", "b")),
			c05T(c05S("id", "v"), id, c05S("1", "a2"), c05S("2", "b"))}, 0, 1, 0)
	// F2: keyless
	klb := c05T(c05S("p", "q"), nil, c05S("a", "1"), c05S("b", "2"), c05S("c", "3"))
	klx := c05T(c05S("p", "q"), nil, c05S("a", "1"), c05S("c", "3"), c05S("d", "4"))
	kly := c05T(c05S("p", "q"), nil, c05S("a", "1"), c05S("b", "2"), c05S("c", "3"), c05S("e", "5"))
	add("wit-f2", 0, klb, []*c05Table{klx, kly}, 0, 1, 0)
	add("wit-f2", 1, klb, []*c05Table{klx, kly}, 0, 0, 0)
	add("wit-f2", 0, klb, []*c05Table{klb, klb}, 0, 1, 0)
	// repository tests
	abc := c05S("a", "b", "c")
	a := c05S("a")
	add("wit-test", 0, c05T(abc, a, c05S("1", "q", "w"), c05S("2", "a", "s"), c05S("4", "r", "t")),
		[]*c05Table{c05T(abc, a, c05S("1", "q", "r"), c05S("2", "a", "s"), c05S("4", "r", "t")),
			c05T(abc, a, c05S("1", "e", "w"), c05S("3", "s", "d"), c05S("4", "r", "t"))}, 0, 0, 0)
	mb := c05T(abc, a, c05S("1", "q", "w"), c05S("2", "a", "s"), c05S("3", "s", "d"), c05S("5", "t", "y"))
	m1 := c05T(abc, a, c05S("1", "q", "w"), c05S("2", "a", "r"), c05S("3", "x", "d"), c05S("4", "v", "b"), c05S("5", "t", "y"))
	m2 := c05T(abc, a, c05S("1", "q", "w"), c05S("2", "a", "w"), c05S("4", "n", "m"), c05S("5", "t", "u"))
	for p := 0; p < 3; p++ {
		add("wit-test", 0, mb, []*c05Table{m1, m2}, p, 1, p%2)
	}
	add("wit-test", 1, mb, []*c05Table{m1, m2}, 0, 0, 0)
	cb := c05T(abc, a, c05S("1", "q", "w"), c05S("2", "a", "s"), c05S("3", "z", "x"), c05S("4", "t", "y"), c05S("5", "g", "h"), c05S("6", "b", "n"))
	c1 := c05T(c05S("a", "b", "c", "d"), a, c05S("1", "q", "w", "e"), c05S("2", "g", "s", "d"), c05S("3", "z", "v", "c"),
		c05S("4", "q", "y", "u"), c05S("5", "g", "h", "j"), c05S("6", "m", "n", "k"))
	c2 := c05T(c05S("a", "b"), a, c05S("1", "q"), c05S("2", "g"), c05S("3", "z"), c05S("4", "a"), c05S("5", "s"))
	add("wit-test", 0, cb, []*c05Table{c1, c2}, 0, 0, 0)
	add("wit-test", 0, cb, []*c05Table{c2, c1}, 0, 0, 0)
	add("wit-test", 0, cb, []*c05Table{c1, c2}, 1, 1, 0)
	add("wit-test", 1, cb, []*c05Table{c1, c2}, 0, 0, 0)
	// no-gui test of the repository
	add("wit-test", 1, c05T(abc, a, c05S("1", "q", "w"), c05S("2", "a", "s"), c05S("4", "v", "b")),
		[]*c05Table{c05T(c05S("a", "b", "d"), a, c05S("1", "g", "e"), c05S("2", "h", "d")),
			c05T(c05S("a", "c", "e"), a, c05S("1", "q", "w"), c05S("3", "z", "x"))}, 0, 0, 0)
	// identity / idempotence, key first
	add("wit-laws", 0, mb, []*c05Table{m1, mb}, 0, 1, 0)
	add("wit-laws", 0, mb, []*c05Table{mb, m1}, 0, 1, 0)
	add("wit-laws", 0, mb, []*c05Table{m1, m1}, 0, 1, 0)
	add("wit-laws", 1, mb, []*c05Table{m1, m1}, 0, 1, 0)
	add("wit-laws", 0, mb, []*c05Table{mb, mb}, 0, 1, 0)
	add("wit-laws", 0, mb, []*c05Table{m1, m2, m1}, 0, 1, 0)
	// distinct sums deduplicated across different layouts: both branches add a column with value x
	add("wit-dedupe-layout", 0, c05T(c05S("id"), id, c05S("1")),
		[]*c05Table{c05T(c05S("id", "a"), id, c05S("1", "x")), c05T(c05S("id", "b"), id, c05S("1", "x"))}, 0, 1, 0)
	// rename in one branch, removal in the other
	add("wit-rename", 0, c05T(c05S("id", "a"), id, c05S("1", "x"), c05S("2", "y")),
		[]*c05Table{c05T(c05S("id", "b"), id, c05S("1", "x"), c05S("2", "y")), c05T(c05S("id", "a"), id, c05S("2", "y"))}, 0, 1, 0)
	// both rename
	add("wit-rename", 0, c05T(c05S("id", "a"), id, c05S("1", "x"), c05S("2", "y")),
		[]*c05Table{c05T(c05S("id", "b"), id, c05S("1", "x"), c05S("2", "y")), c05T(c05S("id", "b"), id, c05S("1", "x"), c05S("2", "y"))}, 0, 1, 0)
	// reorder in one branch, row removal in the other
	add("wit-reorder", 0, c05T(c05S("id", "a", "b"), id, c05S("1", "x", "y"), c05S("2", "u", "v")),
		[]*c05Table{c05T(c05S("id", "b", "a"), id, c05S("1", "y", "x"), c05S("2", "v", "u")), c05T(c05S("id", "a", "b"), id, c05S("2", "u", "v"))}, 0, 1, 0)
	// new row in both, one branch dropped a column
	add("wit-newrow-colremoved", 0, c05T(c05S("id", "a"), id, c05S("1", "x")),
		[]*c05Table{c05T(c05S("id", "a"), id, c05S("1", "x"), c05S("2", "u")), c05T(c05S("id"), id, c05S("1"), c05S("2"))}, 0, 1, 0)
	// key differs between the branches: Start refuses
	add("wit-pk-differs", 0, c05T(abc, a, c05S("1", "q", "w")),
		[]*c05Table{c05T(abc, a, c05S("1", "q", "w")), c05T(abc, c05S("b"), c05S("1", "q", "w"))}, 0, 0, 0)
	// key of the base differs from the (agreeing) branches
	add("wit-pk-differs", 0, c05T(abc, c05S("b"), c05S("1", "q", "w")),
		[]*c05Table{c05T(abc, a, c05S("1", "q", "x")), c05T(abc, a, c05S("1", "q", "w"))}, 0, 0, 0)
	// empty tables
	add("wit-empty", 0, c05T(abc, a), []*c05Table{c05T(abc, a), c05T(abc, a)}, 0, 1, 0)
	add("wit-empty", 0, c05T(abc, a), []*c05Table{c05T(abc, a, c05S("1", "q", "w")), c05T(abc, a)}, 0, 1, 0)
	add("wit-empty", 0, c05T(abc, a, c05S("1", "q", "w")), []*c05Table{c05T(abc, a), c05T(abc, a)}, 0, 1, 1)
	// composite key
	add("wit-composite", 0, c05T(c05S("k1", "k2", "v"), c05S("k1", "k2"), c05S("a", "b", "1"), c05S("a", "c", "2"), c05S("b", "a", "3")),
		[]*c05Table{c05T(c05S("k1", "k2", "v"), c05S("k1", "k2"), c05S("a", "b", "9"), c05S("a", "c", "2"), c05S("b", "a", "3")),
			c05T(c05S("k1", "k2", "v"), c05S("k1", "k2"), c05S("a", "b", "1"), c05S("a", "c", "2"), c05S("c", "a", "4"))}, 0, 1, 0)
	// composite key listed in another order than the columns
	add("wit-composite", 0, c05T(c05S("k1", "k2", "v"), c05S("k2", "k1"), c05S("a", "b", "1"), c05S("a", "c", "2"), c05S("b", "a", "3")),
		[]*c05Table{c05T(c05S("k1", "k2", "v"), c05S("k2", "k1"), c05S("a", "b", "9"), c05S("a", "c", "2"), c05S("b", "a", "3")),
			c05T(c05S("k1", "k2", "v"), c05S("k2", "k1"), c05S("a", "b", "1"), c05S("a", "c", "2"), c05S("c", "a", "4"))}, 0, 1, 0)
	// command level: a row removed by one branch, the other branch only changes the column set
	// (the record is unresolved with NO unresolved column): the command must not conclude the merge
	cmb := c05T(c05S("id", "a", "b", "c"), id, c05S("1", "q", "w", "e"), c05S("2", "a", "s", "d"), c05S("3", "z", "x", "c"))
	cmDrop := c05T(c05S("id", "a", "b"), id, c05S("1", "q", "w"), c05S("2", "a", "s"), c05S("3", "z", "x"))
	cmAdd := c05T(c05S("id", "a", "b", "c", "n"), id, c05S("1", "q", "w", "e", "n1"), c05S("2", "a", "s", "d", "n2"), c05S("3", "z", "x", "c", "n3"))
	cmDel := c05T(c05S("id", "a", "b", "c"), id, c05S("1", "q", "w", "e"), c05S("3", "z", "x", "c"))
	add("wit-cmd", 1, cmb, []*c05Table{cmDrop, cmDel}, 0, 0, 0)
	add("wit-cmd", 1, cmb, []*c05Table{cmDel, cmAdd}, 0, 0, 0)
	add("wit-cmd", 0, cmb, []*c05Table{cmDrop, cmDel}, 0, 1, 0)
	// CompareColumns on its own
	add("wit-coldiff", 2, c05T(c05S("a", "b", "c"), a), []*c05Table{c05T(c05S("a", "d", "b", "e"), a), c05T(c05S("f", "a", "c"), a)}, 0, 0, 0)
	add("wit-coldiff", 2, c05T(c05S("a", "b", "c"), a), nil, 0, 0, 0)
	add("wit-coldiff", 2, c05T(c05S("a", "a", "b"), a), []*c05Table{c05T(c05S("b", "a", "b"), a)}, 0, 0, 0)
	add("wit-coldiff", 2, c05T(c05S("x", "y", "k"), c05S("k")), []*c05Table{c05T(c05S("y", "k", "z"), c05S("k")), c05T(c05S("k", "x"), c05S("k"))}, 0, 0, 0)
	return cs
}

// ---- exhaustive small scope: every pair of branches over a base of two rows (id, v),
// cell alphabet {a, b}; a branch keeps/removes/edits each base row and may add row 3.
func c05Exhaustive(ctx *Ctx) []Case {
	var cs []Case
	states := []string{"", "a", "b"} // "" = row absent
	mk := func(cols []string, pk []string, keyPos int, v1, v2, v3 string) *c05Table {
		t := &c05Table{Cols: cols, PK: pk}
		for i, v := range []string{v1, v2, v3} {
			if v == "" {
				continue
			}
			k := fmt.Sprintf("%d", i+1)
			if keyPos == 0 {
				t.Rows = append(t.Rows, []string{k, v})
			} else {
				t.Rows = append(t.Rows, []string{v, k})
			}
		}
		return t
	}
	variants := []struct {
		cols   []string
		keyPos int
	}{{c05S("id", "v"), 0}}
	if ctx.Thorough() {
		variants = append(variants, struct {
			cols   []string
			keyPos int
		}{c05S("v", "id"), 1})
	}
	for _, vr := range variants {
		b2s := []string{"b"}
		if ctx.Thorough() {
			b2s = []string{"a", "b"}
		}
		for _, b2 := range b2s {
			base := mk(vr.cols, c05S("id"), vr.keyPos, "a", b2, "")
			for x := 0; x < 27; x++ {
				for y := 0; y < 27; y++ {
					X := mk(vr.cols, c05S("id"), vr.keyPos, states[x%3], states[x/3%3], states[x/9])
					Y := mk(vr.cols, c05S("id"), vr.keyPos, states[y%3], states[y/3%3], states[y/9])
					pol := (x + y) % 3
					cs = append(cs, Case{Tag: "exh", Nontrivial: x != 13 || y != 13,
						C: c05Case(0, base, []*c05Table{X, Y}, pol, 1, (x+y)%2)})
					ctx.Count("exhaustive_cases")
				}
			}
		}
	}
	// column-level scripts on top of a small set of row scripts (full product in thorough)
	colOps := 6
	rowScripts := []int{13, 14, 22}
	if ctx.Thorough() {
		rowScripts = []int{0, 4, 10, 12, 13, 14, 16, 22, 23, 25, 26}
	}
	applyCol := func(t *c05Table, op int) *c05Table {
		// t has columns (id, v, w)
		n := &c05Table{PK: t.PK}
		var perm []int
		var names []string
		switch op {
		case 0:
			return t
		case 1: // remove w
			perm, names = []int{0, 1}, c05S("id", "v")
		case 2: // remove v
			perm, names = []int{0, 2}, c05S("id", "w")
		case 3: // swap v and w
			perm, names = []int{0, 2, 1}, c05S("id", "w", "v")
		case 4: // rename w -> z
			perm, names = []int{0, 1, 2}, c05S("id", "v", "z")
		case 5: // add column u in front of the key
			perm, names = []int{-1, 0, 1, 2}, c05S("u", "id", "v", "w")
		}
		n.Cols = names
		for _, r := range t.Rows {
			nr := make([]string, len(perm))
			for i, p := range perm {
				if p < 0 {
					nr[i] = "n" + r[0]
				} else {
					nr[i] = r[p]
				}
			}
			n.Rows = append(n.Rows, nr)
		}
		return n
	}
	mk3 := func(v1, v2, v3 string) *c05Table {
		t := &c05Table{Cols: c05S("id", "v", "w"), PK: c05S("id")}
		for i, v := range []string{v1, v2, v3} {
			if v == "" {
				continue
			}
			t.Rows = append(t.Rows, []string{fmt.Sprintf("%d", i+1), v, "c"})
		}
		return t
	}
	base3 := mk3("a", "b", "")
	for _, x := range rowScripts {
		for _, y := range rowScripts {
			for ox := 0; ox < colOps; ox++ {
				for oy := 0; oy < colOps; oy++ {
					if ox == 0 && oy == 0 {
						continue
					}
					X := applyCol(mk3(states[x%3], states[x/3%3], states[x/9]), ox)
					Y := applyCol(mk3(states[y%3], states[y/3%3], states[y/9]), oy)
					cs = append(cs, Case{Tag: "exh-cols", Nontrivial: true, C: c05Case(0, base3, []*c05Table{X, Y}, (x+y+ox)%3, 1, 0)})
					ctx.Count("exhaustive_column_cases")
				}
			}
		}
	}
	return cs
}

// ---- random edit scripts

var c05Alphabet = []string{"", "a", "b", "c", "x1", "y,2", "long value"}
var c05NamePool = []string{"a", "b", "c", "d", "e", "f", "g"}

type c05Shape struct {
	guard    bool // key first, branches keep the columns
	keyless  bool
	nBranch  int
	rows     int
	touchPct int // chance (percent) that a branch touches a given base row
}

func c05RandCell(ctx *Ctx) string { return c05Alphabet[ctx.Pick(len(c05Alphabet))] }

func c05RandBase(ctx *Ctx, sh c05Shape) *c05Table {
	nval := 1 + ctx.Pick(4)
	npk := 1
	if ctx.Pick(5) == 0 {
		npk = 2
	}
	if sh.keyless {
		npk = 0
		nval = 2 + ctx.Pick(2)
	}
	var pk []string
	for i := 0; i < npk; i++ {
		pk = append(pk, fmt.Sprintf("k%d", i+1))
	}
	vals := append([]string{}, c05NamePool[:nval]...)
	cols := append(append([]string{}, pk...), vals...)
	if !sh.guard && !sh.keyless {
		// key column(s) at any position
		ctx.Rng.Shuffle(len(cols), func(i, j int) { cols[i], cols[j] = cols[j], cols[i] })
		if npk == 2 && ctx.Pick(2) == 0 {
			pk[0], pk[1] = pk[1], pk[0]
		}
	}
	t := &c05Table{Cols: cols, PK: pk}
	seen := map[string]bool{}
	for i := 0; i < sh.rows; i++ {
		row := make([]string, len(cols))
		for j, c := range cols {
			switch {
			case c == "k1" && npk == 1:
				row[j] = fmt.Sprintf("%04d", i*3)
			case c == "k1":
				row[j] = fmt.Sprintf("%02d", i/3)
			case c == "k2":
				row[j] = fmt.Sprintf("%d", i%3)
			default:
				row[j] = c05RandCell(ctx)
			}
		}
		if sh.keyless {
			row[0] = fmt.Sprintf("r%04d", i)
			if seen[c05KeyStr(row)] {
				continue
			}
			seen[c05KeyStr(row)] = true
		}
		t.Rows = append(t.Rows, row)
	}
	return t
}

func c05IsPK(t *c05Table, c string) bool {
	for _, p := range t.PK {
		if p == c {
			return true
		}
	}
	return false
}

// c05Branch derives a branch from the base by a random edit script; newRows is a shared
// pool of candidate new rows (so that two branches can add the same key)
func c05Branch(ctx *Ctx, base *c05Table, sh c05Shape, newRows [][]string) *c05Table {
	t := c05Clone(base)
	var rows [][]string
	for _, r := range t.Rows {
		if ctx.Pick(100) >= sh.touchPct {
			rows = append(rows, r)
			continue
		}
		switch ctx.Pick(4) {
		case 0:
			ctx.Count("edit_row_remove")
			continue
		default:
			ctx.Count("edit_row_cells")
			if sh.keyless {
				// an edit of a keyless row = remove + add
				r[len(r)-1] = r[len(r)-1] + "'"
			} else {
				for n := 1 + ctx.Pick(2); n > 0; n-- {
					j := ctx.Pick(len(t.Cols))
					if !c05IsPK(t, t.Cols[j]) {
						r[j] = c05RandCell(ctx)
					}
				}
			}
			rows = append(rows, r)
		}
	}
	for _, nr := range newRows {
		if ctx.Pick(2) == 0 {
			r := append([]string{}, nr...)
			if !sh.keyless && ctx.Pick(3) == 0 {
				j := ctx.Pick(len(t.Cols))
				if !c05IsPK(t, t.Cols[j]) {
					r[j] = c05RandCell(ctx)
				}
			}
			rows = append(rows, r)
			ctx.Count("edit_row_add")
		}
	}
	t.Rows = rows
	if sh.guard || sh.keyless {
		return t
	}
	// column script
	for n := ctx.Pick(3); n > 0; n-- {
		switch ctx.Pick(4) {
		case 0: // add a column
			name := c05NamePool[ctx.Pick(len(c05NamePool))]
			dup := false
			for _, c := range t.Cols {
				if c == name {
					dup = true
				}
			}
			if dup {
				continue
			}
			pos := ctx.Pick(len(t.Cols) + 1)
			t.Cols = append(t.Cols[:pos], append([]string{name}, t.Cols[pos:]...)...)
			for i, r := range t.Rows {
				v := c05RandCell(ctx)
				t.Rows[i] = append(r[:pos:pos], append([]string{v}, r[pos:]...)...)
			}
			ctx.Count("edit_col_add")
		case 1: // remove a non-key column
			j := ctx.Pick(len(t.Cols))
			if c05IsPK(t, t.Cols[j]) || len(t.Cols) <= len(t.PK)+1 {
				continue
			}
			t.Cols = append(t.Cols[:j:j], t.Cols[j+1:]...)
			for i, r := range t.Rows {
				t.Rows[i] = append(r[:j:j], r[j+1:]...)
			}
			ctx.Count("edit_col_remove")
		case 2: // reorder: swap two columns
			i, j := ctx.Pick(len(t.Cols)), ctx.Pick(len(t.Cols))
			t.Cols[i], t.Cols[j] = t.Cols[j], t.Cols[i]
			for _, r := range t.Rows {
				r[i], r[j] = r[j], r[i]
			}
			ctx.Count("edit_col_reorder")
		case 3: // rename a non-key column
			j := ctx.Pick(len(t.Cols))
			name := c05NamePool[ctx.Pick(len(c05NamePool))] + "2"
			dup := c05IsPK(t, t.Cols[j])
			for _, c := range t.Cols {
				if c == name {
					dup = true
				}
			}
			if dup {
				continue
			}
			t.Cols[j] = name
			ctx.Count("edit_col_rename")
		}
	}
	return t
}

func c05RandCase(ctx *Ctx, sh c05Shape, mode int) Case {
	base := c05RandBase(ctx, sh)
	// pool of new rows
	var newRows [][]string
	for i := ctx.Pick(4); i > 0; i-- {
		row := make([]string, len(base.Cols))
		for j, c := range base.Cols {
			switch c {
			case "k1":
				if len(base.PK) == 1 {
					row[j] = fmt.Sprintf("%04d", ctx.Pick(3*sh.rows+6)/3*3+1+ctx.Pick(2))
				} else {
					row[j] = fmt.Sprintf("%02d", ctx.Pick(sh.rows/3+2))
				}
			case "k2":
				row[j] = fmt.Sprintf("%d", 3+ctx.Pick(2))
			default:
				row[j] = c05RandCell(ctx)
			}
		}
		if sh.keyless {
			row[0] = fmt.Sprintf("n%04d", i)
		}
		dup := false
		for _, q := range newRows {
			if c05KeyStr(c05KeyOf(base, q)) == c05KeyStr(c05KeyOf(base, row)) {
				dup = true
			}
		}
		if !dup {
			newRows = append(newRows, row)
		}
	}
	var others []*c05Table
	nontrivial := false
	for i := 0; i < sh.nBranch; i++ {
		var o *c05Table
		r := ctx.Pick(10)
		switch {
		case r == 0:
			o = c05Clone(base) // a branch identical to the base
		case r == 1 && i > 0:
			o = c05Clone(others[0]) // identical branches
		default:
			o = c05Branch(ctx, base, sh, newRows)
		}
		if fmt.Sprint(o) != fmt.Sprint(base) {
			nontrivial = true
		}
		others = append(others, o)
	}
	tag := "rand"
	switch {
	case sh.keyless:
		tag = "rand-keyless"
	case sh.guard:
		tag = "rand-guard"
	default:
		tag = "rand-layout"
	}
	if sh.touchPct <= 5 {
		tag += "-untouched"
	}
	if mode == 1 {
		tag += "-cli"
	}
	ctx.Count(fmt.Sprintf("branches_%d", sh.nBranch))
	if sh.rows > 255 {
		ctx.Count("multi_block_base")
	}
	remmode := 1
	if ctx.Pick(4) == 0 {
		remmode = 0
	}
	return Case{Tag: tag, Nontrivial: nontrivial, C: c05Case(mode, base, others, ctx.Pick(3), remmode, ctx.Pick(3)/2)}
}

// c05RemovalVsLayout: one branch removes rows (and may edit others), the other branch only changes
// the column set (drop / add / reorder / rename a non-key column) without touching a cell.
func c05RemovalVsLayout(ctx *Ctx, mode int) Case {
	nval := 2 + ctx.Pick(3)
	cols := append([]string{"k1"}, c05NamePool[:nval]...)
	base := &c05Table{Cols: cols, PK: c05S("k1")}
	nrows := 2 + ctx.Pick(5)
	for i := 0; i < nrows; i++ {
		row := []string{fmt.Sprintf("%04d", i*3)}
		for j := 0; j < nval; j++ {
			row = append(row, c05RandCell(ctx))
		}
		base.Rows = append(base.Rows, row)
	}
	A := c05Clone(base)
	op := 0
	if r := ctx.Pick(6); r < 2 {
		op = 0
	} else if r < 4 {
		op = 1
	} else {
		op = r - 2
	}
	switch op {
	case 0: // drop a non-key column
		j := 1 + ctx.Pick(nval)
		A.Cols = append(A.Cols[:j:j], A.Cols[j+1:]...)
		for i, r := range A.Rows {
			A.Rows[i] = append(r[:j:j], r[j+1:]...)
		}
		ctx.Count("removal_vs_col_drop")
	case 1: // add a column
		j := 1 + ctx.Pick(nval+1)
		A.Cols = append(A.Cols[:j:j], append([]string{"n"}, A.Cols[j:]...)...)
		for i, r := range A.Rows {
			A.Rows[i] = append(r[:j:j], append([]string{fmt.Sprintf("n%d", i)}, r[j:]...)...)
		}
		ctx.Count("removal_vs_col_add")
	case 2: // swap two non-key columns
		i, j := 1, 2+ctx.Pick(nval-1)
		A.Cols[i], A.Cols[j] = A.Cols[j], A.Cols[i]
		for _, r := range A.Rows {
			r[i], r[j] = r[j], r[i]
		}
		ctx.Count("removal_vs_col_reorder")
	default: // rename
		A.Cols[1+ctx.Pick(nval)] = "z9"
		ctx.Count("removal_vs_col_rename")
	}
	B := c05Clone(base)
	del := ctx.Pick(len(B.Rows))
	B.Rows = append(B.Rows[:del:del], B.Rows[del+1:]...)
	if len(B.Rows) > 0 && ctx.Pick(3) == 0 {
		B.Rows[ctx.Pick(len(B.Rows))][1+ctx.Pick(nval)] = "edited"
	}
	others := []*c05Table{A, B}
	if ctx.Pick(2) == 0 {
		others = []*c05Table{B, A}
	}
	tag := "removal-vs-layout"
	if mode == 1 {
		tag += "-cli"
	}
	return Case{Tag: tag, Nontrivial: true, C: c05Case(mode, base, others, ctx.Pick(3), 1, 0)}
}

// c05BlockShift: multi-block tables in the common layout; one branch deletes exactly j*255 leading
// rows or inserts 255 rows in front (so whole blocks of the base reappear at another block
// position), the other branch edits rows in the shifted blocks.
func c05BlockShift(ctx *Ctx, variant int) Case {
	nrows := 255*2 + 20 + ctx.Pick(60)
	if variant%4 == 3 {
		nrows += 255
	}
	base := &c05Table{Cols: c05S("k1", "a", "b"), PK: c05S("k1")}
	for i := 0; i < nrows; i++ {
		base.Rows = append(base.Rows, []string{fmt.Sprintf("%05d", i), fmt.Sprintf("n%d", i), c05RandCell(ctx)})
	}
	A := c05Clone(base)
	if variant%2 == 0 {
		j := 1
		if nrows > 255*3 && ctx.Pick(2) == 0 {
			j = 2
		}
		A.Rows = A.Rows[255*j:]
		ctx.Count("blockshift_delete_leading_blocks")
	} else {
		var front [][]string
		for i := 0; i < 255; i++ {
			front = append(front, []string{fmt.Sprintf("!%04d", i), "new", c05RandCell(ctx)})
		}
		A.Rows = append(front, A.Rows...)
		ctx.Count("blockshift_insert_leading_block")
	}
	B := c05Clone(base)
	for n := 1 + ctx.Pick(3); n > 0; n-- {
		B.Rows[255+ctx.Pick(nrows-255)][2] = "edited"
	}
	others := []*c05Table{A, B}
	if variant%3 == 0 {
		others = []*c05Table{B, A}
	}
	ctx.Count("multi_block_base")
	return Case{Tag: "blockshift", Nontrivial: true, C: c05Case(0, base, others, 0, 1, variant%2)}
}

var c05RowCounts = []int{0, 1, 2, 3, 3, 5, 8, 13, 30}
var c05BigRowCounts = []int{254, 255, 256, 300, 511, 600}

func genC05(ctx *Ctx) []Case {
	cases := c05Witnesses()
	cases = append(cases, c05Exhaustive(ctx)...)
	mult := 1
	if ctx.Thorough() {
		mult = 12
	}
	pickRows := func() int { return c05RowCounts[ctx.Pick(len(c05RowCounts))] }
	for i := 0; i < 250*mult; i++ {
		sh := c05Shape{guard: true, nBranch: 2 + ctx.Pick(4)/3, rows: pickRows(), touchPct: 40}
		cases = append(cases, c05RandCase(ctx, sh, 0))
	}
	for i := 0; i < 200*mult; i++ {
		sh := c05Shape{nBranch: 2 + ctx.Pick(4)/3, rows: pickRows(), touchPct: 40}
		cases = append(cases, c05RandCase(ctx, sh, 0))
	}
	for i := 0; i < 40*mult; i++ {
		sh := c05Shape{keyless: true, nBranch: 2 + ctx.Pick(4)/3, rows: pickRows(), touchPct: 30}
		cases = append(cases, c05RandCase(ctx, sh, 0))
	}
	// mostly untouched rows, some multi-block
	for i := 0; i < 20*mult; i++ {
		rows := 20 + ctx.Pick(60)
		if i%4 == 0 {
			rows = c05BigRowCounts[ctx.Pick(len(c05BigRowCounts))]
		}
		sh := c05Shape{guard: i%3 != 2, nBranch: 2 + ctx.Pick(4)/3, rows: rows, touchPct: 1 + ctx.Pick(4)}
		cases = append(cases, c05RandCase(ctx, sh, 0))
	}
	// CLI
	for i := 0; i < 12*mult; i++ {
		sh := c05Shape{guard: i%3 != 2, keyless: i%12 == 11, nBranch: 2, rows: pickRows(), touchPct: 30}
		cases = append(cases, c05RandCase(ctx, sh, 1))
	}
	// row removal vs pure column-set change (library and command level)
	for i := 0; i < 30*mult; i++ {
		cases = append(cases, c05RemovalVsLayout(ctx, 0))
	}
	for i := 0; i < 6*mult; i++ {
		cases = append(cases, c05RemovalVsLayout(ctx, 1))
	}
	// whole blocks shifted to another block position in one branch
	nShift := 2
	if ctx.Thorough() {
		nShift = 16
	}
	for i := 0; i < nShift; i++ {
		cases = append(cases, c05BlockShift(ctx, i))
	}
	// CompareColumns alone: random column lists, occasionally malformed
	for i := 0; i < 200*mult; i++ {
		pool := append([]string{"k"}, c05NamePool...)
		rl := func() []string {
			var l []string
			for _, s := range pool {
				if ctx.Pick(2) == 0 {
					l = append(l, s)
				}
			}
			ctx.Rng.Shuffle(len(l), func(i, j int) { l[i], l[j] = l[j], l[i] })
			if ctx.Pick(25) == 0 && len(l) > 0 {
				l = append(l, l[ctx.Pick(len(l))]) // duplicate name
			}
			return l
		}
		pk := c05S("k")
		if ctx.Pick(8) == 0 {
			pk = c05S("a", "k")
		}
		if ctx.Pick(20) == 0 {
			pk = nil
		}
		withPK := func(l []string) []string {
			if ctx.Pick(30) == 0 {
				return l
			}
			for _, p := range pk {
				found := false
				for _, s := range l {
					if s == p {
						found = true
					}
				}
				if !found {
					pos := ctx.Pick(len(l) + 1)
					l = append(l[:pos:pos], append([]string{p}, l[pos:]...)...)
				}
			}
			return l
		}
		base := c05T(withPK(rl()), pk)
		var others []*c05Table
		for n := 1 + ctx.Pick(3); n > 0; n-- {
			others = append(others, c05T(withPK(rl()), pk))
		}
		cases = append(cases, Case{Tag: "coldiff", Nontrivial: true, C: c05Case(2, base, others, 0, 0, 0)})
	}
	return cases
}
