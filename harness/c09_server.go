package main

// c09_server.go - the in-process REFERENCE SERVER used by the C09 and C10 checks.
//
// The wrgl repository contains only the client half of the fetch/push protocol
// (pkg/api/client); the server lives in another repository.  This file is a
// small http.Handler over (objects.Store, ref.Store) assembled from the
// repository's own negotiation / sender / receiver code
// (apiutils.ClosedSetsFinder, apiutils.ObjectSender, apiutils.ObjectReceiver).
// It is part of the TRUSTED BASE of C09/C10: theorems and oracle verdicts are
// about the client composed with THIS server.
//
// Endpoints (paths, headers, content types as pkg/api/client/client.go expects):
//
//   GET  /refs/?prefix=..&notprefix=..   -> JSON {"refs": {name: hex}} of all non-remote-tracking refs
//   POST /upload-pack/   (JSON payload.UploadPackRequest; session per cookie "upload-pack-session-id")
//        state negotiate: finder.Process(wants, haves, done); while finder.Wants is non-empty and the
//                         client has not said done -> JSON {"acks": [...]}
//        state tables   : (only when TableBatch > 0) the tables selected for sending are offered in
//                         batches {"tableHaves": [...]}; tables the client acknowledges are not sent
//        state send     : one packfile (Content-Type application/x-wrgl-packfile) per request, each
//                         cut by ObjectSender at MaxPackfileSize; the session ends with the last one
//   POST /receive-pack/  (session per cookie "receive-pack-session-id")
//        JSON {updates, tableHaves}: first request fixes the updates; expected commits = update sums
//                         not yet stored.  Nothing expected -> the refs are applied and the report
//                         {"updates": ...} is returned at once.  Otherwise -> {"tableACKs": tables
//                         already stored}.
//        a request that names wants while a session exists starts a new session (fetch.Fetch retries a whole
//        exchange after an HTTP/2 stream error and keeps its cookie jar)
//   POST /receive-pack/ continued:
//        packfile (gzip) : ObjectReceiver.Receive; when every expected commit has arrived the refs
//                         are applied (once) and the report is returned, otherwise an empty JSON object.
//                         Packfiles that still follow are stored and answered with the same report: the
//                         client reads only the answer to its last packfile.  (A server that closed the
//                         session at the first report would make `wrgl push` fail after its refs were
//                         applied whenever the client - whose want lists come out in Go map order - still
//                         had a packfile to send.)
//
// THE REF UPDATE RULE OF THE REFERENCE SERVER (c09ApplyUpdates), per update (name, sum, oldSum),
// in sorted name order, independently of each other:
//   R1 compare-and-swap: the ref's current value must equal oldSum (absent <=> oldSum absent),
//      else rejected "remote ref updated since checkout";
//   R2 sum absent = delete the ref (rejected when DenyDeletes);
//   R3 the commit `sum` must be stored, else rejected "remote did not receive commit";
//   R4 when DenyNonFF is set and the ref exists, the old value must be an ancestor-or-self of sum
//      (ref.IsAncestorOf on the server's store), else rejected "remote does not support non-fast-forwards";
//   otherwise ref.SaveRef(name, sum) with action "receive-pack" (which logs old and new value).
// The protocol carries NO force bit (payload.Update has only sum/oldSum): whether a non-fast-forward
// push is allowed is decided by the client (identifyUpdates) against the ref values it read with
// GET /refs/; R1 guarantees those are the values the update is applied to.

import (
	"compress/gzip"
	"encoding/json"
	"fmt"
	"io"
	"net/http"
	"net/http/httptest"
	"sort"
	"sync"

	"github.com/go-logr/logr"
	"github.com/wrgl/wrgl/pkg/api"
	"github.com/wrgl/wrgl/pkg/api/payload"
	apiutils "github.com/wrgl/wrgl/pkg/api/utils"
	"github.com/wrgl/wrgl/pkg/encoding/packfile"
	"github.com/wrgl/wrgl/pkg/objects"
	"github.com/wrgl/wrgl/pkg/ref"
)

type c09Stats struct {
	RefsReqs         int
	UploadReqs       int  // POST /upload-pack/ requests (negotiation + table + packfile round trips)
	UploadNegRounds  int  // of which answered with ACKs
	UploadTblRounds  int  // of which answered with TableHaves
	UploadPackfiles  int  // of which answered with a packfile
	ReceiveReqs      int  // POST /receive-pack/ requests
	ReceivePackfiles int  // of which carried a packfile
	Errors           int  // requests answered with status >= 400
	Faults           int  // responses lost or cut by the fault layer
	Watchdog         bool // MaxRequests was exceeded
	UploadSessions   int  // upload-pack exchanges started (requests naming wants)
}

type c09UpSession struct {
	state      int // 0 negotiate, 1 tables, 2 send
	finder     *apiutils.ClosedSetsFinder
	commits    []*objects.Commit
	tables     map[string]struct{}
	candidates [][]byte
	sender     *apiutils.ObjectSender
}

type c09RpSession struct {
	updates  map[string]*payload.Update
	receiver *apiutils.ObjectReceiver
	report   map[string]*payload.Update // set once the refs have been applied
}

type c09Server struct {
	mu sync.Mutex // one request at a time
	db objects.Store
	rs ref.Store

	MaxPackfileSize uint64 // upload-pack packfile bound (0 = ObjectSender default 2 GiB)
	TableBatch      int    // tables offered per round in upload-pack; 0 = no table negotiation
	DenyNonFF       bool   // rule R4
	DenyDeletes     bool   // rule R2

	// Fault: lose ONE response of the exchange entirely (the request has been processed): the handler panics
	// with http.ErrAbortHandler before a byte is written - a closed connection on HTTP/1.1, RST_STREAM
	// INTERNAL_ERROR on HTTP/2.  Phase 1 = the answer to GET /refs/, 2 = the J-th JSON answer (status 200) of
	// an upload-pack / receive-pack POST, 3 = the answer of the packfile exchange that carries the J-th commit.
	FaultPhase, FaultJ int
	faultFired         bool
	// Persistent faults (EVERY packfile answer of upload-pack, on every attempt): 1 = the body is cut three bytes
	// before its end, i.e. inside the body of the last object; 2 = the answer is lost (reset/abort) every time.
	Persistent int
	// MaxRequests > 0 is the watchdog: once more requests than that have been served every further request is
	// answered 500 (not retryable) and Stats.Watchdog is set - a client that retries without bound is stopped
	// and reported instead of hanging the harness.
	MaxRequests     int
	requests        int
	jsonAnswers     int
	commitsSeen     int
	lastPackCommits int // commits in the packfile of the request being served, -1 = not a packfile exchange

	up     map[string]*c09UpSession
	rp     map[string]*c09RpSession
	nextID int
	Stats  c09Stats
}

func c09NewServer(db objects.Store, rs ref.Store) *c09Server {
	return &c09Server{db: db, rs: rs, up: map[string]*c09UpSession{}, rp: map[string]*c09RpSession{}}
}

func (s *c09Server) ServeHTTP(out http.ResponseWriter, r *http.Request) {
	s.mu.Lock()
	defer s.mu.Unlock()
	rw := httptest.NewRecorder()
	s.lastPackCommits = -1
	phase := 0
	s.requests++
	if s.MaxRequests > 0 && s.requests > s.MaxRequests {
		s.Stats.Watchdog = true
		s.fail(rw, http.StatusInternalServerError, "reference server watchdog: too many requests")
		for k, v := range rw.Header() {
			out.Header()[k] = v
		}
		out.WriteHeader(rw.Code)
		out.Write(rw.Body.Bytes())
		return
	}
	switch {
	case r.URL.Path == api.PathRefs && r.Method == http.MethodGet:
		s.getRefs(rw, r)
		phase = 1
	case r.URL.Path == api.PathUploadPack && r.Method == http.MethodPost:
		s.uploadPack(rw, r)
	case r.URL.Path == api.PathReceivePack && r.Method == http.MethodPost:
		s.receivePack(rw, r)
	default:
		s.fail(rw, http.StatusNotFound, "Not Found")
	}
	hit := false
	if phase == 1 {
		hit = s.FaultPhase == 1
	} else if s.lastPackCommits >= 0 {
		before := s.commitsSeen
		s.commitsSeen += s.lastPackCommits
		hit = s.FaultPhase == 3 && before < s.FaultJ && s.FaultJ <= s.commitsSeen
	} else if rw.Code == http.StatusOK && rw.Header().Get("Content-Type") == api.CTJSON {
		s.jsonAnswers++
		hit = s.FaultPhase == 2 && s.jsonAnswers == s.FaultJ
	}
	if hit && !s.faultFired {
		s.faultFired = true
		s.Stats.Faults++
		panic(http.ErrAbortHandler)
	}
	body := rw.Body.Bytes()
	if s.Persistent != 0 && r.URL.Path == api.PathUploadPack && rw.Header().Get("Content-Type") == api.CTPackfile {
		s.Stats.Faults++
		if s.Persistent == 2 {
			panic(http.ErrAbortHandler)
		}
		if len(body) > 3 {
			body = body[:len(body)-3]
		}
	}
	for k, v := range rw.Header() {
		out.Header()[k] = v
	}
	out.WriteHeader(rw.Code)
	out.Write(body)
}

func c09CountCommits(info *packfile.PackfileInfo) int {
	n := 0
	if info != nil {
		for _, o := range info.Objects {
			if o[0] == "commit" {
				n++
			}
		}
	}
	return n
}

func (s *c09Server) fail(rw *httptest.ResponseRecorder, code int, msg string) {
	s.Stats.Errors++
	rw.Header().Set("Content-Type", api.CTJSON)
	rw.WriteHeader(code)
	b, _ := json.Marshal(&payload.Error{Message: msg})
	rw.Write(b)
}

func (s *c09Server) json(rw *httptest.ResponseRecorder, v interface{}) {
	b, err := json.Marshal(v)
	if err != nil {
		s.fail(rw, http.StatusInternalServerError, err.Error())
		return
	}
	rw.Header().Set("Content-Type", api.CTJSON)
	rw.WriteHeader(http.StatusOK)
	rw.Write(b)
}

func (s *c09Server) newID(kind string) string {
	s.nextID++
	return fmt.Sprintf("%s-%d", kind, s.nextID)
}

func (s *c09Server) getRefs(rw *httptest.ResponseRecorder, r *http.Request) {
	s.Stats.RefsReqs++
	q := r.URL.Query()
	m, err := ref.ListLocalRefs(s.rs, q["prefix"], q["notprefix"])
	if err != nil {
		s.fail(rw, http.StatusInternalServerError, err.Error())
		return
	}
	resp := &payload.GetRefsResponse{Refs: map[string]*payload.Hex{}}
	for k, v := range m {
		resp.Refs[k] = payload.BytesToHex(v)
	}
	s.json(rw, resp)
}

// ---------------------------------------------------------------- upload-pack

func (s *c09Server) uploadPack(rw *httptest.ResponseRecorder, r *http.Request) {
	s.Stats.UploadReqs++
	if r.Header.Get("Content-Type") != api.CTJSON {
		s.fail(rw, http.StatusUnsupportedMediaType, "json expected")
		return
	}
	b, err := io.ReadAll(r.Body)
	if err != nil {
		s.fail(rw, http.StatusBadRequest, err.Error())
		return
	}
	req := &payload.UploadPackRequest{}
	if err := json.Unmarshal(b, req); err != nil {
		s.fail(rw, http.StatusBadRequest, err.Error())
		return
	}
	var sid string
	var ses *c09UpSession
	if c, err := r.Cookie(api.CookieUploadPackSession); err == nil {
		sid = c.Value
		ses = s.up[sid]
	}
	if len(req.Wants) > 0 {
		s.Stats.UploadSessions++
	}
	if ses != nil && len(req.Wants) > 0 {
		// wants come with the first request of a session only: a client that names wants again (fetch.Fetch
		// retrying after a stream error, with the old cookie still in its jar) starts a new session
		delete(s.up, sid)
		ses = nil
	}
	if ses == nil {
		if len(req.Wants) == 0 {
			s.fail(rw, http.StatusBadRequest, "empty wants list")
			return
		}
		sid = s.newID("up")
		ses = &c09UpSession{finder: apiutils.NewClosedSetsFinder(s.db, s.rs, req.Depth)}
		s.up[sid] = ses
		http.SetCookie(rw, &http.Cookie{Name: api.CookieUploadPackSession, Value: sid, Path: api.PathUploadPack})
	}
	drop := func() {
		delete(s.up, sid)
		http.SetCookie(rw, &http.Cookie{Name: api.CookieUploadPackSession, Value: "", Path: api.PathUploadPack, MaxAge: -1})
	}
	switch ses.state {
	case 0:
		acks, err := ses.finder.Process(payload.HexSliceToBytesSlice(req.Wants), payload.HexSliceToBytesSlice(req.Haves), req.Done)
		if err != nil {
			drop()
			s.fail(rw, http.StatusBadRequest, err.Error())
			return
		}
		if len(ses.finder.Wants) > 0 && !req.Done {
			s.Stats.UploadNegRounds++
			s.json(rw, &payload.UploadPackResponse{ACKs: payload.BytesSliceToHexSlice(acks)})
			return
		}
		if ses.commits, err = ses.finder.CommitsToSend(); err == nil {
			ses.tables, err = ses.finder.TablesToSend()
		}
		if err != nil {
			drop()
			s.fail(rw, http.StatusInternalServerError, err.Error())
			return
		}
		keys := make([]string, 0, len(ses.tables))
		for k := range ses.tables {
			keys = append(keys, k)
		}
		sort.Strings(keys)
		for _, k := range keys {
			ses.candidates = append(ses.candidates, []byte(k))
		}
		ses.state = 1
	case 1:
		for _, h := range req.TableACKs {
			if h != nil {
				delete(ses.tables, string((*h)[:]))
			}
		}
	}
	if ses.state == 1 {
		if s.TableBatch > 0 && len(ses.candidates) > 0 {
			n := s.TableBatch
			if n > len(ses.candidates) {
				n = len(ses.candidates)
			}
			batch := ses.candidates[:n]
			ses.candidates = ses.candidates[n:]
			s.Stats.UploadTblRounds++
			s.json(rw, &payload.UploadPackResponse{TableHaves: payload.BytesSliceToHexSlice(batch)})
			return
		}
		var err error
		ses.sender, err = apiutils.NewObjectSender(s.db, ses.commits, ses.tables, ses.finder.CommonCommmits(), s.MaxPackfileSize)
		if err != nil {
			drop()
			s.fail(rw, http.StatusInternalServerError, err.Error())
			return
		}
		ses.state = 2
	}
	// state send: one packfile per request
	s.Stats.UploadPackfiles++
	buf := &c09Buf{}
	done, info, err := ses.sender.WriteObjects(buf, nil)
	if err != nil {
		drop()
		s.fail(rw, http.StatusInternalServerError, err.Error())
		return
	}
	s.lastPackCommits = c09CountCommits(info)
	if done {
		drop()
	}
	rw.Header().Set("Content-Type", api.CTPackfile)
	rw.WriteHeader(http.StatusOK)
	rw.Write(buf.b)
}

type c09Buf struct{ b []byte }

func (b *c09Buf) Write(p []byte) (int, error) { b.b = append(b.b, p...); return len(p), nil }

// --------------------------------------------------------------- receive-pack

func (s *c09Server) receivePack(rw *httptest.ResponseRecorder, r *http.Request) {
	s.Stats.ReceiveReqs++
	var sid string
	var ses *c09RpSession
	if c, err := r.Cookie(api.CookieReceivePackSession); err == nil {
		sid = c.Value
		ses = s.rp[sid]
	}
	drop := func() {
		delete(s.rp, sid)
		http.SetCookie(rw, &http.Cookie{Name: api.CookieReceivePackSession, Value: "", Path: api.PathReceivePack, MaxAge: -1})
	}
	switch r.Header.Get("Content-Type") {
	case api.CTJSON:
		b, err := io.ReadAll(r.Body)
		if err != nil {
			s.fail(rw, http.StatusBadRequest, err.Error())
			return
		}
		req := &payload.ReceivePackRequest{}
		if err := json.Unmarshal(b, req); err != nil {
			s.fail(rw, http.StatusBadRequest, err.Error())
			return
		}
		if ses == nil {
			if len(req.Updates) == 0 {
				s.fail(rw, http.StatusBadRequest, "no updates")
				return
			}
			ses = &c09RpSession{updates: req.Updates}
			expected := [][]byte{}
			for _, u := range req.Updates {
				if u.Sum != nil && !objects.CommitExist(s.db, (*u.Sum)[:]) {
					expected = append(expected, (*u.Sum)[:])
				}
			}
			if len(expected) == 0 {
				s.json(rw, &payload.ReceivePackResponse{Updates: c09ApplyUpdates(s.db, s.rs, ses.updates, s.DenyNonFF, s.DenyDeletes)})
				return
			}
			ses.receiver = apiutils.NewObjectReceiver(s.db, expected, logr.Discard())
			sid = s.newID("rp")
			s.rp[sid] = ses
			http.SetCookie(rw, &http.Cookie{Name: api.CookieReceivePackSession, Value: sid, Path: api.PathReceivePack})
		}
		acks := [][]byte{}
		for _, h := range req.TableHaves {
			if h != nil && objects.TableExist(s.db, (*h)[:]) {
				acks = append(acks, (*h)[:])
			}
		}
		s.json(rw, &payload.ReceivePackResponse{TableACKs: payload.BytesSliceToHexSlice(acks)})
	case api.CTPackfile:
		if ses == nil {
			s.fail(rw, http.StatusBadRequest, "no receive-pack session")
			return
		}
		s.Stats.ReceivePackfiles++
		var body io.ReadCloser = r.Body
		if r.Header.Get("Content-Encoding") == "gzip" {
			gz, err := gzip.NewReader(r.Body)
			if err != nil {
				drop()
				s.fail(rw, http.StatusBadRequest, err.Error())
				return
			}
			body = gz
		}
		pr, err := packfile.NewPackfileReader(body)
		if err != nil {
			drop()
			s.fail(rw, http.StatusBadRequest, err.Error())
			return
		}
		done, err := ses.receiver.Receive(pr, nil)
		if err != nil {
			drop()
			s.fail(rw, http.StatusBadRequest, err.Error())
			return
		}
		s.lastPackCommits = c09CountCommits(pr.Info)
		if !done {
			s.json(rw, &payload.ReceivePackResponse{})
			return
		}
		// Everything the server expected has arrived: apply the refs once.  The client may still have
		// packfiles to send (objects for commits the server already had but the client could not know
		// about); it only reads the report that answers its LAST packfile, so the session stays open and
		// every later packfile is stored and answered with the same report.
		if ses.report == nil {
			ses.report = c09ApplyUpdates(s.db, s.rs, ses.updates, s.DenyNonFF, s.DenyDeletes)
		}
		s.json(rw, &payload.ReceivePackResponse{Updates: ses.report})
	default:
		s.fail(rw, http.StatusUnsupportedMediaType, "json or packfile expected")
	}
}

// c09ApplyUpdates is the reference server's ref update rule R1-R4 (see the top of this file).
func c09ApplyUpdates(db objects.Store, rs ref.Store, updates map[string]*payload.Update, denyNonFF, denyDeletes bool) map[string]*payload.Update {
	names := make([]string, 0, len(updates))
	for k := range updates {
		names = append(names, k)
	}
	sort.Strings(names)
	report := map[string]*payload.Update{}
	for _, name := range names {
		u := updates[name]
		res := &payload.Update{Sum: u.Sum, OldSum: u.OldSum}
		report[name] = res
		cur, err := ref.GetRef(rs, name)
		if err != nil {
			cur = nil
		}
		var old []byte
		if u.OldSum != nil {
			old = (*u.OldSum)[:]
		}
		switch {
		case string(cur) != string(old) || (cur == nil) != (old == nil):
			res.ErrMsg = "remote ref updated since checkout" // R1
		case u.Sum == nil:
			if denyDeletes {
				res.ErrMsg = "remote does not support deleting refs" // R2
			} else if err := ref.DeleteRef(rs, name); err != nil {
				res.ErrMsg = "failed to delete ref"
			}
		case !objects.CommitExist(db, (*u.Sum)[:]):
			res.ErrMsg = "remote did not receive commit" // R3
		default:
			sum := (*u.Sum)[:]
			if cur != nil && denyNonFF {
				ff, err := ref.IsAncestorOf(db, cur, sum)
				if err != nil || !ff {
					res.ErrMsg = "remote does not support non-fast-forwards" // R4
					continue
				}
			}
			if err := ref.SaveRef(rs, name, sum, "reference-server", "server@example.com", "receive-pack", "update ref", nil); err != nil {
				res.ErrMsg = "failed to update ref"
			}
		}
	}
	return report
}
