package main

import (
	"bytes"
	"fmt"
	"io"
	"math"
	"runtime"
	"runtime/metrics"
	"sort"
	"time"

	"github.com/go-logr/logr"
	"github.com/klauspost/compress/s2"
	"github.com/pckhoi/meow"
	apiutils "github.com/wrgl/wrgl/pkg/api/utils"
	"github.com/wrgl/wrgl/pkg/encoding"
	"github.com/wrgl/wrgl/pkg/encoding/packfile"
	"github.com/wrgl/wrgl/pkg/encoding/pktline"
	"github.com/wrgl/wrgl/pkg/objects"
	objmock "github.com/wrgl/wrgl/pkg/objects/mock"

	"verifharness/xt"
)

// C17: malformed or hostile bytes are rejected with an error: never a panic, never a loop,
// never allocation out of proportion to the input.
// Model: coq/model/Dec*.v through run_C17 (coq/model/DecRun.v), which documents the formats:
//   case = (entry bytes), entry
//      0 ValidateStrListBytes -> n       1 ValidateBlockBytes -> ()
//      2 StrListDecoder.Read             3 StrListDecoder.ReadBytes -> bytes
//      4 ValidateStrListBytes, then StrListDecoder.Decode if it validated
//      5 ReadBlockFrom  6 Table.ReadFrom  7 BlockIndex.ReadFrom  8 Commit.ReadFrom
//      9 TableProfile.ReadFrom  10 decodeObjTypeAndLen -> (type u)
//      11 PackfileReader.ReadObject once after a valid header -> (type body)
//      12 NewPackfileReader + ReadObject until failure   13 ReadPktLine
//      14 UintListDecoder.Read   15 FloatListDecoder.Read
//      16 / 17 / 18 = 2 / 3 / 4 with NewStrListDecoder(true); 19 = 14 with NewUintListDecoder(true);
//      21 = 15 with NewFloatListDecoder(true)   (the reuse branch of strSlice / make*Slice)
//   case = (22 commitbytes cut nparents): Commit.ReadFrom on commitbytes[:cut] of a VALID commit;
//   case = (23 tablebytes cut): Table.ReadFrom on tablebytes[:cut] of a VALID table.
//      Oracle: a strict prefix is accepted only if it is itself a complete encoding (a commit cut
//      at the end of the message line or of a whole parent line); any other cut must be rejected.
//   obs  = (0 value) | (1) | (2)         0 ok, 1 error, 2 panic; values as in c18.go
//   case = (20 packfile ((content sum)...) ((compressed decoded)...) ((blocksum (pk...) idxsum)...))
//      ObjectReceiver.Receive into an empty objmock store; the tables are meow.Checksum,
//      s2.Decode (absent = corrupt) and block-index sums of what the packfile contains.
//   obs  = (status (blk...) (blkidx...) (tbl...) (tblidx...) (tblsum...) (com...)) sorted keys
// Oracle (independent of the model): status is 0 or 1; bytes allocated during the call
// <= 64*len(input) + 1 MiB; the call returns within 60 s; after Receive every stored table has
// all its blocks, block indices, table index and profile, every stored block decompresses
// and validates, every stored commit has its parents.

func init() { props["C17"] = &Prop{Gen: genC17, Run: runC17} }

const c17Receive = 20

var c17PackHdr = []byte("PACK\x00\x00\x00\x01")

func c17Err() *xt.T { return xt.N(xt.LI(1)) }

func c17Entry(entry int, b []byte) *xt.T {
	switch entry {
	case 0:
		n, err := objects.ValidateStrListBytes(b)
		if err != nil {
			return c17Err()
		}
		return c18Ok(xt.LI(n))
	case 1:
		if err := objects.ValidateBlockBytes(b); err != nil {
			return c17Err()
		}
		return c18Ok(xt.N())
	case 2:
		_, sl, err := objects.NewStrListDecoder(false).Read(bytes.NewReader(b))
		if err != nil {
			return c17Err()
		}
		return c18Ok(xt.Strs(sl))
	case 3:
		_, raw, err := objects.NewStrListDecoder(false).ReadBytes(bytes.NewReader(b))
		if err != nil {
			return c17Err()
		}
		return c18Ok(xt.Bytes(raw))
	case 4:
		if _, err := objects.ValidateStrListBytes(b); err != nil {
			return c17Err()
		}
		return c18Ok(xt.Strs(objects.NewStrListDecoder(false).Decode(b)))
	case 16:
		_, sl, err := objects.NewStrListDecoder(true).Read(bytes.NewReader(b))
		if err != nil {
			return c17Err()
		}
		return c18Ok(xt.Strs(sl))
	case 17:
		_, raw, err := objects.NewStrListDecoder(true).ReadBytes(bytes.NewReader(b))
		if err != nil {
			return c17Err()
		}
		return c18Ok(xt.Bytes(raw))
	case 18:
		if _, err := objects.ValidateStrListBytes(b); err != nil {
			return c17Err()
		}
		return c18Ok(xt.Strs(objects.NewStrListDecoder(true).Decode(b)))
	case 19:
		_, sl, err := objects.NewUintListDecoder(true).Read(bytes.NewReader(b))
		if err != nil {
			return c17Err()
		}
		return c18Ok(xt.U32s(sl))
	case 21:
		_, sl, err := objects.NewFloatListDecoder(true).Read(bytes.NewReader(b))
		if err != nil {
			return c17Err()
		}
		l := xt.N()
		for _, f := range sl {
			l.Add(xt.L(math.Float64bits(f)))
		}
		return c18Ok(l)
	case 10:
		ot, u, err := packfile.VerifDecodeObjTypeAndLen(bytes.NewReader(b))
		if err != nil {
			return c17Err()
		}
		return c18Ok(xt.N(xt.LI(ot), xt.L(u)))
	case 11:
		pr, err := packfile.NewPackfileReader(io.NopCloser(bytes.NewReader(append(append([]byte{}, c17PackHdr...), b...))))
		if err != nil {
			panic(err)
		}
		ot, body, err := pr.ReadObject()
		if err != nil {
			return c17Err()
		}
		return c18Ok(xt.N(xt.LI(ot), xt.Bytes(body)))
	case 13:
		s, err := pktline.ReadPktLine(encoding.NewParser(bytes.NewReader(b)))
		if err != nil {
			return c17Err()
		}
		return c18Ok(xt.Str(s))
	}
	kind := map[int]int{5: 4, 6: 3, 7: 5, 8: 2, 9: 7, 12: 0, 14: 6, 15: 9, 22: 2, 23: 3}[entry]
	o := c18Decode(kind, bytes.NewReader(b))
	if o.Kids[0].N == 1 {
		return c17Err()
	}
	return o
}

// c17Guarded runs f in its own goroutine under recover, with a timeout and an allocation
// measurement (exact = runtime.ReadMemStats, else the same counter through runtime/metrics).
func c17Guarded(exact bool, f func() *xt.T) (obs *xt.T, panicMsg string, alloc uint64, timedOut bool) {
	type result struct {
		obs *xt.T
		msg string
	}
	ch := make(chan result, 1)
	sample := []metrics.Sample{{Name: "/gc/heap/allocs:bytes"}}
	var m0, m1 runtime.MemStats
	var a0 uint64
	if exact {
		runtime.ReadMemStats(&m0)
		a0 = m0.TotalAlloc
	} else {
		metrics.Read(sample)
		a0 = sample[0].Value.Uint64()
	}
	go func() {
		defer func() {
			if r := recover(); r != nil {
				ch <- result{xt.N(xt.LI(2)), fmt.Sprint(r)}
			}
		}()
		ch <- result{f(), ""}
	}()
	select {
	case r := <-ch:
		obs, panicMsg = r.obs, r.msg
	case <-time.After(60 * time.Second):
		return xt.N(xt.LI(3)), "", 0, true
	}
	if exact {
		runtime.ReadMemStats(&m1)
		alloc = m1.TotalAlloc - a0
	} else {
		metrics.Read(sample)
		alloc = sample[0].Value.Uint64() - a0
	}
	return
}

// c17GuardedMin is c17Guarded for a repeatable f: the process-wide allocation counter also sees
// whatever the runtime and earlier cases' leftovers allocate meanwhile (and the cheap counter is
// flushed in batches), so an overshoot is confirmed by a second, exact measurement and the
// smaller of the two deltas is what the deterministic call is charged.
func c17GuardedMin(exact bool, budget uint64, f func() *xt.T) (obs *xt.T, panicMsg string, alloc uint64, timedOut bool) {
	obs, panicMsg, alloc, timedOut = c17Guarded(exact, f)
	if alloc > budget && panicMsg == "" && !timedOut {
		obs2, p2, a2, t2 := c17Guarded(true, f)
		if p2 != "" || t2 || a2 < alloc {
			return obs2, p2, a2, t2
		}
	}
	return
}

func c17Budget(n int) uint64 { return 64*uint64(n) + 1<<20 }

func runC17(ctx *Ctx, c *xt.T) (*xt.T, Verdict) {
	entry := int(c.Kids[0].N)
	b := c.Kids[1].AsBytes()
	if entry == c17Receive {
		var fp [3]int
		if len(c.Kids) > 5 {
			for i := 0; i < 3; i++ {
				fp[i] = int(c.Kids[5].Kids[i].N)
			}
		}
		return c17RunReceive(b, fp)
	}
	if entry >= 30 && entry <= 35 {
		return c17RunStore(entry, b, c.Kids[2].N != 0)
	}
	switch entry {
	case 40:
		return c17RunHex(b)
	case 41:
		return c17RunJSON(b, int(c.Kids[2].N))
	case 42:
		return c17RunClient(b, int(c.Kids[2].N), int(c.Kids[3].N))
	}
	full := b
	if entry == 22 || entry == 23 {
		b = b[:int(c.Kids[2].N)]
	}
	obs, pmsg, alloc, timedOut := c17GuardedMin(len(b) > 5, c17Budget(len(b)), func() *xt.T { return c17Entry(entry, b) })
	switch {
	case timedOut:
		return obs, Fail("decoder-timeout", "entry %d did not return within 60s on %d bytes", entry, len(b))
	case pmsg != "":
		return obs, Fail("decoder-panic", "entry %d panicked on %x: %s", entry, b, pmsg)
	case alloc > c17Budget(len(b)):
		return obs, Fail("decoder-alloc", "entry %d allocated %d bytes for %d input bytes", entry, alloc, len(b))
	}
	if entry == 22 || entry == 23 {
		// which cuts leave a complete encoding is known from the structure of the seed alone
		complete := len(b) == len(full)
		if entry == 22 {
			for j := 0; j <= int(c.Kids[3].N); j++ {
				if len(b) == len(full)-24*j { // "parent " + 16 bytes + "\n"
					complete = true
				}
			}
		}
		accepted := obs.Kids[0].N == 0
		switch {
		case accepted && !complete:
			return obs, Fail("truncated-object-accepted", "entry %d accepted the first %d of %d bytes of a valid encoding, which end inside a field: %x", entry, len(b), len(full), b)
		case !accepted && complete:
			return obs, Fail("complete-object-rejected", "entry %d rejected a complete encoding (%d of %d bytes)", entry, len(b), len(full))
		}
	}
	return obs, OK()
}

// ---------- Receive ----------

var c17Prefixes = []string{"blk/", "blkidx/", "tbl/", "tblidx/", "tblsum/", "com/"}

func c17Keys(db *objmock.Store, prefix string) [][]byte {
	ks, _ := db.FilterKey([]byte(prefix))
	out := make([][]byte, len(ks))
	for i, k := range ks {
		out[i] = k[len(prefix):]
	}
	sort.Slice(out, func(i, j int) bool { return bytes.Compare(out[i], out[j]) < 0 })
	return out
}

// c17S2Announced is the largest decoded length announced by the s2 header of a block
// object of the packfile.
func c17S2Announced(pack []byte) uint64 {
	var best uint64
	func() {
		defer func() { recover() }()
		pr, err := packfile.NewPackfileReader(io.NopCloser(bytes.NewReader(pack)))
		if err != nil {
			return
		}
		for i := 0; i < 1<<16; i++ {
			ot, b, err := pr.ReadObject()
			if err != nil {
				return
			}
			if ot == packfile.ObjectBlock {
				if n, err := s2.DecodedLen(b); err == nil && uint64(n) > best {
					best = uint64(n)
				}
			}
		}
	}()
	return best
}

func c17S2Excess(pack []byte) bool { return c17S2Announced(pack) > c17Budget(len(pack)) }

// c17Receive1 runs Receive once over a fresh fault store (no measurement).
func c17Receive1(pack []byte, fp [3]int) (err error, db *objmock.Store, fs *c17FaultStore) {
	db = objmock.NewStore()
	fs = &c17FaultStore{Store: db, setAt: fp[0] - 1, kind: fp[1] - 1, getAt: fp[2] - 1}
	defer func() {
		if r := recover(); r != nil {
			err = fmt.Errorf("panic: %v", r)
		}
	}()
	pr, e := packfile.NewPackfileReader(io.NopCloser(bytes.NewReader(pack)))
	if e != nil {
		return e, db, fs
	}
	_, err = apiutils.NewObjectReceiver(fs, nil, logr.Discard()).Receive(pr, nil)
	return err, db, fs
}

func c17RunReceive(pack []byte, fp [3]int) (*xt.T, Verdict) {
	obs, v := c17RunReceive1(pack, fp)
	if !v.OK && v.Class == "receive-alloc" {
		// confirm an allocation overshoot on a fresh store (see c17GuardedMin)
		return c17RunReceive1(pack, fp)
	}
	return obs, v
}

func c17RunReceive1(pack []byte, fp [3]int) (*xt.T, Verdict) {
	db := objmock.NewStore()
	fs := &c17FaultStore{Store: db, setAt: fp[0] - 1, kind: fp[1] - 1, getAt: fp[2] - 1}
	if !bytes.Equal(pack, c17S2Witness) && c17S2Announced(pack) > c17Predict {
		// one real 4 GiB allocation per run (the fixed witness) is enough: classify the others
		// from the announced length without running Receive
		return xt.N(xt.LI(1)), Fail("receive-alloc-s2", "not run: a block object of this %d-byte packfile announces %d decoded bytes, which s2.Decode allocates before decoding", len(pack), c17S2Announced(pack))
	}
	var rerr error
	obs, pmsg, alloc, timedOut := c17Guarded(true, func() *xt.T {
		pr, err := packfile.NewPackfileReader(io.NopCloser(bytes.NewReader(pack)))
		if err != nil {
			rerr = err
			return nil
		}
		rc := apiutils.NewObjectReceiver(fs, nil, logr.Discard())
		_, rerr = rc.Receive(pr, nil)
		return nil
	})
	status := 0
	if rerr != nil {
		status = 1
	}
	if pmsg != "" {
		status = 2
	}
	if timedOut {
		return obs, Fail("receive-timeout", "Receive did not return within 60s")
	}
	obs = xt.N(xt.LI(status))
	for _, p := range c17Prefixes {
		obs.Add(c18ByteSlices(c17Keys(db, p)))
	}
	v := OK()
	bad := func(class, format string, a ...interface{}) {
		if v.OK {
			v = Fail(class, format, a...)
		}
	}
	if pmsg != "" {
		bad("receive-panic", "Receive panicked: %s", pmsg)
	}
	if alloc > c17Budget(len(pack)) {
		if c17S2Excess(pack) {
			bad("receive-alloc-s2", "Receive allocated %d bytes for a %d-byte packfile (s2 header announces a huge block)", alloc, len(pack))
		} else {
			bad("receive-alloc", "Receive allocated %d bytes for a %d-byte packfile", alloc, len(pack))
		}
	}
	// closure of what is stored
	for _, k := range c17Keys(db, "blk/") {
		comp, _ := db.Get(append([]byte("blk/"), k...))
		raw, err := s2.Decode(nil, comp)
		if err != nil {
			bad("receive-invalid-block", "stored block %x does not decompress", k)
		} else if err := objects.ValidateBlockBytes(raw); err != nil {
			bad("receive-invalid-block", "stored block %x does not validate", k)
		}
	}
	for _, k := range c17Keys(db, "tbl/") {
		tb, _ := db.Get(append([]byte("tbl/"), k...))
		_, tbl, err := objects.ReadTableFrom(bytes.NewReader(tb))
		if err != nil {
			bad("receive-dangling-table", "stored table %x does not decode", k)
			continue
		}
		for _, s := range tbl.Blocks {
			if !db.Exist(append([]byte("blk/"), s...)) {
				bad("receive-dangling-table", "stored table %x references missing block %x", k, s)
			}
		}
		for _, s := range tbl.BlockIndices {
			if !db.Exist(append([]byte("blkidx/"), s...)) {
				bad("receive-dangling-table", "stored table %x references missing block index %x", k, s)
			}
		}
		if !db.Exist(append([]byte("tblidx/"), k...)) || !db.Exist(append([]byte("tblsum/"), k...)) {
			bad("receive-dangling-table", "stored table %x has no table index / profile", k)
		}
	}
	for _, k := range c17Keys(db, "com/") {
		cb, _ := db.Get(append([]byte("com/"), k...))
		_, com, err := objects.ReadCommitFrom(bytes.NewReader(cb))
		if err != nil {
			bad("receive-dangling-commit", "stored commit %x does not decode", k)
			continue
		}
		for _, p := range com.Parents {
			if !db.Exist(append([]byte("com/"), p...)) {
				bad("receive-dangling-commit", "stored commit %x has missing parent %x", k, p)
			}
		}
	}
	return obs, v
}

type c17Obj struct {
	typ     int
	payload []byte
}

func c17Pack(objs []c17Obj) []byte {
	buf := bytes.NewBuffer(nil)
	pw, err := packfile.NewPackfileWriter(buf)
	if err != nil {
		panic(err)
	}
	for _, o := range objs {
		if _, err := pw.WriteObject(o.typ, o.payload); err != nil {
			panic(err)
		}
	}
	return append([]byte{}, buf.Bytes()...)
}

func c17Meow(b []byte) []byte {
	a := meow.Checksum(0, b)
	return a[:]
}

// c17ReceiveCase tabulates the outside-world functions (hash, s2, block-index sums) on the
// objects the packfile actually contains and builds the case.
func c17ReceiveCase(pack []byte) *xt.T {
	hmap, zmap, imap := xt.N(), xt.N(), xt.N()
	type blkT struct {
		sum  []byte
		rows [][]string
	}
	var blks []blkT
	var pks [][]uint32
	seen := map[string]bool{}
	// the implementation is only used to find the payloads on which to tabulate the
	// outside-world functions; a panic here must not kill case generation (Run reports it)
	perObject := func(ot int, b []byte) {
		defer func() { recover() }()
		switch ot {
		case packfile.ObjectBlock:
			if n, e := s2.DecodedLen(b); e == nil && n > 1<<26 {
				return
			}
			raw, err := s2.Decode(nil, b)
			if err != nil {
				return
			}
			if !seen["z"+string(b)] {
				seen["z"+string(b)] = true
				zmap.Add(xt.N(xt.Bytes(b), xt.Bytes(raw)))
			}
			if !seen["h"+string(raw)] {
				seen["h"+string(raw)] = true
				hmap.Add(xt.N(xt.Bytes(raw), xt.Bytes(c17Meow(raw))))
			}
			if objects.ValidateBlockBytes(raw) == nil {
				if _, rows, err := objects.ReadBlockFrom(bytes.NewReader(raw)); err == nil {
					blks = append(blks, blkT{c17Meow(raw), rows})
				}
			}
		case packfile.ObjectTable, packfile.ObjectCommit:
			if !seen["h"+string(b)] {
				seen["h"+string(b)] = true
				hmap.Add(xt.N(xt.Bytes(b), xt.Bytes(c17Meow(b))))
			}
			if ot == packfile.ObjectTable {
				if _, tbl, err := objects.ReadTableFrom(bytes.NewReader(b)); err == nil {
					pks = append(pks, tbl.PK)
				}
			}
		}
	}
	func() {
		defer func() { recover() }()
		pr, err := packfile.NewPackfileReader(io.NopCloser(bytes.NewReader(pack)))
		if err != nil {
			return
		}
		for i := 0; i < 1<<16; i++ {
			ot, b, err := pr.ReadObject()
			if err != nil {
				return
			}
			perObject(ot, b)
		}
	}()
	for _, blk := range blks {
		for _, pk := range pks {
			key := fmt.Sprintf("i%x/%v", blk.sum, pk)
			if seen[key] || len(blk.rows) == 0 {
				continue
			}
			seen[key] = true
			safe := true
			for _, row := range blk.rows {
				for _, k := range pk {
					if int(k) >= len(row) {
						safe = false
					}
				}
			}
			if !safe {
				continue
			}
			imap.Add(xt.N(xt.Bytes(blk.sum), xt.U32s(pk), xt.Bytes(c17Meow(c18BlockIndexBytes(blk.rows, pk)))))
		}
	}
	return xt.N(xt.LI(c17Receive), xt.Bytes(pack), hmap, zmap, imap)
}

// c17World builds a consistent set of objects: blocks, tables over them, a commit chain.
type c17World struct {
	blocks  []c17Obj // compressed block objects
	blkSums [][]byte
	tables  []c17Obj
	tblSums [][]byte
	commits []c17Obj
}

func c17TableFor(cols []string, pk []uint32, blocks [][][]string) (tbl []byte, blkObjs []c17Obj, blkSums [][]byte) {
	var sums, idxs [][]byte
	rows := 0
	for _, rowsOf := range blocks {
		raw := c18BlockBytes(rowsOf)
		blkObjs = append(blkObjs, c17Obj{packfile.ObjectBlock, s2.EncodeBetter(nil, raw)})
		sums = append(sums, c17Meow(raw))
		idxs = append(idxs, c17Meow(c18BlockIndexBytes(rowsOf, pk)))
		rows += len(rowsOf)
	}
	if len(blocks) > 0 {
		rows = (len(blocks)-1)*255 + 1 // any count whose block count is len(blocks)
	}
	return c18TableBytes(cols, pk, uint32(rows), sums, idxs), blkObjs, sums
}

func c17NewWorld(ctx *Ctx) *c17World {
	w := &c17World{}
	nt := 1 + ctx.Pick(2)
	for t := 0; t < nt; t++ {
		ncols := 1 + ctx.Pick(3)
		cols := make([]string, ncols)
		for i := range cols {
			cols[i] = fmt.Sprintf("c%d", i)
		}
		var pk []uint32
		if ctx.Pick(3) > 0 {
			pk = []uint32{uint32(ctx.Pick(ncols))}
		}
		nb := 1 + ctx.Pick(2)
		var blocks [][][]string
		for i := 0; i < nb; i++ {
			blocks = append(blocks, c18Rows(ctx, 1+ctx.Pick(3), ncols))
		}
		tb, objs, sums := c17TableFor(cols, pk, blocks)
		w.blocks = append(w.blocks, objs...)
		w.blkSums = append(w.blkSums, sums...)
		w.tables = append(w.tables, c17Obj{packfile.ObjectTable, tb})
		w.tblSums = append(w.tblSums, c17Meow(tb))
	}
	var parent []byte
	nc := 1 + ctx.Pick(3)
	for i := 0; i < nc; i++ {
		var parents [][]byte
		if parent != nil {
			parents = [][]byte{parent}
		}
		cb := c18CommitBytes(ctx, parents)
		w.commits = append(w.commits, c17Obj{packfile.ObjectCommit, cb})
		parent = c17Meow(cb)
	}
	return w
}

func (w *c17World) all() []c17Obj {
	var objs []c17Obj
	objs = append(objs, w.blocks...)
	objs = append(objs, w.tables...)
	objs = append(objs, w.commits...)
	return objs
}

func c17ReceiveWitnesses() [][]byte {
	var out [][]byte
	// fixed 427cc6f: (a) table over an empty block, (b) pk beyond the row, (c) row width != columns
	tb, objs, _ := c17TableFor([]string{"a"}, []uint32{0}, [][][]string{{}})
	out = append(out, c17Pack(append(objs, c17Obj{packfile.ObjectTable, tb})))
	raw := c18BlockBytes([][]string{{"x"}})
	blk := c17Obj{packfile.ObjectBlock, s2.EncodeBetter(nil, raw)}
	tb2 := c18TableBytes([]string{"a"}, []uint32{5}, 1, [][]byte{c17Meow(raw)}, [][]byte{make([]byte, 16)})
	out = append(out, c17Pack([]c17Obj{blk, {packfile.ObjectTable, tb2}}))
	tb3, objs3, _ := c17TableFor([]string{"a", "b"}, []uint32{0}, [][][]string{{{"x"}}})
	out = append(out, c17Pack(append(objs3, c17Obj{packfile.ObjectTable, tb3})))
	raw4 := c18BlockBytes([][]string{{"x", "y"}})
	idx4 := c17Meow(c18BlockIndexBytes([][]string{{"x", "y"}}, []uint32{0}))
	tb4 := c18TableBytes([]string{"a"}, []uint32{0}, 1, [][]byte{c17Meow(raw4)}, [][]byte{idx4})
	out = append(out, c17Pack([]c17Obj{{packfile.ObjectBlock, s2.EncodeBetter(nil, raw4)}, {packfile.ObjectTable, tb4}}))
	return out
}

func c17GenReceive(ctx *Ctx, add func(tag string, nt bool, c *xt.T)) {
	for _, p := range c17ReceiveWitnesses() {
		add("recv-witness", true, c17ReceiveCase(p))
	}
	// primary-key indices at every boundary of the column count, over well-formed blocks
	for ncols := 1; ncols <= 3; ncols++ {
		cols := make([]string, ncols)
		for i := range cols {
			cols[i] = fmt.Sprintf("c%d", i)
		}
		rows := c18Rows(ctx, 1+ctx.Pick(3), ncols)
		raw := c18BlockBytes(rows)
		blk := c17Obj{packfile.ObjectBlock, s2.EncodeBetter(nil, raw)}
		n := uint32(ncols)
		for _, pk := range [][]uint32{
			{n - 1}, {n}, {n + 1}, {1 << 31}, {1<<32 - 1}, {0, 0}, {n - 1, n - 1}, {n - 1, n}, {n, n - 1},
			{0, n}, {n, n}, {0, 1<<32 - 1}, {n - 1, n + 1}, {},
		} {
			idx := make([]byte, 16)
			inRange := true
			for _, k := range pk {
				if k >= n {
					inRange = false
				}
			}
			if inRange {
				idx = c17Meow(c18BlockIndexBytes(rows, pk))
			}
			tb := c18TableBytes(cols, pk, uint32(len(rows)), [][]byte{c17Meow(raw)}, [][]byte{idx})
			add("recv-pk", true, c17ReceiveCase(c17Pack([]c17Obj{blk, {packfile.ObjectTable, tb}})))
			ctx.Count("recv_pk_boundary")
		}
	}
	n := 12
	if ctx.Thorough() {
		n = 150
	}
	for i := 0; i < n; i++ {
		w := c17NewWorld(ctx)
		objs := w.all()
		add("recv-valid", true, c17ReceiveCase(c17Pack(objs)))
		ctx.Count("recv_valid")
		c17GenFaults(ctx, c17Pack(objs), add)
		// one object dropped / reordered / corrupted
		for k := 0; k < 6; k++ {
			mut := append([]c17Obj{}, objs...)
			j := ctx.Pick(len(mut))
			what := ctx.Pick(8)
			switch what {
			case 0: // drop
				mut = append(mut[:j], mut[j+1:]...)
			case 1: // move to the end
				o := mut[j]
				mut = append(append(mut[:j], mut[j+1:]...), o)
			case 2: // flip a bit of the payload
				p := append([]byte{}, mut[j].payload...)
				if len(p) > 0 {
					p[ctx.Pick(len(p))] ^= 1 << uint(ctx.Pick(8))
				}
				mut[j] = c17Obj{mut[j].typ, p}
			case 3: // truncate the payload
				p := mut[j].payload
				mut[j] = c17Obj{mut[j].typ, p[:ctx.Pick(len(p)+1)]}
			case 4: // wrong type
				mut[j] = c17Obj{ctx.Pick(8), mut[j].payload}
			case 5: // a block that decompresses but does not validate
				bad := [][]byte{{0, 0}, {0, 0, 0, 1, 0, 0, 0, 1, 0}, {0xff, 0xff, 0xff, 0xff}, {0, 0, 0, 0}}
				mut[j] = c17Obj{packfile.ObjectBlock, s2.EncodeBetter(nil, bad[ctx.Pick(len(bad))])}
			case 6: // duplicate
				mut = append(mut, mut[j])
			default: // zero-length object of type 0 in the middle
				mut = append(mut[:j], append([]c17Obj{{0, nil}}, mut[j:]...)...)
			}
			ctx.Count(fmt.Sprintf("recv_mut_%d", what))
			add("recv-mutated", true, c17ReceiveCase(c17Pack(mut)))
		}
		// raw damage to the stream
		pack := c17Pack(objs)
		for k := 0; k < 3; k++ {
			cut := pack[:ctx.Pick(len(pack)+1)]
			add("recv-truncated", true, c17ReceiveCase(cut))
			fl := append([]byte{}, pack...)
			fl[ctx.Pick(len(fl))] ^= 1 << uint(ctx.Pick(8))
			add("recv-bitflip", true, c17ReceiveCase(fl))
		}
	}
}

// ---------- decoder mutation stream ----------

func c17Seeds(ctx *Ctx, entry int) [][]byte {
	n := 2
	if ctx.Thorough() {
		n = 8
	}
	var out [][]byte
	for i := 0; i < n; i++ {
		switch entry {
		case 0, 2, 3, 4, 16, 17, 18:
			out = append(out, c18Stream(ctx, 8))
		case 1, 5:
			out = append(out, c18BlockBytes(c18Rows(ctx, 1+ctx.Pick(4), 1+ctx.Pick(3))))
		case 6:
			out = append(out, c18Stream(ctx, 3))
		case 7:
			out = append(out, c18BlockIndexBytes(c18Rows(ctx, 1+ctx.Pick(4), 2), []uint32{0}))
		case 8:
			out = append(out, c18Stream(ctx, 2))
		case 9:
			out = append(out, c18Stream(ctx, 7))
		case 10:
			us := []uint64{0, 1, 15, 16, 2047, 2048, 1 << 20, 1<<32 - 1, 1 << 53, 1<<63 - 1, 1 << 63, 1<<64 - 1}
			out = append(out, packfile.VerifEncodeObjTypeAndLen(1+ctx.Pick(3), us[ctx.Pick(len(us))]))
		case 11:
			body := []byte(c18Word(ctx))
			out = append(out, append(packfile.VerifEncodeObjTypeAndLen(1+ctx.Pick(3), uint64(len(body))), body...))
		case 12:
			out = append(out, c18Stream(ctx, 0))
		case 13:
			out = append(out, c18Stream(ctx, 1))
		case 14, 19:
			out = append(out, c18Stream(ctx, 6))
		default:
			out = append(out, c18Stream(ctx, 9))
		}
	}
	return out
}

// c17Mutations feeds emit with the seed and the mutation families of the property:
// truncation at EVERY offset, every bit of the first 24 bytes and 16 random bits, counts /
// lengths overwritten at every offset of the first 48 bytes, trailing garbage, altered labels.
func c17Mutations(ctx *Ctx, seed []byte, emit func(tag string, m []byte)) {
	emit("valid", seed)
	for cut := 0; cut < len(seed); cut++ {
		emit("truncated", seed[:cut])
	}
	hdr := len(seed)
	if hdr > 24 {
		hdr = 24
	}
	for i := 0; i < hdr; i++ {
		for bit := 0; bit < 8; bit++ {
			m := append([]byte{}, seed...)
			m[i] ^= 1 << uint(bit)
			emit("bitflip", m)
		}
	}
	for k := 0; k < 16 && len(seed) > 0; k++ {
		m := append([]byte{}, seed...)
		m[ctx.Pick(len(m))] ^= 1 << uint(ctx.Pick(8))
		emit("bitflip", m)
	}
	big := [][]byte{{0xff, 0xff, 0xff, 0xff}, {0x7f, 0xff, 0xff, 0xff}, {0x80, 0, 0, 0}, {0, 0x80, 0, 0}, {0, 1, 0, 0}, {0, 0, 4, 1}, {0, 0, 1, 1}, {0xff, 0xff}}
	lim := len(seed)
	if lim > 48 {
		lim = 48
	}
	for i := 0; i < lim; i++ {
		for _, v := range big {
			if i+len(v) > len(seed) {
				continue
			}
			m := append([]byte{}, seed...)
			copy(m[i:], v)
			emit("inflated", m)
		}
	}
	for k := 0; k < 4; k++ {
		m := append(append([]byte{}, seed...), byte(ctx.Pick(256)), byte(ctx.Pick(256)))
		emit("trailing", m)
	}
	for i := 0; i+1 < len(seed); i++ {
		if seed[i+1] == ' ' && seed[i] >= 'a' && seed[i] <= 'z' {
			m := append([]byte{}, seed...)
			m[i] = 'X'
			emit("label", m)
		}
	}
}

var c17Entries = []int{0, 1, 2, 3, 4, 5, 6, 7, 8, 9, 10, 11, 12, 13, 14, 15, 16, 17, 18, 19, 21}

func genC17(ctx *Ctx) []Case {
	var cases []Case
	add := func(tag string, nt bool, c *xt.T) {
		cases = append(cases, Case{Tag: tag, Nontrivial: nt, C: c})
	}
	addB := func(tag string, entry int, b []byte) {
		add(tag, len(b) > 0, xt.N(xt.LI(entry), xt.Bytes(b)))
		ctx.Count("stream_" + tag)
	}
	// witnesses of the fixed defects 8ed4fbc (index out of range) and b9fd78c (count*24 bytes)
	for _, e := range []int{0, 1, 4} {
		addB("witness", e, []byte{0, 0})
		addB("witness", e, []byte{0, 0, 0, 1, 0, 0, 0, 1, 0})
	}
	for _, e := range []int{2, 3, 5, 6, 9, 14, 15, 16, 17, 19, 21} {
		// counts around the decoder's own capacity (256), the clamp (1024) and far above; the
		// 2^23 one comes before 2^32-1 so that an unclamped branch is first seen as an
		// allocation failure of the oracle and only then as a dead process
		for _, cnt := range [][]byte{{0, 0, 1, 0}, {0, 0, 1, 1}, {0, 0, 4, 0}, {0, 0, 4, 1}, {0, 128, 0, 0}} {
			addB("witness", e, append(append([]byte{}, cnt...), 0, 0))
		}
		addB("witness", e, []byte{0xff, 0xff, 0xff, 0xff})
		addB("witness", e, []byte{0, 0, 0, 1, 0xff, 0xff, 0xff, 0xff})
	}
	// every cut of valid commits and tables: only complete encodings may be accepted
	for k := 0; k < 4; k++ {
		var parents [][]byte
		for j := 0; j < k; j++ {
			parents = append(parents, c18Sum(ctx))
		}
		seed := c18CommitBytes(ctx, parents)
		for cut := 0; cut <= len(seed); cut++ {
			add("prefix", true, xt.N(xt.LI(22), xt.Bytes(seed), xt.LI(cut), xt.LI(k)))
		}
		tseed := c18RandTable(ctx)
		for cut := 0; cut <= len(tseed); cut++ {
			add("prefix", true, xt.N(xt.LI(23), xt.Bytes(tseed), xt.LI(cut)))
		}
	}
	addB("witness", 6, []byte("columns \x00\x00\x00\x00\npk \x00\x00\x00\x00\nrows \xff\xff\xff\xff\n"))
	addB("witness", 11, packfile.VerifEncodeObjTypeAndLen(3, 1<<63-1))
	addB("witness", 11, packfile.VerifEncodeObjTypeAndLen(3, 1<<63))
	addB("witness", 9, []byte("version \x00\x00\x00\x00\nfields \x00\x00\x00\x00\nrowsCount \x00\x00\x00\x00\ncolsCount \xff\xff\xff\xff\ncolumns \x00\x00"))
	// commit time field: strconv.ParseInt / time.Parse("-0700") corner cases
	{
		seed := c18CommitBytes(ctx, nil)
		if i := bytes.Index(seed, []byte("\ntime ")); i >= 0 {
			for _, tm := range []string{
				"+000000001 +0000", "-000000001 -2400", "0000000001 +2460", "0000000001 +2461",
				"0000000001 +2500", " 000000001 +0700", "0000000001 0700+", "0000000001 +07:0",
				"0000000001x+0700", "00000_0001 +0700", "0x00000001 +0700", "9999999999 -0000",
				"0000000000 +0000", "-999999999 +1400", "+-00000001 +0700", "0000000001 +0a00",
				"0000000001 -1260", "1700000000\x00+0530",
			} {
				m := append([]byte{}, seed...)
				copy(m[i+6:], tm)
				addB("time", 8, m)
			}
		}
	}
	c17GenReceive(ctx, add)
	// mutation of valid encodings
	for _, entry := range c17Entries {
		for _, seed := range c17Seeds(ctx, entry) {
			c17Mutations(ctx, seed, func(tag string, m []byte) { addB(tag, entry, m) })
		}
	}
	c17GenStore(ctx, add)
	c17GenJSON(ctx, add)
	// short raw strings
	alpha := []byte{0x00, 0x01, 0x80, 0xff}
	var rec func(prefix []byte, depth int)
	for _, entry := range c17Entries {
		entry := entry
		addB("raw-short", entry, nil)
		for x := 0; x < 256; x++ {
			addB("raw-short", entry, []byte{byte(x)})
		}
		if entry <= 1 || ctx.Thorough() {
			for x := 0; x < 256; x++ {
				for y := 0; y < 256; y++ {
					addB("raw-len2", entry, []byte{byte(x), byte(y)})
				}
			}
		}
		rec = func(prefix []byte, depth int) {
			if len(prefix) >= 2 {
				addB("raw-alpha", entry, append([]byte{}, prefix...))
			}
			if depth == 0 {
				return
			}
			for _, a := range alpha {
				rec(append(prefix, a), depth-1)
			}
		}
		rec(nil, 5)
	}
	return cases
}
