package main

import (
	"bytes"
	"fmt"
	"math/rand"
	"sort"
	"strconv"
	"time"

	"github.com/dgraph-io/badger/v3"
	"github.com/wrgl/wrgl/pkg/objects"
	objbadger "github.com/wrgl/wrgl/pkg/objects/badger"

	"verifharness/xt"
)

// C06 volume cases: (14 mode n size seed).  n distinct, valid objects of about `size` payload bytes
// each (deterministic from seed) are saved through ONE objbadger.Txn on a badger DB opened with the
// options the repository uses (RepoDir.openBadger: DefaultOptions + logging level), with the callers'
// buffer-reuse idiom, so that the transaction crosses badger's size / entry-count limit and rolls
// over inside Txn.Set; then Commit, and everything is read back through objbadger.Store.
//   mode 1: commits only   mode 2: all six kinds in turn   mode 3: commits, listing-heavy (same as 1)
// observation = (saved readable keys): number of Save* calls that returned a sum without error,
// number of those whose Get<Kind> decodes and re-encodes to exactly the bytes saved, number of keys
// the store lists.  The model's prediction is (n n n): every returned identifier reads back equal
// (theorem C06_saved_objects_persist) and the store holds exactly those keys.
// Oracle: no Save error; every returned sum = meow(content); every object readable and equal
// ("store-lost-object", "store-readback-differs"); GetAll<Kind>Keys = exactly the sums saved for
// that kind, sorted ("store-keys-listing"), on the store and on a fresh transaction.

type c06VolObj struct {
	kind    int
	content []byte // what is hashed (for kinds 5/6: the owning table)
	value   []byte // what is stored (kinds 5/6: the index / profile bytes; else = content)
}

func c06VolCells(pad []byte) []string {
	var cells []string
	for len(pad) > 60000 {
		cells = append(cells, string(pad[:60000]))
		pad = pad[60000:]
	}
	return append(cells, string(pad))
}

func c06VolSums(pad []byte) [][]byte {
	var l [][]byte
	for i := 0; i+16 <= len(pad); i += 16 {
		l = append(l, pad[i:i+16])
	}
	return l
}

// c06VolObject builds the i-th object: distinct for distinct i, a valid encoding of its kind.
func c06VolObject(kind, i, size int, rng *rand.Rand) c06VolObj {
	pad := make([]byte, size)
	rng.Read(pad)
	id := strconv.Itoa(i)
	smallTable := func() []byte {
		return c06Must(c06EncTable(&objects.Table{Columns: []string{"owner", id}}))
	}
	block := func() []byte {
		return c06Must(c06EncBlock([][]string{append([]string{id}, c06VolCells(pad)...), {"x"}}))
	}
	switch kind {
	case 1:
		b := block()
		return c06VolObj{1, b, b}
	case 2:
		n := len(pad) / 32
		if n > 254 {
			n = 254
		}
		idx := &objects.BlockIndex{}
		off := []byte{0}
		first := make([]byte, 32)
		copy(first, id)
		idx.Rows = append(idx.Rows, first)
		for j := 0; j < n; j++ {
			idx.Rows = append(idx.Rows, pad[32*j:32*j+32])
			off = append(off, byte(j+1))
		}
		*c06OffPtr(idx) = off
		b := c06Must(c06EncBlockIndex(idx))
		return c06VolObj{2, b, b}
	case 3:
		sums := c06VolSums(pad)
		half := len(sums) / 2
		t := &objects.Table{Columns: []string{"id", id}, PK: []uint32{0}, RowsCount: uint32(half) * 255,
			Blocks: sums[:half], BlockIndices: sums[half : 2*half]}
		b := c06Must(c06EncTable(t))
		return c06VolObj{3, b, b}
	case 4:
		if len(pad) > 60000 {
			pad = pad[:60000]
		}
		tbl := make([]byte, 16)
		copy(tbl, id)
		cm := &objects.Commit{Table: tbl, AuthorName: id, AuthorEmail: "e@x", Message: string(pad),
			Time: time.Unix(1700000000+int64(i), 0).UTC()}
		b := c06Must(c06EncCommit(cm))
		return c06VolObj{4, b, b}
	case 5:
		return c06VolObj{5, smallTable(), block()}
	default:
		if len(pad) > 60000 {
			pad = pad[:60000]
		}
		p := &objects.TableProfile{Version: 1, RowsCount: uint32(i), Columns: []*objects.ColumnProfile{
			{Name: id, TopValues: objects.ValueCounts{{Value: string(pad), Count: 1}}}}}
		return c06VolObj{6, smallTable(), c06Must(c06EncProfile(p))}
	}
}

// c06VolReadBack returns the re-encoding of the object stored under sum, through Get<Kind>.
func c06VolReadBack(s objects.Store, kind int, sum []byte) ([]byte, error) {
	switch kind {
	case 1:
		blk, _, err := objects.GetBlock(s, nil, sum)
		if err != nil {
			return nil, err
		}
		return c06EncBlock(blk)()
	case 2:
		idx, _, err := objects.GetBlockIndex(s, nil, sum)
		if err != nil {
			return nil, err
		}
		return c06EncBlockIndex(idx)()
	case 3:
		t, err := objects.GetTable(s, sum)
		if err != nil {
			return nil, err
		}
		return c06EncTable(t)()
	case 4:
		cm, err := objects.GetCommit(s, sum)
		if err != nil {
			return nil, err
		}
		return c06EncCommit(cm)()
	case 5:
		blk, err := objects.GetTableIndex(s, sum)
		if err != nil {
			return nil, err
		}
		return c06EncBlock(blk)()
	default:
		p, err := objects.GetTableProfile(s, sum)
		if err != nil {
			return nil, err
		}
		return c06EncProfile(p)()
	}
}

func c06VolList(s objects.Store, kind int) ([][]byte, error) {
	switch kind {
	case 1:
		return objects.GetAllBlockKeys(s)
	case 2:
		return objects.GetAllBlockIndexKeys(s)
	case 3:
		return objects.GetAllTableKeys(s)
	case 4:
		return objects.GetAllCommitKeys(s)
	case 5:
		return objects.GetAllTableIndexKeys(s)
	default:
		return objects.GetAllTableProfileKeys(s)
	}
}

func c06RunVolume(ctx *Ctx, c *xt.T) (*xt.T, Verdict) {
	mode, n, size, seed := int(c.Kids[1].N), int(c.Kids[2].N), int(c.Kids[3].N), int64(c.Kids[4].N)
	vd := &c06Verd{v: OK()}
	rng := rand.New(rand.NewSource(seed))
	db := c06Badger(ctx)
	defer func() {
		if err := db.DropAll(); err != nil { // volume cases leave too much for the cheap cleanup
			panic(err)
		}
	}()
	// how often does a raw badger transaction overflow on this volume?  (input-distribution fact
	// only: the case is about the rollover path, but a different option set must not alarm)
	probe := db.NewTransaction(true)
	rollovers := 0
	txn := objbadger.NewTxn(db)
	type saved struct {
		kind       int
		sum, value []byte
	}
	var ok []saved
	want := map[int]map[string]bool{}
	var bb []byte
	for i := 0; i < n; i++ {
		kind := 4
		if mode == 2 {
			kind = 1 + i%6
		}
		o := c06VolObject(kind, i, size, rng)
		if err := probe.Set(append([]byte("probe/"), c06Sum(o.content)...), o.value); err == badger.ErrTxnTooBig {
			rollovers++
			probe.Discard()
			probe = db.NewTransaction(true)
		}
		hash := c06Sum(o.content)
		var sum []byte
		var err error
		switch kind {
		case 1:
			sum, bb, err = objects.SaveBlock(txn, bb, o.content)
		case 2:
			sum, bb, err = objects.SaveBlockIndex(txn, bb, o.content)
		case 3:
			sum, err = objects.SaveTable(txn, o.content)
		case 4:
			sum, err = objects.SaveCommit(txn, o.content)
		case 5:
			sum = hash
			err = objects.SaveTableIndex(txn, sum, o.value)
		default:
			sum = hash
			err = objects.SaveTableProfile(txn, sum, o.value)
		}
		if err != nil {
			vd.bad("volume-save-error", "Save of object %d (kind %d) failed: %v", i, kind, err)
			continue
		}
		if !bytes.Equal(sum, hash) {
			vd.bad("key-not-hash", "Save of object %d (kind %d) returned %x, meow hash is %x", i, kind, sum, hash)
		}
		ok = append(ok, saved{kind, append([]byte{}, sum...), o.value})
		if want[kind] == nil {
			want[kind] = map[string]bool{}
		}
		want[kind][string(sum)] = true
		for j := range bb[:cap(bb)] {
			bb[:cap(bb)][j] = 0xEE
		}
	}
	probe.Discard()
	for i := 0; i < rollovers; i++ {
		ctx.Count("volume_txn_rollovers")
	}
	if rollovers == 0 {
		ctx.Count("volume_cases_without_rollover")
	}
	if err := txn.Commit(); err != nil {
		vd.bad("volume-save-error", "Commit failed: %v", err)
	}
	s := objbadger.NewStore(db)
	readable := 0
	for i, o := range ok {
		got, err := c06VolReadBack(s, o.kind, o.sum)
		switch {
		case err == objects.ErrKeyNotFound:
			vd.bad("store-lost-object", "object %d of %d (kind %d): Save returned %x without error but Get says: %v", i, n, o.kind, o.sum, err)
		case err != nil:
			vd.bad("store-readback-differs", "object %d of %d (kind %d, %x) does not decode: %v", i, n, o.kind, o.sum, err)
		case !bytes.Equal(got, o.value):
			vd.bad("store-readback-differs", "object %d of %d (kind %d, %x) reads back as different bytes", i, n, o.kind, o.sum)
		default:
			readable++
		}
	}
	// listings: exactly the saved sums, sorted, per kind; on the store and on a fresh transaction
	keys := 0
	rt := objbadger.NewTxn(db)
	defer rt.Discard()
	for kind := 1; kind <= 6; kind++ {
		exp := make([]string, 0, len(want[kind]))
		for k := range want[kind] {
			exp = append(exp, k)
		}
		sort.Strings(exp)
		for vi, st := range []objects.Store{s, rt} {
			got, err := c06VolList(st, kind)
			if err != nil {
				vd.bad("store-keys-listing", "listing kind %d: %v", kind, err)
				continue
			}
			if vi == 0 {
				keys += len(got)
			}
			bad := len(got) != len(exp)
			for j := 0; !bad && j < len(got); j++ {
				bad = string(got[j]) != exp[j]
			}
			if bad {
				vd.bad("store-keys-listing", "GetAll keys of kind %d (%s) returns %d keys that are not exactly the %d sums saved",
					kind, []string{"store", "transaction"}[vi], len(got), len(exp))
			}
		}
	}
	return xt.N(xt.LI(len(ok)), xt.LI(readable), xt.LI(keys)), vd.v
}

var _ = fmt.Sprintf
