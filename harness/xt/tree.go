// Package xt implements the exchange tree shared with the Coq models
// (coq/lib/Tree.v) and the OCaml driver: Leaf N | Node [tree].
// Text: decimal leaf | ( t ... ) | x<hex pairs> for a non-empty node of byte leaves.
package xt

import (
	"fmt"
	"math/big"
	"strings"
)

type T struct {
	IsLeaf bool
	N      uint64
	Big    *big.Int // used instead of N when non-nil
	Kids   []*T
}

func L(n uint64) *T      { return &T{IsLeaf: true, N: n} }
func LI(n int) *T        { return &T{IsLeaf: true, N: uint64(n)} }
func LBig(b *big.Int) *T { return &T{IsLeaf: true, Big: b} }
func N(kids ...*T) *T    { return &T{Kids: kids} }
func Bool(b bool) *T {
	if b {
		return L(1)
	}
	return L(0)
}
func Bytes(b []byte) *T {
	t := &T{Kids: make([]*T, len(b))}
	for i, c := range b {
		t.Kids[i] = L(uint64(c))
	}
	return t
}
func Str(s string) *T { return Bytes([]byte(s)) }
func Strs(ss []string) *T {
	t := &T{Kids: make([]*T, len(ss))}
	for i, s := range ss {
		t.Kids[i] = Str(s)
	}
	return t
}
func Ints(is []int) *T {
	t := &T{Kids: make([]*T, len(is))}
	for i, s := range is {
		t.Kids[i] = LI(s)
	}
	return t
}
func U32s(is []uint32) *T {
	t := &T{Kids: make([]*T, len(is))}
	for i, s := range is {
		t.Kids[i] = L(uint64(s))
	}
	return t
}
func List[A any](f func(A) *T, l []A) *T {
	t := &T{Kids: make([]*T, len(l))}
	for i, s := range l {
		t.Kids[i] = f(s)
	}
	return t
}
func Opt(t *T) *T {
	if t == nil {
		return N()
	}
	return N(t)
}
func (t *T) Add(k ...*T) *T { t.Kids = append(t.Kids, k...); return t }

func (t *T) allBytes() bool {
	if len(t.Kids) == 0 {
		return false
	}
	for _, k := range t.Kids {
		if !k.IsLeaf || k.Big != nil || k.N > 255 {
			return false
		}
	}
	return true
}

func (t *T) write(sb *strings.Builder) {
	if t.IsLeaf {
		if t.Big != nil {
			sb.WriteString(t.Big.String())
		} else {
			fmt.Fprintf(sb, "%d", t.N)
		}
		return
	}
	if len(t.Kids) == 0 {
		sb.WriteString("()")
		return
	}
	if t.allBytes() {
		sb.WriteByte('x')
		const hx = "0123456789abcdef"
		for _, k := range t.Kids {
			sb.WriteByte(hx[k.N>>4])
			sb.WriteByte(hx[k.N&15])
		}
		return
	}
	sb.WriteByte('(')
	for i, k := range t.Kids {
		if i > 0 {
			sb.WriteByte(' ')
		}
		k.write(sb)
	}
	sb.WriteByte(')')
}

func (t *T) String() string {
	var sb strings.Builder
	t.write(&sb)
	return sb.String()
}

// Parse parses the text form.
func Parse(s string) (*T, error) {
	p := &parser{s: s}
	t, err := p.item()
	if err != nil {
		return nil, err
	}
	return t, nil
}

type parser struct {
	s   string
	pos int
}

func hexv(c byte) (uint64, bool) {
	switch {
	case c >= '0' && c <= '9':
		return uint64(c - '0'), true
	case c >= 'a' && c <= 'f':
		return uint64(c-'a') + 10, true
	}
	return 0, false
}

func (p *parser) skip() {
	for p.pos < len(p.s) && (p.s[p.pos] == ' ' || p.s[p.pos] == '\t') {
		p.pos++
	}
}

func (p *parser) item() (*T, error) {
	p.skip()
	if p.pos >= len(p.s) {
		return nil, fmt.Errorf("eof")
	}
	c := p.s[p.pos]
	switch {
	case c == '(':
		p.pos++
		t := N()
		for {
			p.skip()
			if p.pos >= len(p.s) {
				return nil, fmt.Errorf("unclosed")
			}
			if p.s[p.pos] == ')' {
				p.pos++
				return t, nil
			}
			k, err := p.item()
			if err != nil {
				return nil, err
			}
			t.Kids = append(t.Kids, k)
		}
	case c == 'x':
		p.pos++
		t := N()
		for p.pos+1 < len(p.s) {
			a, ok := hexv(p.s[p.pos])
			if !ok {
				break
			}
			b, _ := hexv(p.s[p.pos+1])
			t.Kids = append(t.Kids, L(a*16+b))
			p.pos += 2
		}
		return t, nil
	case c >= '0' && c <= '9':
		st := p.pos
		for p.pos < len(p.s) && p.s[p.pos] >= '0' && p.s[p.pos] <= '9' {
			p.pos++
		}
		b, _ := new(big.Int).SetString(p.s[st:p.pos], 10)
		if b.IsUint64() {
			return L(b.Uint64()), nil
		}
		return LBig(b), nil
	}
	return nil, fmt.Errorf("bad char %q at %d", c, p.pos)
}

// AsBytes converts a node of byte leaves back into bytes.
func (t *T) AsBytes() []byte {
	b := make([]byte, len(t.Kids))
	for i, k := range t.Kids {
		b[i] = byte(k.N)
	}
	return b
}
