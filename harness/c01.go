package main

import (
	"bytes"
	"encoding/csv"
	"fmt"
	"io"
	"os"
	"path/filepath"
	"sort"
	"strings"
	"sync"
	"time"

	"github.com/go-logr/logr"
	"github.com/pckhoi/meow"
	"github.com/spf13/viper"
	wrgl "github.com/wrgl/wrgl/cmd/wrgl"
	"github.com/wrgl/wrgl/pkg/ingest"
	"github.com/wrgl/wrgl/pkg/local"
	"github.com/wrgl/wrgl/pkg/objects"
	objmock "github.com/wrgl/wrgl/pkg/objects/mock"
	"github.com/wrgl/wrgl/pkg/ref"
	"github.com/wrgl/wrgl/pkg/slice"
	"github.com/wrgl/wrgl/pkg/sorter"

	"verifharness/xt"
)

// C01: ingestion of a CSV (ingest.IngestTable, wrgl commit / wrgl export) vs the model
// (coq/model/Ingest.v) and vs sort+dedupe of the parsed CSV.
//
//	case = (kind columns pknames rows runSize arrival (workers delimiter))
//	  kind 0 = ingest.IngestTable over an in-memory store + object read-back
//	       1 = wrgl commit + wrgl export in-process (RootCmd) in a temporary repository
//	       2 = rows handed to a sorter with AddRow, then Inserter.IngestTableFromSorter
//	           (the producer shared by merge and doctor re-ingest; no CSV involved)
//	       4, 5, 6 = C03 only (merge result, doctor re-ingest, receipt over the wire), see c03.go
//	  columns/pknames = node of cells; rows = node of rows: the CSV AFTER parsing
//	  (Run re-serialises them with c01CSV and checks that encoding/csv parses them back)
//	  arrival = scheduling keys used by the model only; workers/delimiter used by Go only;
//	  an optional fourth Go-only parameter style selects how Run writes the CSV text (bit 1 = raw:
//	  cells quoted only when they hold the delimiter, a quote, CR or LF, so leading/trailing blanks
//	  reach the parser unquoted; bit 2 = CRLF line ends; bit 4 = no final line end);
//	  an optional third Go-only parameter deps = ((offset ...) ...) forces the worker schedule:
//	  block k is written only after the blocks deps[k] have been completed (gated store)
//	observation = (status columns pk rowcount (block ...) export)
//	  status 0 ok | 1 error; block = node of crows; export = () for kind 0, else the crows
//	  (header first) obtained by parsing the output of wrgl export.
//	  crow = (0 cell ...) | (1 keycell ...) when some single run holds two different rows with
//	  that key (the survivor then depends on Go's unstable sort.Slice), as in C19.

func init() { props["C01"] = &Prop{Gen: genC01, Run: runC01} }

// ---- thread-safe wrapper of the repository's (not thread-safe) mock store ----

type c01Store struct {
	mu   sync.Mutex
	s    *objmock.Store
	gate *c01Gate // optional forced worker schedule
}

func c01NewStore() *c01Store { return &c01Store{s: objmock.NewStore()} }

// c01Gate forces the order in which the inserter's workers complete blocks: the write of
// block k (key blk/<sum>) is held back until the block-index writes (blkidx/<sum>, the last
// store access of insertBlock before the block is recorded) of every block in deps[k] have
// returned, plus a short pause.  Blocks are recognised by the sums the harness computes
// itself from the expected table; if they do not match nothing is held.  A hold gives up
// after c01GateTimeout (too few workers for the requested schedule).
type c01Gate struct {
	mu       sync.Mutex
	blkOff   map[string]int
	idxOff   map[string]int
	deps     [][]int
	done     []chan struct{}
	order    []int // offsets in the order their index write returned
	timedOut bool
}

const c01GateTimeout = 3 * time.Second

func (g *c01Gate) before(k []byte) {
	off, ok := g.blkOff[string(k)]
	if !ok || off >= len(g.deps) || len(g.deps[off]) == 0 {
		return
	}
	deadline := time.After(c01GateTimeout)
	for _, d := range g.deps[off] {
		if d < 0 || d >= len(g.done) {
			continue
		}
		select {
		case <-g.done[d]:
		case <-deadline:
			g.mu.Lock()
			g.timedOut = true
			g.mu.Unlock()
			return
		}
	}
	time.Sleep(20 * time.Millisecond)
}

func (g *c01Gate) after(k []byte) {
	off, ok := g.idxOff[string(k)]
	if !ok {
		return
	}
	g.mu.Lock()
	defer g.mu.Unlock()
	select {
	case <-g.done[off]:
	default:
		g.order = append(g.order, off)
		close(g.done[off])
	}
}
func (m *c01Store) Get(k []byte) ([]byte, error) {
	m.mu.Lock()
	defer m.mu.Unlock()
	return m.s.Get(k)
}
func (m *c01Store) Set(k, v []byte) error {
	if m.gate != nil {
		m.gate.before(k)
		defer m.gate.after(k)
	}
	m.mu.Lock()
	defer m.mu.Unlock()
	return m.s.Set(append([]byte{}, k...), append([]byte{}, v...))
}
func (m *c01Store) Delete(k []byte) error {
	m.mu.Lock()
	defer m.mu.Unlock()
	return m.s.Delete(k)
}
func (m *c01Store) Exist(k []byte) bool {
	m.mu.Lock()
	defer m.mu.Unlock()
	return m.s.Exist(k)
}
func (m *c01Store) Filter(p []byte) (map[string][]byte, error) {
	m.mu.Lock()
	defer m.mu.Unlock()
	return m.s.Filter(p)
}
func (m *c01Store) FilterKey(p []byte) ([][]byte, error) {
	m.mu.Lock()
	defer m.mu.Unlock()
	return m.s.FilterKey(p)
}
func (m *c01Store) Clear(p []byte) error {
	m.mu.Lock()
	defer m.mu.Unlock()
	return m.s.Clear(p)
}
func (m *c01Store) Close() error { return nil }

// ---- case coding ----

type c01Case struct {
	Store   *c01Store // kind 0/2: ingest into this store instead of a fresh one (not part of the case text)
	Kind    int
	Columns []string
	PKNames []string
	Rows    [][]string
	RunSize uint64
	Arrival []int
	Workers int
	Delim   rune
	Deps    [][]int // forced schedule: block k is completed only after the blocks Deps[k] (Go only)
	Style   int     // CSV text style (c01StyleRaw | c01StyleCRLF | c01StyleNoFinal), Go only
	Aux     *xt.T   // producer-specific extra input of the C03 kinds 4 and 6 (Go only), eighth element of the case
}

func c01Deps(deps [][]int) *xt.T {
	t := xt.N()
	for _, d := range deps {
		t.Add(xt.Ints(d))
	}
	return t
}

func c01DecodeDeps(t *xt.T) [][]int {
	if len(t.Kids) == 0 {
		return nil
	}
	deps := make([][]int, len(t.Kids))
	for i, d := range t.Kids {
		deps[i] = c19Ints(d)
	}
	return deps
}

func c01Tree(k c01Case) *xt.T {
	t := xt.N(xt.LI(k.Kind), xt.Strs(k.Columns), xt.Strs(k.PKNames), c19Rows(k.Rows), xt.L(k.RunSize),
		xt.Ints(k.Arrival), xt.N(xt.LI(k.Workers), xt.LI(int(k.Delim)), c01Deps(k.Deps), xt.LI(k.Style)))
	if k.Aux != nil {
		t.Add(k.Aux)
	}
	return t
}

func c01Strs(t *xt.T) []string {
	r := make([]string, len(t.Kids))
	for i, c := range t.Kids {
		r[i] = string(c.AsBytes())
	}
	return r
}

func c01Decode(c *xt.T) c01Case {
	k := c01Case{
		Kind: int(c.Kids[0].N), Columns: c01Strs(c.Kids[1]), PKNames: c01Strs(c.Kids[2]),
		Rows: c19DecodeRows(c.Kids[3]), RunSize: c.Kids[4].N, Arrival: c19Ints(c.Kids[5]),
		Workers: int(c.Kids[6].Kids[0].N), Delim: rune(c.Kids[6].Kids[1].N),
	}
	if len(c.Kids[6].Kids) > 2 {
		k.Deps = c01DecodeDeps(c.Kids[6].Kids[2])
	}
	if len(c.Kids[6].Kids) > 3 {
		k.Style = int(c.Kids[6].Kids[3].N)
	}
	if len(c.Kids) > 7 {
		k.Aux = c.Kids[7]
	}
	return k
}

// c01CSV serialises records; every field that is empty or holds anything but
// letters, digits, '_' and '-' is quoted.
func c01CSV(records [][]string, delim rune) []byte {
	var b bytes.Buffer
	for _, rec := range records {
		for i, f := range rec {
			if i > 0 {
				b.WriteRune(delim)
			}
			plain := f != ""
			for j := 0; j < len(f) && plain; j++ {
				ch := f[j]
				if !(ch >= 'a' && ch <= 'z' || ch >= 'A' && ch <= 'Z' || ch >= '0' && ch <= '9' || ch == '_' || ch == '-') {
					plain = false
				}
			}
			if plain {
				b.WriteString(f)
			} else {
				b.WriteByte('"')
				b.WriteString(strings.ReplaceAll(f, `"`, `""`))
				b.WriteByte('"')
			}
		}
		b.WriteByte('\n')
	}
	return b.Bytes()
}

// CSV text styles (Go-only case parameter): how Run writes the file the implementation reads.
const (
	c01StyleRaw     = 1 // hand-formatted: a cell is quoted only when it holds the delimiter, a quote, CR or LF
	c01StyleCRLF    = 2 // records end with CRLF
	c01StyleNoFinal = 4 // no line end after the last record
)

// c01Text serialises records in the given style.  In the raw style cells that begin or end
// with blanks or consist of blanks only reach the parser unquoted; the rows the case expects
// are the generator's own cells (a CSV parser must not trim them).
func c01Text(records [][]string, delim rune, style int) []byte {
	if style&c01StyleRaw == 0 && style == 0 {
		return c01CSV(records, delim)
	}
	nl := "\n"
	if style&c01StyleCRLF != 0 {
		nl = "\r\n"
	}
	var b bytes.Buffer
	for ri, rec := range records {
		for i, f := range rec {
			if i > 0 {
				b.WriteRune(delim)
			}
			quote := strings.ContainsRune(f, delim) || strings.ContainsAny(f, "\"\r\n") || f == "" && len(rec) == 1
			if style&c01StyleRaw == 0 {
				quote = quote || f == "" || strings.Trim(f, "abcdefghijklmnopqrstuvwxyzABCDEFGHIJKLMNOPQRSTUVWXYZ0123456789_-") != ""
			}
			if quote {
				b.WriteByte('"')
				b.WriteString(strings.ReplaceAll(f, `"`, `""`))
				b.WriteByte('"')
			} else {
				b.WriteString(f)
			}
		}
		if ri < len(records)-1 || style&c01StyleNoFinal == 0 {
			b.WriteString(nl)
		}
	}
	return b.Bytes()
}

func c01Parse(text []byte, delim rune) ([][]string, error) {
	r := csv.NewReader(bytes.NewReader(text))
	r.Comma = delim
	r.FieldsPerRecord = -1
	return r.ReadAll()
}

// c01Stable returns the records as encoding/csv reads them back (\r\n inside a quoted
// field becomes \n), iterated to a fixpoint; ok=false if there is none.
func c01Stable(records [][]string, delim rune) ([][]string, bool) {
	return c01StableStyle(records, delim, 0)
}

func c01StableStyle(records [][]string, delim rune, style int) ([][]string, bool) {
	for it := 0; it < 4; it++ {
		back, err := c01Parse(c01Text(records, delim, style), delim)
		if err != nil || len(back) != len(records) {
			return nil, false
		}
		same := true
		for i := range back {
			if c19KeyString(back[i]) != c19KeyString(records[i]) {
				same = false
			}
		}
		if same {
			return records, true
		}
		records = back
	}
	return nil, false
}

// ---- what a run reads back ----

type c01Result struct {
	Order     []int  // forced schedule: offsets of the blocks in the order they were completed
	GateLate  bool   // forced schedule: a hold timed out (too few workers)
	SchedDiff string // non-empty: the multi-worker table differs from the one-worker table
	Note      string // producer-specific finding (C03 kind 6)
	Hang      bool   // the in-process CLI command never returned
	Err       error
	Sum       []byte
	Tbl       *objects.Table
	Blocks    [][][]string
	TblIdx    [][]string
	BlkIdx    []*objects.BlockIndex
	DB        objects.Store
	Export    [][]string // kind 1 only
	ExportErr error
	Cleanup   func()
	RefStore  ref.Store
}

func c01ReadBack(db objects.Store, sum []byte, res *c01Result) {
	tbl, err := objects.GetTable(db, sum)
	if err != nil {
		panic(fmt.Sprintf("GetTable: %v", err))
	}
	res.Tbl = tbl
	var bb []byte
	for _, bs := range tbl.Blocks {
		var blk [][]string
		blk, bb, err = objects.GetBlock(db, bb, bs)
		if err != nil {
			panic(fmt.Sprintf("GetBlock: %v", err))
		}
		res.Blocks = append(res.Blocks, blk)
	}
	for _, is := range tbl.BlockIndices {
		var idx *objects.BlockIndex
		idx, bb, err = objects.GetBlockIndex(db, bb, is)
		if err != nil {
			panic(fmt.Sprintf("GetBlockIndex: %v", err))
		}
		res.BlkIdx = append(res.BlkIdx, idx)
	}
	res.TblIdx, err = objects.GetTableIndex(db, sum)
	if err != nil {
		panic(fmt.Sprintf("GetTableIndex: %v", err))
	}
}

// errC01Hang is returned by c01Wrgl when the in-process command does not return within the
// watchdog period (its goroutine is abandoned).
var errC01Hang = fmt.Errorf("wrgl command did not return within the watchdog period")

const c01Watchdog = 120 * time.Second

func c01Wrgl(out io.Writer, args ...string) error {
	done := make(chan error, 1)
	go func() {
		defer func() {
			if r := recover(); r != nil {
				done <- fmt.Errorf("panic: %v", r)
			}
		}()
		cmd := wrgl.RootCmd()
		cmd.SetOut(out)
		cmd.SetErr(io.Discard)
		cmd.SetArgs(args)
		done <- cmd.Execute()
	}()
	select {
	case err := <-done:
		return err
	case <-time.After(c01Watchdog):
		return errC01Hang
	}
}

// c01NewRepo creates a temporary repository and points the CLI at it.
func c01NewRepo(ctx *Ctx) (rd *local.RepoDir, root string) {
	root, err := os.MkdirTemp(ctx.Tmp, "repo")
	if err != nil {
		panic(err)
	}
	wrglDir := filepath.Join(root, ".wrgl")
	rd, err = local.NewRepoDir(wrglDir, "")
	if err != nil {
		panic(err)
	}
	if err := rd.Init(); err != nil {
		panic(err)
	}
	viper.Set("wrgl_dir", wrglDir)
	if err := c01Wrgl(io.Discard, "config", "set", "user.email", "v@example.invalid"); err != nil {
		panic(err)
	}
	if err := c01Wrgl(io.Discard, "config", "set", "user.name", "verif"); err != nil {
		panic(err)
	}
	return rd, root
}

// c01ExpectedBlocks returns the blocks of the table the case must produce (sort + dedupe,
// cut at 255 rows) when keys are unique, with the key indices; ok=false otherwise.
func c01ExpectedBlocks(k c01Case) (blocks [][][]string, pk []uint32, ok bool) {
	pkIdx, pkOK := c01PkIndicesOf(k.Columns, k.PKNames)
	if !pkOK {
		return nil, nil, false
	}
	idx := c19PkIndices(len(k.Columns), pkIdx)
	seen := map[string]bool{}
	rows := make([][]string, 0, len(k.Rows))
	for _, r := range k.Rows {
		if len(r) != len(k.Columns) {
			return nil, nil, false
		}
		ks := c19KeyString(c19KeyOf(idx, r))
		if seen[ks] {
			return nil, nil, false
		}
		seen[ks] = true
		rows = append(rows, r)
	}
	sort.SliceStable(rows, func(i, j int) bool { return c19KeyLess(c19KeyOf(idx, rows[i]), c19KeyOf(idx, rows[j])) })
	for len(rows) > 0 {
		n := c19Min(255, len(rows))
		blocks = append(blocks, rows[:n])
		rows = rows[n:]
	}
	for _, u := range pkIdx {
		pk = append(pk, uint32(u))
	}
	return blocks, pk, true
}

// c01BlockSums computes the store sums of a block and of its index the way SaveBlock /
// SaveBlockIndex do (MeowHash of the uncompressed encodings).
func c01BlockSums(blk [][]string, pk []uint32) (blkSum, idxSum []byte) {
	enc := objects.NewStrListEncoder(true)
	var buf bytes.Buffer
	if _, err := objects.WriteBlockTo(enc, &buf, blk); err != nil {
		panic(err)
	}
	bs := meow.Checksum(0, buf.Bytes())
	idx, err := objects.IndexBlock(enc, meow.New(0), blk, pk)
	if err != nil {
		panic(err)
	}
	buf.Reset()
	if _, err := idx.WriteTo(&buf); err != nil {
		panic(err)
	}
	is := meow.Checksum(0, buf.Bytes())
	return bs[:], is[:]
}

func c01NewGate(k c01Case) *c01Gate {
	blocks, pk, ok := c01ExpectedBlocks(k)
	if !ok {
		return nil
	}
	g := &c01Gate{blkOff: map[string]int{}, idxOff: map[string]int{}, deps: k.Deps, done: make([]chan struct{}, len(blocks))}
	for i, b := range blocks {
		bs, is := c01BlockSums(b, pk)
		g.blkOff["blk/"+string(bs)] = i
		g.idxOff["blkidx/"+string(is)] = i
		g.done[i] = make(chan struct{})
	}
	return g
}

func c01SumsEqual(a, b [][]byte) bool {
	if len(a) != len(b) {
		return false
	}
	for i := range a {
		if !bytes.Equal(a[i], b[i]) {
			return false
		}
	}
	return true
}

// c01Ingest runs the implementation on a table case.  Multi-worker ingests of a multi-block
// table through the API are repeated with one worker into a fresh store and compared.
func c01Ingest(ctx *Ctx, k c01Case) *c01Result {
	if len(k.Deps) > 0 && k.Kind != 1 {
		if k.Store == nil {
			k.Store = c01NewStore()
		}
		k.Store.gate = c01NewGate(k)
		defer func() { k.Store.gate = nil }()
	}
	res := c01IngestOnce(ctx, k)
	if k.Store != nil && k.Store.gate != nil {
		g := k.Store.gate
		g.mu.Lock()
		res.Order = append([]int{}, g.order...)
		res.GateLate = g.timedOut
		g.mu.Unlock()
		if sort.IntsAreSorted(res.Order) {
			ctx.Count("forced_schedule_completed_in_offset_order")
		} else {
			ctx.Count("forced_schedule_completed_out_of_order")
		}
		if res.GateLate {
			ctx.Count("forced_schedule_hold_timed_out")
		}
	}
	if k.Kind != 1 && res.Err == nil && k.Workers >= 4 && len(res.Blocks) >= 2 {
		k1 := k
		k1.Store, k1.Deps, k1.Workers = nil, nil, 1
		seq := c01IngestOnce(ctx, k1)
		ctx.Count("compared_with_one_worker")
		switch {
		case seq.Err != nil:
			res.SchedDiff = fmt.Sprintf("one worker fails: %v", seq.Err)
		case !bytes.Equal(seq.Sum, res.Sum):
			res.SchedDiff = fmt.Sprintf("table sum %x with %d workers, %x with one", res.Sum, k.Workers, seq.Sum)
		case !c01SumsEqual(seq.Tbl.Blocks, res.Tbl.Blocks):
			res.SchedDiff = "block list differs"
		case !c01SumsEqual(seq.Tbl.BlockIndices, res.Tbl.BlockIndices):
			res.SchedDiff = "block index list differs"
		case c19KeyString(c01Flatten(seq.TblIdx)) != c19KeyString(c01Flatten(res.TblIdx)) || len(seq.TblIdx) != len(res.TblIdx):
			res.SchedDiff = "table index differs"
		}
	}
	return res
}

func c01Flatten(rows [][]string) []string {
	var o []string
	for _, r := range rows {
		o = append(o, fmt.Sprint(len(r)))
		o = append(o, r...)
	}
	return o
}

func c01IngestOnce(ctx *Ctx, k c01Case) *c01Result {
	res := &c01Result{Cleanup: func() {}}
	var text []byte
	if k.Kind == 4 || k.Kind == 5 {
		// C03 producers that involve no CSV of the case rows: merge result, doctor re-ingest
		c19WithTmp(ctx, func(dir string) {
			if k.Kind == 4 {
				c03ProduceMerge(k, res)
			} else {
				c03ProduceDoctor(k, res)
			}
		})
		return res
	}
	if k.Kind != 2 {
		records := append([][]string{k.Columns}, k.Rows...)
		text = c01Text(records, k.Delim, k.Style)
		back, err := c01Parse(text, k.Delim)
		if err != nil || len(back) != len(records) {
			panic(fmt.Sprintf("case is not a CSV fixpoint: %v (%d vs %d records)", err, len(back), len(records)))
		}
		for i := range back {
			if c19KeyString(back[i]) != c19KeyString(records[i]) {
				panic(fmt.Sprintf("case is not a CSV fixpoint at record %d", i))
			}
		}
	}
	c19WithTmp(ctx, func(dir string) {
		if k.Kind == 2 {
			db := k.Store
			if db == nil {
				db = c01NewStore()
			}
			res.DB = db
			s, err := sorter.NewSorter(sorter.WithRunSize(k.RunSize))
			if err != nil {
				panic(err)
			}
			defer s.Close()
			s.SetColumns(k.Columns)
			s.PK, res.Err = slice.KeyIndices(s.Columns, k.PKNames)
			if res.Err != nil {
				return
			}
			for _, r := range k.Rows {
				if res.Err = s.AddRow(r); res.Err != nil {
					return
				}
			}
			ins := ingest.NewInserter(db, s, logr.Discard(), ingest.WithNumWorkers(k.Workers))
			res.Sum, res.Err = ins.IngestTableFromSorter(s.Columns, s.PK)
			if res.Err == nil {
				c01ReadBack(db, res.Sum, res)
			}
			return
		}
		if k.Kind == 0 || k.Kind == 6 {
			db := k.Store
			if db == nil {
				db = c01NewStore()
			}
			res.DB = db
			opts := []sorter.SorterOption{sorter.WithRunSize(k.RunSize)}
			if k.Delim != ',' {
				opts = append(opts, sorter.WithDelimiter(k.Delim))
			}
			s, err := sorter.NewSorter(opts...)
			if err != nil {
				panic(err)
			}
			sum, err := ingest.IngestTable(db, s, io.NopCloser(bytes.NewReader(text)), k.PKNames, logr.Discard(),
				ingest.WithNumWorkers(k.Workers))
			res.Err = err
			res.Sum = sum
			if err == nil && k.Kind == 6 {
				c03Receive(k, db, sum, res)
				return
			}
			if err == nil {
				c01ReadBack(db, sum, res)
			}
			return
		}
		rd, root := c01NewRepo(ctx)
		fp := filepath.Join(root, "data.csv")
		if err := os.WriteFile(fp, text, 0600); err != nil {
			panic(err)
		}
		args := []string{"commit", "main", fp, "msg", "-n", fmt.Sprint(k.Workers), "--mem-limit", fmt.Sprint(k.RunSize)}
		if len(k.PKNames) > 0 {
			args = append(args, "-p", strings.Join(k.PKNames, ","))
		}
		if k.Delim != ',' {
			args = append(args, "--delimiter", string(k.Delim))
		}
		res.Err = c01Wrgl(io.Discard, args...)
		if res.Err == errC01Hang {
			res.Hang = true
			res.DB = c01NewStore()
			return
		}
		db, err := rd.OpenObjectsStore()
		if err != nil {
			panic(err)
		}
		res.DB = db
		res.RefStore = rd.OpenRefStore()
		res.Cleanup = func() {
			db.Close()
			rd.Close()
			os.RemoveAll(root)
		}
		if res.Err != nil {
			return
		}
		head, err := ref.GetHead(res.RefStore, "main")
		if err != nil {
			panic(fmt.Sprintf("GetHead after successful commit: %v", err))
		}
		com, err := objects.GetCommit(db, head)
		if err != nil {
			panic(err)
		}
		res.Sum = com.Table
		c01ReadBack(db, com.Table, res)
		db.Close()
		var out bytes.Buffer
		// export with the default delimiter or, for every other case, with the case's own
		exportDelim := ','
		exportArgs := []string{"export", "main"}
		if k.Delim != ',' && len(k.Rows)%2 == 0 {
			exportDelim = k.Delim
			exportArgs = append(exportArgs, "--delimiter", string(k.Delim))
		}
		res.ExportErr = c01Wrgl(&out, exportArgs...)
		if res.ExportErr == nil {
			res.Export, res.ExportErr = c01Parse(out.Bytes(), exportDelim)
		}
		db, err = rd.OpenObjectsStore()
		if err != nil {
			panic(err)
		}
		res.DB = db
		res.Cleanup = func() {
			db.Close()
			rd.Close()
			os.RemoveAll(root)
		}
	})
	return res
}

// c01Canon renders rows as crows: (0 cell ...) or (1 keycell ...) for ambiguous keys.
type c01Canon struct {
	amb map[string]bool
	idx []int
}

func c01NewCanon(k c01Case, pk []uint32) *c01Canon {
	pki := make([]int, len(pk))
	for i, u := range pk {
		pki[i] = int(u)
	}
	idx := c19PkIndices(len(k.Columns), pki)
	return &c01Canon{amb: c19Ambiguous(c19RunsOf(k.Rows, k.RunSize), idx), idx: idx}
}

func (cn *c01Canon) rows(rows [][]string) *xt.T {
	t := xt.N()
	for _, r := range rows {
		t.Add(c19Crow(cn.amb, cn.idx, r))
	}
	return t
}

func (cn *c01Canon) blocks(blocks [][][]string) *xt.T {
	t := xt.N()
	for _, b := range blocks {
		t.Add(cn.rows(b))
	}
	return t
}

// c01PkIndicesOf: the key column indices; ok=false when a name is no column or a column
// is named twice (such keys must be refused).
func c01PkIndicesOf(columns, names []string) ([]int, bool) {
	var idx []int
	taken := map[int]bool{}
	for _, n := range names {
		found := false
		for i, c := range columns {
			if c == n {
				if taken[i] {
					return nil, false
				}
				taken[i] = true
				idx = append(idx, i)
				found = true
			}
		}
		if !found {
			return nil, false
		}
	}
	return idx, true
}

// c01Judge is the specification oracle shared by C01/C02/C03 for the stored rows.
func c01Judge(k c01Case, res *c01Result, bad func(class, format string, a ...interface{})) {
	over := false
	for _, r := range k.Rows {
		for _, c := range r {
			if len(c) > 65535 {
				over = true
			}
		}
	}
	pkIdx, pkOK := c01PkIndicesOf(k.Columns, k.PKNames)
	if res.Hang {
		bad("commit-hangs", "wrgl commit did not return within %v (workers %d, run size %d)", c01Watchdog, k.Workers, k.RunSize)
		return
	}
	if res.Err != nil {
		if !over && pkOK {
			bad("ingest-error", "ingestion failed on a valid input: %v", res.Err)
		}
		if ks, _ := objects.GetAllTableKeys(res.DB); len(ks) != 0 {
			bad("error-left-table", "ingestion failed but %d table objects are stored", len(ks))
		}
		if res.RefStore != nil {
			if _, err := ref.GetHead(res.RefStore, "main"); err == nil {
				bad("error-left-commit", "commit failed but the branch has a head")
			}
		}
		return
	}
	if over {
		bad("overlimit-stored", "a cell over 65535 bytes was accepted")
		return
	}
	if !pkOK {
		bad("unknown-key-accepted", "unknown key column accepted")
		return
	}
	tbl := res.Tbl
	// header
	if len(tbl.Columns) != len(k.Columns) {
		bad("columns-differ", "stored %q for header %q", tbl.Columns, k.Columns)
		return
	}
	seen := map[string]bool{}
	for i, c := range tbl.Columns {
		if k.Columns[i] != "" && c != k.Columns[i] || k.Columns[i] == "" && !strings.HasPrefix(c, "unnamed__") || seen[c] && k.Columns[i] == "" {
			bad("columns-differ", "stored %q for header %q", tbl.Columns, k.Columns)
		}
		seen[c] = true
	}
	if len(tbl.PK) != len(pkIdx) {
		bad("pk-differs", "stored pk %v, expected %v", tbl.PK, pkIdx)
	} else {
		for i := range pkIdx {
			if int(tbl.PK[i]) != pkIdx[i] {
				bad("pk-differs", "stored pk %v, expected %v", tbl.PK, pkIdx)
			}
		}
	}
	// rows: sort + dedupe of the input
	idx := c19PkIndices(len(k.Columns), pkIdx)
	byKey := map[string]map[string]int{}
	var keys [][]string
	for _, r := range k.Rows {
		key := c19KeyOf(idx, r)
		ks := c19KeyString(key)
		if byKey[ks] == nil {
			byKey[ks] = map[string]int{}
			keys = append(keys, key)
		}
		byKey[ks][c19KeyString(r)]++
	}
	sort.Slice(keys, func(i, j int) bool { return c19KeyLess(keys[i], keys[j]) })
	var stored [][]string
	for _, b := range res.Blocks {
		stored = append(stored, b...)
	}
	if int(tbl.RowsCount) != len(stored) {
		bad("rowcount", "RowsCount %d but %d rows stored", tbl.RowsCount, len(stored))
	}
	if len(res.Order) > 0 {
		// forced schedule: the blocks must be stored in key order whatever order they were completed in
		for bi := 1; bi < len(res.Blocks); bi++ {
			if len(res.Blocks[bi]) > 0 && len(res.Blocks[bi-1]) > 0 && len(res.Blocks[bi][0]) == len(k.Columns) && len(res.Blocks[bi-1][0]) == len(k.Columns) &&
				!c19KeyLess(c19KeyOf(idx, res.Blocks[bi-1][0]), c19KeyOf(idx, res.Blocks[bi][0])) {
				bad("rows-out-of-order", "blocks completed in the order %v are stored out of key order: block %d starts with key %q, block %d with %q",
					res.Order, bi-1, c19KeyOf(idx, res.Blocks[bi-1][0]), bi, c19KeyOf(idx, res.Blocks[bi][0]))
				break
			}
		}
	}
	if res.SchedDiff != "" {
		bad("schedule-dependent-table", "%s (completion order of the blocks: %v)", res.SchedDiff, res.Order)
	}
	// BlockIndices[k] must be the index of Blocks[k]
	if len(tbl.BlockIndices) != len(tbl.Blocks) {
		bad("index-count", "%d block indices for %d blocks", len(tbl.BlockIndices), len(tbl.Blocks))
	} else {
		for bi, b := range res.Blocks {
			shape := true
			for _, r := range b {
				if len(r) != len(k.Columns) {
					shape = false
				}
			}
			if !shape {
				continue
			}
			if _, is := c01BlockSums(b, tbl.PK); !bytes.Equal(is, tbl.BlockIndices[bi]) {
				bad("block-index-mismatch", "BlockIndices[%d] = %x is not the index of Blocks[%d] (%x); completion order %v",
					bi, tbl.BlockIndices[bi], bi, is, res.Order)
				break
			}
		}
	}
	for i, r := range stored {
		if len(r) != len(k.Columns) {
			bad("row-altered", "stored row %d has %d cells", i, len(r))
			return
		}
		key := c19KeyOf(idx, r)
		if i >= len(keys) {
			bad("row-duplicated", "more stored rows (%d) than distinct keys (%d)", len(stored), len(keys))
			return
		}
		if c19KeyString(key) != c19KeyString(keys[i]) {
			if i > 0 && c19KeyString(key) == c19KeyString(c19KeyOf(idx, stored[i-1])) {
				bad("row-duplicated", "key %q stored twice (rows %d,%d)", key, i-1, i)
			} else if byKey[c19KeyString(key)] == nil {
				bad("row-altered", "stored row %d has key %q which is not an input key", i, key)
			} else {
				bad("row-dropped-or-misordered", "stored row %d has key %q, expected %q", i, key, keys[i])
			}
			return
		}
		if byKey[c19KeyString(key)][c19KeyString(r)] == 0 {
			bad("row-altered", "stored row %d %.80q is not an input row with key %q", i, r, key)
			return
		}
	}
	if len(stored) != len(keys) {
		bad("row-dropped", "%d rows stored for %d distinct keys (first missing key %q)", len(stored), len(keys), keys[len(stored)])
	}
}

// c01JudgeExport compares the parsed export with the stored table.
func c01JudgeExport(res *c01Result, bad func(class, format string, a ...interface{})) {
	if res.ExportErr != nil {
		bad("export-error", "wrgl export: %v", res.ExportErr)
		return
	}
	want := [][]string{res.Tbl.Columns}
	for _, b := range res.Blocks {
		want = append(want, b...)
	}
	same := len(want) == len(res.Export)
	for i := 0; same && i < len(want); i++ {
		same = c19KeyString(want[i]) == c19KeyString(res.Export[i])
	}
	if same {
		return
	}
	// known shape: a single-column table whose rows with an empty only cell come out as blank lines
	if len(res.Tbl.Columns) == 1 {
		var filtered [][]string
		lost := 0
		for i, r := range want {
			if i > 0 && r[0] == "" {
				lost++
				continue
			}
			filtered = append(filtered, r)
		}
		ok := lost > 0 && len(filtered) == len(res.Export)
		for i := 0; ok && i < len(filtered); i++ {
			ok = c19KeyString(filtered[i]) == c19KeyString(res.Export[i])
		}
		if ok {
			bad("export-single-empty-cell-row-lost", "export of a single-column table drops %d row(s) whose only cell is empty (written as a blank line)", lost)
			return
		}
	}
	bad("export-mismatch", "parsed export has %d records, stored table %d (header included) or contents differ", len(res.Export), len(want))
}

func runC01(ctx *Ctx, c *xt.T) (*xt.T, Verdict) {
	k := c01Decode(c)
	res := c01Ingest(ctx, k)
	defer res.Cleanup()
	v := OK()
	bad := func(class, format string, a ...interface{}) {
		if v.OK {
			v = Fail(class, format, a...)
		}
	}
	c01Judge(k, res, bad)
	if res.Err != nil {
		return xt.N(xt.LI(1), xt.N(), xt.N(), xt.LI(0), xt.N(), xt.N()), v
	}
	cn := c01NewCanon(k, res.Tbl.PK)
	export := xt.N()
	if k.Kind == 1 {
		c01JudgeExport(res, bad)
		if len(res.Export) > 0 {
			export.Add(c19Crow(nil, nil, res.Export[0]))
			for _, r := range res.Export[1:] {
				if len(r) != len(k.Columns) {
					export.Add(xt.N(xt.LI(9)))
					continue
				}
				export.Add(c19Crow(cn.amb, cn.idx, r))
			}
		}
	}
	pk := make([]int, len(res.Tbl.PK))
	for i, u := range res.Tbl.PK {
		pk[i] = int(u)
	}
	return xt.N(xt.LI(0), xt.Strs(res.Tbl.Columns), xt.Ints(pk), xt.L(uint64(res.Tbl.RowsCount)),
		cn.blocks(res.Blocks), export), v
}

// ------------------------------------------------------------------ generation

var c01Cells = []string{"", "", "a", "b", "x", "0", "1", "00", "\"", "\"\"", ",", ";", "|", "\t", "\n", "\r", "a\nb",
	"\x00", "\xff", "\xfe\xff", "é", " ", " a", "a ", "'", "\\", "\\.", "a,b", "a\"b"}

// delimiters, incl. runes that take 2 and 3 bytes in UTF-8
var c01Delims = []rune{',', ',', ';', '\t', '|', '§', '¦', '·', '€'}
var c01Workers = []int{1, 3, 4, 8, 16}

type c01Gen struct {
	ctx   *Ctx
	cases []Case
	huge  uint64
}

func (g *c01Gen) add(tag string, nt bool, k c01Case) {
	orig := append([][]string{k.Columns}, k.Rows...)
	recs, ok := c01StableStyle(orig, k.Delim, k.Style)
	if ok && k.Style&c01StyleRaw != 0 {
		// raw text: the expectation is the generator's own cell list, never a re-parse
		for i := range recs {
			if c19KeyString(recs[i]) != c19KeyString(orig[i]) {
				ok = false
			}
		}
	}
	if !ok {
		g.ctx.Count("gen_not_csv_stable_skipped")
		return
	}
	k.Columns, k.Rows = recs[0], recs[1:]
	for _, r := range k.Rows {
		if len(r) != len(k.Columns) {
			g.ctx.Count("gen_ragged_skipped")
			return
		}
	}
	g.cases = append(g.cases, Case{Tag: tag, Nontrivial: nt, C: c01Tree(k)})
}

func (g *c01Gen) runSize() uint64 {
	switch g.ctx.Pick(5) {
	case 0:
		g.ctx.Count("runsize_1")
		return 1
	case 1:
		g.ctx.Count("runsize_64")
		return 64
	case 2:
		g.ctx.Count("runsize_4096")
		return 4096
	case 3:
		g.ctx.Count("runsize_huge")
		return g.huge
	}
	g.ctx.Count("runsize_other")
	return uint64(8 + g.ctx.Pick(600))
}

func (g *c01Gen) arrival() []int {
	a := make([]int, g.ctx.Pick(5))
	for i := range a {
		a[i] = g.ctx.Pick(4)
	}
	return a
}

func c01ColNames(n int) []string {
	names := []string{"a", "b", "c", "d", "e", "f", "g"}
	return append([]string{}, names[:n]...)
}

// randTable builds a random table: unique selects unique keys (for C02).
func (g *c01Gen) randTable(maxRows int, unique bool) c01Case {
	ctx := g.ctx
	ncols := 1 + ctx.Pick(6)
	cols := c01ColNames(ncols)
	switch ctx.Pick(12) {
	case 0:
		cols[ctx.Pick(ncols)] = "" // renamed to unnamed__1
		ctx.Count("header_empty_name")
	case 1:
		cols[ctx.Pick(ncols)] = "col \"x\", y"
		ctx.Count("header_odd_name")
	}
	var pk []string
	var pkIdx []int
	if ctx.Pick(5) != 0 {
		perm := ctx.Rng.Perm(ncols)
		for _, u := range perm[:1+ctx.Pick(ncols)] {
			if cols[u] != "" {
				pk = append(pk, cols[u])
				pkIdx = append(pkIdx, u)
			}
		}
	}
	inPK := map[int]bool{}
	for _, u := range pkIdx {
		inPK[u] = true
	}
	sizes := []int{0, 1, 2, 3, 7, 20, 60, 254, 255, 256, 300, 509, 510, 511, 800}
	nrows := sizes[ctx.Pick(len(sizes))]
	if nrows > maxRows {
		nrows = ctx.Pick(maxRows + 1)
	}
	if ctx.Pick(3) != 0 && nrows > 60 {
		nrows = ctx.Pick(60)
	}
	alpha := 3 + ctx.Pick(len(c01Cells)-3)
	serialCol := -1
	if nrows > 20 || unique {
		if len(pkIdx) > 0 {
			serialCol = pkIdx[len(pkIdx)-1]
		} else {
			serialCol = 0
		}
	}
	rows := make([][]string, 0, nrows+4)
	for j := 0; j < nrows; j++ {
		r := make([]string, ncols)
		for cidx := range r {
			if cidx == serialCol {
				if unique {
					r[cidx] = fmt.Sprintf("%04d", j)
				} else {
					r[cidx] = fmt.Sprintf("%03d", ctx.Pick(nrows))
				}
			} else {
				r[cidx] = c01Cells[ctx.Pick(alpha)]
			}
		}
		rows = append(rows, r)
	}
	if unique {
		ctx.Rng.Shuffle(len(rows), func(i, j int) { rows[i], rows[j] = rows[j], rows[i] })
	} else if nrows > 0 {
		// duplicate keys with another payload, at random places and around the block boundary
		for d := ctx.Pick(4); d > 0; d-- {
			src := rows[ctx.Pick(len(rows))]
			dup := append([]string{}, src...)
			for cidx := range dup {
				if !inPK[cidx] && len(pkIdx) > 0 && ctx.Pick(2) == 0 {
					dup[cidx] = c01Cells[ctx.Pick(len(c01Cells))]
				}
			}
			pos := ctx.Pick(len(rows) + 1)
			if len(rows) > 256 && ctx.Pick(2) == 0 {
				pos = 253 + ctx.Pick(4)
			}
			rows = append(rows[:pos], append([][]string{dup}, rows[pos:]...)...)
			ctx.Count("rows_duplicate_key_inserted")
		}
	}
	if len(pk) == 0 {
		ctx.Count("pk_none")
	} else if len(pk) > 1 {
		ctx.Count("pk_composite")
	} else {
		ctx.Count("pk_single")
	}
	if len(rows) >= 255 {
		ctx.Count("multi_block")
	}
	return c01Case{Kind: 0, Columns: cols, PKNames: pk, Rows: rows, RunSize: g.runSize(), Arrival: g.arrival(),
		Workers: c01Workers[ctx.Pick(len(c01Workers))], Delim: c01Delims[ctx.Pick(len(c01Delims))]}
}

// c01ForcedSchedule returns, for a table of n blocks, a forced worker schedule: the holds
// (deps), the matching scheduling keys for the model (arrival[i] = rank of block i in the
// intended completion order) and the worker count it needs (effective workers = n - 2).
//
//	pattern 0 (n>=3): block 0 after blocks 1 and 2        -> 1 2 0 ...     2 effective workers
//	pattern 1 (n>=4): 0 after 1, 2 after 3               -> 1 0 3 2 ...   2 effective workers
//	pattern 2 (n>=3): 0 after 2, 1 after 0               -> 2 0 1 ...     4 effective workers
//	pattern 3       : k after k+1 for every k (reverse)  -> n-1 ... 1 0   n effective workers
func c01ForcedSchedule(pattern, n int) (deps [][]int, arrival []int, workers int) {
	deps = make([][]int, n)
	order := []int{}
	switch pattern {
	case 0:
		deps[0] = []int{1, 2}
		order = append(order, 1, 2, 0)
		workers = 4
	case 1:
		deps[0], deps[2] = []int{1}, []int{3}
		order = append(order, 1, 0, 3, 2)
		workers = 4
	case 2:
		deps[0], deps[1] = []int{2}, []int{0}
		order = append(order, 2, 0, 1)
		workers = 6
	default:
		for k := 0; k < n-1; k++ {
			deps[k] = []int{k + 1}
		}
		for k := n - 1; k >= 0; k-- {
			order = append(order, k)
		}
		workers = n + 2
	}
	for k := len(order); k < n; k++ {
		order = append(order, k)
	}
	arrival = make([]int, n)
	for rank, off := range order {
		arrival[off] = rank
	}
	return deps, arrival, workers
}

// c01ForcedOrder forces the blocks to complete exactly in the given order (a permutation of
// 0..n-1): every block is held until its predecessor in that order has been completed, with
// one effective worker per block (n+2 requested workers), so every permutation is reachable.
func c01ForcedOrder(order []int) (deps [][]int, arrival []int, workers int) {
	n := len(order)
	deps = make([][]int, n)
	arrival = make([]int, n)
	for rank, off := range order {
		arrival[off] = rank
		if rank > 0 {
			deps[off] = []int{order[rank-1]}
		}
	}
	return deps, arrival, n + 2
}

// c01Perms lists every permutation of 0..n-1 in lexicographic order.
func c01Perms(n int) [][]int {
	var out [][]int
	var rec func(prefix []int, used int)
	rec = func(prefix []int, used int) {
		if len(prefix) == n {
			out = append(out, append([]int{}, prefix...))
			return
		}
		for i := 0; i < n; i++ {
			if used&(1<<uint(i)) == 0 {
				rec(append(prefix, i), used|1<<uint(i))
			}
		}
	}
	rec(nil, 0)
	return out
}

// forcedOrderCases: for tables of 3 and 4 blocks EVERY completion order of the blocks (6 + 24),
// plus count random orders of 5 and 6 blocks.
func (g *c01Gen) forcedOrderCases(count int) []c01Case {
	ctx := g.ctx
	var orders [][]int
	orders = append(orders, c01Perms(3)...)
	orders = append(orders, c01Perms(4)...)
	for i := 0; i < count; i++ {
		orders = append(orders, ctx.Rng.Perm(5+i%2))
	}
	var out []c01Case
	for i, order := range orders {
		nblocks := len(order)
		nrows := nblocks * 255
		if i%2 == 1 {
			nrows -= 1 + ctx.Pick(200)
		}
		rows := make([][]string, nrows)
		for j := range rows {
			rows[j] = []string{fmt.Sprintf("%04d", j), c01Cells[ctx.Pick(len(c01Cells))]}
		}
		ctx.Rng.Shuffle(len(rows), func(a, b int) { rows[a], rows[b] = rows[b], rows[a] })
		deps, arrival, workers := c01ForcedOrder(order)
		kind := 0
		if i%4 == 3 {
			kind = 2
		}
		out = append(out, c01Case{Kind: kind, Columns: []string{"a", "b"}, PKNames: []string{"a"}, Rows: rows,
			RunSize: []uint64{g.huge, 4096}[i%2], Arrival: arrival, Workers: workers, Delim: ',', Deps: deps})
		ctx.Count(fmt.Sprintf("forced_completion_orders_%d_blocks", nblocks))
	}
	return out
}

// forcedCases builds tables of 3..5 blocks with unique keys whose ingestion is forced to
// complete the blocks out of offset order.
func (g *c01Gen) forcedCases(count int) []c01Case {
	ctx := g.ctx
	var out []c01Case
	for i := 0; i < count; i++ {
		pattern := i % 4
		nblocks := 3 + (i/4+i)%3
		if pattern == 1 && nblocks < 4 {
			nblocks = 4
		}
		nrows := nblocks * 255
		if i%2 == 1 {
			nrows -= 1 + ctx.Pick(200) // last block partial
		}
		rows := make([][]string, nrows)
		for j := range rows {
			rows[j] = []string{fmt.Sprintf("%04d", j), c01Cells[ctx.Pick(len(c01Cells))], fmt.Sprint(j % 7)}
		}
		ctx.Rng.Shuffle(len(rows), func(a, b int) { rows[a], rows[b] = rows[b], rows[a] })
		deps, arrival, workers := c01ForcedSchedule(pattern, nblocks)
		kind := 0
		if i%3 == 2 {
			kind = 2
		}
		pk := []string{"a"}
		if i%5 == 4 {
			pk = nil
		}
		out = append(out, c01Case{Kind: kind, Columns: []string{"a", "b", "c"}, PKNames: pk, Rows: rows,
			RunSize: []uint64{g.huge, 4096, 64}[i%3], Arrival: arrival, Workers: workers, Delim: ',', Deps: deps})
		ctx.Count(fmt.Sprintf("forced_schedule_pattern_%d", pattern))
	}
	return out
}

var c01BlankCells = []string{"", " ", "  ", "\t", " a", "a ", " a ", "a", "7", " 7", "7 ", " 7 ", "\t7", "7\t", "x y", " x,y", "q\"q ", " \n", "A", " ;", "| "}
var c01BlankNames = []string{"a", " a", "a ", "\tb", "b", " c ", "d", "e\t", " ", "f g"}

// rawTable builds a table whose text is written by hand (style raw): cells and column names
// that start / end with blanks, cells of blanks only, keys that differ only by blanks.
func (g *c01Gen) rawTable(kind int) c01Case {
	ctx := g.ctx
	ncols := 1 + ctx.Pick(4)
	perm := ctx.Rng.Perm(len(c01BlankNames))
	cols := make([]string, ncols)
	for i := range cols {
		cols[i] = c01BlankNames[perm[i]]
	}
	var pk []string
	if ctx.Pick(6) != 0 {
		p := ctx.Rng.Perm(ncols)
		for _, u := range p[:1+ctx.Pick(ncols)] {
			pk = append(pk, cols[u])
		}
	}
	nrows := 1 + ctx.Pick(30)
	if ctx.Pick(15) == 0 {
		nrows = 250 + ctx.Pick(20)
	}
	alpha := 4 + ctx.Pick(len(c01BlankCells)-3)
	rows := make([][]string, nrows)
	for j := range rows {
		r := make([]string, ncols)
		for cidx := range r {
			r[cidx] = c01BlankCells[ctx.Pick(alpha)]
			if nrows > 40 && cidx == 0 {
				r[cidx] = fmt.Sprintf("%s%d%s", []string{"", " ", "\t"}[ctx.Pick(3)], j/3, []string{"", " ", "  "}[ctx.Pick(3)])
			}
		}
		rows[j] = r
	}
	style := c01StyleRaw
	if ctx.Pick(2) == 0 {
		style |= c01StyleCRLF
		ctx.Count("raw_text_crlf")
	}
	if ctx.Pick(3) == 0 {
		style |= c01StyleNoFinal
		ctx.Count("raw_text_no_final_newline")
	}
	ctx.Count("raw_text_tables")
	return c01Case{Kind: kind, Columns: cols, PKNames: pk, Rows: rows, RunSize: g.runSize(), Arrival: g.arrival(),
		Workers: c01Workers[ctx.Pick(len(c01Workers))], Delim: c01Delims[ctx.Pick(len(c01Delims))], Style: style}
}

// c01CLINames reports whether the column names can be passed through "-p a,b".
func c01CLINames(cols []string) bool {
	for _, c := range cols {
		if c == "" || strings.ContainsAny(c, ",\"\r\n") {
			return false
		}
	}
	return true
}

func genC01(ctx *Ctx) []Case {
	g := &c01Gen{ctx: ctx, huge: uint64(1) << 40}
	ab := []string{"a", "b"}
	// ---- witnesses ----
	g.add("witness", true, c01Case{nil, 0, ab, []string{"a"}, [][]string{{"", "1"}, {"x", "2"}}, g.huge, nil, 1, ',', nil, 0, nil})    // 8d128f5
	g.add("witness", true, c01Case{nil, 0, ab, []string{"a"}, [][]string{{"", "1"}, {"x", "2"}}, 1, []int{1, 0}, 4, ';', nil, 0, nil}) // spilled
	big := func(n int) string { return strings.Repeat("z", n) }
	g.add("witness", true, c01Case{nil, 0, []string{"a", "b", "c", "d"}, []string{"a"},
		[][]string{{"k", big(30000), big(30000), big(30000)}, {"j", "1", "2", "3"}}, g.huge, nil, 1, ',', nil, 0, nil}) // eebb087 row > 64KiB
	g.add("witness", true, c01Case{nil, 0, ab, []string{"a"}, [][]string{{"k", big(65535)}, {"j", "1"}}, 100, nil, 3, ',', nil, 0, nil})
	g.add("witness", true, c01Case{nil, 0, ab, []string{"a"}, [][]string{{"k", big(65536)}, {"j", "1"}}, g.huge, nil, 1, ',', nil, 0, nil}) // refused
	g.add("witness", true, c01Case{nil, 0, ab, []string{"a"}, [][]string{{"j", "1"}, {"k", big(70000)}}, 1, nil, 4, ',', nil, 0, nil})      // 9a70dee
	g.add("witness", true, c01Case{nil, 0, ab, []string{"nope"}, [][]string{{"j", "1"}}, 1, nil, 1, ',', nil, 0, nil})                      // unknown key
	g.add("witness", true, c01Case{nil, 0, []string{"a"}, []string{"a"}, [][]string{{""}, {"x"}}, g.huge, nil, 1, ',', nil, 0, nil})
	g.add("witness", true, c01Case{nil, 0, []string{"unnamed__1", "", "k"}, []string{"k"}, [][]string{{"1", "2", "b"}, {"3", "4", "a"}}, g.huge, nil, 1, ',', nil, 0, nil}) // renamed to unnamed__2
	g.add("witness", true, c01Case{nil, 0, ab, []string{"a", "a"}, [][]string{{"2", "x"}, {"1", "y"}, {"2", "z"}}, 1, nil, 4, ',', nil, 0, nil})                            // e2f1265 key column named twice: refused
	g.add("witness", true, c01Case{nil, 2, ab, []string{"b", "a", "b"}, [][]string{{"2", "x"}, {"1", "y"}}, 4096, nil, 1, ',', nil, 0, nil})
	g.add("witness", true, c01Case{nil, 0, []string{"a", "a", "b"}, []string{"a"}, [][]string{{"1", "2", "x"}, {"1", "1", "y"}, {"1", "2", "z"}}, 1, nil, 1, ',', nil, 0, nil}) // KeyIndices takes every matching column
	g.add("witness", true, c01Case{nil, 0, []string{"", "k", ""}, []string{"k"}, [][]string{{"1", "b", "2"}, {"3", "a", "4"}}, 1, nil, 1, ',', nil, 0, nil})                    // two empty names
	g.add("witness", true, c01Case{nil, 1, []string{"a"}, []string{"a"}, [][]string{{""}, {"x"}}, 4096, nil, 1, ',', nil, 0, nil})                                              // known finding (export)
	g.add("witness", true, c01Case{nil, 1, ab, []string{"a"}, [][]string{{"", ""}, {"x", "y"}}, 4096, nil, 1, ',', nil, 0, nil})
	{
		var rows [][]string
		for i := 0; i < 300; i++ {
			rows = append(rows, []string{fmt.Sprintf("%04d", i), "v"})
		}
		rows = append(rows, []string{"0254", "dup"})
		g.add("witness", true, c01Case{nil, 0, ab, []string{"a"}, rows, g.huge, []int{1, 0}, 4, ',', nil, 0, nil}) // fa79010
	}
	// ---- exhaustive tiny scope: cells {"", a, b}; every key choice; run sizes 1 / ~2 rows / none ----
	vals := []string{"", "a", "b"}
	maxRows2 := 2
	if ctx.Thorough() {
		maxRows2 = 3
	}
	for ncols := 1; ncols <= 2; ncols++ {
		maxRows := 3
		if ncols == 2 {
			maxRows = maxRows2
		}
		var pks [][]string
		if ncols == 1 {
			pks = [][]string{nil, {"a"}}
		} else {
			pks = [][]string{nil, {"a"}, {"b"}, {"a", "b"}, {"b", "a"}}
		}
		nvals := 3
		if ncols == 2 {
			nvals = 9
		}
		var rec func(prefix [][]string)
		rec = func(prefix [][]string) {
			for pi, pk := range pks {
				for ri, rs := range []uint64{1, 17, g.huge} {
					g.add("exh", len(prefix) >= 2, c01Case{nil, 0, c01ColNames(ncols), pk, prefix, rs, []int{ri, pi % 2},
						c01Workers[(pi+ri)%len(c01Workers)], ',', nil, 0, nil})
					ctx.Count("exhaustive_cases")
				}
			}
			if len(prefix) == maxRows {
				return
			}
			for v := 0; v < nvals; v++ {
				var r []string
				if ncols == 1 {
					r = []string{vals[v]}
				} else {
					r = []string{vals[v/3], vals[v%3]}
				}
				rec(append(append([][]string{}, prefix...), r))
			}
		}
		rec(nil)
	}
	// ---- structured random ----
	n := 140
	if ctx.Thorough() {
		n = 2500
	}
	for i := 0; i < n; i++ {
		k := g.randTable(800, false)
		if i%3 == 1 {
			k.Style = 1 + ctx.Pick(7)
			ctx.Count("rand_with_text_style")
		}
		g.add("rand", len(k.Rows) >= 2, k)
	}
	// big cells
	nb := 4
	if ctx.Thorough() {
		nb = 30
	}
	for i := 0; i < nb; i++ {
		k := g.randTable(12, false)
		if len(k.Rows) == 0 {
			continue
		}
		ln := []int{65535, 65536, 70000, 40000}[ctx.Pick(4)]
		r := k.Rows[ctx.Pick(len(k.Rows))]
		r[ctx.Pick(len(r))] = big(ln)
		if ln == 40000 && len(r) > 2 { // row > 64KiB: a later cell starts past offset 65535
			r[0], r[1] = big(40000), big(40000)
		}
		ctx.Count(fmt.Sprintf("bigcell_%d", ln))
		g.add("bigcell", true, k)
	}
	// ---- raw CSV text: unquoted cells with leading / trailing blanks, CRLF, no final newline ----
	g.add("witness", true, c01Case{Kind: 0, Columns: []string{"k", " v"}, PKNames: []string{"k"}, Style: c01StyleRaw,
		Rows: [][]string{{"7", "a"}, {" 7", " alice"}, {"7 ", "b "}, {" ", "  "}, {"", "\t"}}, RunSize: g.huge, Workers: 1, Delim: ','})
	g.add("witness", true, c01Case{Kind: 1, Columns: []string{" k", "v "}, PKNames: []string{" k"}, Style: c01StyleRaw | c01StyleCRLF | c01StyleNoFinal,
		Rows: [][]string{{"7", "a"}, {" 7", " alice"}, {"7 ", "b "}}, RunSize: 4096, Workers: 1, Delim: ','})
	nraw := 60
	if ctx.Thorough() {
		nraw = 1200
	}
	for i := 0; i < nraw; i++ {
		kind := 0
		if i%10 == 9 {
			kind = 1
		}
		k := g.rawTable(kind)
		if kind == 1 {
			if !c01CLINames(k.Columns) {
				k.Kind = 0
			} else if k.RunSize == g.huge {
				k.RunSize = 1 << 30
			}
		}
		g.add("raw-text", len(k.Rows) >= 2, k)
	}
	// ---- CLI flag stream: wrgl commit / export driven through their flag parsers: --delimiter
	// (every delimiter incl. multi-byte runes), -p, --mem-limit, -n ----
	ncf := 14
	if ctx.Thorough() {
		ncf = 160
	}
	for i := 0; i < ncf; i++ {
		var k c01Case
		if i%2 == 0 {
			k = g.rawTable(1)
		} else {
			k = g.randTable(120, false)
		}
		k.Kind = 1
		if !c01CLINames(k.Columns) {
			k.Columns = c01ColNames(len(k.Columns))
			k.PKNames = nil
			if i%3 != 0 {
				k.PKNames = []string{k.Columns[len(k.Columns)-1]}
			}
		}
		k.Delim = c01Delims[1+i%(len(c01Delims)-1)]
		k.Workers = c01Workers[i%len(c01Workers)]
		k.RunSize = []uint64{1, 64, 4096, 1 << 30}[i%4]
		ctx.Count(fmt.Sprintf("cli_flag_delimiter_U+%04X", k.Delim))
		g.add("cli-flags", len(k.Rows) >= 2, k)
	}
	// ---- forced worker schedules: blocks complete out of offset order ----
	nf := 4
	if ctx.Thorough() {
		nf = 12
	}
	for _, k := range g.forcedCases(nf) {
		g.add("forced-schedule", true, k)
	}
	// every completion order of 3 and 4 blocks (one worker per block)
	for _, k := range g.forcedOrderCases(nf) {
		g.add("forced-order", true, k)
	}
	// ---- through the CLI: wrgl commit + wrgl export ----
	nc := 8
	if ctx.Thorough() {
		nc = 60
	}
	for i := 0; i < nc; i++ {
		k := g.randTable(300, false)
		k.Kind = 1
		okNames := true
		for _, c := range k.Columns {
			if strings.ContainsAny(c, ", \"") {
				okNames = false
			}
		}
		if !okNames {
			continue
		}
		if k.RunSize == g.huge {
			k.RunSize = 1 << 30
		}
		ctx.Count("cli_cases")
		g.add("cli", len(k.Rows) >= 2, k)
	}
	return g.cases
}
