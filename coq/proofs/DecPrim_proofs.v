(** Specs of the Parser / objline layer (model/DecPrim.v). *)
From Coq Require Import String.
From Coq Require Import List Lia Arith ZArith ZifyNat ZifyN ZifyBool.
From W.lib Require Import Tree Bytes GoSlice Reader.
From W.model Require Import DecPrim.
From W.proofs Require Import DecSpec_proofs.
Local Open Scope N_scope.

Definition zc (c : N) (n : nat) : Z := (Z.of_N c * Z.of_nat n)%Z.

Ltac arith := cbn [parser_buf_charge length app fst snd Nat.add] in *; unfold zc in *; lia.
Ltac sret := apply spec_ret; cbn beta; [try arith | ].
Ltac sfail := apply spec_fail; [discriminate | try arith].


Lemma spec_rd_exact F c K st n : (0 <= K)%Z ->
  spec F c (fun _ => - zc c n)%Z K (rd_exact st n)
       (fun d n1 => n1 = n /\ length d = n /\ wf_bytes d).
Proof.
  intros HK. unfold rd_exact, zc.
  eapply (spec_bind _ _ _ K); [apply spec_rdf|lia|].
  intros [d e] n1 (Hn & Hw & Hc). cbn [fst].
  destruct Hc as [[-> Hl]|[[-> [-> Hn0]]|[-> Hl]]].
  - sret. subst. repeat split; auto; lia.
  - sfail.
  - sfail.
Qed.

Definition nb_J (c : N) (n : nat) (x : bytes * ioerr) : Z :=
  (Z.of_N (parser_buf_charge n) - match snd x with None => zc c n | Some _ => 0 end)%Z.
Definition nb_R (n : nat) (x : bytes * ioerr) (n1 : nat) : Prop :=
  length (fst x) = n /\ wf_bytes (fst x) /\
  ((snd x = None /\ n1 = n) \/ (snd x = Some CEof /\ n1 = 0%nat /\ (0 < n)%nat) \/
   (snd x = Some CUnexp /\ (0 < n1 < n)%nat)).

Lemma spec_next_bytes F c K n : spec F c (nb_J c n) K (next_bytes n) (nb_R n).
Proof.
  unfold next_bytes, nb_J, nb_R, zc.
  eapply (spec_bind _ _ _ K); [apply spec_alloc|lia|]. intros _ n0 ->.
  eapply (spec_bind _ _ _ (K - Z.of_N (parser_buf_charge n))%Z); [apply spec_rdf|lia|].
  intros [d e] n1 (Hn & Hw & Hc). cbn [fst snd].
  sret.
  - cbn [fst snd]. destruct Hc as [[-> Hl]|[[-> [-> Hn0]]|[-> Hl]]]; cbn; lia.
  - cbn [fst snd]. rewrite pad_length. split; auto. split; [now apply wf_pad|].
    destruct Hc as [[-> Hl]|[[-> [-> Hn0]]|[-> Hl]]]; cbn in *.
    + left; split; auto; lia.
    + right; left; repeat split; auto; lia.
    + right; right; split; auto; lia.
Qed.

(** fixed-size scalars: NextBytes(w) then a big-endian read *)
Lemma spec_scalar F c K (w : nat) (f : bytes -> res N) (bound : N) :
  (forall b, length b = w -> wf_bytes b -> exists v, f b = Ok v /\ v < bound) ->
  (Z.of_N (parser_buf_charge w) <= K)%Z ->
  spec F c (fun _ => Z.of_N (parser_buf_charge w) - zc c w)%Z K
       ('(b, e) <- next_bytes w ;; match e with Some c0 => Fail c0 | None => lift (f b) end)%prog
       (fun v n1 => n1 = w /\ v < bound).
Proof.
  intros Hf HK.
  eapply (spec_bind _ _ _ K); [apply spec_next_bytes|lia|].
  intros [b e] n1 (Hl & Hw & Hc). unfold nb_J. cbn [fst snd] in *.
  destruct Hc as [[-> Hn]|[[-> [Hn Hn0]]|[-> Hn]]].
  - destruct (Hf b Hl Hw) as (v & -> & Hv). cbn [lift]. sret. split; auto. lia.
  - sfail.
  - sfail.
Qed.

Lemma spec_read_u16 F c K : (8 <= K)%Z ->
  spec F c (fun _ => 8 - zc c 2)%Z K read_u16 (fun v n1 => n1 = 2%nat /\ v < 65536).
Proof. intros. apply (spec_scalar F c K 2 be_u16 65536); [apply be_u16_ok|cbn; lia]. Qed.

Lemma spec_read_u32 F c K : (12 <= K)%Z ->
  spec F c (fun _ => 12 - zc c 4)%Z K read_u32 (fun v n1 => n1 = 4%nat /\ v < 4294967296).
Proof. intros. apply (spec_scalar F c K 4 be_u32 4294967296); [apply be_u32_ok|cbn; lia]. Qed.

Lemma spec_read_f64 F c K : (20 <= K)%Z ->
  spec F c (fun _ => 20 - zc c 8)%Z K read_f64 (fun v n1 => n1 = 8%nat /\ v < 18446744073709551616).
Proof. intros. apply (spec_scalar F c K 8 be_u64 18446744073709551616); [apply be_u64_ok|cbn; lia]. Qed.

Lemma spec_read_bool F c K : (6 <= K)%Z ->
  spec F c (fun _ => 6 - zc c 1)%Z K read_bool (fun _ n1 => n1 = 1%nat).
Proof.
  intros HK. unfold read_bool.
  eapply (spec_bind _ _ _ K); [apply spec_next_bytes|lia|].
  intros [b e] n1 (Hl & Hw & Hc). unfold nb_J, zc. cbn [fst snd] in *.
  destruct Hc as [[-> Hn]|[[-> [Hn Hn0]]|[-> Hn]]]; [|sfail|sfail].
  destruct (idx_ok b 0) as (x & Hx & _); [lia|]. rewrite Hx. cbn [lift bind].
  destruct (x =? 0); [sret; lia|]. destruct (x =? 1); [sret; lia|]. sfail.
Qed.

(** ReadString *)
Definition str_J (c : N) (s : bytes) : Z :=
  (8 + Z.of_N (parser_buf_charge (length s)) + Z.of_nat (length s) - zc c (2 + length s))%Z.
Definition K_string : Z := 196617.   (* 8 + (2*65535+4) + 65535 *)

Lemma spec_read_string F c K : (K_string <= K)%Z ->
  spec F c (str_J c) K read_string
       (fun s n1 => n1 = (2 + length s)%nat /\ wf_bytes s /\ N.of_nat (length s) < 65536).
Proof.
  intros HK. unfold read_string, K_string, str_J in *.
  eapply (spec_bind _ _ _ K); [apply spec_next_bytes|lia|].
  intros [b e] n1 (Hl & Hw & Hc). unfold nb_J, zc. cbn [fst snd] in *.
  destruct Hc as [[-> Hn]|[[-> [Hn Hn0]]|[-> Hn]]]; [|sfail|sfail].
  destruct (be_u16_ok b Hl Hw) as (l & -> & Hlb). cbn [lift bind].
  eapply (spec_bind _ _ _ (K - 8)%Z); [apply spec_next_bytes|arith|].
  intros [b2 e2] n2 (Hl2 & Hw2 & Hc2). unfold nb_J, zc. cbn [fst snd] in *.
  assert (Hch : (Z.of_N (parser_buf_charge (N.to_nat l)) <= 2 * Z.of_N l + 4)%Z).
  { unfold parser_buf_charge. destruct (N.to_nat l) eqn:E; lia. }
  destruct Hc2 as [[-> Hn2]|[[-> [Hn2 Hn0]]|[-> Hn2]]].
  - eapply (spec_bind _ _ _ 0%Z); [apply spec_alloc|arith|]. intros _ n0 ->.
    apply spec_ret; cbn beta; rewrite Hl2.
    + arith.
    + repeat split; auto; lia.
  - eapply (spec_bind _ _ _ 0%Z); [apply spec_alloc|arith|]. intros _ n0 ->.
    sfail.
  - sfail.
Qed.

(** ReadTime *)
Lemma slice_range_ok {A} (l : list A) i j : (i <= j)%nat -> (j <= length l)%nat ->
  exists x, slice_range l i j = Ok x.
Proof.
  intros H1 H2. unfold slice_range.
  replace ((i <=? j)%nat && (j <=? length l)%nat) with true; [eauto|].
  symmetry. apply andb_true_iff. split; apply Nat.leb_le; lia.
Qed.

Lemma spec_read_time F c K pi ptz : (36 <= K)%Z ->
  spec F c (fun _ => 36 - zc c 16)%Z K (read_time pi ptz) (fun _ n1 => n1 = 16%nat).
Proof.
  intros HK. unfold read_time.
  eapply (spec_bind _ _ _ K); [apply spec_next_bytes|lia|].
  intros [b e] n1 (Hl & Hw & Hc). unfold nb_J, zc. cbn [fst snd] in *.
  destruct Hc as [[-> Hn]|[[-> [Hn Hn0]]|[-> Hn]]]; [|sfail|sfail].
  destruct (all_zero b); [sret; lia|].
  unfold decode_time.
  destruct (slice_range_ok b 0 10) as (a & ->); [lia|lia|]. cbn [lift bind].
  destruct (pi a); [|sfail].
  destruct (slice_range_ok b 11 16) as (zz & ->); [lia|lia|]. cbn [lift bind].
  destruct (ptz zz); [sret; lia|sfail].
Qed.

(** consumeStr *)
Lemma spec_consume_str F c K s : (Z.of_N (parser_buf_charge (length s)) <= K)%Z ->
  spec F c (fun _ => Z.of_N (parser_buf_charge (length s)) - zc c (length s))%Z K (consume_str s)
       (fun _ n1 => n1 = length s).
Proof.
  intros HK. unfold consume_str.
  eapply (spec_bind _ _ _ K); [apply spec_next_bytes|lia|].
  intros [b e] n1 (Hl & Hw & Hc). unfold nb_J, zc. cbn [fst snd] in *.
  destruct Hc as [[-> Hn]|[[-> [Hn Hn0]]|[-> Hn]]]; [|sfail|sfail].
  destruct (beqb b s); [sret; lia|sfail].
Qed.

Lemma zc_nonneg c n : (0 <= zc c n)%Z.
Proof. unfold zc. lia. Qed.

(** ReadField *)
Lemma wrap_v_nofuel e : e <> CFuel -> wrap_v e <> CFuel.
Proof. destruct e; cbn; congruence. Qed.

Definition lab_cost (label : bytes) : Z := Z.of_N (parser_buf_charge (length label + 1)).
Definition fld_J (c : N) (label : bytes) : Z :=
  (lab_cost label - zc c (length label + 1) + 6 - zc c 1)%Z.

Lemma spec_read_field {A} F c (Jf : A -> Z) Kf K (label : bytes) (f : prog A) (Rf : A -> nat -> Prop) :
  spec F c Jf Kf f Rf ->
  (lab_cost label <= K)%Z ->
  (lab_cost label - zc c (length label + 1) + Kf <= K)%Z ->
  (forall a n, Rf a n -> (lab_cost label - zc c (length label + 1) + Jf a + 6 <= K)%Z) ->
  spec F c (fun a => Jf a + fld_J c label)%Z K (read_field label f)
       (fun a n => exists nf, Rf a nf /\ n = (length label + 1 + nf + 1)%nat).
Proof.
  intros Hf H1 H2 H3. unfold read_field, fld_J, lab_cost in *.
  assert (Hlen : length (label ++ [32]) = (length label + 1)%nat) by (rewrite app_length; cbn; lia).
  pose proof (zc_nonneg c (length label + 1)) as Hz.
  eapply (spec_bind _ _ _ 0%Z).
  { apply spec_attempt. apply (spec_consume_str F c K). rewrite Hlen. lia. }
  { lia. }
  intros [e|[]] n1 HR; cbn beta iota.
  - (* label not there *)
    destruct e; try (sfail). congruence.
  - rewrite Hlen in *. subst n1.
    eapply (spec_bind _ _ _ 0%Z); [apply spec_attempt; apply Hf|lia|].
    intros [e|a] n2 HR2; cbn beta iota.
    + apply spec_fail; [now apply wrap_v_nofuel|lia].
    + specialize (H3 _ _ HR2).
      eapply (spec_bind _ _ _ 0%Z).
      { apply spec_attempt. apply (spec_consume_str F c (K - (Z.of_N (parser_buf_charge (length label + 1)) - zc c (length label + 1)) - Jf a)%Z).
        cbn. lia. }
      { lia. }
      intros [e|[]] n3 HR3; cbn beta iota.
      * apply spec_fail; [now apply wrap_v_nofuel|lia].
      * cbn in HR3. subst n3. apply spec_ret; cbn beta.
        -- cbn [length parser_buf_charge]. lia.
        -- exists n2. split; auto. lia.
Qed.
