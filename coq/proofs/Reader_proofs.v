(** io.ReadFull / io.CopyN do not depend on how the stream is chunked, and every decoder
    built from them factors through the remaining bytes. *)
From Coq Require Import String.
From Coq Require Import List Lia Arith ZifyNat ZifyN ZifyBool.
From W.lib Require Import Tree Bytes GoSlice Reader.
Local Open Scope N_scope.

Lemma concat_split_by p s : List.concat (split_by p s) = s.
Proof.
  revert s; induction p as [|n p IH]; intros s; cbn.
  - destruct s; cbn; [reflexivity|]. now rewrite app_nil_r.
  - rewrite IH. apply firstn_skipn.
Qed.

Lemma rest_chunked p s e : rest (chunked p s e) = s.
Proof. unfold rest, chunked; cbn. apply concat_split_by. Qed.

Lemma rest_whole s : rest (whole s) = s.
Proof. apply rest_chunked. Qed.

Lemma firstn_app_le {A} (n : nat) (c x : list A) :
  (length c <= n)%nat -> firstn n (c ++ x) = c ++ firstn (n - length c) x.
Proof.
  intros H. rewrite firstn_app. rewrite firstn_all2 by lia. reflexivity.
Qed.

Lemma skipn_app_le {A} (n : nat) (c x : list A) :
  (length c <= n)%nat -> skipn n (c ++ x) = skipn (n - length c) x.
Proof.
  intros H. rewrite skipn_app. rewrite skipn_all2 by lia. reflexivity.
Qed.

Lemma firstn_app_gt {A} (n : nat) (c x : list A) :
  (n <= length c)%nat -> firstn n (c ++ x) = firstn n c.
Proof.
  intros H. rewrite firstn_app. replace (n - length c)%nat with 0%nat by lia.
  cbn. now rewrite app_nil_r.
Qed.

Lemma skipn_app_gt {A} (n : nat) (c x : list A) :
  (n <= length c)%nat -> skipn n (c ++ x) = skipn n c ++ x.
Proof.
  intros H. rewrite skipn_app. replace (n - length c)%nat with 0%nat by lia. reflexivity.
Qed.

Lemma read_full_loop_unfold fuel need acc r : (0 < need)%nat ->
  read_full_loop (S fuel) need acc r =
    let '(d, e, r') := read need r in
    let acc' := acc ++ d in
    let need' := (need - length d)%nat in
    match e with
    | None => read_full_loop fuel need' acc' r'
    | Some _ =>
        match need' with
        | O => (acc', None, r')
        | S _ => (acc', Some (eof_or_unexpected acc'), r')
        end
    end.
Proof. destruct need; [lia|reflexivity]. Qed.

(** io.ReadFull: result as a function of the remaining bytes only *)
Lemma read_full_loop_spec : forall fuel need acc r,
  (length (chunks r) < fuel)%nat ->
  exists r', eof_with_data r' = eof_with_data r /\
    if (need <=? length (rest r))%nat then
      read_full_loop fuel need acc r = (acc ++ firstn need (rest r), None, r')
      /\ rest r' = skipn need (rest r)
    else
      read_full_loop fuel need acc r
        = (acc ++ rest r, Some (eof_or_unexpected (acc ++ rest r)), r')
      /\ rest r' = [].
Proof.
  induction fuel as [|fuel IH]; intros need acc r Hf; [lia|].
  destruct need as [|need0].
  - exists r. split; [reflexivity|]. cbn. rewrite app_nil_r. auto.
  - remember (S need0) as need eqn:En.
    rewrite read_full_loop_unfold by lia.
    unfold read. destruct r as [cs flag]; unfold rest in *; cbn [chunks eof_with_data] in *.
    destruct cs as [|c cs].
    + (* no chunk: EOF *)
      exists (mk_reader [] flag). split; [reflexivity|].
      cbn [List.concat length]. replace (need <=? 0)%nat with false by lia.
      subst need. cbn. auto.
    + cbn [List.concat]. destruct (length c <=? need)%nat eqn:Ec.
      * apply Nat.leb_le in Ec.
        destruct (flag && match cs with [] => true | _ :: _ => false end) eqn:Ee.
        -- (* last chunk delivered together with EOF *)
           destruct cs; [|rewrite andb_false_r in Ee; discriminate].
           cbn [List.concat]. rewrite app_nil_r.
           exists (mk_reader [] flag). split; [reflexivity|].
           destruct (need - length c)%nat eqn:En'.
           ++ replace (need <=? length c)%nat with true by lia.
              rewrite firstn_all2 by lia. rewrite skipn_all2 by lia. auto.
           ++ replace (need <=? length c)%nat with false by lia. auto.
        -- destruct (IH (need - length c)%nat (acc ++ c) (mk_reader cs flag)) as (r' & Hfl & Hr).
           { cbn in *; lia. }
           exists r'. split; [exact Hfl|].
           cbn [rest chunks] in Hr. rewrite app_length.
           destruct (need - length c <=? length (List.concat cs))%nat eqn:El.
           ++ replace (need <=? length c + length (List.concat cs))%nat with true by lia.
              destruct Hr as [Hr1 Hr2]. rewrite Hr1, Hr2.
              rewrite firstn_app_le, skipn_app_le by lia. rewrite app_assoc. auto.
           ++ replace (need <=? length c + length (List.concat cs))%nat with false by lia.
              destruct Hr as [Hr1 Hr2]. rewrite Hr1, Hr2. rewrite !app_assoc. auto.
      * apply Nat.leb_gt in Ec.
        exists (mk_reader (skipn need c :: cs) flag). split; [reflexivity|].
        rewrite firstn_length. replace (need - Nat.min need (length c))%nat with 0%nat by lia.
        rewrite app_length. replace (need <=? length c + length (List.concat cs))%nat with true by lia.
        destruct fuel; cbn [read_full_loop]; rewrite firstn_app_gt, skipn_app_gt by lia; auto.
Qed.

Lemma read_full_spec n r :
  exists r', eof_with_data r' = eof_with_data r /\
    read_full n r = (fst (fst (pure_read_full n (rest r))), snd (fst (pure_read_full n (rest r))), r')
    /\ rest r' = snd (pure_read_full n (rest r)).
Proof.
  unfold read_full, pure_read_full.
  destruct (read_full_loop_spec (S (length (chunks r))) n [] r) as (r' & Hfl & H); [lia|].
  exists r'. split; [exact Hfl|].
  destruct (n <=? length (rest r))%nat; cbn in *; exact H.
Qed.

Lemma firstn_add {A} a b (l : list A) :
  firstn (a + b) l = firstn a l ++ firstn b (skipn a l).
Proof.
  revert l; induction a as [|a IH]; intros [|x l]; cbn; auto.
  - now rewrite firstn_nil.
  - f_equal; auto.
Qed.

Lemma skipn_add {A} a b (l : list A) : skipn (a + b) l = skipn b (skipn a l).
Proof.
  revert l; induction a as [|a IH]; intros [|x l]; cbn; auto. now rewrite skipn_nil.
Qed.

(** io.CopyN into a bytes.Buffer, for any positive spare-capacity policy *)
Lemma copy_n_loop_spec (bufsz : N -> nat) (Hb : forall w, (0 < bufsz w)%nat) :
  forall fuel remaining acc r,
  (length (chunks r) + length (rest r) < fuel)%nat ->
  exists r', eof_with_data r' = eof_with_data r /\
    if remaining <=? N.of_nat (length (rest r)) then
      copy_n_loop bufsz fuel remaining acc r
        = (acc ++ firstn (N.to_nat remaining) (rest r), None, r')
      /\ rest r' = skipn (N.to_nat remaining) (rest r)
    else
      copy_n_loop bufsz fuel remaining acc r = (acc ++ rest r, Some CEof, r')
      /\ rest r' = [].
Proof.
  induction fuel as [|fuel IH]; intros remaining acc r Hf; [lia|].
  cbn [copy_n_loop].
  destruct (remaining =? 0) eqn:E0.
  - apply N.eqb_eq in E0; subst remaining. exists r. split; [reflexivity|].
    cbn. rewrite app_nil_r. replace (0 <=? N.of_nat (length (rest r))) with true by lia. auto.
  - apply N.eqb_neq in E0.
    set (want := N.to_nat (N.min remaining (N.of_nat (bufsz (N.of_nat (length acc)))))).
    assert (Hw : (0 < want)%nat /\ (N.of_nat want <= remaining)).
    { unfold want. specialize (Hb (N.of_nat (length acc))). lia. }
    clearbody want.
    unfold read. destruct r as [cs flag]; unfold rest in *; cbn [chunks eof_with_data] in *.
    destruct cs as [|c cs].
    + exists (mk_reader [] flag). split; [reflexivity|].
      cbn [List.concat length]. rewrite app_nil_r.
      replace (remaining - N.of_nat 0) with remaining by (cbn; lia).
      replace (remaining =? 0) with false by lia.
      replace (remaining <=? N.of_nat 0) with false by lia. auto.
    + cbn [List.concat]. destruct (length c <=? want)%nat eqn:Ec.
      * apply Nat.leb_le in Ec.
        destruct (flag && match cs with [] => true | _ :: _ => false end) eqn:Ee.
        -- destruct cs; [|rewrite andb_false_r in Ee; discriminate].
           cbn [List.concat]. rewrite app_nil_r.
           exists (mk_reader [] flag). split; [reflexivity|].
           destruct (remaining - N.of_nat (length c) =? 0) eqn:Er.
           ++ replace (remaining <=? N.of_nat (length c)) with true by lia.
              rewrite firstn_all2 by lia. rewrite skipn_all2 by lia. auto.
           ++ replace (remaining <=? N.of_nat (length c)) with false by lia. auto.
        -- destruct (IH (remaining - N.of_nat (length c)) (acc ++ c) (mk_reader cs flag))
             as (r' & Hfl & Hr).
           { cbn in *. rewrite app_length in Hf. lia. }
           exists r'. split; [exact Hfl|].
           cbn [rest chunks] in Hr. rewrite app_length.
           destruct (remaining - N.of_nat (length c) <=? N.of_nat (length (List.concat cs))) eqn:El.
           ++ replace (remaining <=? N.of_nat (length c + length (List.concat cs))) with true by lia.
              destruct Hr as [Hr1 Hr2]. rewrite Hr1, Hr2.
              replace (N.to_nat (remaining - N.of_nat (length c)))
                with (N.to_nat remaining - length c)%nat by lia.
              rewrite firstn_app_le, skipn_app_le by lia. rewrite app_assoc. auto.
           ++ replace (remaining <=? N.of_nat (length c + length (List.concat cs))) with false by lia.
              destruct Hr as [Hr1 Hr2]. rewrite Hr1, Hr2. rewrite !app_assoc. auto.
      * apply Nat.leb_gt in Ec.
        destruct (IH (remaining - N.of_nat want) (acc ++ firstn want c)
                     (mk_reader (skipn want c :: cs) flag)) as (r' & Hfl & Hr).
        { cbn [chunks rest List.concat length] in *. rewrite app_length in *.
          rewrite skipn_length. lia. }
        exists r'. split; [exact Hfl|].
        rewrite firstn_length. replace (Nat.min want (length c)) with want by lia.
        cbn [rest chunks List.concat] in Hr. rewrite app_length in *. rewrite skipn_length in Hr.
        destruct (remaining - N.of_nat want <=? N.of_nat (length c - want + length (List.concat cs))) eqn:El.
        -- replace (remaining <=? N.of_nat (length c + length (List.concat cs))) with true by lia.
           destruct Hr as [Hr1 Hr2]. rewrite Hr1, Hr2.
           replace (N.to_nat (remaining - N.of_nat want)) with (N.to_nat remaining - want)%nat by lia.
           split.
           ++ f_equal. f_equal. rewrite <- app_assoc. f_equal.
              replace (N.to_nat remaining) with (want + (N.to_nat remaining - want))%nat at 2 by lia.
              rewrite firstn_add. rewrite (firstn_app_gt want c), (skipn_app_gt want c) by lia. reflexivity.
           ++ rewrite <- (skipn_app_gt want c) by lia.
              rewrite <- skipn_add. f_equal. lia.
        -- replace (remaining <=? N.of_nat (length c + length (List.concat cs))) with false by lia.
           destruct Hr as [Hr1 Hr2]. rewrite Hr1, Hr2. split; [|reflexivity].
           f_equal. f_equal. rewrite <- app_assoc. f_equal. rewrite app_assoc.
           now rewrite firstn_skipn.
Qed.

Lemma copy_n_spec (bufsz : N -> nat) (Hb : forall w, (0 < bufsz w)%nat) n r :
  exists r', eof_with_data r' = eof_with_data r /\
    copy_n bufsz n r = (fst (fst (pure_copy_n n (rest r))), snd (fst (pure_copy_n n (rest r))), r')
    /\ rest r' = snd (pure_copy_n n (rest r)).
Proof.
  unfold copy_n, pure_copy_n.
  destruct (copy_n_loop_spec bufsz Hb (S (length (chunks r) + length (rest r))) n [] r)
    as (r' & Hfl & H); [lia|].
  exists r'. split; [exact Hfl|].
  destruct (n <=? N.of_nat (length (rest r))); cbn in *; exact H.
Qed.

(** Every decoder whose read sites are all io.ReadFull / io.CopyN factors through the
    remaining bytes: result, allocation and what is left of the stream. *)
Theorem exec_factors (kd : site -> read_kind) (Hk : forall s, kd s = Full) :
  forall A (p : prog A) r m a r' m',
  exec kd p r m = (a, r', m') ->
  exec_pure p (rest r) m = (a, rest r', m') /\ eof_with_data r' = eof_with_data r.
Proof.
  induction p as [a0|e0| |st n k IH|st n k IH|c k IH]; intros r m a r' m' H;
    cbn [exec exec_pure] in *.
  - inversion H; subst; auto.
  - inversion H; subst; auto.
  - inversion H; subst; auto.
  - rewrite Hk in H. unfold do_read in H.
    destruct (read_full_spec n r) as (r1 & Hfl & Hrf & Hrest).
    rewrite Hrf in H.
    destruct (pure_read_full n (rest r)) as [[d e] s']; cbn in *.
    apply IH in H. destruct H as [H1 H2]. rewrite Hrest in H1. split; [exact H1|congruence].
  - rewrite Hk in H. unfold do_copy in H.
    destruct (copy_n_spec buffer_spare (fun _ => Nat.lt_0_succ _) n r) as (r1 & Hfl & Hrf & Hrest).
    rewrite Hrf in H.
    destruct (pure_copy_n n (rest r)) as [[d e] s']; cbn in *.
    apply IH in H. destruct H as [H1 H2]. rewrite Hrest in H1. split; [exact H1|congruence].
  - apply IH in H. exact H.
Qed.

Theorem exec_chunk_independent (kd : site -> read_kind) (Hk : forall s, kd s = Full) :
  forall A (p : prog A) (s : bytes) (part : list nat) (e : bool) (m : N),
  fst (fst (exec kd p (chunked part s e) m)) = fst (fst (exec kd p (whole s) m)) /\
  snd (exec kd p (chunked part s e) m) = snd (exec kd p (whole s) m) /\
  rest (snd (fst (exec kd p (chunked part s e) m))) = rest (snd (fst (exec kd p (whole s) m))).
Proof.
  intros A p s part e m.
  destruct (exec kd p (chunked part s e) m) as [[a1 r1] m1] eqn:E1.
  destruct (exec kd p (whole s) m) as [[a2 r2] m2] eqn:E2.
  apply (exec_factors kd Hk) in E1. apply (exec_factors kd Hk) in E2.
  rewrite rest_chunked in E1. rewrite rest_whole in E2.
  destruct E1 as [E1 _], E2 as [E2 _]. rewrite E1 in E2. inversion E2; subst. cbn. auto.
Qed.

Lemma exec_whole_pure (kd : site -> read_kind) (Hk : forall s, kd s = Full) :
  forall A (p : prog A) (s : bytes) (m : N),
  fst (fst (exec kd p (whole s) m)) = fst (fst (exec_pure p s m)) /\
  snd (exec kd p (whole s) m) = snd (exec_pure p s m).
Proof.
  intros A p s m.
  destruct (exec kd p (whole s) m) as [[a r] m'] eqn:E.
  apply (exec_factors kd Hk) in E. rewrite rest_whole in E. destruct E as [E _].
  rewrite E. cbn. auto.
Qed.

Lemma in_all_sites s : In s all_sites.
Proof. destruct s; cbn; tauto. Qed.

Lemma all_full_kinds k : all_full k -> forall s, kinds_of k s = Full.
Proof.
  intros H s. unfold all_full, sites in H. rewrite Forall_forall in H.
  apply H. apply in_map. apply in_all_sites.
Qed.

Lemma read_kinds_of_code_full : forall s, read_kinds_of_code s = Full.
Proof. reflexivity. Qed.
