(** (v) slice.IndicesToValues, slice.CopyValuesFromIndices, Sorter.removeCols: translated
    bodies (gen/ExtractedCode.v) = [key_of] / [remove_cols] of model/Sorter.v. *)
From Coq Require Import List ZArith NArith Bool String Lia Arith.
From W.lib Require Import Tree Bytes GoLang.
From W.proofs Require Import GoLang_proofs GoCode_KeyIndices_proofs.
From W.gen Require Import ExtractedCode.
From W.model Require Import Sorter.
Import ListNotations.
Local Open Scope Z_scope.

Lemma key_of_snoc idx i r : key_of (idx ++ [i]) r = key_of idx r ++ [nth i r []].
Proof. unfold key_of. now rewrite map_app. Qed.

Lemma go_IndicesToValues_model (vals : list bytes) (keys : list nat) :
  Forall (fun k => (k < length vals)%nat) keys ->
  exists fuel, run_func fuel go_prog go_IndicesToValues [v_strs vals; v_nats keys]
               = FOk [v_strs (key_of keys vals)] [].
Proof.
  intros WF. start_func go_IndicesToValues. unfold v_strs, v_nats.
  stepsn. cbn [repeat].
  eapply (wp_items_inv _ _ _ _ _ _
            (fun n e => exists vk, e = [VList (map VStr vals); VList (map v_nat keys);
                                        VList (map VStr (key_of (firstn n keys) vals)); vk])).
  - exists VUnset. reflexivity.
  - intros n e x (vk & ->) Hx.
    apply (nth_error_map_inv v_nat keys n x O) in Hx. destruct Hx as [Hn ->].
    assert (Hk : (nth n keys O < length vals)%nat).
    { rewrite Forall_forall in WF. apply WF. now apply nth_In. }
    ev. stepsn. eexists. rewrite (firstn_S_nth keys n O Hn), key_of_snoc, map_app. reflexivity.
  - intros e (vk & ->). rewrite length_map_v_nat, firstn_all. stepsn. reflexivity.
Qed.

Lemma key_of_length idx r : length (key_of idx r) = length idx.
Proof. apply map_length. Qed.

Lemma go_CopyValuesFromIndices_model (src dst : list bytes) (keys : list nat) :
  Forall (fun k => (k < length src)%nat) keys -> (length keys <= length dst)%nat ->
  exists fuel, run_func fuel go_prog go_CopyValuesFromIndices [v_strs src; v_strs dst; v_nats keys]
               = FOk [] [v_strs (key_of keys src ++ skipn (length keys) dst)].
Proof.
  intros WF Hlen. start_func go_CopyValuesFromIndices. unfold v_strs, v_nats.
  stepn.
  eapply (wp_items_inv _ _ _ _ _ _
            (fun n e => exists vi vk,
               e = [VList (map VStr src);
                    VList (map VStr (key_of (firstn n keys) src ++ skipn n dst));
                    VList (map v_nat keys); vi; vk])).
  - exists VUnset, VUnset. reflexivity.
  - intros n e x (vi & vk & ->) Hx.
    apply (nth_error_map_inv v_nat keys n x O) in Hx. destruct Hx as [Hn ->].
    assert (Hk : (nth n keys O < length src)%nat).
    { rewrite Forall_forall in WF. apply WF. now apply nth_In. }
    set (Kn := key_of (firstn n keys) src).
    assert (HK : length Kn = n) by (unfold Kn; rewrite key_of_length, firstn_length; lia).
    assert (HL : length (map VStr (Kn ++ skipn n dst)) = length dst).
    { rewrite map_length, app_length, skipn_length. lia. }
    ev. eapply wp_assign; [evn; reflexivity|].
    ev. rewrite Nat2Z.id.
    rewrite in_bounds_true by (rewrite HL; lia). ev.
    eexists _, _. f_equal. f_equal. f_equal.
    rewrite (firstn_S_nth keys n O Hn), key_of_snoc. fold Kn.
    rewrite map_app, firstn_app_len, skipn_app by (rewrite map_length; exact HK).
    rewrite map_length, HK, (skipn_all2 (map VStr Kn)) by (rewrite map_length; lia).
    replace (S n - n)%nat with 1%nat by lia. cbn [app].
    rewrite <- !app_assoc, !map_app. cbn [map app]. f_equal. f_equal.
    rewrite skipn_map. f_equal. apply skipn_1_skipn.
  - intros e (vi & vk & ->). rewrite length_map_v_nat, firstn_all. ev. reflexivity.
Qed.

(** Sorter.removeCols; the Go map[int]struct{} is nil ([VNil]) or the list of its keys *)
Lemma remove_from_app rem : forall a b i,
  remove_from i rem (a ++ b) = remove_from i rem a ++ remove_from (i + length a) rem b.
Proof.
  induction a as [|c a IH]; intros b i; cbn [app remove_from length].
  - now rewrite Nat.add_0_r.
  - rewrite IH. replace (S i + length a)%nat with (i + S (length a))%nat by lia.
    destruct (existsb (Nat.eqb i) rem); reflexivity.
Qed.

Lemma remove_from_nil : forall r i, remove_from i [] r = r.
Proof. induction r as [|c r IH]; intros i; cbn; [reflexivity|]. now rewrite IH. Qed.

Lemma go_removeCols_nil (row : list bytes) :
  exists fuel, run_func fuel go_prog go_Sorter_removeCols [v_strs row; VNil]
               = FOk [v_strs (remove_cols [] row)] [].
Proof.
  unfold remove_cols. rewrite remove_from_nil.
  start_func go_Sorter_removeCols. unfold v_strs. stepsn. reflexivity.
Qed.

Lemma go_removeCols_model (row : list bytes) (rem : list nat) :
  (length rem <= length row)%nat -> Z.of_nat (length row) < 2 ^ 62 ->
  exists fuel, run_func fuel go_prog go_Sorter_removeCols [v_strs row; v_nats rem]
               = FOk [v_strs (remove_cols rem row)] [].
Proof.
  intros Hlen Hrow. start_func go_Sorter_removeCols. unfold v_strs, v_nats, remove_cols.
  stepsn. cbn [repeat].
  eapply (wp_items_inv _ _ _ _ _ _
            (fun n e => exists vi vs vok,
               e = [VList (map VStr row); VList (map v_nat rem);
                    VList (map VStr (remove_from 0 rem (firstn n row))); vi; vs; vok])).
  - exists VUnset, VUnset, VUnset. reflexivity.
  - intros n e x (vi & vs & vok & ->) Hx.
    apply (nth_error_map_inv VStr row n x []) in Hx. destruct Hx as [Hn ->].
    assert (E : remove_from 0 rem (firstn (S n) row)
                = remove_from 0 rem (firstn n row)
                  ++ (if existsb (Nat.eqb n) rem then [] else [nth n row []])).
    { rewrite (firstn_S_nth row n [] Hn), remove_from_app, firstn_length.
      replace (0 + Nat.min n (length row))%nat with n by lia. cbn [remove_from].
      destruct (existsb (Nat.eqb n) rem); reflexivity. }
    ev. stepsn. rewrite has_nat.
    destruct (existsb (Nat.eqb n) rem).
    + stepsn. eexists _, _, _. rewrite E, app_nil_r. reflexivity.
    + stepsn. eexists _, _, _. rewrite E, map_app. reflexivity.
  - intros e (vi & vs & vok & ->). rewrite length_map_VStr, firstn_all. stepsn. reflexivity.
Qed.
