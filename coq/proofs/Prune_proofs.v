(** Proofs about coq/model/Prune.v (C12), part 1: sort.Search slots, mark vectors, deletes,
    the ref walk (findCommitsToRemove) and pruneTables.  Part 2: PruneOrder_proofs.v (childrenFirst),
    part 3: PrunePlan_proofs.v (the whole delete list and the C12 theorems). *)
From Coq Require Import List NArith Bool Arith Lia ZifyNat ZifyN ZifyBool.
From W.lib Require Import Tree GoSort.
From W.model Require Import PruneRepo Prune.
Import ListNotations.
Local Open Scope N_scope.

(* ------------------------------------------------------------------ *)
(** * 1. sort.Search *)

Lemma p_half_bounds : forall i j : nat, (i < j)%nat -> (i <= (i + j) / 2)%nat /\ ((i + j) / 2 < j)%nat.
Proof.
  intros i j Hij.
  pose proof (Nat.div_mod (i + j) 2 ltac:(lia)) as E.
  pose proof (Nat.mod_upper_bound (i + j) 2 ltac:(lia)) as B.
  lia.
Qed.

Section Search.
  Variable n : nat.
  Variable f : nat -> bool.
  Hypothesis mono : forall x y, (x <= y)%nat -> (y < n)%nat -> f x = true -> f y = true.

  Lemma p_search_loop_spec : forall fuel i j,
    (i <= j)%nat -> (j <= n)%nat -> (j - i < fuel)%nat ->
    (forall x, (x < i)%nat -> f x = false) ->
    (forall x, (j <= x)%nat -> (x < n)%nat -> f x = true) ->
    (i <= search_loop fuel f i j)%nat /\ (search_loop fuel f i j <= j)%nat /\
    (forall x, (x < search_loop fuel f i j)%nat -> f x = false) /\
    (forall x, (search_loop fuel f i j <= x)%nat -> (x < n)%nat -> f x = true).
  Proof.
    induction fuel as [|fuel IH]; intros i j Hij Hjn Hfuel Hlo Hhi.
    - lia.
    - cbn [search_loop].
      destruct (i <? j)%nat eqn:Eij.
      + apply Nat.ltb_lt in Eij.
        destruct (p_half_bounds i j Eij) as [Hh1 Hh2].
        set (h := ((i + j) / 2)%nat) in *.
        destruct (f h) eqn:Efh.
        * assert (Hhi' : forall x, (h <= x)%nat -> (x < n)%nat -> f x = true).
          { intros x Hx1 Hx2. apply (mono h x Hx1 Hx2 Efh). }
          destruct (IH i h Hh1 ltac:(lia) ltac:(lia) Hlo Hhi') as (A1 & A2 & A3 & A4).
          repeat split; try assumption; lia.
        * assert (Hlo' : forall x, (x < S h)%nat -> f x = false).
          { intros x Hx. destruct (f x) eqn:Efx; [|reflexivity].
            assert (Hc : f h = true) by (apply (mono x h); [lia|lia|exact Efx]).
            congruence. }
          destruct (IH (S h) j ltac:(lia) Hjn ltac:(lia) Hlo' Hhi) as (A1 & A2 & A3 & A4).
          repeat split; try assumption; lia.
      + apply Nat.ltb_ge in Eij.
        assert (Eij' : i = j) by lia. subst j.
        repeat split; try assumption; lia.
  Qed.

  Lemma p_search_spec :
    (search n f <= n)%nat /\
    (forall x, (x < search n f)%nat -> f x = false) /\
    (forall x, (search n f <= x)%nat -> (x < n)%nat -> f x = true).
  Proof.
    unfold search.
    destruct (p_search_loop_spec (S n) 0%nat n ltac:(lia) ltac:(lia) ltac:(lia)) as (A1 & A2 & A3 & A4).
    - intros x Hx. lia.
    - intros x Hx1 Hx2. lia.
    - repeat split; assumption.
  Qed.
End Search.

(* ------------------------------------------------------------------ *)
(** * 2. sorted duplicate-free key lists *)

Inductive ssorted : list N -> Prop :=
| ss_nil : ssorted []
| ss_cons : forall x l, (forall y, In y l -> x < y) -> ssorted l -> ssorted (x :: l).

Lemma ins_In : forall x l z, In z (ins x l) <-> z = x \/ In z l.
Proof.
  intros x l z. induction l as [|y l IH]; cbn [ins].
  - cbn. intuition.
  - destruct (x ?= y) eqn:E.
    + apply N.compare_eq in E. subst y. cbn. intuition.
    + cbn. intuition.
    + cbn [In]. rewrite IH. intuition.
Qed.

Lemma ins_sorted : forall x l, ssorted l -> ssorted (ins x l).
Proof.
  intros x l H. induction H as [|y l Hy Hs IH]; cbn [ins].
  - constructor; [intros y []|constructor].
  - destruct (x ?= y) eqn:E.
    + constructor; assumption.
    + assert (Hxy : x < y) by (apply N.compare_lt_iff; exact E). constructor.
      * intros z [Hz|Hz]; [subst; assumption|]. specialize (Hy z Hz). lia.
      * constructor; assumption.
    + assert (Hxy : y < x) by (apply N.compare_gt_iff; exact E). constructor; [|exact IH].
      intros z Hz. apply ins_In in Hz. destruct Hz as [Hz|Hz]; [subst; assumption|auto].
Qed.

Lemma sortu_In : forall l z, In z (sortu l) <-> In z l.
Proof.
  induction l as [|x l IH]; intros z; cbn [sortu fold_right]; [reflexivity|].
  fold (sortu l). rewrite ins_In, IH. cbn. intuition.
Qed.

Lemma sortu_sorted : forall l, ssorted (sortu l).
Proof.
  induction l as [|x l IH]; cbn [sortu fold_right]; [constructor|].
  apply ins_sorted. exact IH.
Qed.

Lemma ssorted_NoDup : forall l, ssorted l -> NoDup l.
Proof.
  induction 1 as [|x l Hx Hs IH]; constructor; [|exact IH].
  intros Hin. specialize (Hx x Hin). lia.
Qed.

Lemma ssorted_nth_lt : forall l, ssorted l -> forall i j, (i < j)%nat -> (j < length l)%nat ->
  nth i l 0 < nth j l 0.
Proof.
  induction 1 as [|x l Hx Hs IH]; intros i j Hij Hj; cbn [length] in Hj; [lia|].
  destruct j as [|j]; [lia|]. destruct i as [|i]; cbn [nth].
  - apply Hx. apply nth_In. lia.
  - apply IH; lia.
Qed.

Lemma In_nth_N : forall (l : list N) x, In x l -> exists i, (i < length l)%nat /\ nth i l 0 = x.
Proof. intros l x H. apply (In_nth l x 0 H). Qed.

(** the slot found by sort.Search in a sorted key list *)
Lemma slot_spec : forall keys key, ssorted keys ->
  (slot keys key <= length keys)%nat /\
  (forall x, (x < slot keys key)%nat -> nth x keys 0 < key) /\
  (forall x, (slot keys key <= x)%nat -> (x < length keys)%nat -> key <= nth x keys 0).
Proof.
  intros keys key Hs. unfold slot.
  set (f := fun i : nat => key <=? nth i keys 0).
  assert (Hmono : forall x y, (x <= y)%nat -> (y < length keys)%nat -> f x = true -> f y = true).
  { intros x y Hxy Hy Hfx. unfold f in *. apply N.leb_le in Hfx. apply N.leb_le.
    destruct (Nat.eq_dec x y) as [->|Hne]; [assumption|].
    pose proof (ssorted_nth_lt keys Hs x y ltac:(lia) Hy). lia. }
  destruct (p_search_spec (length keys) f Hmono) as (A1 & A2 & A3).
  split; [exact A1|]. split.
  - intros x Hx. specialize (A2 x Hx). unfold f in A2. apply N.leb_gt in A2. exact A2.
  - intros x Hx1 Hx2. specialize (A3 x Hx1 Hx2). unfold f in A3. apply N.leb_le in A3. exact A3.
Qed.

Lemma slot_found : forall keys key, ssorted keys -> In key keys ->
  (slot keys key < length keys)%nat /\ nth (slot keys key) keys 0 = key.
Proof.
  intros keys key Hs Hin.
  destruct (slot_spec keys key Hs) as (A1 & A2 & A3).
  destruct (In_nth_N keys key Hin) as (j & Hj & Ej).
  set (i := slot keys key) in *.
  assert (Hij : (i <= j)%nat).
  { destruct (Nat.le_gt_cases i j) as [H|H]; [exact H|]. specialize (A2 j H). lia. }
  assert (i = j).
  { destruct (Nat.eq_dec i j) as [E|Hne]; [exact E|].
    pose proof (ssorted_nth_lt keys Hs i j ltac:(lia) Hj) as Hlt.
    specialize (A3 i ltac:(lia) ltac:(lia)). lia. }
  subst j. split; assumption.
Qed.

(* ------------------------------------------------------------------ *)
(** * 3. mark vectors *)

Definition marked (keys : list N) (found : list bool) (k : N) : Prop :=
  exists i, (i < length keys)%nat /\ nth i keys 0 = k /\ nth i found false = true.

Lemma set_nth_length : forall i l, length (set_nth i l) = length l.
Proof.
  induction i as [|i IH]; intros [|b l]; cbn [set_nth length]; try reflexivity.
  rewrite IH. reflexivity.
Qed.

Lemma set_nth_same : forall i l, (i < length l)%nat -> nth i (set_nth i l) false = true.
Proof.
  induction i as [|i IH]; intros [|b l] H; cbn [length] in H; try lia; cbn [set_nth nth]; [reflexivity|].
  apply IH. lia.
Qed.

Lemma set_nth_other : forall i j l, i <> j -> nth j (set_nth i l) false = nth j l false.
Proof.
  induction i as [|i IH]; intros j [|b l] H; cbn [set_nth]; try reflexivity.
  - destruct j; [congruence|reflexivity].
  - destruct j; [reflexivity|]. cbn [nth]. apply IH. congruence.
Qed.

Lemma marked_repeat_false : forall keys n k, ~ marked keys (repeat false n) k.
Proof.
  intros keys n k (i & _ & _ & H).
  assert (nth i (repeat false n) false = false).
  { clear H. revert i. induction n as [|n IH]; intros [|i]; cbn; auto. }
  congruence.
Qed.

Lemma marked_In : forall keys found k, marked keys found k -> In k keys.
Proof. intros keys found k (i & Hi & E & _). subst k. apply nth_In. exact Hi. Qed.

Lemma NoDup_nth_inj : forall (l : list N) i j, NoDup l -> (i < length l)%nat -> (j < length l)%nat ->
  nth i l 0 = nth j l 0 -> i = j.
Proof. intros l i j Hnd Hi Hj E. apply (proj1 (NoDup_nth l 0) Hnd i j Hi Hj E). Qed.

(** [mark] after the fix: marks the key when it is present, does nothing otherwise, never fails *)
Lemma mark_checked_spec : forall keys found key, ssorted keys -> length found = length keys ->
  exists found', mark true keys found key = Ok found' /\ length found' = length keys /\
    forall k, marked keys found' k <-> marked keys found k \/ (k = key /\ In key keys).
Proof.
  intros keys found key Hs Hlen. unfold mark.
  destruct ((slot keys key <? length keys)%nat && (nth (slot keys key) keys 0 =? key)) eqn:E.
  - apply andb_true_iff in E. destruct E as [E1 E2].
    apply Nat.ltb_lt in E1. apply N.eqb_eq in E2.
    set (i := slot keys key) in *.
    exists (set_nth i found). split; [reflexivity|]. split; [rewrite set_nth_length; exact Hlen|].
    intros k. split.
    + intros (j & Hj & Ej & Hm). destruct (Nat.eq_dec i j) as [->|Hne].
      * right. split; [congruence|]. rewrite <- E2. apply nth_In. exact Hj.
      * left. exists j. rewrite set_nth_other in Hm by exact Hne. auto.
    + intros [(j & Hj & Ej & Hm)|[-> Hin]].
      * exists j. split; [exact Hj|]. split; [exact Ej|].
        destruct (Nat.eq_dec i j) as [->|Hne]; [apply set_nth_same; lia|].
        rewrite set_nth_other by exact Hne. exact Hm.
      * exists i. split; [exact E1|]. split; [exact E2|]. apply set_nth_same. lia.
  - exists found. split; [reflexivity|]. split; [exact Hlen|].
    intros k. split; [auto|]. intros [H|[-> Hin]]; [exact H|].
    exfalso. destruct (slot_found keys key Hs Hin) as [F1 F2].
    apply andb_false_iff in E. destruct E as [E|E].
    + apply Nat.ltb_ge in E. lia.
    + apply N.eqb_neq in E. congruence.
Qed.

Lemma mark_all_checked_spec : forall keys l found, ssorted keys -> length found = length keys ->
  exists found', mark_all true keys found l = Ok found' /\ length found' = length keys /\
    forall k, marked keys found' k <-> marked keys found k \/ (In k l /\ In k keys).
Proof.
  intros keys l. induction l as [|x l IH]; intros found Hs Hlen; cbn [mark_all].
  - exists found. split; [reflexivity|]. split; [exact Hlen|]. intros k. cbn. intuition.
  - destruct (mark_checked_spec keys found x Hs Hlen) as (f1 & E1 & L1 & M1).
    rewrite E1. destruct (IH f1 Hs L1) as (f2 & E2 & L2 & M2).
    exists f2. split; [exact E2|]. split; [exact L2|].
    intros k. rewrite M2, M1. cbn [In]. split.
    + intros [[H|[-> H]]|[H1 H2]]; auto.
    + intros [H|[[<-|H1] H2]]; auto.
Qed.

(** [select] *)
Lemma select_In : forall b keys found k, length found = length keys ->
  (In k (select b keys found) <->
   exists i, (i < length keys)%nat /\ nth i keys 0 = k /\ nth i found false = b).
Proof.
  intros b keys. induction keys as [|x keys IH]; intros [|f found] k Hlen; cbn [length] in Hlen; try lia.
  - cbn. split; [intros []|intros (i & H & _); cbn in H; lia].
  - cbn [select]. assert (Hl : length found = length keys) by lia.
    destruct (Bool.eqb f b) eqn:E.
    + apply eqb_prop in E. subst f. cbn [In]. rewrite (IH found k Hl). split.
      * intros [->|(i & Hi & E1 & E2)]; [exists 0%nat; cbn; repeat split; lia|].
        exists (S i). cbn. repeat split; try assumption; lia.
      * intros ([|i] & Hi & E1 & E2); cbn in *; [left; exact E1|].
        right. exists i. repeat split; try assumption; lia.
    + apply eqb_false_iff in E. rewrite (IH found k Hl). split.
      * intros (i & Hi & E1 & E2). exists (S i). cbn. repeat split; try assumption; lia.
      * intros ([|i] & Hi & E1 & E2); cbn in *; [congruence|].
        exists i. repeat split; try assumption; lia.
Qed.

Lemma select_incl : forall b keys found k, In k (select b keys found) -> In k keys.
Proof.
  intros b keys. induction keys as [|x keys IH]; intros [|f found] k; cbn [select]; try (intros []; fail).
  destruct (Bool.eqb f b); cbn [In]; intros H.
  - destruct H as [H|H]; [left; exact H|right; eapply IH; exact H].
  - right; eapply IH; exact H.
Qed.

Lemma select_sorted : forall b keys found, ssorted keys -> ssorted (select b keys found).
Proof.
  intros b keys found H. revert found. induction H as [|x l Hx Hs IH]; intros [|f found]; cbn [select]; try constructor.
  destruct (Bool.eqb f b).
  - constructor; [|apply IH]. intros y Hy. apply Hx. eapply select_incl; exact Hy.
  - apply IH.
Qed.

Lemma select_true_marked : forall keys found k, length found = length keys ->
  (In k (select true keys found) <-> marked keys found k).
Proof. intros. rewrite select_In by assumption. reflexivity. Qed.

Lemma select_false_unmarked : forall keys found k, NoDup keys -> length found = length keys ->
  (In k (select false keys found) <-> In k keys /\ ~ marked keys found k).
Proof.
  intros keys found k Hnd Hlen. rewrite select_In by assumption. split.
  - intros (i & Hi & E1 & E2). split; [subst k; apply nth_In; exact Hi|].
    intros (j & Hj & F1 & F2). assert (i = j) by (apply (NoDup_nth_inj keys); congruence).
    subst j. congruence.
  - intros [Hin Hnm]. destruct (In_nth_N keys k Hin) as (i & Hi & E).
    exists i. split; [exact Hi|]. split; [exact E|].
    destruct (nth i found false) eqn:F; [|reflexivity]. exfalso. apply Hnm. exists i. auto.
Qed.

Lemma combine_In_nth : forall keys found t b, length found = length keys ->
  (In (t, b) (combine keys found) <->
   exists i, (i < length keys)%nat /\ nth i keys 0 = t /\ nth i found false = b).
Proof.
  induction keys as [|x keys IH]; intros [|f found] t b Hlen; cbn [length] in Hlen; try lia.
  - cbn. split; [intros []|intros (i & H & _); cbn in H; lia].
  - cbn [combine In]. assert (Hl : length found = length keys) by lia. rewrite (IH found t b Hl). split.
    + intros [E|(i & Hi & E1 & E2)].
      * inversion E; subst. exists 0%nat. cbn. repeat split; lia.
      * exists (S i). cbn. repeat split; try assumption; lia.
    + intros ([|i] & Hi & E1 & E2); cbn in *; [left; congruence|].
      right. exists i. repeat split; try assumption; lia.
Qed.

Lemma combine_fst : forall (keys : list N) (found : list bool), length found = length keys ->
  map fst (combine keys found) = keys.
Proof.
  induction keys as [|x keys IH]; intros [|f found] H; cbn in *; try lia; try reflexivity.
  f_equal. apply IH. lia.
Qed.

(* ------------------------------------------------------------------ *)
(** * 4. maps, sets, deletes *)

Lemma get_In_fst : forall A (m : list (N * A)) k, In k (map fst m) <-> get m k <> None.
Proof.
  intros A m k. induction m as [|[k' v] m IH]; cbn [map get In fst].
  - intuition.
  - destruct (k' =? k) eqn:E.
    + apply N.eqb_eq in E. split; [discriminate|auto].
    + apply N.eqb_neq in E. rewrite IH. intuition.
Qed.

Lemma get_rem : forall A (m : list (N * A)) k k', get (rem k m) k' = if k =? k' then None else get m k'.
Proof.
  intros A m k k'. induction m as [|[k0 v] m IH]; cbn [rem filter get fst].
  - destruct (k =? k'); reflexivity.
  - destruct (k0 =? k) eqn:E0; cbn [negb].
    + apply N.eqb_eq in E0. subst k0. fold (rem k m). rewrite IH.
      destruct (k =? k') eqn:E; reflexivity.
    + cbn [get]. fold (rem k m). rewrite IH. apply N.eqb_neq in E0.
      destruct (k0 =? k') eqn:E1; [|reflexivity].
      apply N.eqb_eq in E1. subst k0. destruct (k =? k') eqn:E; [|reflexivity].
      apply N.eqb_eq in E. congruence.
Qed.

Lemma mem_In : forall k l, mem k l = true <-> In k l.
Proof.
  intros k l. unfold mem. rewrite existsb_exists. split.
  - intros (x & Hx & E). apply N.eqb_eq in E. subst x. exact Hx.
  - intros H. exists k. split; [exact H|apply N.eqb_refl].
Qed.

Lemma mem_srem : forall k k' l, mem k' (srem k l) = negb (k =? k') && mem k' l.
Proof.
  intros k k' l. apply eq_true_iff_eq.
  rewrite andb_true_iff, negb_true_iff, !mem_In. unfold srem. rewrite filter_In, negb_true_iff.
  rewrite (N.eqb_sym k' k). tauto.
Qed.

Lemma commit_keys_In : forall s c, In c (commit_keys s) <-> get_commit s c <> None.
Proof. intros. unfold commit_keys, get_commit. rewrite sortu_In. apply get_In_fst. Qed.
Lemma table_keys_In : forall s t, In t (table_keys s) <-> get_table s t <> None.
Proof. intros. unfold table_keys, get_table. rewrite sortu_In. apply get_In_fst. Qed.
Lemma block_keys_In : forall s b, In b (block_keys s) <-> In b (blocks s).
Proof. intros. apply sortu_In. Qed.
Lemma blkidx_keys_In : forall s b, In b (blkidx_keys s) <-> In b (blkidx s).
Proof. intros. apply sortu_In. Qed.

(** was [Del k id] issued in [ds]? *)
Definition deleted (k : kind) (id : N) (ds : list del) : bool :=
  existsb (fun d => match d with Del k' id' => kind_eqb k k' && (id' =? id) end) ds.

Lemma kind_eqb_eq : forall a b, kind_eqb a b = true <-> a = b.
Proof. intros [] []; cbn; split; intros; congruence. Qed.

Lemma deleted_In : forall k id ds, deleted k id ds = true <-> In (Del k id) ds.
Proof.
  intros k id ds. unfold deleted. rewrite existsb_exists. split.
  - intros ([k' id'] & Hin & E). apply andb_true_iff in E. destruct E as [E1 E2].
    apply kind_eqb_eq in E1. apply N.eqb_eq in E2. subst. exact Hin.
  - intros H. exists (Del k id). split; [exact H|].
    apply andb_true_iff. split; [apply kind_eqb_eq; reflexivity|apply N.eqb_refl].
Qed.

Lemma deleted_false : forall k id ds, deleted k id ds = false <-> ~ In (Del k id) ds.
Proof.
  intros. rewrite <- deleted_In. destruct (deleted k id ds); split; intros H; congruence.
Qed.

Lemma deleted_cons : forall k id d ds,
  deleted k id (d :: ds) = (match d with Del k' id' => kind_eqb k k' && (id' =? id) end) || deleted k id ds.
Proof. reflexivity. Qed.

Lemma apply_dels_refs : forall ds s, refs (apply_dels ds s) = refs s.
Proof.
  induction ds as [|[k id] ds IH]; intros s; [reflexivity|].
  cbn [apply_dels fold_left]. fold (apply_dels ds (apply_del (Del k id) s)). rewrite IH.
  destruct k; reflexivity.
Qed.

Lemma apply_dels_commit : forall ds s c,
  get_commit (apply_dels ds s) c = if deleted KCommit c ds then None else get_commit s c.
Proof.
  induction ds as [|[k id] ds IH]; intros s c; [reflexivity|].
  cbn [apply_dels fold_left]. fold (apply_dels ds (apply_del (Del k id) s)). rewrite IH, deleted_cons.
  destruct (deleted KCommit c ds); [rewrite orb_true_r; reflexivity|rewrite orb_false_r].
  destruct k; cbn [kind_eqb andb]; try reflexivity.
  unfold get_commit. cbn [apply_del commits]. rewrite get_rem. reflexivity.
Qed.

Lemma apply_dels_table : forall ds s t,
  get_table (apply_dels ds s) t = if deleted KTable t ds then None else get_table s t.
Proof.
  induction ds as [|[k id] ds IH]; intros s t; [reflexivity|].
  cbn [apply_dels fold_left]. fold (apply_dels ds (apply_del (Del k id) s)). rewrite IH, deleted_cons.
  destruct (deleted KTable t ds); [rewrite orb_true_r; reflexivity|rewrite orb_false_r].
  destruct k; cbn [kind_eqb andb]; try reflexivity.
  unfold get_table. cbn [apply_del tables]. rewrite get_rem. reflexivity.
Qed.

Lemma apply_dels_tblidx : forall ds s t,
  mem t (tblidx (apply_dels ds s)) = negb (deleted KTblIdx t ds) && mem t (tblidx s).
Proof.
  induction ds as [|[k id] ds IH]; intros s t; [reflexivity|].
  cbn [apply_dels fold_left]. fold (apply_dels ds (apply_del (Del k id) s)). rewrite IH, deleted_cons.
  destruct (deleted KTblIdx t ds); [rewrite orb_true_r; reflexivity|rewrite orb_false_r].
  destruct k; cbn [kind_eqb andb negb apply_del tblidx]; try reflexivity.
  rewrite mem_srem. reflexivity.
Qed.

Lemma apply_dels_prof : forall ds s t,
  mem t (prof (apply_dels ds s)) = negb (deleted KProf t ds) && mem t (prof s).
Proof.
  induction ds as [|[k id] ds IH]; intros s t; [reflexivity|].
  cbn [apply_dels fold_left]. fold (apply_dels ds (apply_del (Del k id) s)). rewrite IH, deleted_cons.
  destruct (deleted KProf t ds); [rewrite orb_true_r; reflexivity|rewrite orb_false_r].
  destruct k; cbn [kind_eqb andb negb apply_del prof]; try reflexivity.
  rewrite mem_srem. reflexivity.
Qed.

Lemma apply_dels_blocks : forall ds s b,
  mem b (blocks (apply_dels ds s)) = negb (deleted KBlock b ds) && mem b (blocks s).
Proof.
  induction ds as [|[k id] ds IH]; intros s b; [reflexivity|].
  cbn [apply_dels fold_left]. fold (apply_dels ds (apply_del (Del k id) s)). rewrite IH, deleted_cons.
  destruct (deleted KBlock b ds); [rewrite orb_true_r; reflexivity|rewrite orb_false_r].
  destruct k; cbn [kind_eqb andb negb apply_del blocks]; try reflexivity.
  rewrite mem_srem. reflexivity.
Qed.

Lemma apply_dels_blkidx : forall ds s b,
  mem b (blkidx (apply_dels ds s)) = negb (deleted KBlkIdx b ds) && mem b (blkidx s).
Proof.
  induction ds as [|[k id] ds IH]; intros s b; [reflexivity|].
  cbn [apply_dels fold_left]. fold (apply_dels ds (apply_del (Del k id) s)). rewrite IH, deleted_cons.
  destruct (deleted KBlkIdx b ds); [rewrite orb_true_r; reflexivity|rewrite orb_false_r].
  destruct k; cbn [kind_eqb andb negb apply_del blkidx]; try reflexivity.
  rewrite mem_srem. reflexivity.
Qed.

Lemma apply_dels_app : forall a b s, apply_dels (a ++ b) s = apply_dels b (apply_dels a s).
Proof. intros. unfold apply_dels. apply fold_left_app. Qed.

(* ------------------------------------------------------------------ *)
(** * 5. the commits queue and the ref walk *)

Lemma In_insert_at : forall A (l : list A) p a x,
  In x (firstn p l ++ a :: skipn p l) <-> x = a \/ In x l.
Proof.
  intros A l p a x.
  assert (H : In x l <-> In x (firstn p l) \/ In x (skipn p l)).
  { rewrite <- in_app_iff, firstn_skipn. reflexivity. }
  rewrite in_app_iff. cbn [In]. rewrite H. intuition.
Qed.

Lemma length_insert_at : forall A (l : list A) p a,
  length (firstn p l ++ a :: skipn p l) = S (length l).
Proof.
  intros A l p a. rewrite app_length. cbn [length].
  pose proof (f_equal (@length A) (firstn_skipn p l)) as E. rewrite app_length in E. lia.
Qed.

Section WalkProofs.
  Variable pos : list (N * commit) -> N -> commit -> nat.
  Variable s : state.

  Lemma q_insert_spec : forall q id q', q_insert pos s q id = Some q' ->
    (In id (q_seen q) /\ q' = q) \/
    (~ In id (q_seen q) /\ exists c, get_commit s id = Some c /\ q_seen q' = id :: q_seen q /\
       (forall x, In x (q_items q') <-> x = (id, c) \/ In x (q_items q)) /\
       length (q_items q') = S (length (q_items q))).
  Proof.
    intros q id q' H. unfold q_insert in H.
    destruct (mem id (q_seen q)) eqn:Em.
    - left. apply mem_In in Em. inversion H; subst. auto.
    - right. assert (Hn : ~ In id (q_seen q)) by (rewrite <- mem_In; congruence).
      split; [exact Hn|]. destruct (get_commit s id) as [c|] eqn:Ec; [|discriminate].
      exists c. inversion H; subst q'; clear H. cbn [q_seen q_items].
      split; [reflexivity|]. split; [reflexivity|]. split.
      + intros x. apply In_insert_at.
      + apply length_insert_at.
  Qed.

  Lemma q_insert_none : forall q id, q_insert pos s q id = None -> get_commit s id = None.
  Proof.
    intros q id H. unfold q_insert in H. destruct (mem id (q_seen q)); [discriminate|].
    destruct (get_commit s id); [discriminate|reflexivity].
  Qed.

  Definition qinv (q : queue) : Prop :=
    (forall id c, In (id, c) (q_items q) -> get_commit s id = Some c /\ In id (q_seen q)) /\
    (forall id, In id (q_seen q) -> reach s id /\ get_commit s id <> None) /\
    NoDup (q_seen q).

  Definition qext (q q' : queue) : Prop :=
    incl (q_seen q) (q_seen q') /\ incl (q_items q) (q_items q') /\
    (forall id, In id (q_seen q') -> In id (q_seen q) \/ exists c, In (id, c) (q_items q')) /\
    (length (q_items q') + length (q_seen q) = length (q_items q) + length (q_seen q'))%nat.

  Lemma qext_refl : forall q, qext q q.
  Proof. intros q. split; [apply incl_refl|split; [apply incl_refl|split; [|reflexivity]]]. intros id H. left. exact H. Qed.

  Lemma qext_trans : forall a b c, qext a b -> qext b c -> qext a c.
  Proof.
    intros a b c (A1 & A2 & A3 & A4) (B1 & B2 & B3 & B4). split; [|split; [|split]].
    - eapply incl_tran; eassumption.
    - eapply incl_tran; eassumption.
    - intros id H. destruct (B3 id H) as [H1|H1]; [|right; exact H1].
      destruct (A3 id H1) as [H2|(c0 & H2)]; [left; exact H2|right]. exists c0. apply B2. exact H2.
    - lia.
  Qed.

  Lemma q_insert_ok : forall q id q', qinv q -> reach s id -> q_insert pos s q id = Some q' ->
    qinv q' /\ qext q q' /\ In id (q_seen q').
  Proof.
    intros q id q' (I1 & I2 & I3) Hr H.
    destruct (q_insert_spec q id q' H) as [[Hin ->]|(Hn & c & Ec & Es & Ei & El)].
    - split; [split; [exact I1|split; [exact I2|exact I3]]|]. split; [apply qext_refl|exact Hin].
    - split; [|split].
      + split; [|split].
        * intros id0 c0 H0. apply Ei in H0. rewrite Es. destruct H0 as [H0|H0].
          -- inversion H0; subst. split; [exact Ec|left; reflexivity].
          -- destruct (I1 id0 c0 H0) as [J1 J2]. split; [exact J1|right; exact J2].
        * intros id0 H0. rewrite Es in H0. destruct H0 as [<-|H0]; [|apply I2; exact H0].
          split; [exact Hr|congruence].
        * rewrite Es. constructor; assumption.
      + split; [|split; [|split]].
        * rewrite Es. apply incl_tl, incl_refl.
        * intros x Hx. apply Ei. right. exact Hx.
        * intros id0 H0. rewrite Es in H0. destruct H0 as [<-|H0]; [right|left; exact H0].
          exists c. apply Ei. left. reflexivity.
        * rewrite Es, El. cbn [length]. lia.
      + rewrite Es. left. reflexivity.
  Qed.

  Lemma q_insert_all_ok : forall ps q q', qinv q -> (forall p, In p ps -> reach s p) ->
    q_insert_all pos s q ps = Some q' ->
    qinv q' /\ qext q q' /\ (forall p, In p ps -> In p (q_seen q')).
  Proof.
    induction ps as [|p ps IH]; intros q q' Hq Hr H; cbn [q_insert_all] in H.
    - inversion H; subst. split; [exact Hq|]. split; [apply qext_refl|intros p []].
    - destruct (q_insert pos s q p) as [q1|] eqn:E1; [|discriminate].
      destruct (q_insert_ok q p q1 Hq (Hr p (or_introl eq_refl)) E1) as (A1 & A2 & A3).
      destruct (IH q1 q' A1 (fun x Hx => Hr x (or_intror Hx)) H) as (B1 & B2 & B3).
      split; [exact B1|]. split; [eapply qext_trans; eassumption|].
      intros x [<-|Hx]; [|apply B3; exact Hx]. destruct B2 as (B2 & _). apply B2. exact A3.
  Qed.

  Lemma q_insert_all_none : forall ps q, q_insert_all pos s q ps = None ->
    exists p, In p ps /\ get_commit s p = None.
  Proof.
    induction ps as [|p ps IH]; intros q H; cbn [q_insert_all] in H; [discriminate|].
    destruct (q_insert pos s q p) as [q1|] eqn:E1.
    - destruct (IH q1 H) as (x & Hx & Ex). exists x. split; [right; exact Hx|exact Ex].
    - exists p. split; [left; reflexivity|]. eapply q_insert_none; exact E1.
  Qed.

  Definition finv (keys : list N) (q : queue) (found : list bool) : Prop :=
    length found = length keys /\
    (forall k, marked keys found k -> In k (q_seen q)) /\
    (forall id, In id (q_seen q) -> marked keys found id \/ exists c, In (id, c) (q_items q)) /\
    (forall k cm p, marked keys found k -> get_commit s k = Some cm -> In p (c_parents cm) ->
                    In p (q_seen q)).

  Lemma seen_le_keys : forall q, qinv q -> (length (q_seen q) <= length (commit_keys s))%nat.
  Proof.
    intros q (_ & I2 & I3). apply NoDup_incl_length; [exact I3|].
    intros id H. apply commit_keys_In. apply I2. exact H.
  Qed.

  Lemma walk_ok : ClosedReach s -> forall fuel q found,
    qinv q -> finv (commit_keys s) q found ->
    (length (q_items q) + length (commit_keys s) < fuel + length (q_seen q))%nat ->
    exists found', walk pos true s (commit_keys s) fuel q found = Ok found' /\
      length found' = length (commit_keys s) /\
      (forall k, marked (commit_keys s) found' k -> reach s k /\ get_commit s k <> None) /\
      (forall k, In k (q_seen q) -> marked (commit_keys s) found' k) /\
      (forall k cm p, marked (commit_keys s) found' k -> get_commit s k = Some cm ->
                      In p (c_parents cm) -> marked (commit_keys s) found' p).
  Proof.
    intros Hcl. set (keys := commit_keys s).
    induction fuel as [|fuel IH]; intros q found Hq Hf Hm.
    - pose proof (seen_le_keys q Hq). fold keys in H. lia.
    - cbn [walk]. destruct Hf as (F1 & F2 & F3 & F4).
      destruct (q_items q) as [|[sum c] rest] eqn:Eit.
      + exists found. split; [reflexivity|]. split; [exact F1|]. split; [|split].
        * intros k Hk. destruct Hq as (_ & I2 & _). apply I2. apply F2. exact Hk.
        * intros k Hk. destruct (F3 k Hk) as [H|(c0 & [])]. exact H.
        * intros k cm p Hk Ek Hp. pose proof (F4 k cm p Hk Ek Hp) as Hs.
          destruct (F3 p Hs) as [H|(c0 & [])]. exact H.
      + destruct Hq as (I1 & I2 & I3).
        destruct (I1 sum c) as [Esum Hsum]; [rewrite Eit; left; reflexivity|].
        destruct (I2 sum Hsum) as [Rsum _].
        assert (Hq1 : qinv (mkQ rest (q_seen q))).
        { split; [|split]; cbn [q_items q_seen].
          - intros id c0 Hin. apply (I1 id c0). rewrite Eit. right. exact Hin.
          - exact I2.
          - exact I3. }
        assert (Hrp : forall p, In p (c_parents c) -> reach s p).
        { intros p Hp. eapply reach_parent; eassumption. }
        destruct (q_insert_all pos s (mkQ rest (q_seen q)) (c_parents c)) as [q'|] eqn:Eall.
        2:{ exfalso. destruct (q_insert_all_none _ _ Eall) as (p & Hp & Ep).
            apply (Hcl sum c p Rsum Esum Hp Ep). }
        destruct (q_insert_all_ok _ _ _ Hq1 Hrp Eall) as (Hq' & (X1 & X2 & X3 & X4) & Hps).
        cbn [q_items q_seen] in X1, X2, X3, X4.
        assert (Hsk : In sum keys) by (apply commit_keys_In; congruence).
        destruct (mark_checked_spec keys found sum (sortu_sorted _) F1) as (f1 & Em & L1 & M1).
        rewrite Em.
        destruct (IH q' f1 Hq') as (f2 & Ew & L2 & R1 & R2 & R3).
        * split; [exact L1|]. split; [|split].
          -- intros k Hk. apply M1 in Hk. destruct Hk as [Hk|[-> _]]; apply X1; [apply F2; exact Hk|exact Hsum].
          -- intros id Hid. destruct (X3 id Hid) as [H|H]; [|right; exact H].
             destruct (F3 id H) as [H1|(c0 & H1)].
             ++ left. apply M1. left. exact H1.
             ++ destruct H1 as [H1|H1].
                ** inversion H1; subst. left. apply M1. right. split; [reflexivity|exact Hsk].
                ** right. exists c0. apply X2. exact H1.
          -- intros k cm p Hk Ek Hp. apply M1 in Hk. destruct Hk as [Hk|[-> _]].
             ++ apply X1. eapply F4; eassumption.
             ++ apply Hps. assert (cm = c) by congruence. subst cm. exact Hp.
        * cbn [length] in Hm. lia.
        * exists f2. split; [exact Ew|]. split; [exact L2|]. split; [exact R1|]. split; [|exact R3].
          intros k Hk. apply R2. apply X1. exact Hk.
  Qed.

  (** the queue after inserting every ref target (errors dropped) *)
  Lemma init_queue : forall (rs : list (N * N)) q,
    qinv q -> (forall r, In r rs -> reach s (snd r)) ->
    (forall id, In id (q_seen q) -> exists c, In (id, c) (q_items q)) ->
    length (q_items q) = length (q_seen q) ->
    let q' := fold_left (fun q r => q_insert_ref pos s q (snd r)) rs q in
    qinv q' /\ (forall id, In id (q_seen q') -> exists c, In (id, c) (q_items q')) /\
    length (q_items q') = length (q_seen q') /\ incl (q_seen q) (q_seen q') /\
    (forall r, In r rs -> get_commit s (snd r) <> None -> In (snd r) (q_seen q')).
  Proof.
    induction rs as [|r rs IH]; intros q Hq Hr Hit Hlen; cbn [fold_left]; cbv zeta.
    - split; [exact Hq|split; [exact Hit|split; [exact Hlen|split; [apply incl_refl|intros r []]]]].
    - set (q1 := q_insert_ref pos s q (snd r)).
      assert (H1 : qinv q1 /\ (forall id, In id (q_seen q1) -> exists c, In (id, c) (q_items q1)) /\
                   length (q_items q1) = length (q_seen q1) /\ incl (q_seen q) (q_seen q1) /\
                   (get_commit s (snd r) <> None -> In (snd r) (q_seen q1))).
      { unfold q1, q_insert_ref. destruct (q_insert pos s q (snd r)) as [q2|] eqn:E1.
        + destruct (q_insert_ok q (snd r) q2 Hq (Hr r (or_introl eq_refl)) E1) as (A1 & (X1 & X2 & X3 & X4) & A3).
          split; [exact A1|]. split; [|split; [lia|split; [exact X1|intros _; exact A3]]].
          intros id Hid. destruct (X3 id Hid) as [H|H]; [|exact H].
          destruct (Hit id H) as (c0 & H0). exists c0. apply X2. exact H0.
        + split; [exact Hq|split; [exact Hit|split; [exact Hlen|split; [apply incl_refl|]]]].
          intros Hs. exfalso. apply Hs. eapply q_insert_none; exact E1. }
      destruct H1 as (A1 & A2 & A3 & A4 & A5).
      pose proof (IH q1 A1 (fun x Hx => Hr x (or_intror Hx)) A2 A3) as HI. cbv zeta in HI.
      destruct HI as (B1 & B2 & B3 & B4 & B5).
      split; [exact B1|split; [exact B2|split; [exact B3|split]]].
      + eapply incl_tran; eassumption.
      + intros x [<-|Hx] Hs; [apply B4; apply A5; exact Hs|apply B5; assumption].
  Qed.

  Lemma reach_stored_marked : forall found,
    (forall n c, In (n, c) (refs s) -> get_commit s c <> None -> marked (commit_keys s) found c) ->
    (forall k cm p, marked (commit_keys s) found k -> get_commit s k = Some cm ->
                    In p (c_parents cm) -> get_commit s p <> None -> marked (commit_keys s) found p) ->
    forall c, reach s c -> get_commit s c <> None -> marked (commit_keys s) found c.
  Proof.
    intros found H1 H2 c Hr. induction Hr as [n c Hin|c cm p Hr IH Ec Hp]; intros Hs.
    - eapply H1; eassumption.
    - eapply H2; try eassumption. apply IH. congruence.
  Qed.

  (** findCommitsToRemove *)
  Lemma find_commits_spec : ClosedReach s ->
    exists rm sv, find_commits pos true s = Ok (rm, sv) /\
      (forall c, In c sv <-> reach s c /\ get_commit s c <> None) /\
      (forall c, In c rm <-> get_commit s c <> None /\ ~ reach s c) /\
      ssorted rm /\ ssorted sv.
  Proof.
    intros Hcl. unfold find_commits.
    set (q0 := fold_left (fun q r => q_insert_ref pos s q (snd r)) (refs s) (mkQ [] [])).
    set (keys := commit_keys s).
    assert (Hq00 : qinv (mkQ [] [])).
    { split; [|split]; cbn [q_items q_seen]; try (intros; contradiction). constructor. }
    assert (HQ : qinv q0 /\ (forall id, In id (q_seen q0) -> exists c, In (id, c) (q_items q0)) /\
                 length (q_items q0) = length (q_seen q0) /\ incl (q_seen (mkQ [] [])) (q_seen q0) /\
                 (forall r, In r (refs s) -> get_commit s (snd r) <> None -> In (snd r) (q_seen q0))).
    { apply (init_queue (refs s) (mkQ [] []) Hq00); cbn [q_items q_seen].
      - intros [n c] Hr. eapply reach_ref. exact Hr.
      - intros id [].
      - reflexivity. }
    destruct HQ as (Q1 & Q2 & Q3 & _ & Q5).
    destruct (walk_ok Hcl (S (length keys)) q0 (repeat false (length keys)) Q1) as (f & Ew & L & R1 & R2 & R3).
    { split; [apply repeat_length|]. split; [|split].
      - intros k Hk. exfalso. eapply marked_repeat_false. exact Hk.
      - intros id Hid. right. apply Q2. exact Hid.
      - intros k cm p Hk. exfalso. eapply marked_repeat_false. exact Hk. }
    { fold keys. lia. }
    fold keys in Ew, L, R1, R2, R3. rewrite Ew.
    assert (Hmk : forall c, marked keys f c <-> reach s c /\ get_commit s c <> None).
    { intros c. split; [apply R1|]. intros [Hr Hs]. revert c Hr Hs. apply reach_stored_marked.
      - intros n c Hin Hs. apply R2. apply (Q5 (n, c) Hin Hs).
      - intros k cm p Hk Ek Hp _. eapply R3; eassumption. }
    exists (select false keys f), (select true keys f). split; [reflexivity|].
    assert (Hss : ssorted keys) by apply sortu_sorted.
    split; [|split; [|split]].
    - intros c. rewrite select_true_marked by exact L. apply Hmk.
    - intros c. rewrite select_false_unmarked by (try apply ssorted_NoDup; assumption).
      unfold keys at 1. rewrite commit_keys_In, Hmk. tauto.
    - apply select_sorted. exact Hss.
    - apply select_sorted. exact Hss.
  Qed.
End WalkProofs.

(* ------------------------------------------------------------------ *)
(** * 6. pruneTables and the whole delete list *)

Definition triple (t : N) : list del := [Del KTable t; Del KTblIdx t; Del KProf t].

Fixpoint loop_dels (l : list (N * bool)) : list del :=
  match l with
  | [] => []
  | (t, keep) :: l' => (if keep then [] else triple t) ++ loop_dels l'
  end.

Lemma loop_dels_select : forall keys found, length found = length keys ->
  loop_dels (combine keys found) = flat_map triple (select false keys found).
Proof.
  induction keys as [|k keys IH]; intros [|f found] H; cbn [length] in H; try lia; [reflexivity|].
  cbn [combine loop_dels select]. rewrite IH by lia. destruct f; cbn [Bool.eqb flat_map]; reflexivity.
Qed.

Lemma deleted_triple_table : forall t t', deleted KTable t' (triple t) = (t =? t').
Proof. intros. cbn [deleted triple existsb kind_eqb andb orb]. rewrite orb_false_r. reflexivity. Qed.

Section PlanProofs.
  Variable s : state.

  Lemma table_marks_spec : forall tkeys sv found, ssorted tkeys -> length found = length tkeys ->
    (forall c, In c sv -> get_commit s c <> None) ->
    exists found', table_marks true s tkeys found sv = Ok found' /\ length found' = length tkeys /\
      forall t, marked tkeys found' t <->
                marked tkeys found t \/
                (In t tkeys /\ exists c cm, In c sv /\ get_commit s c = Some cm /\ c_table cm = t).
  Proof.
    intros tkeys sv. induction sv as [|c sv IH]; intros found Hs Hlen Hst; cbn [table_marks].
    - exists found. split; [reflexivity|]. split; [exact Hlen|]. intros t. split; [auto|].
      intros [H|(_ & c & cm & [] & _)]. exact H.
    - destruct (get_commit s c) as [cm|] eqn:Ec; [|exfalso; apply (Hst c (or_introl eq_refl) Ec)].
      destruct (mark_checked_spec tkeys found (c_table cm) Hs Hlen) as (f1 & E1 & L1 & M1).
      rewrite E1. destruct (IH f1 Hs L1 (fun x Hx => Hst x (or_intror Hx))) as (f2 & E2 & L2 & M2).
      exists f2. split; [exact E2|]. split; [exact L2|]. intros t. rewrite M2, M1. split.
      + intros [[H|[-> H]]|(H1 & c0 & cm0 & H2 & H3 & H4)].
        * left. exact H.
        * right. split; [exact H|]. exists c, cm. split; [left; reflexivity|]. split; [exact Ec|reflexivity].
        * right. split; [exact H1|]. exists c0, cm0. split; [right; exact H2|]. split; assumption.
      + intros [H|(H1 & c0 & cm0 & [<-|H2] & H3 & H4)].
        * left. left. exact H.
        * left. right. assert (cm0 = cm) by congruence. subst cm0. split; [symmetry; exact H4|].
          rewrite H4. exact H1.
        * right. split; [exact H1|]. exists c0, cm0. split; [exact H2|]. split; assumption.
  Qed.

  Lemma table_loop_spec : forall bkeys bikeys, ssorted bkeys -> ssorted bikeys ->
    forall l st kb kbi,
    NoDup (map fst l) ->
    (forall t b, In (t, b) l -> get_table st t = get_table s t) ->
    (forall t, In (t, true) l -> get_table s t <> None) ->
    length kb = length bkeys -> length kbi = length bikeys ->
    tl_status (table_loop true st bkeys bikeys l kb kbi) = Done /\
    tl_dels (table_loop true st bkeys bikeys l kb kbi) = loop_dels l /\
    length (tl_kb (table_loop true st bkeys bikeys l kb kbi)) = length bkeys /\
    length (tl_kbi (table_loop true st bkeys bikeys l kb kbi)) = length bikeys /\
    (forall b, marked bkeys (tl_kb (table_loop true st bkeys bikeys l kb kbi)) b <->
               marked bkeys kb b \/
               (In b bkeys /\ exists t tb, In (t, true) l /\ get_table s t = Some tb /\ In b (t_blocks tb))) /\
    (forall b, marked bikeys (tl_kbi (table_loop true st bkeys bikeys l kb kbi)) b <->
               marked bikeys kbi b \/
               (In b bikeys /\ exists t tb, In (t, true) l /\ get_table s t = Some tb /\ In b (t_blkidx tb))).
  Proof.
    intros bkeys bikeys Hsb Hsbi l.
    induction l as [|[t keep] l IH]; intros st kb kbi Hnd Hst Hkeep Lkb Lkbi.
    - cbn [table_loop tl_status tl_dels tl_kb tl_kbi loop_dels].
      repeat (split; [first [reflexivity|assumption]|]). split.
      + intros b. split; [auto|]. intros [H|(_ & t & tb & [] & _)]. exact H.
      + intros b. split; [auto|]. intros [H|(_ & t & tb & [] & _)]. exact H.
    - cbn [map fst] in Hnd. apply NoDup_cons_iff in Hnd. destruct Hnd as [Hnt Hnd].
      cbn [table_loop]. destruct keep.
      + assert (Et : get_table st t = get_table s t) by (apply (Hst t true); left; reflexivity).
        destruct (get_table s t) as [tb|] eqn:Etb; [|exfalso; apply (Hkeep t (or_introl eq_refl) Etb)].
        rewrite Et.
        destruct (mark_all_checked_spec bkeys (t_blocks tb) kb Hsb Lkb) as (kb1 & E1 & L1 & M1).
        rewrite E1.
        destruct (mark_all_checked_spec bikeys (t_blkidx tb) kbi Hsbi Lkbi) as (kbi1 & E2 & L2 & M2).
        rewrite E2.
        destruct (IH st kb1 kbi1 Hnd (fun t0 b0 H0 => Hst t0 b0 (or_intror H0))
                     (fun t0 H0 => Hkeep t0 (or_intror H0)) L1 L2) as (R1 & R2 & R3 & R4 & R5 & R6).
        split; [exact R1|]. split; [cbn [loop_dels app]; exact R2|]. split; [exact R3|]. split; [exact R4|].
        split.
        * intros b. rewrite R5, M1. split.
          -- intros [[H|[H1 H2]]|(H1 & t0 & tb0 & H2 & H3 & H4)].
             ++ left. exact H.
             ++ right. split; [exact H2|]. exists t, tb. split; [left; reflexivity|]. split; [exact Etb|exact H1].
             ++ right. split; [exact H1|]. exists t0, tb0. split; [right; exact H2|]. split; assumption.
          -- intros [H|(H1 & t0 & tb0 & [H2|H2] & H3 & H4)].
             ++ left. left. exact H.
             ++ inversion H2; subst t0. assert (tb0 = tb) by congruence. subst tb0.
                left. right. split; assumption.
             ++ right. split; [exact H1|]. exists t0, tb0. split; [exact H2|]. split; assumption.
        * intros b. rewrite R6, M2. split.
          -- intros [[H|[H1 H2]]|(H1 & t0 & tb0 & H2 & H3 & H4)].
             ++ left. exact H.
             ++ right. split; [exact H2|]. exists t, tb. split; [left; reflexivity|]. split; [exact Etb|exact H1].
             ++ right. split; [exact H1|]. exists t0, tb0. split; [right; exact H2|]. split; assumption.
          -- intros [H|(H1 & t0 & tb0 & [H2|H2] & H3 & H4)].
             ++ left. left. exact H.
             ++ inversion H2; subst t0. assert (tb0 = tb) by congruence. subst tb0.
                left. right. split; assumption.
             ++ right. split; [exact H1|]. exists t0, tb0. split; [exact H2|]. split; assumption.
      + cbn [tl_status tl_dels tl_kb tl_kbi].
        fold (triple t).
        assert (Hst' : forall t0 b0, In (t0, b0) l -> get_table (apply_dels (triple t) st) t0 = get_table s t0).
        { intros t0 b0 H0. rewrite apply_dels_table, deleted_triple_table.
          destruct (t =? t0) eqn:E.
          - apply N.eqb_eq in E. subst t0. exfalso. apply Hnt.
            change t with (fst (t, b0)). apply in_map. exact H0.
          - apply (Hst t0 b0). right. exact H0. }
        destruct (IH (apply_dels (triple t) st) kb kbi Hnd Hst'
                     (fun t0 H0 => Hkeep t0 (or_intror H0)) Lkb Lkbi) as (R1 & R2 & R3 & R4 & R5 & R6).
        split; [exact R1|]. split; [cbn [loop_dels]; rewrite R2; reflexivity|]. split; [exact R3|]. split; [exact R4|].
        split.
        * intros b. rewrite R5. split.
          -- intros [H|(H1 & t0 & tb0 & H2 & H3)]; [left; exact H|].
             right. split; [exact H1|]. exists t0, tb0. split; [right; exact H2|exact H3].
          -- intros [H|(H1 & t0 & tb0 & [H2|H2] & H3)]; [left; exact H|discriminate H2|].
             right. split; [exact H1|]. exists t0, tb0. split; [exact H2|exact H3].
        * intros b. rewrite R6. split.
          -- intros [H|(H1 & t0 & tb0 & H2 & H3)]; [left; exact H|].
             right. split; [exact H1|]. exists t0, tb0. split; [right; exact H2|exact H3].
          -- intros [H|(H1 & t0 & tb0 & [H2|H2] & H3)]; [left; exact H|discriminate H2|].
             right. split; [exact H1|]. exists t0, tb0. split; [exact H2|exact H3].
  Qed.
End PlanProofs.

