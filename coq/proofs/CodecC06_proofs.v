(** Bundled statements for props/C06.v.  Axiom-free. *)
From W.lib Require Import Tree Bytes.
From W.model Require Import CodecBase CodecStrList CodecPackfile CodecObjline CodecCommit
     CodecTable CodecProfile CodecStore.
From W.proofs Require Import CodecBase_proofs CodecStrList_proofs CodecPackfile_proofs
     CodecObjline_proofs CodecCommit_proofs CodecTable_proofs CodecProfile_proofs CodecStore_proofs.
From Coq Require Import Arith Lia ZifyNat ZifyN ZifyBool List NArith Bool ZArith.
Import ListNotations.
Local Open Scope N_scope.

Lemma uintlist_roundtrip l : wf_uintlist l ->
  exists b, encode_uintlist l = Some b /\ forall rest, decode_uintlist (b ++ rest) = Some (l, rest).
Proof. apply (words_roundtrip 4). lia. Qed.

Lemma uintlist_reencode b l rest : wf_bytes b -> decode_uintlist b = Some (l, rest) ->
  exists b', encode_uintlist l = Some b' /\ b = b' ++ rest /\ wf_bytes rest /\ wf_uintlist l.
Proof. apply (words_reencode 4). Qed.

Lemma floatlist_roundtrip l : wf_floatlist l ->
  exists b, encode_floatlist l = Some b /\ forall rest, decode_floatlist (b ++ rest) = Some (l, rest).
Proof. apply (words_roundtrip 8). lia. Qed.

Lemma floatlist_reencode b l rest : wf_bytes b -> decode_floatlist b = Some (l, rest) ->
  exists b', encode_floatlist l = Some b' /\ b = b' ++ rest /\ wf_bytes rest /\ wf_floatlist l.
Proof. apply (words_reencode 8). Qed.

(** a cell / text field longer than 65535 bytes: every encoder that carries one refuses *)
Theorem reject_overlimit_all :
  (forall sl, Exists (fun s => max_str_len < len s) sl -> encode_strlist sl = None) /\
  (forall rows, Exists (fun row => Exists (fun s => max_str_len < len s) row) rows ->
                encode_block rows = None) /\
  (forall t, Exists (fun s => max_str_len < len s) (t_columns t) -> encode_table t = None) /\
  (forall c, commit_overlimit c -> encode_commit c = None) /\
  (forall p, Exists (fun c => Exists val_overlimit c) (p_cols p) -> encode_profile p = None) /\
  (forall s, 65535 < len s -> enc_string s = None).
Proof.
  repeat split.
  - exact strlist_reject_overlimit.
  - exact block_reject_overlimit.
  - exact table_reject_overlimit.
  - exact commit_reject_overlimit.
  - exact profile_reject_overlimit.
  - exact enc_string_none.
Qed.

(** concrete well-formed values (non-vacuity of the hypotheses) *)
Definition ex_commit : commit :=
  mk_commit zeros16 [74; 111] [255; 0] (1700000000%Z, (-570)%Z) [104; 105; 10] [zeros16; zeros16].
Definition ex_table : table :=
  mk_table [[105; 100]; []] [0] 300 [zeros16; zeros16] [zeros16; zeros16].
Definition ex_blockindex : blockindex := mk_bi [1; 0] [zeros16 ++ zeros16; zeros16 ++ zeros16].
Definition ex_profile : profile :=
  mk_profile 1 3 [[VStr [97]; VNum 2; VF64 (Some 0); VF64 None; VF64 None; VF64 None; VF64 None;
                   VPct (Some [1; 2]); VNum 0; VNum 65535; VNum 1; VTop (Some [([120], 2); ([], 1)])]].

Lemma nonvacuous :
  wf_strlist [[65; 66]; []; [255; 0]] /\ wf_block [[[65]; []]; []] /\ wf_uintlist [0; 4294967295] /\
  wf_commit ex_commit /\ wf_table ex_table /\ wf_blockindex ex_blockindex /\ wf_profile ex_profile /\
  wf_pktline [104; 105] /\ wf_packfile [(1, [1; 2; 3]); (3, [])] /\
  wf_time zero_time /\ wf_time (9999999999%Z, 1499%Z).
Proof.
  assert (T0 : wf_time zero_time) by (now left).
  assert (T1 : wf_time (1700000000%Z, (-570)%Z)) by (right; cbn; lia).
  assert (T2 : wf_time (9999999999%Z, 1499%Z)) by (right; cbn; lia).
  repeat match goal with |- _ /\ _ => split end;
    first [ exact T0 | exact T1 | exact T2 | reflexivity
          | (repeat constructor; vm_compute; congruence) | (vm_compute; congruence) ].
Qed.
