(** ObjectReceiver.Receive keeps the store closed, whatever the packfile and whatever the
    outcome (accepted, rejected, even a panic): model/DecReceive.v. *)
From Coq Require Import String.
From Coq Require Import List Lia Arith ZArith ZifyNat ZifyN ZifyBool.
From W.lib Require Import Tree Bytes GoSlice Reader.
From W.model Require Import DecPrim DecLists DecObjects DecPack DecReceive.
From W.proofs Require Import DecSpec_proofs DecPrim_proofs DecLists_proofs DecObjects_proofs DecPack_proofs.
Local Open Scope N_scope.

Lemma beqb_true a b : beqb a b = true -> a = b.
Proof. unfold beqb. destruct (bcmp a b) eqn:E; try discriminate. intros _. now apply bcmp_eq. Qed.
Lemma beqb_refl a : beqb a a = true.
Proof. unfold beqb. now rewrite bcmp_refl. Qed.

Lemma has_key_cons {V} (l : list (bytes * V)) k v k' :
  has_key l k' = true -> has_key ((k, v) :: l) k' = true.
Proof. unfold has_key. cbn. destruct (beqb k k'); auto. Qed.
Lemma has_key_head {V} (l : list (bytes * V)) k v : has_key ((k, v) :: l) k = true.
Proof. unfold has_key. cbn. now rewrite beqb_refl. Qed.
Lemma mem_cons l k x : mem l x = true -> mem (k :: l) x = true.
Proof. unfold mem. cbn. intros ->. now rewrite orb_true_r. Qed.
Lemma mem_head l k : mem (k :: l) k = true.
Proof. unfold mem. cbn. now rewrite beqb_refl. Qed.
Lemma lookup_has_key {V} (l : list (bytes * V)) k v : lookup l k = Some v -> has_key l k = true.
Proof. unfold has_key. now intros ->. Qed.

Section ReceiveProofs.
  Variable H : bytes -> bytes.
  Variable unz : bytes -> option bytes.
  Variable idx_sum : bytes -> list N -> bytes.
  Variable parse_int : bytes -> option Z.
  Variable parse_tz : bytes -> option Z.
  Variable pc : precap.
  Variable fp : faults.

  Notation closed := (closed unz parse_int parse_tz pc).
  Notation table_ok := (table_ok pc).
  Notation commit_ok := (commit_ok parse_int parse_tz).
  Notation block_ok := (block_ok unz).

  (** st' has at least the keys of st *)
  Definition ext (st st' : store) : Prop :=
    (forall k, has_key (st_blk st) k = true -> has_key (st_blk st') k = true) /\
    (forall k, mem (st_blkidx st) k = true -> mem (st_blkidx st') k = true) /\
    (forall k, mem (st_tblidx st) k = true -> mem (st_tblidx st') k = true) /\
    (forall k, mem (st_tblprof st) k = true -> mem (st_tblprof st') k = true) /\
    (forall k, has_key (st_com st) k = true -> has_key (st_com st') k = true).

  Lemma ext_refl st : ext st st.
  Proof. unfold ext; tauto. Qed.
  Lemma ext_trans a b c : ext a b -> ext b c -> ext a c.
  Proof. unfold ext. intros (A1 & A2 & A3 & A4 & A5) (B1 & B2 & B3 & B4 & B5). repeat split; auto. Qed.

  Lemma table_ok_ext st st' t c : ext st st' -> table_ok st t c -> table_ok st' t c.
  Proof.
    intros (E1 & E2 & E3 & E4 & E5) (tbl & Ht & Hb & Hi & Hp).
    exists tbl. repeat split; auto.
    - destruct (Hb _ _ H0) as [Hk _]. auto.
    - destruct (Hb _ _ H0) as [_ (x & Hx & Hm)]. exists x. split; auto.
  Qed.

  Lemma commit_ok_ext st st' c : ext st st' -> commit_ok st c -> commit_ok st' c.
  Proof.
    intros (E1 & E2 & E3 & E4 & E5) (cm & Hc & Hp). exists cm. split; auto.
  Qed.

  (** additions that leave the three content maps alone *)
  Lemma closed_ext st st' :
    closed st -> ext st st' ->
    st_blk st' = st_blk st -> st_tbl st' = st_tbl st -> st_com st' = st_com st -> closed st'.
  Proof.
    intros (C1 & C2 & C3) He Eb Et Ec. unfold DecReceive.closed. rewrite Eb, Et, Ec.
    repeat split.
    - exact C1.
    - intros t c Hl. eapply table_ok_ext; eauto.
    - intros k c Hl. eapply commit_ok_ext; eauto.
  Qed.

  Lemma ext_add_blkidx st k : ext st (add_blkidx st k).
  Proof. unfold ext, add_blkidx; cbn. repeat split; auto. intros. now apply mem_cons. Qed.
  Lemma ext_add_tblidx st k : ext st (add_tblidx st k).
  Proof. unfold ext, add_tblidx; cbn. repeat split; auto. intros. now apply mem_cons. Qed.
  Lemma ext_add_tblprof st k : ext st (add_tblprof st k).
  Proof. unfold ext, add_tblprof; cbn. repeat split; auto. intros. now apply mem_cons. Qed.
  Lemma ext_add_blk st k v : ext st (add_blk st k v).
  Proof. unfold ext, add_blk; cbn. repeat split; auto. intros. now apply has_key_cons. Qed.
  Lemma ext_add_tbl st k v : ext st (add_tbl st k v).
  Proof. unfold ext, add_tbl; cbn. repeat split; auto. Qed.
  Lemma ext_add_com st k v : ext st (add_com st k v).
  Proof. unfold ext, add_com; cbn. repeat split; auto. intros. now apply has_key_cons. Qed.

  Lemma closed_add_blk st k comp : closed st -> block_ok comp -> closed (add_blk st k comp).
  Proof.
    intros (C1 & C2 & C3) Hb. repeat split.
    - intros k' c'. unfold add_blk; cbn. destruct (beqb k k'); [intros E; inversion E; subst; auto|apply C1].
    - intros t c Hl. apply (table_ok_ext st (add_blk st k comp)); [apply ext_add_blk|]. apply (C2 _ _ Hl).
    - intros k' c Hl. apply (commit_ok_ext st (add_blk st k comp)); [apply ext_add_blk|]. apply (C3 _ _ Hl).
  Qed.

  Lemma closed_add_tbl st t c : closed st -> table_ok st t c -> closed (add_tbl st t c).
  Proof.
    intros (C1 & C2 & C3) Ht. repeat split.
    - exact C1.
    - intros t' c'. unfold add_tbl at 1; cbn [st_tbl lookup]. destruct (beqb t t') eqn:E.
      + intros E'; inversion E'; subst c'. apply beqb_true in E. subst t'.
        apply (table_ok_ext st (add_tbl st t c)); [apply ext_add_tbl|exact Ht].
      + intros Hl. apply (table_ok_ext st (add_tbl st t c)); [apply ext_add_tbl|]. apply (C2 _ _ Hl).
    - intros k' c' Hl. apply (commit_ok_ext st (add_tbl st t c)); [apply ext_add_tbl|]. apply (C3 _ _ Hl).
  Qed.

  Lemma closed_add_com st k c : closed st -> commit_ok st c -> closed (add_com st k c).
  Proof.
    intros (C1 & C2 & C3) Hc. repeat split.
    - exact C1.
    - intros t c' Hl. apply (table_ok_ext st (add_com st k c)); [apply ext_add_com|]. apply (C2 _ _ Hl).
    - intros k' c'. unfold add_com at 1; cbn [st_com lookup]. destruct (beqb k k').
      + intros E'; inversion E'; subst c'. apply (commit_ok_ext st (add_com st k c)); [apply ext_add_com|exact Hc].
      + intros Hl. apply (commit_ok_ext st (add_com st k c)); [apply ext_add_com|]. apply (C3 _ _ Hl).
  Qed.

  (** counting a Get changes no key *)
  Lemma ext_bump st : ext st (bump_gets st).
  Proof. unfold ext, bump_gets; cbn. repeat split; auto. Qed.
  Lemma closed_bump st : closed st -> closed (bump_gets st).
  Proof. intros Hc. eapply closed_ext; [exact Hc|apply ext_bump|reflexivity|reflexivity|reflexivity]. Qed.

  (** saveBlock *)
  Lemma save_block_closed st b r st' m :
    closed st -> save_block H unz fp st b = (r, st', m) -> closed st' /\ ext st st'.
  Proof.
    intros Hc. unfold save_block. destruct (unz b) as [content|] eqn:Eu.
    - destruct (validate_block content) as [[]|e|] eqn:Ev;
        [destruct (set_ok fp 0 st)| |]; intros E; inversion E; subst;
        try (split; [assumption|apply ext_refl]).
      split; [|apply ext_add_blk]. apply closed_add_blk; auto. exists content. auto.
    - intros E; inversion E; subst. split; [assumption|apply ext_refl].
  Qed.

  Lemma get_block_has_key st sum blk m :
    get_block unz pc fp st sum = (Ok blk, m) -> has_key (st_blk st) sum = true.
  Proof.
    unfold get_block. destruct (get_ok fp st); [|discriminate].
    destruct (lookup (st_blk st) sum) eqn:E; [|discriminate].
    intros _. eapply lookup_has_key; eauto.
  Qed.

  (** the loop of IndexTable only adds block-index keys; when it succeeds every block of
      the table is present with its index *)
  Definition only_blkidx (st st' : store) : Prop :=
    st_blk st' = st_blk st /\ st_tbl st' = st_tbl st /\ st_com st' = st_com st /\
    st_tblidx st' = st_tblidx st /\ st_tblprof st' = st_tblprof st /\
    (forall x, mem (st_blkidx st) x = true -> mem (st_blkidx st') x = true).

  Lemma only_blkidx_refl st : only_blkidx st st.
  Proof. unfold only_blkidx. tauto. Qed.

  Lemma only_blkidx_bump st : only_blkidx st (bump_gets st).
  Proof. unfold only_blkidx, bump_gets; cbn. tauto. Qed.

  Lemma only_blkidx_add st k : only_blkidx st (add_blkidx st k).
  Proof. unfold only_blkidx, add_blkidx; cbn. repeat split; auto. intros. now apply mem_cons. Qed.

  Lemma only_blkidx_trans a b c : only_blkidx a b -> only_blkidx b c -> only_blkidx a c.
  Proof.
    unfold only_blkidx. intros (A1 & A2 & A3 & A4 & A5 & A6) (B1 & B2 & B3 & B4 & B5 & B6).
    repeat split; try congruence. auto.
  Qed.

  Lemma only_blkidx_ext st st' : only_blkidx st st' -> ext st st'.
  Proof. intros (E1 & E2 & E3 & E4 & E5 & E6). unfold ext. rewrite E1, E3, E4, E5. repeat split; auto. Qed.

  Lemma index_blocks_only tbl : forall blocks st i m r st' m',
    index_blocks unz idx_sum pc fp st tbl blocks i m = (r, st', m') -> only_blkidx st st'.
  Proof.
    induction blocks as [|sum blocks IH]; intros st i m r st' m' E; cbn [index_blocks] in E.
    - inversion E; subst. apply only_blkidx_refl.
    - destruct (get_block unz pc fp st sum) as [rb mb].
      destruct rb as [blk|e|]; try (inversion E; subst; apply only_blkidx_bump).
      destruct blk as [|row blk]; [inversion E; subst; apply only_blkidx_bump|].
      destruct (widths_ok (length (tb_columns tbl)) (row :: blk));
        [|inversion E; subst; apply only_blkidx_bump].
      destruct (pick_rows (row :: blk) (tb_pk tbl)) as [[]|e0|];
        try (inversion E; subst; apply only_blkidx_bump).
      destruct (set_ok fp 1 (bump_gets st)); [|inversion E; subst; apply only_blkidx_bump].
      assert (Hb : only_blkidx st (add_blkidx (bump_gets st) (idx_sum sum (tb_pk tbl)))).
      { eapply only_blkidx_trans; [apply only_blkidx_bump|apply only_blkidx_add]. }
      destruct (idx (tb_indices tbl) i) as [x|e|]; try (inversion E; subst; exact Hb).
      destruct (beqb (idx_sum sum (tb_pk tbl)) x); [|inversion E; subst; exact Hb].
      apply IH in E. eapply only_blkidx_trans; [exact Hb|exact E].
  Qed.

  Lemma index_blocks_ok tbl : forall blocks st i m st' m',
    index_blocks unz idx_sum pc fp st tbl blocks i m = (Ok tt, st', m') ->
    forall j b, nth_error blocks j = Some b ->
      has_key (st_blk st) b = true /\
      exists x, nth_error (tb_indices tbl) (i + j) = Some x /\ mem (st_blkidx st') x = true.
  Proof.
    induction blocks as [|sum blocks IH]; intros st i m st' m' E j b Hj; cbn [index_blocks] in E.
    - destruct j; discriminate.
    - destruct (get_block unz pc fp st sum) as [rb mb] eqn:Eg.
      destruct rb as [blk|e|]; try discriminate.
      destruct blk as [|row blk]; [discriminate|].
      destruct (widths_ok (length (tb_columns tbl)) (row :: blk)); [|discriminate].
      destruct (pick_rows (row :: blk) (tb_pk tbl)) as [[]|e0|]; try discriminate.
      destruct (set_ok fp 1 (bump_gets st)); [|discriminate].
      unfold idx in E. destruct (nth_error (tb_indices tbl) i) as [x|] eqn:En; [|discriminate].
      destruct (beqb (idx_sum sum (tb_pk tbl)) x) eqn:Eb; [|discriminate].
      apply beqb_true in Eb.
      pose proof (index_blocks_only _ _ _ _ _ _ _ _ E) as (O1 & O2 & O3 & O4 & O5 & O6).
      destruct j as [|j]; cbn in Hj.
      + inversion Hj; subst b. split; [eapply get_block_has_key; eauto|].
        exists x. rewrite Nat.add_0_r. split; [exact En|].
        apply O6. cbn. rewrite Eb. apply mem_head.
      + destruct (IH _ _ _ _ _ E j b Hj) as [Hk (y & Hy & Hm)]. split; [exact Hk|].
        exists y. replace (i + S j)%nat with (S i + j)%nat by lia. auto.
  Qed.

  (** ProfileTable's reads change no key *)
  Lemma profile_blocks_only : forall blocks st m r st' m',
    profile_blocks unz pc fp st blocks m = (r, st', m') -> only_blkidx st st'.
  Proof.
    induction blocks as [|sum blocks IH]; intros st m r st' m' E; cbn [profile_blocks] in E.
    - inversion E; subst. apply only_blkidx_refl.
    - destruct (get_block unz pc fp st sum) as [rb mb].
      destruct rb as [blk|e|]; try (inversion E; subst; apply only_blkidx_bump).
      apply IH in E. eapply only_blkidx_trans; [apply only_blkidx_bump|exact E].
  Qed.

  (** saveTable *)
  Lemma save_table_closed st b r st' m :
    closed st -> save_table H unz idx_sum pc fp st b = (r, st', m) -> closed st' /\ ext st st'.
  Proof.
    intros Hc. unfold save_table.
    destruct (dec_on (table_read pc) b) as [rt m0] eqn:Ed.
    destruct rt as [tbl|e|]; try (intros E; inversion E; subst; split; [assumption|apply ext_refl]).
    unfold index_table.
    destruct (pk_out_of_range (length (tb_columns tbl)) (tb_pk tbl)).
    { intros E; inversion E; subst. split; [assumption|apply ext_refl]. }
    destruct (index_blocks unz idx_sum pc fp st tbl (tb_blocks tbl) 0 0) as [[r0 st0] m1] eqn:Ei.
    pose proof (index_blocks_only _ _ _ _ _ _ _ _ Ei) as Ho0.
    assert (Hext0 : ext st st0) by (now apply only_blkidx_ext).
    destruct Ho0 as (E1 & E2 & E3 & E4 & E5 & E6).
    assert (Hc0 : closed st0) by (eapply closed_ext; eauto).
    destruct r0 as [[]|e|]; try (intros E; inversion E; subst; split; assumption).
    destruct (set_ok fp 3 st0); [|intros E; inversion E; subst; split; assumption].
    unfold profile_table.
    destruct (profile_blocks unz pc fp (add_tblidx st0 (H b)) (tb_blocks tbl) 0) as [[r2 st2] m2] eqn:Ep.
    assert (Hc1 : closed (add_tblidx st0 (H b))).
    { eapply closed_ext; [exact Hc0|apply ext_add_tblidx|reflexivity|reflexivity|reflexivity]. }
    assert (Hext1 : ext st (add_tblidx st0 (H b))) by (eapply ext_trans; [exact Hext0|apply ext_add_tblidx]).
    pose proof (profile_blocks_only _ _ _ _ _ _ Ep) as Ho2.
    assert (Hext2 : ext (add_tblidx st0 (H b)) st2) by (now apply only_blkidx_ext).
    destruct Ho2 as (P1 & P2 & P3 & P4 & P5 & P6).
    assert (Hc2 : closed st2) by (eapply closed_ext; eauto).
    assert (Hext02 : ext st st2) by (eapply ext_trans; eauto).
    destruct r2 as [[]|e|]; try (intros E; inversion E; subst; split; assumption).
    destruct (set_ok fp 4 st2); [|intros E; inversion E; subst; split; assumption].
    destruct (set_ok fp 2 (add_tblprof st2 (H b))).
    2:{ intros E; inversion E; subst. split.
        - eapply closed_ext; [exact Hc2|apply ext_add_tblprof|reflexivity|reflexivity|reflexivity].
        - eapply ext_trans; [exact Hext02|apply ext_add_tblprof]. }
    intros E; inversion E; subst. split.
    - apply closed_add_tbl.
      + eapply closed_ext; [exact Hc2|apply ext_add_tblprof|reflexivity|reflexivity|reflexivity].
      + exists tbl. split; [unfold table_of; now rewrite Ed|]. split; [|split].
        * intros i bsum Hn. destruct (index_blocks_ok _ _ _ _ _ _ _ Ei i bsum Hn) as [Hk (x & Hx & Hm)].
          cbn [add_tblprof add_tblidx st_blk st_blkidx]. rewrite P1. cbn [add_tblidx st_blk]. rewrite E1.
          split; [exact Hk|]. exists x. split; auto.
        * cbn [add_tblprof st_tblidx]. rewrite P4. cbn. apply mem_head.
        * cbn. apply mem_head.
    - eapply ext_trans; [exact Hext02|]. eapply ext_trans; [apply ext_add_tblprof|apply ext_add_tbl].
  Qed.

  (** saveCommit *)
  Lemma save_commit_closed st b r st' m :
    closed st -> save_commit H parse_int parse_tz fp st b = (r, st', m) -> closed st' /\ ext st st'.
  Proof.
    intros Hc. unfold save_commit.
    destruct (dec_on (commit_read parse_int parse_tz) b) as [rc m0] eqn:Ed.
    destruct rc as [c|e|]; try (intros E; inversion E; subst; split; [assumption|apply ext_refl]).
    destruct (forallb (has_key (st_com st)) (c_parents c)) eqn:Ef;
      [destruct (set_ok fp 5 st)|]; intros E; inversion E; subst;
      try (split; [assumption|apply ext_refl]).
    split; [|apply ext_add_com]. apply closed_add_com; auto.
    exists c. split; [unfold commit_of; now rewrite Ed|].
    intros p Hp. rewrite forallb_forall in Ef. now apply Ef.
  Qed.

  (** Receive *)
  Lemma receive_loop_closed F : forall fuel st s m r st' m',
    closed st -> receive_loop H unz idx_sum parse_int parse_tz pc fp fuel F st s m = (r, st', m') ->
    closed st' /\ ext st st'.
  Proof.
    induction fuel as [|fuel IH]; intros st s m r st' m' Hc E; cbn [receive_loop] in E.
    - inversion E; subst. split; [assumption|apply ext_refl].
    - destruct (exec_pure (object_read F) s m) as [[ro s1] m1].
      destruct ro as [[ot b]|e|].
      + match type of E with context [if ot =? 3 then ?a else ?x] =>
          remember (if ot =? 3 then a else x) as X eqn:EX end.
        assert (Hc2 : closed (snd (fst X)) /\ ext st (snd (fst X))).
        { subst X. destruct (ot =? 3); [destruct (save_block H unz fp st b) as [[? ?] ?] eqn:E2; eapply save_block_closed; eauto|].
          destruct (ot =? 2); [destruct (save_table H unz idx_sum pc fp st b) as [[? ?] ?] eqn:E2; eapply save_table_closed; eauto|].
          destruct (ot =? 1); [destruct (save_commit H parse_int parse_tz fp st b) as [[? ?] ?] eqn:E2; eapply save_commit_closed; eauto|].
          destruct ((ot =? 0) && match b with [] => true | _ :: _ => false end);
            cbn; split; auto using ext_refl. }
        clear EX. destruct X as [[r2 st2] m2]. cbn [fst snd] in Hc2.
        destruct Hc2 as [Hc2 He2].
        destruct r2 as [[]|e2|]; try (inversion E; subst; split; assumption).
        apply IH in E; auto. destruct E as [E1 E3]. split; auto. eapply ext_trans; eauto.
      + destruct e; inversion E; subst; split; auto using ext_refl.
      + inversion E; subst; split; auto using ext_refl.
  Qed.

  (** for EVERY fault plan [fp] (which Set / which key prefix / which Get fails) *)
  Theorem receive_closed st pack r st' m :
    closed st -> receive H unz idx_sum parse_int parse_tz pc fp st pack = (r, st', m) ->
    closed st' /\ ext st st'.
  Proof.
    intros Hc. unfold receive.
    destruct (exec_pure (packfile_version (dec_fuel pack)) pack 0) as [[rv s] m0].
    destruct rv as [v|e|].
    - intros E. eapply receive_loop_closed; eauto.
    - intros E; inversion E; subst; split; auto using ext_refl.
    - intros E; inversion E; subst; split; auto using ext_refl.
  Qed.

  Lemma closed_empty : closed empty_store.
  Proof. repeat split; intros; discriminate. Qed.
End ReceiveProofs.

(** the allocation meter only grows *)
Lemma exec_pure_meter_mono {A} (p : prog A) : forall s m, m <= snd (exec_pure p s m).
Proof.
  induction p as [a|e| |st n k IH|st n k IH|c k IH]; intros s m; cbn; try lia.
  - destruct (pure_read_full n s) as [[d e] s']. apply IH.
  - destruct (pure_copy_n n s) as [[d e] s']. apply IH.
  - specialize (IH s (m + c)). lia.
Qed.

Lemma receive_loop_meter_mono H unz idx_sum pi ptz pc fp F : forall fuel st s m,
  m <= snd (receive_loop H unz idx_sum pi ptz pc fp fuel F st s m).
Proof.
  induction fuel as [|fuel IH]; intros st s m; cbn [receive_loop]; [cbn; lia|].
  pose proof (exec_pure_meter_mono (object_read F) s m) as Hm.
  destruct (exec_pure (object_read F) s m) as [[ro s1] m1]. cbn [snd] in Hm.
  destruct ro as [[ot b]|e|]; [|destruct e; cbn; lia|cbn; lia].
  destruct (if ot =? 3 then save_block H unz fp st b
            else if ot =? 2 then save_table H unz idx_sum pc fp st b
            else if ot =? 1 then save_commit H pi ptz fp st b
            else if (ot =? 0) && match b with [] => true | _ :: _ => false end then (Ok tt, st, 0)
            else (Err COther, st, 0)) as [[r2 st2] m2].
  destruct r2 as [[]|e2|]; cbn [snd]; try lia.
  specialize (IH st2 s1 (m1 + m2)). lia.
Qed.

(** s2.Decode allocates the announced length before looking at the data: the 15-byte
    packfile  PACK 00000001 | b5 00 | ff ff ff ff 0f  makes Receive allocate 2^32-1 bytes,
    whatever the hash, the decompressor and the index sums are. *)
Definition s2_witness : bytes :=
  [80; 65; 67; 75; 0; 0; 0; 1; 181; 0; 255; 255; 255; 255; 15].

Lemma receive_loop_block_charge H unz idx_sum pi ptz pc fp F fuel st s m b s1 m1 :
  exec_pure (object_read F) s m = (Ok (3, b), s1, m1) ->
  m1 + s2_charge b <= snd (receive_loop H unz idx_sum pi ptz pc fp (S fuel) F st s m).
Proof.
  intros E. cbn [receive_loop]. rewrite E. cbn [N.eqb Pos.eqb]. unfold save_block.
  destruct (unz b) as [content|]; [|cbn [snd]; lia].
  destruct (validate_block content) as [[]|e|]; cbn [snd]; try lia.
  destruct (set_ok fp 0 st); cbn [snd]; try lia.
  match goal with |- context [receive_loop _ _ _ _ _ _ _ ?f ?F0 ?st0 ?s0 ?m0] =>
    pose proof (receive_loop_meter_mono H unz idx_sum pi ptz pc fp F0 f st0 s0 m0) as Hm end.
  lia.
Qed.

Theorem receive_s2_alloc H unz idx_sum pi ptz fp :
  4294967295 <= snd (receive H unz idx_sum pi ptz precap_of_code fp empty_store s2_witness).
Proof.
  unfold receive.
  change (dec_fuel s2_witness) with (S 16).
  replace (exec_pure (packfile_version 17) s2_witness 0)
    with (@Ok N 1, [181; 0; 255; 255; 255; 255; 15], 12) by (vm_compute; reflexivity).
  cbv iota beta.
  eapply N.le_trans; [|apply (receive_loop_block_charge H unz idx_sum pi ptz precap_of_code fp 17 16
                                empty_store _ 12 [255; 255; 255; 255; 15] [] 530);
                        vm_compute; reflexivity].
  vm_compute. discriminate.
Qed.

(** ** Receive never panics and never runs out of fuel (well-formed packfile, decompressor
    producing well-formed bytes) *)
Definition good_res {A} (r : res A) : Prop := r <> Panic /\ r <> Err CFuel.

Lemma good_err_cast {A B} e : good_res (@Err A e) -> good_res (@Err B e).
Proof. intros [_ G]. split; [discriminate|]. intros E; inversion E; subst. now apply G. Qed.
Lemma good_panic_absurd {A} (P : Prop) : good_res (@Panic A) -> P.
Proof. intros [G _]. congruence. Qed.

Lemma spec_exec {A} F c (J : A -> Z) K (p : prog A) (R : A -> nat -> Prop) s m :
  spec F c J K p R -> (length s < F)%nat -> wf_bytes s ->
  exists r d s' m', exec_pure p s m = (r, s', m') /\ s = d ++ s' /\ good_res r /\
                    (forall a, r = Ok a -> R a (length d)).
Proof.
  intros Hs Hl Hw. destruct (Hs s m Hl Hw) as (r & d & s' & dm & E & Es & P).
  exists r, d, s', (m + dm). split; [exact E|]. split; [exact Es|].
  destruct r as [a|e|]; cbn in P.
  - split; [split; discriminate|]. intros a' Ea; inversion Ea; subst; tauto.
  - split; [split; [discriminate|intros Ee; inversion Ee; tauto]|discriminate].
  - destruct P.
Qed.

Lemma dec_on_good {A} c (J : A -> Z) K (D : nat -> prog A) (R : A -> nat -> Prop) b :
  (forall F, spec F c J K (D F) R) -> wf_bytes b ->
  good_res (fst (dec_on D b)) /\ (forall a, fst (dec_on D b) = Ok a -> exists n, R a n).
Proof.
  intros Hs Hw. unfold dec_on.
  destruct (spec_exec (dec_fuel b) c J K (D (dec_fuel b)) R b 0 (Hs _) ltac:(unfold dec_fuel; lia) Hw)
    as (r & d & s' & m' & E & _ & Hg & HR).
  rewrite E. cbn [fst]. split; [exact Hg|]. intros a Ea. eauto.
Qed.

Section ReceiveTotal.
  Variable H : bytes -> bytes.
  Variable unz : bytes -> option bytes.
  Variable idx_sum : bytes -> list N -> bytes.
  Variable parse_int : bytes -> option Z.
  Variable parse_tz : bytes -> option Z.
  Variable cp : N.
  Variable fp : faults.
  Hypothesis unz_wf : forall b c, unz b = Some c -> wf_bytes c.
  Let pc := Capped cp.

  Lemma get_block_good st sum : good_res (fst (get_block unz pc fp st sum)).
  Proof.
    unfold get_block. destruct (get_ok fp st); [|split; discriminate].
    destruct (lookup (st_blk st) sum) as [comp|]; [|split; discriminate].
    destruct (unz comp) as [dst|] eqn:Eu; [|split; discriminate].
    pose proof (dec_on_good 16 _ _ (block_read pc) _ dst (fun F => spec_block_read F cp) (unz_wf _ _ Eu)) as [Hg _].
    destruct (dec_on (block_read pc) dst) as [r m]. exact Hg.
  Qed.

  Lemma pick_rows_ok ncols pk : pk_out_of_range ncols pk = false ->
    forall blk, widths_ok ncols blk = true -> pick_rows blk pk = Ok tt.
  Proof.
    intros Hpk. unfold pk_out_of_range in Hpk.
    assert (Hrow : forall row, length row = ncols -> pick_row row pk = Ok tt).
    { intros row Hl. induction pk as [|k pk IH]; cbn [pick_row]; [reflexivity|].
      cbn [existsb] in Hpk. apply orb_false_iff in Hpk. destruct Hpk as [Hk Hpk'].
      apply N.leb_gt in Hk. unfold pick. rewrite Hl.
      replace (N.of_nat ncols <=? k) with false by (symmetry; apply N.leb_gt; exact Hk).
      destruct (idx_ok row (N.to_nat k) ltac:(lia)) as (x & -> & _). now apply IH. }
    induction blk as [|row blk IH]; intros Hw; cbn [pick_rows]; [reflexivity|].
    cbn [widths_ok forallb] in Hw. apply andb_true_iff in Hw. destruct Hw as [Hl Hw].
    apply Nat.eqb_eq in Hl. rewrite (Hrow row Hl). now apply IH.
  Qed.

  Lemma index_blocks_good tbl : forall blocks st i m,
    pk_out_of_range (length (tb_columns tbl)) (tb_pk tbl) = false ->
    (i + length blocks <= length (tb_indices tbl))%nat ->
    good_res (fst (fst (index_blocks unz idx_sum pc fp st tbl blocks i m))).
  Proof.
    induction blocks as [|sum blocks IH]; intros st i m Hpk Hl; cbn [index_blocks length] in *.
    - split; discriminate.
    - pose proof (get_block_good st sum) as Hg.
      destruct (get_block unz pc fp st sum) as [rb mb]. cbn [fst] in Hg.
      destruct rb as [blk|e|]; [|split; discriminate|destruct Hg; congruence].
      destruct blk as [|row blk]; [split; discriminate|].
      destruct (widths_ok (length (tb_columns tbl)) (row :: blk)) eqn:Ew; [|split; discriminate].
      rewrite (pick_rows_ok _ _ Hpk _ Ew).
      destruct (set_ok fp 1 (bump_gets st)); [|split; discriminate].
      destruct (idx_ok (tb_indices tbl) i ltac:(lia)) as (x & -> & _).
      destruct (beqb (idx_sum sum (tb_pk tbl)) x); [|split; discriminate].
      apply IH; [exact Hpk|lia].
  Qed.

  Lemma profile_blocks_good : forall blocks st m,
    good_res (fst (fst (profile_blocks unz pc fp st blocks m))).
  Proof.
    induction blocks as [|sum blocks IH]; intros st m; cbn [profile_blocks].
    - split; discriminate.
    - pose proof (get_block_good st sum) as Hg.
      destruct (get_block unz pc fp st sum) as [rb mb]. cbn [fst] in Hg.
      destruct rb as [blk|e|]; [apply IH|split; discriminate|destruct Hg; congruence].
  Qed.

  Lemma save_table_good st b : wf_bytes b -> good_res (fst (fst (save_table H unz idx_sum pc fp st b))).
  Proof.
    intros Hw. unfold save_table.
    pose proof (dec_on_good 16 _ _ (table_read pc) _ b (fun F => spec_table_read F cp) Hw) as [Hg HR].
    destruct (dec_on (table_read pc) b) as [rt m0]. cbn [fst] in *.
    destruct rt as [tbl|e|]; [|cbn [fst]; exact (good_err_cast _ Hg)|exact (good_panic_absurd _ Hg)].
    destruct (HR tbl eq_refl) as (_ & Hlen).
    unfold index_table.
    destruct (pk_out_of_range (length (tb_columns tbl)) (tb_pk tbl)) eqn:Epk; [split; discriminate|].
    pose proof (index_blocks_good tbl (tb_blocks tbl) st 0 0 Epk ltac:(lia)) as Hi.
    destruct (index_blocks unz idx_sum pc fp st tbl (tb_blocks tbl) 0 0) as [[r0 st0] m1]. cbn [fst] in Hi.
    destruct r0 as [[]|e|]; [|cbn [fst]; exact (good_err_cast _ Hi)|exact (good_panic_absurd _ Hi)].
    destruct (set_ok fp 3 st0); [|split; discriminate].
    unfold profile_table.
    pose proof (profile_blocks_good (tb_blocks tbl) (add_tblidx st0 (H b)) 0) as Hp.
    destruct (profile_blocks unz pc fp (add_tblidx st0 (H b)) (tb_blocks tbl) 0) as [[r2 st2] m2]. cbn [fst] in Hp.
    destruct r2 as [[]|e|]; [|cbn [fst]; exact (good_err_cast _ Hp)|exact (good_panic_absurd _ Hp)].
    destruct (set_ok fp 4 st2); [|split; discriminate].
    destruct (set_ok fp 2 (add_tblprof st2 (H b))); split; discriminate.
  Qed.

  Lemma save_commit_good st b : wf_bytes b -> good_res (fst (fst (save_commit H parse_int parse_tz fp st b))).
  Proof.
    intros Hw. unfold save_commit.
    pose proof (dec_on_good 16 _ _ (commit_read parse_int parse_tz) _ b (spec_commit_read parse_int parse_tz) Hw) as [Hg _].
    destruct (dec_on (commit_read parse_int parse_tz) b) as [rc m0]. cbn [fst] in *.
    destruct rc as [c|e|]; [|cbn [fst]; exact (good_err_cast _ Hg)|exact (good_panic_absurd _ Hg)].
    destruct (forallb (has_key (st_com st)) (c_parents c)); [destruct (set_ok fp 5 st)|]; split; discriminate.
  Qed.

  Lemma save_block_good st b : good_res (fst (fst (save_block H unz fp st b))).
  Proof.
    unfold save_block. destruct (unz b) as [content|]; [|split; discriminate].
    pose proof (validate_block_total content) as [V1 V2].
    destruct (validate_block content) as [[]|e|]; cbn [fst].
    - destruct (set_ok fp 0 st); split; discriminate.
    - split; [discriminate|exact V2].
    - exfalso. now apply V1.
  Qed.

  Lemma receive_loop_good F : forall fuel st s m,
    (length s < fuel)%nat -> (length s < F)%nat -> wf_bytes s ->
    good_res (fst (fst (receive_loop H unz idx_sum parse_int parse_tz pc fp fuel F st s m))).
  Proof.
    induction fuel as [|fuel IH]; intros st s m Hf HF Hw; [lia|]. cbn [receive_loop].
    destruct (spec_exec F c_pack _ _ (object_read F) _ s m (spec_object_read F) HF Hw)
      as (ro & d & s1 & m1 & E & Es & Hg & HR).
    rewrite E. destruct ro as [[ot b]|e|]; [|destruct Hg as [_ G]; destruct e; split; try discriminate; congruence|destruct Hg; congruence].
    destruct (HR _ eq_refl) as [Hd Hwb]. cbn [snd] in Hwb.
    assert (Hw1 : wf_bytes s1) by (subst s; apply wf_app in Hw; tauto).
    assert (Hl1 : (length s1 + 2 <= length s)%nat) by (subst s; rewrite app_length; lia).
    match goal with |- context [if ot =? 3 then ?a else ?b] =>
      remember (if ot =? 3 then a else b) as X eqn:EX
    end.
    assert (G2 : good_res (fst (fst X))).
    { subst X. destruct (ot =? 3); [apply save_block_good|].
      destruct (ot =? 2); [now apply save_table_good|].
      destruct (ot =? 1); [now apply save_commit_good|].
      destruct ((ot =? 0) && match b with [] => true | _ :: _ => false end); split; discriminate. }
    clear EX. destruct X as [[r2 st2] m2]. cbn [fst] in G2.
    destruct r2 as [[]|e2|]; [|cbn [fst]; exact (good_err_cast _ G2)|exact (good_panic_absurd _ G2)].
    apply IH; auto; lia.
  Qed.

  Theorem receive_total st pack : wf_bytes pack ->
    good_res (fst (fst (receive H unz idx_sum parse_int parse_tz pc fp st pack))).
  Proof.
    intros Hw. unfold receive.
    destruct (spec_exec (dec_fuel pack) c_pack _ _ (packfile_version (dec_fuel pack)) _ pack 0
                (spec_packfile_version _ _) ltac:(unfold dec_fuel; lia) Hw)
      as (rv & d & s & m & E & Es & Hg & _).
    rewrite E. destruct rv as [v|e|]; [|cbn [fst]; exact (good_err_cast _ Hg)|exact (good_panic_absurd _ Hg)].
    assert (Hw1 : wf_bytes s) by (subst pack; apply wf_app in Hw; tauto).
    assert (Hl : (length s <= length pack)%nat) by (subst pack; rewrite app_length; lia).
    apply receive_loop_good; auto; unfold dec_fuel; lia.
  Qed.
End ReceiveTotal.

(** ** The persistence-layer readers (GetCommit, GetTable, GetBlock, GetBlockIndex,
    GetTableIndex, GetTableProfile) on hostile stored values *)
Lemma dec_on_robust {A} c (J K : Z) (k : N) (D : nat -> prog A) (R : A -> nat -> Prop) b :
  (forall F, spec F c (fun _ => J) K (D F) R) -> (J <= Z.of_N k)%Z -> (K <= Z.of_N k)%Z ->
  wf_bytes b ->
  good_res (fst (dec_on D b)) /\ snd (dec_on D b) <= c * N.of_nat (length b) + k.
Proof.
  intros Hs HJ HK Hw. unfold dec_on.
  destruct (Hs (dec_fuel b) b 0 ltac:(unfold dec_fuel; lia) Hw) as (r & d & s' & dm & E & Es & P).
  rewrite E. cbn [fst snd].
  assert (Hlen : (length d <= length b)%nat) by (subst b; rewrite app_length; lia).
  destruct r as [a|e|]; cbn in P.
  - destruct P as [P1 _]. split; [split; discriminate|nia].
  - destruct P as [P1 P2]. split; [split; [discriminate|congruence]|nia].
  - destruct P.
Qed.

Definition stored_wf (v : option bytes) : Prop := forall b, v = Some b -> wf_bytes b.

Section StoreReaders.
  Variable parse_int : bytes -> option Z.
  Variable parse_tz : bytes -> option Z.
  Let pc := precap_of_code.

  Lemma set_sum_good {A} (r : res A) : good_res r -> good_res (set_sum true r).
  Proof. destruct r; cbn; auto. Qed.

  Theorem get_commit_robust v : stored_wf v ->
    good_res (fst (get_commit parse_int parse_tz true v)) /\
    forall b, v = Some b -> snd (get_commit parse_int parse_tz true v) <= 16 * N.of_nat (length b) + 196817.
  Proof.
    intros Hw. unfold get_commit. destruct v as [b|]; [|split; [split; discriminate|discriminate]].
    destruct (dec_on_robust 16 100%Z (K_string + 200)%Z 196817 (commit_read parse_int parse_tz) _ b
                (spec_commit_read parse_int parse_tz) ltac:(lia) ltac:(unfold K_string; lia) (Hw b eq_refl)) as [Hg Ha].
    destruct (dec_on (commit_read parse_int parse_tz) b) as [r m]. cbn [fst snd] in *.
    split; [now apply set_sum_good|]. intros b' E; inversion E; subst; exact Ha.
  Qed.

  Theorem get_table_robust v : stored_wf v ->
    good_res (fst (get_table pc true v)) /\
    forall b, v = Some b -> snd (get_table pc true v) <= 16 * N.of_nat (length b) + 865536.
  Proof.
    intros Hw. unfold get_table. destruct v as [b|]; [|split; [split; discriminate|discriminate]].
    destruct (dec_on_robust 16 262100%Z (K_table max_prealloc) 865536 (table_read pc) _ b
                (fun F => spec_table_read F max_prealloc) ltac:(lia) ltac:(unfold K_table, max_prealloc; lia) (Hw b eq_refl)) as [Hg Ha].
    destruct (dec_on (table_read pc) b) as [r m]. cbn [fst snd] in *.
    split; [now apply set_sum_good|]. intros b' E; inversion E; subst; exact Ha.
  Qed.

  Theorem get_table_index_robust v : stored_wf v ->
    good_res (fst (get_table_index pc v)) /\
    forall b, v = Some b -> snd (get_table_index pc v) <= 16 * N.of_nat (length b) + 840960.
  Proof.
    intros Hw. unfold get_table_index, load_plain. destruct v as [b|]; [|split; [split; discriminate|discriminate]].
    destruct (dec_on_robust 16 262100%Z (K_block max_prealloc) 840960 (block_read pc) _ b
                (fun F => spec_block_read F max_prealloc) ltac:(lia) ltac:(unfold K_block, max_prealloc; lia) (Hw b eq_refl)) as [Hg Ha].
    split; [exact Hg|]. intros b' E; inversion E; subst; exact Ha.
  Qed.

  Theorem get_table_profile_robust v : stored_wf v ->
    good_res (fst (get_table_profile pc v)) /\
    forall b, v = Some b -> snd (get_table_profile pc v) <= 96 * N.of_nat (length b) + 849152.
  Proof.
    intros Hw. unfold get_table_profile, load_plain. destruct v as [b|]; [|split; [split; discriminate|discriminate]].
    destruct (dec_on_robust 96 262100%Z (K_profile max_prealloc) 849152 (profile_read pc) _ b
                (fun F => spec_profile_read F max_prealloc) ltac:(lia) ltac:(unfold K_profile, max_prealloc; lia) (Hw b eq_refl)) as [Hg Ha].
    split; [exact Hg|]. intros b' E; inversion E; subst; exact Ha.
  Qed.

End StoreReaders.

Section StoreReadersS2.
  Variable unz : bytes -> option bytes.
  Hypothesis unz_wf : forall b c, unz b = Some c -> wf_bytes c.
  Let pc := precap_of_code.

  Theorem load_block_good v : good_res (fst (load_block unz pc v)).
  Proof.
    unfold load_block, load_s2. destruct v as [comp|]; [|split; discriminate].
    destruct (unz comp) as [dst|] eqn:Eu; [|split; discriminate].
    destruct (dec_on_robust 16 262100%Z (K_block max_prealloc) 840960 (block_read pc) _ dst
                (fun F => spec_block_read F max_prealloc) ltac:(lia) ltac:(unfold K_block, max_prealloc; lia) (unz_wf _ _ Eu)) as [Hg _].
    destruct (dec_on (block_read pc) dst) as [r m]. exact Hg.
  Qed.

  Theorem load_block_index_good v : good_res (fst (load_block_index unz v)).
  Proof.
    unfold load_block_index, load_s2. destruct v as [comp|]; [|split; discriminate].
    destruct (unz comp) as [dst|] eqn:Eu; [|split; discriminate].
    destruct (dec_on_robust 16 6500%Z 6500%Z 6500 blockindex_read _ dst
                spec_blockindex_read ltac:(lia) ltac:(lia) (unz_wf _ _ Eu)) as [Hg _].
    destruct (dec_on blockindex_read dst) as [r m]. exact Hg.
  Qed.

End StoreReadersS2.

(** a reader that returns NO object together with its error: the .Sum assignment of
    GetCommit / GetTable dereferences nil *)
Theorem get_nil_object_panics (parse_int parse_tz : bytes -> option Z) :
  fst (get_commit parse_int parse_tz false (Some [])) = Panic /\
  fst (get_table precap_of_code false (Some [])) = Panic.
Proof. split; reflexivity. Qed.

(** GetBlock / GetBlockIndex: s2.Decode allocates the announced length first *)
Theorem load_block_s2_alloc (unz : bytes -> option bytes) :
  4294967295 <= snd (load_block unz precap_of_code (Some [255; 255; 255; 255; 15])) /\
  4294967295 <= snd (load_block_index unz (Some [255; 255; 255; 255; 15])).
Proof.
  unfold load_block, load_block_index, load_s2.
  change (s2_charge [255; 255; 255; 255; 15]) with 4294967295.
  destruct (unz [255; 255; 255; 255; 15]) as [dst|].
  - destruct (dec_on (block_read precap_of_code) dst), (dec_on blockindex_read dst). cbn [snd]. lia.
  - cbn [snd]. lia.
Qed.

(** the primary-key range guard of IndexTable is what keeps slice.IndicesToValues in range:
    the weaker "largest index <= column count" lets pk = [2] over 2 columns through, and the
    loop of IndexTable then panics on a perfectly well-formed one-row block *)
Definition pkw_block : bytes := [0; 0; 0; 1; 0; 0; 0; 2; 0; 1; 97; 0; 1; 98].
Definition pkw_store : store := add_blk empty_store [1] pkw_block.
Definition pkw_table : table := mk_table [[99]; [100]] [2] 1 [[1]] [[9]].

Theorem pk_weak_guard_panics :
  pk_out_of_range (length (tb_columns pkw_table)) (tb_pk pkw_table) = true /\
  pk_out_of_range_weak (length (tb_columns pkw_table)) (tb_pk pkw_table) = false /\
  fst (fst (index_blocks (fun b => Some b) (fun _ _ => []) precap_of_code no_faults
                         pkw_store pkw_table (tb_blocks pkw_table) 0 0)) = Panic.
Proof. repeat split; vm_compute; reflexivity. Qed.
