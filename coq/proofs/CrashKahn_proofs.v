(** C13 - prune.childrenFirst (Kahn's algorithm among the commits to remove) emits every
    commit exactly once and every commit after all of its to-remove children. *)
From Coq Require Import List NArith Bool Lia Permutation Arith.
From W.model Require Import CrashRepo Crash.
From W.proofs Require Import CrashRepo_proofs.
Import ListNotations.

(* ------------------------------------------------------------------ counting *)

Lemma countb_cons x y l : countb x (y :: l) = ((if cid_eqb x y then 1 else 0) + countb x l)%nat.
Proof. unfold countb. cbn. destruct (cid_eqb x y); reflexivity. Qed.

Lemma countb_app x l1 l2 : countb x (l1 ++ l2) = (countb x l1 + countb x l2)%nat.
Proof. unfold countb. rewrite filter_app, app_length. reflexivity. Qed.

Lemma countb_pos x l : In x l <-> (0 < countb x l)%nat.
Proof.
  induction l as [|y l IH]; [cbn; split; [intros [] | lia]|].
  rewrite countb_cons. cbn [In]. destruct (cid_eqb x y) eqn:E.
  - apply cid_eqb_eq in E. subst. split; [lia | auto].
  - apply cid_eqb_neq in E. rewrite IH. split; [intros [H | H]; [congruence | lia] | intros H; right; lia].
Qed.

Lemma countb_zero x l : ~ In x l <-> countb x l = 0%nat.
Proof. rewrite countb_pos. lia. Qed.

Lemma countb_flat_map_in (f : cid -> list cid) c L x : In c L -> (countb x (f c) <= countb x (flat_map f L))%nat.
Proof.
  induction L as [|y L IH]; [intros []|]. cbn [flat_map]. rewrite countb_app.
  intros [-> | H]; [lia | specialize (IH H); lia].
Qed.

Lemma filter_all_true {A} (f : A -> bool) l : (forall x, In x l -> f x = true) -> filter f l = l.
Proof.
  induction l as [|y l IH]; cbn; intros H; auto. rewrite (H y (or_introl eq_refl)). f_equal. auto.
Qed.

Lemma countb_flat_map_remove (f : cid -> list cid) c L x : NoDup L -> In c L ->
  countb x (flat_map f L) =
  (countb x (f c) + countb x (flat_map f (filter (fun y => negb (cid_eqb y c)) L)))%nat.
Proof.
  induction L as [|y L IH]; [intros _ []|]. intros Hnd Hin. inversion Hnd as [|? ? Hny HndL]; subst.
  cbn [flat_map filter]. rewrite countb_app. destruct (cid_eqb y c) eqn:E; cbn [negb].
  - apply cid_eqb_eq in E. subst y. rewrite filter_all_true; auto.
    intros z Hz. destruct (cid_eqb z c) eqn:E'; auto. apply cid_eqb_eq in E'. subst. contradiction.
  - apply cid_eqb_neq in E. destruct Hin as [-> | Hin]; [congruence|].
    cbn [flat_map]. rewrite countb_app. rewrite (IH HndL Hin). lia.
Qed.

Lemma filter_filter_and {A} (f g : A -> bool) l : filter f (filter g l) = filter (fun x => g x && f x) l.
Proof.
  induction l as [|y l IH]; cbn; auto. destruct (g y); cbn; [destruct (f y)|]; rewrite IH; reflexivity.
Qed.

Lemma NoDup_app_intro {A} (l1 l2 : list A) :
  NoDup l1 -> NoDup l2 -> (forall x, In x l1 -> ~ In x l2) -> NoDup (l1 ++ l2).
Proof.
  induction l1 as [|x l1 IH]; cbn; intros H1 H2 Hd; auto.
  inversion H1; subst. constructor.
  - rewrite in_app_iff. intros [H | H]; [contradiction | eapply Hd; eauto].
  - apply IH; auto.
Qed.

Lemma NoDup_app_r {A} (l1 l2 : list A) : NoDup (l1 ++ l2) -> NoDup l2.
Proof. induction l1 as [|x l1 IH]; cbn; auto. intros H. inversion H; auto. Qed.

(* ------------------------------------------------------------------ the inner loop *)

Lemma upd_pend_eq f p n : upd_pend f p n p = n.
Proof. unfold upd_pend. rewrite cid_eqb_refl. reflexivity. Qed.

Lemma upd_pend_neq f p n x : x <> p -> upd_pend f p n x = f x.
Proof. intros H. unfold upd_pend. apply cid_eqb_neq in H. rewrite H. reflexivity. Qed.

Lemma dec_parents_spec ps : forall pend q,
  (forall x, (countb x ps <= pend x)%nat) ->
  (forall x, fst (dec_parents ps pend q) x = (pend x - countb x ps)%nat) /\
  exists added, snd (dec_parents ps pend q) = q ++ added /\ NoDup added /\
    forall x, In x added <-> (In x ps /\ pend x = countb x ps).
Proof.
  induction ps as [|p ps IH]; intros pend q Hpre.
  - cbn. split; [intros; lia|]. exists []. rewrite app_nil_r. split; auto. split; [constructor|].
    intros x; split; [intros [] | intros [[] _]].
  - cbn [dec_parents].
    set (n := pred (pend p)). set (pend1 := upd_pend pend p n).
    set (q1 := if Nat.eqb n 0 then q ++ [p] else q).
    assert (Hp : (1 + countb p ps <= pend p)%nat).
    { specialize (Hpre p). rewrite countb_cons, cid_eqb_refl in Hpre. lia. }
    assert (Hpre1 : forall x, (countb x ps <= pend1 x)%nat).
    { intros x. destruct (cid_eqb x p) eqn:E.
      - apply cid_eqb_eq in E. subst x. unfold pend1. rewrite upd_pend_eq. unfold n. lia.
      - pose proof E as E'. apply cid_eqb_neq in E'. unfold pend1. rewrite upd_pend_neq; auto.
        specialize (Hpre x). rewrite countb_cons, E in Hpre. lia. }
    destruct (IH pend1 q1 Hpre1) as [D1 [added1 (Eq & Hnd & Hin)]].
    split.
    + intros x. rewrite D1, countb_cons. destruct (cid_eqb x p) eqn:E.
      * apply cid_eqb_eq in E. subst x. unfold pend1. rewrite upd_pend_eq. unfold n. lia.
      * apply cid_eqb_neq in E. unfold pend1. rewrite upd_pend_neq; auto.
    + assert (Hother : forall x, x <> p ->
                (In x added1 <-> In x (p :: ps) /\ pend x = countb x (p :: ps))).
      { intros x Hx. rewrite Hin, countb_cons. pose proof Hx as Hx'. apply cid_eqb_neq in Hx'.
        rewrite Hx'. unfold pend1. rewrite upd_pend_neq; auto. cbn [In]. split.
        - intros [H1 H2]. split; auto.
        - intros [[H1 | H1] H2]; [congruence | auto]. }
      unfold q1 in *. clear q1. destruct (Nat.eqb n 0) eqn:En.
      * apply Nat.eqb_eq in En. exists (p :: added1). rewrite Eq, <- app_assoc. split; [reflexivity|].
        assert (Hpn : ~ In p added1).
        { rewrite Hin. intros [H1 H2]. unfold pend1 in H2. rewrite upd_pend_eq in H2.
          apply countb_pos in H1. lia. }
        split; [constructor; auto|].
        intros x. destruct (cid_eqb x p) eqn:E.
        -- apply cid_eqb_eq in E. subst x. rewrite countb_cons, cid_eqb_refl. cbn [In].
           split; [intros _; split; auto; unfold n in En; lia | auto].
        -- apply cid_eqb_neq in E. cbn [In]. rewrite <- (Hother x E). split; [intros [H | H]; [congruence | auto] | auto].
      * apply Nat.eqb_neq in En. exists added1. split; [exact Eq|]. split; auto.
        intros x. destruct (cid_eqb x p) eqn:E.
        -- apply cid_eqb_eq in E. subst x. rewrite Hin, countb_cons, cid_eqb_refl. cbn [In].
           unfold pend1. rewrite upd_pend_eq. unfold n in *. split.
           ++ intros [H1 H2]. split; auto. lia.
           ++ intros [_ H2]. split; [apply countb_pos; lia | lia].
        -- apply cid_eqb_neq in E. apply Hother; auto.
Qed.

(* ------------------------------------------------------------------ the outer loop *)

Section Kahn.
  Variable l : list cid.
  Hypothesis Hnd : NoDup l.

  Definition remk (res : list cid) : list cid := filter (fun c => negb (memb cid_eqb c res)) l.
  Definition edges (res : list cid) (p : cid) : nat := countb p (flat_map (kparents l) (remk res)).

  Lemma In_remk x res : In x (remk res) <-> In x l /\ ~ In x res.
  Proof.
    unfold remk. rewrite filter_In, negb_true_iff, (memb_false cid_eqb cid_eqb_eq). tauto.
  Qed.

  Lemma remk_snoc res c : remk (res ++ [c]) = filter (fun y => negb (cid_eqb y c)) (remk res).
  Proof.
    unfold remk. rewrite filter_filter_and. apply filter_ext. intros y.
    unfold memb. rewrite existsb_app. cbn. rewrite orb_false_r, negb_orb. reflexivity.
  Qed.

  Lemma In_kparents c p : In p (kparents l c) <-> In p (c_parents c) /\ In p l.
  Proof. unfold kparents. rewrite filter_In, (memb_In cid_eqb cid_eqb_eq). tauto. Qed.

  Lemma edges_snoc res c x : In c l -> ~ In c res ->
    edges res x = (countb x (kparents l c) + edges (res ++ [c]) x)%nat.
  Proof.
    intros Hl Hr. unfold edges. rewrite remk_snoc.
    apply countb_flat_map_remove; [apply NoDup_filter; auto | apply In_remk; auto].
  Qed.

  (** the loop invariant *)
  Record KI (queue : list cid) (pend : cid -> nat) (res : list cid) : Prop := {
    k_edges : forall p, pend p = edges res p;
    k_zero : forall x, In x (queue ++ res) -> pend x = 0%nat /\ In x l;
    k_nodup : NoDup (queue ++ res);
    k_ready : forall x, In x l -> pend x = 0%nat -> In x (queue ++ res);
    k_order : forall pre p post, res = pre ++ p :: post ->
                forall c, In c l -> In p (c_parents c) -> In c pre
  }.

  Lemma KI_init : KI (filter (fun c => Nat.eqb (pending0 l c) 0) l) (pending0 l) [].
  Proof.
    assert (Hrem : remk [] = l).
    { unfold remk. apply filter_all_true. intros; reflexivity. }
    constructor.
    - intros p. unfold edges, pending0. rewrite Hrem. reflexivity.
    - intros x. rewrite app_nil_r, filter_In, Nat.eqb_eq. tauto.
    - rewrite app_nil_r. apply NoDup_filter; auto.
    - intros x Hx Hz. rewrite app_nil_r, filter_In, Nat.eqb_eq. auto.
    - intros pre p post E. destruct pre; discriminate.
  Qed.

  Lemma KI_step c q pend res : KI (c :: q) pend res ->
    KI (snd (dec_parents (kparents l c) pend q)) (fst (dec_parents (kparents l c) pend q)) (res ++ [c]).
  Proof.
    intros [K1 K2 K4 K6 K3].
    assert (Hc : pend c = 0%nat /\ In c l) by (apply K2; left; reflexivity).
    destruct Hc as [Hc0 Hcl].
    assert (Hcres : ~ In c res).
    { cbn in K4. inversion K4 as [|? ? Hn _]; subst. intros H; apply Hn. apply in_or_app; auto. }
    assert (Hcq : ~ In c q).
    { cbn in K4. inversion K4 as [|? ? Hn _]; subst. intros H; apply Hn. apply in_or_app; auto. }
    assert (Hpre : forall x, (countb x (kparents l c) <= pend x)%nat).
    { intros x. rewrite K1, (edges_snoc res c x Hcl Hcres). lia. }
    destruct (dec_parents_spec (kparents l c) pend q Hpre) as [D1 [added (Eq & Hnda & Hadd)]].
    rewrite Eq.
    assert (Hadd_fresh : forall x, In x added -> ~ In x ((c :: q) ++ res)).
    { intros x Hx Hin. apply Hadd in Hx. destruct Hx as [Hx1 Hx2].
      apply countb_pos in Hx1. destruct (K2 x Hin) as [Hz _]. lia. }
    constructor.
    - intros p. rewrite D1, K1, (edges_snoc res c p Hcl Hcres). lia.
    - intros x Hx. rewrite D1.
      assert (Hcases : In x ((c :: q) ++ res) \/ In x added).
      { rewrite !in_app_iff in Hx. cbn in Hx. cbn. rewrite in_app_iff. tauto. }
      destruct Hcases as [H | H].
      + destruct (K2 x H) as [Hz Hl]. split; [lia | auto].
      + apply Hadd in H. destruct H as [H1 H2]. split; [lia|]. apply In_kparents in H1. tauto.
    - apply (Permutation_NoDup (l := added ++ ((c :: q) ++ res))).
      + cbn. rewrite <- !app_assoc.
        (* added ++ c :: q ++ res  ~  q ++ added ++ res ++ [c] *)
        apply Permutation_trans with (l' := (c :: q ++ res) ++ added); [apply Permutation_app_comm|].
        cbn. apply Permutation_trans with (l' := (q ++ res ++ added) ++ [c]).
        * rewrite <- app_assoc. apply (Permutation_cons_append (q ++ res ++ added) c).
        * rewrite <- !app_assoc. apply Permutation_app_head.
          rewrite !app_assoc. apply Permutation_app_tail. apply Permutation_app_comm.
      + apply NoDup_app_intro; auto.
    - intros x Hl Hz. rewrite D1 in Hz.
      destruct (Nat.eq_dec (pend x) 0) as [Hp0 | Hp0].
      + specialize (K6 x Hl Hp0). rewrite !in_app_iff in *. cbn in K6. cbn. tauto.
      + assert (Hx : In x added).
        { apply Hadd. specialize (Hpre x). split; [apply countb_pos; lia | lia]. }
        rewrite !in_app_iff. auto.
    - intros pre p post E c' Hc'l Hpar.
      destruct post as [|y post'] using rev_ind.
      + apply app_inj_tail in E. destruct E as [<- <-].
        (* p = c : all its children in l have been emitted *)
        destruct (memb cid_eqb c' res) eqn:M;
          [apply (memb_In cid_eqb cid_eqb_eq) in M; exact M | apply (memb_false cid_eqb cid_eqb_eq) in M].
        exfalso.
        assert (Hrem : In c' (remk res)) by (apply In_remk; auto).
        assert (Hk : In c (kparents l c')) by (apply In_kparents; auto).
        pose proof (countb_flat_map_in (kparents l) c' (remk res) c Hrem) as Hle.
        apply countb_pos in Hk.
        specialize (K1 c); unfold edges in K1; lia.
      + clear IHpost'. rewrite app_comm_cons, app_assoc in E. apply app_inj_tail in E.
        destruct E as [E _]. eapply K3; eauto.
  Qed.

  Lemma KI_res_bound queue pend res : KI queue pend res -> (length res <= length l)%nat.
  Proof.
    intros [K1 K2 K4 K6 K3]. apply NoDup_incl_length.
    - apply NoDup_app_r in K4. exact K4.
    - intros x Hx. apply K2. apply in_or_app; auto.
  Qed.

  Lemma kahn_loop_final fuel : forall queue pend res,
    KI queue pend res -> (fuel + length res = S (length l))%nat ->
    exists pend', KI [] pend' (kahn_loop l fuel queue pend res).
  Proof.
    induction fuel as [|f IH]; intros queue pend res HK Hf.
    - pose proof (KI_res_bound _ _ _ HK). lia.
    - cbn [kahn_loop]. destruct queue as [|c q]; [exists pend; exact HK|].
      pose proof (KI_step c q pend res HK) as HK'.
      destruct (dec_parents (kparents l c) pend q) as [pend' q']. cbn [fst snd] in HK'.
      apply (IH q' pend' (res ++ [c]) HK'). rewrite app_length. cbn. lia.
  Qed.

  Lemma max_csize (L : list cid) : L <> [] -> exists m, In m L /\ forall y, In y L -> (csize y <= csize m)%nat.
  Proof.
    induction L as [|x L IH]; [congruence|]. intros _. destruct L as [|x' L'].
    - exists x. split; [left; auto|]. intros y [<- | []]. lia.
    - destruct IH as [m [Hm Hmax]]; [discriminate|].
      destruct (le_lt_dec (csize x) (csize m)).
      + exists m. split; [right; auto|]. intros y [<- | Hy]; auto.
      + exists x. split; [left; auto|]. intros y [<- | Hy]; [lia|]. specialize (Hmax y Hy). lia.
  Qed.

  Lemma KI_complete pend out : KI [] pend out -> forall x, In x l -> In x out.
  Proof.
    intros [K1 K2 K4 K6 K3].
    assert (Hrem : remk out = []).
    { destruct (remk out) as [|z L] eqn:E; auto. exfalso.
      destruct (max_csize (remk out)) as [m [Hm Hmax]]; [rewrite E; discriminate|].
      pose proof Hm as Hm'. apply In_remk in Hm'. destruct Hm' as [Hml Hmo].
      assert (Hz : pend m = 0%nat).
      { rewrite K1. unfold edges. apply countb_zero. intros Hin. apply in_flat_map in Hin.
        destruct Hin as [c' [Hc' Hk]]. apply In_kparents in Hk. destruct Hk as [Hk _].
        apply csize_parent in Hk. specialize (Hmax c' Hc'). lia. }
      specialize (K6 m Hml Hz). cbn in K6. contradiction. }
    intros x Hx. destruct (memb cid_eqb x out) eqn:M;
      [apply (memb_In cid_eqb cid_eqb_eq) in M; exact M | apply (memb_false cid_eqb cid_eqb_eq) in M].
    exfalso. assert (H : In x (remk out)) by (apply In_remk; auto). rewrite Hrem in H. exact H.
  Qed.

  (** childrenFirst returns a duplicate-free enumeration of its input in which every commit
      comes after all of its children that are in the input *)
  Theorem children_first_spec :
    (forall x, In x (children_first l) <-> In x l) /\
    NoDup (children_first l) /\
    (forall pre p post, children_first l = pre ++ p :: post ->
       forall c, In c l -> In p (c_parents c) -> In c pre).
  Proof.
    unfold children_first.
    destruct (kahn_loop_final (S (length l)) _ _ [] KI_init) as [pend' HK]; [cbn; lia|].
    pose proof (KI_complete _ _ HK) as Hcomp.
    destruct HK as [K1 K2 K4 K6 K3]. cbn [app] in *. split; [|split]; auto.
    intros x. split; [apply K2 | apply Hcomp].
  Qed.

End Kahn.
