(** Proofs about model/DecLists.v: validators, Decode, and the reader-based list decoders. *)
From Coq Require Import String.
From Coq Require Import List Lia Arith ZArith ZifyNat ZifyN ZifyBool.
From W.lib Require Import Tree Bytes GoSlice Reader.
From W.model Require Import DecPrim DecLists.
From W.proofs Require Import DecSpec_proofs DecPrim_proofs.
Local Open Scope N_scope.

(** ** ensureBufSize *)
Lemma ensure_buf_loop_spec n : forall fuel cap cost0 cap' cost',
  0 < cap -> n < cap * 2 ^ N.of_nat fuel ->
  ensure_buf_loop fuel cap n cost0 = (cap', cost') ->
  cost' + 2 * cap = cost0 + 2 * cap' /\ n <= cap' /\ cap <= cap' /\ (cap' = cap \/ cap' < 2 * n).
Proof.
  induction fuel as [|fuel IH]; intros cap cost0 cap' cost' Hc Hn H; cbn [ensure_buf_loop] in H.
  - inversion H; subst. cbn in Hn. lia.
  - destruct (n <=? cap) eqn:E.
    + inversion H; subst. lia.
    + apply N.leb_gt in E. apply IH in H; [|lia|].
      * lia.
      * rewrite Nat2N.inj_succ, N.pow_succ_r' in Hn. lia.
Qed.

Lemma ensure_buf_spec cap n cap' cost : 0 < cap -> ensure_buf cap n = (cap', cost) ->
  cost + 2 * cap = 2 * cap' /\ n <= cap' /\ cap <= cap' /\ (cap' = cap \/ cap' < 2 * n).
Proof.
  intros Hc H. unfold ensure_buf in H.
  assert (Hn : n < cap * 2 ^ N.of_nat (S (N.to_nat (N.size n)))).
  { rewrite Nat2N.inj_succ, N2Nat.id, N.pow_succ_r'. pose proof (N.size_gt n). nia. }
  pose proof (ensure_buf_loop_spec n _ _ _ _ _ Hc Hn H). lia.
Qed.

(** ** ValidateStrListBytes *)
Lemma slice_from_ok {A} (l : list A) i : (i <= length l)%nat -> slice_from l i = Ok (skipn i l).
Proof. intros H. unfold slice_from. now replace (i <=? length l)%nat with true by (symmetry; apply Nat.leb_le; lia). Qed.

Lemma be_uint_len_ok w b : (w <= length b)%nat -> be_uint w b = Ok (unbe (firstn w b)).
Proof. intros H. unfold be_uint. now replace (w <=? length b)%nat with true by (symmetry; apply Nat.leb_le; lia). Qed.

Definition vres_ok (b : bytes) (off : nat) (r : res nat) : Prop :=
  match r with
  | Ok m => (off <= m <= length b)%nat
  | Err e => e <> CFuel
  | Panic => False
  end.

Lemma validate_strlist_loop_ok b count : forall fuel i off,
  (off <= length b)%nat -> (length b - off < fuel)%nat ->
  vres_ok b off (validate_strlist_loop true fuel b count i off).
Proof.
  induction fuel as [|fuel IH]; intros i off Ho Hf; [lia|].
  cbn [validate_strlist_loop]. destruct (i <? count); [|cbn; lia].
  cbn [andb]. destruct (length b <? off + 2)%nat eqn:E; [cbn; discriminate|].
  apply Nat.ltb_ge in E.
  rewrite slice_from_ok by lia. cbn [rbind]. unfold be_u16.
  rewrite be_uint_len_ok by (rewrite skipn_length; lia).
  set (l := unbe (firstn 2 (skipn off b))).
  destruct (length b <? off + 2 + N.to_nat l)%nat eqn:E2; [cbn; discriminate|].
  apply Nat.ltb_ge in E2.
  specialize (IH (i + 1) (off + 2 + N.to_nat l)%nat E2 ltac:(lia)).
  destruct (validate_strlist_loop true fuel b count (i + 1) (off + 2 + N.to_nat l)); cbn in *; auto. lia.
Qed.

Lemma validate_strlist_ok b : vres_ok b 4 (validate_strlist b).
Proof.
  unfold validate_strlist, validate_strlist_gen. cbn [andb].
  destruct (length b <? 4)%nat eqn:E; [cbn; discriminate|]. apply Nat.ltb_ge in E.
  unfold be_u32. rewrite be_uint_len_ok by lia.
  apply validate_strlist_loop_ok; lia.
Qed.

Theorem validate_strlist_total b :
  validate_strlist b <> Panic /\ validate_strlist b <> Err CFuel.
Proof.
  pose proof (validate_strlist_ok b) as H. destruct (validate_strlist b); cbn in H; split; congruence.
Qed.

(** the code before fix 8ed4fbc *)
Theorem validate_strlist_unchecked_panics : validate_strlist_unchecked [0; 0] = Panic.
Proof. reflexivity. Qed.
Theorem validate_block_unchecked_panics : validate_block_unchecked [0; 0] = Panic.
Proof. reflexivity. Qed.
(* a row header cut after one byte *)
Theorem validate_block_unchecked_panics2 :
  validate_block_unchecked [0; 0; 0; 1; 0; 0; 0; 1; 0] = Panic.
Proof. reflexivity. Qed.

(** ** ValidateBlockBytes *)
Lemma validate_block_loop_ok b n : forall fuel i off,
  (off <= length b)%nat -> (length b - off < fuel)%nat ->
  match validate_block_loop true fuel b n i off with
  | Ok _ => True | Err e => e <> CFuel | Panic => False end.
Proof.
  induction fuel as [|fuel IH]; intros i off Ho Hf; [lia|].
  cbn [validate_block_loop]. destruct (i <? n); [|exact I].
  rewrite slice_from_ok by lia. cbn [rbind].
  pose proof (validate_strlist_ok (skipn off b)) as H. unfold validate_strlist in H.
  destruct (validate_strlist_gen true (skipn off b)) as [m|e|]; cbn in H; auto.
  rewrite skipn_length in H. apply IH; lia.
Qed.

Theorem validate_block_total b : validate_block b <> Panic /\ validate_block b <> Err CFuel.
Proof.
  unfold validate_block, validate_block_gen. cbn [andb].
  destruct (length b <? 4)%nat eqn:E; [split; discriminate|]. apply Nat.ltb_ge in E.
  unfold be_u32. rewrite be_uint_len_ok by lia.
  pose proof (validate_block_loop_ok b (unbe (firstn 4 b)) (S (length b)) 0 4 ltac:(lia) ltac:(lia)) as H.
  destruct (validate_block_loop true (S (length b)) b (unbe (firstn 4 b)) 0 4);
    split; try discriminate; try tauto. congruence.
Qed.

(** ** Decode on validated bytes: same walk as the validator; 16 bytes of budget are
    banked per cell to pay for strSlice, the scratch buffer is paid by its potential *)
Lemma validate_loop_range b count : forall fuel i off m,
  (off <= length b)%nat -> validate_strlist_loop true fuel b count i off = Ok m ->
  (off <= m <= length b)%nat.
Proof.
  induction fuel as [|fuel IH]; intros i off m Ho H; cbn [validate_strlist_loop] in H.
  - destruct (i <? count); [discriminate|]. inversion H; subst; lia.
  - destruct (i <? count); [|inversion H; subst; lia].
    cbn [andb] in H. destruct (length b <? off + 2)%nat eqn:E1; [discriminate|]. apply Nat.ltb_ge in E1.
    rewrite slice_from_ok in H by lia. cbn [rbind] in H. unfold be_u16 in H.
    rewrite be_uint_len_ok in H by (rewrite skipn_length; lia).
    destruct (length b <? off + 2 + N.to_nat (unbe (firstn 2 (skipn off b))))%nat eqn:E2; [discriminate|].
    apply Nat.ltb_ge in E2. apply IH in H; lia.
Qed.

Lemma decode_follows_validate b count : forall fuel i off sl cap mm m,
  0 < cap -> i <= count -> (off <= length b)%nat ->
  validate_strlist_loop true fuel b count i off = Ok m ->
  exists sl' mm' cap',
    strlist_decode_loop fuel b count i off sl cap mm = (Ok sl', mm') /\ cap <= cap' /\
    (cap' = cap \/ cap' < 2 * N.of_nat (m - off)) /\
    mm' + 16 * (count - i) + 2 * cap <= mm + 16 * N.of_nat (m - off) + 2 * cap'.
Proof.
  induction fuel as [|fuel IH]; intros i off sl cap mm m Hc Hi Ho H;
    cbn [validate_strlist_loop strlist_decode_loop] in *.
  - destruct (i <? count) eqn:E; [discriminate|]. apply N.ltb_ge in E. inversion H; subst.
    exists sl, mm, cap. repeat split; auto; lia.
  - destruct (i <? count) eqn:E.
    2:{ apply N.ltb_ge in E. inversion H; subst. exists sl, mm, cap. repeat split; auto; lia. }
    apply N.ltb_lt in E. cbn [andb] in H.
    destruct (length b <? off + 2)%nat eqn:E1; [discriminate|]. apply Nat.ltb_ge in E1.
    rewrite slice_from_ok in * by lia. cbn [rbind] in *. unfold be_u16 in *.
    rewrite be_uint_len_ok in * by (rewrite skipn_length; lia).
    set (l := unbe (firstn 2 (skipn off b))) in *.
    destruct (length b <? off + 2 + N.to_nat l)%nat eqn:E2; [discriminate|]. apply Nat.ltb_ge in E2.
    pose proof (validate_loop_range b count fuel (i + 1) _ m E2 H) as Hm.
    destruct (l =? 0) eqn:El.
    + apply N.eqb_eq in El. rewrite El in *.
      replace (off + 2 + N.to_nat 0)%nat with (off + 2)%nat in * by lia.
      destruct (IH (i + 1) (off + 2)%nat (sl ++ [[]]) cap (mm + sz_string) m Hc ltac:(lia) ltac:(lia) H)
        as (sl' & mm' & cap' & Hd & Hcap & Hcap2 & Hb).
      exists sl', mm', cap'. rewrite Hd. unfold sz_string in *. repeat split; auto; lia.
    + apply N.eqb_neq in El.
      destruct (ensure_buf cap l) as [cap1 cost] eqn:Ee.
      destruct (ensure_buf_spec _ _ _ _ Hc Ee) as (He1 & He2 & He3 & He4).
      replace (l <=? cap1) with true by (symmetry; apply N.leb_le; lia).
      rewrite slice_from_ok by lia.
      destruct (IH (i + 1) (off + 2 + N.to_nat l)%nat (sl ++ [pad (N.to_nat l) (skipn (off + 2) b)])
                   cap1 (mm + cost + sz_string + l) m ltac:(lia) ltac:(lia) ltac:(lia) H)
        as (sl' & mm' & cap' & Hd & Hcap & Hcap2 & Hb).
      exists sl', mm', cap'. rewrite Hd. unfold sz_string in *. repeat split; auto; lia.
Qed.

Lemma prealloc_le pc n : prealloc pc n <= n.
Proof. destruct pc; cbn; lia. Qed.

Lemma prealloc_cost_le ru esz n : prealloc_cost ru esz n <= esz * n.
Proof. unfold prealloc_cost. destruct ru; [destruct (reuse_cap0 <? n)|]; lia. Qed.

Theorem decode_validated_g ru pc b m : validate_strlist b = Ok m ->
  exists sl mm, strlist_decode_g ru pc b = (Ok sl, mm) /\ mm <= 20 * N.of_nat (length b) + 4108.
Proof.
  unfold validate_strlist, validate_strlist_gen, strlist_decode_g. cbn [andb]. cbv zeta.
  destruct (length b <? 4)%nat eqn:E; [discriminate|]. apply Nat.ltb_ge in E.
  unfold be_u32. rewrite be_uint_len_ok by lia. intros H.
  pose proof (validate_loop_range _ _ _ _ _ _ E H) as Hm.
  destruct (decode_follows_validate b (unbe (firstn 4 b)) (S (length b)) 0 4 [] strlist_cap0
              (4 + ctor_cost ru sz_string + prealloc_cost ru sz_string (prealloc pc (unbe (firstn 4 b))))
              m ltac:(cbv; reflexivity) ltac:(lia) E H)
    as (sl' & mm' & cap' & Hd & Hcap & Hcap2 & Hb).
  exists sl', mm'. split; [exact Hd|].
  pose proof (prealloc_le pc (unbe (firstn 4 b))).
  pose proof (prealloc_cost_le ru sz_string (prealloc pc (unbe (firstn 4 b)))).
  assert (ctor_cost ru sz_string <= 4096) by (unfold ctor_cost, sz_string, reuse_cap0; destruct ru; lia).
  unfold sz_string, strlist_cap0 in *. lia.
Qed.

Theorem decode_validated pc b m : validate_strlist b = Ok m ->
  exists sl mm, strlist_decode pc b = (Ok sl, mm) /\ mm <= 20 * N.of_nat (length b) + 12.
Proof.
  intros H. destruct (decode_validated_g false pc b m H) as (sl & mm & Hd & _).
  exists sl, mm. split; [exact Hd|].
  revert Hd. unfold strlist_decode_g, validate_strlist, validate_strlist_gen in *. cbn [andb] in H. cbv zeta.
  destruct (length b <? 4)%nat eqn:E; [discriminate|]. apply Nat.ltb_ge in E.
  unfold be_u32 in *. rewrite be_uint_len_ok in * by lia. intros Hd.
  pose proof (validate_loop_range _ _ _ _ _ _ E H) as Hm.
  destruct (decode_follows_validate b (unbe (firstn 4 b)) (S (length b)) 0 4 [] strlist_cap0
              (4 + ctor_cost false sz_string + prealloc_cost false sz_string (prealloc pc (unbe (firstn 4 b))))
              m ltac:(cbv; reflexivity) ltac:(lia) E H)
    as (sl' & mm' & cap' & Hd' & Hcap & Hcap2 & Hb).
  rewrite Hd' in Hd. inversion Hd; subst.
  pose proof (prealloc_le pc (unbe (firstn 4 b))).
  unfold prealloc_cost, ctor_cost, sz_string, strlist_cap0 in *. lia.
Qed.

(** ** StrListDecoder.Read *)
Definition cap_ok (cap : N) : Prop := 4 <= cap <= 131072.
Definition K_cell : Z := 262160.       (* 2*131072 + 16 *)

Lemma be_u16_pad_ok lb : length lb = 2%nat -> wf_bytes lb ->
  exists l, be_u16 (pad 2 lb) = Ok l /\ l < 65536.
Proof. intros Hl Hw. rewrite pad_exact by auto. now apply be_u16_ok. Qed.

Lemma spec_strlist_cell F count i sl cap : cap_ok cap ->
  spec F 16 (fun st' => - 16 + 2 * Z.of_N (snd st') - 2 * Z.of_N cap)%Z K_cell
       (strlist_cell count i (sl, cap))
       (fun st' n1 => (1 <= n1)%nat /\ cap_ok (snd st')).
Proof.
  intros Hcap. unfold strlist_cell, K_cell, cap_ok in *.
  eapply (spec_bind _ _ _ 262160%Z); [apply spec_rdf|lia|].
  intros [lb e] n1 (Hn & Hw & Hc). cbn [fst snd] in *.
  destruct Hc as [[-> Hl]|[[-> [-> Hn0]]|[-> Hl]]]; [|sfail|sfail].
  destruct (be_u16_pad_ok lb Hl Hw) as (l & -> & Hlb). cbn [lift bind].
  destruct (l =? 0) eqn:El.
  - eapply (spec_bind _ _ _ 0%Z); [apply spec_alloc|lia|]. intros _ n0 ->.
    apply spec_ret; cbn [fst snd]; unfold sz_string; [lia|]. split; lia.
  - apply N.eqb_neq in El.
    destruct (ensure_buf cap l) as [cap' cost] eqn:Ee.
    assert (Hc0 : 0 < cap) by lia. destruct (ensure_buf_spec _ _ _ _ Hc0 Ee) as (He1 & He2 & He3 & He4).
    eapply (spec_bind _ _ _ 0%Z); [apply spec_alloc|lia|]. intros _ n0 ->.
    replace (l <=? cap') with true by (symmetry; apply N.leb_le; lia).
    eapply (spec_bind _ _ _ 0%Z); [apply spec_rdf|lia|].
    intros [d e2] n2 (Hn2 & Hw2 & Hc2). cbn [fst snd] in *.
    eapply (spec_bind _ _ _ 0%Z); [apply spec_alloc|lia|]. intros _ n3 ->.
    unfold sz_string.
    destruct Hc2 as [[-> Hl2]|[[-> [-> Hn02]]|[-> Hl2]]]; cbn [ioerr_is_eof andb length] in *.
    + apply spec_ret; cbn [fst snd]; [lia|]. split; lia.
    + destruct (i =? count - 1).
      * apply spec_ret; cbn [fst snd]; [lia|]. split; lia.
      * sfail.
    + sfail.
Qed.

Lemma spec_strlist_read_g F ru cp cap : cap_ok cap ->
  spec F 16 (fun x => 2 * Z.of_N (snd x) - 2 * Z.of_N cap - 64)%Z
       (16 * Z.of_N cp + 524304)%Z
       (strlist_read_g ru (Capped cp) F cap)
       (fun x n => (4 <= n)%nat /\ cap_ok (snd x)).
Proof.
  intros Hcap. unfold strlist_read_g.
  eapply (spec_bind _ _ _ 0%Z); [apply spec_rd_exact; lia|lia|].
  intros cb n1 (-> & Hl & Hw). unfold zc.
  destruct (be_u32_ok cb Hl Hw) as (count & -> & Hcb). cbn [lift bind].
  pose proof (prealloc_cost_le ru sz_string (prealloc (Capped cp) count)) as Hpc.
  eapply (spec_bind _ _ _ 0%Z); [apply spec_alloc|lia|]. intros _ n0 ->.
  eapply spec_conseq.
  - apply (spec_for_n_pot F 16 16 K_cell (fun st => 2 * Z.of_N (snd st))%Z 262144%Z
             (fun _ st => cap_ok (snd st))); try (unfold K_cell; lia).
    + intros i [sl cap0] Hi HP. cbn [snd] in *.
      eapply spec_conseq; [apply spec_strlist_cell; auto|intros; split; [lia|assumption]|].
      unfold cap_ok in HP. lia.
    + exact Hcap.
  - intros [sl cap'] n HP. cbn [snd] in *. unfold sz_string in *. cbn [prealloc] in *.
    split; [lia|]. split; [lia|auto].
  - unfold K_cell, sz_string, cap_ok in *. cbn [prealloc snd] in *. lia.
Qed.

Lemma spec_strlist_read F cp cap : cap_ok cap ->
  spec F 16 (fun x => 2 * Z.of_N (snd x) - 2 * Z.of_N cap - 64)%Z
       (16 * Z.of_N cp + 524304)%Z
       (strlist_read (Capped cp) F cap)
       (fun x n => (4 <= n)%nat /\ cap_ok (snd x)).
Proof. exact (spec_strlist_read_g F false cp cap). Qed.

Definition K_strlist (cp : N) : Z := (16 * Z.of_N cp + 524308)%Z.

Lemma spec_strlist_read1 F cp :
  spec F 16 (fun _ => 262084)%Z (K_strlist cp) (strlist_read1 (Capped cp) F) (fun _ n => (4 <= n)%nat).
Proof.
  unfold strlist_read1, K_strlist.
  eapply (spec_bind _ _ _ 0%Z); [apply spec_alloc|lia|]. intros _ n0 ->.
  eapply (spec_bind _ _ _ (16 * Z.of_N cp + 524304)%Z);
    [apply (spec_strlist_read F cp strlist_cap0); unfold cap_ok, strlist_cap0; lia|lia|].
  intros [sl cap'] n (Hn & Hc). cbn [snd] in *. unfold cap_ok, strlist_cap0 in *.
  apply spec_ret; [lia|lia].
Qed.

Lemma spec_strlist_read1_reuse F cp :
  spec F 16 (fun _ => 266180)%Z (K_strlist cp + 4096)%Z (strlist_read1_reuse (Capped cp) F)
       (fun _ n => (4 <= n)%nat).
Proof.
  unfold strlist_read1_reuse, K_strlist, ctor_cost, sz_string, reuse_cap0.
  eapply (spec_bind _ _ _ 0%Z); [apply spec_alloc|lia|]. intros _ n0 ->.
  eapply (spec_bind _ _ _ (16 * Z.of_N cp + 524304)%Z);
    [apply (spec_strlist_read_g F true cp strlist_cap0); unfold cap_ok, strlist_cap0; lia|lia|].
  intros [sl cap'] n (Hn & Hc). cbn [snd] in *. unfold cap_ok, strlist_cap0 in *.
  apply spec_ret; [lia|lia].
Qed.

(** ** UintListDecoder.Read / FloatListDecoder.Read *)
Lemma spec_fixed_list F ru cp (st0 st1 : site) (w : nat) (f : bytes -> res N) (bound : N) (esz : N) :
  (forall b, length b = w -> wf_bytes b -> exists v, f b = Ok v /\ v < bound) ->
  (1 <= w)%nat -> (2 * Z.of_N esz <= 16 * Z.of_nat w)%Z ->
  spec F 16 (fun _ => -64)%Z (Z.of_N esz * Z.of_N cp)%Z
       (nb <- rd_exact st0 4 ;;
        n <- lift (be_u32 nb) ;;
        _ <- alloc (prealloc_cost ru esz (prealloc (Capped cp) n)) ;;
        for_n F (fun _ sl =>
                   ub <- rd_exact st1 w ;;
                   u <- lift (f ub) ;;
                   _ <- alloc esz ;;
                   Ret (sl ++ [u])) n 0 [])%prog
       (fun _ n => (4 <= n)%nat).
Proof.
  intros Hf Hw1 Hsz.
  eapply (spec_bind _ _ _ 0%Z); [apply spec_rd_exact; lia|nia|].
  intros nb n1 (-> & Hl & Hw). unfold zc.
  destruct (be_u32_ok nb Hl Hw) as (n & -> & Hnb). cbn [lift bind].
  pose proof (prealloc_cost_le ru esz (prealloc (Capped cp) n)) as Hpc. cbn [prealloc] in Hpc.
  eapply (spec_bind _ _ _ 0%Z); [apply spec_alloc|cbn [prealloc]; nia|]. intros _ n0 ->.
  eapply spec_conseq.
  - apply (spec_for_n F 16 (Z.of_N esz) 0%Z (fun _ _ => True)); try lia.
    + intros i sl Hi _.
      eapply (spec_bind _ _ _ 0%Z); [apply spec_rd_exact; lia|lia|].
      intros ub n2 (-> & Hl2 & Hw2). unfold zc.
      destruct (Hf ub Hl2 Hw2) as (u & -> & _). cbn [lift bind].
      eapply (spec_bind _ _ _ 0%Z); [apply spec_alloc|lia|]. intros _ n3 ->.
      apply spec_ret; [lia|]. split; [lia|exact I].
  - intros sl k _. cbn [prealloc]. split; [nia|lia].
  - cbn [prealloc]. nia.
Qed.

Lemma spec_uintlist_read_g F ru cp :
  spec F 16 (fun _ => -64)%Z (4 * Z.of_N cp)%Z (uintlist_read_g ru (Capped cp) F) (fun _ n => (4 <= n)%nat).
Proof.
  unfold uintlist_read_g.
  apply (spec_fixed_list F ru cp S_ulist_u32 S_ulist_u32 4 be_u32 4294967296 4); [apply be_u32_ok|lia|lia].
Qed.

Lemma spec_uintlist_read F cp :
  spec F 16 (fun _ => -64)%Z (4 * Z.of_N cp)%Z (uintlist_read (Capped cp) F) (fun _ n => (4 <= n)%nat).
Proof. exact (spec_uintlist_read_g F false cp). Qed.

Lemma spec_floatlist_read_g F ru cp :
  spec F 16 (fun _ => -64)%Z (8 * Z.of_N cp)%Z (floatlist_read_g ru (Capped cp) F) (fun _ n => (4 <= n)%nat).
Proof.
  unfold floatlist_read_g.
  apply (spec_fixed_list F ru cp S_flist_u32 S_flist_f64 8 be_u64 18446744073709551616 8); [apply be_u64_ok|lia|lia].
Qed.

Lemma spec_floatlist_read F cp :
  spec F 16 (fun _ => -64)%Z (8 * Z.of_N cp)%Z (floatlist_read (Capped cp) F) (fun _ n => (4 <= n)%nat).
Proof. exact (spec_floatlist_read_g F false cp). Qed.

Lemma spec_list_entry {A} F (p : prog A) (x : N) (K : Z) : (0 <= K)%Z ->
  spec F 16 (fun _ => -64)%Z K p (fun _ n => (4 <= n)%nat) ->
  spec F 16 (fun _ => Z.of_N x - 64)%Z (K + Z.of_N x)%Z (_ <- alloc x ;; p)%prog (fun _ n => (4 <= n)%nat).
Proof.
  intros HK Hp. eapply (spec_bind _ _ _ 0%Z); [apply spec_alloc|lia|]. intros _ n0 ->.
  eapply spec_conseq; [exact Hp| |lia]. intros a n Hn. split; [lia|exact Hn].
Qed.

(** ** StrListDecoder.ReadBytes: the record is kept whole in d.buf, whose doubling is paid by
    the potential 2*cap - 5*|acc| *)
Definition rb_inv (st : bytes * N) : Prop :=
  (4 <= length (fst st))%nat /\ 4 <= snd st /\ snd st <= 2 * N.of_nat (length (fst st)) + 131080.
Definition rb_phi (st : bytes * N) : Z := (2 * Z.of_N (snd st) - 5 * Z.of_nat (length (fst st)))%Z.

Lemma spec_strlist_rb_cell F count i st : rb_inv st ->
  spec F 16 (fun st' => - 16 + rb_phi st' - rb_phi st)%Z (262160 - rb_phi st)%Z
       (strlist_rb_cell count i st)
       (fun st' n1 => (1 <= n1)%nat /\ rb_inv st').
Proof.
  destruct st as [acc cap]. unfold rb_inv, rb_phi. cbn [fst snd]. intros (Ha & Hc & Hcap).
  unfold strlist_rb_cell.
  destruct (ensure_buf cap (N.of_nat (length acc) + 2)) as [cap1 c1] eqn:E1.
  assert (Hc0 : 0 < cap) by lia.
  destruct (ensure_buf_spec _ _ _ _ Hc0 E1) as (A1 & A2 & A3 & A4).
  eapply (spec_bind _ _ _ 0%Z); [apply spec_alloc|lia|]. intros _ n0 ->.
  replace (N.of_nat (length acc) + 2 <=? cap1) with true by (symmetry; apply N.leb_le; lia).
  eapply (spec_bind _ _ _ 0%Z); [apply spec_rdf|lia|].
  intros [lb e] n1 (Hn & Hw & Hx). cbn [fst snd] in *.
  destruct Hx as [[-> Hl]|[[-> [-> Hn0]]|[-> Hl]]]; [|sfail|sfail].
  destruct (be_u16_pad_ok lb Hl Hw) as (l & -> & Hlb). cbn [lift bind].
  destruct (ensure_buf cap1 (N.of_nat (length acc) + 2 + l)) as [cap2 c2] eqn:E2.
  assert (Hc1 : 0 < cap1) by lia.
  destruct (ensure_buf_spec _ _ _ _ Hc1 E2) as (B1 & B2 & B3 & B4).
  eapply (spec_bind _ _ _ 0%Z); [apply spec_alloc|lia|]. intros _ n2 ->.
  replace (N.of_nat (length acc) + 2 + l <=? cap2) with true by (symmetry; apply N.leb_le; lia).
  eapply (spec_bind _ _ _ 0%Z); [apply spec_rdf|lia|].
  intros [d e2] n3 (Hn3 & Hw3 & Hx3). cbn [fst snd] in *.
  assert (Hlen : length (acc ++ lb ++ d) = (length acc + 2 + length d)%nat)
    by (rewrite !app_length; lia).
  destruct Hx3 as [[-> Hl3]|[[-> [-> Hn03]]|[-> Hl3]]]; cbn [ioerr_is_eof andb] in *.
  - apply spec_ret; cbn [fst snd]; rewrite Hlen; [lia|]. split; [lia|]. lia.
  - destruct (i =? count - 1).
    + apply spec_ret; cbn [fst snd]; rewrite Hlen; cbn [length] in *; [lia|]. split; [lia|]. lia.
    + sfail.
  - sfail.
Qed.

Lemma spec_strlist_read_bytes_g F ru :
  spec F 16 (fun _ => 262160)%Z 262200%Z (strlist_read_bytes_g ru F) (fun _ n => (4 <= n)%nat).
Proof.
  unfold strlist_read_bytes_g.
  eapply (spec_bind _ _ _ 0%Z); [apply spec_rdf|lia|].
  intros [hb e] n1 (Hn & Hw & Hx). cbn [fst snd] in *.
  destruct Hx as [[-> Hl]|[[-> [-> Hn0]]|[-> Hl]]]; [|sfail|sfail].
  rewrite pad_exact by auto.
  destruct (be_u32_ok hb Hl Hw) as (count & -> & Hcb). cbn [lift bind].
  eapply (spec_bind _ _ _ (262160 - rb_phi (hb, 4%N))%Z).
  - apply (spec_for_n_pot F 16 16 0%Z rb_phi 262160%Z (fun _ st => rb_inv st)); try lia.
    + intros i st Hi HP. eapply spec_conseq; [apply spec_strlist_rb_cell; auto| |lia].
      intros a n [H1 H2]. split; [lia|auto].
    + unfold rb_inv. cbn [fst snd]. lia.
  - unfold rb_phi. cbn [fst snd]. lia.
  - intros [acc cap] n (Ha & Hc & Hcap). unfold rb_phi in *. cbn [fst snd] in *.
    eapply (spec_bind _ _ _ 0%Z); [apply spec_alloc|lia|]. intros _ n0 ->.
    apply spec_ret; [destruct ru; lia|lia].
Qed.

Lemma spec_strlist_read_bytes F :
  spec F 16 (fun _ => 262160)%Z 262200%Z (strlist_read_bytes F) (fun _ n => (4 <= n)%nat).
Proof. exact (spec_strlist_read_bytes_g F false). Qed.
