(** Proofs about model/DecLists.v: validators, Decode, and the reader-based list decoders. *)
From Coq Require Import String.
From Coq Require Import List Lia Arith ZArith ZifyNat ZifyN ZifyBool.
From W.lib Require Import Tree Bytes GoSlice Reader.
From W.model Require Import DecPrim DecLists.
From W.proofs Require Import DecSpec_proofs DecPrim_proofs.
Local Open Scope N_scope.

(** ** ensureBufSize *)
Lemma ensure_buf_loop_spec n : forall fuel cap cost0 cap' cost',
  0 < cap -> n < cap * 2 ^ N.of_nat fuel ->
  ensure_buf_loop fuel cap n cost0 = (cap', cost') ->
  cost' + 2 * cap = cost0 + 2 * cap' /\ n <= cap' /\ cap <= cap' /\ (cap' = cap \/ cap' < 2 * n).
Proof.
  induction fuel as [|fuel IH]; intros cap cost0 cap' cost' Hc Hn H; cbn [ensure_buf_loop] in H.
  - inversion H; subst. cbn in Hn. lia.
  - destruct (n <=? cap) eqn:E.
    + inversion H; subst. lia.
    + apply N.leb_gt in E. apply IH in H; [|lia|].
      * lia.
      * rewrite Nat2N.inj_succ, N.pow_succ_r' in Hn. lia.
Qed.

Lemma ensure_buf_spec cap n cap' cost : 0 < cap -> ensure_buf cap n = (cap', cost) ->
  cost + 2 * cap = 2 * cap' /\ n <= cap' /\ cap <= cap' /\ (cap' = cap \/ cap' < 2 * n).
Proof.
  intros Hc H. unfold ensure_buf in H. apply ensure_buf_loop_spec in H; auto.
  - lia.
  - rewrite Nat2N.inj_succ, N2Nat.id, N.pow_succ_r'. pose proof (N.size_gt n). nia.
Qed.

(** ** ValidateStrListBytes *)
Lemma slice_from_ok {A} (l : list A) i : (i <= length l)%nat -> slice_from l i = Ok (skipn i l).
Proof. intros H. unfold slice_from. now replace (i <=? length l)%nat with true by (symmetry; apply Nat.leb_le; lia). Qed.

Lemma be_uint_len_ok w b : (w <= length b)%nat -> be_uint w b = Ok (unbe (firstn w b)).
Proof. intros H. unfold be_uint. now replace (w <=? length b)%nat with true by (symmetry; apply Nat.leb_le; lia). Qed.

Definition vres_ok (b : bytes) (off : nat) (r : res nat) : Prop :=
  match r with
  | Ok m => (off <= m <= length b)%nat
  | Err e => e <> CFuel
  | Panic => False
  end.

Lemma validate_strlist_loop_ok b count : forall fuel i off,
  (off <= length b)%nat -> (length b - off < fuel)%nat ->
  vres_ok b off (validate_strlist_loop true fuel b count i off).
Proof.
  induction fuel as [|fuel IH]; intros i off Ho Hf; [lia|].
  cbn [validate_strlist_loop]. destruct (i <? count); [|cbn; lia].
  cbn [andb]. destruct (length b <? off + 2)%nat eqn:E; [cbn; discriminate|].
  apply Nat.ltb_ge in E.
  rewrite slice_from_ok by lia. cbn [rbind]. unfold be_u16.
  rewrite be_uint_len_ok by (rewrite skipn_length; lia).
  set (l := unbe (firstn 2 (skipn off b))).
  destruct (length b <? off + 2 + N.to_nat l)%nat eqn:E2; [cbn; discriminate|].
  apply Nat.ltb_ge in E2.
  specialize (IH (i + 1) (off + 2 + N.to_nat l)%nat E2 ltac:(lia)).
  destruct (validate_strlist_loop true fuel b count (i + 1) (off + 2 + N.to_nat l)); cbn in *; auto. lia.
Qed.

Lemma validate_strlist_ok b : vres_ok b 4 (validate_strlist b).
Proof.
  unfold validate_strlist, validate_strlist_gen. cbn [andb].
  destruct (length b <? 4)%nat eqn:E; [cbn; discriminate|]. apply Nat.ltb_ge in E.
  unfold be_u32. rewrite be_uint_len_ok by lia.
  apply validate_strlist_loop_ok; lia.
Qed.

Theorem validate_strlist_total b :
  validate_strlist b <> Panic /\ validate_strlist b <> Err CFuel.
Proof.
  pose proof (validate_strlist_ok b) as H. destruct (validate_strlist b); cbn in H; split; congruence.
Qed.

(** the code before fix 8ed4fbc *)
Theorem validate_strlist_unchecked_panics : validate_strlist_unchecked [0; 0] = Panic.
Proof. reflexivity. Qed.
Theorem validate_block_unchecked_panics : validate_block_unchecked [0; 0] = Panic.
Proof. reflexivity. Qed.
(* a row header cut after one byte *)
Theorem validate_block_unchecked_panics2 :
  validate_block_unchecked [0; 0; 0; 1; 0; 0; 0; 1; 0] = Panic.
Proof. reflexivity. Qed.

(** ** ValidateBlockBytes *)
Lemma validate_block_loop_ok b n : forall fuel i off,
  (off <= length b)%nat -> (length b - off < fuel)%nat ->
  match validate_block_loop true fuel b n i off with
  | Ok _ => True | Err e => e <> CFuel | Panic => False end.
Proof.
  induction fuel as [|fuel IH]; intros i off Ho Hf; [lia|].
  cbn [validate_block_loop]. destruct (i <? n); [|exact I].
  rewrite slice_from_ok by lia. cbn [rbind].
  pose proof (validate_strlist_ok (skipn off b)) as H. unfold validate_strlist in H.
  destruct (validate_strlist_gen true (skipn off b)) as [m|e|]; cbn in H; auto.
  rewrite skipn_length in H. apply IH; lia.
Qed.

Theorem validate_block_total b : validate_block b <> Panic /\ validate_block b <> Err CFuel.
Proof.
  unfold validate_block, validate_block_gen. cbn [andb].
  destruct (length b <? 4)%nat eqn:E; [split; discriminate|]. apply Nat.ltb_ge in E.
  unfold be_u32. rewrite be_uint_len_ok by lia.
  pose proof (validate_block_loop_ok b (unbe (firstn 4 b)) (S (length b)) 0 4 ltac:(lia) ltac:(lia)) as H.
  destruct (validate_block_loop true (S (length b)) b (unbe (firstn 4 b)) 0 4); split; try congruence; try tauto.
  intros ->. congruence.
Qed.

(** ** Decode on validated bytes: same walk as the validator; 16 bytes of budget are
    banked per cell to pay for strSlice, the scratch buffer is paid by its potential *)
Lemma decode_follows_validate pc b count : forall fuel i off sl cap mm m,
  0 < cap -> i <= count -> (off <= length b)%nat ->
  validate_strlist_loop true fuel b count i off = Ok m ->
  exists sl' mm' cap',
    strlist_decode_loop fuel b count i off sl cap mm = (Ok sl', mm') /\ cap <= cap' /\
    (cap' = cap \/ cap' < 2 * N.of_nat (m - off)) /\
    mm' + 16 * (count - i) + 2 * cap <= mm + 16 * N.of_nat (m - off) + 2 * cap'.
Proof.
  induction fuel as [|fuel IH]; intros i off sl cap mm m Hc Hi Ho H;
    cbn [validate_strlist_loop strlist_decode_loop] in *.
  - destruct (i <? count) eqn:E; [discriminate|]. apply N.ltb_ge in E. inversion H; subst.
    exists sl, mm, cap. repeat split; auto; lia.
  - destruct (i <? count) eqn:E.
    2:{ apply N.ltb_ge in E. inversion H; subst. exists sl, mm, cap. repeat split; auto; lia. }
    apply N.ltb_lt in E. cbn [andb] in H.
    destruct (length b <? off + 2)%nat eqn:E1; [discriminate|]. apply Nat.ltb_ge in E1.
    rewrite slice_from_ok in * by lia. cbn [rbind] in *. unfold be_u16 in *.
    rewrite be_uint_len_ok in * by (rewrite skipn_length; lia).
    set (l := unbe (firstn 2 (skipn off b))) in *.
    destruct (length b <? off + 2 + N.to_nat l)%nat eqn:E2; [discriminate|]. apply Nat.ltb_ge in E2.
    pose proof (validate_strlist_loop_ok b count fuel (i + 1) (off + 2 + N.to_nat l)%nat E2) as Hm.
    destruct (l =? 0) eqn:El.
    + apply N.eqb_eq in El. rewrite El in *. replace (off + 2 + N.to_nat 0)%nat with (off + 2)%nat in * by lia.
      destruct (IH (i + 1) (off + 2)%nat (sl ++ [[]]) cap (mm + sz_string) m Hc ltac:(lia) ltac:(lia) H)
        as (sl' & mm' & cap' & Hd & Hcap & Hcap2 & Hb).
      assert (off + 2 <= m)%nat.
      { destruct fuel; cbn in H; [discriminate|].
        assert (G := validate_strlist_loop_ok b count (S fuel) (i + 1) (off + 2)%nat).
        cbn [validate_strlist_loop] in G. rewrite H in G.
        admit. }
      exists sl', mm', cap'. rewrite Hd. unfold sz_string in *. repeat split; auto; lia.
    + admit.
Admitted.
