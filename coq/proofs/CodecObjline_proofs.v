(** Proofs for model/CodecObjline.v: strings, labelled fields, the 16-byte time field.
    Axiom-free. *)
From W.lib Require Import Tree Bytes.
From W.model Require Import CodecBase CodecStrList CodecObjline.
From W.proofs Require Import CodecBase_proofs CodecStrList_proofs.
From Coq Require Import Arith Lia ZifyNat ZifyN ZifyBool List NArith Bool ZArith.
Import ListNotations.
Local Open Scope N_scope.

(* ------------------------------------------------------------------ *)
(** * strings *)

Lemma enc_string_some s : len s <= 65535 -> enc_string s = Some (be 2 (len s) ++ s).
Proof. intros H. unfold enc_string. apply N.ltb_ge in H. now rewrite H. Qed.

Lemma enc_string_none s : 65535 < len s -> enc_string s = None.
Proof. intros H. unfold enc_string. apply N.ltb_lt in H. now rewrite H. Qed.

Lemma dec_string_enc s rest :
  len s <= 65535 -> dec_string (be 2 (len s) ++ s ++ rest) = Some (s, rest).
Proof.
  intros H. unfold dec_string. rewrite rd_be_app by (rewrite pow256_2; lia).
  rewrite to_nat_len. apply take_app.
Qed.

Lemma dec_string_inv b s rest :
  wf_bytes b -> dec_string b = Some (s, rest) ->
  enc_string s = Some (be 2 (len s) ++ s) /\ b = (be 2 (len s) ++ s) ++ rest /\
  wf_bytes rest /\ len s <= 65535.
Proof.
  intros Hw H. unfold dec_string in H.
  destruct (rd_be 2 b) as [[l b1]|] eqn:E1; [|discriminate].
  apply rd_be_inv in E1 as (-> & Hl & Hw1); [|assumption]. rewrite pow256_2 in Hl.
  apply take_spec in H as [-> Hs]. apply wf_bytes_app in Hw1 as [_ Hwr].
  assert (Hlen : len s = l) by (unfold len; lia). subst l.
  split; [apply enc_string_some; lia|]. rewrite <- app_assoc. repeat split; auto. lia.
Qed.

(* ------------------------------------------------------------------ *)
(** * fields *)

Lemma dec_field_enc {X} label (f : bytes -> option (X * bytes)) body x rest :
  f (body ++ [NL] ++ rest) = Some (x, [NL] ++ rest) ->
  dec_field label f (enc_field label body ++ rest) = Some (x, rest).
Proof.
  intros Hf. unfold dec_field, enc_field.
  replace ((label ++ [SP] ++ body ++ [NL]) ++ rest)
    with ((label ++ [SP]) ++ body ++ [NL] ++ rest) by (now rewrite <- !app_assoc).
  rewrite expect_app, Hf. change ([NL] ++ rest) with ([NL] ++ rest).
  now rewrite expect_app.
Qed.

Lemma dec_field_inv {X} label (f : bytes -> option (X * bytes)) b x rest :
  dec_field label f b = Some (x, rest) ->
  exists b1, b = (label ++ [SP]) ++ b1 /\ f b1 = Some (x, [NL] ++ rest).
Proof.
  unfold dec_field. intros H.
  destruct (expect (label ++ [SP]) b) as [b1|] eqn:E1; [|discriminate].
  apply expect_spec in E1. subst b.
  destruct (f b1) as [[y b2]|] eqn:E2; [|discriminate].
  destruct (expect [NL] b2) as [b3|] eqn:E3; [|discriminate].
  apply expect_spec in E3. subst b2. inv H. eauto.
Qed.

Lemma wf_label_app label b1 :
  wf_bytes ((label ++ [SP]) ++ b1) -> wf_bytes b1.
Proof. intros H. now apply wf_bytes_app in H as [_ H]. Qed.

Lemma wf_nl_rest rest : wf_bytes ([NL] ++ rest) -> wf_bytes rest.
Proof. intros H. now apply wf_bytes_app in H as [_ H]. Qed.

(* ------------------------------------------------------------------ *)
(** * time *)

Definition below (n : nat) (P : N -> bool) : bool := forallb P (map N.of_nat (seq 0 n)).
Lemma below_spec n P : below n P = true -> forall x, x < N.of_nat n -> P x = true.
Proof.
  unfold below. rewrite forallb_forall. intros H x Hx. apply H.
  apply in_map_iff. exists (N.to_nat x). split; [lia|]. apply in_seq. lia.
Qed.

Lemma firstn_exact {A} n (l r : list A) : length l = n -> firstn n (l ++ r) = l.
Proof. intros <-. rewrite firstn_app, Nat.sub_diag, firstn_all. cbn. apply app_nil_r. Qed.

Lemma skipn_exact {A} n (l r : list A) : length l = n -> skipn n (l ++ r) = r.
Proof. intros <-. rewrite skipn_app, Nat.sub_diag, skipn_all. reflexivity. Qed.

(* zones: finitely many, decided by computation *)
Definition zone_ok (z : Z) : bool :=
  match parse_zone (fmt_zone z) with
  | Some z' => (z' =? z)%Z && (length (fmt_zone z) =? 5)%nat
  | None => false
  end.

Lemma zone_roundtrip z : (-1499 <= z <= 1499)%Z ->
  parse_zone (fmt_zone z) = Some z /\ length (fmt_zone z) = 5%nat.
Proof.
  intros Hz.
  assert (H : zone_ok z = true).
  { destruct (Z.ltb_spec z 0) as [Hneg|Hpos].
    - assert (Ha : zone_ok (- Z.of_N (Z.abs_N z))%Z = true).
      { assert (Hb : Z.abs_N z < N.of_nat 1500) by lia. revert Hb.
        generalize (Z.abs_N z). apply (below_spec 1500 (fun a => zone_ok (- Z.of_N a)%Z)).
        vm_compute. reflexivity. }
      replace (- Z.of_N (Z.abs_N z))%Z with z in Ha by lia. exact Ha.
    - assert (Ha : zone_ok (Z.of_N (Z.abs_N z)) = true).
      { assert (Hb : Z.abs_N z < N.of_nat 1500) by lia. revert Hb.
        generalize (Z.abs_N z). apply (below_spec 1500 (fun a => zone_ok (Z.of_N a))).
        vm_compute. reflexivity. }
      replace (Z.of_N (Z.abs_N z)) with z in Ha by lia. exact Ha. }
  unfold zone_ok in H. destruct (parse_zone (fmt_zone z)) as [z'|]; [|discriminate].
  apply andb_true_iff in H as [H1 H2]. apply Z.eqb_eq in H1. apply Nat.eqb_eq in H2. subst. auto.
Qed.

Lemma fixw_head w n : (0 < w)%nat ->
  exists c r, fixw w n = c :: r /\ is_digit c = true /\ forallb is_digit r = true.
Proof.
  intros Hw. pose proof (fixw_digits w n) as Hd. pose proof (fixw_length w n) as Hl.
  destruct (fixw w n) as [|c r]; [cbn in Hl; lia|].
  cbn [forallb] in Hd. apply andb_true_iff in Hd as [H1 H2]. eauto.
Qed.

Lemma digit_not_sign c : is_digit c = true -> (c =? 43) = false /\ (c =? 45) = false /\ (c =? 0) = false.
Proof.
  unfold is_digit. intros H. apply andb_true_iff in H as [H1 H2].
  apply N.leb_le in H1, H2. repeat split; apply N.eqb_neq; lia.
Qed.

Lemma pow10_10 : 10 ^ N.of_nat 10 = 10000000000. Proof. reflexivity. Qed.
Lemma pow10_9 : 10 ^ N.of_nat 9 = 1000000000. Proof. reflexivity. Qed.

Lemma sec_roundtrip s : (-999999999 <= s <= 9999999999)%Z ->
  parse_int (fmt_sec s) = Some s /\ length (fmt_sec s) = 10%nat /\
  exists c r, fmt_sec s = c :: r /\ (c =? 0) = false.
Proof.
  intros Hs. unfold fmt_sec. destruct (Z.ltb_spec s 0) as [Hneg|Hpos].
  - assert (Ha : Z.abs_N s < 10 ^ N.of_nat 9) by (rewrite pow10_9; lia).
    rewrite fmt_pad_small by assumption.
    split; [|split].
    + unfold parse_int. change (45 =? 43) with false. change (45 =? 45) with true. cbn match.
      rewrite parse_uint_fixw by (try assumption; lia). f_equal. lia.
    + cbn [length]. now rewrite fixw_length.
    + exists 45, (fixw 9 (Z.abs_N s)). split; reflexivity.
  - assert (Ha : Z.to_N s < 10 ^ N.of_nat 10) by (rewrite pow10_10; lia).
    rewrite fmt_pad_small by assumption.
    destruct (fixw_head 10 (Z.to_N s) ltac:(lia)) as (c & r & E & Hc & Hr).
    destruct (digit_not_sign c Hc) as (N1 & N2 & N3).
    split; [|split].
    + unfold parse_int. rewrite E, N1, N2, <- E.
      rewrite parse_uint_fixw by (try assumption; lia). f_equal. lia.
    + apply fixw_length.
    + exists c, r. auto.
Qed.

Lemma encode_time_raw_decode t :
  (-999999999 <= fst t <= 9999999999)%Z -> (-1499 <= snd t <= 1499)%Z ->
  decode_time_real (encode_time_raw t) = Some t /\ length (encode_time_raw t) = 16%nat.
Proof.
  destruct t as [s z]. cbn [fst snd]. intros Hs Hz.
  destruct (sec_roundtrip s Hs) as (Ps & Ls & c & r & Ec & Nc).
  destruct (zone_roundtrip z Hz) as (Pz & Lz).
  unfold encode_time_raw. cbn [fst snd]. split.
  - unfold decode_time_real.
    assert (Hnz : forallb (N.eqb 0) (fmt_sec s ++ [SP] ++ fmt_zone z) = false).
    { rewrite Ec. cbn [app forallb]. rewrite N.eqb_sym, Nc. reflexivity. }
    rewrite Hnz. rewrite firstn_exact by assumption.
    replace (fmt_sec s ++ [SP] ++ fmt_zone z) with ((fmt_sec s ++ [SP]) ++ fmt_zone z)
      by (now rewrite <- app_assoc).
    rewrite skipn_exact by (rewrite app_length, Ls; reflexivity).
    now rewrite Ps, Pz.
  - rewrite !app_length, Ls, Lz. reflexivity.
Qed.

Theorem time_roundtrip t : wf_time t ->
  length (encode_time t) = 16%nat /\ forall strict, decode_time_g strict (encode_time t) = Some t.
Proof.
  intros [->|[Hs Hz]].
  - split; [reflexivity|]. intros strict. vm_compute. destruct strict; reflexivity.
  - assert (Hnz : (fst t =? zero_sec)%Z = false) by (apply Z.eqb_neq; unfold zero_sec; lia).
    destruct (encode_time_raw_decode t Hs Hz) as [Hd Hl].
    unfold encode_time. rewrite Hnz. split; [assumption|].
    intros strict. unfold decode_time_g. rewrite Hd.
    unfold encode_time. rewrite Hnz, beq_refl. now destruct strict.
Qed.

Lemma dec_time_enc strict t rest : wf_time t ->
  dec_time strict (encode_time t ++ rest) = Some (t, rest).
Proof.
  intros Hw. destruct (time_roundtrip t Hw) as [Hl Hd].
  unfold dec_time. rewrite (take_app_n 16) by assumption. now rewrite Hd.
Qed.

Lemma decode_time_strict_inv b t : decode_time_g true b = Some t -> encode_time t = b.
Proof.
  unfold decode_time_g. destruct (decode_time_real b) as [t'|]; [|discriminate].
  cbn [andb]. destruct (beq (encode_time t') b) eqn:E; cbn [negb]; [|discriminate].
  intros H. inv H. now apply beq_eq.
Qed.

Lemma dec_time_strict_inv b t rest : dec_time true b = Some (t, rest) -> b = encode_time t ++ rest.
Proof.
  unfold dec_time. destruct (take 16 b) as [[h b1]|] eqn:E; [|discriminate].
  destruct (decode_time_g true h) as [t'|] eqn:E2; [|discriminate].
  intros H. inv H. apply take_spec in E as [-> _]. now rewrite (decode_time_strict_inv _ _ E2).
Qed.

Lemma decode_time_strict_real b t : decode_time_g true b = Some t -> decode_time_g false b = Some t.
Proof.
  unfold decode_time_g. destruct (decode_time_real b) as [t'|]; [|discriminate].
  cbn [andb]. destruct (negb (beq (encode_time t') b)); [discriminate|auto].
Qed.

Lemma dec_time_strict_real b r : dec_time true b = Some r -> dec_time false b = Some r.
Proof.
  unfold dec_time. destruct (take 16 b) as [[h b1]|]; [|discriminate].
  destruct (decode_time_g true h) as [t'|] eqn:E; [|discriminate].
  now rewrite (decode_time_strict_real _ _ E).
Qed.

(** the real time reader is not canonical *)
Lemma time_noncanonical :
  decode_time_g false [43;48;48;48;48;48;48;48;48;53;120;45;48;48;48;48] = Some (5%Z, 0%Z) /\
  encode_time (5%Z, 0%Z) = [48;48;48;48;48;48;48;48;48;53;32;43;48;48;48;48].
Proof. split; vm_compute; reflexivity. Qed.
