(** C05: concrete witnesses on the model - the known findings (each refutes the
    property clause it is named after) and non-vacuity examples. *)
From W.lib Require Import Tree Bytes GoSlice.
From W.model Require Import ColDiff Merge MergeSpec.
From W.proofs Require Import Merge_proofs ColDiff_proofs.
From Coq Require Import Arith Lia Bool List.
Import ListNotations.
Local Open Scope N_scope.

(* ascii: 1=49 2=50 3=51 a=97 b=98 c=99 d=100 i=105 u=117 v=118 x=120 y=121 *)
Definition s_id : bytes := [105; 100].
Definition s_x : bytes := [120].
Definition s_a : bytes := [97].
Definition s_b : bytes := [98].
Definition s_c : bytes := [99].
Definition s_u : bytes := [117].
Definition s_v : bytes := [118].
Definition s_y : bytes := [121].
Definition s_1 : bytes := [49].
Definition s_2 : bytes := [50].
Definition s_3 : bytes := [51].
Definition s_a2 : bytes := [97; 50].
Definition s_c3 : bytes := [99; 51].

Definition mk (cols pk : list name) (rows : list row) : table :=
  {| t_cols := cols; t_pk := pk; t_rows := rows |}.

(** F1 (merge-untouched-rows-in-base-layout): key column not first.  The merged layout is
    (id, x) but the untouched row of key 2 is delivered as [b; 2] (base layout) and the
    result is sorted on cell 1. *)
Definition f1_base := mk [s_x; s_id] [s_id] [[s_a; s_1]; [s_b; s_2]; [s_c; s_3]].
Definition f1_b1 := mk [s_x; s_id] [s_id] [[s_a2; s_1]; [s_b; s_2]; [s_c; s_3]].
Definition f1_b2 := mk [s_x; s_id] [s_id] [[s_a; s_1]; [s_b; s_2]; [s_c3; s_3]].

Lemma f1_witness :
  exists o, run_merge f1_base [f1_b1; f1_b2] 0 1 false = Ok o /\
            mo_cols o = [s_id; s_x] /\
            mo_rows o = [[s_b; s_2]; [s_1; s_a2]; [s_3; s_c3]].
Proof. eexists. split; [vm_compute; reflexivity|]. split; reflexivity. Qed.

(** F1, second face: a branch adds a column, another removes a later one, one row is
    untouched: SortedBlocks (the commit path) panics in the sorter goroutine. *)
Definition f1p_base := mk [s_id; s_v] [s_id] [[s_1; s_a]; [s_2; s_b]].
Definition f1p_b1 := mk [s_id; s_u; s_v] [s_id] [[s_1; s_x; s_a2]; [s_2; s_y; s_b]].
Definition f1p_b2 := mk [s_id] [s_id] [[s_1]; [s_2]].

Lemma f1_panic_witness :
  run_merge f1p_base [f1p_b1; f1p_b2] 0 1 true = Panic /\
  exists o, run_merge f1p_base [f1p_b1; f1p_b2] 0 1 false = Ok o.
Proof. split; [vm_compute; reflexivity|]. eexists. vm_compute. reflexivity. Qed.

(** F2 (merge-keyless-result-wrong): keyless tables; branch 1 removes row (b,2) and adds
    (d,4): the removed row comes back (it is re-added) and only the first row survives
    the sorter, so the added row (d,4) and the kept row (c,3) are lost. *)
Definition s_p : bytes := [112].
Definition s_q : bytes := [113].
Definition s_d : bytes := [100].
Definition s_4 : bytes := [52].
Definition f2_base := mk [s_p; s_q] [] [[s_a; s_1]; [s_b; s_2]; [s_c; s_3]].
Definition f2_b1 := mk [s_p; s_q] [] [[s_a; s_1]; [s_c; s_3]; [s_d; s_4]].
Definition f2_b2 := mk [s_p; s_q] [] [[s_a; s_1]; [s_b; s_2]; [s_c; s_3]].

Lemma f2_witness :
  exists o, run_merge f2_base [f2_b1; f2_b2] 0 1 false = Ok o /\
            mo_rows o = [[s_a; s_1]] /\
            (* although every record is resolved and (b,2) is among the re-added rows *)
            forallb (fun kr => r_resolved (k_res kr)) (mo_recs o) = true /\
            In [s_b; s_2] (collected_rows f2_base (mo_recs o) 0).
Proof.
  eexists. split; [vm_compute; reflexivity|]. split; [reflexivity|]. split; [reflexivity|].
  vm_compute. tauto.
Qed.

(** D1 (merge-rowsum-compared-across-layouts): two branches add differently named columns
    with the same value; their rows have the same cell sequence, so only the last layer
    survives the uniqSums deduplication and branch 1's cell a = x is silently dropped. *)
Definition d1_base := mk [s_id] [s_id] [[s_1]].
Definition d1_b1 := mk [s_id; s_a] [s_id] [[s_1; s_x]].
Definition d1_b2 := mk [s_id; s_b] [s_id] [[s_1; s_x]].

Lemma d1_witness :
  exists o kr, run_merge d1_base [d1_b1; d1_b2] 0 1 false = Ok o /\
    cd_names (mo_cd o) = [s_id; s_b; s_a] /\ mo_recs o = [kr] /\
    r_resolved (k_res kr) = true /\ r_row (k_res kr) = Some [s_1; s_x; []] /\
    (* the specification: column a (index 2) has exactly one change, SVal x *)
    conflictb (base_st (mo_cd o) (k_m kr) 2) (states (mo_cd o) (k_m kr) 2) = false /\
    spec_value (base_st (mo_cd o) (k_m kr) 2) (states (mo_cd o) (k_m kr) 2) = SVal s_x /\
    cd_consistent (mo_cd o) /\ ~ dedupe_ok (mo_cd o) (k_m kr).
Proof.
  eexists. eexists. split; [vm_compute; reflexivity|].
  split; [reflexivity|]. split; [reflexivity|]. split; [reflexivity|]. split; [reflexivity|].
  split; [reflexivity|]. split; [reflexivity|]. split.
  - unfold cd_consistent. cbn. split; [reflexivity|]. split; [reflexivity|].
    intros l Hl. destruct l as [|[|l]]; [| |lia]; (split; [reflexivity|]);
      intros i Hi; destruct i as [|[|[|i]]]; try lia; split; reflexivity.
  - intros H. specialize (H 0%nat 1%nat [s_1; s_x] [s_1; s_x] eq_refl eq_refl eq_refl 1%nat).
    vm_compute in H. discriminate H.
Qed.

(** D2: a rename in branch 1 leaves the cell sequence of row 1 equal to the base's, so the
    resolver counts branch 1 as "unchanged" and lets branch 2's removal win silently. *)
Definition d2_base := mk [s_id; s_a] [s_id] [[s_1; s_x]; [s_2; s_y]].
Definition d2_b1 := mk [s_id; s_b] [s_id] [[s_1; s_x]; [s_2; s_y]].
Definition d2_b2 := mk [s_id; s_a] [s_id] [[s_2; s_y]].

Lemma d2_witness :
  exists o kr, run_merge d2_base [d2_b1; d2_b2] 0 1 false = Ok o /\
    mo_recs o = [kr] /\ k_key kr = [s_1] /\
    r_resolved (k_res kr) = true /\ r_row (k_res kr) = None /\
    (* branch 1 did change the row: it has no column a any more, and a new column b *)
    cd_names (mo_cd o) = [s_id; s_a; s_b] /\
    in_removed (mo_cd o) 0 1 = true /\ in_added (mo_cd o) 0 2 = true.
Proof.
  eexists. eexists. split; [vm_compute; reflexivity|]. repeat split; reflexivity.
Qed.

(** D3: both branches rename column a to b: no Merge record at all, the rows are re-added
    in the base layout and lose their value under the result columns (id, b). *)
Lemma d3_witness :
  exists o, run_merge d2_base [d2_b1; d2_b1] 0 1 false = Ok o /\
    mo_recs o = [] /\ mo_cols o = [s_id; s_b] /\ mo_rows o = [[s_1]; [s_2]].
Proof. eexists. split; [vm_compute; reflexivity|]. repeat split; reflexivity. Qed.

(** D4 (merge-reorder-vs-removal-spurious-conflict): branch 1 only reorders the columns,
    branch 2 removes row 1: reported as a conflict. *)
Definition d4_base := mk [s_id; s_a; s_b] [s_id] [[s_1; s_x; s_y]; [s_2; s_u; s_v]].
Definition d4_b1 := mk [s_id; s_b; s_a] [s_id] [[s_1; s_y; s_x]; [s_2; s_v; s_u]].
Definition d4_b2 := mk [s_id; s_a; s_b] [s_id] [[s_2; s_u; s_v]].

Lemma d4_witness :
  exists o kr1 kr2, run_merge d4_base [d4_b1; d4_b2] 0 1 false = Ok o /\
    mo_recs o = [kr1; kr2] /\ k_key kr1 = [s_1] /\
    r_resolved (k_res kr1) = false /\ r_unres (k_res kr1) = [] /\
    (* whereas branch 1's row, read through its index map, equals the base row *)
    (forall i, (i < 3)%nat -> layer_cell (mo_cd o) 0 [s_1; s_y; s_x] i = base_st (mo_cd o) (k_m kr1) i).
Proof.
  eexists. eexists. eexists. split; [vm_compute; reflexivity|].
  split; [reflexivity|]. split; [reflexivity|]. split; [reflexivity|]. split; [reflexivity|].
  intros i Hi. destruct i as [|[|[|i]]]; try lia; reflexivity.
Qed.

(** ---- non-vacuity of the row-level theorems: the second record of the repository's
    TestRowResolverComplexCases (one branch adds column d, the other removes column c) ---- *)
Definition s_d' : bytes := [100].
Definition s_z : bytes := [122].
Definition s_t : bytes := [116].
Definition s_q' : bytes := [113].
Definition nv_base := mk [s_a; s_b; s_c] [s_a] [[s_3; s_z; s_x]; [s_4; s_t; s_y]].
Definition nv_b1 := mk [s_a; s_b; s_c; s_d'] [s_a] [[s_3; s_z; s_v; s_c]; [s_4; s_q'; s_y; s_u]].
Definition nv_b2 := mk [s_a; s_b] [s_a] [[s_3; s_z]; [s_4; s_a]].

Lemma nonvacuous_row_level :
  exists cd, compare_columns (header_of nv_base) [header_of nv_b1; header_of nv_b2] = Ok cd /\
    wf_header (header_of nv_base) /\ Forall wf_header [header_of nv_b1; header_of nv_b2] /\
    let m := mk_mrec nv_base [nv_b1; nv_b2] [s_4] in
    length (m_others m) = cd_layers cd /\ dedupe_ok cd m /\
    r_unres (try_resolve cd m) = [1%nat] /\ r_row (try_resolve cd m) = Some [s_4; s_t; []; s_u].
Proof.
  eexists. split; [vm_compute; reflexivity|].
  split; [apply wf_headerb_ok; reflexivity|].
  split; [constructor; [apply wf_headerb_ok; reflexivity|constructor; [apply wf_headerb_ok; reflexivity|constructor]]|].
  cbn zeta. split; [reflexivity|]. split; [|split; reflexivity].
  intros l l' r r' Hl Hl' Hk i.
  destruct l as [|[|l]]; cbn in Hl; try discriminate; try (destruct l; discriminate);
  destruct l' as [|[|l']]; cbn in Hl'; try discriminate; try (destruct l'; discriminate);
  injection Hl as <-; injection Hl' as <-; try reflexivity; vm_compute in Hk; discriminate Hk.
Qed.

(** ---- non-vacuity of the table-level theorems: TestMergerAutoResolve of the repository ---- *)
From W.proofs Require Import MergeTable_proofs.
Definition s_e : bytes := [101].
Definition s_r : bytes := [114].
Definition s_s : bytes := [115].
Definition s_w : bytes := [119].
Definition ar_cols : list name := [s_a; s_b; s_c].
Definition ar_base := mk ar_cols [s_a] [[s_1; s_q; s_w]; [s_2; s_a; s_s]; [s_4; s_r; s_t]].
Definition ar_b1 := mk ar_cols [s_a] [[s_1; s_q; s_r]; [s_2; s_a; s_s]; [s_4; s_r; s_t]].
Definition ar_b2 := mk ar_cols [s_a] [[s_1; s_e; s_w]; [s_3; s_s; s_d]; [s_4; s_r; s_t]].

Lemma ar_wf t : In t [ar_base; ar_b1; ar_b2] -> wf_table ar_cols [s_a] t.
Proof.
  intros [<-|[<-|[<-|[]]]]; (split; [reflexivity|]; split; [reflexivity|]; split;
    [intros r Hr; repeat (destruct Hr as [<-|Hr]; [reflexivity|]); destruct Hr|]);
    vm_compute; repeat constructor; cbn; intros H; repeat (destruct H as [H|H]; [discriminate H|]); assumption.
Qed.

Lemma guard_nonvacuous :
  guard ar_cols [s_a] ar_base [ar_b1; ar_b2] /\
  exists o, run_merge ar_base [ar_b1; ar_b2] 1 1 false = Ok o /\
            mo_rows o = [[s_1; s_e; s_r]; [s_3; s_s; s_d]; [s_4; s_r; s_t]] /\
  (* the two edits of key 1 touch different cells, key 2 is removed by one branch only,
     key 3 is added by one branch only: the edits are disjoint *)
  forall k, disjoint_at 3 (lookup ar_base k) (lookup ar_b1 k) (lookup ar_b2 k) \/
            ~ table_keys [s_a] ar_base [ar_b1; ar_b2] k.
Proof.
  split.
  - split; [apply nodupb_ok; reflexivity|]. split; [discriminate|]. split; [now exists [s_b; s_c]|].
    split; [discriminate|]. split; [apply ar_wf; now left|].
    constructor; [apply ar_wf; right; now left|]. constructor; [apply ar_wf; right; right; now left|constructor].
  - eexists. split; [vm_compute; reflexivity|]. split; [reflexivity|].
    intros k.
    destruct (list_eq_dec (list_eq_dec N.eq_dec) k [s_1]) as [->|H1]; [left; vm_compute; intros i Hi;
      destruct i as [|[|[|i]]]; try lia; auto|].
    destruct (list_eq_dec (list_eq_dec N.eq_dec) k [s_2]) as [->|H2]; [left; vm_compute; reflexivity|].
    destruct (list_eq_dec (list_eq_dec N.eq_dec) k [s_3]) as [->|H3]; [left; vm_compute; exact I|].
    destruct (list_eq_dec (list_eq_dec N.eq_dec) k [s_4]) as [->|H4]; [left; vm_compute; intros i Hi; now left|].
    right. intros (t & Ht & r & Hr & Hk).
    destruct Ht as [->|[<-|[<-|[]]]]; cbn in Hr;
      repeat (destruct Hr as [Hr|Hr]; [subst r; subst k; first [now apply H1|now apply H2|now apply H3|now apply H4]|]); destruct Hr.
Qed.

(** ---- command level: a row removed by one branch while the other branch only dropped a column.
    The library reports the record unresolved with NO unresolved column; `wrgl merge` (merge tool
    unavailable) must refuse - concluding the merge would silently bring row 2 back. ---- *)
Definition cm_base := mk [s_id; s_a; s_b; s_c] [s_id] [[s_1; s_x; s_y; s_u]; [s_2; s_a; s_s; s_d]; [s_3; s_z; s_x; s_c]].
Definition cm_b1 := mk [s_id; s_a; s_b] [s_id] [[s_1; s_x; s_y]; [s_2; s_a; s_s]; [s_3; s_z; s_x]].
Definition cm_b2 := mk [s_id; s_a; s_b; s_c] [s_id] [[s_1; s_x; s_y; s_u]; [s_3; s_z; s_x; s_c]].

Lemma cmd_refuses_witness :
  cmd_merge cm_base [cm_b1; cm_b2] true = CmdRefused /\
  cmd_merge cm_base [cm_b1; cm_b2] false = CmdRefused /\
  exists o kr, run_merge cm_base [cm_b1; cm_b2] 0 1 false = Ok o /\ In kr (mo_recs o) /\
    k_key kr = [s_2] /\ r_resolved (k_res kr) = false /\ r_unres (k_res kr) = [] /\
    (* had the record been dropped, the base row would be re-added: it is among the rows
       the collector produces when the key is not discarded (policy 0) *)
    In [s_2; s_a; s_s; s_d] (collected_rows cm_base (mo_recs o) 0).
Proof.
  split; [vm_compute; reflexivity|]. split; [vm_compute; reflexivity|].
  eexists. eexists. split; [vm_compute; reflexivity|].
  split; [right; left; reflexivity|]. split; [reflexivity|]. split; [reflexivity|]. split; [reflexivity|].
  vm_compute. tauto.
Qed.
