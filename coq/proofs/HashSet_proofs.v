(** Proofs for C20 (placeholder, replaced by the real development). *)
