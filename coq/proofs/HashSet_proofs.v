(** Proofs for C20: the on-disk hash set (model/HashSet.v) refines the
    abstract set of model/HashSetSpec.v.  Axiom-free. *)
From W.lib Require Import Tree GoSort.
From W.model Require Import HashSet HashSetSpec.
From Coq Require Import Arith Lia ZifyNat ZifyN ZifyBool List NArith Bool.
From Coq Require Import Sorting.Sorted Sorting.Permutation.
Import ListNotations.
Local Open Scope N_scope.

(** [hash] is a transparent alias of [N]; make the two spellings agree before [lia]. *)
Ltac hlia := unfold hash in *; lia.

(* ------------------------------------------------------------------ *)
(** * 1. sort.Search *)

Lemma half_bounds : forall i j : nat, (i < j)%nat -> (i <= (i + j) / 2)%nat /\ ((i + j) / 2 < j)%nat.
Proof.
  intros i j Hij.
  pose proof (Nat.div_mod (i + j) 2 ltac:(lia)) as E.
  pose proof (Nat.mod_upper_bound (i + j) 2 ltac:(lia)) as B.
  lia.
Qed.

Section Search.
  Variable n : nat.
  Variable f : nat -> bool.
  Hypothesis mono : forall x y, (x <= y)%nat -> (y < n)%nat -> f x = true -> f y = true.

  Lemma search_loop_spec : forall fuel i j,
    (i <= j)%nat -> (j <= n)%nat -> (j - i < fuel)%nat ->
    (forall x, (x < i)%nat -> f x = false) ->
    (forall x, (j <= x)%nat -> (x < n)%nat -> f x = true) ->
    (i <= search_loop fuel f i j)%nat /\ (search_loop fuel f i j <= j)%nat /\
    (forall x, (x < search_loop fuel f i j)%nat -> f x = false) /\
    (forall x, (search_loop fuel f i j <= x)%nat -> (x < n)%nat -> f x = true).
  Proof.
    induction fuel as [|fuel IH]; intros i j Hij Hjn Hfuel Hlo Hhi.
    - lia.
    - cbn [search_loop].
      destruct (i <? j)%nat eqn:Eij.
      + apply Nat.ltb_lt in Eij.
        destruct (half_bounds i j Eij) as [Hh1 Hh2].
        set (h := ((i + j) / 2)%nat) in *.
        destruct (f h) eqn:Efh.
        * assert (Hhi' : forall x, (h <= x)%nat -> (x < n)%nat -> f x = true).
          { intros x Hx1 Hx2. apply (mono h x Hx1 Hx2 Efh). }
          destruct (IH i h Hh1 ltac:(lia) ltac:(lia) Hlo Hhi') as (A1 & A2 & A3 & A4).
          repeat split; try assumption; lia.
        * assert (Hlo' : forall x, (x < S h)%nat -> f x = false).
          { intros x Hx. destruct (f x) eqn:Efx; [|reflexivity].
            assert (Hc : f h = true) by (apply (mono x h); [lia|lia|exact Efx]).
            congruence. }
          destruct (IH (S h) j ltac:(lia) Hjn ltac:(lia) Hlo' Hhi) as (A1 & A2 & A3 & A4).
          repeat split; try assumption; lia.
      + apply Nat.ltb_ge in Eij.
        assert (Eij' : i = j) by lia. subst j.
        repeat split; try assumption; lia.
  Qed.

  Lemma search_spec :
    (search n f <= n)%nat /\
    (forall x, (x < search n f)%nat -> f x = false) /\
    (forall x, (search n f <= x)%nat -> (x < n)%nat -> f x = true).
  Proof.
    unfold search.
    destruct (search_loop_spec (S n) 0%nat n ltac:(lia) ltac:(lia) ltac:(lia)) as (A1 & A2 & A3 & A4).
    - intros x Hx. lia.
    - intros x Hx1 Hx2. lia.
    - repeat split; assumption.
  Qed.
End Search.

(* ------------------------------------------------------------------ *)
(** * 2. list helpers *)

Lemma nth_firstn_lt : forall (A : Type) (d : A) (l : list A) (n i : nat),
  (i < n)%nat -> nth i (firstn n l) d = nth i l d.
Proof.
  intros A d l. induction l as [|a l IH]; intros n i Hi.
  - rewrite firstn_nil. reflexivity.
  - destruct n as [|n]; [lia|]. destruct i as [|i]; cbn; [reflexivity|].
    apply IH. lia.
Qed.

Lemma nth_skipn_add : forall (A : Type) (d : A) (l : list A) (n i : nat),
  nth i (skipn n l) d = nth (n + i) l d.
Proof.
  intros A d l. induction l as [|a l IH]; intros n i.
  - rewrite skipn_nil. destruct i; destruct n; reflexivity.
  - destruct n as [|n]; cbn; [reflexivity|]. apply IH.
Qed.

Lemma In_firstn_nth : forall (A : Type) (d : A) (l : list A) (n : nat) (x : A),
  In x (firstn n l) -> exists i, (i < n)%nat /\ (i < length l)%nat /\ x = nth i l d.
Proof.
  intros A d l n x Hin.
  destruct (In_nth _ _ d Hin) as (i & Hi & Hx).
  rewrite firstn_length in Hi.
  exists i. repeat split; try lia.
  rewrite nth_firstn_lt in Hx by lia. congruence.
Qed.

Lemma In_skipn_nth : forall (A : Type) (d : A) (l : list A) (n : nat) (x : A),
  In x (skipn n l) -> exists i, (n <= i)%nat /\ (i < length l)%nat /\ x = nth i l d.
Proof.
  intros A d l n x Hin.
  destruct (In_nth _ _ d Hin) as (i & Hi & Hx).
  rewrite skipn_length in Hi.
  exists (n + i)%nat. repeat split; try lia.
  rewrite nth_skipn_add in Hx. congruence.
Qed.

Lemma skipn_skipn' : forall (A : Type) (x y : nat) (l : list A),
  skipn x (skipn y l) = skipn (y + x) l.
Proof.
  intros A x y. induction y as [|y IH]; intros l.
  - reflexivity.
  - destruct l as [|a l]; cbn.
    + apply skipn_nil.
    + apply IH.
Qed.

Lemma filter_length_le' : forall (A : Type) (p : A -> bool) (l : list A),
  (length (filter p l) <= length l)%nat.
Proof.
  intros A p l. induction l as [|a l IH]; cbn; [lia|].
  destruct (p a); cbn; lia.
Qed.

Lemma filter_length_mono : forall (A : Type) (p q : A -> bool) (l : list A),
  (forall x, p x = true -> q x = true) ->
  (length (filter p l) <= length (filter q l))%nat.
Proof.
  intros A p q l Hpq. induction l as [|a l IH]; cbn; [lia|].
  destruct (p a) eqn:Ep.
  - rewrite (Hpq a Ep). cbn. lia.
  - destruct (q a); cbn; lia.
Qed.

Lemma filter_length_perm : forall (A : Type) (p : A -> bool) (l l' : list A),
  Permutation l l' -> length (filter p l) = length (filter p l').
Proof.
  intros A p l l' HP. induction HP as [|x l l' HP IH|x y l|l l' l'' HP1 IH1 HP2 IH2]; cbn.
  - reflexivity.
  - destruct (p x); cbn; lia.
  - destruct (p x); destruct (p y); cbn; lia.
  - lia.
Qed.

Lemma nth_map_seq : forall (f : nat -> nat) (n a k d : nat),
  (k < n)%nat -> nth k (map f (seq a n)) d = f (a + k)%nat.
Proof.
  intros f n a k d Hk.
  rewrite (nth_indep _ d (f 0%nat)) by (rewrite map_length, seq_length; lia).
  rewrite map_nth. rewrite seq_nth by lia. reflexivity.
Qed.

(* ------------------------------------------------------------------ *)
(** * 3. sortedness *)

Notation SS := (StronglySorted N.le).

Lemma Sorted_SS : forall l, Sorted N.le l -> SS l.
Proof.
  intros l H. apply Sorted_StronglySorted; [|exact H].
  intros x y z Hxy Hyz. exact (N.le_trans _ _ _ Hxy Hyz).
Qed.

Lemma SS_Sorted : forall l, SS l -> Sorted N.le l.
Proof. intros l H. apply StronglySorted_Sorted. exact H. Qed.

Lemma SS_app_iff : forall l1 l2,
  SS (l1 ++ l2) <-> SS l1 /\ SS l2 /\ (forall x y, In x l1 -> In y l2 -> x <= y).
Proof.
  induction l1 as [|a l1 IH]; intros l2; cbn.
  - split.
    + intros H. repeat split; [constructor|exact H|intros x y []].
    + intros (_ & H & _). exact H.
  - split.
    + intros H. inversion H as [|a' l' Hss Hall]; subst.
      apply IH in Hss. destruct Hss as (S1 & S2 & S3).
      rewrite Forall_app in Hall. destruct Hall as [Ha1 Ha2].
      repeat split.
      * constructor; assumption.
      * assumption.
      * intros x y [Hx|Hx] Hy.
        -- subst x. rewrite Forall_forall in Ha2. apply Ha2. exact Hy.
        -- apply S3; assumption.
    + intros (S1 & S2 & S3). inversion S1 as [|a' l' Hss Hall]; subst.
      constructor.
      * apply IH. repeat split; try assumption.
        intros x y Hx Hy. apply S3; [right|]; assumption.
      * rewrite Forall_app. split; [assumption|].
        rewrite Forall_forall. intros y Hy. apply S3; [left; reflexivity|exact Hy].
Qed.

Lemma SS_firstn : forall n l, SS l -> SS (firstn n l).
Proof.
  intros n l H. rewrite <- (firstn_skipn n l) in H. apply SS_app_iff in H. tauto.
Qed.

Lemma SS_skipn : forall n l, SS l -> SS (skipn n l).
Proof.
  intros n l H. rewrite <- (firstn_skipn n l) in H. apply SS_app_iff in H. tauto.
Qed.

Lemma SS_nth : forall l, SS l -> forall i j,
  (i <= j)%nat -> (j < length l)%nat -> nth i l 0 <= nth j l 0.
Proof.
  intros l H. induction H as [|a l Hss IH Hall]; intros i j Hij Hj.
  - cbn in Hj. lia.
  - cbn in Hj. destruct i as [|i]; destruct j as [|j]; cbn.
    + apply N.le_refl.
    + rewrite Forall_forall in Hall. apply Hall. apply nth_In. lia.
    + lia.
    + apply IH; lia.
Qed.

(** insertion sort on hashes *)
Lemma ins_hash_perm : forall h l, Permutation (ins_hash h l) (h :: l).
Proof.
  intros h l. induction l as [|x l IH]; cbn.
  - apply Permutation_refl.
  - destruct (h <=? x).
    + apply Permutation_refl.
    + eapply perm_trans; [apply perm_skip; exact IH|apply perm_swap].
Qed.

Lemma sort_hashes_perm : forall l, Permutation (sort_hashes l) l.
Proof.
  induction l as [|a l IH]; cbn.
  - constructor.
  - eapply perm_trans; [apply ins_hash_perm|]. apply perm_skip. exact IH.
Qed.

Lemma ins_hash_SS : forall h l, SS l -> SS (ins_hash h l).
Proof.
  intros h l H. induction H as [|x l Hss IH Hall]; cbn.
  - constructor; constructor.
  - destruct (h <=? x) eqn:E.
    + apply N.leb_le in E. constructor.
      * constructor; assumption.
      * constructor; [exact E|].
        rewrite Forall_forall in *. intros y Hy. eapply N.le_trans; [exact E|apply Hall; exact Hy].
    + apply N.leb_gt in E. constructor; [exact IH|].
      rewrite Forall_forall in *. intros y Hy.
      apply (Permutation_in _ (ins_hash_perm h l)) in Hy.
      destruct Hy as [Hy|Hy]; [subst y; lia|apply Hall; exact Hy].
Qed.

Lemma sort_hashes_SS : forall l, SS (sort_hashes l).
Proof.
  induction l as [|a l IH]; cbn; [constructor|apply ins_hash_SS; exact IH].
Qed.

Lemma SS_perm_unique : forall l1 l2, SS l1 -> SS l2 -> Permutation l1 l2 -> l1 = l2.
Proof.
  induction l1 as [|a l1 IH]; intros l2 S1 S2 HP.
  - apply Permutation_nil in HP. congruence.
  - destruct l2 as [|b l2].
    + apply Permutation_sym, Permutation_nil in HP. discriminate.
    + inversion S1 as [|a' l1' S1' A1]; subst. inversion S2 as [|b' l2' S2' A2]; subst.
      rewrite Forall_forall in A1, A2.
      assert (Hab : a = b).
      { assert (Hb : In b (a :: l1)) by (apply (Permutation_in _ (Permutation_sym HP)); left; reflexivity).
        assert (Ha : In a (b :: l2)) by (apply (Permutation_in _ HP); left; reflexivity).
        destruct Hb as [Hb|Hb]; [congruence|]. destruct Ha as [Ha|Ha]; [congruence|].
        apply A1 in Hb. apply A2 in Ha. lia. }
      subst b. f_equal. apply IH; try assumption.
      eapply Permutation_cons_inv. exact HP.
Qed.

(** a sorted list splits along any downward-closed predicate *)
Definition downclosed (p : hash -> bool) : Prop :=
  forall x y, x <= y -> p y = true -> p x = true.

Lemma filter_all_false : forall (p : hash -> bool) l,
  (forall y, In y l -> p y = false) ->
  filter p l = [] /\ filter (fun x => negb (p x)) l = l.
Proof.
  intros p l. induction l as [|a l IH]; intros H; cbn.
  - split; reflexivity.
  - rewrite (H a) by (left; reflexivity). cbn.
    destruct IH as [I1 I2]; [intros y Hy; apply H; right; exact Hy|].
    split; [exact I1|f_equal; exact I2].
Qed.

Lemma SS_filter_split : forall p l, SS l -> downclosed p ->
  l = filter p l ++ filter (fun x => negb (p x)) l.
Proof.
  intros p l H Hp. induction H as [|a l Hss IH Hall]; cbn.
  - reflexivity.
  - destruct (p a) eqn:Ea; cbn.
    + f_equal. exact IH.
    + destruct (filter_all_false p l) as [I1 I2].
      { intros y Hy. rewrite Forall_forall in Hall. destruct (p y) eqn:Ey; [|reflexivity].
        rewrite (Hp a y (Hall y Hy) Ey) in Ea. discriminate. }
      rewrite I1, I2. reflexivity.
Qed.

Lemma SS_filter_nth : forall p l, SS l -> downclosed p ->
  (length (filter p l) <= length l)%nat /\
  (forall i, (i < length (filter p l))%nat -> p (nth i l 0) = true) /\
  (forall i, (length (filter p l) <= i)%nat -> (i < length l)%nat -> p (nth i l 0) = false).
Proof.
  intros p l H Hp.
  pose proof (SS_filter_split p l H Hp) as E.
  assert (H1 : forall x, In x (filter p l) -> p x = true).
  { intros x Hx. apply filter_In in Hx. tauto. }
  assert (H2 : forall x, In x (filter (fun x => negb (p x)) l) -> p x = false).
  { intros x Hx. apply filter_In in Hx. destruct Hx as [_ Hx]. destruct (p x); [discriminate|reflexivity]. }
  remember (filter p l) as L1 eqn:EL1. remember (filter (fun x => negb (p x)) l) as L2 eqn:EL2.
  clear EL1 EL2. subst l. rewrite app_length.
  split; [lia|]. split.
  - intros i Hi. rewrite app_nth1 by exact Hi. apply H1. apply nth_In. exact Hi.
  - intros i Hi1 Hi2. rewrite app_nth2 by lia. apply H2. apply nth_In. lia.
Qed.

(* ------------------------------------------------------------------ *)
(** * 4. first byte, fan-out table *)

Lemma pow120_nz : 2 ^ 120 <> 0.
Proof. apply N.pow_nonzero. discriminate. Qed.

Lemma fb_mono : forall h1 h2, h1 <= h2 -> (fb h1 <= fb h2)%nat.
Proof.
  intros h1 h2 H. unfold fb.
  pose proof (N.div_le_mono h1 h2 (2 ^ 120) pow120_nz H) as D. lia.
Qed.

Lemma fb_lt : forall h1 h2, (fb h1 < fb h2)%nat -> h1 < h2.
Proof.
  intros h1 h2 H. destruct (N.lt_ge_cases h1 h2) as [L|G]; [exact L|].
  apply fb_mono in G. lia.
Qed.

Lemma pow128_split : 2 ^ 128 = 2 ^ 120 * 256.
Proof. reflexivity. Qed.

Lemma fb_wf : forall h, wf_hash h -> (fb h < 256)%nat.
Proof.
  intros h H. unfold wf_hash in H. unfold fb.
  rewrite pow128_split in H.
  pose proof (N.div_lt_upper_bound h (2 ^ 120) 256 pow120_nz H) as D. lia.
Qed.

Definition cnt (l : list hash) (k : nat) : nat :=
  length (filter (fun h => (fb h <=? k)%nat) l).

Lemma spec_fanout_nth : forall l k, (k < 256)%nat -> nth k (spec_fanout l) 0%nat = cnt l k.
Proof.
  intros l k Hk. unfold spec_fanout. rewrite nth_map_seq by exact Hk. reflexivity.
Qed.

Lemma spec_fanout_perm : forall l l', Permutation l l' -> spec_fanout l = spec_fanout l'.
Proof.
  intros l l' HP. unfold spec_fanout. apply map_ext. intros k.
  apply filter_length_perm. exact HP.
Qed.

Lemma downclosed_fb_le : forall k, downclosed (fun h => (fb h <=? k)%nat).
Proof.
  intros k x y Hxy Hy. apply Nat.leb_le in Hy. apply Nat.leb_le.
  pose proof (fb_mono x y Hxy). lia.
Qed.

Lemma downclosed_fb_lt : forall k, downclosed (fun h => (fb h <? k)%nat).
Proof.
  intros k x y Hxy Hy. apply Nat.ltb_lt in Hy. apply Nat.ltb_lt.
  pose proof (fb_mono x y Hxy). lia.
Qed.

(* ------------------------------------------------------------------ *)
(** * 5. insertIndex / indexOf *)

Definition is_pos (A : list hash) (b : hash) (o : nat) : Prop :=
  (o <= length A)%nat /\
  (forall i, (i < o)%nat -> nth i A 0 < b) /\
  (forall i, (o <= i)%nat -> (i < length A)%nat -> b <= nth i A 0).

Lemma start_ind_eq : forall tbl k, (k < 256)%nat ->
  (if Nat.eqb k 0 then 0%nat else nth (k - 1) (spec_fanout tbl) 0%nat)
  = length (filter (fun h => (fb h <? k)%nat) tbl).
Proof.
  intros tbl k Hk. destruct (Nat.eqb k 0) eqn:E.
  - apply Nat.eqb_eq in E. subst k.
    induction tbl as [|a tbl IH]; cbn [filter length]; [reflexivity|].
    replace (fb a <? 0)%nat with false by (symmetry; apply Nat.ltb_ge; lia). exact IH.
  - apply Nat.eqb_neq in E. rewrite spec_fanout_nth by lia. unfold cnt.
    f_equal. apply filter_ext. intros h.
    destruct (fb h <=? k - 1)%nat eqn:E1; destruct (fb h <? k)%nat eqn:E2; try reflexivity.
    + apply Nat.leb_le in E1. apply Nat.ltb_ge in E2. lia.
    + apply Nat.leb_gt in E1. apply Nat.ltb_lt in E2. lia.
Qed.

Lemma insert_index_spec : forall (tbl : list hash) b, SS tbl -> wf_hash b ->
  exists o, insert_index (spec_fanout tbl) tbl b = Some o /\ is_pos tbl b o.
Proof.
  intros tbl b Hss Hwf.
  pose proof (fb_wf b Hwf) as Hk.
  unfold insert_index. cbv zeta.
  rewrite (start_ind_eq tbl (fb b) Hk).
  rewrite (spec_fanout_nth tbl (fb b) Hk). unfold cnt.
  destruct (SS_filter_nth _ tbl Hss (downclosed_fb_lt (fb b))) as (S1 & S2 & S3).
  destruct (SS_filter_nth _ tbl Hss (downclosed_fb_le (fb b))) as (E1 & E2 & E3).
  assert (Hse : (length (filter (fun h => (fb h <? fb b)%nat) tbl)
                 <= length (filter (fun h => (fb h <=? fb b)%nat) tbl))%nat).
  { apply filter_length_mono. intros x Hx. apply Nat.ltb_lt in Hx. apply Nat.leb_le. hlia. }
  set (s := length (filter (fun h => (fb h <? fb b)%nat) tbl)) in *.
  set (e := length (filter (fun h => (fb h <=? fb b)%nat) tbl)) in *.
  assert (Hlow : forall i, (i < s)%nat -> nth i tbl 0 < b).
  { intros i Hi. apply fb_lt. apply S2 in Hi. apply Nat.ltb_lt in Hi. exact Hi. }
  assert (Hhigh : forall i, (e <= i)%nat -> (i < length tbl)%nat -> b <= nth i tbl 0).
  { intros i Hi1 Hi2. apply N.lt_le_incl. apply fb_lt.
    pose proof (E3 i Hi1 Hi2) as F. apply Nat.leb_gt in F. exact F. }
  clearbody s e.
  destruct (Nat.eqb s e) eqn:Ese.
  - apply Nat.eqb_eq in Ese. exists s. split; [reflexivity|].
    split; [exact S1|]. split; [exact Hlow|].
    intros i Hi1 Hi2. apply Hhigh; [hlia|exact Hi2].
  - apply Nat.eqb_neq in Ese.
    replace (length tbl <? e)%nat with false by (symmetry; apply Nat.ltb_ge; exact E1).
    set (f := fun pos : nat => b <=? nth (s + pos) tbl 0).
    assert (Hmono : forall x y, (x <= y)%nat -> (y < e - s)%nat -> f x = true -> f y = true).
    { intros x y Hxy Hy Hfx. unfold f in *. apply N.leb_le in Hfx. apply N.leb_le.
      eapply N.le_trans; [exact Hfx|]. apply SS_nth; [exact Hss|hlia|hlia]. }
    destruct (search_spec (e - s) f Hmono) as (P1 & P2 & P3).
    set (p := search (e - s) f) in *.
    exists (s + p)%nat. split; [reflexivity|].
    split; [hlia|]. split.
    + intros i Hi. destruct (Nat.lt_ge_cases i s) as [L|G]; [apply Hlow; exact L|].
      assert (Hf : f (i - s)%nat = false) by (apply P2; hlia).
      unfold f in Hf. replace (s + (i - s))%nat with i in Hf by hlia.
      apply N.leb_gt in Hf. exact Hf.
    + intros i Hi1 Hi2. destruct (Nat.lt_ge_cases i e) as [L|G]; [|apply Hhigh; assumption].
      assert (Hf : f (i - s)%nat = true) by (apply P3; hlia).
      unfold f in Hf. replace (s + (i - s))%nat with i in Hf by hlia.
      apply N.leb_le in Hf. exact Hf.
Qed.

Lemma mem_In : forall h l, mem h l = true <-> In h l.
Proof.
  intros h l. unfold mem. rewrite existsb_exists. split.
  - intros (x & Hx & E). apply N.eqb_eq in E. subst x. exact Hx.
  - intros H. exists h. split; [exact H|apply N.eqb_refl].
Qed.

Lemma mem_perm : forall h l l', Permutation l l' -> mem h l = mem h l'.
Proof.
  intros h l l' HP. destruct (mem h l) eqn:E1; destruct (mem h l') eqn:E2; try reflexivity.
  - apply mem_In in E1. apply (Permutation_in _ HP) in E1. apply mem_In in E1. congruence.
  - apply mem_In in E2. apply (Permutation_in _ (Permutation_sym HP)) in E2. apply mem_In in E2. congruence.
Qed.

Lemma index_of_spec : forall (tbl : list hash) b, SS tbl -> wf_hash b ->
  exists r, index_of (spec_fanout tbl) tbl b = Some r /\
            (match r with Some _ => true | None => false end) = mem b tbl.
Proof.
  intros tbl b Hss Hwf.
  destruct (insert_index_spec tbl b Hss Hwf) as (o & Ho & Hle & Hlow & Hhigh).
  unfold index_of. rewrite Ho.
  destruct (nth_error tbl o) as [h|] eqn:En.
  - assert (Hol : (o < length tbl)%nat) by (apply nth_error_Some; congruence).
    assert (Hh : nth o tbl 0 = h) by (apply nth_error_nth; exact En).
    destruct (h =? b) eqn:Eh.
    + apply N.eqb_eq in Eh. exists (Some o). split; [reflexivity|].
      symmetry. apply mem_In. rewrite <- Eh, <- Hh. apply nth_In. exact Hol.
    + apply N.eqb_neq in Eh. exists None. split; [reflexivity|].
      symmetry. destruct (mem b tbl) eqn:Em; [|reflexivity]. exfalso.
      apply mem_In in Em. destruct (In_nth _ _ 0 Em) as (i & Hi & Hb).
      destruct (Nat.lt_ge_cases i o) as [L|G].
      * apply Hlow in L. hlia.
      * pose proof (SS_nth tbl Hss o i G Hi) as Q.
        pose proof (Hhigh o (Nat.le_refl o) Hol) as Q'. hlia.
  - apply nth_error_None in En. exists None. split; [reflexivity|].
    symmetry. destruct (mem b tbl) eqn:Em; [|reflexivity]. exfalso.
    apply mem_In in Em. destruct (In_nth _ _ 0 Em) as (i & Hi & Hb).
    assert (L : (i < o)%nat) by hlia. apply Hlow in L. hlia.
Qed.

(* ------------------------------------------------------------------ *)
(** * 6. file writes: upd, shift_loop, write_group *)

Lemma upd_app : forall (P : list hash) i h t, upd (length P + i) h (P ++ t) = P ++ upd i h t.
Proof.
  induction P as [|a P IH]; intros i h t; cbn.
  - reflexivity.
  - f_equal. apply IH.
Qed.

Lemma skipn_upd : forall i h t, skipn i (upd i h t) = h :: skipn (S i) t.
Proof.
  induction i as [|i IH]; intros h t; destruct t as [|x t]; cbn [upd skipn].
  - reflexivity.
  - reflexivity.
  - rewrite IH. rewrite skipn_nil. reflexivity.
  - rewrite IH. reflexivity.
Qed.

Lemma upd_decomp : forall i h t, exists Q, length Q = i /\ upd i h t = Q ++ h :: skipn (S i) t.
Proof.
  induction i as [|i IH]; intros h t; destruct t as [|x t]; cbn [upd].
  - exists []. split; reflexivity.
  - exists []. split; reflexivity.
  - destruct (IH h []) as (Q & HQ & E). exists (0 :: Q). split; [cbn; lia|].
    rewrite E. rewrite !skipn_nil. reflexivity.
  - destruct (IH h t) as (Q & HQ & E). exists (x :: Q). split; [cbn; lia|].
    rewrite E. reflexivity.
Qed.

Lemma skipn_upd_self : forall delta x R, skipn delta (upd delta x (x :: R)) = x :: skipn delta R.
Proof.
  intros delta x R. destruct delta as [|d].
  - reflexivity.
  - cbn [upd]. cbn [skipn]. apply skipn_upd.
Qed.

Lemma list_last_split : forall (M : list hash) k, length M = S k ->
  exists M' x, M = M' ++ [x] /\ length M' = k.
Proof.
  intros M k HM. destruct (exists_last (l := M)) as (M' & x & E).
  - intros E. subst M. discriminate.
  - exists M', x. split; [exact E|]. subst M. rewrite app_length in HM. cbn in HM. lia.
Qed.

Lemma shift_loop_spec : forall k off delta (P M R : list hash),
  length P = off -> length M = k ->
  exists X, shift_loop k off delta (P ++ M ++ R) = Some (P ++ X) /\
            skipn delta X = M ++ skipn delta R.
Proof.
  induction k as [|k IH]; intros off delta P M R HP HM.
  - destruct M; [|discriminate]. exists R. split; reflexivity.
  - destruct (list_last_split M k HM) as (M' & x & EM & HM'). subst M.
    cbn [shift_loop].
    assert (En : nth_error (P ++ (M' ++ [x]) ++ R) (off + k) = Some x).
    { rewrite nth_error_app2 by lia. rewrite <- app_assoc.
      rewrite nth_error_app2 by lia.
      replace (off + k - length P - length M')%nat with 0%nat by lia. reflexivity. }
    rewrite En.
    assert (Eu : upd (delta + (off + k)) x (P ++ (M' ++ [x]) ++ R)
                 = P ++ M' ++ upd delta x (x :: R)).
    { replace (delta + (off + k))%nat with (length P + (length M' + delta))%nat by lia.
      rewrite upd_app. rewrite <- app_assoc. rewrite upd_app. reflexivity. }
    rewrite Eu.
    destruct (IH off delta P M' (upd delta x (x :: R)) HP HM') as (X & EX & HX).
    exists X. split; [exact EX|].
    rewrite HX. rewrite skipn_upd_self. rewrite <- app_assoc. reflexivity.
Qed.

Lemma write_group_app : forall hs (P : list hash) d t,
  write_group (length P + d) hs (P ++ t) = P ++ write_group d hs t.
Proof.
  induction hs as [|h hs IH]; intros P d t; cbn [write_group].
  - reflexivity.
  - rewrite upd_app. rewrite plus_n_Sm. apply IH.
Qed.

Lemma skipn_write_group : forall hs d t,
  skipn d (write_group d hs t) = hs ++ skipn (d + length hs) t.
Proof.
  induction hs as [|h hs IH]; intros d t; cbn [write_group].
  - cbn. rewrite Nat.add_0_r. reflexivity.
  - destruct (upd_decomp d h t) as (Q & HQ & E). rewrite E.
    replace (Q ++ h :: skipn (S d) t) with ((Q ++ [h]) ++ skipn (S d) t)
      by (rewrite <- app_assoc; reflexivity).
    replace (S d) with (length (Q ++ [h]) + 0)%nat at 1
      by (rewrite app_length; cbn; lia).
    rewrite write_group_app. rewrite <- app_assoc.
    replace d with (length Q + 0)%nat at 1 by lia.
    rewrite skipn_app. rewrite skipn_all2 by lia.
    replace (length Q + 0 - length Q)%nat with 0%nat by lia.
    rewrite skipn_O. cbn [app]. f_equal.
    pose proof (IH 0%nat (skipn (S d) t)) as I. rewrite skipn_O in I. rewrite I.
    f_equal. rewrite skipn_skipn'. f_equal. cbn [length]. lia.
Qed.

(* ------------------------------------------------------------------ *)
(** * 7. apply_groups computes merge_at *)

Fixpoint merge_at (gs : list (nat * list hash)) (A : list hash) : list hash :=
  match gs with
  | [] => A
  | (off, hs0) :: gs' => merge_at gs' (firstn off A) ++ sort_hashes hs0 ++ skipn off A
  end.

Definition total (gs : list (nat * list hash)) : nat := length (concat (map snd gs)).

Lemma sort_hashes_length : forall l, length (sort_hashes l) = length l.
Proof. intros l. apply Permutation_length. apply sort_hashes_perm. Qed.

Definition desc (gs : list (nat * list hash)) : Prop :=
  StronglySorted (fun x y => (fst y < fst x)%nat) gs.

Lemma apply_groups_spec : forall gs e (t : list hash),
  (e <= length t)%nat -> desc gs -> Forall (fun g => (fst g <= e)%nat) gs ->
  apply_groups gs e (e + total gs) t
  = Some (merge_at gs (firstn e t) ++ skipn (e + total gs) t).
Proof.
  induction gs as [|[off hs0] gs' IH]; intros e t Hlen Hd Hle.
  - cbn [apply_groups merge_at]. unfold total. cbn. rewrite Nat.add_0_r, firstn_skipn. reflexivity.
  - cbn [apply_groups merge_at].
    inversion Hd as [|g0 gs0 Hd' Hlt]; subst. inversion Hle as [|g1 gs1 Hoff Hle']; subst.
    cbn [fst] in *.
    assert (Htot : total ((off, hs0) :: gs') = (length hs0 + total gs')%nat).
    { unfold total. cbn [map snd concat]. rewrite app_length. reflexivity. }
    rewrite Htot. rewrite sort_hashes_length.
    set (D := total gs') in *.
    set (P := firstn off t). set (M := skipn off (firstn e t)). set (R := skipn e t).
    assert (HP : length P = off) by (unfold P; apply firstn_length_le; lia).
    assert (HM : length M = (e - off)%nat).
    { unfold M. rewrite skipn_length, firstn_length_le by lia. reflexivity. }
    assert (Ht : t = P ++ M ++ R).
    { unfold P, M, R. rewrite <- (firstn_skipn e t) at 1.
      rewrite <- (firstn_skipn off (firstn e t)) at 1.
      rewrite firstn_firstn. rewrite Nat.min_l by lia. rewrite <- app_assoc. reflexivity. }
    assert (Hfe : firstn e t = P ++ M).
    { unfold P, M. rewrite <- (firstn_skipn off (firstn e t)) at 1.
      rewrite firstn_firstn. rewrite Nat.min_l by lia. reflexivity. }
    replace (e + (length hs0 + D) - e)%nat with (length hs0 + D)%nat by lia.
    destruct (shift_loop_spec (e - off) off (length hs0 + D) P M R HP HM) as (X & EX & HX).
    rewrite Ht at 1. rewrite EX.
    replace (length hs0 + D + off - length hs0)%nat with (length P + D)%nat by lia.
    rewrite write_group_app.
    assert (Hsk : skipn D (write_group D (sort_hashes hs0) X)
                  = sort_hashes hs0 ++ M ++ skipn (length hs0 + D) R).
    { rewrite skipn_write_group. rewrite sort_hashes_length.
      replace (D + length hs0)%nat with (length hs0 + D)%nat by lia. rewrite HX. reflexivity. }
    set (X' := write_group D (sort_hashes hs0) X) in *.
    rewrite <- HP at 1. 
    assert (Hle2 : Forall (fun g => (fst g <= length P)%nat) gs').
    { rewrite HP. eapply Forall_impl; [|exact Hlt]. intros g Hg. cbn in Hg. lia. }
    rewrite (IH (length P) (P ++ X') ltac:(rewrite app_length; lia) Hd' Hle2).
    f_equal.
    rewrite firstn_app. rewrite Nat.sub_diag. rewrite firstn_all. cbn [firstn]. rewrite app_nil_r.
    rewrite skipn_app. rewrite skipn_all2 by lia.
    replace (length P + D - length P)%nat with D by lia. cbn [app].
    rewrite Hsk. rewrite Hfe. rewrite firstn_app. rewrite HP.
    rewrite firstn_all2 by lia. replace (off - off)%nat with 0%nat by lia.
    cbn [firstn]. rewrite app_nil_r.
    rewrite <- !app_assoc. f_equal. f_equal. f_equal.
    unfold R. rewrite skipn_skipn'. reflexivity.
Qed.

(* ------------------------------------------------------------------ *)
(** * 8. merge_at is a sorted permutation *)

Lemma merge_at_perm : forall gs A,
  Permutation (merge_at gs A) (A ++ concat (map snd gs)).
Proof.
  induction gs as [|[off hs0] gs' IH]; intros A; cbn [merge_at map snd concat].
  - rewrite app_nil_r. apply Permutation_refl.
  - eapply perm_trans.
    + apply Permutation_app; [apply IH|].
      apply Permutation_app; [apply sort_hashes_perm|apply Permutation_refl].
    + rewrite <- (firstn_skipn off A) at 3.
      set (F := firstn off A). set (K := skipn off A). set (C := concat (map snd gs')).
      rewrite <- !app_assoc. apply Permutation_app_head.
      eapply perm_trans; [apply Permutation_app_comm|].
      rewrite (app_assoc K hs0 C). apply Permutation_app_tail.
      apply Permutation_app_comm.
Qed.

Definition group_ok (A : list hash) (g : nat * list hash) : Prop :=
  (fst g <= length A)%nat /\ forall b, In b (snd g) -> is_pos A b (fst g).

Lemma is_pos_firstn : forall A b o off,
  (o < off)%nat -> (off <= length A)%nat -> is_pos A b o -> is_pos (firstn off A) b o.
Proof.
  intros A b o off Ho Hoff (H1 & H2 & H3).
  unfold is_pos. rewrite firstn_length_le by exact Hoff.
  split; [lia|]. split.
  - intros i Hi. rewrite nth_firstn_lt by lia. apply H2. exact Hi.
  - intros i Hi1 Hi2. rewrite nth_firstn_lt by lia. apply H3; lia.
Qed.

Lemma merge_at_sorted : forall gs (A : list hash),
  SS A -> desc gs -> Forall (group_ok A) gs -> SS (merge_at gs A).
Proof.
  induction gs as [|[off hs0] gs' IH]; intros A HA Hd Hok; cbn [merge_at].
  - exact HA.
  - inversion Hd as [|g0 gs0 Hd' Hlt]; subst. inversion Hok as [|g1 gs1 Hg Hok']; subst.
    destruct Hg as [Hoff Hpos]. cbn [fst snd] in *.
    rewrite Forall_forall in Hlt, Hok'.
    assert (Hok2 : Forall (group_ok (firstn off A)) gs').
    { rewrite Forall_forall. intros g Hg. specialize (Hlt g Hg). cbn [fst] in Hlt.
      destruct (Hok' g Hg) as [Q1 Q2]. split.
      - rewrite firstn_length_le by exact Hoff. lia.
      - intros b Hb. apply is_pos_firstn; [exact Hlt|exact Hoff|apply Q2; exact Hb]. }
    apply SS_app_iff. split; [apply IH; [apply SS_firstn; exact HA|exact Hd'|exact Hok2]|].
    split.
    + apply SS_app_iff. split; [apply sort_hashes_SS|]. split; [apply SS_skipn; exact HA|].
      intros x y Hx Hy.
      apply (Permutation_in _ (sort_hashes_perm hs0)) in Hx.
      destruct (In_skipn_nth _ 0 _ _ _ Hy) as (j & Hj1 & Hj2 & Ey). subst y.
      destruct (Hpos x Hx) as (_ & _ & P3). apply P3; assumption.
    + intros x y Hx Hy.
      apply (Permutation_in _ (merge_at_perm gs' (firstn off A))) in Hx.
      (* classify y *)
      assert (Hy' : (In y hs0) \/ exists j, (off <= j)%nat /\ (j < length A)%nat /\ y = nth j A 0).
      { apply in_app_or in Hy. destruct Hy as [Hy|Hy].
        - left. apply (Permutation_in _ (sort_hashes_perm hs0)). exact Hy.
        - right. apply (In_skipn_nth _ 0 _ _ _ Hy). }
      apply in_app_or in Hx. destruct Hx as [Hx|Hx].
      * destruct (In_firstn_nth _ 0 _ _ _ Hx) as (i & Hi1 & Hi2 & Ex). subst x.
        destruct Hy' as [Hy'|(j & Hj1 & Hj2 & Ey)].
        -- destruct (Hpos y Hy') as (_ & P2 & _). apply N.lt_le_incl. apply P2. exact Hi1.
        -- subst y. apply SS_nth; [exact HA|lia|exact Hj2].
      * apply in_concat in Hx. destruct Hx as (G & HG & HxG).
        apply in_map_iff in HG. destruct HG as (g & Eg & Hg). subst G.
        pose proof (Hlt g Hg) as Hlt'. cbn [fst] in Hlt'.
        destruct (Hok' g Hg) as [Q1 Q2]. destruct (Q2 x HxG) as (_ & _ & X3).
        destruct Hy' as [Hy'|(j & Hj1 & Hj2 & Ey)].
        -- destruct (Hpos y Hy') as (_ & P2 & _).
           pose proof (X3 (fst g) (Nat.le_refl _) ltac:(lia)) as B1.
           pose proof (P2 (fst g) Hlt') as B2. hlia.
        -- subst y. apply X3; [lia|exact Hj2].
Qed.

(* ------------------------------------------------------------------ *)
(** * 9. grouping *)

Definition groups_inv (A : list hash) (gs : list (nat * list hash)) : Prop :=
  NoDup (map fst gs) /\ Forall (group_ok A) gs.

Lemma group_add_fst : forall off b gs o,
  In o (map fst (group_add off b gs)) <-> o = off \/ In o (map fst gs).
Proof.
  intros off b gs o. induction gs as [|[o' l] gs IH]; cbn [group_add map fst In].
  - split; [intros [H|[]]; left; congruence|intros [H|[]]; left; congruence].
  - destruct (Nat.eqb o' off) eqn:E; cbn [map fst In].
    + apply Nat.eqb_eq in E. subst o'. split; [intros [H|H]; [left; congruence|right; right; exact H]|].
      intros [H|[H|H]]; [left; congruence|left; exact H|right; exact H].
    + rewrite IH. tauto.
Qed.

Lemma group_add_inv : forall A off b gs,
  groups_inv A gs -> is_pos A b off -> groups_inv A (group_add off b gs).
Proof.
  intros A off b gs [Hnd Hok] Hpos. induction gs as [|[o l] gs IH]; cbn [group_add].
  - split.
    + cbn. constructor; [intros []|constructor].
    + constructor; [|constructor]. split; cbn [fst snd].
      * destruct Hpos as [H _]. exact H.
      * intros b' [Hb|[]]. subst b'. exact Hpos.
  - cbn [map fst] in Hnd. inversion Hnd as [|o0 os Hnin Hnd']; subst.
    inversion Hok as [|g0 gs0 Hg Hok']; subst.
    destruct (Nat.eqb o off) eqn:E.
    + apply Nat.eqb_eq in E. subst o. split; [cbn [map fst]; exact Hnd|].
      constructor; [|exact Hok']. destruct Hg as [G1 G2]. split; [exact G1|].
      cbn [fst snd] in *. intros b' Hb'. apply in_app_or in Hb'.
      destruct Hb' as [Hb'|[Hb'|[]]]; [apply G2; exact Hb'|subst b'; exact Hpos].
    + apply Nat.eqb_neq in E. destruct (IH Hnd' Hok') as [I1 I2]. split.
      * cbn [map fst]. constructor; [|exact I1].
        rewrite group_add_fst. intros [H|H]; [congruence|contradiction].
      * constructor; assumption.
Qed.

Lemma group_add_perm : forall off b gs,
  Permutation (concat (map snd (group_add off b gs))) (b :: concat (map snd gs)).
Proof.
  intros off b gs. induction gs as [|[o l] gs IH]; cbn [group_add].
  - cbn. apply Permutation_refl.
  - destruct (Nat.eqb o off); cbn [map snd concat].
    + rewrite <- app_assoc. cbn [app]. apply Permutation_sym. apply Permutation_middle.
    + eapply perm_trans; [apply Permutation_app_head; exact IH|].
      apply Permutation_sym. apply Permutation_middle.
Qed.

Lemma make_groups_spec : forall (tbl : list hash) bs gs0,
  SS tbl -> Forall wf_hash bs -> groups_inv tbl gs0 ->
  exists gs, make_groups (spec_fanout tbl) tbl bs gs0 = Some gs /\ groups_inv tbl gs /\
             Permutation (concat (map snd gs)) (concat (map snd gs0) ++ bs).
Proof.
  intros tbl bs. induction bs as [|b bs IH]; intros gs0 Hss Hwf Hinv; cbn [make_groups].
  - exists gs0. split; [reflexivity|]. split; [exact Hinv|]. rewrite app_nil_r. apply Permutation_refl.
  - inversion Hwf as [|b0 bs0 Hb Hwf']; subst.
    destruct (insert_index_spec tbl b Hss Hb) as (o & Eo & Hpos). rewrite Eo.
    destruct (IH (group_add o b gs0) Hss Hwf' (group_add_inv tbl o b gs0 Hinv Hpos)) as (gs & E & I & HP).
    exists gs. split; [exact E|]. split; [exact I|].
    eapply perm_trans; [exact HP|].
    eapply perm_trans; [apply Permutation_app_tail; apply group_add_perm|].
    cbn [app]. apply Permutation_middle.
Qed.

Lemma ins_group_perm : forall g l, Permutation (ins_group g l) (g :: l).
Proof.
  intros g l. induction l as [|x l IH]; cbn.
  - apply Permutation_refl.
  - destruct (fst x <=? fst g)%nat.
    + apply Permutation_refl.
    + eapply perm_trans; [apply perm_skip; exact IH|apply perm_swap].
Qed.

Lemma sort_groups_perm : forall l, Permutation (sort_groups_desc l) l.
Proof.
  induction l as [|a l IH]; cbn.
  - constructor.
  - eapply perm_trans; [apply ins_group_perm|]. apply perm_skip. exact IH.
Qed.

Definition desc_le (gs : list (nat * list hash)) : Prop :=
  StronglySorted (fun x y => (fst y <= fst x)%nat) gs.

Lemma ins_group_desc : forall g l, desc_le l -> desc_le (ins_group g l).
Proof.
  intros g l H. induction H as [|x l Hss IH Hall]; cbn.
  - constructor; constructor.
  - destruct (fst x <=? fst g)%nat eqn:E.
    + apply Nat.leb_le in E. constructor.
      * constructor; assumption.
      * constructor; [exact E|].
        rewrite Forall_forall in *. intros y Hy. specialize (Hall y Hy). lia.
    + apply Nat.leb_gt in E. constructor; [exact IH|].
      rewrite Forall_forall in *. intros y Hy.
      apply (Permutation_in _ (ins_group_perm g l)) in Hy.
      destruct Hy as [Hy|Hy]; [subst y; lia|apply Hall; exact Hy].
Qed.

Lemma sort_groups_desc_le : forall l, desc_le (sort_groups_desc l).
Proof.
  induction l as [|a l IH]; cbn; [constructor|apply ins_group_desc; exact IH].
Qed.

Lemma desc_le_nodup : forall gs, desc_le gs -> NoDup (map fst gs) -> desc gs.
Proof.
  intros gs H. induction H as [|x l Hss IH Hall]; intros Hnd.
  - constructor.
  - cbn [map] in Hnd. inversion Hnd as [|o os Hnin Hnd']; subst.
    constructor; [apply IH; exact Hnd'|].
    rewrite Forall_forall in *. intros y Hy. specialize (Hall y Hy).
    assert (Hne : fst y <> fst x) by (intros E; apply Hnin; rewrite <- E; apply in_map; exact Hy).
    lia.
Qed.

Lemma concat_snd_perm : forall (l l' : list (nat * list hash)),
  Permutation l l' -> Permutation (concat (map snd l)) (concat (map snd l')).
Proof.
  intros l l' HP. induction HP as [|x l l' HP IH|x y l|l l' l'' HP1 IH1 HP2 IH2]; cbn [map concat].
  - constructor.
  - apply Permutation_app_head. exact IH.
  - rewrite !app_assoc. apply Permutation_app_tail. apply Permutation_app_comm.
  - eapply perm_trans; eassumption.
Qed.

(* ------------------------------------------------------------------ *)
(** * 10. fan-out update *)

Lemma bump_from_map_seq : forall n a k (f : nat -> nat),
  bump_from k (map f (seq a n))
  = map (fun i => if (a + k <=? i)%nat then S (f i) else f i) (seq a n).
Proof.
  induction n as [|n IH]; intros a k f; cbn [seq map bump_from].
  - reflexivity.
  - destruct k as [|k].
    + replace (a + 0 <=? a)%nat with true by (symmetry; apply Nat.leb_le; lia).
      f_equal. rewrite IH. apply map_ext_in. intros i Hi. apply in_seq in Hi.
      replace (S a + 0 <=? i)%nat with true by (symmetry; apply Nat.leb_le; lia).
      replace (a + 0 <=? i)%nat with true by (symmetry; apply Nat.leb_le; lia).
      reflexivity.
    + replace (a + S k <=? a)%nat with false by (symmetry; apply Nat.leb_gt; lia).
      f_equal. rewrite IH. apply map_ext. intros i.
      replace (S a + k)%nat with (a + S k)%nat by lia. reflexivity.
Qed.

Lemma bump_from_spec : forall b l, bump_from (fb b) (spec_fanout l) = spec_fanout (b :: l).
Proof.
  intros b l. unfold spec_fanout. rewrite bump_from_map_seq. apply map_ext. intros k.
  cbn [filter plus]. destruct (fb b <=? k)%nat; reflexivity.
Qed.

Lemma add_to_fanout_spec : forall bs t t',
  Permutation t' (t ++ bs) -> add_to_fanout (spec_fanout t) bs = spec_fanout t'.
Proof.
  induction bs as [|b bs IH]; intros t t' HP; unfold add_to_fanout; cbn [fold_left].
  - rewrite app_nil_r in HP. apply spec_fanout_perm. apply Permutation_sym. exact HP.
  - rewrite bump_from_spec. apply IH.
    eapply perm_trans; [exact HP|]. apply Permutation_sym. apply Permutation_middle.
Qed.

(* ------------------------------------------------------------------ *)
(** * 11. flush *)

Lemma Forall_wf_perm : forall l l' : list hash,
  Permutation l l' -> Forall wf_hash l -> Forall wf_hash l'.
Proof.
  intros l l' HP H. rewrite Forall_forall in *. intros x Hx.
  apply H. apply (Permutation_in _ (Permutation_sym HP)). exact Hx.
Qed.

Lemma add_to_hash_table_spec : forall s, HS_inv s ->
  exists t, add_to_hash_table s = Some t /\ SS t /\ Permutation t (table s ++ batch s).
Proof.
  intros s (Hlen & Hsorted & Hfan & Hwt & Hwb).
  apply Sorted_SS in Hsorted.
  unfold add_to_hash_table. rewrite Hfan.
  assert (Hinv0 : groups_inv (table s) []).
  { split; [constructor|constructor]. }
  destruct (make_groups_spec (table s) (batch s) [] Hsorted Hwb Hinv0) as (gs & Eg & [Hnd Hok] & HP).
  rewrite Eg. cbn [map concat app] in HP.
  set (gs' := sort_groups_desc gs).
  pose proof (sort_groups_perm gs) as HPg. fold gs' in HPg.
  assert (Hd : desc gs').
  { apply desc_le_nodup; [apply sort_groups_desc_le|].
    eapply Permutation_NoDup; [|exact Hnd].
    apply Permutation_map. apply Permutation_sym. exact HPg. }
  assert (Hok' : Forall (group_ok (table s)) gs').
  { rewrite Forall_forall in *. intros g Hg. apply Hok. apply (Permutation_in _ HPg). exact Hg. }
  assert (HPc : Permutation (concat (map snd gs')) (batch s)).
  { eapply perm_trans; [apply concat_snd_perm; exact HPg|exact HP]. }
  assert (Htot : total gs' = length (batch s)).
  { unfold total. apply Permutation_length. exact HPc. }
  assert (Hle : Forall (fun g => (fst g <= size s)%nat) gs').
  { rewrite <- Hlen. eapply Forall_impl; [|exact Hok']. intros g [Hg _]. exact Hg. }
  rewrite <- Htot.
  rewrite (apply_groups_spec gs' (size s) (table s) ltac:(lia) Hd Hle).
  rewrite <- Hlen. rewrite firstn_all. rewrite skipn_all2 by lia. rewrite app_nil_r.
  eexists. split; [reflexivity|]. split.
  - apply merge_at_sorted; assumption.
  - eapply perm_trans; [apply merge_at_perm|]. apply Permutation_app_head. exact HPc.
Qed.

Lemma flush_spec : forall s, HS_inv s ->
  exists s', flush s = Some s' /\ HS_inv s' /\
     Permutation (table s') (table s ++ batch s) /\ batch s' = [] /\
     size s' = (size s + length (batch s))%nat /\ bsz s' = bsz s.
Proof.
  intros s Hinv.
  destruct (add_to_hash_table_spec s Hinv) as (t & Et & Hss & HP).
  destruct Hinv as (Hlen & Hsorted & Hfan & Hwt & Hwb).
  unfold flush. rewrite Et. eexists. split; [reflexivity|].
  unfold HS_inv. cbn [table batch size bsz fanout]. repeat split.
  - pose proof (Permutation_length HP) as L. rewrite app_length in L. hlia.
  - apply SS_Sorted. exact Hss.
  - rewrite Hfan. apply add_to_fanout_spec. exact HP.
  - apply (Forall_wf_perm _ _ (Permutation_sym HP)). apply Forall_app. split; assumption.
  - constructor.
  - exact HP.
Qed.

Lemma flush_merge : forall s,
  HS_inv s -> exists s', flush s = Some s' /\ HS_inv s' /\
     Permutation (table s') (table s ++ batch s) /\ batch s' = [] /\
     size s' = (size s + length (batch s))%nat.
Proof.
  intros s Hinv. destruct (flush_spec s Hinv) as (s' & H1 & H2 & H3 & H4 & H5 & _).
  exists s'. split; [exact H1|]. split; [exact H2|]. split; [exact H3|]. split; [exact H4|exact H5].
Qed.

(* ------------------------------------------------------------------ *)
(** * 12. refinement *)

Definition R (s : hs) (sp : spec) : Prop :=
  HS_inv s /\ Permutation (table s) (fl sp) /\ batch s = pend sp /\ bsz s = sb sp.

Lemma zeros_fanout : zeros256 = spec_fanout [].
Proof. vm_compute. reflexivity. Qed.

Lemma R_init : forall b, R (hs_new b) (spec_new b).
Proof.
  intros b. unfold R, hs_new, spec_new, HS_inv. cbn [table batch size bsz fanout fl pend sb].
  repeat split; first [apply zeros_fanout | constructor].
Qed.

Lemma has_spec : forall s h, HS_inv s -> wf_hash h -> has s h = Some (mem h (table s)).
Proof.
  intros s h (Hlen & Hsorted & Hfan & Hwt & Hwb) Hwf.
  apply Sorted_SS in Hsorted.
  destruct (index_of_spec (table s) h Hsorted Hwf) as (r & Er & Hr).
  unfold has. rewrite Hfan, Er. rewrite <- Hr. destruct r; reflexivity.
Qed.

Lemma cnt_255 : forall l : list hash, Forall wf_hash l -> cnt l 255 = length l.
Proof.
  intros l H. unfold cnt. induction H as [|a l Ha Hl IH]; cbn [filter length].
  - reflexivity.
  - pose proof (fb_wf a Ha) as Hf.
    replace (fb a <=? 255)%nat with true by (symmetry; apply Nat.leb_le; lia).
    cbn [length]. f_equal. exact IH.
Qed.

Lemma step_refines : forall s sp o, R s sp -> wf_op o ->
  exists s' sp' r, step s o = (s', r) /\ spec_step sp o = (sp', r) /\ R s' sp'.
Proof.
  intros s sp o (Hinv & HP & Hb & Hz) Hwf.
  pose proof Hinv as (Hlen & Hsorted & Hfan & Hwt & Hwb).
  destruct o as [h|  |h|b| | ]; cbn [step spec_step wf_op] in *.
  - (* OAdd *)
    destruct (index_of_spec (table s) h (Sorted_SS _ Hsorted) Hwf) as (r & Er & Hr).
    rewrite <- Hfan in Er.
    unfold add. rewrite Er. rewrite <- (mem_perm h _ _ HP). rewrite <- Hr.
    destruct r as [p|].
    + exists s, sp, RUnit. repeat split; assumption.
    + cbn [batch bsz]. rewrite <- Hb, <- Hz.
      set (s1 := mk_hs (fanout s) (table s) (size s) (batch s ++ [h]) (bsz s)).
      assert (Hinv1 : HS_inv s1).
      { unfold HS_inv, s1. cbn [table batch size fanout]. repeat split; try assumption.
        apply Forall_app. split; [exact Hwb|]. constructor; [exact Hwf|constructor]. }
      cbn [pend].
      destruct (bsz s <=? length (batch s ++ [h]))%nat.
      * destruct (flush_spec s1 Hinv1) as (s2 & E2 & Hinv2 & HP2 & Hb2 & Hs2 & Hz2).
        rewrite E2. eexists s2, _, RUnit. split; [reflexivity|]. split; [reflexivity|].
        unfold R, spec_flush. cbn [fl pend sb]. repeat split.
        -- apply Hinv2.
        -- apply Hinv2.
        -- apply Hinv2.
        -- apply Hinv2.
        -- apply Hinv2.
        -- eapply perm_trans; [exact HP2|]. unfold s1. cbn [table batch].
           apply Permutation_app_tail. exact HP.
        -- exact Hb2.
        -- rewrite Hz2. reflexivity.
      * eexists s1, _, RUnit. split; [reflexivity|]. split; [reflexivity|].
        unfold R. cbn [fl pend sb]. unfold s1 at 2 3 4. cbn [table batch bsz].
        repeat split; try assumption; apply Hinv1.
  - (* OFlush *)
    destruct (flush_spec s Hinv) as (s2 & E2 & Hinv2 & HP2 & Hb2 & Hs2 & Hz2).
    rewrite E2. eexists s2, _, RUnit. split; [reflexivity|]. split; [reflexivity|].
    unfold R, spec_flush. cbn [fl pend sb]. repeat split; try apply Hinv2.
    + eapply perm_trans; [exact HP2|]. rewrite Hb. apply Permutation_app_tail. exact HP.
    + exact Hb2.
    + congruence.
  - (* OHas *)
    rewrite (has_spec s h Hinv Hwf). rewrite (mem_perm h _ _ HP).
    exists s, sp, (RBool (mem h (fl sp))). repeat split; assumption.
  - (* OReopen *)
    eexists _, _, RUnit. split; [reflexivity|]. split; [reflexivity|].
    unfold R, reopen, HS_inv. cbn [table batch size bsz fanout fl pend sb].
    repeat split; try assumption; try constructor.
    rewrite Hfan. rewrite spec_fanout_nth by lia. symmetry. apply cnt_255. exact Hwt.
  - (* OLen *)
    exists s, sp, (RNat (size s)). split; [reflexivity|]. split.
    + rewrite <- Hlen. rewrite (Permutation_length HP). reflexivity.
    + repeat split; assumption.
  - (* ODump *)
    exists s, sp, (RDump (fanout s) (firstn (size s) (table s))). split; [reflexivity|]. split.
    + rewrite <- Hlen, firstn_all. rewrite Hfan. rewrite (spec_fanout_perm _ _ HP).
      f_equal. f_equal. symmetry. apply SS_perm_unique.
      * apply Sorted_SS. exact Hsorted.
      * apply sort_hashes_SS.
      * eapply perm_trans; [exact HP|]. apply Permutation_sym. apply sort_hashes_perm.
    + repeat split; assumption.
Qed.

Lemma run_refines : forall ops s sp, R s sp -> Forall wf_op ops ->
  run_ops s ops = spec_run sp ops.
Proof.
  induction ops as [|o ops IH]; intros s sp HR Hwf; cbn [run_ops spec_run].
  - reflexivity.
  - inversion Hwf as [|o0 ops0 Ho Hops]; subst.
    destruct (step_refines s sp o HR Ho) as (s' & sp' & r & E1 & E2 & HR').
    rewrite E1, E2. f_equal. apply IH; assumption.
Qed.

Lemma refines : forall (b : nat) (ops : list op),
  Forall wf_op ops -> run_ops (hs_new b) ops = spec_run (spec_new b) ops.
Proof.
  intros b ops Hwf. apply run_refines; [apply R_init|exact Hwf].
Qed.

(* ------------------------------------------------------------------ *)
(** * 13. membership after a final flush *)

Fixpoint spec_exec (s : spec) (ops : list op) : spec :=
  match ops with
  | [] => s
  | o :: ops' => spec_exec (fst (spec_step s o)) ops'
  end.

Lemma spec_run_app : forall l1 l2 s,
  spec_run s (l1 ++ l2) = spec_run s l1 ++ spec_run (spec_exec s l1) l2.
Proof.
  induction l1 as [|o l1 IH]; intros l2 s; cbn [app spec_run spec_exec].
  - reflexivity.
  - destruct (spec_step s o) as [s' r]. cbn [fst app]. f_equal. apply IH.
Qed.

Lemma spec_add_content : forall s a x,
  In x (fl (fst (spec_step s (OAdd a))) ++ pend (fst (spec_step s (OAdd a))))
  <-> In x (fl s ++ pend s) \/ x = a.
Proof.
  intros s a x. cbn [spec_step].
  destruct (mem a (fl s)) eqn:Em; cbn [fst].
  - apply mem_In in Em. split; [intros H; left; exact H|].
    intros [H|H]; [exact H|]. subst x. apply in_or_app. left. exact Em.
  - cbn [pend sb].
    destruct (sb s <=? length (pend s ++ [a]))%nat; cbn [fst]; unfold spec_flush; cbn [fl pend].
    + rewrite app_nil_r. rewrite !in_app_iff. cbn [In]. intuition congruence.
    + rewrite !in_app_iff. cbn [In]. intuition congruence.
Qed.

Lemma spec_adds_content : forall adds s x,
  In x (fl (spec_exec s (map OAdd adds)) ++ pend (spec_exec s (map OAdd adds)))
  <-> In x (fl s ++ pend s) \/ In x adds.
Proof.
  induction adds as [|a adds IH]; intros s x; cbn [map spec_exec].
  - cbn [In]. tauto.
  - rewrite IH. rewrite spec_add_content. cbn [In]. intuition congruence.
Qed.

Lemma last_app2 : forall (A : Type) (l : list A) (a b d : A), last (l ++ [a; b]) d = b.
Proof.
  intros A l a b d. induction l as [|x l IH].
  - reflexivity.
  - cbn [app]. destruct (l ++ [a; b]) eqn:E.
    + destruct l; discriminate.
    + cbn [last]. cbn [last] in IH. exact IH.
Qed.

Lemma member_after_flush : forall (b : nat) (adds : list hash) (h : hash),
  Forall wf_hash adds -> wf_hash h ->
  last (run_ops (hs_new b) (map OAdd adds ++ [OFlush; OHas h])) RErr
  = RBool (if in_dec N.eq_dec h adds then true else false).
Proof.
  intros b adds h Hadds Hh.
  rewrite refines.
  - rewrite spec_run_app. cbn [spec_run spec_step]. rewrite last_app2.
    f_equal. unfold spec_flush. cbn [fl].
    set (s1 := spec_exec (spec_new b) (map OAdd adds)).
    destruct (in_dec N.eq_dec h adds) as [Hin|Hnin].
    + apply mem_In. apply spec_adds_content. right. exact Hin.
    + destruct (mem h (fl s1 ++ pend s1)) eqn:Em; [|reflexivity].
      exfalso. apply mem_In in Em. apply spec_adds_content in Em.
      destruct Em as [Em|Em]; [|contradiction].
      cbn in Em. destruct (Nat.eqb b 0); cbn in Em; contradiction.
  - apply Forall_app. split.
    + rewrite Forall_forall in *. intros o Ho. apply in_map_iff in Ho.
      destruct Ho as (a & Ea & Ha). subst o. cbn. apply Hadds. exact Ha.
    + constructor; [exact I|]. constructor; [exact Hh|constructor].
Qed.
