(** (iv) objects.StrList.seekColumnOffset / seekColumn / LessThan (methods on the []byte type
    StrList): on ENCODED rows (b = encode_strlist r) the translated code finds the cells of r and
    LessThan computes [strlist_less_than] of model/Sorter.v on the decoded rows. *)
From Coq Require Import List ZArith NArith Bool String Lia Arith.
From W.lib Require Import Tree Bytes GoLang.
From W.proofs Require Import GoLang_proofs.
From W.gen Require Import ExtractedCode.
From W.model Require Import CodecBase CodecStrList.
Import ListNotations.
Local Open Scope Z_scope.

(** * layout of an encoded row *)
Definition cellenc (s : bytes) : bytes := be 2 (len s) ++ s.
Definition cells_ok (r : list bytes) : Prop := Forall (fun s => Z.of_nat (length s) <= 65535) r.

Lemma enc_cells_concat r : cells_ok r -> enc_cells r = Some (concat (map cellenc r)).
Proof.
  induction 1 as [|s r Hs _ IH]; [reflexivity|]. cbn [enc_cells map concat].
  replace (max_str_len <? len s)%N with false.
  - rewrite IH. unfold cellenc. now rewrite <- app_assoc.
  - symmetry. apply N.ltb_ge. unfold max_str_len, len. lia.
Qed.

Lemma enc_cells_ok r x : enc_cells r = Some x -> cells_ok r.
Proof.
  revert x; induction r as [|s r IH]; intros x H; [constructor|]. cbn [enc_cells] in H.
  destruct (N.ltb_spec max_str_len (len s)) as [L|L]; [discriminate|].
  destruct (enc_cells r) as [y|] eqn:E; [|discriminate].
  constructor; [unfold max_str_len, len in L; lia|eapply IH; reflexivity].
Qed.

Definition row_bytes (r : list bytes) : bytes := be 4 (N.of_nat (length r)) ++ concat (map cellenc r).

Lemma encode_strlist_row r b : encode_strlist r = Some b -> cells_ok r /\ b = row_bytes r.
Proof.
  unfold encode_strlist. destruct (2 ^ 32 <? N.of_nat (length r))%N; [discriminate|].
  destruct (enc_cells r) as [x|] eqn:E; [|discriminate]. intros H. inversion H; subst.
  pose proof (enc_cells_ok r x E) as Hok. split; [exact Hok|].
  rewrite (enc_cells_concat r Hok) in E. inversion E. reflexivity.
Qed.

(** position of the length prefix of cell i *)
Definition cpos (r : list bytes) (i : nat) : nat := (4 + length (concat (map cellenc (firstn i r))))%nat.

Lemma cellenc_length s : length (cellenc s) = (2 + length s)%nat.
Proof. unfold cellenc. rewrite app_length, be_length. reflexivity. Qed.

Lemma row_split r i : (i < length r)%nat ->
  row_bytes r = (be 4 (N.of_nat (length r)) ++ concat (map cellenc (firstn i r)))
                ++ cellenc (nth i r []) ++ concat (map cellenc (skipn (S i) r)).
Proof.
  intros H. unfold row_bytes. rewrite <- (firstn_skipn i r) at 2.
  rewrite (skipn_nth_cons r i [] H), map_app, concat_app. cbn [map concat].
  now rewrite <- !app_assoc.
Qed.

Lemma cpos_S r i : (i < length r)%nat -> cpos r (S i) = (cpos r i + 2 + length (nth i r []))%nat.
Proof.
  intros H. unfold cpos. rewrite (firstn_S_nth r i [] H), map_app, concat_app, app_length.
  cbn [map concat]. rewrite app_nil_r, cellenc_length. lia.
Qed.

Lemma cpos_bound r i : (i < length r)%nat -> (cpos r i + 2 + length (nth i r []) <= length (row_bytes r))%nat.
Proof.
  intros H. rewrite (row_split r i H), !app_length, cellenc_length, be_length. unfold cpos. lia.
Qed.

Lemma row_prefix_len r i : length (be 4 (N.of_nat (length r)) ++ concat (map cellenc (firstn i r))) = cpos r i.
Proof. rewrite app_length, be_length. reflexivity. Qed.

Lemma row_at_len r i : (i < length r)%nat -> cells_ok r ->
  unbe (firstn 2 (skipn (cpos r i) (row_bytes r))) = N.of_nat (length (nth i r [])).
Proof.
  intros H Hok. rewrite (row_split r i H), (skipn_app_len _ _ _ (row_prefix_len r i)).
  unfold cellenc. rewrite <- app_assoc, (firstn_app_len _ _ 2 (be_length 2 _)).
  apply unbe_be. unfold len.
  assert (L : Z.of_nat (length (nth i r [])) <= 65535).
  { unfold cells_ok in Hok. rewrite Forall_forall in Hok. apply Hok. now apply nth_In. }
  change (256 ^ N.of_nat 2)%N with 65536%N. lia.
Qed.

Lemma app_reassoc {A} (a b c d : list A) : a ++ (b ++ c) ++ d = (a ++ b) ++ c ++ d.
Proof. now rewrite <- !app_assoc. Qed.

Lemma row_at_cell r i : (i < length r)%nat ->
  firstn (length (nth i r [])) (skipn (cpos r i + 2) (row_bytes r)) = nth i r [].
Proof.
  intros H. rewrite (row_split r i H).
  change (cellenc (nth i r [])) with (be 2 (len (nth i r [])) ++ nth i r []).
  rewrite app_reassoc.
  rewrite skipn_app_len.
  - apply firstn_app_len. reflexivity.
  - rewrite app_length, be_length, row_prefix_len. reflexivity.
Qed.

Lemma row_count r : Z.of_nat (length r) < 2 ^ 32 -> unbe (firstn 4 (row_bytes r)) = N.of_nat (length r).
Proof.
  intros H. unfold row_bytes. rewrite (firstn_app_len _ _ 4 (be_length 4 _)).
  apply unbe_be. change (256 ^ N.of_nat 4)%N with 4294967296%N.
  lia.
Qed.

(** * seekColumnOffset, seekColumn *)
Lemma slice2 (s : bytes) (P : nat) :
  firstn 2 (firstn (Z.to_nat (Z.of_nat P + 2) - P) (skipn P s)) = firstn 2 (skipn P s).
Proof. replace (Z.to_nat (Z.of_nat P + 2) - P)%nat with 2%nat by lia. now rewrite firstn_firstn. Qed.

Lemma go_seekColumnOffset_spec (r : list bytes) (u : nat) :
  cells_ok r -> (u < length r)%nat ->
  Z.of_nat (length r) < 2 ^ 32 -> Z.of_nat (length (row_bytes r)) < 2 ^ 62 ->
  exists fuel, run_func fuel go_prog go_StrList_seekColumnOffset [VStr (row_bytes r); v_nat u]
               = FOk [v_nat (cpos r u + 2); v_nat (length (nth u r []))] [].
Proof.
  intros Hok Hu Hr HL.
  start_func go_StrList_seekColumnOffset. unfold v_nat.
  stepsn.
  rewrite (row_count r Hr). rewrite nat_N_Z.
  replace (Z.of_nat (length r) <=? Z.of_nat u) with false by (symmetry; apply Z.leb_gt; lia).
  stepsn.
  eapply (wp_for_inv _ _ _ _ _ _
            (fun e => exists i vn, (i <= u)%nat /\
               e = [VStr (row_bytes r); VInt (Z.of_nat u); VInt (Z.of_nat (cpos r i)); vn; VInt (Z.of_nat i);
                    VInt (Z.of_nat (length (row_bytes r))); VInt (Z.of_nat (length r))])
            (fun e => match nth 4 e VUnset with VInt i => Z.to_nat (Z.of_nat u + 1 - i) | _ => O end)).
  { exists O, (VInt 0). split; [lia|reflexivity]. }
  intros e (i & vn & Hi & ->).
  assert (Hir : (i < length r)%nat) by lia.
  pose proof (cpos_bound r i Hir) as Hb.
  eexists; split; [evn; reflexivity|].
  replace (Z.of_nat (cpos r i) <? Z.of_nat (length (row_bytes r))) with true by (symmetry; apply Z.ltb_lt; lia).
  stepn. stepn. rewrite slice2. rewrite (row_at_len r i Hir Hok), nat_N_Z.
  stepsn.
  destruct (Nat.eq_dec i u) as [->|Hne].
  - replace (Z.of_nat u =? Z.of_nat u) with true by (symmetry; apply Z.eqb_eq; reflexivity).
    stepsn. repeat f_equal; lia.
  - replace (Z.of_nat i =? Z.of_nat u) with false by (symmetry; apply Z.eqb_neq; lia).
    stepsn. split; [|lia].
    exists (S i), (VInt (Z.of_nat (length (nth i r [])))). split; [lia|].
    rewrite (cpos_S r i Hir). repeat f_equal; lia.
Qed.

Lemma go_seekColumn_spec (r : list bytes) (u : nat) :
  cells_ok r -> (u < length r)%nat ->
  Z.of_nat (length r) < 2 ^ 32 -> Z.of_nat (length (row_bytes r)) < 2 ^ 62 ->
  exists fuel, run_func fuel go_prog go_StrList_seekColumn [VStr (row_bytes r); v_nat u]
               = FOk [VStr (nth u r [])] [].
Proof.
  intros Hok Hu Hr HL.
  pose proof (cpos_bound r u Hu) as Hb.
  start_func go_StrList_seekColumn. unfold v_nat.
  stepn. step_call (go_seekColumnOffset_spec r u Hok Hu Hr HL). unfold v_nat.
  stepsn.
  replace (Z.to_nat (Z.of_nat (cpos r u + 2) + Z.of_nat (length (nth u r []))) - (cpos r u + 2))%nat
    with (length (nth u r [])) by lia.
  do 3 f_equal. apply (row_at_cell r u Hu).
Qed.

(** * LessThan *)
From W.model Require Import Sorter.

Definition cmp_int (c : comparison) : Z :=
  match c with Datatypes.Lt => -1 | Datatypes.Eq => 0 | Datatypes.Gt => 1 end.

Lemma go_LessThan_model (ra rb : list bytes) (pk : list nat) :
  cells_ok ra -> cells_ok rb ->
  Forall (fun u => (u < length ra)%nat /\ (u < length rb)%nat) pk ->
  (pk = [] -> (length ra <= length rb)%nat) ->
  Z.of_nat (length ra) < 2 ^ 32 -> Z.of_nat (length rb) < 2 ^ 32 ->
  Z.of_nat (length (row_bytes ra)) < 2 ^ 62 -> Z.of_nat (length (row_bytes rb)) < 2 ^ 62 ->
  exists fuel, run_func fuel go_prog go_StrList_LessThan [VStr (row_bytes ra); v_nats pk; VStr (row_bytes rb)]
               = FOk [VBool (strlist_less_than pk ra rb)] [].
Proof.
  intros Hoka Hokb WF Hall Hra Hrb HLa HLb.
  start_func go_StrList_LessThan. unfold v_nats.
  stepn. stepn. rewrite ?length_map_v_nat.
  destruct pk as [|u0 pk'].
  - (* all columns: for i = 0; i < n; i++ *)
    specialize (Hall eq_refl). cbn [strlist_less_than length map].
    change (Z.of_nat 0 =? 0) with true. stepsn.
    rewrite (row_count ra Hra), nat_N_Z.
    eapply (wp_for_inv _ _ _ _ _ _
              (fun e => exists i v5 v6 v7, (i <= length ra)%nat /\
                 e = [VStr (row_bytes ra); VList []; VStr (row_bytes rb); VInt (Z.of_nat (length ra));
                      VInt (Z.of_nat i); v5; v6; v7; VUnset; VUnset; VUnset; VUnset] /\
                 sll_cols (seq 0 (length ra)) ra rb = sll_cols (seq i (length ra - i)) ra rb)
              (fun e => match nth 4 e VUnset with VInt i => Z.to_nat (Z.of_nat (length ra) - i) | _ => O end)).
    { exists O, VUnset, VUnset, VUnset. split; [lia|]. split; [reflexivity|]. now rewrite Nat.sub_0_r. }
    intros e (i & v5 & v6 & v7 & Hi & -> & Hinv).
    eexists; split; [evn; reflexivity|].
    destruct (Z.ltb_spec (Z.of_nat i) (Z.of_nat (length ra))) as [Hlt|Hge].
    2:{ replace (length ra - i)%nat with O in Hinv by lia. cbn [seq sll_cols] in Hinv.
        stepsn. now rewrite Hinv. }
    assert (Hia : (i < length ra)%nat) by lia. assert (Hib : (i < length rb)%nat) by lia.
    replace (length ra - i)%nat with (S (length ra - S i)) in Hinv by lia. cbn [seq sll_cols] in Hinv.
    stepsn.
    step_call (go_seekColumn_spec ra i Hoka Hia Hra HLa).
    stepsn. step_call (go_seekColumn_spec rb i Hokb Hib Hrb HLb).
    stepsn. destruct (bcmp (nth i ra []) (nth i rb [])) eqn:C; stepsn.
    + split; [|lia]. exists (S i), (VStr (nth i ra [])), (VStr (nth i rb [])), (VInt 0).
      split; [lia|]. split; [repeat f_equal; lia|exact Hinv].
    + rewrite Hinv. reflexivity.
    + rewrite Hinv. reflexivity.
  - (* key columns *)
    change (Z.of_nat (length (u0 :: pk')) =? 0) with false.
    set (pk := u0 :: pk') in *. assert (E : strlist_less_than pk ra rb = sll_cols pk ra rb) by reflexivity.
    rewrite E. clearbody pk. clear E Hall.
    stepsn.
    eapply (wp_items_inv _ _ _ _ _ _
              (fun n e => (exists vu v9 v10 v11,
                 e = [VStr (row_bytes ra); VList (map v_nat pk); VStr (row_bytes rb); VUnset; VUnset; VUnset;
                      VUnset; VUnset; vu; v9; v10; v11])
                 /\ sll_cols pk ra rb = sll_cols (skipn n pk) ra rb)).
    + split; [|reflexivity]. exists VUnset, VUnset, VUnset, VUnset. reflexivity.
    + intros n e x ((vu & v9 & v10 & v11 & ->) & Hinv) Hx.
      apply (nth_error_map_inv v_nat pk n x O) in Hx. destruct Hx as [Hn ->].
      assert (Hu : (nth n pk O < length ra)%nat /\ (nth n pk O < length rb)%nat).
      { rewrite Forall_forall in WF. apply WF. now apply nth_In. }
      destruct Hu as [Hua Hub].
      rewrite (skipn_nth_cons pk n O Hn) in Hinv. cbn [sll_cols] in Hinv.
      ev. stepsn.
      step_call (go_seekColumn_spec ra (nth n pk O) Hoka Hua Hra HLa).
      stepsn. step_call (go_seekColumn_spec rb (nth n pk O) Hokb Hub Hrb HLb).
      stepsn. destruct (bcmp (nth (nth n pk O) ra []) (nth (nth n pk O) rb [])) eqn:C; stepsn; try (rewrite Hinv; reflexivity).
      split; [|exact Hinv]. eexists _, _, _, _. reflexivity.
    + intros e ((vu & v9 & v10 & v11 & ->) & Hinv). rewrite length_map_v_nat, skipn_all in Hinv.
      cbn [sll_cols] in Hinv. stepsn. now rewrite Hinv.
Qed.

(** the same on the encodings produced by [encode_strlist] *)
Theorem go_LessThan_encoded (ra rb : list bytes) (ea eb : bytes) (pk : list nat) :
  encode_strlist ra = Some ea -> encode_strlist rb = Some eb ->
  Forall (fun u => (u < length ra)%nat /\ (u < length rb)%nat) pk ->
  (pk = [] -> (length ra <= length rb)%nat) ->
  Z.of_nat (length ra) < 2 ^ 32 -> Z.of_nat (length rb) < 2 ^ 32 ->
  Z.of_nat (length ea) < 2 ^ 62 -> Z.of_nat (length eb) < 2 ^ 62 ->
  exists fuel, run_func fuel go_prog go_StrList_LessThan [VStr ea; v_nats pk; VStr eb]
               = FOk [VBool (strlist_less_than pk ra rb)] [].
Proof.
  intros Ea Eb WF Hall Hra Hrb HLa HLb.
  destruct (encode_strlist_row ra ea Ea) as [Hoka ->].
  destruct (encode_strlist_row rb eb Eb) as [Hokb ->].
  now apply go_LessThan_model.
Qed.

Theorem go_seekColumn_encoded (r : list bytes) (e : bytes) (u : nat) :
  encode_strlist r = Some e -> (u < length r)%nat ->
  Z.of_nat (length r) < 2 ^ 32 -> Z.of_nat (length e) < 2 ^ 62 ->
  exists fuel, run_func fuel go_prog go_StrList_seekColumn [VStr e; v_nat u] = FOk [VStr (nth u r [])] [].
Proof.
  intros E Hu Hr HL. destruct (encode_strlist_row r e E) as [Hok ->]. now apply go_seekColumn_spec.
Qed.
