(** Proofs for C04, part 3: window completeness, iterateAndMatch, diffRows/diffTables = spec,
    and the corollaries of the specification. *)
From W.lib Require Import Tree Bytes.
From W.model Require Import Diff DiffSpec.
From W.proofs Require Import Diff_proofs DiffTable_proofs.
From Coq Require Import Arith ZArith Lia ZifyNat ZifyBool Sorting.Sorted Sorting.Permutation.

Lemma kcmp_nlt_nle a b : kcmp a b <> Lt -> kcmp b a <> Gt.
Proof. intros H. rewrite kcmp_antisym. destruct (kcmp a b); cbn; congruence. Qed.

Lemma lookup_not_none_in l k : lookup l k <> None -> exists r, In (k, r) l.
Proof.
  destruct (lookup l k) as [[p r]|] eqn:E; [|congruence].
  intros _. exists r. eapply lookup_in; eauto.
Qed.

Section Main.
  Variable bs : nat.

  (** * one step of the window search, with completeness of the window *)
  Lemma window_step bl1 bl2 i pe :
    WF_blocks bs bl1 -> WF_blocks bs bl2 -> i < length bl1 -> pe <= length bl2 ->
    pe_inv (tindex bl1) (tindex bl2) i pe ->
    exists s e,
      find_overlapping_g true (tindex bl1) (tindex bl2) i pe = (Z.of_nat s, Z.of_nat e) /\
      s <= e /\ e <= length bl2 /\ (s < e \/ e = 0) /\ pe - 1 <= s /\
      (S i < length bl1 -> pe_inv (tindex bl1) (tindex bl2) (S i) e) /\
      (forall k r, In (k, r) (nth i bl1 []) ->
                   forall j, j < length bl2 -> lookup (nth j bl2 []) k <> None -> s <= j < e).
  Proof.
    intros W1 W2 Hi Hpe Inv.
    destruct bl2 as [|b2 bl2'] eqn:Ebl2.
    - exists 0, 0. cbn [tindex map]. rewrite find_overlapping_empty.
      cbn [length] in Hpe.
      split; [reflexivity|]. split; [lia|]. split; [cbn; lia|]. split; [now right|].
      split; [lia|]. split; [intros _; now left|].
      intros k r _ j Hj. cbn in Hj. lia.
    - rewrite <- Ebl2 in *. assert (Hn : 0 < length bl2) by (rewrite Ebl2; cbn; lia).
      clear Ebl2 b2 bl2'.
      pose proof (tindex_isorted bs bl1 W1) as SA. pose proof (tindex_isorted bs bl2 W2) as SB.
      destruct (find_overlapping_spec true (tindex bl1) (tindex bl2) i pe SA SB) as (s & e & E & Wok).
      + now rewrite tindex_length.
      + now rewrite tindex_length.
      + now rewrite tindex_length.
      + exact Inv.
      + destruct Wok as [w1 w2 w3 w4 w5 w6 w7 w8]. rewrite tindex_length in *.
        exists s, e. split; [exact E|]. split; [exact w2|]. split; [exact w3|].
        split; [exact w5|]. split; [exact w4|]. split; [exact w8|].
        intros k r Hin j Hj Hl. destruct (lookup_not_none_in _ _ Hl) as (r2 & Hin2).
        pose proof (key_ge_first bs bl1 W1 i k r Hi Hin) as G1.
        pose proof (key_ge_first bs bl2 W2 j k r2 Hj Hin2) as G2.
        split.
        * destruct w6 as [->|w6]; [lia|].
          destruct (le_lt_dec (length bl2) (S j)) as [L|L]; [lia|].
          pose proof (key_lt_next bs bl2 W2 j k r2 L Hin2) as G3.
          assert (kcmp (nth s (tindex bl2) []) (nth (S j) (tindex bl2) []) = Lt) as X.
          { eapply kcmp_le_lt_trans; [exact w6|]. eapply kcmp_le_lt_trans; [exact G1|exact G3]. }
          apply isorted_lt_inv in X; auto; rewrite ?tindex_length; lia.
        * destruct w7 as [->|(w7a & w7b)]; [lia|]. rewrite tindex_length in w7a.
          pose proof (key_lt_next bs bl1 W1 i k r w7a Hin) as G3.
          destruct (le_lt_dec (length bl2) e) as [L|L]; [lia|].
          assert (kcmp (nth j (tindex bl2) []) (nth e (tindex bl2) []) = Lt) as X.
          { eapply kcmp_le_lt_trans; [exact G2|]. eapply kcmp_lt_le_trans; [exact G3|].
            apply kcmp_nlt_nle. exact w7b. }
          apply isorted_lt_inv in X; auto; rewrite ?tindex_length; lia.
  Qed.

  (** * what iterateAndMatch computes, stated by global lookup *)
  Fixpoint spec_match (l1 : list row) (p : nat) (l2 : list row) : list mrec :=
    match l1 with
    | [] => []
    | (k, r1) :: l1' =>
        match lookup l2 k with
        | Some (q, r2) => mk_mrec k r1 (Some r2) p q
        | None => mk_mrec k r1 None p 0
        end :: spec_match l1' (S p) l2
    end.

  Lemma spec_match_app a b p l2 :
    spec_match (a ++ b) p l2 = spec_match a p l2 ++ spec_match b (p + length a) l2.
  Proof.
    revert p; induction a as [|[k r] a IH]; intros p; cbn.
    - now rewrite Nat.add_0_r.
    - rewrite IH. do 3 f_equal. lia.
  Qed.

  Lemma match_rows_ok bl2 s e :
    full_but_last bs bl2 -> s <= e -> e <= length bl2 ->
    forall b i o0,
      (forall k r, In (k, r) b ->
                   forall j, j < length bl2 -> lookup (nth j bl2 []) k <> None -> s <= j < e) ->
      match_rows bs b (map Some (sub s e bl2)) (Z.of_nat s) i o0
      = Ok (spec_match b (i * bs + o0) (concat bl2)).
  Proof.
    intros F Hse He. induction b as [|[k r1] b IH]; intros i o0 Hwin; [reflexivity|].
    cbn [match_rows spec_match]. rewrite lookup_sl_find.
    pose proof (window_lookup bs bl2 k s e F Hse He (Hwin k r1 (or_introl eq_refl))) as WL.
    rewrite IH by (intros k' r' Hin; apply (Hwin k' r'); now right).
    replace (i * bs + S o0) with (S (i * bs + o0)) by lia.
    destruct (find_blocks (sub s e bl2) k 0) as [[[kk o] r2]|]; rewrite WL.
    - replace (Z.to_nat (Z.of_nat kk + Z.of_nat s)) with (s + kk) by lia. reflexivity.
    - reflexivity.
  Qed.

  Lemma iterate_ok bl1 bl2 :
    WF_blocks bs bl1 -> WF_blocks bs bl2 ->
    forall rest pre ps pe,
      bl1 = pre ++ rest ->
      ps <= pe -> pe <= length bl2 -> (ps < pe \/ pe = 0) ->
      (length pre < length bl1 -> pe_inv (tindex bl1) (tindex bl2) (length pre) pe) ->
      iterate_from bs true (tindex bl1) (tindex bl2) bl2 rest (length pre)
                   (map Some (sub ps pe bl2)) (Z.of_nat ps) (Z.of_nat pe)
      = Ok (spec_match (concat rest) (length pre * bs) (concat bl2)).
  Proof.
    intros W1 W2. induction rest as [|b rest IH]; intros pre ps pe E H1 H2 H3 Inv; [reflexivity|].
    cbn [iterate_from]. rewrite Nat2Z.id.
    assert (Hi : length pre < length bl1) by (rewrite E, app_length; cbn; lia).
    assert (Hb : nth (length pre) bl1 [] = b).
    { rewrite E, app_nth2, Nat.sub_diag by lia. reflexivity. }
    destruct (window_step bl1 bl2 (length pre) pe W1 W2 Hi H2 (Inv Hi))
      as (s & e & Efo & K1 & K2 & K3 & K4 & K5 & K6).
    rewrite Efo.
    rewrite get_block_indices_ok by assumption.
    rewrite Hb in K6.
    rewrite (match_rows_ok bl2 s e (wf_full_but_last bs bl2 W2) K1 K2 b (length pre) 0 K6).
    specialize (IH (pre ++ [b]) s e).
    rewrite app_length in IH. cbn [length] in IH. replace (length pre + 1) with (S (length pre)) in IH by lia.
    rewrite IH; try assumption.
    - cbn [concat]. rewrite spec_match_app, Nat.add_0_r. do 2 f_equal.
      destruct rest as [|b' rest]; [reflexivity|].
      assert (length b = bs) as <-.
      { rewrite <- Hb. apply (wf_nth_size bs bl1 W1); [exact Hi|].
        rewrite E, app_length. cbn. lia. }
      f_equal. lia.
    - rewrite <- app_assoc. exact E.
  Qed.

  Lemma iterate_and_match_ok bl1 bl2 :
    WF_blocks bs bl1 -> WF_blocks bs bl2 ->
    iterate_and_match bs true bl1 bl2 (tindex bl1) (tindex bl2)
    = Ok (spec_match (concat bl1) 0 (concat bl2)).
  Proof.
    intros W1 W2. unfold iterate_and_match.
    exact (iterate_ok bl1 bl2 W1 W2 bl1 [] 0 0 eq_refl (le_n 0) (Nat.le_0_l _)
                      (or_intror eq_refl) (fun _ => or_introl eq_refl)).
  Qed.

  Lemma pass1_spec eu ce l1 l2 : forall p,
    flat_map (pass1_cb eu ce) (spec_match l1 p l2) = spec_pass1 eu ce l1 p l2.
  Proof.
    induction l1 as [|[k r1] l1 IH]; intros p; [reflexivity|].
    cbn [spec_match flat_map spec_pass1]. rewrite IH. f_equal.
    destruct (lookup l2 k) as [[q r2]|]; reflexivity.
  Qed.

  Lemma pass2_spec l2 l1 : forall p,
    flat_map pass2_cb (spec_match l2 p l1) = spec_pass2 l2 p l1.
  Proof.
    induction l2 as [|[k r2] l2 IH]; intros p; [reflexivity|].
    cbn [spec_match flat_map spec_pass2]. rewrite IH. f_equal.
    destruct (lookup l1 k) as [[q r1]|]; reflexivity.
  Qed.

  Lemma diff_rows_ok eu ce bl1 bl2 :
    WF_blocks bs bl1 -> WF_blocks bs bl2 ->
    diff_rows_g bs true eu ce bl1 bl2 (tindex bl1) (tindex bl2)
    = Ok (spec_diff_rows eu ce (concat bl1) (concat bl2)).
  Proof.
    intros W1 W2. unfold diff_rows_g.
    rewrite (iterate_and_match_ok bl1 bl2 W1 W2), (iterate_and_match_ok bl2 bl1 W2 W1).
    unfold spec_diff_rows. now rewrite pass1_spec, pass2_spec.
  Qed.

  Theorem diff_correct eu t1 t2 :
    WF_table bs t1 -> WF_table bs t2 -> diff_tables bs eu t1 t2 = Ok (spec_diff eu t1 t2).
  Proof.
    intros W1 W2. unfold diff_tables, diff_tables_g, diff_tables_idx, spec_diff.
    destruct (names_eqb (t_pk t1) (t_pk t2) &&
              (negb (length (t_pk t1) =? 0) || names_eqb (t_cols t1) (t_cols t2))); [|reflexivity].
    now apply diff_rows_ok.
  Qed.

  Theorem no_panic eu t1 t2 :
    WF_table bs t1 -> WF_table bs t2 -> diff_tables bs eu t1 t2 <> Panic.
  Proof. intros W1 W2. rewrite diff_correct by assumption. discriminate. Qed.

  (** * C04_window_complete in the words of the design: the windows the loop computes *)
  Lemma windows_from_complete bl1 bl2 :
    WF_blocks bs bl1 -> WF_blocks bs bl2 ->
    forall cnt i pe,
      i + cnt = length bl1 -> pe <= length bl2 ->
      (i < length bl1 -> pe_inv (tindex bl1) (tindex bl2) i pe) ->
      forall m, m < cnt ->
        forall k r1 r2 j, In (k, r1) (nth (i + m) bl1 []) -> j < length bl2 ->
                          In (k, r2) (nth j bl2 []) ->
          let w := nth m (windows_from true (tindex bl1) (tindex bl2) cnt i pe) (0%Z, 0%Z) in
          (fst w <= Z.of_nat j < snd w)%Z.
  Proof.
    intros W1 W2. induction cnt as [|cnt IH]; intros i pe Hc Hpe Inv m Hm k r1 r2 j Hin1 Hj Hin2; [lia|].
    cbn [windows_from].
    assert (Hi : i < length bl1) by lia.
    destruct (window_step bl1 bl2 i pe W1 W2 Hi Hpe (Inv Hi))
      as (s & e & Efo & K1 & K2 & K3 & K4 & K5 & K6).
    rewrite Efo. cbn [snd]. rewrite Nat2Z.id.
    destruct m as [|m].
    - cbn [nth fst snd]. rewrite Nat.add_0_r in Hin1.
      assert (lookup (nth j bl2 []) k <> None) as NN.
      { intros Hn. apply lookup_none in Hn. apply Hn. change k with (fst (k, r2)). now apply in_map. }
      specialize (K6 k r1 Hin1 j Hj NN). lia.
    - cbn [nth]. apply (IH (S i) e ltac:(lia) K2 K5 m ltac:(lia) k r1 r2 j); auto.
      replace (S i + m) with (i + S m) by lia. exact Hin1.
  Qed.

  Theorem window_complete bl1 bl2 i j k r1 r2 :
    WF_blocks bs bl1 -> WF_blocks bs bl2 ->
    i < length bl1 -> j < length bl2 ->
    In (k, r1) (nth i bl1 []) -> In (k, r2) (nth j bl2 []) ->
    let w := nth i (windows (tindex bl1) (tindex bl2)) (0%Z, 0%Z) in
    (fst w <= Z.of_nat j < snd w)%Z.
  Proof.
    intros W1 W2 Hi Hj H1 H2. unfold windows. rewrite tindex_length.
    apply (windows_from_complete bl1 bl2 W1 W2 (length bl1) 0 0 eq_refl (Nat.le_0_l _)
                                 (fun _ => or_introl eq_refl) i Hi k r1 r2 j); auto.
  Qed.

  (** * the events of the specification, characterised *)
  Lemma spec_pass1_in eu ce l2 d : forall l1 p,
    In d (spec_pass1 eu ce l1 p l2) <->
    exists i k r1, nth_error l1 i = Some (k, r1) /\
      ((lookup l2 k = None /\ d = Added k r1 (p + i)) \/
       (exists q r2, lookup l2 k = Some (q, r2) /\
                     eu || negb ce || negb (N.eqb r1 r2) = true /\
                     d = Modified k r1 (p + i) r2 q)).
  Proof.
    induction l1 as [|[k r1] l1 IH]; intros p; cbn [spec_pass1].
    - split; [intros []|]. intros (i & k & r & H & _). destruct i; discriminate.
    - rewrite in_app_iff, IH. split.
      + intros [H|(i & k' & r' & Hn & H)].
        * exists 0, k, r1. split; [reflexivity|]. rewrite Nat.add_0_r.
          destruct (lookup l2 k) as [[q r2]|].
          -- destruct (eu || negb ce || negb (N.eqb r1 r2)) eqn:C; [|destruct H].
             destruct H as [<-|[]]. right. exists q, r2. auto.
          -- destruct H as [<-|[]]. left. auto.
        * exists (S i), k', r'. split; [exact Hn|]. replace (p + S i) with (S p + i) by lia. exact H.
      + intros (i & k' & r' & Hn & H). destruct i as [|i].
        * left. cbn in Hn. injection Hn as <- <-. rewrite Nat.add_0_r in H.
          destruct H as [(L & ->)|(q & r2 & L & C & ->)]; rewrite L; [now left|].
          rewrite C. now left.
        * right. exists i, k', r'. split; [exact Hn|]. replace (S p + i) with (p + S i) by lia. exact H.
  Qed.

  Lemma spec_pass2_in l1 d : forall l2 p,
    In d (spec_pass2 l2 p l1) <->
    exists i k r2, nth_error l2 i = Some (k, r2) /\ lookup l1 k = None /\ d = Removed k r2 (p + i).
  Proof.
    induction l2 as [|[k r2] l2 IH]; intros p; cbn [spec_pass2].
    - split; [intros []|]. intros (i & k & r & H & _). destruct i; discriminate.
    - rewrite in_app_iff, IH. split.
      + intros [H|(i & k' & r' & Hn & H)].
        * exists 0, k, r2. split; [reflexivity|]. rewrite Nat.add_0_r.
          destruct (lookup l1 k) as [[q r1]|]; [destruct H|].
          destruct H as [<-|[]]. auto.
        * exists (S i), k', r'. split; [exact Hn|]. replace (p + S i) with (S p + i) by lia. exact H.
      + intros (i & k' & r' & Hn & H). destruct i as [|i].
        * left. cbn in Hn. injection Hn as <- <-. rewrite Nat.add_0_r in H.
          destruct H as (L & ->). rewrite L. now left.
        * right. exists i, k', r'. split; [exact Hn|]. replace (S p + i) with (p + S i) by lia. exact H.
  Qed.

  Definition dev_exact (eu ce : bool) (l1 l2 : list row) (d : dev) : Prop :=
    match d with
    | Added k r p => nth_error l1 p = Some (k, r) /\ lookup l2 k = None
    | Modified k r p r' q =>
        nth_error l1 p = Some (k, r) /\ nth_error l2 q = Some (k, r') /\
        eu || negb ce || negb (N.eqb r r') = true
    | Removed k r' q => nth_error l2 q = Some (k, r') /\ lookup l1 k = None
    end.

  Lemma spec_rows_in eu ce l1 l2 d :
    NoDup (map fst l2) ->
    (In d (spec_diff_rows eu ce l1 l2) <-> dev_exact eu ce l1 l2 d).
  Proof.
    intros ND. unfold spec_diff_rows. rewrite in_app_iff, spec_pass1_in, spec_pass2_in. cbn [Nat.add].
    split.
    - intros [(i & k & r1 & Hn & [(L & ->)|(q & r2 & L & C & ->)])|(i & k & r2 & Hn & L & ->)]; cbn.
      + auto.
      + split; [exact Hn|]. split; [|exact C]. eapply lookup_some_nth; eauto.
      + auto.
    - destruct d as [k r p|k r p r' q|k r' q]; cbn.
      + intros (Hn & L). left. exists p, k, r. auto.
      + intros (Hn & Hn2 & C). left. exists p, k, r. split; [exact Hn|]. right.
        exists q, r'. split; [apply nth_lookup; auto|]. auto.
      + intros (Hn & L). right. exists q, k, r'. auto.
  Qed.

  (** * corollaries on the specification *)
  Lemma names_eqb_sym a b : names_eqb a b = names_eqb b a.
  Proof. apply keqb_sym. Qed.

  Lemma dev_swap_invol d : dev_swap (dev_swap d) = d.
  Proof. destruct d; reflexivity. Qed.

  Lemma spec_rows_swap eu ce l1 l2 d :
    NoDup (map fst l1) -> NoDup (map fst l2) ->
    (In d (spec_diff_rows eu ce l2 l1) <-> In (dev_swap d) (spec_diff_rows eu ce l1 l2)).
  Proof.
    intros N1 N2. rewrite !spec_rows_in by assumption.
    destruct d as [k r p|k r p r' q|k r' q]; cbn; try tauto.
    rewrite (N.eqb_sym r' r). tauto.
  Qed.

  Lemma spec_swap eu t1 t2 d :
    WF_table bs t1 -> WF_table bs t2 ->
    (In d (spec_diff eu t2 t1) <-> In (dev_swap d) (spec_diff eu t1 t2)).
  Proof.
    intros W1 W2. unfold spec_diff.
    rewrite (names_eqb_sym (t_pk t2)), (names_eqb_sym (t_cols t2)).
    destruct (names_eqb (t_pk t1) (t_pk t2)) eqn:E; [|cbn; tauto].
    apply keqb_eq in E. rewrite E.
    destruct (negb (length (t_pk t2) =? 0) || names_eqb (t_cols t1) (t_cols t2)); cbn [andb]; [|cbn; tauto].
    apply spec_rows_swap; apply wf_keys_NoDup with (bs := bs); assumption.
  Qed.

  Lemma nil_if_no_member {A} (l : list A) : (forall x, ~ In x l) -> l = [].
  Proof. destruct l as [|x l]; [reflexivity|]. intros H. exfalso. apply (H x). now left. Qed.

  Lemma spec_self_empty t : WF_table bs t -> spec_diff false t t = [].
  Proof.
    intros W. unfold spec_diff.
    destruct (names_eqb (t_pk t) (t_pk t) && (negb (length (t_pk t) =? 0) || names_eqb (t_cols t) (t_cols t)));
      [|reflexivity].
    assert (names_eqb (t_cols t) (t_cols t) = true) as -> by apply keqb_refl.
    pose proof (wf_keys_NoDup bs _ W) as ND.
    apply nil_if_no_member. intros d Hd. apply spec_rows_in in Hd; [|exact ND].
    destruct d as [k r p|k r p r' q|k r' q]; cbn in Hd.
    - destruct Hd as (Hn & L). rewrite (nth_lookup _ _ _ _ ND Hn) in L. discriminate.
    - destruct Hd as (Hn & Hn2 & C).
      pose proof (nth_lookup _ _ _ _ ND Hn) as L1. pose proof (nth_lookup _ _ _ _ ND Hn2) as L2.
      rewrite L1 in L2. injection L2 as -> ->. rewrite N.eqb_refl in C. discriminate.
    - destruct Hd as (Hn & L). rewrite (nth_lookup _ _ _ _ ND Hn) in L. discriminate.
  Qed.

  (** no key twice *)
  Lemma NoDup_app_intro {A} (a b : list A) :
    NoDup a -> NoDup b -> (forall x, In x a -> ~ In x b) -> NoDup (a ++ b).
  Proof.
    induction a as [|x a IH]; intros Na Nb D; [exact Nb|].
    inversion Na as [|? ? Hx Na']; subst. cbn. constructor.
    - rewrite in_app_iff. intros [H|H]; [auto|]. apply (D x); [now left|exact H].
    - apply IH; auto. intros y Hy. apply D. now right.
  Qed.

  Lemma pass1_keys_incl eu ce l2 : forall l1 p k,
    In k (map dev_key (spec_pass1 eu ce l1 p l2)) -> In k (map fst l1).
  Proof.
    intros l1 p k H. apply in_map_iff in H. destruct H as (d & <- & Hd).
    apply spec_pass1_in in Hd. destruct Hd as (i & k' & r1 & Hn & H).
    apply nth_error_In in Hn.
    assert (dev_key d = k') as ->.
    { destruct H as [(_ & ->)|(q & r2 & _ & _ & ->)]; reflexivity. }
    change k' with (fst (k', r1)). now apply in_map.
  Qed.

  Lemma pass2_keys_incl l1 : forall l2 p k,
    In k (map dev_key (spec_pass2 l2 p l1)) -> In k (map fst l2) /\ ~ In k (map fst l1).
  Proof.
    intros l2 p k H. apply in_map_iff in H. destruct H as (d & <- & Hd).
    apply spec_pass2_in in Hd. destruct Hd as (i & k' & r2 & Hn & L & ->). cbn.
    apply nth_error_In in Hn. split; [|now apply lookup_none].
    change k' with (fst (k', r2)). now apply in_map.
  Qed.

  Lemma pass1_keys_NoDup eu ce l2 : forall l1 p,
    NoDup (map fst l1) -> NoDup (map dev_key (spec_pass1 eu ce l1 p l2)).
  Proof.
    induction l1 as [|[k r1] l1 IH]; intros p ND; [constructor|].
    cbn [spec_pass1]. cbn in ND. inversion ND as [|? ? Hk ND']; subst.
    rewrite map_app. apply NoDup_app_intro.
    - destruct (lookup l2 k) as [[q r2]|].
      + destruct (eu || negb ce || negb (N.eqb r1 r2)); cbn; repeat constructor; auto.
      + cbn. repeat constructor. auto.
    - apply IH. exact ND'.
    - intros x Hx Hx2. apply pass1_keys_incl in Hx2.
      assert (x = k) as ->; [|contradiction].
      destruct (lookup l2 k) as [[q r2]|].
      + destruct (eu || negb ce || negb (N.eqb r1 r2)); cbn in Hx; [|destruct Hx].
        destruct Hx as [<-|[]]. reflexivity.
      + cbn in Hx. destruct Hx as [<-|[]]. reflexivity.
  Qed.

  Lemma pass2_keys_NoDup l1 : forall l2 p,
    NoDup (map fst l2) -> NoDup (map dev_key (spec_pass2 l2 p l1)).
  Proof.
    induction l2 as [|[k r2] l2 IH]; intros p ND; [constructor|].
    cbn [spec_pass2]. cbn in ND. inversion ND as [|? ? Hk ND']; subst.
    rewrite map_app. apply NoDup_app_intro.
    - destruct (lookup l1 k); cbn; repeat constructor. auto.
    - apply IH. exact ND'.
    - intros x Hx Hx2. apply pass2_keys_incl in Hx2. destruct Hx2 as (Hx2 & _).
      assert (x = k) as ->; [|contradiction].
      destruct (lookup l1 k); cbn in Hx; [destruct Hx|]. destruct Hx as [<-|[]]. reflexivity.
  Qed.

  Lemma spec_rows_keys_NoDup eu ce l1 l2 :
    NoDup (map fst l1) -> NoDup (map fst l2) ->
    NoDup (map dev_key (spec_diff_rows eu ce l1 l2)).
  Proof.
    intros N1 N2. unfold spec_diff_rows. rewrite map_app. apply NoDup_app_intro.
    - now apply pass1_keys_NoDup.
    - now apply pass2_keys_NoDup.
    - intros x H1 H2. apply pass1_keys_incl in H1. apply pass2_keys_incl in H2. tauto.
  Qed.

  Lemma spec_keys_NoDup eu t1 t2 :
    WF_table bs t1 -> WF_table bs t2 -> NoDup (map dev_key (spec_diff eu t1 t2)).
  Proof.
    intros W1 W2. unfold spec_diff.
    destruct (names_eqb (t_pk t1) (t_pk t2) &&
              (negb (length (t_pk t1) =? 0) || names_eqb (t_cols t1) (t_cols t2))); [|constructor].
    apply spec_rows_keys_NoDup; apply wf_keys_NoDup with (bs := bs); assumption.
  Qed.

  Lemma NoDup_of_map {A B} (f : A -> B) l : NoDup (map f l) -> NoDup l.
  Proof.
    induction l as [|x l IH]; intros H; [constructor|].
    cbn in H. inversion H as [|? ? Hx H']; subst. constructor; auto.
    intros Hin. apply Hx. now apply in_map.
  Qed.

  Lemma spec_swap_perm eu t1 t2 :
    WF_table bs t1 -> WF_table bs t2 ->
    Permutation (map dev_swap (spec_diff eu t1 t2)) (spec_diff eu t2 t1).
  Proof.
    intros W1 W2. apply NoDup_Permutation.
    - apply FinFun.Injective_map_NoDup.
      + intros a b H. rewrite <- (dev_swap_invol a), <- (dev_swap_invol b). now rewrite H.
      + eapply NoDup_of_map. apply spec_keys_NoDup; assumption.
    - eapply NoDup_of_map. apply spec_keys_NoDup; assumption.
    - intros d. rewrite (spec_swap eu t1 t2 d W1 W2). rewrite in_map_iff. split.
      + intros (y & <- & Hy). now rewrite dev_swap_invol.
      + intros H. exists (dev_swap d). split; [apply dev_swap_invol|exact H].
  Qed.

  (** * offsets address the right rows (RowToBlockAndOffset arithmetic) *)
  Lemma row_at_concat bl p :
    0 < bs -> Forall (fun b => length b <= bs) bl -> full_but_last bs bl ->
    row_at bs bl p = nth_error (concat bl) p.
  Proof.
    intros Hbs. revert p. induction bl as [|b bl IH]; intros p Hle F.
    - unfold row_at, row_to_block_and_offset. cbn.
      destruct (p / bs); destruct p; reflexivity.
    - inversion Hle as [|? ? Hb Hle']; subst. cbn [concat].
      destruct (le_lt_dec bs p) as [L|L].
      + (* p >= bs *)
        destruct bl as [|b' bl].
        * cbn [concat]. rewrite app_nil_r.
          replace (nth_error b p) with (@None row) by (symmetry; apply nth_error_None; lia).
          unfold row_at, row_to_block_and_offset.
          assert (1 <= p / bs) by (apply Nat.div_le_lower_bound; lia).
          destruct (p / bs) as [|q]; [lia|]. cbn. destruct q; reflexivity.
        * assert (length b = bs) as Eb by (apply (F 0); cbn; lia).
          rewrite nth_error_app2 by lia. rewrite Eb.
          rewrite <- IH; [|exact Hle'|eapply full_but_last_tl; eauto].
          unfold row_at, row_to_block_and_offset.
          assert (p / bs = S ((p - bs) / bs)) as Ed.
          { replace p with ((p - bs) + 1 * bs) at 1 by lia. rewrite Nat.div_add by lia. lia. }
          rewrite Ed. cbn [nth_error].
          replace (p - S ((p - bs) / bs) * bs) with (p - bs - (p - bs) / bs * bs) by (cbn [Nat.mul]; lia).
          reflexivity.
      + unfold row_at, row_to_block_and_offset. rewrite Nat.div_small by lia.
        cbn [nth_error Nat.mul]. rewrite Nat.sub_0_r.
        destruct (le_lt_dec (length b) p) as [L2|L2].
        * (* then b is short, hence last *)
          destruct bl as [|b' bl].
          -- cbn [concat]. now rewrite app_nil_r.
          -- assert (length b = bs) by (apply (F 0); cbn; lia). lia.
        * now rewrite nth_error_app1 by lia.
  Qed.

  Lemma wf_row_at bl p : 0 < bs -> WF_blocks bs bl -> row_at bs bl p = nth_error (concat bl) p.
  Proof.
    intros Hbs W. apply row_at_concat; [exact Hbs| |apply wf_full_but_last; exact W].
    apply Forall_forall. intros b Hb. destruct (In_nth _ _ [] Hb) as (i & Hi & <-).
    apply (wf_nth_size bs bl W i Hi).
  Qed.

  Lemma spec_offsets eu t1 t2 d :
    0 < bs -> WF_table bs t1 -> WF_table bs t2 ->
    In d (spec_diff eu t1 t2) -> dev_addr_ok bs (t_blocks t1) (t_blocks t2) d.
  Proof.
    intros Hbs W1 W2. unfold spec_diff.
    destruct (names_eqb (t_pk t1) (t_pk t2) &&
              (negb (length (t_pk t1) =? 0) || names_eqb (t_cols t1) (t_cols t2))); [|intros []].
    intros H. apply spec_rows_in in H; [|apply wf_keys_NoDup with (bs := bs); exact W2].
    pose proof (wf_row_at (t_blocks t1)) as R1. pose proof (wf_row_at (t_blocks t2)) as R2.
    destruct d as [k r p|k r p r' q|k r' q]; cbn [dev_exact] in H; cbn [dev_addr_ok];
      rewrite ?R1, ?R2 by assumption; tauto.
  Qed.
End Main.

(** * packaged corollaries about the implementation model *)
Section Packaged.
  Variable bs : nat.

  Lemma diff_events_exact eu t1 t2 :
    WF_table bs t1 -> WF_table bs t2 ->
    names_eqb (t_pk t1) (t_pk t2) = true ->
    (negb (length (t_pk t1) =? 0) || names_eqb (t_cols t1) (t_cols t2)) = true ->
    exists evs, diff_tables bs eu t1 t2 = Ok evs /\
      forall d, In d evs <->
        dev_exact eu (names_eqb (t_cols t1) (t_cols t2)) (concat (t_blocks t1)) (concat (t_blocks t2)) d.
  Proof.
    intros W1 W2 E1 E2. exists (spec_diff eu t1 t2). split; [now apply diff_correct|].
    intros d. unfold spec_diff. rewrite E1, E2. cbn [andb].
    apply spec_rows_in. apply wf_keys_NoDup with (bs := bs). exact W2.
  Qed.

  Lemma diff_self_empty t : WF_table bs t -> diff_tables bs false t t = Ok [].
  Proof. intros W. rewrite diff_correct by assumption. now rewrite (spec_self_empty bs t W). Qed.

  Lemma diff_swap eu t1 t2 :
    WF_table bs t1 -> WF_table bs t2 ->
    exists e12 e21,
      diff_tables bs eu t1 t2 = Ok e12 /\ diff_tables bs eu t2 t1 = Ok e21 /\
      Permutation (map dev_swap e12) e21 /\
      (forall d, In d e21 <-> In (dev_swap d) e12).
  Proof.
    intros W1 W2. exists (spec_diff eu t1 t2), (spec_diff eu t2 t1).
    split; [now apply diff_correct|]. split; [now apply diff_correct|].
    split; [now apply spec_swap_perm with (bs := bs)|].
    intros d. now apply spec_swap with (bs := bs).
  Qed.

  Lemma diff_offsets eu t1 t2 :
    0 < bs -> WF_table bs t1 -> WF_table bs t2 ->
    exists evs, diff_tables bs eu t1 t2 = Ok evs /\
                Forall (dev_addr_ok bs (t_blocks t1) (t_blocks t2)) evs.
  Proof.
    intros Hbs W1 W2. exists (spec_diff eu t1 t2). split; [now apply diff_correct|].
    apply Forall_forall. intros d Hd. now apply spec_offsets with (eu := eu).
  Qed.

  Lemma diff_no_dup eu t1 t2 :
    WF_table bs t1 -> WF_table bs t2 ->
    exists evs, diff_tables bs eu t1 t2 = Ok evs /\ NoDup (map dev_key evs).
  Proof.
    intros W1 W2. exists (spec_diff eu t1 t2). split; [now apply diff_correct|].
    now apply spec_keys_NoDup with (bs := bs).
  Qed.
End Packaged.

(** * the pre-fix code (no n == 0 guard) panics on an empty second table *)
Definition ex_t1 : tbl := mk_tbl [[97%N]] [[97%N]; [98%N]] [[([[49%N]], 1%N)]].
Definition ex_t0 : tbl := mk_tbl [[97%N]] [[97%N]; [98%N]] [].

Lemma empty_panics_prefix :
  exists t1 t2, WF_table 255 t1 /\ WF_table 255 t2 /\ diff_tables_prefix 255 false t1 t2 = Panic.
Proof.
  exists ex_t1, ex_t0.
  split; [apply wf_blocksb_sound; vm_compute; reflexivity|].
  split; [apply wf_blocksb_sound; vm_compute; reflexivity|].
  vm_compute. reflexivity.
Qed.

(** * non-vacuity: two 2-block tables *)
Definition ex_rows (n : nat) (step off : N) : list row :=
  map (fun i => ([be 2 (N.of_nat i * step + off)], (N.of_nat i * step + off) mod 7)%N) (seq 0 n).
Definition ex_a : tbl := mk_tbl [[97%N]] [[97%N]; [98%N]] (chunk 255 (ex_rows 300 2 0)).
Definition ex_b : tbl := mk_tbl [[97%N]] [[97%N]; [98%N]] (chunk 255 (ex_rows 290 3 50)).

Lemma nonvacuous :
  WF_table 255 ex_a /\ WF_table 255 ex_b /\
  length (t_blocks ex_a) = 2 /\ length (t_blocks ex_b) = 2 /\
  diff_tables 255 false ex_a ex_b = Ok (spec_diff false ex_a ex_b) /\
  length (spec_diff false ex_a ex_b) = 406.
Proof.
  split; [apply wf_blocksb_sound; vm_compute; reflexivity|].
  split; [apply wf_blocksb_sound; vm_compute; reflexivity|].
  split; [vm_compute; reflexivity|]. split; [vm_compute; reflexivity|].
  split; vm_compute; reflexivity.
Qed.
