(** C13 - prune: every prefix of the sweep keeps the invariants (tables before blocks and
    block indices, table before its index, commits last and children before parents). *)
From Coq Require Import List NArith Bool String Lia Permutation Arith.
From W.model Require Import CrashRepo Crash.
From W.proofs Require Import CrashRepo_proofs Crash_proofs CrashKahn_proofs.
Import ListNotations.
Local Open Scope N_scope.

(* ------------------------------------------------------------------ delete-only sequences *)

Lemma is_del_is_obj w : is_del w -> is_obj w.
Proof. destruct w; cbn; auto. Qed.

Lemma dels_refs ws s : Forall is_del ws -> refs (apply_all ws s) = refs s.
Proof. intros H. apply apply_all_obj_refs. eapply Forall_impl; [|exact H]. apply is_del_is_obj. Qed.

Lemma dels_commits ws : forall s, Forall is_del ws ->
  forall x, In x (commits (apply_all ws s)) <-> In x (commits s) /\ ~ In (DelCommit x) ws.
Proof.
  induction ws as [|w ws IH]; intros s H x.
  - cbn. tauto.
  - inversion H as [|? ? Hw Hws]; subst. rewrite apply_all_cons, (IH _ Hws), In_commits_apply. cbn [In].
    destruct w; cbn in Hw; try contradiction;
      try (split; [intros [H1 H2]; split; auto; intros [H3 | H3]; [discriminate | auto]
                  | intros [H1 H2]; split; auto]).
    split.
    + intros [[H1 H2] H3]. split; auto. intros [H4 | H4]; [inversion H4; subst; auto | auto].
    + intros [H1 H2]. split; [split; auto; intros ->; apply H2; auto | auto].
Qed.

Lemma dels_tables ws : forall s, Forall is_del ws ->
  forall x, In x (tables (apply_all ws s)) <-> In x (tables s) /\ ~ In (DelTable x) ws.
Proof.
  induction ws as [|w ws IH]; intros s H x.
  - cbn. tauto.
  - inversion H as [|? ? Hw Hws]; subst. rewrite apply_all_cons, (IH _ Hws), In_tables_apply. cbn [In].
    destruct w; cbn in Hw; try contradiction;
      try (split; [intros [H1 H2]; split; auto; intros [H3 | H3]; [discriminate | auto]
                  | intros [H1 H2]; split; auto]).
    split.
    + intros [[H1 H2] H3]. split; auto. intros [H4 | H4]; [inversion H4; subst; auto | auto].
    + intros [H1 H2]. split; [split; auto; intros ->; apply H2; auto | auto].
Qed.

(* ------------------------------------------------------------------ reachability *)

Lemma reachable_target s r c f : In (r, (c, f)) (refs s) -> In c (reachable s).
Proof.
  intros H. unfold reachable, ref_targets. apply in_flat_map. exists c. split; [|apply ancestors_self].
  apply in_map_iff. exists (r, (c, f)). auto.
Qed.

Lemma reachable_parent s c p : In c (reachable s) -> In p (c_parents c) -> In p (reachable s).
Proof.
  unfold reachable. intros H Hp. apply in_flat_map in H. destruct H as [t [Ht Hc]].
  apply in_flat_map. exists t. split; auto. eapply ancestors_parents_closed; eauto.
Qed.

Lemma reachable_ancestor s r c f a : In (r, (c, f)) (refs s) -> In a (ancestors c) -> In a (reachable s).
Proof.
  intros H Ha. unfold reachable, ref_targets. apply in_flat_map. exists c. split; auto.
  apply in_map_iff. exists (r, (c, f)). auto.
Qed.

Lemma In_to_remove s c : In c (commits_to_remove s) <-> In c (commits s) /\ ~ In c (reachable s).
Proof.
  unfold commits_to_remove. rewrite filter_In, negb_true_iff, (memb_false cid_eqb cid_eqb_eq). tauto.
Qed.

Lemma In_surviving s c : In c (surviving s) <-> In c (commits s) /\ In c (reachable s).
Proof. unfold surviving. rewrite filter_In, (memb_In cid_eqb cid_eqb_eq). tauto. Qed.

Lemma reachable_same_refs s s' : refs s' = refs s -> reachable s' = reachable s.
Proof. unfold reachable, ref_targets. intros ->. reflexivity. Qed.

(* ------------------------------------------------------------------ shapes *)

Section Prune.
  Variable sk : skels.
  Hypothesis Hprune : prune_skel_ok (sk_prune sk) = true.
  Hypothesis Htables : prune_tables_skel_ok (sk_prune_tables sk) = true.

  Lemma prune_table_writes_cases t :
    prune_table_writes sk t = [DelTable t; DelTblIdx t; DelProf t] \/
    prune_table_writes sk t = [DelTable t; DelProf t; DelTblIdx t].
  Proof.
    pose proof (one_of_In _ _ Htables) as H. unfold prune_table_writes.
    destruct H as [H | [H | []]]; rewrite <- H; [left | right]; reflexivity.
  Qed.

  Definition phaseT s := flat_map (prune_table_writes sk) (tables_to_remove s).
  Definition phaseB s := map DelBlock (blocks_to_remove s).
  Definition phaseI s := map DelBlkIdx (blkidx_to_remove s).
  Definition phaseC s := map DelCommit (commit_order sk (commits_to_remove s)).

  Lemma prune_writes_cases s :
    prune_writes sk s = [] /\ commits_to_remove s = [] \/
    commits_to_remove s <> [] /\
    (prune_writes sk s = phaseT s ++ phaseB s ++ phaseI s ++ phaseC s \/
     prune_writes sk s = phaseT s ++ phaseI s ++ phaseB s ++ phaseC s).
  Proof.
    pose proof (one_of_In _ _ Hprune) as H. unfold prune_writes.
    destruct (commits_to_remove s) as [|c0 l0] eqn:E; [left; auto|]. right. split; [discriminate|].
    unfold phaseT, phaseB, phaseI, phaseC. rewrite E.
    destruct H as [H | [H | []]]; rewrite <- H; [left | right]; cbn; rewrite app_nil_r; reflexivity.
  Qed.

  Lemma phaseT_is_del s : Forall is_del (phaseT s).
  Proof.
    apply Forall_forall. intros w Hw. unfold phaseT in Hw. apply in_flat_map in Hw.
    destruct Hw as [t [_ Hw]]. destruct (prune_table_writes_cases t) as [E | E]; rewrite E in Hw;
      cbn in Hw; destruct Hw as [<- | [<- | [<- | []]]]; exact I.
  Qed.
  Lemma phaseB_is_del s : Forall is_del (phaseB s).
  Proof. apply Forall_forall. intros w Hw. apply in_map_iff in Hw. destruct Hw as [b [<- _]]. exact I. Qed.
  Lemma phaseI_is_del s : Forall is_del (phaseI s).
  Proof. apply Forall_forall. intros w Hw. apply in_map_iff in Hw. destruct Hw as [b [<- _]]. exact I. Qed.
  Lemma phaseC_is_del s : Forall is_del (phaseC s).
  Proof. apply Forall_forall. intros w Hw. apply in_map_iff in Hw. destruct Hw as [b [<- _]]. exact I. Qed.

  Lemma prune_is_del s : Forall is_del (prune_writes sk s).
  Proof.
    destruct (prune_writes_cases s) as [[E _] | [_ [E | E]]]; rewrite E; [constructor | |];
      repeat (apply Forall_app; split);
      auto using phaseT_is_del, phaseB_is_del, phaseI_is_del, phaseC_is_del.
  Qed.

  Lemma phaseT_no_commit s c : ~ In (DelCommit c) (phaseT s).
  Proof.
    intros Hw. unfold phaseT in Hw. apply in_flat_map in Hw.
    destruct Hw as [t [_ Hw]]. destruct (prune_table_writes_cases t) as [E | E]; rewrite E in Hw;
      cbn in Hw; destruct Hw as [H | [H | [H | []]]]; discriminate.
  Qed.
  Lemma phaseB_no_commit s c : ~ In (DelCommit c) (phaseB s).
  Proof. intros Hw. apply in_map_iff in Hw. destruct Hw as [b [H _]]. discriminate. Qed.
  Lemma phaseI_no_commit s c : ~ In (DelCommit c) (phaseI s).
  Proof. intros Hw. apply in_map_iff in Hw. destruct Hw as [b [H _]]. discriminate. Qed.
  Lemma phaseB_no_table s t : ~ In (DelTable t) (phaseB s).
  Proof. intros Hw. apply in_map_iff in Hw. destruct Hw as [b [H _]]. discriminate. Qed.
  Lemma phaseI_no_table s t : ~ In (DelTable t) (phaseI s).
  Proof. intros Hw. apply in_map_iff in Hw. destruct Hw as [b [H _]]. discriminate. Qed.
  Lemma phaseT_has_table s t : In t (tables_to_remove s) -> In (DelTable t) (phaseT s).
  Proof.
    intros H. unfold phaseT. apply in_flat_map. exists t. split; auto.
    destruct (prune_table_writes_cases t) as [E | E]; rewrite E; left; reflexivity.
  Qed.

  (* ---------------------------------------------------------------- phases *)

  Variable s : state.
  Hypothesis Hinv : Inv s.

  Lemma target_table_kept r c : In (r, (c, true)) (refs s) -> kept_table s (c_table c) = true.
  Proof.
    intros H. destruct Hinv as (Hc & Hr & _). unfold kept_table. apply (memb_In table_eqb table_eqb_eq).
    apply in_map. apply In_surviving. split; [eapply Hr; eauto | eapply reachable_target; eauto].
  Qed.

  Lemma phaseT_safe L : (forall t, In t L -> kept_table s t = false) ->
    forall s', refs s' = refs s -> safe_seq s' (flat_map (prune_table_writes sk) L).
  Proof.
    induction L as [|t L IH]; intros HL s' Hrefs; [exact I|]. cbn [flat_map].
    assert (Hdt : safe (DelTable t) s').
    { split; [exact I|]. cbn. rewrite Hrefs. intros r c Hin E.
      pose proof (target_table_kept r c Hin) as K. rewrite E in K. rewrite (HL t (or_introl eq_refl)) in K. discriminate. }
    assert (Hti : forall s'', safe (DelTblIdx t) (apply (DelTable t) s'') /\
                              safe (DelTblIdx t) (apply (DelProf t) (apply (DelTable t) s''))).
    { intros s''. split; (split; [exact I|]); cbn; intros Hin.
      - apply In_tables_apply in Hin. cbn in Hin. tauto.
      - apply In_tables_apply in Hin. cbn in Hin. apply In_tables_apply in Hin. cbn in Hin. tauto. }
    apply safe_seq_app.
    - destruct (prune_table_writes_cases t) as [E | E]; rewrite E; cbn [safe_seq].
      + split; [exact Hdt|]. split; [apply (Hti s')|]. split; [split; exact I | exact I].
      + split; [exact Hdt|]. split; [split; exact I|]. split; [apply (Hti s') | exact I].
    - apply IH; [intros; apply HL; right; auto|].
      rewrite dels_refs; auto.
      destruct (prune_table_writes_cases t) as [E | E]; rewrite E; repeat constructor.
  Qed.

  Lemma del_blocks_safe L : (forall b, In b L -> ~ In b (flat_map t_blocks (kept_tables s))) ->
    forall s', (forall t, In t (tables s') -> In t (kept_tables s)) -> safe_seq s' (map DelBlock L).
  Proof.
    induction L as [|b L IH]; intros HL s' Ht; [exact I|]. cbn [map]. split.
    - split; [exact I|]. cbn. intros t Hin Hb. apply (HL b (or_introl eq_refl)).
      apply in_flat_map. exists t. split; auto.
    - apply IH; [intros; apply HL; right; auto|]. intros t Hin. apply In_tables_apply in Hin. cbn in Hin. auto.
  Qed.

  Lemma del_blkidx_safe L : (forall b, In b L -> ~ In b (flat_map t_blkidx (kept_tables s))) ->
    forall s', (forall t, In t (tables s') -> In t (kept_tables s)) -> safe_seq s' (map DelBlkIdx L).
  Proof.
    induction L as [|b L IH]; intros HL s' Ht; [exact I|]. cbn [map]. split.
    - split; [exact I|]. cbn. intros t Hin Hb. apply (HL b (or_introl eq_refl)).
      apply in_flat_map. exists t. split; auto.
    - apply IH; [intros; apply HL; right; auto|]. intros t Hin. apply In_tables_apply in Hin. cbn in Hin. auto.
  Qed.

  Lemma phaseB_safe s' : (forall t, In t (tables s') -> In t (kept_tables s)) -> safe_seq s' (phaseB s).
  Proof.
    apply del_blocks_safe. intros b Hb. unfold blocks_to_remove in Hb. apply filter_In in Hb.
    destruct Hb as [_ Hb]. apply negb_true_iff in Hb. apply (memb_false N.eqb N.eqb_eq) in Hb. exact Hb.
  Qed.

  Lemma phaseI_safe s' : (forall t, In t (tables s') -> In t (kept_tables s)) -> safe_seq s' (phaseI s).
  Proof.
    apply del_blkidx_safe. intros b Hb. unfold blkidx_to_remove in Hb. apply filter_In in Hb.
    destruct Hb as [_ Hb]. apply negb_true_iff in Hb. apply (memb_false N.eqb N.eqb_eq) in Hb. exact Hb.
  Qed.

  (** after the table phase only kept tables are left *)
  Lemma after_phaseT_tables ws : Forall is_del ws -> (forall t, In (DelTable t) (phaseT s) -> In (DelTable t) ws) ->
    forall t, In t (tables (apply_all ws s)) -> In t (kept_tables s).
  Proof.
    intros Hd Hsub t Hin. apply (dels_tables ws s Hd) in Hin. destruct Hin as [Hin Hnd].
    unfold kept_tables. apply filter_In. split; auto.
    destruct (kept_table s t) eqn:K; auto. exfalso. apply Hnd. apply Hsub. apply phaseT_has_table.
    unfold tables_to_remove. apply filter_In. rewrite K. auto.
  Qed.

  (** the commit phase, for any order that enumerates commits to remove children first *)
  Lemma del_commits_safe out :
    (forall x, In x out -> In x (commits_to_remove s)) ->
    (forall pre p post, out = pre ++ p :: post ->
       forall c, In c (commits_to_remove s) -> In p (c_parents c) -> In c pre) ->
    forall rest done, out = done ++ rest ->
    forall s', refs s' = refs s ->
      (forall x, In x (commits s') <-> In x (commits s) /\ ~ In x done) ->
      safe_seq s' (map DelCommit rest).
  Proof.
    intros Hsub Hord. induction rest as [|c rest IH]; intros done E s' Hrefs Hcom; [exact I|].
    assert (Hcl : In c (commits_to_remove s)) by (apply Hsub; rewrite E; apply in_or_app; right; left; auto).
    pose proof Hcl as Hcl'. apply In_to_remove in Hcl'. destruct Hcl' as [Hcs Hcu].
    cbn [map]. split.
    - split.
      + (* Closed: no stored commit still names c as a parent *)
        cbn. intros c' Hc' Hne Hpar. apply Hcom in Hc'. destruct Hc' as [Hc's Hc'd].
        destruct (memb cid_eqb c' (reachable s)) eqn:M.
        * apply (memb_In cid_eqb cid_eqb_eq) in M. apply Hcu. eapply reachable_parent; eauto.
        * apply (memb_false cid_eqb cid_eqb_eq) in M. apply Hc'd.
          apply (Hord done c rest E c'); auto. apply In_to_remove. auto.
      + cbn. rewrite Hrefs. intros r c' f Hin ->. apply Hcu. eapply reachable_target; eauto.
    - apply (IH (done ++ [c])).
      + rewrite <- app_assoc. exact E.
      + rewrite apply_obj_refs; [exact Hrefs | exact I].
      + intros x. rewrite In_commits_apply. cbn. rewrite Hcom, in_app_iff. cbn. split.
        * intros [[H1 H2] H3]. split; auto. intros [H | [H | []]]; auto.
        * intros [H1 H2]. split; [split; auto|]; intros H; apply H2; auto.
  Qed.

  Hypothesis Hwf : WF s.
  Hypothesis Horder : prune_commit_order_ok (sk_prune_commit_order sk) = true.

  Lemma commit_order_eq l : commit_order sk l = children_first l.
  Proof.
    unfold commit_order, prune_commit_order_ok, is_name in *. rewrite Horder. reflexivity.
  Qed.

  Lemma to_remove_NoDup : NoDup (commits_to_remove s).
  Proof. unfold commits_to_remove. apply NoDup_filter. exact Hwf. Qed.

  Lemma phaseC_safe s' : refs s' = refs s -> (forall x, In x (commits s') <-> In x (commits s)) ->
    safe_seq s' (phaseC s).
  Proof.
    intros Hrefs Hcom. unfold phaseC. rewrite commit_order_eq.
    destruct (children_first_spec (commits_to_remove s) to_remove_NoDup) as (Hin & _ & Hord).
    apply (del_commits_safe (children_first (commits_to_remove s))) with (done := []); auto.
    - intros x Hx. apply Hin; auto.
    - intros x. rewrite Hcom. cbn. tauto.
  Qed.

  Lemma same_commits ws : Forall is_del ws -> (forall c, ~ In (DelCommit c) ws) ->
    forall x, In x (commits (apply_all ws s)) <-> In x (commits s).
  Proof.
    intros Hd Hn x. rewrite (dels_commits ws s Hd). split; [tauto | intros H; split; auto].
  Qed.

  Theorem prune_safe : safe_seq s (prune_writes sk s).
  Proof.
    assert (HT : safe_seq s (phaseT s)).
    { apply phaseT_safe; auto. intros t Ht. unfold tables_to_remove in Ht. apply filter_In in Ht.
      destruct Ht as [_ Ht]. apply negb_true_iff in Ht. exact Ht. }
    pose proof (phaseT_is_del s) as DT. pose proof (phaseB_is_del s) as DB.
    pose proof (phaseI_is_del s) as DI.
    destruct (prune_writes_cases s) as [[E _] | [_ [E | E]]]; rewrite E; [exact I | |].
    - apply safe_seq_app; auto. apply safe_seq_app; [|apply safe_seq_app].
      + apply phaseB_safe. apply after_phaseT_tables; auto.
      + rewrite <- apply_all_app. apply phaseI_safe. apply after_phaseT_tables.
        * apply Forall_app; auto.
        * intros t Ht. apply in_or_app; auto.
      + rewrite <- !apply_all_app. apply phaseC_safe.
        * apply dels_refs. repeat (apply Forall_app; split); auto.
        * apply same_commits; [repeat (apply Forall_app; split); auto|].
          intros c Hc. rewrite !in_app_iff in Hc.
          destruct Hc as [Hc | [Hc | Hc]];
            [eapply phaseT_no_commit | eapply phaseB_no_commit | eapply phaseI_no_commit]; eauto.
    - apply safe_seq_app; auto. apply safe_seq_app; [|apply safe_seq_app].
      + apply phaseI_safe. apply after_phaseT_tables; auto.
      + rewrite <- apply_all_app. apply phaseB_safe. apply after_phaseT_tables.
        * apply Forall_app; auto.
        * intros t Ht. apply in_or_app; auto.
      + rewrite <- !apply_all_app. apply phaseC_safe.
        * apply dels_refs. repeat (apply Forall_app; split); auto.
        * apply same_commits; [repeat (apply Forall_app; split); auto|].
          intros c Hc. rewrite !in_app_iff in Hc.
          destruct Hc as [Hc | [Hc | Hc]];
            [eapply phaseT_no_commit | eapply phaseI_no_commit | eapply phaseB_no_commit]; eauto.
  Qed.

  Theorem prune_prefix_consistent n : Inv (crash n (prune_writes sk s) s).
  Proof. apply safe_seq_prefix; auto. apply prune_safe. Qed.

End Prune.
