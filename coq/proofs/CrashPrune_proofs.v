(** C13 - prune: every prefix of the sweep keeps the invariants (tables before blocks and
    block indices, table before its index, commits last and children before parents). *)
From Coq Require Import List NArith Bool String Lia Permutation Arith.
From W.model Require Import CrashRepo Crash.
From W.proofs Require Import CrashRepo_proofs Crash_proofs CrashKahn_proofs.
Import ListNotations.
Local Open Scope N_scope.

(* ------------------------------------------------------------------ delete-only sequences *)

Lemma is_del_is_obj w : is_del w -> is_obj w.
Proof. destruct w; cbn; auto. Qed.

Lemma dels_refs ws s : Forall is_del ws -> refs (apply_all ws s) = refs s.
Proof. intros H. apply apply_all_obj_refs. eapply Forall_impl; [|exact H]. apply is_del_is_obj. Qed.

Lemma dels_commits ws : forall s, Forall is_del ws ->
  forall x, In x (commits (apply_all ws s)) <-> In x (commits s) /\ ~ In (DelCommit x) ws.
Proof.
  induction ws as [|w ws IH]; intros s H x.
  - cbn. tauto.
  - inversion H as [|? ? Hw Hws]; subst. rewrite apply_all_cons, (IH _ Hws), In_commits_apply. cbn [In].
    destruct w; cbn in Hw; try contradiction;
      try (split; [intros [H1 H2]; split; auto; intros [H3 | H3]; [discriminate | auto]
                  | intros [H1 H2]; split; auto]).
    split.
    + intros [[H1 H2] H3]. split; auto. intros [H4 | H4]; [inversion H4; subst; auto | auto].
    + intros [H1 H2]. split; [split; auto; intros ->; apply H2; auto | auto].
Qed.

Lemma dels_tables ws : forall s, Forall is_del ws ->
  forall x, In x (tables (apply_all ws s)) <-> In x (tables s) /\ ~ In (DelTable x) ws.
Proof.
  induction ws as [|w ws IH]; intros s H x.
  - cbn. tauto.
  - inversion H as [|? ? Hw Hws]; subst. rewrite apply_all_cons, (IH _ Hws), In_tables_apply. cbn [In].
    destruct w; cbn in Hw; try contradiction;
      try (split; [intros [H1 H2]; split; auto; intros [H3 | H3]; [discriminate | auto]
                  | intros [H1 H2]; split; auto]).
    split.
    + intros [[H1 H2] H3]. split; auto. intros [H4 | H4]; [inversion H4; subst; auto | auto].
    + intros [H1 H2]. split; [split; auto; intros ->; apply H2; auto | auto].
Qed.


Lemma dels_tblidx ws : forall s, Forall is_del ws ->
  forall x, In x (tblidx (apply_all ws s)) <-> In x (tblidx s) /\ ~ In (DelTblIdx x) ws.
Proof.
  induction ws as [|w ws IH]; intros s H x.
  - cbn. tauto.
  - inversion H as [|? ? Hw Hws]; subst. rewrite apply_all_cons, (IH _ Hws), In_tblidx_apply. cbn [In].
    destruct w; cbn in Hw; try contradiction;
      try (split; [intros [H1 H2]; split; auto; intros [H3 | H3]; [discriminate | auto]
                  | intros [H1 H2]; split; auto]).
    split.
    + intros [[H1 H2] H3]. split; auto. intros [H4 | H4]; [inversion H4; subst; auto | auto].
    + intros [H1 H2]. split; [split; auto; intros ->; apply H2; auto | auto].
Qed.

Lemma dels_prof ws : forall s, Forall is_del ws ->
  forall x, In x (prof (apply_all ws s)) <-> In x (prof s) /\ ~ In (DelProf x) ws.
Proof.
  induction ws as [|w ws IH]; intros s H x.
  - cbn. tauto.
  - inversion H as [|? ? Hw Hws]; subst. rewrite apply_all_cons, (IH _ Hws), In_prof_apply. cbn [In].
    destruct w; cbn in Hw; try contradiction;
      try (split; [intros [H1 H2]; split; auto; intros [H3 | H3]; [discriminate | auto]
                  | intros [H1 H2]; split; auto]).
    split.
    + intros [[H1 H2] H3]. split; auto. intros [H4 | H4]; [inversion H4; subst; auto | auto].
    + intros [H1 H2]. split; [split; auto; intros ->; apply H2; auto | auto].
Qed.

Lemma dels_blocks ws : forall s, Forall is_del ws ->
  forall x, In x (blocks (apply_all ws s)) <-> In x (blocks s) /\ ~ In (DelBlock x) ws.
Proof.
  induction ws as [|w ws IH]; intros s H x.
  - cbn. tauto.
  - inversion H as [|? ? Hw Hws]; subst. rewrite apply_all_cons, (IH _ Hws), In_blocks_apply. cbn [In].
    destruct w; cbn in Hw; try contradiction;
      try (split; [intros [H1 H2]; split; auto; intros [H3 | H3]; [discriminate | auto]
                  | intros [H1 H2]; split; auto]).
    split.
    + intros [[H1 H2] H3]. split; auto. intros [H4 | H4]; [inversion H4; subst; auto | auto].
    + intros [H1 H2]. split; [split; auto; intros ->; apply H2; auto | auto].
Qed.

Lemma dels_blkidx ws : forall s, Forall is_del ws ->
  forall x, In x (blkidx (apply_all ws s)) <-> In x (blkidx s) /\ ~ In (DelBlkIdx x) ws.
Proof.
  induction ws as [|w ws IH]; intros s H x.
  - cbn. tauto.
  - inversion H as [|? ? Hw Hws]; subst. rewrite apply_all_cons, (IH _ Hws), In_blkidx_apply. cbn [In].
    destruct w; cbn in Hw; try contradiction;
      try (split; [intros [H1 H2]; split; auto; intros [H3 | H3]; [discriminate | auto]
                  | intros [H1 H2]; split; auto]).
    split.
    + intros [[H1 H2] H3]. split; auto. intros [H4 | H4]; [inversion H4; subst; auto | auto].
    + intros [H1 H2]. split; [split; auto; intros ->; apply H2; auto | auto].
Qed.

Lemma memb_ext {A} (e : A -> A -> bool) (He : forall a b, e a b = true <-> a = b) x l1 l2 :
  (forall y, In y l1 <-> In y l2) -> memb e x l1 = memb e x l2.
Proof.
  intros H. destruct (memb e x l2) eqn:E.
  - apply (memb_In e He). apply H. apply (memb_In e He). exact E.
  - apply (memb_false e He). intros Hin. apply H in Hin. apply (memb_false e He) in E. contradiction.
Qed.

Lemma firstn_incl {A} n (l : list A) x : In x (firstn n l) -> In x l.
Proof. intros H. rewrite <- (firstn_skipn n l). apply in_or_app; auto. Qed.

(* ------------------------------------------------------------------ reachability *)

Lemma reachable_target s r c f : In (r, (c, f)) (refs s) -> In c (reachable s).
Proof.
  intros H. unfold reachable, ref_targets. apply in_flat_map. exists c. split; [|apply ancestors_self].
  apply in_map_iff. exists (r, (c, f)). auto.
Qed.

Lemma reachable_parent s c p : In c (reachable s) -> In p (c_parents c) -> In p (reachable s).
Proof.
  unfold reachable. intros H Hp. apply in_flat_map in H. destruct H as [t [Ht Hc]].
  apply in_flat_map. exists t. split; auto. eapply ancestors_parents_closed; eauto.
Qed.

Lemma reachable_ancestor s r c f a : In (r, (c, f)) (refs s) -> In a (ancestors c) -> In a (reachable s).
Proof.
  intros H Ha. unfold reachable, ref_targets. apply in_flat_map. exists c. split; auto.
  apply in_map_iff. exists (r, (c, f)). auto.
Qed.

Lemma In_to_remove s c : In c (commits_to_remove s) <-> In c (commits s) /\ ~ In c (reachable s).
Proof.
  unfold commits_to_remove. rewrite filter_In, negb_true_iff, (memb_false cid_eqb cid_eqb_eq). tauto.
Qed.

Lemma In_surviving s c : In c (surviving s) <-> In c (commits s) /\ In c (reachable s).
Proof. unfold surviving. rewrite filter_In, (memb_In cid_eqb cid_eqb_eq). tauto. Qed.

Lemma reachable_same_refs s s' : refs s' = refs s -> reachable s' = reachable s.
Proof. unfold reachable, ref_targets. intros ->. reflexivity. Qed.

(* ------------------------------------------------------------------ shapes *)

Section Prune.
  Variable sk : skels.
  Hypothesis Hprune : prune_skel_ok (sk_prune sk) = true.
  Hypothesis Htables : prune_tables_skel_ok (sk_prune_tables sk) = true.

  Lemma prune_table_writes_cases t :
    prune_table_writes sk t = [DelTable t; DelTblIdx t; DelProf t] \/
    prune_table_writes sk t = [DelTable t; DelProf t; DelTblIdx t].
  Proof.
    pose proof (one_of_In _ _ Htables) as H. unfold prune_table_writes.
    destruct H as [H | [H | []]]; rewrite <- H; [left | right]; reflexivity.
  Qed.

  Definition phaseT s := flat_map (prune_table_writes sk) (tables_to_remove s).
  Definition phaseB s := map DelBlock (blocks_to_remove s).
  Definition phaseI s := map DelBlkIdx (blkidx_to_remove s).
  Definition phaseC s := map DelCommit (commit_order sk (commits_to_remove s)).

  Lemma prune_writes_cases s :
    prune_writes sk s = [] /\ commits_to_remove s = [] \/
    commits_to_remove s <> [] /\
    (prune_writes sk s = phaseT s ++ phaseB s ++ phaseI s ++ phaseC s \/
     prune_writes sk s = phaseT s ++ phaseI s ++ phaseB s ++ phaseC s).
  Proof.
    pose proof (one_of_In _ _ Hprune) as H. unfold prune_writes.
    destruct (commits_to_remove s) as [|c0 l0] eqn:E; [left; auto|]. right. split; [discriminate|].
    unfold phaseT, phaseB, phaseI, phaseC. rewrite E.
    destruct H as [H | [H | []]]; rewrite <- H; [left | right]; cbn; rewrite app_nil_r; reflexivity.
  Qed.

  Lemma phaseT_is_del s : Forall is_del (phaseT s).
  Proof.
    apply Forall_forall. intros w Hw. unfold phaseT in Hw. apply in_flat_map in Hw.
    destruct Hw as [t [_ Hw]]. destruct (prune_table_writes_cases t) as [E | E]; rewrite E in Hw;
      cbn in Hw; destruct Hw as [<- | [<- | [<- | []]]]; exact I.
  Qed.
  Lemma phaseB_is_del s : Forall is_del (phaseB s).
  Proof. apply Forall_forall. intros w Hw. apply in_map_iff in Hw. destruct Hw as [b [<- _]]. exact I. Qed.
  Lemma phaseI_is_del s : Forall is_del (phaseI s).
  Proof. apply Forall_forall. intros w Hw. apply in_map_iff in Hw. destruct Hw as [b [<- _]]. exact I. Qed.
  Lemma phaseC_is_del s : Forall is_del (phaseC s).
  Proof. apply Forall_forall. intros w Hw. apply in_map_iff in Hw. destruct Hw as [b [<- _]]. exact I. Qed.

  Lemma prune_is_del s : Forall is_del (prune_writes sk s).
  Proof.
    destruct (prune_writes_cases s) as [[E _] | [_ [E | E]]]; rewrite E; [constructor | |];
      repeat (apply Forall_app; split);
      auto using phaseT_is_del, phaseB_is_del, phaseI_is_del, phaseC_is_del.
  Qed.

  Lemma phaseT_no_commit s c : ~ In (DelCommit c) (phaseT s).
  Proof.
    intros Hw. unfold phaseT in Hw. apply in_flat_map in Hw.
    destruct Hw as [t [_ Hw]]. destruct (prune_table_writes_cases t) as [E | E]; rewrite E in Hw;
      cbn in Hw; destruct Hw as [H | [H | [H | []]]]; discriminate.
  Qed.
  Lemma phaseB_no_commit s c : ~ In (DelCommit c) (phaseB s).
  Proof. intros Hw. apply in_map_iff in Hw. destruct Hw as [b [H _]]. discriminate. Qed.
  Lemma phaseI_no_commit s c : ~ In (DelCommit c) (phaseI s).
  Proof. intros Hw. apply in_map_iff in Hw. destruct Hw as [b [H _]]. discriminate. Qed.
  Lemma phaseB_no_table s t : ~ In (DelTable t) (phaseB s).
  Proof. intros Hw. apply in_map_iff in Hw. destruct Hw as [b [H _]]. discriminate. Qed.
  Lemma phaseI_no_table s t : ~ In (DelTable t) (phaseI s).
  Proof. intros Hw. apply in_map_iff in Hw. destruct Hw as [b [H _]]. discriminate. Qed.
  Lemma phaseT_has_table s t : In t (tables_to_remove s) -> In (DelTable t) (phaseT s).
  Proof.
    intros H. unfold phaseT. apply in_flat_map. exists t. split; auto.
    destruct (prune_table_writes_cases t) as [E | E]; rewrite E; left; reflexivity.
  Qed.

  (* ---------------------------------------------------------------- phases *)

  Variable s : state.
  Hypothesis Hinv : Inv s.

  Lemma target_table_kept r c : In (r, (c, true)) (refs s) -> kept_table s (c_table c) = true.
  Proof.
    intros H. destruct Hinv as (Hc & Hr & _). unfold kept_table. apply (memb_In table_eqb table_eqb_eq).
    apply in_map. apply In_surviving. split; [eapply Hr; eauto | eapply reachable_target; eauto].
  Qed.

  Lemma phaseT_safe L : (forall t, In t L -> kept_table s t = false) ->
    forall s', refs s' = refs s -> safe_seq s' (flat_map (prune_table_writes sk) L).
  Proof.
    induction L as [|t L IH]; intros HL s' Hrefs; [exact I|]. cbn [flat_map].
    assert (Hdt : safe (DelTable t) s').
    { split; [exact I|]. cbn. rewrite Hrefs. intros r c Hin E.
      pose proof (target_table_kept r c Hin) as K. rewrite E in K. rewrite (HL t (or_introl eq_refl)) in K. discriminate. }
    assert (Hti : forall s'', safe (DelTblIdx t) (apply (DelTable t) s'') /\
                              safe (DelTblIdx t) (apply (DelProf t) (apply (DelTable t) s''))).
    { intros s''. split; (split; [exact I|]); cbn; intros Hin.
      - apply In_tables_apply in Hin. cbn in Hin. tauto.
      - apply In_tables_apply in Hin. cbn in Hin. apply In_tables_apply in Hin. cbn in Hin. tauto. }
    apply safe_seq_app.
    - destruct (prune_table_writes_cases t) as [E | E]; rewrite E; cbn [safe_seq].
      + split; [exact Hdt|]. split; [apply (Hti s')|]. split; [split; exact I | exact I].
      + split; [exact Hdt|]. split; [split; exact I|]. split; [apply (Hti s') | exact I].
    - apply IH; [intros; apply HL; right; auto|].
      rewrite dels_refs; auto.
      destruct (prune_table_writes_cases t) as [E | E]; rewrite E; repeat constructor.
  Qed.

  Lemma del_blocks_safe L : (forall b, In b L -> ~ In b (flat_map t_blocks (kept_tables s))) ->
    forall s', (forall t, In t (tables s') -> In t (kept_tables s)) -> safe_seq s' (map DelBlock L).
  Proof.
    induction L as [|b L IH]; intros HL s' Ht; [exact I|]. cbn [map]. split.
    - split; [exact I|]. cbn. intros t Hin Hb. apply (HL b (or_introl eq_refl)).
      apply in_flat_map. exists t. split; auto.
    - apply IH; [intros; apply HL; right; auto|]. intros t Hin. apply In_tables_apply in Hin. cbn in Hin. auto.
  Qed.

  Lemma del_blkidx_safe L : (forall b, In b L -> ~ In b (flat_map t_blkidx (kept_tables s))) ->
    forall s', (forall t, In t (tables s') -> In t (kept_tables s)) -> safe_seq s' (map DelBlkIdx L).
  Proof.
    induction L as [|b L IH]; intros HL s' Ht; [exact I|]. cbn [map]. split.
    - split; [exact I|]. cbn. intros t Hin Hb. apply (HL b (or_introl eq_refl)).
      apply in_flat_map. exists t. split; auto.
    - apply IH; [intros; apply HL; right; auto|]. intros t Hin. apply In_tables_apply in Hin. cbn in Hin. auto.
  Qed.

  Lemma phaseB_safe s' : (forall t, In t (tables s') -> In t (kept_tables s)) -> safe_seq s' (phaseB s).
  Proof.
    apply del_blocks_safe. intros b Hb. unfold blocks_to_remove in Hb. apply filter_In in Hb.
    destruct Hb as [_ Hb]. apply negb_true_iff in Hb. apply (memb_false N.eqb N.eqb_eq) in Hb. exact Hb.
  Qed.

  Lemma phaseI_safe s' : (forall t, In t (tables s') -> In t (kept_tables s)) -> safe_seq s' (phaseI s).
  Proof.
    apply del_blkidx_safe. intros b Hb. unfold blkidx_to_remove in Hb. apply filter_In in Hb.
    destruct Hb as [_ Hb]. apply negb_true_iff in Hb. apply (memb_false N.eqb N.eqb_eq) in Hb. exact Hb.
  Qed.

  (** after the table phase only kept tables are left *)
  Lemma after_phaseT_tables ws : Forall is_del ws -> (forall t, In (DelTable t) (phaseT s) -> In (DelTable t) ws) ->
    forall t, In t (tables (apply_all ws s)) -> In t (kept_tables s).
  Proof.
    intros Hd Hsub t Hin. apply (dels_tables ws s Hd) in Hin. destruct Hin as [Hin Hnd].
    unfold kept_tables. apply filter_In. split; auto.
    destruct (kept_table s t) eqn:K; auto. exfalso. apply Hnd. apply Hsub. apply phaseT_has_table.
    unfold tables_to_remove. apply filter_In. rewrite K. auto.
  Qed.

  (** the commit phase, for any order that enumerates commits to remove children first *)
  Lemma del_commits_safe out :
    (forall x, In x out -> In x (commits_to_remove s)) ->
    (forall pre p post, out = pre ++ p :: post ->
       forall c, In c (commits_to_remove s) -> In p (c_parents c) -> In c pre) ->
    forall rest done, out = done ++ rest ->
    forall s', refs s' = refs s ->
      (forall x, In x (commits s') <-> In x (commits s) /\ ~ In x done) ->
      safe_seq s' (map DelCommit rest).
  Proof.
    intros Hsub Hord. induction rest as [|c rest IH]; intros done E s' Hrefs Hcom; [exact I|].
    assert (Hcl : In c (commits_to_remove s)) by (apply Hsub; rewrite E; apply in_or_app; right; left; auto).
    pose proof Hcl as Hcl'. apply In_to_remove in Hcl'. destruct Hcl' as [Hcs Hcu].
    cbn [map]. split.
    - split.
      + (* Closed: no stored commit still names c as a parent *)
        cbn. intros c' Hc' Hne Hpar. apply Hcom in Hc'. destruct Hc' as [Hc's Hc'd].
        destruct (memb cid_eqb c' (reachable s)) eqn:M.
        * apply (memb_In cid_eqb cid_eqb_eq) in M. apply Hcu. eapply reachable_parent; eauto.
        * apply (memb_false cid_eqb cid_eqb_eq) in M. apply Hc'd.
          apply (Hord done c rest E c'); auto. apply In_to_remove. auto.
      + cbn. rewrite Hrefs. intros r c' f Hin ->. apply Hcu. eapply reachable_target; eauto.
    - apply (IH (done ++ [c])).
      + rewrite <- app_assoc. exact E.
      + rewrite apply_obj_refs; [exact Hrefs | exact I].
      + intros x. rewrite In_commits_apply. cbn. rewrite Hcom, in_app_iff. cbn. split.
        * intros [[H1 H2] H3]. split; auto. intros [H | [H | []]]; auto.
        * intros [H1 H2]. split; [split; auto|]; intros H; apply H2; auto.
  Qed.

  Hypothesis Hwf : WF s.
  Hypothesis Horder : prune_commit_order_ok (sk_prune_commit_order sk) = true.

  Lemma commit_order_eq l : commit_order sk l = children_first l.
  Proof.
    unfold commit_order, prune_commit_order_ok, is_name in *. rewrite Horder. reflexivity.
  Qed.

  Lemma to_remove_NoDup : NoDup (commits_to_remove s).
  Proof. unfold commits_to_remove. apply NoDup_filter. exact Hwf. Qed.

  Lemma phaseC_safe s' : refs s' = refs s -> (forall x, In x (commits s') <-> In x (commits s)) ->
    safe_seq s' (phaseC s).
  Proof.
    intros Hrefs Hcom. unfold phaseC. rewrite commit_order_eq.
    destruct (children_first_spec (commits_to_remove s) to_remove_NoDup) as (Hin & _ & Hord).
    apply (del_commits_safe (children_first (commits_to_remove s))) with (done := []); auto.
    - intros x Hx. apply Hin; auto.
    - intros x. rewrite Hcom. cbn. tauto.
  Qed.

  Lemma same_commits ws : Forall is_del ws -> (forall c, ~ In (DelCommit c) ws) ->
    forall x, In x (commits (apply_all ws s)) <-> In x (commits s).
  Proof.
    intros Hd Hn x. rewrite (dels_commits ws s Hd). split; [tauto | intros H; split; auto].
  Qed.

  Theorem prune_safe : safe_seq s (prune_writes sk s).
  Proof.
    assert (HT : safe_seq s (phaseT s)).
    { apply phaseT_safe; auto. intros t Ht. unfold tables_to_remove in Ht. apply filter_In in Ht.
      destruct Ht as [_ Ht]. apply negb_true_iff in Ht. exact Ht. }
    pose proof (phaseT_is_del s) as DT. pose proof (phaseB_is_del s) as DB.
    pose proof (phaseI_is_del s) as DI.
    destruct (prune_writes_cases s) as [[E _] | [_ [E | E]]]; rewrite E; [exact I | |].
    - apply safe_seq_app; auto. apply safe_seq_app; [|apply safe_seq_app].
      + apply phaseB_safe. apply after_phaseT_tables; auto.
      + rewrite <- apply_all_app. apply phaseI_safe. apply after_phaseT_tables.
        * apply Forall_app; auto.
        * intros t Ht. apply in_or_app; auto.
      + rewrite <- !apply_all_app. apply phaseC_safe.
        * apply dels_refs. repeat (apply Forall_app; split); auto.
        * apply same_commits; [repeat (apply Forall_app; split); auto|].
          intros c Hc. rewrite !in_app_iff in Hc.
          destruct Hc as [Hc | [Hc | Hc]];
            [eapply phaseT_no_commit | eapply phaseB_no_commit | eapply phaseI_no_commit]; eauto.
    - apply safe_seq_app; auto. apply safe_seq_app; [|apply safe_seq_app].
      + apply phaseI_safe. apply after_phaseT_tables; auto.
      + rewrite <- apply_all_app. apply phaseB_safe. apply after_phaseT_tables.
        * apply Forall_app; auto.
        * intros t Ht. apply in_or_app; auto.
      + rewrite <- !apply_all_app. apply phaseC_safe.
        * apply dels_refs. repeat (apply Forall_app; split); auto.
        * apply same_commits; [repeat (apply Forall_app; split); auto|].
          intros c Hc. rewrite !in_app_iff in Hc.
          destruct Hc as [Hc | [Hc | Hc]];
            [eapply phaseT_no_commit | eapply phaseI_no_commit | eapply phaseB_no_commit]; eauto.
  Qed.

  Theorem prune_prefix_consistent n : Inv (crash n (prune_writes sk s) s).
  Proof. apply safe_seq_prefix; auto. apply prune_safe. Qed.

End Prune.

(* ------------------------------------------------------------------ membership in the sweep *)

Section PruneIn.
  Variable sk : skels.
  Hypothesis Hprune : prune_skel_ok (sk_prune sk) = true.
  Hypothesis Htables : prune_tables_skel_ok (sk_prune_tables sk) = true.
  Hypothesis Horder : prune_commit_order_ok (sk_prune_commit_order sk) = true.

  Ltac in_phaseT H :=
    unfold phaseT in H; apply in_flat_map in H;
    let t := fresh "t" in let Ht := fresh "Ht" in let Hw := fresh "Hw" in let E := fresh "E" in
    destruct H as [t [Ht Hw]];
    destruct (prune_table_writes_cases sk Htables t) as [E | E]; rewrite E in Hw; cbn in Hw;
    destruct Hw as [Hw | [Hw | [Hw | []]]]; try discriminate; try (inversion Hw; subst; clear Hw).
  Ltac in_phaseM H :=
    apply in_map_iff in H;
    let b := fresh "b" in let Hw := fresh "Hw" in let Hb := fresh "Hb" in
    destruct H as [b [Hw Hb]]; try discriminate; try (inversion Hw; subst; clear Hw).

  Lemma prune_split s w : commits_to_remove s <> [] ->
    (In w (prune_writes sk s) <-> In w (phaseT sk s) \/ In w (phaseB s) \/ In w (phaseI s) \/ In w (phaseC sk s)).
  Proof.
    intros NE. destruct (prune_writes_cases sk Hprune s) as [[_ E] | [_ [E | E]]]; [contradiction | |];
      rewrite E, !in_app_iff; tauto.
  Qed.

  Lemma prune_nil s : commits_to_remove s = [] -> prune_writes sk s = [].
  Proof. intros E. unfold prune_writes. rewrite E. reflexivity. Qed.

  Lemma In_phaseC s x : WF s -> (In (DelCommit x) (phaseC sk s) <-> In x (commits_to_remove s)).
  Proof.
    intros Hwf. unfold phaseC. rewrite (commit_order_eq sk Horder).
    destruct (children_first_spec (commits_to_remove s) (to_remove_NoDup s Hwf)) as (Hin & _).
    rewrite in_map_iff. split.
    - intros [c [E Hc]]. inversion E; subst. apply Hin; auto.
    - intros H. exists x. split; auto. apply Hin; auto.
  Qed.

  Lemma In_prune_commit s x : WF s -> (In (DelCommit x) (prune_writes sk s) <-> In x (commits_to_remove s)).
  Proof.
    intros Hwf. destruct (commits_to_remove s) as [|c0 l0] eqn:E.
    - rewrite (prune_nil s E). cbn. tauto.
    - assert (NE : commits_to_remove s <> []) by (rewrite E; discriminate).
      rewrite (prune_split s _ NE), <- E, <- (In_phaseC s x Hwf). split; [|tauto].
      intros [H | [H | [H | H]]]; auto; [in_phaseT H | in_phaseM H | in_phaseM H].
  Qed.

  Lemma In_prune_table s t :
    In (DelTable t) (prune_writes sk s) <-> commits_to_remove s <> [] /\ In t (tables_to_remove s).
  Proof.
    destruct (commits_to_remove s) as [|c0 l0] eqn:E.
    - rewrite (prune_nil s E). cbn. split; [intros [] | intros [H _]; congruence].
    - assert (NE : commits_to_remove s <> []) by (rewrite E; discriminate).
      rewrite (prune_split s _ NE), <- E. split.
      + intros [H | [H | [H | H]]]; [in_phaseT H; auto | in_phaseM H | in_phaseM H | in_phaseM H].
      + intros [_ H]. left. apply phaseT_has_table; auto.
  Qed.

  Lemma In_prune_tblidx s t :
    In (DelTblIdx t) (prune_writes sk s) <-> commits_to_remove s <> [] /\ In t (tables_to_remove s).
  Proof.
    destruct (commits_to_remove s) as [|c0 l0] eqn:E.
    - rewrite (prune_nil s E). cbn. split; [intros [] | intros [H _]; congruence].
    - assert (NE : commits_to_remove s <> []) by (rewrite E; discriminate).
      rewrite (prune_split s _ NE), <- E. split.
      + intros [H | [H | [H | H]]]; [in_phaseT H; auto | in_phaseM H | in_phaseM H | in_phaseM H].
      + intros [_ H]. left. unfold phaseT. apply in_flat_map. exists t. split; auto.
        destruct (prune_table_writes_cases sk Htables t) as [E' | E']; rewrite E'; cbn; auto.
  Qed.

  Lemma In_prune_prof s t :
    In (DelProf t) (prune_writes sk s) <-> commits_to_remove s <> [] /\ In t (tables_to_remove s).
  Proof.
    destruct (commits_to_remove s) as [|c0 l0] eqn:E.
    - rewrite (prune_nil s E). cbn. split; [intros [] | intros [H _]; congruence].
    - assert (NE : commits_to_remove s <> []) by (rewrite E; discriminate).
      rewrite (prune_split s _ NE), <- E. split.
      + intros [H | [H | [H | H]]]; [in_phaseT H; auto | in_phaseM H | in_phaseM H | in_phaseM H].
      + intros [_ H]. left. unfold phaseT. apply in_flat_map. exists t. split; auto.
        destruct (prune_table_writes_cases sk Htables t) as [E' | E']; rewrite E'; cbn; auto.
  Qed.

  Lemma In_prune_block s b :
    In (DelBlock b) (prune_writes sk s) <-> commits_to_remove s <> [] /\ In b (blocks_to_remove s).
  Proof.
    destruct (commits_to_remove s) as [|c0 l0] eqn:E.
    - rewrite (prune_nil s E). cbn. split; [intros [] | intros [H _]; congruence].
    - assert (NE : commits_to_remove s <> []) by (rewrite E; discriminate).
      rewrite (prune_split s _ NE), <- E. split.
      + intros [H | [H | [H | H]]]; [in_phaseT H | in_phaseM H; auto | in_phaseM H | in_phaseM H].
      + intros [_ H]. right; left. apply in_map; auto.
  Qed.

  Lemma In_prune_blkidx s b :
    In (DelBlkIdx b) (prune_writes sk s) <-> commits_to_remove s <> [] /\ In b (blkidx_to_remove s).
  Proof.
    destruct (commits_to_remove s) as [|c0 l0] eqn:E.
    - rewrite (prune_nil s E). cbn. split; [intros [] | intros [H _]; congruence].
    - assert (NE : commits_to_remove s <> []) by (rewrite E; discriminate).
      rewrite (prune_split s _ NE), <- E. split.
      + intros [H | [H | [H | H]]]; [in_phaseT H | in_phaseM H | in_phaseM H; auto | in_phaseM H].
      + intros [_ H]. right; right; left. apply in_map; auto.
  Qed.

  (** the sweep ends with the commit deletions *)
  Lemma prune_commits_last s : exists W, prune_writes sk s = W ++ phaseC sk s /\ forall c, ~ In (DelCommit c) W.
  Proof.
    destruct (prune_writes_cases sk Hprune s) as [[E E'] | [_ [E | E]]].
    - exists []. split; [|intros c []]. rewrite E. unfold phaseC. rewrite (commit_order_eq sk Horder), E'.
      reflexivity.
    - exists (phaseT sk s ++ phaseB s ++ phaseI s). split; [rewrite E, <- !app_assoc; reflexivity|].
      intros c H. rewrite !in_app_iff in H.
      destruct H as [H | [H | H]]; [in_phaseT H | in_phaseM H | in_phaseM H].
    - exists (phaseT sk s ++ phaseI s ++ phaseB s). split; [rewrite E, <- !app_assoc; reflexivity|].
      intros c H. rewrite !in_app_iff in H.
      destruct H as [H | [H | H]]; [in_phaseT H | in_phaseM H | in_phaseM H].
  Qed.

  (* ---------------------------------------------------------------- re-run *)

  Variable s : state.
  Hypothesis Hwf : WF s.
  Variable n : nat.

  Let ws1 := prune_writes sk s.
  Let pre := firstn n ws1.
  Let cs := apply_all pre s.
  Let ws2 := prune_writes sk cs.

  Lemma pre_is_del : Forall is_del pre.
  Proof. apply Forall_firstn. apply prune_is_del; auto. Qed.

  Lemma pre_incl w : In w pre -> In w ws1.
  Proof. apply firstn_incl. Qed.

  Lemma cs_refs : refs cs = refs s.
  Proof. apply dels_refs. apply pre_is_del. Qed.

  Lemma cs_wf : WF cs.
  Proof. apply apply_all_WF; auto. Qed.

  Lemma cs_commits x : In x (commits cs) <-> In x (commits s) /\ ~ In (DelCommit x) pre.
  Proof. apply dels_commits. apply pre_is_del. Qed.

  Lemma pre_commit_removable x : In (DelCommit x) pre -> In x (commits_to_remove s).
  Proof. intros H. apply pre_incl in H. apply (In_prune_commit s x Hwf). exact H. Qed.

  Lemma cs_to_remove x : In x (commits_to_remove cs) <-> In x (commits_to_remove s) /\ ~ In (DelCommit x) pre.
  Proof.
    rewrite !In_to_remove, (reachable_same_refs s cs cs_refs), cs_commits. tauto.
  Qed.

  Lemma cs_surviving x : In x (surviving cs) <-> In x (surviving s).
  Proof.
    rewrite !In_surviving, (reachable_same_refs s cs cs_refs), cs_commits. split; [tauto|].
    intros [H1 H2]. split; auto. split; auto. intros H. apply pre_commit_removable in H.
    apply In_to_remove in H. tauto.
  Qed.

  Lemma cs_kept_table t : kept_table cs t = kept_table s t.
  Proof.
    unfold kept_table. apply (memb_ext table_eqb table_eqb_eq). intros y. rewrite !in_map_iff.
    split; intros [c [E H]]; exists c; split; auto; apply cs_surviving; auto.
  Qed.

  Lemma cs_tables t : In t (tables cs) <-> In t (tables s) /\ ~ In (DelTable t) pre.
  Proof. apply dels_tables. apply pre_is_del. Qed.

  Lemma cs_blocks b : In b (blocks cs) <-> In b (blocks s) /\ ~ In (DelBlock b) pre.
  Proof. apply dels_blocks. apply pre_is_del. Qed.
  Lemma cs_blkidx b : In b (blkidx cs) <-> In b (blkidx s) /\ ~ In (DelBlkIdx b) pre.
  Proof. apply dels_blkidx. apply pre_is_del. Qed.
  Lemma cs_tblidx t : In t (tblidx cs) <-> In t (tblidx s) /\ ~ In (DelTblIdx t) pre.
  Proof. apply dels_tblidx. apply pre_is_del. Qed.
  Lemma cs_prof t : In t (prof cs) <-> In t (prof s) /\ ~ In (DelProf t) pre.
  Proof. apply dels_prof. apply pre_is_del. Qed.

  Lemma In_tables_to_remove s' t : In t (tables_to_remove s') <-> In t (tables s') /\ kept_table s' t = false.
  Proof. unfold tables_to_remove. rewrite filter_In, negb_true_iff. tauto. Qed.

  Lemma In_kept_tables s' t : In t (kept_tables s') <-> In t (tables s') /\ kept_table s' t = true.
  Proof. unfold kept_tables. rewrite filter_In. tauto. Qed.

  Lemma pre_table_removable t : In (DelTable t) pre -> kept_table s t = false.
  Proof.
    intros H. apply pre_incl in H. apply In_prune_table in H. destruct H as [_ H].
    apply In_tables_to_remove in H. tauto.
  Qed.

  Lemma cs_kept_tables t : In t (kept_tables cs) <-> In t (kept_tables s).
  Proof.
    rewrite !In_kept_tables, cs_kept_table, cs_tables. split; [tauto|].
    intros [H1 H2]. split; auto. split; auto. intros H. apply pre_table_removable in H. congruence.
  Qed.

  Lemma cs_ne_s : commits_to_remove cs <> [] -> commits_to_remove s <> [].
  Proof.
    intros H E. destruct (commits_to_remove cs) as [|c l] eqn:E'; [congruence|].
    assert (Hc : In c (commits_to_remove cs)) by (rewrite E'; left; auto).
    apply cs_to_remove in Hc. destruct Hc as [Hc _]. rewrite E in Hc. exact Hc.
  Qed.

  (** commits are deleted last: either a removable commit is still there, so the re-run does
      not take the early return, or the interrupted run had finished *)
  Lemma rerun_dichotomy : commits_to_remove cs <> [] \/ (forall w, In w ws1 -> In w pre).
  Proof.
    destruct (le_lt_dec (List.length ws1) n) as [Hn | Hn].
    { right. intros w Hw. unfold pre. rewrite firstn_all2; auto. }
    destruct (prune_commits_last s) as [W [EW HW]]. fold ws1 in EW.
    destruct (children_first_spec (commits_to_remove s) (to_remove_NoDup s Hwf)) as (Hin & Hnd & _).
    unfold phaseC in EW. rewrite (commit_order_eq sk Horder) in EW.
    destruct (children_first (commits_to_remove s)) as [|z l' _] eqn:Ecf using rev_ind.
    - (* nothing to remove: the write list is W = [] ... then ws1 has no commit; but n < length *)
      cbn in EW. rewrite app_nil_r in EW.
      destruct (commits_to_remove s) as [|c l] eqn:E.
      + unfold ws1 in Hn. rewrite (prune_nil s E) in Hn. cbn in Hn. lia.
      + exfalso. assert (Hc : In c (c :: l)) by (left; auto). apply Hin in Hc. exact Hc.
    - left.
      (* z is the last commit deleted; it is not in the prefix *)
      assert (Hz : In z (commits_to_remove s)) by (apply Hin; apply in_or_app; right; left; auto).
      assert (Hzl : ~ In z l').
      { intros H. apply (NoDup_remove_2 l' [] z Hnd). rewrite app_nil_r. exact H. }
      rewrite map_app in EW. cbn [map] in EW. rewrite app_assoc in EW.
      assert (Hzpre : ~ In (DelCommit z) pre).
      { unfold pre. rewrite EW. rewrite firstn_app_le.
        - intros H. apply firstn_incl in H. apply in_app_iff in H. destruct H as [H | H]; [eapply HW; eauto|].
          apply in_map_iff in H. destruct H as [c [E Hc]]. inversion E; subst. contradiction.
        - rewrite EW, app_length in Hn. cbn in Hn. lia. }
      intros E. assert (Hc : In z (commits_to_remove cs)) by (apply cs_to_remove; auto).
      rewrite E in Hc. exact Hc.
  Qed.

  Let f1 := apply_all ws1 s.
  Let f2 := apply_all ws2 cs.

  Lemma ws1_is_del : Forall is_del ws1.
  Proof. apply prune_is_del; auto. Qed.
  Lemma ws2_is_del : Forall is_del ws2.
  Proof. apply prune_is_del; auto. Qed.

  (** the re-run ends exactly where the uninterrupted sweep ends, as far as commits, tables,
      blocks and block indices are concerned *)
  Theorem prune_rerun_commits x : In x (commits f2) <-> In x (commits f1).
  Proof.
    unfold f1, f2. rewrite (dels_commits ws2 cs ws2_is_del), (dels_commits ws1 s ws1_is_del).
    unfold ws2, ws1. rewrite (In_prune_commit cs x cs_wf), (In_prune_commit s x Hwf), cs_to_remove, cs_commits.
    split.
    - intros [[H1 H2] H3]. split; auto.
    - intros [H1 H2]. split; [split; auto; intros H; apply H2; apply pre_commit_removable; auto | tauto].
  Qed.

  Theorem prune_rerun_tables t : In t (tables f2) <-> In t (tables f1).
  Proof.
    unfold f1, f2. rewrite (dels_tables ws2 cs ws2_is_del), (dels_tables ws1 s ws1_is_del).
    unfold ws2. rewrite (In_prune_table cs t), cs_tables.
    split.
    - intros [[H1 H2] H3]. split; auto. intros H. pose proof H as H'. unfold ws1 in H'.
      apply In_prune_table in H'. destruct H' as [NE Ht].
      destruct rerun_dichotomy as [D | D]; [|apply H2; apply D; exact H].
      apply H3. split; auto. apply In_tables_to_remove. rewrite cs_kept_table, cs_tables.
      apply In_tables_to_remove in Ht. tauto.
    - intros [H1 H2]. split; [split; auto; intros H; apply H2; apply pre_incl; auto|].
      intros [NE Ht]. apply H2. unfold ws1. apply In_prune_table. split; [apply cs_ne_s; auto|].
      apply In_tables_to_remove in Ht. rewrite cs_kept_table, cs_tables in Ht.
      apply In_tables_to_remove. tauto.
  Qed.

  Lemma In_blocks_to_remove s' b :
    In b (blocks_to_remove s') <-> In b (blocks s') /\ ~ In b (flat_map t_blocks (kept_tables s')).
  Proof.
    unfold blocks_to_remove. rewrite filter_In, negb_true_iff, (memb_false N.eqb N.eqb_eq). tauto.
  Qed.
  Lemma In_blkidx_to_remove s' b :
    In b (blkidx_to_remove s') <-> In b (blkidx s') /\ ~ In b (flat_map t_blkidx (kept_tables s')).
  Proof.
    unfold blkidx_to_remove. rewrite filter_In, negb_true_iff, (memb_false N.eqb N.eqb_eq). tauto.
  Qed.

  Lemma cs_kept_blocks b : In b (flat_map t_blocks (kept_tables cs)) <-> In b (flat_map t_blocks (kept_tables s)).
  Proof. rewrite !in_flat_map. split; intros [t [Ht Hb]]; exists t; split; auto; apply cs_kept_tables; auto. Qed.
  Lemma cs_kept_blkidx b : In b (flat_map t_blkidx (kept_tables cs)) <-> In b (flat_map t_blkidx (kept_tables s)).
  Proof. rewrite !in_flat_map. split; intros [t [Ht Hb]]; exists t; split; auto; apply cs_kept_tables; auto. Qed.

  Theorem prune_rerun_blocks b : In b (blocks f2) <-> In b (blocks f1).
  Proof.
    unfold f1, f2. rewrite (dels_blocks ws2 cs ws2_is_del), (dels_blocks ws1 s ws1_is_del).
    unfold ws2. rewrite (In_prune_block cs b), cs_blocks.
    split.
    - intros [[H1 H2] H3]. split; auto. intros H. pose proof H as H'. unfold ws1 in H'.
      apply In_prune_block in H'. destruct H' as [NE Hb].
      destruct rerun_dichotomy as [D | D]; [|apply H2; apply D; exact H].
      apply H3. split; auto. apply In_blocks_to_remove. rewrite cs_kept_blocks.
      rewrite cs_blocks. apply In_blocks_to_remove in Hb. tauto.
    - intros [H1 H2]. split; [split; auto; intros H; apply H2; apply pre_incl; auto|].
      intros [NE Hb]. apply H2. unfold ws1. apply In_prune_block. split; [apply cs_ne_s; auto|].
      apply In_blocks_to_remove in Hb. rewrite cs_kept_blocks in Hb.
      rewrite cs_blocks in Hb. apply In_blocks_to_remove. tauto.
  Qed.

  Theorem prune_rerun_blkidx b : In b (blkidx f2) <-> In b (blkidx f1).
  Proof.
    unfold f1, f2. rewrite (dels_blkidx ws2 cs ws2_is_del), (dels_blkidx ws1 s ws1_is_del).
    unfold ws2. rewrite (In_prune_blkidx cs b), cs_blkidx.
    split.
    - intros [[H1 H2] H3]. split; auto. intros H. pose proof H as H'. unfold ws1 in H'.
      apply In_prune_blkidx in H'. destruct H' as [NE Hb].
      destruct rerun_dichotomy as [D | D]; [|apply H2; apply D; exact H].
      apply H3. split; auto. apply In_blkidx_to_remove. rewrite cs_kept_blkidx.
      rewrite cs_blkidx. apply In_blkidx_to_remove in Hb. tauto.
    - intros [H1 H2]. split; [split; auto; intros H; apply H2; apply pre_incl; auto|].
      intros [NE Hb]. apply H2. unfold ws1. apply In_prune_blkidx. split; [apply cs_ne_s; auto|].
      apply In_blkidx_to_remove in Hb. rewrite cs_kept_blkidx in Hb.
      rewrite cs_blkidx in Hb. apply In_blkidx_to_remove. tauto.
  Qed.

  (** table indices and profiles: nothing the uninterrupted sweep keeps is lost; the index and
      profile of a table whose object was deleted right before the crash may stay behind as
      garbage (pruneTables enumerates table keys only) *)
  Theorem prune_rerun_tblidx t : In t (tblidx f1) -> In t (tblidx f2).
  Proof.
    unfold f1, f2. rewrite (dels_tblidx ws2 cs ws2_is_del), (dels_tblidx ws1 s ws1_is_del).
    rewrite cs_tblidx.
    intros [H1 H2]. split; [split; auto; intros H; apply H2; apply pre_incl; auto|].
    unfold ws2. rewrite (In_prune_tblidx cs t). intros [NE Ht]. apply H2. unfold ws1.
    apply In_prune_tblidx. split; [apply cs_ne_s; auto|].
    apply In_tables_to_remove in Ht. rewrite cs_kept_table, cs_tables in Ht. apply In_tables_to_remove. tauto.
  Qed.

  Theorem prune_rerun_prof t : In t (prof f1) -> In t (prof f2).
  Proof.
    unfold f1, f2. rewrite (dels_prof ws2 cs ws2_is_del), (dels_prof ws1 s ws1_is_del).
    rewrite cs_prof.
    intros [H1 H2]. split; [split; auto; intros H; apply H2; apply pre_incl; auto|].
    unfold ws2. rewrite (In_prune_prof cs t). intros [NE Ht]. apply H2. unfold ws1.
    apply In_prune_prof. split; [apply cs_ne_s; auto|].
    apply In_tables_to_remove in Ht. rewrite cs_kept_table, cs_tables in Ht. apply In_tables_to_remove. tauto.
  Qed.

  Theorem prune_rerun_refs : refs f2 = refs f1.
  Proof.
    unfold f1, f2. rewrite (dels_refs ws2 cs ws2_is_del), (dels_refs ws1 s ws1_is_del). apply cs_refs.
  Qed.

End PruneIn.

(* ------------------------------------------------------------------ any commit deletion order *)

(** Without the children-first order (the tree before b7554dd deleted commitsToRemove in key
    = hash order) every prefix still keeps RefsResolve, TableUsable, HeadsFull and the closure
    of everything reachable from a ref; only [Closed] for unreachable commits can break. *)
Section PruneAnyOrder.
  Variable sk : skels.
  Hypothesis Hprune : prune_skel_ok (sk_prune sk) = true.
  Hypothesis Htables : prune_tables_skel_ok (sk_prune_tables sk) = true.
  Variable s : state.
  Hypothesis Hinv : Inv s.
  Hypothesis Hwf : WF s.

  Lemma commit_order_incl x : In x (commit_order sk (commits_to_remove s)) -> In x (commits_to_remove s).
  Proof.
    unfold commit_order. destruct (is_name (sk_prune_commit_order sk) n_childrenFirst); auto.
    destruct (children_first_spec (commits_to_remove s) (to_remove_NoDup s Hwf)) as (Hin & _).
    apply Hin.
  Qed.

  Lemma del_commits_safe3 L : (forall x, In x L -> In x (commits_to_remove s)) ->
    forall s', refs s' = refs s -> safe3_seq s' (map DelCommit L).
  Proof.
    induction L as [|c L IH]; intros HL s' Hrefs; [exact I|]. cbn [map]. split.
    - cbn. rewrite Hrefs. intros r c' f Hin ->.
      assert (Hc : In c (commits_to_remove s)) by (apply HL; left; auto).
      apply In_to_remove in Hc. destruct Hc as [_ Hc]. apply Hc. eapply reachable_target; eauto.
    - apply IH; [intros; apply HL; right; auto|]. rewrite apply_obj_refs; [exact Hrefs | exact I].
  Qed.

  Lemma prune_safe3_any : safe3_seq s (prune_writes sk s).
  Proof.
    assert (HT : safe_seq s (phaseT sk s)).
    { apply (phaseT_safe sk Htables s Hinv); auto. intros t Ht. unfold tables_to_remove in Ht. apply filter_In in Ht.
      destruct Ht as [_ Ht]. apply negb_true_iff in Ht. exact Ht. }
    pose proof (phaseT_is_del sk Htables s) as DT. pose proof (phaseB_is_del s) as DB.
    pose proof (phaseI_is_del s) as DI.
    assert (HC : forall s', refs s' = refs s -> safe3_seq s' (phaseC sk s)).
    { intros s' Hr. apply del_commits_safe3; auto. apply commit_order_incl. }
    destruct (prune_writes_cases sk Hprune s) as [[E _] | [_ [E | E]]]; rewrite E; [exact I | |].
    - apply safe3_seq_app; [apply safe_seq_safe3; auto|]. apply safe3_seq_app; [|apply safe3_seq_app].
      + apply safe_seq_safe3. apply phaseB_safe. apply (after_phaseT_tables sk Htables); auto.
      + rewrite <- apply_all_app. apply safe_seq_safe3. apply phaseI_safe. apply (after_phaseT_tables sk Htables); auto.
        * apply Forall_app; auto.
        * intros t Ht. apply in_or_app; auto.
      + rewrite <- !apply_all_app. apply HC. apply dels_refs. repeat (apply Forall_app; split); auto.
    - apply safe3_seq_app; [apply safe_seq_safe3; auto|]. apply safe3_seq_app; [|apply safe3_seq_app].
      + apply safe_seq_safe3. apply phaseI_safe. apply (after_phaseT_tables sk Htables); auto.
      + rewrite <- apply_all_app. apply safe_seq_safe3. apply phaseB_safe. apply (after_phaseT_tables sk Htables); auto.
        * apply Forall_app; auto.
        * intros t Ht. apply in_or_app; auto.
      + rewrite <- !apply_all_app. apply HC. apply dels_refs. repeat (apply Forall_app; split); auto.
  Qed.

  Lemma prune_commit_in_any x : In (DelCommit x) (prune_writes sk s) -> In x (commits_to_remove s).
  Proof.
    intros H.
    assert (HC : In (DelCommit x) (phaseC sk s) -> In x (commits_to_remove s)).
    { intros Hc. unfold phaseC in Hc. apply in_map_iff in Hc. destruct Hc as [c [E Hc]].
      inversion E; subst. apply commit_order_incl; auto. }
    destruct (prune_writes_cases sk Hprune s) as [[E _] | [_ [E | E]]]; rewrite E in H; [destruct H | |];
      rewrite !in_app_iff in H; destruct H as [H | [H | [H | H]]]; auto; exfalso.
    - eapply phaseT_no_commit; eauto.
    - eapply phaseB_no_commit; eauto.
    - eapply phaseI_no_commit; eauto.
    - eapply phaseT_no_commit; eauto.
    - eapply phaseI_no_commit; eauto.
    - eapply phaseB_no_commit; eauto.
  Qed.

  Lemma prune_is_del_any : Forall is_del (prune_writes sk s).
  Proof. apply prune_is_del; auto. Qed.

  Theorem prune_prefix_weak n :
    Inv3 (crash n (prune_writes sk s) s) /\ ReachClosed (crash n (prune_writes sk s) s).
  Proof.
    split.
    - apply safe3_seq_prefix; [apply Hinv | apply prune_safe3_any].
    - unfold crash. set (pre := firstn n (prune_writes sk s)).
      assert (Hd : Forall is_del pre) by (apply Forall_firstn; apply prune_is_del_any).
      intros r c f Hin a Ha. rewrite (dels_refs pre s Hd) in Hin.
      apply (dels_commits pre s Hd). split.
      + eapply (Inv_ReachClosed s Hinv); eauto.
      + intros Hdel. apply firstn_incl in Hdel. apply prune_commit_in_any in Hdel.
        apply In_to_remove in Hdel. destruct Hdel as [_ Hdel]. apply Hdel. eapply reachable_ancestor; eauto.
  Qed.

End PruneAnyOrder.
