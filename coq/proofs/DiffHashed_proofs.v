(** BlockIndex.Get by hash + sort.Search = lookup by key, for an injective hash. *)
From W.lib Require Import Tree Bytes GoSort.
From W.model Require Import Diff DiffSpec DiffHashed.
From W.proofs Require Import Diff_proofs DiffTable_proofs.
From Coq Require Import Arith Lia ZifyNat ZifyN ZifyBool Sorting.Permutation.

Lemma dhalf_bounds : forall i j : nat, i < j -> i <= (i + j) / 2 /\ (i + j) / 2 < j.
Proof.
  intros i j Hij.
  pose proof (Nat.div_mod (i + j) 2 ltac:(lia)) as E.
  pose proof (Nat.mod_upper_bound (i + j) 2 ltac:(lia)) as B.
  lia.
Qed.

Section Search.
  Variable n : nat.
  Variable f : nat -> bool.
  Hypothesis mono : forall x y, x <= y -> y < n -> f x = true -> f y = true.

  Lemma dsearch_loop_spec : forall fuel i j,
    i <= j -> j <= n -> j - i < fuel ->
    (forall x, x < i -> f x = false) ->
    (forall x, j <= x -> x < n -> f x = true) ->
    i <= search_loop fuel f i j /\ search_loop fuel f i j <= j /\
    (forall x, x < search_loop fuel f i j -> f x = false) /\
    (forall x, search_loop fuel f i j <= x -> x < n -> f x = true).
  Proof.
    induction fuel as [|fuel IH]; intros i j Hij Hjn Hfuel Hlo Hhi.
    - lia.
    - cbn [search_loop].
      destruct (i <? j) eqn:Eij.
      + apply Nat.ltb_lt in Eij.
        destruct (dhalf_bounds i j Eij) as [Hh1 Hh2].
        set (m := (i + j) / 2) in *.
        destruct (f m) eqn:Efh.
        * assert (Hhi' : forall x, m <= x -> x < n -> f x = true).
          { intros x Hx1 Hx2. apply (mono m x Hx1 Hx2 Efh). }
          destruct (IH i m Hh1 ltac:(lia) ltac:(lia) Hlo Hhi') as (A1 & A2 & A3 & A4).
          repeat split; try assumption; lia.
        * assert (Hlo' : forall x, x < S m -> f x = false).
          { intros x Hx. destruct (f x) eqn:Efx; [|reflexivity].
            assert (Hc : f m = true) by (apply (mono x m); [lia|lia|exact Efx]).
            congruence. }
          destruct (IH (S m) j ltac:(lia) Hjn ltac:(lia) Hlo' Hhi) as (A1 & A2 & A3 & A4).
          repeat split; try assumption; lia.
      + apply Nat.ltb_ge in Eij.
        assert (Eij' : i = j) by lia. subst j.
        repeat split; try assumption; lia.
  Qed.

  Lemma dsearch_spec :
    search n f <= n /\
    (forall x, x < search n f -> f x = false) /\
    (forall x, search n f <= x -> x < n -> f x = true).
  Proof.
    unfold search.
    destruct (dsearch_loop_spec (S n) 0 n ltac:(lia) ltac:(lia) ltac:(lia)) as (A1 & A2 & A3 & A4).
    - intros x Hx. lia.
    - intros x Hx1 Hx2. lia.
    - repeat split; assumption.
  Qed.
End Search.

Section Hashed.
  Variable h : key -> N.
  Hypothesis h_inj : forall a c, h a = h c -> a = c.

  Lemma get_hashed_ok (b : block) (so : list nat) (k : key) :
    NoDup (map fst b) -> hsorted_perm h b so -> get_hashed h so b k = bget b k.
  Proof.
    intros ND (Perm & Srt). unfold get_hashed.
    set (n := length b). set (f := fun i => N.leb (h k) (hkey h b so i)).
    assert (Hlen : length so = n).
    { rewrite (Permutation_length Perm). apply seq_length. }
    assert (Hrange : forall i, i < n -> nth i so 0 < n).
    { intros i Hi. assert (In (nth i so 0) (seq 0 n)) as X.
      { eapply Permutation_in; [exact Perm|]. apply nth_In. lia. }
      apply in_seq in X. lia. }
    assert (Hsurj : forall j, j < n -> exists x, x < n /\ nth x so 0 = j).
    { intros j Hj. assert (In j so) as X.
      { eapply Permutation_in; [apply Permutation_sym; exact Perm|]. apply in_seq. lia. }
      destruct (In_nth _ _ 0 X) as (x & Hx & E). exists x. split; [lia|exact E]. }
    assert (mono : forall x y, x <= y -> y < n -> f x = true -> f y = true).
    { intros x y Hxy Hy. unfold f. rewrite !N.leb_le. intros H.
      pose proof (Srt x y Hxy ltac:(lia)). lia. }
    destruct (dsearch_spec n f mono) as (S1 & S2 & S3).
    set (i0 := search n f) in *.
    (* a row with key k, if any, is reached through some position of sortedOff whose hash is h k *)
    assert (Hpos : forall j r, nth_error b j = Some (k, r) ->
                               exists x, x < n /\ nth x so 0 = j /\ hkey h b so x = h k).
    { intros j r Hn. assert (j < n) as Hj by (apply nth_error_Some; congruence).
      destruct (Hsurj j Hj) as (x & Hx & E). exists x. split; [exact Hx|]. split; [exact E|].
      unfold hkey. rewrite E. rewrite (nth_error_nth _ _ _ Hn). reflexivity. }
    assert (Hnone : (forall x, x < n -> hkey h b so x <> h k) -> bget b k = None).
    { intros H. rewrite bget_lookup. apply lookup_none. intros Hin.
      apply in_map_iff in Hin. destruct Hin as ([k' r] & E & Hin). cbn in E. subst k'.
      destruct (In_nth_error _ _ Hin) as (j & Hn).
      destruct (Hpos j r Hn) as (x & Hx & _ & Eh). exact (H x Hx Eh). }
    destruct (Nat.leb_spec n i0) as [L|L].
    - symmetry. apply Hnone. intros x Hx E.
      specialize (S2 x ltac:(lia)). unfold f in S2. rewrite E, N.leb_refl in S2. discriminate.
    - pose proof (S3 i0 (le_n _) L) as Fi0. unfold f in Fi0. apply N.leb_le in Fi0.
      pose proof (Hrange i0 L) as Hj. set (j := nth i0 so 0) in *.
      destruct (nth j b (row0)) as [k' r] eqn:Erow.
      assert (nth_error b j = Some (k', r)) as Hn.
      { rewrite (nth_error_nth' b row0) by exact Hj. now rewrite Erow. }
      destruct (N.eqb_spec (h k') (h k)) as [E|NE].
      + apply h_inj in E. subst k'. rewrite bget_lookup. symmetry. now apply nth_lookup.
      + symmetry. apply Hnone. intros x Hx E.
        assert (hkey h b so i0 = h k') as Ei0.
        { unfold hkey. fold j. now rewrite Erow. }
        destruct (le_lt_dec i0 x) as [G|G].
        * pose proof (Srt i0 x G ltac:(lia)) as Hs. rewrite Ei0, E in Hs. rewrite Ei0 in Fi0.
          apply NE. lia.
        * specialize (S2 x G). unfold f in S2. rewrite E, N.leb_refl in S2. discriminate.
  Qed.
End Hashed.
