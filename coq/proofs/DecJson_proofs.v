(** Hex.UnmarshalJSON never panics (model/DecJson.v). *)
From Coq Require Import List Lia Arith ZArith ZifyNat ZifyN ZifyBool.
From W.lib Require Import Tree Bytes GoSlice Reader.
From W.model Require Import DecPrim DecPack DecJson.
Local Open Scope N_scope.

Lemma hex_decode_loop_no_panic dst_len : forall src i acc,
  (i + length src / 2 <= dst_len)%nat -> hex_decode_loop dst_len i src acc <> Panic.
Proof.
  intros src. remember (length src) as n eqn:En. revert src En.
  induction n as [n IH] using lt_wf_ind. intros src En i acc Hl.
  destruct src as [|a [|b rest]]; cbn [hex_decode_loop]; try discriminate.
  destruct (hexval a); [|discriminate]. destruct (hexval b); [|discriminate].
  assert (Hd : (length (a :: b :: rest) / 2 = S (length rest / 2))%nat).
  { change (length (a :: b :: rest)) with (1 * 2 + length rest)%nat.
    rewrite Nat.div_add_l by lia. lia. }
  rewrite En, Hd in Hl. change (length (a :: b :: rest)) with (S (S (length rest))) in En.
  replace (dst_len <=? i)%nat with false by (symmetry; apply Nat.leb_gt; lia).
  apply (IH (length rest)); [lia|reflexivity|lia].
Qed.

Theorem hex_unmarshal_no_panic b : hex_unmarshal true b <> Panic.
Proof.
  unfold hex_unmarshal. cbn [andb].
  destruct ((length b <? 2)%nat || negb (nth 0 b 0 =? quote) || negb (last b 0 =? quote)) eqn:E;
    [discriminate|].
  apply orb_false_iff in E. destruct E as [E _]. apply orb_false_iff in E. destruct E as [E _].
  apply Nat.ltb_ge in E.
  unfold slice_range.
  replace ((1 <=? length b - 1)%nat && (length b - 1 <=? length b)%nat) with true
    by (symmetry; apply andb_true_iff; split; apply Nat.leb_le; lia).
  set (inner := firstn (length b - 1 - 1) (skipn 1 b)).
  destruct (16 <? length inner / 2)%nat eqn:El; [discriminate|]. apply Nat.ltb_ge in El.
  pose proof (hex_decode_loop_no_panic 16 inner 0 [] ltac:(lia)) as Hn.
  unfold hex_decode. destruct (hex_decode_loop 16 0 inner []); try discriminate. congruence.
Qed.

(** the code before the fix: the JSON number 1 (reply {"acks":[1]}) and a 34-digit hex string *)
Theorem hex_unmarshal_unchecked_panics :
  hex_unmarshal false [49] = Panic /\
  hex_unmarshal false (quote :: repeat 48 34 ++ [quote]) = Panic.
Proof. split; vm_compute; reflexivity. Qed.
