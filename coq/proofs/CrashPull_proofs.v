(** C13 - `wrgl pull` into a branch that does not exist yet: interrupted anywhere (also between
    its two ref writes: remote-tracking ref, then the local branch) and re-run, it ends with
    both refs on the fetched commit, exactly like the uninterrupted run. *)
From Coq Require Import List NArith Bool String Lia Permutation Arith.
From W.model Require Import CrashRepo Crash.
From W.proofs Require Import CrashRepo_proofs Crash_proofs CrashFetch_proofs.
Import ListNotations.
Local Open Scope N_scope.
Local Notation length := List.length.

Section Pull.
  Variable sk : skels.
  Variable dv : deriver.
  Hypothesis Hok : skels_ok sk = true.

  Let P := skels_ok_parts sk Hok.
  Let Hrtable := proj1 (proj2 (proj2 P)).
  Let Hindex := proj1 (proj2 (proj2 (proj2 P))).
  Let Hrcommit := proj1 (proj2 (proj2 (proj2 (proj2 P)))).
  Let Hfetch := proj1 (proj2 (proj2 (proj2 (proj2 (proj2 P))))).

  Variables (r rr : N) (objs : list pobj) (c : cid) (force : bool) (t : table).
  Hypothesis Hne : r <> rr.

  Notation upd := [(rr, c, force)].

  (** the ref rule of saveFetchedRefs for the one tracking ref *)
  Definition accept (old : option cid) : bool :=
    match old with None => true | Some o => cid_eqb o c || is_anc o c || force end.

  Lemma save_refs_single x : stored c x = true ->
    (accept (head_of rr x) = true ->
       snd (save_refs x upd) = true /\
       (fst (save_refs x upd) = [] \/ fst (save_refs x upd) = [SetRefLog rr c false]) /\
       head_of rr (apply_all (fst (save_refs x upd)) x) = Some c) /\
    (snd (save_refs x upd) = true -> accept (head_of rr x) = true).
  Proof.
    intros Hst. cbn [save_refs]. unfold accept.
    destruct (head_of rr x) as [old|] eqn:E.
    - destruct (cid_eqb old c) eqn:Ec.
      + apply cid_eqb_eq in Ec. subst old. cbn. split; [intros _; split; [reflexivity|split; [left; reflexivity | exact E]] | reflexivity].
      + rewrite Hst. cbn [negb orb]. destruct (is_anc old c || force) eqn:Ea; cbn.
        * split; [|reflexivity]. intros _. split; [reflexivity|]. split; [right; reflexivity|].
          rewrite head_of_set, N.eqb_refl. reflexivity.
        * split; [discriminate | discriminate].
    - cbn. split; [|reflexivity]. intros _. split; [reflexivity|]. split; [right; reflexivity|].
      rewrite head_of_set, N.eqb_refl. reflexivity.
  Qed.

  Lemma one_setref ws : ws = [] \/ ws = [SetRefLog rr c false] -> Forall (fun w => w = SetRefLog rr c false) ws.
  Proof. intros [-> | ->]; repeat constructor. Qed.

  Lemma setrefs_is_put ws : Forall (fun w => w = SetRefLog rr c false) ws -> Forall is_put ws.
  Proof. intros H. eapply Forall_impl; [|exact H]. intros w ->. exact I. Qed.

  Lemma setrefs_head_r ws x : Forall (fun w => w = SetRefLog rr c false) ws ->
    head_of r (apply_all ws x) = head_of r x.
  Proof.
    revert x. induction ws as [|w ws IH]; intros x H; auto. inversion H; subst.
    rewrite apply_all_cons, IH; auto. rewrite head_of_set.
    destruct (N.eqb rr r) eqn:E; auto. apply N.eqb_eq in E. congruence.
  Qed.

  Lemma objs_head x ws r' : Forall is_obj ws -> head_of r' (apply_all ws x) = head_of r' x.
  Proof. intros H. apply head_of_refs_eq. apply apply_all_obj_refs; auto. Qed.

  (** one complete pull from [x], provided the object phase succeeds from [x], the tracking
      ref may move, and the local branch is absent or already on [c] *)
  Lemma pull_from sched x nonce :
    snd (fetch_objects sk dv x objs upd) = true ->
    accept (head_of rr x) = true ->
    (head_of r x = None \/ (head_of r x = Some c /\ head_of rr x = Some c)) ->
    snd (pull_writes sk dv sched x r rr objs c force t nonce) = true /\
    Forall is_put (fst (pull_writes sk dv sched x r rr objs c force t nonce)) /\
    head_of r (apply_all (fst (pull_writes sk dv sched x r rr objs c force t nonce)) x) = Some c /\
    head_of rr (apply_all (fst (pull_writes sk dv sched x r rr objs c force t nonce)) x) = Some c.
  Proof.
    intros Hobj Hacc Hr. unfold pull_writes. rewrite (fetch_writes_eq sk dv Hfetch).
    destruct (fetch_objects_spec sk Hrtable Hindex Hrcommit dv x objs upd) as (_ & Hput & Hst).
    pose proof (fetch_objects_is_obj sk dv Hok x objs upd) as Hobjw.
    destruct (fetch_objects sk dv x objs upd) as [wo oko]. cbn [fst snd] in *. subst oko.
    set (x1 := apply_all wo x) in *.
    assert (Hc : stored c x1 = true).
    { apply (memb_In cid_eqb cid_eqb_eq). apply (Hst eq_refl (rr, c, force)). left; reflexivity. }
    assert (Hrr1 : head_of rr x1 = head_of rr x) by (apply objs_head; auto).
    assert (Hr1 : head_of r x1 = head_of r x) by (apply objs_head; auto).
    destruct (save_refs_single x1 Hc) as [Hs _]. rewrite Hrr1 in Hs. destruct (Hs Hacc) as (Hoks & Hws0 & Hhead).
    destruct (save_refs x1 upd) as [wsr oks]. cbn [fst snd] in *. subst oks.
    pose proof (one_setref wsr Hws0) as Hws.
    rewrite apply_all_app. fold x1. set (x2 := apply_all wsr x1) in *.
    assert (Hr2 : head_of r x2 = head_of r x) by (unfold x2; rewrite setrefs_head_r; auto).
    unfold pull_tail. rewrite Hhead, Hr2.
    destruct Hr as [Hr | [Hr Hrrx]]; rewrite Hr.
    - cbn [fst snd]. split; [reflexivity|]. split.
      + repeat (apply Forall_app; split); auto; [apply setrefs_is_put; auto | repeat constructor].
      + rewrite !apply_all_app. fold x1 x2. cbn. rewrite !head_of_set, N.eqb_refl.
        destruct (N.eqb r rr) eqn:E; [apply N.eqb_eq in E; congruence|]. split; [reflexivity | exact Hhead].
    - rewrite cid_eqb_refl. cbn [fst snd]. rewrite app_nil_r. split; [reflexivity|]. split.
      + apply Forall_app; split; auto. apply setrefs_is_put; auto.
      + rewrite apply_all_app. fold x1 x2. split; [rewrite Hr2; exact Hr | exact Hhead].
  Qed.

  (** what the crash states of the first pull look like *)
  Lemma pull_crash_state sched s nonce n :
    head_of r s = None ->
    snd (fetch_objects sk dv s objs upd) = true ->
    accept (head_of rr s) = true ->
    let cs := crash n (fst (pull_writes sk dv sched s r rr objs c force t nonce)) s in
    objs_le s cs /\
    (head_of rr cs = head_of rr s \/ head_of rr cs = Some c) /\
    (head_of r cs = None \/ (head_of r cs = Some c /\ head_of rr cs = Some c)).
  Proof.
    intros Hr Hobj Hacc cs.
    destruct (pull_from sched s nonce Hobj Hacc (or_introl Hr)) as (_ & Hput & _).
    split; [apply puts_mono; apply Forall_firstn; exact Hput|].
    unfold cs, crash. clear cs Hput.
    unfold pull_writes. rewrite (fetch_writes_eq sk dv Hfetch).
    destruct (fetch_objects_spec sk Hrtable Hindex Hrcommit dv s objs upd) as (_ & _ & Hst).
    pose proof (fetch_objects_is_obj sk dv Hok s objs upd) as Hobjw.
    destruct (fetch_objects sk dv s objs upd) as [wo oko]. cbn [fst snd] in *. subst oko.
    set (s1 := apply_all wo s) in *.
    assert (Hc : stored c s1 = true).
    { apply (memb_In cid_eqb cid_eqb_eq). apply (Hst eq_refl (rr, c, force)). left; reflexivity. }
    assert (Hrr1 : head_of rr s1 = head_of rr s) by (apply objs_head; auto).
    assert (Hr1 : head_of r s1 = head_of r s) by (apply objs_head; auto).
    destruct (save_refs_single s1 Hc) as [Hs _]. rewrite Hrr1 in Hs. destruct (Hs Hacc) as (Hoks & Hws0 & Hhead).
    destruct (save_refs s1 upd) as [wsr oks]. cbn [fst snd] in *. subst oks.
    pose proof (one_setref wsr Hws0) as Hws.
    assert (Hr2 : head_of r (apply_all wsr s1) = None) by (rewrite setrefs_head_r, Hr1; auto).
    unfold pull_tail. rewrite apply_all_app. fold s1. rewrite Hhead, Hr2. cbn [fst snd].
    rewrite <- app_assoc, firstn_app, apply_all_app.
    destruct (le_lt_dec n (length wo)) as [Hn | Hn].
    - (* inside the object phase *)
      rewrite (proj2 (Nat.sub_0_le n (length wo)) Hn). cbn [firstn apply_all fold_left].
      rewrite !objs_head by (apply Forall_firstn; auto). auto.
    - rewrite (firstn_all2 wo) by (apply Nat.lt_le_incl; exact Hn). fold s1.
      (* wsr is [] or [SetRefLog rr c false]; then the branch ref *)
      destruct Hws0 as [-> | ->].
      + cbn [app] in *. destruct (n - length wo)%nat as [|m]; cbn [firstn].
        * cbn. rewrite Hrr1, Hr1. auto.
        * rewrite firstn_nil. cbn. rewrite !head_of_set, N.eqb_refl.
          destruct (N.eqb r rr) eqn:E; [apply N.eqb_eq in E; congruence|].
          cbn in Hhead. rewrite Hhead. auto.
      + cbn [app] in *. destruct (n - length wo)%nat as [|[|m]]; cbn [firstn].
        * cbn. rewrite Hrr1, Hr1. auto.
        * cbn. rewrite !head_of_set, N.eqb_refl.
          destruct (N.eqb rr r) eqn:E; [apply N.eqb_eq in E; congruence|]. rewrite Hr1. auto.
        * rewrite firstn_nil. cbn. rewrite !head_of_set, !N.eqb_refl.
          destruct (N.eqb r rr) eqn:E; [apply N.eqb_eq in E; congruence|]. auto.
  Qed.

  (** `wrgl pull` creating the local branch, cut after any number of writes (n >= number of
      writes = completed) and run again: it succeeds, the state is invariant, and the local
      branch and the remote-tracking ref both name the fetched commit - as after the
      uninterrupted run. *)
  Theorem pull_new_branch_rerun sched1 sched2 s n1 n2 n :
    valid_sched sched1 -> valid_sched sched2 -> Inv s ->
    head_of r s = None ->
    snd (op_writes sk dv sched1 s (OPull r rr objs c force t n1)) = true ->
    let ws1 := fst (op_writes sk dv sched1 s (OPull r rr objs c force t n1)) in
    let cs := crash n ws1 s in
    snd (op_writes sk dv sched2 cs (OPull r rr objs c force t n2)) = true /\
    Inv (run_op sk dv sched2 cs (OPull r rr objs c force t n2)) /\
    head_of r (run_op sk dv sched2 cs (OPull r rr objs c force t n2)) = Some c /\
    head_of rr (run_op sk dv sched2 cs (OPull r rr objs c force t n2)) = Some c /\
    head_of r (apply_all ws1 s) = Some c /\ head_of rr (apply_all ws1 s) = Some c.
  Proof.
    intros Hv1 Hv2 Hi Hr Hok1 ws1 cs.
    (* the first run succeeded: its object phase did, and the tracking ref was allowed to move *)
    assert (Hfirst : snd (fetch_objects sk dv s objs upd) = true /\ accept (head_of rr s) = true).
    { cbn [op_writes] in Hok1. unfold pull_writes in Hok1. rewrite (fetch_writes_eq sk dv Hfetch) in Hok1.
      destruct (fetch_objects_spec sk Hrtable Hindex Hrcommit dv s objs upd) as (_ & _ & Hst).
      pose proof (fetch_objects_is_obj sk dv Hok s objs upd) as Hobjw.
      destruct (fetch_objects sk dv s objs upd) as [wo oko]. cbn [fst snd] in *.
      destruct oko; [|cbn in Hok1; discriminate]. split; [reflexivity|].
      assert (Hc : stored c (apply_all wo s) = true).
      { apply (memb_In cid_eqb cid_eqb_eq). apply (Hst eq_refl (rr, c, force)). left; reflexivity. }
      destruct (save_refs_single (apply_all wo s) Hc) as [_ Hs].
      rewrite (objs_head s wo rr Hobjw) in Hs. apply Hs.
      destruct (save_refs (apply_all wo s) upd) as [wsr oks]. cbn [fst snd] in *.
      destruct oks; [reflexivity | cbn in Hok1; discriminate]. }
    destruct Hfirst as [Hobj Hacc].
    assert (Hics : Inv cs).
    { apply (nonprune_prefix_consistent sk dv Hok sched1 s (OPull r rr objs c force t n1) n Hv1 Hi I). }
    destruct (pull_crash_state sched1 s n1 n Hr Hobj Hacc) as (Hle & Hrrcs & Hrcs).
    change (crash n (fst (pull_writes sk dv sched1 s r rr objs c force t n1)) s) with cs in *.
    assert (Hobj' : snd (fetch_objects sk dv cs objs upd) = true).
    { apply (fetch_objects_mono sk dv Hok s cs objs upd Hle Hobj). }
    assert (Hacc' : accept (head_of rr cs) = true).
    { destruct Hrrcs as [-> | ->]; auto. cbn. rewrite cid_eqb_refl. reflexivity. }
    destruct (pull_from sched2 cs n2 Hobj' Hacc' Hrcs) as (H1 & _ & H3 & H4).
    destruct (pull_from sched1 s n1 Hobj Hacc (or_introl Hr)) as (_ & _ & H5 & H6).
    split; [exact H1|]. split.
    - apply (nonprune_final_inv sk dv Hok sched2 cs (OPull r rr objs c force t n2) Hv2 Hics I).
    - unfold run_op. cbn [op_writes]. auto.
  Qed.

End Pull.
