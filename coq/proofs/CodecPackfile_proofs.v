(** Proofs for model/CodecPackfile.v: the object header (shift/mask form = arithmetic
    form; decode inverts encode for every u < 2^64, u = 0 included), packfile
    framing, pkt-line.  Axiom-free. *)
From W.lib Require Import Tree Bytes.
From W.model Require Import CodecBase CodecPackfile.
From W.proofs Require Import CodecBase_proofs.
From Coq Require Import Arith Lia ZifyNat ZifyN ZifyBool List NArith Bool ZArith.
Import ListNotations.
Local Open Scope N_scope.

(* ------------------------------------------------------------------ *)
(** * bounded universal statements decided by computation *)

Definition below (n : nat) (P : N -> bool) : bool := forallb P (map N.of_nat (seq 0 n)).

Lemma below_spec n P : below n P = true -> forall x, x < N.of_nat n -> P x = true.
Proof.
  unfold below. rewrite forallb_forall. intros H x Hx. apply H.
  apply in_map_iff. exists (N.to_nat x). split; [lia|]. apply in_seq. lia.
Qed.

Definition belowN (n : N) (P : N -> bool) : bool := below (N.to_nat n) P.
Lemma belowN_spec n P : belowN n P = true -> forall x, x < n -> P x = true.
Proof. intros H x Hx. apply (below_spec _ _ H). lia. Qed.

(* facts about single bytes *)
Lemma byte_cont_facts y : y < 256 ->
  N.lor 128 y = 128 + y mod 128 /\ N.land (N.lor 128 y) 127 = y mod 128.
Proof.
  intros Hy.
  assert (H : ((N.lor 128 y =? 128 + y mod 128) && (N.land (N.lor 128 y) 127 =? y mod 128)) = true).
  { revert y Hy. apply (below_spec 256). vm_compute. reflexivity. }
  apply andb_true_iff in H as [H1 H2]. apply N.eqb_eq in H1, H2. auto.
Qed.

Lemma byte_dec_facts d : d < 128 ->
  N.land (128 + d) 127 = d /\ (N.land (128 + d) 128 =? 0) = false /\
  N.land d 127 = d /\ (N.land d 128 =? 0) = true.
Proof.
  intros Hd.
  assert (H : ((N.land (128 + d) 127 =? d) && negb (N.land (128 + d) 128 =? 0) &&
               (N.land d 127 =? d) && (N.land d 128 =? 0)) = true).
  { revert d Hd. apply (below_spec 128). vm_compute. reflexivity. }
  repeat (apply andb_true_iff in H as [H ?]).
  apply N.eqb_eq in H. apply negb_true_iff in H2. apply N.eqb_eq in H1. auto.
Qed.

Lemma byte_low_facts y : y < 256 -> N.land y 15 = y mod 16.
Proof.
  intros Hy.
  assert (H : (N.land y 15 =? y mod 16) = true).
  { revert y Hy. apply (below_spec 256). vm_compute. reflexivity. }
  now apply N.eqb_eq.
Qed.

(* z = 16*ty + lo *)
Lemma byte0_facts z : z < 128 ->
  N.lor (N.lor 128 (u8 (N.shiftl (u8 (z / 16)) 4))) (z mod 16) = 128 + z /\
  N.land (128 + z) 15 = z mod 16 /\ N.land (N.shiftr (128 + z) 4) 7 = z / 16.
Proof.
  intros Hz.
  assert (H : ((N.lor (N.lor 128 (u8 (N.shiftl (u8 (z / 16)) 4))) (z mod 16) =? 128 + z) &&
               (N.land (128 + z) 15 =? z mod 16) &&
               (N.land (N.shiftr (128 + z) 4) 7 =? z / 16)) = true).
  { revert z Hz. apply (below_spec 128). vm_compute. reflexivity. }
  repeat (apply andb_true_iff in H as [H ?]).
  apply N.eqb_eq in H, H0, H1. auto.
Qed.

(* numBytes: for every bit length 0..64 there is at least one continuation byte and
   4 + 7 * (numBytes - 1) bits are enough *)
Lemma num_bytes_facts bits : bits <= 64 ->
  (1 <= num_bytes bits - 1)%nat /\ bits <= 4 + 7 * N.of_nat (num_bytes bits - 1).
Proof.
  intros Hb.
  assert (H : ((1 <=? num_bytes bits - 1)%nat &&
               (bits <=? 4 + 7 * N.of_nat (num_bytes bits - 1))) = true).
  { assert (Hb' : bits < N.of_nat 65) by lia. revert bits Hb' Hb. intros bits Hb' _.
    revert bits Hb'. apply (below_spec 65). vm_compute. reflexivity. }
  apply andb_true_iff in H as [H1 H2]. apply Nat.leb_le in H1. apply N.leb_le in H2. auto.
Qed.

(* ------------------------------------------------------------------ *)
(** * arithmetic helpers *)

Lemma mod_mod_div a m k : m <> 0 -> k <> 0 -> (a mod (m * k)) mod m = a mod m.
Proof.
  intros Hm Hk.
  pose proof (N.div_mod a (m * k) ltac:(lia)) as E1.
  pose proof (N.div_mod (a mod (m * k)) m Hm) as E2.
  pose proof (N.mod_lt (a mod (m * k)) m Hm) as B.
  apply N.mod_unique with (q := k * (a / (m * k)) + (a mod (m * k)) / m); [assumption|].
  nia.
Qed.

Lemma mod256_128 a : (a mod 256) mod 128 = a mod 128.
Proof. apply (mod_mod_div a 128 2); lia. Qed.
Lemma mod256_16 a : (a mod 256) mod 16 = a mod 16.
Proof. apply (mod_mod_div a 16 16); lia. Qed.

Lemma div_pow2_step u bits : u / 2 ^ bits / 128 = u / 2 ^ (bits + 7).
Proof.
  rewrite N.div_div by (try apply N.pow_nonzero; lia).
  rewrite N.pow_add_r. reflexivity.
Qed.

Lemma land_low_shifted a b n : a < 2 ^ n -> N.land a (b * 2 ^ n) = 0.
Proof.
  intros Ha. apply N.bits_inj. intros i. rewrite N.land_spec, N.bits_0.
  rewrite <- N.shiftl_mul_pow2.
  destruct (N.lt_ge_cases i n) as [Hi|Hi].
  - rewrite N.shiftl_spec_low by assumption. apply andb_false_r.
  - rewrite <- (N.mod_small a (2 ^ n)) by assumption.
    rewrite N.mod_pow2_bits_high by assumption. reflexivity.
Qed.

Lemma lor_add_disjoint a b n : a < 2 ^ n -> N.lor a (b * 2 ^ n) = a + b * 2 ^ n.
Proof.
  intros Ha. pose proof (land_low_shifted a b n Ha) as H.
  rewrite (N.add_nocarry_lxor _ _ H). symmetry. now apply N.lxor_lor.
Qed.

(* ------------------------------------------------------------------ *)
(** * shift/mask form = arithmetic form *)

Lemma cont_sm_ar : forall k u bits, cont_sm k u bits = cont_ar k (u / 2 ^ bits).
Proof.
  induction k as [|k IH]; intros u bits; [reflexivity|].
  cbn [cont_sm cont_ar]. rewrite N.shiftr_div_pow2. unfold u8.
  pose proof (N.mod_lt (u / 2 ^ bits) 256 ltac:(lia)) as Hy.
  destruct (byte_cont_facts _ Hy) as [F1 F2]. rewrite mod256_128 in F1, F2.
  destruct k as [|k'].
  - now rewrite F2.
  - rewrite F1, IH, div_pow2_step. reflexivity.
Qed.

Lemma byte0_sm_ar ty u : ty < 8 -> byte0_sm ty u = 128 + 16 * ty + u mod 16.
Proof.
  intros Hty. unfold byte0_sm.
  pose proof (N.mod_lt u 16 ltac:(lia)) as Hlo.
  set (z := 16 * ty + u mod 16).
  assert (Hz : z < 128) by (unfold z; lia).
  assert (Hq : z / 16 = ty).
  { unfold z. symmetry. apply N.div_unique with (u mod 16); lia. }
  assert (Hr : z mod 16 = u mod 16).
  { unfold z. symmetry. apply N.mod_unique with ty; lia. }
  destruct (byte0_facts z Hz) as [F _]. rewrite Hq, Hr in F.
  rewrite byte_low_facts by (unfold u8; apply N.mod_lt; lia).
  unfold u8 at 3. rewrite mod256_16. rewrite F. unfold z. lia.
Qed.

Theorem encode_len_sm_ar ty u : ty < 8 -> encode_len_sm ty u = encode_len_ar ty u.
Proof.
  intros Hty. unfold encode_len_sm, encode_len_ar, len64.
  rewrite byte0_sm_ar by assumption. rewrite cont_sm_ar. reflexivity.
Qed.

(* ------------------------------------------------------------------ *)
(** * decoding the arithmetic form *)

Lemma pow2_7k k : 2 ^ (7 * N.of_nat (S k)) = 128 * 2 ^ (7 * N.of_nat k).
Proof.
  replace (7 * N.of_nat (S k)) with (7 + 7 * N.of_nat k) by lia.
  rewrite N.pow_add_r. reflexivity.
Qed.

Lemma shl64_small x bits : x * 2 ^ bits < 2 ^ 64 -> shl64 x bits = x * 2 ^ bits.
Proof.
  intros H. unfold shl64. destruct (64 <=? bits) eqn:E.
  - apply N.leb_le in E.
    assert (2 ^ 64 <= 2 ^ bits) by (apply N.pow_le_mono_r; lia).
    destruct (N.eq_dec x 0) as [->|Hx]; [lia|]. nia.
  - rewrite N.shiftl_mul_pow2. now apply N.mod_small.
Qed.

Lemma dec_cont_ar : forall k r acc bits rest,
  (1 <= k)%nat -> r < 2 ^ (7 * N.of_nat k) -> acc < 2 ^ bits -> acc + r * 2 ^ bits < 2 ^ 64 ->
  dec_cont (cont_ar k r ++ rest) acc bits = Some (acc + r * 2 ^ bits, rest).
Proof.
  induction k as [|k IH]; intros r acc bits rest Hk Hr Hacc Hlt; [lia|].
  cbn [cont_ar].
  pose proof (N.mod_lt r 128 ltac:(lia)) as Hd.
  pose proof (N.div_mod r 128 ltac:(lia)) as Hdm.
  destruct (byte_dec_facts _ Hd) as (F1 & F2 & F3 & F4).
  set (P := 2 ^ bits) in *.
  assert (HP : 0 < P) by (unfold P; apply N.neq_0_lt_0, N.pow_nonzero; lia).
  set (d := r mod 128) in *. set (q := r / 128) in *.
  assert (HrP : r * P = 128 * (q * P) + d * P) by (rewrite Hdm at 1; ring).
  assert (HdP : d * P <= 127 * P) by (apply N.mul_le_mono_r; lia).
  assert (HP7 : 2 ^ (bits + 7) = 128 * P) by (rewrite N.pow_add_r; fold P; change (2 ^ 7) with 128; ring).
  destruct k as [|k'].
  - (* last byte *)
    cbn [app dec_cont]. rewrite F3, F4.
    assert (Hr' : r < 128) by (cbn in Hr; lia).
    assert (Hq : q = 0) by (unfold q; apply N.div_small; assumption).
    assert (Hdr : d = r) by (unfold d; apply N.mod_small; assumption).
    rewrite Hdr in *.
    rewrite shl64_small by (fold P; lia). fold P.
    unfold P. rewrite lor_add_disjoint by assumption. reflexivity.
  - cbn [app dec_cont]. rewrite F1, F2.
    rewrite shl64_small by (fold P; lia). fold P.
    unfold P at 1. rewrite lor_add_disjoint by assumption. fold P.
    rewrite pow2_7k in Hr.
    assert (Hq7 : q * 2 ^ (bits + 7) = 128 * (q * P)) by (rewrite HP7; ring).
    rewrite IH.
    + f_equal. f_equal. lia.
    + lia.
    + unfold q. apply N.div_lt_upper_bound; lia.
    + lia.
    + lia.
Qed.

Lemma size_le_64 u : u < 2 ^ 64 -> N.size u <= 64.
Proof.
  intros Hu. destruct (N.le_gt_cases (N.size u) 64) as [H|H]; [assumption|].
  pose proof (N.size_le u) as Hs.
  assert (2 ^ 65 <= 2 ^ N.size u) by (apply N.pow_le_mono_r; lia).
  change (2 ^ 65) with (2 * 2 ^ 64) in *. lia.
Qed.

Theorem decode_encode_len_ar ty u rest :
  ty < 8 -> u < 2 ^ 64 -> decode_len (encode_len_ar ty u ++ rest) = Some (ty, u, rest).
Proof.
  intros Hty Hu. unfold encode_len_ar.
  pose proof (N.mod_lt u 16 ltac:(lia)) as Hlo.
  pose proof (N.div_mod u 16 ltac:(lia)) as Hdm.
  set (z := 16 * ty + u mod 16).
  assert (Hz : z < 128) by (unfold z; lia).
  assert (Hq : z / 16 = ty).
  { unfold z. symmetry. apply N.div_unique with (u mod 16); lia. }
  assert (Hr : z mod 16 = u mod 16).
  { unfold z. symmetry. apply N.mod_unique with ty; lia. }
  destruct (byte0_facts z Hz) as (_ & F2 & F3). rewrite Hq in F3. rewrite Hr in F2.
  replace (128 + 16 * ty + u mod 16) with (128 + z) by (unfold z; lia).
  cbn [app decode_len]. rewrite F2, F3.
  destruct (num_bytes_facts (N.size u) (size_le_64 u Hu)) as [Hk Hbits].
  set (k := (num_bytes (N.size u) - 1)%nat) in *.
  rewrite dec_cont_ar.
  - change (2 ^ 4) with 16. replace (u mod 16 + u / 16 * 16) with u by lia. reflexivity.
  - assumption.
  - (* u / 16 < 2^(7k)  from  u < 2^(size u) <= 2^(4+7k) *)
    pose proof (N.size_gt u) as Hs.
    assert (Hp : 2 ^ N.size u <= 2 ^ (4 + 7 * N.of_nat k)) by (apply N.pow_le_mono_r; lia).
    rewrite N.pow_add_r in Hp. change (2 ^ 4) with 16 in Hp.
    apply N.div_lt_upper_bound; lia.
  - change (2 ^ 4) with 16. lia.
  - change (2 ^ 4) with 16. lia.
Qed.

Theorem header_roundtrip ty u rest :
  1 <= ty <= 7 -> u < 2 ^ 64 -> decode_len (encode_len ty u ++ rest) = Some (ty, u, rest).
Proof.
  intros Hty Hu. unfold encode_len. rewrite encode_len_sm_ar by lia.
  apply decode_encode_len_ar; lia.
Qed.

(** the header decoder is not canonical: padding digits and bit 7 of the first byte *)
Lemma header_noncanonical :
  decode_len [176; 128; 0] = Some (3, 0, []) /\ decode_len [48; 0] = Some (3, 0, []) /\
  encode_len 3 0 = [176; 0].
Proof. repeat split; vm_compute; reflexivity. Qed.

Lemma encode_len_length ty u : (2 <= length (encode_len ty u))%nat.
Proof.
  unfold encode_len, encode_len_sm. cbn [length].
  assert (H : forall k u b, (1 <= k)%nat -> (1 <= length (cont_sm k u b))%nat).
  { intros k. induction k as [|k IH]; intros u' b Hk; [lia|]. cbn [cont_sm].
    destruct k; cbn [length]; lia. }
  destruct (N.le_gt_cases (len64 u) 64) as [Hs|Hs].
  - destruct (num_bytes_facts _ Hs) as [Hk _]. specialize (H _ u 4 Hk). lia.
  - (* not reachable for uint64, but true anyway: numBytes >= 2 for larger bit lengths too *)
    assert (Hk : (1 <= num_bytes (len64 u) - 1)%nat).
    { unfold num_bytes. set (d := (Z.of_N (len64 u) - 4)%Z).
      assert (Hd : (61 <= d)%Z) by (unfold d; lia).
      assert (Hq : (8 <= Z.quot d 7)%Z) by (apply Z.quot_le_lower_bound; lia).
      destruct (0 <? Z.rem d 7)%Z;
        repeat match goal with |- context [(?a =? 1)%Z] => destruct (Z.eqb_spec a 1) end; lia. }
    specialize (H _ u 4 Hk). lia.
Qed.

(* ------------------------------------------------------------------ *)
(** * packfile framing *)

Lemma to_nat_len' (s : bytes) : N.to_nat (len s) = length s.
Proof. unfold len. lia. Qed.

Lemma decode_obj_enc o rest : wf_obj o ->
  exists e, encode_obj o = Some e /\ (2 <= length e)%nat /\ decode_obj (e ++ rest) = Some (o, rest).
Proof.
  destruct o as [ty b]. unfold wf_obj. cbn [fst snd]. intros [Hty Hlen].
  unfold encode_obj.
  destruct (2 ^ 63 <=? len b) eqn:E; [apply N.leb_le in E; lia|].
  eexists. split; [reflexivity|]. split.
  - rewrite app_length. pose proof (encode_len_length ty (len b)). lia.
  - unfold decode_obj. rewrite <- app_assoc.
    assert (H64 : len b < 2 ^ 64).
    { assert (2 ^ 63 < 2 ^ 64) by (apply N.pow_lt_mono_r; lia). lia. }
    rewrite header_roundtrip by assumption. rewrite E.
    assert (Hfit : (len b <=? len (b ++ rest)) = true) by (apply N.leb_le; rewrite len_app; lia).
    rewrite Hfit, to_nat_len', take_app. reflexivity.
Qed.

Lemma read_objs_step f b : b <> [] ->
  read_objs (S f) b =
  match decode_obj b with
  | None => None
  | Some (o, b') => match read_objs f b' with Some r => Some (o :: r) | None => None end
  end.
Proof. destruct b; [congruence|reflexivity]. Qed.

Lemma read_objs_enc l : Forall wf_obj l ->
  exists r, enc_objs l = Some r /\ forall fuel, (length r <= fuel)%nat -> read_objs fuel r = Some l.
Proof.
  induction 1 as [|o l Ho _ (r & Er & IH)].
  - exists []. split; [reflexivity|]. intros fuel _. destruct fuel; reflexivity.
  - destruct (decode_obj_enc o r Ho) as (e & Ee & Le & De).
    exists (e ++ r). cbn [enc_objs]. rewrite Ee, Er. split; [reflexivity|].
    intros fuel Hf. rewrite app_length in Hf. destruct fuel as [|f]; [lia|].
    rewrite read_objs_step by (destruct e; [cbn in Le; lia|discriminate]).
    rewrite De, IH by lia. reflexivity.
Qed.

Theorem packfile_roundtrip l : wf_packfile l ->
  exists b, encode_packfile l = Some b /\ decode_packfile b = Some ((pack_version, l), []).
Proof.
  intros Hw. destruct (read_objs_enc l Hw) as (r & Er & Hr).
  unfold encode_packfile. rewrite Er. eexists. split; [reflexivity|].
  unfold decode_packfile. rewrite expect_app.
  rewrite rd_be_app by (vm_compute; reflexivity).
  rewrite Hr by lia. reflexivity.
Qed.

(* ------------------------------------------------------------------ *)
(** * pkt-line *)

Lemma hexval_hexchar d : d < 16 -> hexval (hexchar d) = Some d.
Proof.
  intros Hd.
  assert (H : (match hexval (hexchar d) with Some x => x =? d | None => false end) = true).
  { revert d Hd. apply (belowN_spec 16). vm_compute. reflexivity. }
  destruct (hexval (hexchar d)) as [x|]; [|discriminate]. apply N.eqb_eq in H. now subst.
Qed.

Lemma hex4_roundtrip m : m < 65536 -> hex4val (hexw 4 m) = Some m /\ length (hexw 4 m) = 4%nat.
Proof.
  intros Hm. split; [|cbn [hexw]; rewrite !app_length; reflexivity].
  cbn [hexw app]. unfold hex4val.
  pose proof (N.div_mod m 16 ltac:(lia)) as E0. pose proof (N.mod_lt m 16 ltac:(lia)) as B0.
  pose proof (N.div_mod (m / 16) 16 ltac:(lia)) as E1. pose proof (N.mod_lt (m / 16) 16 ltac:(lia)) as B1.
  pose proof (N.div_mod (m / 16 / 16) 16 ltac:(lia)) as E2.
  pose proof (N.mod_lt (m / 16 / 16) 16 ltac:(lia)) as B2.
  pose proof (N.mod_lt (m / 16 / 16 / 16) 16 ltac:(lia)) as B3.
  assert (Hq : m / 16 / 16 / 16 < 16).
  { repeat (apply N.div_lt_upper_bound; [lia|]). lia. }
  rewrite !hexval_hexchar by assumption. f_equal.
  rewrite (N.mod_small (m / 16 / 16 / 16) 16) by assumption. lia.
Qed.

Lemma firstn_len (l : bytes) n : length l = n -> firstn n l = l.
Proof. intros <-. apply firstn_all. Qed.

Theorem pktline_roundtrip s : wf_pktline s ->
  exists b, encode_pktline s = Some b /\ forall rest, decode_pktline (b ++ rest) = Some (s, rest).
Proof.
  unfold wf_pktline. intros Hs. destruct s as [|x s].
  - exists [48; 48; 48; 48]. split; [reflexivity|]. intros rest. reflexivity.
  - set (t := x :: s) in *.
    assert (Hm : len t + 1 < 65536) by lia.
    destruct (hex4_roundtrip _ Hm) as [Hh Hl].
    unfold encode_pktline. subst t. cbv iota. set (t := x :: s) in *.
    unfold fmt_hex4. apply N.ltb_lt in Hm. rewrite Hm.
    replace (firstn 4 (hexw 4 (len t + 1))) with (hexw 4 (len t + 1))
      by (symmetry; apply firstn_len; exact Hl).
    eexists. split; [reflexivity|]. intros rest.
    unfold decode_pktline. rewrite <- app_assoc. rewrite (take_app_n 4) by assumption.
    rewrite Hh.
    assert (Hnz : (len t + 1 =? 0) = false) by (apply N.eqb_neq; lia). rewrite Hnz.
    replace (t ++ [NL] ++ rest) with ((t ++ [NL]) ++ rest) by (now rewrite <- app_assoc).
    rewrite (take_app_n (N.to_nat (len t + 1))) by (rewrite app_length; unfold len; cbn [length]; lia).
    replace (N.to_nat (len t + 1) - 1)%nat with (length t) by (unfold len; lia).
    rewrite firstn_app, Nat.sub_diag, firstn_all. cbn [firstn]. now rewrite app_nil_r.
Qed.

Lemma take_firstn : forall n (b : bytes), (n <= length b)%nat -> take n b = Some (firstn n b, skipn n b).
Proof.
  induction n as [|n IH]; intros b Hn; [reflexivity|].
  destruct b as [|x b]; [cbn in Hn; lia|]. cbn [take firstn skipn]. rewrite IH by (cbn in Hn; lia). reflexivity.
Qed.

(** WritePktLine has no length guard: ANY string of 65535 bytes is written under the header
    "1000" and reads back as its first 4095 bytes.  (The function has no non-test caller.) *)
Lemma pktline_overlimit_corrupts s : len s = 65535 ->
  exists b, encode_pktline s = Some b /\ firstn 4 b = [49; 48; 48; 48] /\
    exists rest, decode_pktline b = Some (firstn (N.to_nat 4095) s, rest).
Proof.
  intros Hs. destruct s as [|x s]; [cbn in Hs; lia|]. set (t := x :: s) in *.
  unfold encode_pktline. subst t. cbv iota. set (t := x :: s) in *.
  rewrite Hs. change (fmt_hex4 (65535 + 1)) with [49; 48; 48; 48; 48].
  cbn [firstn]. eexists. split; [reflexivity|]. split; [reflexivity|].
  unfold decode_pktline. cbn [app take]. change (hex4val [49; 48; 48; 48]) with (Some 4096).
  cbv iota. change (4096 =? 0) with false. cbv iota.
  assert (Hl : length t = N.to_nat 65535) by (unfold len in Hs; lia).
  rewrite take_firstn by (rewrite app_length, Hl; lia).
  eexists. f_equal. f_equal.
  rewrite firstn_firstn. rewrite firstn_app.
  replace (Nat.min (N.to_nat 4096 - 1) (N.to_nat 4096)) with (N.to_nat 4095) by lia.
  replace (N.to_nat 4095 - length t)%nat with 0%nat by lia. cbn [firstn]. now rewrite app_nil_r.
Qed.
