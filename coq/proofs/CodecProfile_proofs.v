(** Proofs for model/CodecProfile.v: table profile framing.  Axiom-free. *)
From W.lib Require Import Tree Bytes.
From W.model Require Import CodecBase CodecStrList CodecObjline CodecProfile.
From W.proofs Require Import CodecBase_proofs CodecStrList_proofs CodecObjline_proofs.
From Coq Require Import Arith Lia ZifyNat ZifyN ZifyBool List NArith Bool.
Import ListNotations.
Local Open Scope N_scope.

(* ------------------------------------------------------------------ *)
(** * the field table *)

Lemma field_lookup i : (i < 12)%nat ->
  exists n k, nth_error profile_names i = Some n /\ nth_error profile_kinds i = Some k /\
              find_field n profile_fields 0 = Some (i, k).
Proof.
  intros Hi.
  do 12 (destruct i as [|i]; [eexists; eexists; repeat split; vm_compute; reflexivity|]).
  lia.
Qed.

Lemma kinds_length : length profile_kinds = 12%nat. Proof. reflexivity. Qed.
Lemma names_length : length profile_names = 12%nat. Proof. reflexivity. Qed.

Lemma names_wf : wf_strlist profile_names.
Proof.
  split; [vm_compute; reflexivity|].
  unfold profile_names, profile_fields. cbn [map fst].
  repeat constructor; vm_compute; congruence.
Qed.

Lemma fields_bytes_spec :
  encode_strlist profile_names = Some fields_bytes /\
  forall rest, decode_strlist (fields_bytes ++ rest) = Some (profile_names, rest).
Proof.
  destruct (strlist_roundtrip _ names_wf) as (b & Eb & Db).
  unfold fields_bytes. rewrite Eb. split; [reflexivity|]. intros rest. apply Db.
Qed.

(* ------------------------------------------------------------------ *)
(** * field values *)

Lemma empty_is_empty k v : val_ok k v -> is_empty v = true -> v = empty_of k.
Proof.
  destruct k, v as [s|n|o|o|o]; cbn; try contradiction; intros Hv He.
  - destruct s; [reflexivity|discriminate].
  - apply N.eqb_eq in He. now subst.
  - apply N.eqb_eq in He. now subst.
  - destruct o; [discriminate|reflexivity].
  - destruct o; [discriminate|reflexivity].
  - destruct o; [discriminate|reflexivity].
Qed.

Lemma enc_topvalues_rt l :
  Forall (fun vc => len (fst vc) <= 65535 /\ snd vc < 2 ^ 32) l ->
  exists r, enc_topvalues l = Some r /\ (length l <= length r)%nat /\
    forall rest, read_topvalues (length l) (r ++ rest) = Some (l, rest).
Proof.
  induction 1 as [|[v c] l [Hv Hc] _ (r & Er & Lr & Dr)].
  - exists []. repeat split; auto.
  - cbn [fst snd] in *. cbn [enc_topvalues]. rewrite Er.
    destruct (max_str_len <? len v) eqn:E; [apply N.ltb_lt in E; unfold max_str_len in E; lia|].
    eexists. split; [reflexivity|]. split.
    + rewrite !app_length, !be_length. cbn [length]. lia.
    + intros rest. cbn [length read_topvalues]. rewrite <- !app_assoc.
      rewrite rd_be_app by (rewrite pow256_4; assumption).
      rewrite dec_string_enc by assumption. now rewrite Dr.
Qed.

Lemma enc_topvalues_none l :
  Exists (fun vc => 65535 < len (fst vc)) l -> enc_topvalues l = None.
Proof.
  induction 1 as [[v c] l Hv|[v c] l _ IH]; cbn [enc_topvalues fst] in *.
  - apply N.ltb_lt in Hv. unfold max_str_len. now rewrite Hv.
  - rewrite IH. now destruct (max_str_len <? len v).
Qed.

Lemma val_roundtrip k v : val_ok k v -> is_empty v = false ->
  exists body, enc_val k v = Some body /\ forall rest, dec_val k (body ++ rest) = Some (v, rest).
Proof.
  destruct k, v as [s|n|o|o|o]; cbn [val_ok]; try contradiction; intros Hv He.
  - (* string *)
    exists (be 2 (len s) ++ s). cbn [enc_val dec_val]. split; [now apply enc_string_some|].
    intros rest. rewrite <- app_assoc, dec_string_enc by assumption. reflexivity.
  - exists (be 4 n). split; [reflexivity|]. intros rest. cbn [dec_val].
    rewrite rd_be_app by (rewrite pow256_4; assumption). reflexivity.
  - exists (be 2 n). split; [reflexivity|]. intros rest. cbn [dec_val].
    rewrite rd_be_app by (rewrite pow256_2; change (2 ^ 16) with 65536 in Hv; assumption). reflexivity.
  - destruct o as [f|]; [|discriminate].
    exists (be 8 f). split; [reflexivity|]. intros rest. cbn [dec_val].
    rewrite rd_be_app by (rewrite pow256_8; assumption). reflexivity.
  - destruct o as [l|]; [|discriminate].
    destruct (words_roundtrip 8 l ltac:(lia) Hv) as (b & Eb & Db).
    exists b. split; [exact Eb|]. intros rest. cbn [dec_val]. unfold decode_floatlist. now rewrite Db.
  - destruct o as [l|]; [|discriminate]. destruct Hv as [Hn Hl].
    destruct (enc_topvalues_rt l Hl) as (r & Er & Lr & Dr).
    exists (be 4 (N.of_nat (length l)) ++ r). cbn [enc_val]. rewrite Er. split; [reflexivity|].
    intros rest. cbn [dec_val]. rewrite <- app_assoc.
    rewrite rd_be_app by (rewrite pow256_4; assumption).
    unfold count_fits, len. rewrite app_length.
    destruct (N.of_nat (length l) <=? N.of_nat (length r + length rest)) eqn:E;
      [|apply N.leb_gt in E; lia].
    rewrite Nat2N.id, Dr. reflexivity.
Qed.

Lemma val_overlimit_none k v : val_overlimit v -> is_empty v = false /\ enc_val k v = None.
Proof.
  destruct v as [s|n|o|o|o]; cbn [val_overlimit]; try contradiction.
  - intros H. split.
    + destruct s; [cbn in H; lia|reflexivity].
    + destruct k; try reflexivity. cbn [enc_val]. now apply enc_string_none.
  - destruct o as [l|]; [|contradiction]. intros H. split; [reflexivity|].
    destruct k; try reflexivity. cbn [enc_val]. now rewrite (enc_topvalues_none _ H).
Qed.

(* ------------------------------------------------------------------ *)
(** * one column *)

Lemma set_nth_app {A} (pv : list A) x y tl : set_nth (length pv) y (pv ++ x :: tl) = pv ++ y :: tl.
Proof. induction pv as [|a pv IH]; cbn; [reflexivity|]. now rewrite IH. Qed.

Lemma read_col_step f fields col b j b1 :
  rd_be 2 b = Some (j, b1) ->
  read_col (S f) fields col b =
    if j =? 0 then Some (col, b1)
    else if (N.of_nat (length fields) mod 65536) <? j then None
    else match nth_error fields (N.to_nat (j - 1)) with
         | None => None
         | Some name =>
             match find_field name profile_fields 0 with
             | None => None
             | Some (i, k) =>
                 match dec_val k b1 with
                 | None => None
                 | Some (v, b2) => read_col f fields (set_nth i v col) b2
                 end
             end
         end.
Proof. intros H. cbn [read_col]. now rewrite H. Qed.

Lemma col_roundtrip : forall ks vs, Forall2 val_ok ks vs ->
  forall pk pv, profile_kinds = pk ++ ks -> length pk = length pv ->
  exists e, enc_col_from (N.of_nat (length pk) + 1) ks vs = Some e /\ (2 <= length e)%nat /\
    forall fuel rest, (length e <= fuel)%nat ->
      read_col fuel profile_names (pv ++ map empty_of ks) (e ++ rest) = Some (pv ++ vs, rest).
Proof.
  induction 1 as [|k v ks vs Hv _ IH]; intros pk pv Hk Hl.
  - exists (be 2 0). cbn [enc_col_from]. split; [reflexivity|]. split; [cbn; lia|].
    intros fuel rest Hf. destruct fuel as [|f]; [cbn in Hf; lia|].
    rewrite (read_col_step _ _ _ _ 0 rest) by (apply rd_be_app; vm_compute; reflexivity).
    cbn [N.eqb map]. reflexivity.
  - assert (Hk' : profile_kinds = (pk ++ [k]) ++ ks) by (now rewrite <- app_assoc).
    assert (Hl' : length (pk ++ [k]) = length (pv ++ [v])) by (rewrite !app_length; cbn; lia).
    destruct (IH (pk ++ [k]) (pv ++ [v]) Hk' Hl') as (e' & Ee' & Le' & De').
    replace (N.of_nat (length (pk ++ [k])) + 1) with (N.of_nat (length pk) + 1 + 1) in Ee'
      by (rewrite app_length; cbn [length]; lia).
    assert (Hi : (length pk < 12)%nat).
    { pose proof kinds_length as HL. rewrite Hk, app_length in HL. cbn [length] in HL. lia. }
    cbn [enc_col_from map]. destruct (is_empty v) eqn:Eemp.
    + (* empty field: skipped by the writer, already empty in the reader's column *)
      rewrite (empty_is_empty k v Hv Eemp) in *.
      exists e'. split; [exact Ee'|]. split; [exact Le'|].
      intros fuel rest Hf. specialize (De' fuel rest Hf).
      rewrite <- !app_assoc in De'. cbn [app] in De'. exact De'.
    + destruct (val_roundtrip k v Hv Eemp) as (body & Eb & Db).
      rewrite Eb, Ee'. eexists. split; [reflexivity|]. split.
      { rewrite !app_length, be_length. lia. }
      intros fuel rest Hf. rewrite !app_length, be_length in Hf.
      destruct fuel as [|f]; [lia|].
      set (j := N.of_nat (length pk) + 1) in *.
      rewrite <- !app_assoc.
      rewrite (read_col_step _ _ _ _ j (body ++ e' ++ rest))
        by (apply rd_be_app; rewrite pow256_2; unfold j; lia).
      assert (Hj0 : (j =? 0) = false) by (apply N.eqb_neq; unfold j; lia). rewrite Hj0.
      rewrite names_length.
      assert (Hj12 : (N.of_nat 12 mod 65536 <? j) = false).
      { apply N.ltb_ge. change (N.of_nat 12 mod 65536) with 12. unfold j. lia. }
      rewrite Hj12.
      replace (N.to_nat (j - 1)) with (length pk) by (unfold j; lia).
      destruct (field_lookup (length pk) Hi) as (n & k0 & Hn & Hk0 & Hff).
      rewrite Hn, Hff.
      assert (k0 = k).
      { rewrite Hk, nth_error_app2, Nat.sub_diag in Hk0 by lia. cbn in Hk0. now inv Hk0. }
      subst k0. rewrite Db. rewrite Hl, set_nth_app.
      specialize (De' f rest ltac:(lia)).
      rewrite <- !app_assoc in De'. cbn [app] in De'. exact De'.
Qed.

Lemma enc_col_roundtrip c : wf_col c ->
  exists e, enc_col c = Some e /\ (2 <= length e)%nat /\
    forall fuel rest, (length e <= fuel)%nat ->
      read_col fuel profile_names empty_col (e ++ rest) = Some (c, rest).
Proof.
  intros Hw. apply (col_roundtrip _ _ Hw [] []); reflexivity.
Qed.

Lemma enc_col_overlimit : forall vs j ks, Exists val_overlimit vs -> enc_col_from j ks vs = None.
Proof.
  induction vs as [|v vs IH]; intros j ks H; [inversion H|].
  destruct ks as [|k ks]; [reflexivity|]. cbn [enc_col_from].
  inversion H as [? ? Hv|? ? Hvs]; subst.
  - destruct (val_overlimit_none k v Hv) as [E1 E2]. now rewrite E1, E2.
  - rewrite (IH _ _ Hvs). destruct (is_empty v); [reflexivity|]. now destruct (enc_val k v).
Qed.

(* ------------------------------------------------------------------ *)
(** * the whole profile *)

Lemma enc_cols_roundtrip cols : Forall wf_col cols ->
  exists r, enc_cols cols = Some r /\ (length cols <= length r)%nat /\
    forall rest, read_cols (length cols) profile_names (r ++ rest) = Some (cols, rest).
Proof.
  induction 1 as [|c cols Hc _ (r & Er & Lr & Dr)].
  - exists []. repeat split; auto.
  - destruct (enc_col_roundtrip c Hc) as (e & Ee & Le & De).
    exists (e ++ r). cbn [enc_cols]. rewrite Ee, Er. split; [reflexivity|]. split.
    + rewrite app_length. cbn [length]. lia.
    + intros rest. cbn [length read_cols]. rewrite <- app_assoc.
      rewrite De by (rewrite app_length; lia). now rewrite Dr.
Qed.

Theorem profile_roundtrip p : wf_profile p ->
  exists b, encode_profile p = Some b /\ forall rest, decode_profile (b ++ rest) = Some (p, rest).
Proof.
  destruct p as [ver rows cols]. unfold wf_profile. cbn [p_version p_rowscount p_cols].
  intros (Hv & Hr & Hn & Hc).
  destruct (enc_cols_roundtrip cols Hc) as (cs & Ecs & Lcs & Dcs).
  destruct fields_bytes_spec as [_ Df].
  unfold encode_profile. cbn [p_version p_rowscount p_cols]. rewrite Ecs.
  eexists. split; [reflexivity|]. intros rest.
  unfold decode_profile. rewrite <- !app_assoc.
  rewrite (dec_field_enc L_version (rd_be 4) _ ver) by (apply rd_be_app; rewrite pow256_4; assumption).
  rewrite (dec_field_enc L_fields decode_strlist _ profile_names) by apply Df.
  rewrite (dec_field_enc L_rowsCount (rd_be 4) _ rows) by (apply rd_be_app; rewrite pow256_4; assumption).
  rewrite (dec_field_enc L_colsCount (rd_be 4) _ (N.of_nat (length cols)))
    by (apply rd_be_app; rewrite pow256_4; assumption).
  rewrite (dec_field_enc L_pcolumns _ cs cols).
  - reflexivity.
  - unfold count_fits, len. rewrite app_length.
    destruct (N.of_nat (length cols) <=? N.of_nat (length cs + length ([NL] ++ rest))) eqn:E;
      [|apply N.leb_gt in E; lia].
    rewrite Nat2N.id. apply Dcs.
Qed.

Lemma enc_cols_overlimit cols :
  Exists (fun c => Exists val_overlimit c) cols -> enc_cols cols = None.
Proof.
  induction 1 as [c cols Hc|c cols _ IH]; cbn [enc_cols].
  - unfold enc_col. now rewrite (enc_col_overlimit _ _ _ Hc).
  - rewrite IH. now destruct (enc_col c).
Qed.

Theorem profile_reject_overlimit p :
  Exists (fun c => Exists val_overlimit c) (p_cols p) -> encode_profile p = None.
Proof. intros H. unfold encode_profile. now rewrite (enc_cols_overlimit _ H). Qed.

(** the profile reader is not canonical: a column that spells out naCount = 0
    reads like one that omits it *)
Definition nc_profile_bytes (columns : bytes) : bytes :=
  enc_field L_version (be 4 1) ++ enc_field L_fields fields_bytes ++
  enc_field L_rowsCount (be 4 0) ++ enc_field L_colsCount (be 4 1) ++ enc_field L_pcolumns columns.

Lemma profile_noncanonical :
  let p := mk_profile 1 0 [empty_col] in
  decode_profile (nc_profile_bytes [0;2; 0;0;0;0; 0;0]) = Some (p, []) /\
  encode_profile p = Some (nc_profile_bytes [0;0]).
Proof. split; vm_compute; reflexivity. Qed.
