(** Bridge B6 (C06 <-> C17/C18): proofs.

    Method.  [Reader_proofs.exec_factors] already says that a decoder whose read sites are all
    Full factors through [exec_pure] over the remaining bytes.  [evp] below is [exec_pure]
    without the allocation meter; every reader-level primitive is then characterised through
    the codec primitive [take] ([evp_rdf], [evp_rd_exact], [evp_next_bytes], ...), every
    [for_n] loop through the generic structural recursion [repl] (to which every codec loop
    is equal), and each decoder of model/Dec*.v is compared with its model/Codec*.v
    counterpart by unfolding both along the same sequence of reads. *)
From Coq Require Import String.
From Coq Require Import List Lia Arith ZArith ZifyNat ZifyN ZifyBool Bool.
From W.lib Require Import Tree Bytes GoSlice Reader.
From W.model Require Import CodecBase CodecStrList CodecObjline.
From W.model Require CodecCommit CodecTable CodecProfile CodecPackfile.
From W.model Require Import DecPrim DecLists DecObjects DecPack DecReceive DecRun.
From W.model Require Import BridgeCodecDec.
From W.proofs Require Import CodecBase_proofs Reader_proofs DecSpec_proofs DecLists_proofs.
From W.proofs Require CodecStrList_proofs CodecPackfile_proofs CodecCommit_proofs CodecTable_proofs
     CodecProfile_proofs CodecC06_proofs.
Import ListNotations.
Local Open Scope N_scope.

(* ================================================================== *)
(** * exec_pure without the meter *)
Fixpoint evp {A} (p : prog A) (s : bytes) : res A * bytes :=
  match p with
  | Ret a => (Ok a, s)
  | Fail e => (Err e, s)
  | Crash => (Panic, s)
  | Rd _ n k => let '(d, e, s') := pure_read_full n s in evp (k d e) s'
  | Cp _ n k => let '(d, e, s') := pure_copy_n n s in evp (k d e) s'
  | Alloc _ k => evp k s
  end.

Lemma exec_pure_evp {A} (p : prog A) s m : fst (exec_pure p s m) = evp p s.
Proof.
  revert s m; induction p as [a|e| |st n k IH|st n k IH|c k IH]; intros s m; cbn; auto.
  - destruct (pure_read_full n s) as [[d e] s']. apply IH.
  - destruct (pure_copy_n n s) as [[d e] s']. apply IH.
Qed.

Lemma evp_bind {A B} (p : prog A) (f : A -> prog B) s :
  evp (bind p f) s =
  match evp p s with
  | (Ok a, s') => evp (f a) s'
  | (Err e, s') => (Err e, s')
  | (Panic, s') => (Panic, s')
  end.
Proof.
  revert s; induction p as [a|e| |st n k IH|st n k IH|c k IH]; intros s; cbn; auto.
  - destruct (pure_read_full n s) as [[d e] s']. apply IH.
  - destruct (pure_copy_n n s) as [[d e] s']. apply IH.
Qed.

Lemma evp_attempt {A} (p : prog A) s :
  evp (attempt p) s =
  match evp p s with
  | (Ok a, s') => (Ok (inr a), s')
  | (Err e, s') => (Ok (inl e), s')
  | (Panic, s') => (Panic, s')
  end.
Proof.
  revert s; induction p as [a|e| |st n k IH|st n k IH|c k IH]; intros s; cbn; auto.
  - destruct (pure_read_full n s) as [[d e] s']. apply IH.
  - destruct (pure_copy_n n s) as [[d e] s']. apply IH.
Qed.

Lemma evp_alloc_bind {A} c (f : unit -> prog A) s : evp (bind (alloc c) f) s = evp (f tt) s.
Proof. reflexivity. Qed.

(** a decoder run on any chunking = [evp] on the byte string *)
Lemma run_on_evp (kd : site -> read_kind) (Hk : forall s, kd s = Full)
      {A} (D : nat -> prog A) b p e :
  (outcome (run_on kd D (chunked p b e)), rest (snd (fst (run_on kd D (chunked p b e)))))
  = evp (D (dec_fuel b)) b.
Proof.
  unfold run_on, outcome. rewrite rest_chunked.
  destruct (exec kd (D (dec_fuel b)) (chunked p b e) 0) as [[a r'] m'] eqn:E.
  apply (exec_factors kd Hk) in E. destruct E as [E _]. rewrite rest_chunked in E.
  rewrite <- (exec_pure_evp (D (dec_fuel b)) b 0), E. reflexivity.
Qed.

Lemma dec_on_evp {A} (D : nat -> prog A) b : fst (dec_on D b) = fst (evp (D (dec_fuel b)) b).
Proof.
  unfold dec_on. rewrite <- (exec_pure_evp (D (dec_fuel b)) b 0).
  destruct (exec_pure (D (dec_fuel b)) b 0) as [[r s'] m]. reflexivity.
Qed.

(* ================================================================== *)
(** * agreement relations on [evp] results *)
Definition ag {A B} (conv : B -> A) (x : res A * bytes) (o : option (B * bytes)) : Prop :=
  match o with
  | Some (v, t) => x = (Ok (conv v), t)
  | None => exists e t, x = (Err e, t) /\ e <> CFuel
  end.

(** ... and the error is io.EOF exactly when nothing at all was left to read *)
Definition ag_eof {A B} (conv : B -> A) (s : bytes) (x : res A * bytes) (o : option (B * bytes)) : Prop :=
  match o with
  | Some (v, t) => x = (Ok (conv v), t)
  | None => exists e t, x = (Err e, t) /\ e <> CFuel /\ (e = CEof <-> s = [])
  end.

Lemma ag_eof_ag {A B} (conv : B -> A) s x o : ag_eof conv s x o -> ag conv x o.
Proof.
  unfold ag_eof, ag. destruct o as [[v t]|]; auto.
  intros (e & t & H1 & H2 & _). eauto.
Qed.

Lemma codec_agrees_of_evp {A B} (conv : B -> A) (D : nat -> prog A) (C : bytes -> option (B * bytes)) :
  (forall b, ag conv (evp (D (dec_fuel b)) b) (C b)) -> codec_agrees conv D C.
Proof.
  intros H k Hk b p e. cbv zeta.
  pose proof (run_on_evp (kinds_of k) (all_full_kinds k Hk) D b p e) as E.
  specialize (H b). unfold ag in H.
  destruct (C b) as [[v t]|].
  - rewrite H in E. apply pair_inj in E. exact E.
  - destruct H as (e0 & t & H1 & H2). rewrite H1 in E. apply pair_inj in E. destruct E as [E _].
    eauto.
Qed.

Lemma codec_agrees_bytes_of_evp {A B} (conv : B -> A) (D : nat -> prog A) (C : bytes -> option (B * bytes)) :
  (forall b, ag conv (evp (D (dec_fuel b)) b) (C b)) -> codec_agrees_on_bytes conv D C.
Proof.
  intros H b. rewrite dec_on_evp. specialize (H b). unfold ag in H.
  destruct (C b) as [[v t]|].
  - rewrite H. reflexivity.
  - destruct H as (e0 & t & H1 & H2). rewrite H1. cbn [fst]. eauto.
Qed.

(* ================================================================== *)
(** * primitives through [take] *)
Lemma take_length n (b h t : bytes) : take n b = Some (h, t) -> length h = n /\ length b = (n + length t)%nat.
Proof. intros H. apply take_spec in H as [-> H]. rewrite app_length. lia. Qed.

Lemma take_firstn' n (b : bytes) : (n <= length b)%nat -> take n b = Some (firstn n b, skipn n b).
Proof. apply CodecPackfile_proofs.take_firstn. Qed.

Lemma pure_read_full_take n s :
  pure_read_full n s =
  match take n s with
  | Some (h, t) => (h, None, t)
  | None => (s, Some (eof_or_unexpected s), [])
  end.
Proof.
  unfold pure_read_full. destruct (n <=? length s)%nat eqn:E.
  - apply Nat.leb_le in E. now rewrite take_firstn' by assumption.
  - apply Nat.leb_gt in E. destruct (take n s) as [[h t]|] eqn:T; [|reflexivity].
    apply take_length in T. lia.
Qed.

Lemma take_none_nonempty n (s : bytes) : take n s = None -> (0 < n)%nat.
Proof. destruct n; [discriminate|lia]. Qed.

Lemma evp_rdf st n s :
  evp (rdf st n) s =
  match take n s with
  | Some (h, t) => (Ok (h, None), t)
  | None => (Ok (s, Some (eof_or_unexpected s)), [])
  end.
Proof.
  unfold rdf. cbn [evp]. rewrite pure_read_full_take. destruct (take n s) as [[h t]|]; reflexivity.
Qed.

Lemma evp_rd_exact st n s :
  evp (rd_exact st n) s =
  match take n s with
  | Some (h, t) => (Ok h, t)
  | None => (Err (eof_or_unexpected s), [])
  end.
Proof.
  unfold rd_exact. rewrite evp_bind, evp_rdf. destruct (take n s) as [[h t]|]; reflexivity.
Qed.

Lemma evp_next_bytes n s :
  evp (next_bytes n) s =
  match take n s with
  | Some (h, t) => (Ok (h, None), t)
  | None => (Ok (pad n s, Some (eof_or_unexpected s)), [])
  end.
Proof.
  unfold next_bytes. rewrite evp_alloc_bind, evp_bind, evp_rdf.
  destruct (take n s) as [[h t]|] eqn:T; cbn [evp]; [|reflexivity].
  apply take_length in T. rewrite pad_exact by tauto. reflexivity.
Qed.

Lemma eof_or_unexpected_nofuel s : eof_or_unexpected s <> CFuel.
Proof. destruct s; discriminate. Qed.

Lemma eof_or_unexpected_eof s : eof_or_unexpected s = CEof <-> s = [].
Proof. destruct s; cbn; split; intros H; try reflexivity; discriminate. Qed.

Lemma be_uint_exact w h : length h = w -> be_uint w h = Ok (unbe h).
Proof.
  intros H. rewrite be_uint_len_ok by lia. now rewrite firstn_all2 by lia.
Qed.

(** objline scalars: [read_u16] / [read_u32] / [read_f64] are instances *)
Definition scalar_prog (w : nat) : prog N :=
  bind (next_bytes w) (fun x => match x with (b, e) =>
    match e with Some c => Fail c | None => lift (be_uint w b) end end).

Lemma evp_scalar w s :
  evp (scalar_prog w) s =
  match rd_be w s with
  | Some (v, t) => (Ok v, t)
  | None => (Err (eof_or_unexpected s), [])
  end.
Proof.
  unfold scalar_prog, rd_be. rewrite evp_bind, evp_next_bytes.
  destruct (take w s) as [[h t]|] eqn:T; [|reflexivity].
  apply take_length in T. rewrite be_uint_exact by tauto. reflexivity.
Qed.

Lemma read_u16_scalar : read_u16 = scalar_prog 2. Proof. reflexivity. Qed.
Lemma read_u32_scalar : read_u32 = scalar_prog 4. Proof. reflexivity. Qed.
Lemma read_f64_scalar : read_f64 = scalar_prog 8. Proof. reflexivity. Qed.

Lemma ag_scalar w s : ag_eof (fun v : N => v) s (evp (scalar_prog w) s) (rd_be w s).
Proof.
  rewrite evp_scalar. unfold ag_eof. destruct (rd_be w s) as [[v t]|]; [reflexivity|].
  eexists _, _. split; [reflexivity|]. split; [apply eof_or_unexpected_nofuel|apply eof_or_unexpected_eof].
Qed.

(** ReadString *)
Lemma ag_read_string s : ag (fun v : bytes => v) (evp read_string s) (dec_string s).
Proof.
  unfold read_string, dec_string, rd_be. rewrite evp_bind, evp_next_bytes.
  destruct (take 2 s) as [[h t]|] eqn:T.
  - apply take_length in T. cbn [ag]. unfold be_u16. rewrite be_uint_exact by tauto. cbn [lift].
    rewrite evp_bind. cbn [evp]. rewrite evp_bind, evp_next_bytes.
    destruct (take (N.to_nat (unbe h)) t) as [[h2 t2]|] eqn:T2; [reflexivity|].
    cbn [ag]. destruct t as [|c t']; cbn [eof_or_unexpected evp]; eexists _, _;
      (split; [reflexivity|discriminate]).
  - cbn [ag]. eexists _, _. split; [reflexivity|apply eof_or_unexpected_nofuel].
Qed.

(** objline.ReadBytes *)
Lemma ag_read_bytes_into n s : ag (fun v : bytes => v) (evp (read_bytes_into n) s) (dec_raw n s).
Proof.
  unfold read_bytes_into, dec_raw. rewrite evp_rd_exact.
  destruct (take n s) as [[h t]|]; cbn [ag]; [reflexivity|].
  eexists _, _. split; [reflexivity|apply eof_or_unexpected_nofuel].
Qed.

(** consumeStr / expect *)
Lemma evp_consume_str l s :
  evp (consume_str l) s =
  match take (length l) s with
  | Some (h, t) => if beqb h l then (Ok tt, t) else (Err COther, t)
  | None => (Err (eof_or_unexpected s), [])
  end.
Proof.
  unfold consume_str. rewrite evp_bind, evp_next_bytes.
  destruct (take (length l) s) as [[h t]|]; [|reflexivity].
  destruct (beqb h l); reflexivity.
Qed.

Lemma wrap_v_not_eof e : wrap_v e <> CEof.
Proof. destruct e; discriminate. Qed.
Lemma wrap_v_nofuel' e : e <> CFuel -> wrap_v e <> CFuel.
Proof. destruct e; cbn; congruence. Qed.

(** ReadField / dec_field *)
Lemma ag_read_field {A B} (conv : B -> A) label (f : prog A) (g : bytes -> option (B * bytes)) s :
  (forall t, (length t <= length s)%nat -> ag conv (evp f t) (g t)) ->
  ag_eof conv s (evp (read_field label f) s) (dec_field label g s).
Proof.
  intros Hf. unfold read_field, dec_field, expect, beq, SP, NL.
  rewrite evp_bind, evp_attempt, evp_consume_str.
  destruct (take (length (label ++ [32])) s) as [[h t]|] eqn:T.
  - assert (Hs : s <> [] /\ (length t <= length s)%nat).
    { apply take_length in T. rewrite app_length in T. cbn in T. split; [|lia].
      intros ->. cbn in T. lia. }
    destruct Hs as [Hs Hlt].
    destruct (beqb h (label ++ [32])).
    + rewrite evp_bind, evp_attempt. specialize (Hf t Hlt). unfold ag in Hf.
      destruct (g t) as [[x b2]|].
      * rewrite Hf. rewrite evp_bind, evp_attempt, evp_consume_str. cbn [length].
        destruct (take 1 b2) as [[h3 b3]|] eqn:T3.
        -- destruct (beqb h3 [10]); cbn [ag_eof evp]; [reflexivity|].
           eexists _, _. split; [reflexivity|]. split; [discriminate|]. split; [discriminate|tauto].
        -- cbn [ag_eof evp]. eexists _, _. split; [reflexivity|].
           split; [apply wrap_v_nofuel', eof_or_unexpected_nofuel|].
           split; [intros E; now apply wrap_v_not_eof in E|tauto].
      * destruct Hf as (e & t' & -> & He). cbn [ag_eof evp]. eexists _, _. split; [reflexivity|].
        split; [now apply wrap_v_nofuel'|]. split; [intros E; now apply wrap_v_not_eof in E|tauto].
    + cbn [ag_eof evp wrap_v]. eexists _, _. split; [reflexivity|].
      split; [discriminate|]. split; [discriminate|tauto].
  - cbn [ag_eof]. destruct s as [|c s]; cbn [eof_or_unexpected evp wrap_v].
    + eexists _, _. split; [reflexivity|]. split; [discriminate|tauto].
    + eexists _, _. split; [reflexivity|]. split; [discriminate|]. split; discriminate.
Qed.

(* ================================================================== *)
(** * loops *)

(** the shape of every counted loop of the codec models; the element reader is told whether
    it reads the last element (StrListDecoder.Read's EOF tolerance) *)
Fixpoint repl {X} (f : bool -> bytes -> option (X * bytes)) (n : nat) (b : bytes)
  : option (list X * bytes) :=
  match n with
  | O => Some ([], b)
  | S n' =>
      match f (match n' with O => true | _ => false end) b with
      | None => None
      | Some (x, b1) =>
          match repl f n' b1 with
          | Some (r, t) => Some (x :: r, t)
          | None => None
          end
      end
  end.

(** an element takes at least one byte, so more elements than bytes cannot be read: the
    codec models' [count_fits] guard never changes a result *)
Lemma repl_short {X} (f : bool -> bytes -> option (X * bytes)) :
  (forall l s x t, f l s = Some (x, t) -> (length t < length s)%nat) ->
  forall n s, (length s < n)%nat -> repl f n s = None.
Proof.
  intros Hf. induction n as [|n IH]; intros s Hn; [lia|]. cbn [repl].
  destruct (f _ s) as [[x b1]|] eqn:E; [|reflexivity].
  apply Hf in E. rewrite IH by lia. reflexivity.
Qed.

Lemma count_fits_repl {X} (f : bool -> bytes -> option (X * bytes)) count b :
  (forall l s x t, f l s = Some (x, t) -> (length t < length s)%nat) ->
  (if count_fits count b then repl f (N.to_nat count) b else None) = repl f (N.to_nat count) b.
Proof.
  intros Hf. unfold count_fits, len. destruct (count <=? N.of_nat (length b)) eqn:E; [reflexivity|].
  symmetry. apply repl_short; [assumption|]. apply N.leb_gt in E. lia.
Qed.

Lemma repl_length {X} (f : bool -> bytes -> option (X * bytes)) :
  (forall l s x t, f l s = Some (x, t) -> (length t < length s)%nat) ->
  forall n s r t, repl f n s = Some (r, t) -> (length t + n <= length s)%nat.
Proof.
  intros Hf. induction n as [|n IH]; intros s r t H; cbn [repl] in H.
  - inv H. lia.
  - destruct (f _ s) as [[x b1]|] eqn:E; [|discriminate]. apply Hf in E.
    destruct (repl f n b1) as [[r' t']|] eqn:E2; [|discriminate]. inv H. apply IH in E2. lia.
Qed.

Section ForN.
  Context {St X Y : Type}.
  Variable F : nat.
  Variable body : N -> St -> prog St.
  Variable n : N.
  Variable f : bool -> bytes -> option (X * bytes).
  Variable getl : St -> list Y.
  Variable conv : X -> Y.
  Variable Inv : St -> Prop.
  Hypothesis Hbody : forall i st s, i < n -> Inv st -> (length s < F)%nat ->
    match f (i =? n - 1) s with
    | Some (x, t) => exists st', evp (body i st) s = (Ok st', t) /\ getl st' = getl st ++ [conv x]
                                 /\ Inv st' /\ (length t < length s)%nat
    | None => exists e t, evp (body i st) s = (Err e, t) /\ e <> CFuel
    end.

  Lemma for_n_repl_gen : forall fuel k i st s,
    N.of_nat k = n - i -> i <= n -> Inv st -> (length s < fuel)%nat -> (fuel <= F)%nat ->
    match repl f k s with
    | Some (r, t) => exists st', evp (for_n fuel body n i st) s = (Ok st', t)
                                 /\ getl st' = getl st ++ map conv r /\ Inv st'
    | None => exists e t, evp (for_n fuel body n i st) s = (Err e, t) /\ e <> CFuel
    end.
  Proof.
    induction fuel as [|fuel IH]; intros k i st s Hk Hi HI Hs HF; [lia|].
    cbn [for_n]. destruct k as [|k].
    - replace (i <? n) with false by lia. cbn [repl evp].
      exists st. rewrite app_nil_r. auto.
    - replace (i <? n) with true by lia. cbn [repl].
      replace (match k with O => true | S _ => false end) with (i =? n - 1).
      2:{ destruct k; lia. }
      rewrite evp_bind.
      pose proof (Hbody i st s ltac:(lia) HI ltac:(lia)) as Hb.
      destruct (f (i =? n - 1) s) as [[x b1]|].
      + destruct Hb as (st' & E & Hg & HI' & Hlen). rewrite E.
        specialize (IH k (i + 1) st' b1 ltac:(lia) ltac:(lia) HI' ltac:(lia) ltac:(lia)).
        destruct (repl f k b1) as [[r t]|].
        * destruct IH as (st'' & E2 & Hg2 & HI2). exists st''. split; [exact E2|].
          split; [|exact HI2]. rewrite Hg2, Hg. cbn [map]. now rewrite <- app_assoc.
        * exact IH.
      + destruct Hb as (e & t & E & He). rewrite E. eauto.
  Qed.

  Lemma for_n_repl : forall st s, Inv st -> (length s < F)%nat ->
    match repl f (N.to_nat n) s with
    | Some (r, t) => exists st', evp (for_n F body n 0 st) s = (Ok st', t)
                                 /\ getl st' = getl st ++ map conv r /\ Inv st'
    | None => exists e t, evp (for_n F body n 0 st) s = (Err e, t) /\ e <> CFuel
    end.
  Proof.
    intros st s HI Hs. apply for_n_repl_gen; auto; lia.
  Qed.
End ForN.

(* ================================================================== *)
(** * StrList *)
Definition cell_dec (strict : bool) (last : bool) (b : bytes) : option (bytes * bytes) :=
  match rd_be 2 b with
  | None => None
  | Some (l, b1) =>
      match take (N.to_nat l) b1 with
      | Some (s, b2) => Some (s, b2)
      | None => match last, b1 with
                | true, [] => if strict then None else Some ([], [])
                | _, _ => None
                end
      end
  end.

Lemma read_cells_repl strict : forall n b, read_cells strict n b = repl (cell_dec strict) n b.
Proof.
  induction n as [|n IH]; intros b; [reflexivity|]. cbn [read_cells repl]. unfold cell_dec at 1.
  destruct (rd_be 2 b) as [[l b1]|]; [|reflexivity].
  destruct (take (N.to_nat l) b1) as [[s b2]|].
  - rewrite IH. reflexivity.
  - destruct n; [|reflexivity]. destruct b1; [|reflexivity]. destruct strict; reflexivity.
Qed.

Lemma rd_be_length w (b t : bytes) v : rd_be w b = Some (v, t) -> length b = (w + length t)%nat.
Proof.
  unfold rd_be. destruct (take w b) as [[h t']|] eqn:T; [|discriminate].
  intros H. inv H. apply take_length in T. tauto.
Qed.

Lemma cell_dec_consumes strict l s x t : cell_dec strict l s = Some (x, t) -> (length t < length s)%nat.
Proof.
  unfold cell_dec. destruct (rd_be 2 s) as [[v b1]|] eqn:R; [|discriminate].
  apply rd_be_length in R.
  destruct (take (N.to_nat v) b1) as [[d b2]|] eqn:T.
  - intros H. inv H. apply take_length in T. lia.
  - destruct l; [|discriminate]. destruct b1; [|discriminate]. destruct strict; [discriminate|].
    intros H. inv H. cbn. lia.
Qed.

Lemma strlist_cell_ag count i (st : list bytes * N) s : 0 < snd st ->
  match cell_dec false (i =? count - 1) s with
  | Some (x, t) => exists st', evp (strlist_cell count i st) s = (Ok st', t)
                               /\ fst st' = fst st ++ [x] /\ 0 < snd st' /\ (length t < length s)%nat
  | None => exists e t, evp (strlist_cell count i st) s = (Err e, t) /\ e <> CFuel
  end.
Proof.
  destruct st as [sl cap]; cbn [fst snd]; intros Hc.
  pose proof (cell_dec_consumes false (i =? count - 1) s) as Hcons.
  unfold strlist_cell, cell_dec, rd_be in *.
  rewrite evp_bind, evp_rdf. destruct (take 2 s) as [[h b1]|] eqn:T.
  2:{ cbn [evp]. eexists _, _. split; [reflexivity|apply eof_or_unexpected_nofuel]. }
  apply take_length in T. destruct T as [Th Ts].
  rewrite pad_exact by assumption. unfold be_u16. rewrite be_uint_exact by assumption.
  cbn [lift]. rewrite evp_bind. cbn [evp].
  destruct (unbe h =? 0) eqn:E0.
  - apply N.eqb_eq in E0. rewrite E0 in *. cbn [N.to_nat take] in *.
    rewrite evp_alloc_bind. cbn [evp]. eexists. split; [reflexivity|]. cbn [fst snd].
    split; [reflexivity|]. split; [assumption|]. lia.
  - destruct (ensure_buf cap (unbe h)) as [cap' cost] eqn:Eb.
    apply ensure_buf_spec in Eb; [|assumption].
    rewrite evp_alloc_bind. replace (unbe h <=? cap') with true by lia.
    rewrite evp_bind, evp_rdf.
    destruct (take (N.to_nat (unbe h)) b1) as [[d b2]|] eqn:T2.
    + rewrite evp_alloc_bind. cbn [ioerr_is_eof andb evp].
      eexists. split; [reflexivity|]. cbn [fst snd]. split; [reflexivity|]. split; [lia|].
      now apply (Hcons d b2).
    + destruct b1 as [|c b1']; cbn [eof_or_unexpected].
      * rewrite evp_alloc_bind. cbn [ioerr_is_eof andb].
        destruct (i =? count - 1); cbn [evp].
        -- eexists. split; [reflexivity|]. cbn [fst snd length]. split; [reflexivity|]. split; lia.
        -- eexists _, _. split; [reflexivity|discriminate].
      * rewrite evp_alloc_bind. cbn [ioerr_is_eof andb evp].
        destruct (i =? count - 1); eexists _, _; (split; [reflexivity|discriminate]).
Qed.

Lemma strlist_read_ag ru pc F cap s : 0 < cap -> (length s < F)%nat ->
  match decode_strlist_g false s with
  | Some (sl, t) => exists cap', evp (strlist_read_g ru pc F cap) s = (Ok (sl, cap'), t)
                                 /\ 0 < cap' /\ (length t < length s)%nat
  | None => exists e t, evp (strlist_read_g ru pc F cap) s = (Err e, t) /\ e <> CFuel
  end.
Proof.
  intros Hc Hs. unfold strlist_read_g, decode_strlist_g, rd_be.
  rewrite evp_bind, evp_rd_exact. destruct (take 4 s) as [[h b1]|] eqn:T.
  2:{ eexists _, _. split; [reflexivity|apply eof_or_unexpected_nofuel]. }
  apply take_length in T. destruct T as [Th Ts].
  unfold be_u32. rewrite evp_bind, be_uint_exact by assumption. cbn [lift evp].
  rewrite evp_alloc_bind.
  rewrite read_cells_repl, count_fits_repl by apply cell_dec_consumes.
  pose proof (for_n_repl F (strlist_cell (unbe h)) (unbe h) (cell_dec false) fst (fun x => x)
                (fun st => 0 < snd st)
                (fun i st s0 _ HI _ => strlist_cell_ag (unbe h) i st s0 HI)
                ([], cap) b1 Hc ltac:(lia)) as H.
  destruct (repl (cell_dec false) (N.to_nat (unbe h)) b1) as [[r t]|] eqn:R.
  - destruct H as ([sl' cap'] & E & Hg & HI). cbn [fst snd app] in *. rewrite map_id in Hg. subst sl'.
    exists cap'. split; [exact E|]. split; [exact HI|].
    apply repl_length in R; [lia|apply cell_dec_consumes].
  - exact H.
Qed.

Lemma strlist_read1_ag pc F s : (length s < F)%nat ->
  ag (fun v : list bytes => v) (evp (strlist_read1 pc F) s) (decode_strlist s).
Proof.
  intros Hs. unfold strlist_read1, strlist_read, decode_strlist. rewrite evp_alloc_bind, evp_bind.
  pose proof (strlist_read_ag false pc F strlist_cap0 s ltac:(unfold strlist_cap0; lia) Hs) as H.
  destruct (decode_strlist_g false s) as [[sl t]|]; cbn [ag].
  - destruct H as (cap' & E & _). rewrite E. reflexivity.
  - destruct H as (e & t & E & He). rewrite E. eauto.
Qed.

(* ================================================================== *)
(** * UintList / FloatList *)
Definition wl_read (s0 s1 : site) (w : nat) (c1 : N -> N) (c2 : N) (F : nat) : prog (list N) :=
  bind (rd_exact s0 4) (fun nb =>
  bind (lift (be_u32 nb)) (fun n =>
  bind (alloc (c1 n)) (fun _ =>
  for_n F (fun _ sl =>
             bind (rd_exact s1 w) (fun ub =>
             bind (lift (be_uint w ub)) (fun u =>
             bind (alloc c2) (fun _ => Ret (sl ++ [u]))))) n 0 []))).

Lemma uintlist_wl ru pc F :
  uintlist_read_g ru pc F = wl_read S_ulist_u32 S_ulist_u32 4 (fun n => prealloc_cost ru 4 (prealloc pc n)) 4 F.
Proof. reflexivity. Qed.
Lemma floatlist_wl ru pc F :
  floatlist_read_g ru pc F = wl_read S_flist_u32 S_flist_f64 8 (fun n => prealloc_cost ru 8 (prealloc pc n)) 8 F.
Proof. reflexivity. Qed.

Lemma read_words_repl w : forall n b, read_words w n b = repl (fun _ => rd_be w) n b.
Proof.
  induction n as [|n IH]; intros b; [reflexivity|]. cbn [read_words repl].
  destruct (rd_be w b) as [[u b1]|]; [|reflexivity]. now rewrite IH.
Qed.

Lemma wl_read_ag s0 s1 w c1 c2 F s : (0 < w)%nat -> (length s < F)%nat ->
  ag (fun v : list N => v) (evp (wl_read s0 s1 w c1 c2 F) s) (decode_words w s)
  /\ (forall v t, decode_words w s = Some (v, t) -> (length t < length s)%nat).
Proof.
  intros Hw Hs. unfold wl_read, decode_words.
  assert (Hcons : forall (l : bool) s x t, rd_be w s = Some (x, t) -> (length t < length s)%nat).
  { intros _ s' x t H. apply rd_be_length in H. lia. }
  unfold rd_be.
  rewrite evp_bind, evp_rd_exact. destruct (take 4 s) as [[h b1]|] eqn:T.
  2:{ split; [|discriminate]. eexists _, _. split; [reflexivity|apply eof_or_unexpected_nofuel]. }
  apply take_length in T. destruct T as [Th Ts].
  unfold be_u32. rewrite evp_bind, be_uint_exact by assumption. cbn [lift evp].
  rewrite evp_alloc_bind.
  rewrite read_words_repl, (count_fits_repl (fun _ => rd_be w)) by exact Hcons.
  set (body := fun (_ : N) (sl : list N) =>
             bind (rd_exact s1 w) (fun ub =>
             bind (lift (be_uint w ub)) (fun u =>
             bind (alloc c2) (fun _ => Ret (sl ++ [u]))))).
  pose proof (for_n_repl F body (unbe h) (fun _ => rd_be w) (fun sl : list N => sl) (fun x => x)
                (fun _ => True)) as H.
  assert (Hb : forall (i : N) (st : list N) (s2 : list N),
     i < unbe h -> True -> (length s2 < F)%nat ->
     match rd_be w s2 with
     | Some (x, t) => exists st', evp (body i st) s2 = (Ok st', t)
             /\ st' = st ++ [x] /\ True /\ (length t < length s2)%nat
     | None => exists e t, evp (body i st) s2 = (Err e, t) /\ e <> CFuel
     end).
  { intros i st s2 _ _ _. pose proof (Hcons true s2) as Hc2. unfold body, rd_be in *.
    rewrite evp_bind, evp_rd_exact.
    destruct (take w s2) as [[h2 t2]|] eqn:T2.
    - apply take_length in T2. rewrite evp_bind, be_uint_exact by tauto. cbn [lift evp].
      rewrite evp_alloc_bind. cbn [evp]. eexists. split; [reflexivity|]. split; [reflexivity|].
      split; [exact I|]. now apply (Hc2 (unbe h2) t2).
    - eexists _, _. split; [reflexivity|apply eof_or_unexpected_nofuel]. }
  specialize (H Hb [] b1 I ltac:(lia)).
  destruct (repl (fun _ => rd_be w) (N.to_nat (unbe h)) b1) as [[r t]|] eqn:R.
  - destruct H as (st' & E & Hg & _). cbn [app] in Hg. rewrite map_id in Hg. subst st'.
    split; [exact E|]. intros v t0 H0. inv H0.
    apply repl_length in R; [lia|exact Hcons].
  - split; [exact H|discriminate].
Qed.

Lemma uintlist_read_ag ru pc F s : (length s < F)%nat ->
  ag (fun v : list N => v) (evp (uintlist_read_g ru pc F) s) (decode_uintlist s).
Proof. intros Hs. rewrite uintlist_wl. apply wl_read_ag; [lia|assumption]. Qed.

Lemma floatlist_read_ag ru pc F s : (length s < F)%nat ->
  ag (fun v : list N => v) (evp (floatlist_read_g ru pc F) s) (decode_floatlist s).
Proof. intros Hs. rewrite floatlist_wl. apply wl_read_ag; [lia|assumption]. Qed.

(* ================================================================== *)
(** * Block *)
Lemma read_rows_repl strict : forall n b,
  read_rows strict n b = repl (fun _ => decode_strlist_g strict) n b.
Proof.
  induction n as [|n IH]; intros b; [reflexivity|]. cbn [read_rows repl].
  destruct (decode_strlist_g strict b) as [[u b1]|]; [|reflexivity]. now rewrite IH.
Qed.

Lemma decode_strlist_consumes strict s x t :
  decode_strlist_g strict s = Some (x, t) -> (length t < length s)%nat.
Proof.
  unfold decode_strlist_g. destruct (rd_be 4 s) as [[c b1]|] eqn:R; [|discriminate].
  apply rd_be_length in R. destruct (count_fits c b1); [|discriminate].
  rewrite read_cells_repl. intros H. apply repl_length in H; [lia|apply cell_dec_consumes].
Qed.

Lemma block_read_ag pc F s : (length s < F)%nat ->
  ag (fun v : list (list bytes) => v) (evp (block_read pc F) s) (decode_block s).
Proof.
  intros Hs. unfold block_read, decode_block, decode_block_g, rd_be.
  rewrite evp_alloc_bind, evp_bind, evp_rd_exact. destruct (take 4 s) as [[h b1]|] eqn:T.
  2:{ eexists _, _. split; [reflexivity|apply eof_or_unexpected_nofuel]. }
  apply take_length in T. destruct T as [Th Ts].
  unfold be_u32. rewrite evp_bind, be_uint_exact by assumption. cbn [lift evp].
  rewrite !evp_alloc_bind, evp_bind.
  rewrite read_rows_repl, (count_fits_repl (fun _ => decode_strlist_g false))
    by (intros _; apply decode_strlist_consumes).
  pose proof (for_n_repl F
                (fun (_ : N) (st : list (list bytes) * N) =>
                   let '(blk, cap) := st in
                   bind (strlist_read pc F cap) (fun x => match x with (line, cap') =>
                   bind (alloc sz_slice) (fun _ => Ret (blk ++ [line], cap')) end))
                (unbe h) (fun _ => decode_strlist_g false) fst (fun x => x)
                (fun st => 0 < snd st)) as H.
  assert (Hb : forall (i : N) (st : list (list bytes) * N) (s0 : list N),
     i < unbe h -> 0 < snd st -> (length s0 < F)%nat ->
     match decode_strlist_g false s0 with
     | Some (x, t) => exists st', evp (let '(blk, cap) := st in
                   bind (strlist_read pc F cap) (fun x => match x with (line, cap') =>
                   bind (alloc sz_slice) (fun _ => Ret (blk ++ [line], cap')) end)) s0 = (Ok st', t)
          /\ fst st' = fst st ++ [x] /\ 0 < snd st' /\ (length t < length s0)%nat
     | None => exists e t, evp (let '(blk, cap) := st in
                   bind (strlist_read pc F cap) (fun x => match x with (line, cap') =>
                   bind (alloc sz_slice) (fun _ => Ret (blk ++ [line], cap')) end)) s0 = (Err e, t) /\ e <> CFuel
     end).
  { intros i [blk cap] s0 _ Hc Hs0. cbn [snd fst] in *. rewrite evp_bind.
    pose proof (strlist_read_ag false pc F cap s0 Hc Hs0) as Hr. unfold strlist_read.
    destruct (decode_strlist_g false s0) as [[x t]|].
    - destruct Hr as (cap' & E & Hc' & Hl). rewrite E. rewrite evp_alloc_bind. cbn [evp].
      eexists. split; [reflexivity|]. cbn [fst snd]. auto.
    - destruct Hr as (e & t & E & He). rewrite E. eauto. }
  specialize (H Hb ([], strlist_cap0) b1 ltac:(cbn; unfold strlist_cap0; lia) ltac:(lia)).
  destruct (repl (fun _ => decode_strlist_g false) (N.to_nat (unbe h)) b1) as [[r t]|]; cbn [ag].
  - destruct H as ([blk' cap'] & E & Hg & _). cbn [fst app] in Hg. rewrite map_id in Hg. subst blk'.
    rewrite E. reflexivity.
  - destruct H as (e & t & E & He). rewrite E. eauto.
Qed.

(* ================================================================== *)
(** * what the codec decoders leave is shorter than what they were given *)
Lemma take_le n (s t h : bytes) : take n s = Some (h, t) -> (length t <= length s)%nat.
Proof. intros H. apply take_length in H. lia. Qed.
Lemma rd_be_le w (s t : bytes) v : rd_be w s = Some (v, t) -> (length t <= length s)%nat.
Proof. intros H. apply rd_be_length in H. lia. Qed.
Lemma dec_string_le (s t : bytes) v : dec_string s = Some (v, t) -> (length t <= length s)%nat.
Proof.
  unfold dec_string. destruct (rd_be 2 s) as [[l b1]|] eqn:R; [|discriminate].
  apply rd_be_le in R. intros H. apply take_le in H. lia.
Qed.
Lemma dec_time_le strict (s t : bytes) v : dec_time strict s = Some (v, t) -> (length t <= length s)%nat.
Proof.
  unfold dec_time. destruct (take 16 s) as [[h b1]|] eqn:R; [|discriminate]. apply take_le in R.
  destruct (decode_time_g strict h); [|discriminate]. intros H. inv H. lia.
Qed.
Lemma decode_strlist_le (s t : bytes) v : decode_strlist s = Some (v, t) -> (length t <= length s)%nat.
Proof. intros H. apply decode_strlist_consumes in H. lia. Qed.
Lemma decode_words_le w (s t : bytes) v : decode_words w s = Some (v, t) -> (length t <= length s)%nat.
Proof.
  unfold decode_words. destruct (rd_be 4 s) as [[c b1]|] eqn:R; [|discriminate].
  apply rd_be_le in R. destruct (count_fits c b1); [|discriminate].
  revert b1 v t R. induction (N.to_nat c) as [|n IH]; intros b1 v t R H; cbn [read_words] in H.
  - inv H. lia.
  - destruct (rd_be w b1) as [[u b2]|] eqn:R2; [|discriminate]. apply rd_be_le in R2.
    destruct (read_words w n b2) as [[r t']|] eqn:R3; [|discriminate]. inv H.
    apply (IH b2 r t); [lia|assumption].
Qed.

Lemma dec_field_le {X} label (g : bytes -> option (X * bytes)) s x t :
  (forall s' t' x', g s' = Some (x', t') -> (length t' <= length s')%nat) ->
  dec_field label g s = Some (x, t) -> (length t < length s)%nat.
Proof.
  intros Hg. unfold dec_field.
  destruct (expect (label ++ [SP]) s) as [b1|] eqn:E1; [|discriminate].
  apply expect_spec in E1. subst s.
  destruct (g b1) as [[x' b2]|] eqn:E2; [|discriminate]. apply Hg in E2.
  destruct (expect [NL] b2) as [b3|] eqn:E3; [|discriminate]. apply expect_spec in E3. subst b2.
  intros H. inv H. rewrite !app_length in *. cbn [length] in *. lia.
Qed.

(** one field, then the rest: the bind rule used for every objline object *)
Lemma field_bind {A B A' B'} (conv : B -> A) (conv' : B' -> A') label label'
      (f : prog A) (g : bytes -> option (B * bytes)) (k : A -> prog A')
      (kc : B -> bytes -> option (B' * bytes)) s :
  label = label' ->
  (forall t, (length t <= length s)%nat -> ag conv (evp f t) (g t)) ->
  (forall x t, dec_field label' g s = Some (x, t) -> ag conv' (evp (k (conv x)) t) (kc x t)) ->
  ag conv' (evp (bind (read_field label f) k) s)
     (match dec_field label' g s with None => None | Some (x, t) => kc x t end).
Proof.
  intros <- Hf Hk. rewrite evp_bind.
  pose proof (ag_read_field conv label f g s Hf) as H.
  destruct (dec_field label g s) as [[x t]|]; cbn [ag_eof] in H.
  - rewrite H. now apply Hk.
  - destruct H as (e & t & -> & He & _). cbn [ag]. eauto.
Qed.

(* ================================================================== *)
(** * Table and BlockIndex *)
Lemma read_fixed_repl w : forall n b, CodecTable.read_fixed w n b = repl (fun _ => take w) n b.
Proof.
  induction n as [|n IH]; intros b; [reflexivity|]. cbn [CodecTable.read_fixed repl].
  destruct (take w b) as [[u b1]|]; [|reflexivity]. now rewrite IH.
Qed.

Lemma take_consumes w (Hw : (0 < w)%nat) (l : bool) (s x t : bytes) :
  take w s = Some (x, t) -> (length t < length s)%nat.
Proof. intros H. apply take_length in H. lia. Qed.

Lemma table_sums_ag F bc s : (length s < F)%nat ->
  match repl (fun _ => take 16) (N.to_nat bc) s with
  | Some (r, t) => evp (table_sums F bc) s = (Ok r, t) /\ (length t <= length s)%nat
  | None => exists e t, evp (table_sums F bc) s = (Err e, t) /\ e <> CFuel
  end.
Proof.
  intros Hs. unfold table_sums.
  set (body := fun (_ : N) (l : list bytes) =>
          bind (attempt table_block) (fun r =>
          match r with
          | inl CEof => Fail COther
          | inl e => Fail e
          | inr b => bind (alloc sz_slice) (fun _ => Ret (l ++ [b]))
          end)).
  pose proof (for_n_repl F body bc (fun _ => take 16) (fun l : list bytes => l) (fun x => x)
                (fun _ => True)) as H.
  assert (Hb : forall (i : N) (st : list bytes) (s2 : list N),
     i < bc -> True -> (length s2 < F)%nat ->
     match take 16 s2 with
     | Some (x, t) => exists st', evp (body i st) s2 = (Ok st', t)
             /\ st' = st ++ [x] /\ True /\ (length t < length s2)%nat
     | None => exists e t, evp (body i st) s2 = (Err e, t) /\ e <> CFuel
     end).
  { intros i st s2 _ _ _. unfold body, table_block.
    rewrite evp_bind, evp_attempt, evp_alloc_bind, evp_rd_exact.
    destruct (take 16 s2) as [[h2 t2]|] eqn:T2.
    - rewrite evp_alloc_bind. cbn [evp]. eexists. split; [reflexivity|]. split; [reflexivity|].
      split; [exact I|]. apply take_length in T2. lia.
    - destruct s2; cbn [eof_or_unexpected evp]; eexists _, _; (split; [reflexivity|discriminate]). }
  specialize (H Hb [] s I Hs).
  destruct (repl (fun _ => take 16) (N.to_nat bc) s) as [[r t]|] eqn:R.
  - destruct H as (st' & E & Hg & _). cbn [app] in Hg. rewrite map_id in Hg. subst st'.
    split; [exact E|]. apply repl_length in R; [lia|]. apply take_consumes; lia.
  - exact H.
Qed.

Lemma table_read_ag pc F s : (length s < F)%nat ->
  ag conv_table (evp (table_read pc F) s) (CodecTable.decode_table s).
Proof.
  intros Hs. unfold table_read, CodecTable.decode_table.
  rewrite evp_bind, evp_attempt. unfold table_meta.
  (* columns *)
  rewrite evp_bind.
  pose proof (ag_read_field (fun v : list bytes => v) L_columns (strlist_read1 pc F) decode_strlist s
                (fun t Ht => strlist_read1_ag pc F t ltac:(lia))) as H1.
  change L_columns with CodecTable.L_columns in H1 at 2.
  destruct (dec_field CodecTable.L_columns decode_strlist s) as [[cols b1]|] eqn:E1; cbn [ag_eof] in H1.
  2:{ destruct H1 as (e & t & -> & He & _). cbn [ag].
      destruct e; try congruence; eexists _, _; (split; [reflexivity|discriminate]). }
  rewrite H1. apply dec_field_le in E1; [|apply decode_strlist_le].
  (* pk *)
  rewrite evp_bind.
  pose proof (ag_read_field (fun v : list N => v) L_pk
                (bind (alloc 4) (fun _ => uintlist_read pc F)) decode_uintlist b1
                (fun t Ht => uintlist_read_ag false pc F t ltac:(lia))) as H2.
  change L_pk with CodecTable.L_pk in H2 at 2.
  destruct (dec_field CodecTable.L_pk decode_uintlist b1) as [[pk b2]|] eqn:E2; cbn [ag_eof] in H2.
  2:{ destruct H2 as (e & t & -> & He & _). cbn [ag].
      destruct e; try congruence; eexists _, _; (split; [reflexivity|discriminate]). }
  rewrite H2. apply dec_field_le in E2; [|apply decode_words_le].
  (* rows *)
  rewrite evp_bind.
  pose proof (ag_read_field (fun v : N => v) L_rows read_u32 (rd_be 4) b2
                (fun t Ht => ag_eof_ag _ _ _ _ (ag_scalar 4 t))) as H3.
  change L_rows with CodecTable.L_rows in H3 at 2.
  destruct (dec_field CodecTable.L_rows (rd_be 4) b2) as [[rows b3]|] eqn:E3; cbn [ag_eof] in H3.
  2:{ destruct H3 as (e & t & -> & He & _). cbn [ag].
      destruct e; try congruence; eexists _, _; (split; [reflexivity|discriminate]). }
  rewrite H3. apply dec_field_le in E3; [|apply rd_be_le].
  cbn [evp]. rewrite evp_alloc_bind.
  change (blocks_count rows) with (CodecTable.blocks_count rows).
  set (bc := CodecTable.blocks_count rows).
  rewrite !read_fixed_repl.
  rewrite evp_bind.
  pose proof (table_sums_ag F bc b3 ltac:(lia)) as S1.
  assert (Hshort : count_fits bc b3 = false -> repl (fun _ => take 16) (N.to_nat bc) b3 = None).
  { unfold count_fits, len; intros E; apply N.leb_gt in E.
    apply repl_short; [apply take_consumes; lia|lia]. }
  destruct (count_fits bc b3).
  2:{ rewrite Hshort in S1 by reflexivity. destruct S1 as (e & t & -> & He). cbn [ag]. eauto. }
  clear Hshort.
  destruct (repl (fun _ => take 16) (N.to_nat bc) b3) as [[blocks b4]|].
  2:{ destruct S1 as (e & t & -> & He). cbn [ag]. eauto. }
  destruct S1 as [-> Hl4]. rewrite evp_bind, read_fixed_repl.
  pose proof (table_sums_ag F bc b4 ltac:(lia)) as S2.
  destruct (repl (fun _ => take 16) (N.to_nat bc) b4) as [[idxs b5]|].
  2:{ destruct S2 as (e & t & -> & He). cbn [ag]. eauto. }
  destruct S2 as [-> _]. reflexivity.
Qed.

Lemma blockindex_read_ag F s : (length s < F)%nat ->
  ag conv_bidx (evp (blockindex_read F) s) (CodecTable.decode_blockindex s).
Proof.
  intros Hs. unfold blockindex_read, CodecTable.decode_blockindex.
  rewrite evp_alloc_bind, evp_bind, evp_rd_exact.
  destruct s as [|l b1].
  { cbn. eexists _, _. split; [reflexivity|discriminate]. }
  cbn [take]. cbn [idx nth_error lift evp].
  rewrite evp_bind. cbn [evp]. rewrite evp_alloc_bind, evp_bind, evp_rd_exact.
  destruct (take (N.to_nat l) b1) as [[off b2]|] eqn:T.
  2:{ cbn [ag]. eexists _, _. split; [reflexivity|apply eof_or_unexpected_nofuel]. }
  apply take_le in T. rewrite evp_bind, read_fixed_repl.
  set (body := fun (_ : N) (rows : list bytes) =>
          bind (alloc 32) (fun _ => bind (rd_exact S_bidx_row 32) (fun r => Ret (rows ++ [r])))).
  pose proof (for_n_repl F body l (fun _ => take 32) (fun l : list bytes => l) (fun x => x)
                (fun _ => True)) as H.
  assert (Hb : forall (i : N) (st : list bytes) (s2 : list N),
     i < l -> True -> (length s2 < F)%nat ->
     match take 32 s2 with
     | Some (x, t) => exists st', evp (body i st) s2 = (Ok st', t)
             /\ st' = st ++ [x] /\ True /\ (length t < length s2)%nat
     | None => exists e t, evp (body i st) s2 = (Err e, t) /\ e <> CFuel
     end).
  { intros i st s2 _ _ _. unfold body. rewrite evp_alloc_bind, evp_bind, evp_rd_exact.
    destruct (take 32 s2) as [[h2 t2]|] eqn:T2.
    - cbn [evp]. eexists. split; [reflexivity|]. split; [reflexivity|].
      split; [exact I|]. apply take_length in T2. lia.
    - eexists _, _. split; [reflexivity|apply eof_or_unexpected_nofuel]. }
  specialize (H Hb [] b2 I ltac:(cbn [length] in Hs; lia)).
  destruct (repl (fun _ => take 32) (N.to_nat l) b2) as [[r t]|]; cbn [ag].
  - destruct H as (st' & E & Hg & _). cbn [app] in Hg. rewrite map_id in Hg. subst st'.
    fold body. rewrite E. reflexivity.
  - destruct H as (e & t & E & He). fold body. rewrite E. eauto.
Qed.

(* ================================================================== *)
(** * Commit *)
Lemma all_zero_eq b : all_zero b = forallb (N.eqb 0) b.
Proof.
  unfold all_zero. induction b as [|x b IH]; [reflexivity|]. cbn [forallb]. rewrite IH.
  now rewrite (N.eqb_sym x 0).
Qed.

Section CommitBridge.
  Variable pi ptz : bytes -> option Z.
  Hypothesis Hpi : forall s, pi s = CodecObjline.parse_int s.
  Hypothesis Hptz : forall s, ptz s = codec_parse_tz s.

  Lemma read_time_ag s : ag conv_time (evp (read_time pi ptz) s) (dec_time false s).
  Proof.
    unfold read_time, dec_time. rewrite evp_bind, evp_next_bytes.
    destruct (take 16 s) as [[h b1]|] eqn:T.
    2:{ cbn [ag]. eexists _, _. split; [reflexivity|apply eof_or_unexpected_nofuel]. }
    apply take_length in T. destruct T as [Th _].
    unfold decode_time_g, decode_time_real. cbn [andb].
    rewrite all_zero_eq. destruct (forallb (N.eqb 0) h).
    - reflexivity.
    - unfold decode_time.
      do 16 (destruct h as [|? h]; [cbn in Th; lia|]). destruct h; [|cbn in Th; lia].
      cbn [slice_range Nat.leb andb length Nat.sub skipn firstn lift bind].
      rewrite Hpi.
      match goal with |- context [CodecObjline.parse_int ?l] => destruct (CodecObjline.parse_int l) as [sec|] end.
      2:{ cbn [evp ag]. eexists _, _. split; [reflexivity|discriminate]. }
      rewrite Hptz. unfold codec_parse_tz.
      match goal with |- context [parse_zone ?l] => destruct (parse_zone l) as [z|] end.
      + reflexivity.
      + cbn [evp ag]. eexists _, _. split; [reflexivity|discriminate].
  Qed.

  Lemma evp_commit_parent ps s :
    evp (commit_parent ps) s =
    match evp (read_field L_parent (read_bytes_into 16)) s with
    | (Ok b, s') => (Ok (inl (ps ++ [b])), s')
    | (Err CEof, s') => (Ok (inr ps), s')
    | (Err e, s') => (Err e, s')
    | (Panic, s') => (Panic, s')
    end.
  Proof.
    unfold commit_parent. rewrite evp_alloc_bind, evp_bind, evp_attempt.
    destruct (evp (read_field L_parent (read_bytes_into 16)) s) as [[b|e|] s'];
      [reflexivity|destruct e; reflexivity|reflexivity].
  Qed.

  Lemma parents_ag : forall fuel fc s ps, (length s < fuel)%nat -> (length s <= fc)%nat ->
    match CodecCommit.read_parents fc s with
    | Some r => evp (loop_u fuel commit_parent ps) s = (Ok (ps ++ r), [])
    | None => exists e t, evp (loop_u fuel commit_parent ps) s = (Err e, t) /\ e <> CFuel
    end.
  Proof.
    induction fuel as [|fuel IH]; intros fc s ps Hs Hfc; [lia|].
    cbn [loop_u]. rewrite evp_bind, evp_commit_parent.
    destruct s as [|c s'].
    - destruct fc; cbn; now rewrite app_nil_r.
    - destruct fc as [|fc]; [cbn in Hfc; lia|]. cbn [CodecCommit.read_parents].
      pose proof (ag_read_field (fun v : bytes => v) L_parent (read_bytes_into 16) (dec_raw 16) (c :: s')
                    (fun t _ => ag_read_bytes_into 16 t)) as H.
      change L_parent with CodecCommit.L_parent in H at 2.
      destruct (dec_field CodecCommit.L_parent (dec_raw 16) (c :: s')) as [[p b']|] eqn:E; cbn [ag_eof] in H.
      + rewrite H.
        apply dec_field_le in E; [|intros ? ? ?; apply take_le].
        specialize (IH fc b' (ps ++ [p]) ltac:(cbn [length] in *; lia) ltac:(cbn [length] in *; lia)).
        destruct (CodecCommit.read_parents fc b') as [r|].
        * rewrite IH. now rewrite <- app_assoc.
        * exact IH.
      + destruct H as (e & t & -> & He & Heof).
        destruct e; try congruence.
        * destruct Heof as [Heof _]. specialize (Heof eq_refl). discriminate.
        * cbn [evp]. eexists _, _. split; [reflexivity|discriminate].
        * cbn [evp]. eexists _, _. split; [reflexivity|discriminate].
  Qed.

  Lemma commit_read_ag F s : (length s < F)%nat ->
    ag conv_commit (evp (commit_read pi ptz F) s) (CodecCommit.decode_commit s).
  Proof.
    intros Hs. unfold commit_read, CodecCommit.decode_commit, CodecCommit.decode_commit_g.
    rewrite evp_alloc_bind.
    apply (field_bind (fun v : bytes => v)); [reflexivity|intros t _; apply ag_read_bytes_into|].
    intros tbl b1 E1. apply dec_field_le in E1; [|intros ? ? ?; apply take_le]. cbv beta.
    apply (field_bind (fun v : bytes => v)); [reflexivity|intros t _; apply ag_read_string|].
    intros name b2 E2. apply dec_field_le in E2; [|apply dec_string_le]. cbv beta.
    apply (field_bind (fun v : bytes => v)); [reflexivity|intros t _; apply ag_read_string|].
    intros email b3 E3. apply dec_field_le in E3; [|apply dec_string_le]. cbv beta.
    apply (field_bind conv_time); [reflexivity|intros t _; apply read_time_ag|].
    intros tm b4 E4. apply dec_field_le in E4; [|apply dec_time_le]. cbv beta.
    apply (field_bind (fun v : bytes => v)); [reflexivity|intros t _; apply ag_read_string|].
    intros msg b5 E5. apply dec_field_le in E5; [|apply dec_string_le]. cbv beta.
    rewrite evp_bind.
    pose proof (parents_ag F (length b5) b5 [] ltac:(lia) ltac:(lia)) as H.
    destruct (CodecCommit.read_parents (length b5) b5) as [ps|]; cbn [ag].
    - rewrite H. reflexivity.
    - destruct H as (e & t & -> & He). eauto.
  Qed.
End CommitBridge.

(** the instantiation the extracted models use: strconv.ParseInt / time.Parse as defined in
    model/DecRun.v are the codec's parsers (zone: minutes vs seconds) *)
Lemma parse_digits_spec : forall s acc,
  parse_digits s acc =
  if forallb is_digit s then Some (fold_left (fun a c => a * 10 + (c - 48)) s acc) else None.
Proof.
  induction s as [|c s IH]; intros acc; [reflexivity|]. cbn [parse_digits forallb fold_left].
  unfold is_digit at 1. destruct ((48 <=? c) && (c <=? 57)); [apply IH|reflexivity].
Qed.

Lemma go_parse_int_codec s : go_parse_int s = CodecObjline.parse_int s.
Proof.
  unfold go_parse_int, CodecObjline.parse_int. destruct s as [|c tl]; [reflexivity|].
  destruct (c =? 43).
  { unfold parse_uint. destruct tl as [|d tl]; [reflexivity|]. rewrite parse_digits_spec.
    unfold dval. destruct (forallb is_digit (d :: tl)); reflexivity. }
  destruct (c =? 45).
  { unfold parse_uint. destruct tl as [|d tl]; [reflexivity|]. rewrite parse_digits_spec.
    unfold dval. destruct (forallb is_digit (d :: tl)); reflexivity. }
  unfold parse_uint. rewrite parse_digits_spec. unfold dval.
  destruct (forallb is_digit (c :: tl)); reflexivity.
Qed.

Lemma go_parse_tz_codec s : go_parse_tz s = codec_parse_tz s.
Proof.
  unfold go_parse_tz, codec_parse_tz, parse_zone.
  destruct s as [|sg [|h1 [|h2 [|m1 [|m2 [|x tl]]]]]]; try reflexivity.
  rewrite !parse_digits_spec. cbn [forallb fold_left].
  destruct (is_digit h1), (is_digit h2), (is_digit m1), (is_digit m2); cbn [andb]; try reflexivity.
  replace ((0 * 10 + (h1 - 48)) * 10 + (h2 - 48)) with ((h1 - 48) * 10 + (h2 - 48)) by lia.
  replace ((0 * 10 + (m1 - 48)) * 10 + (m2 - 48)) with ((m1 - 48) * 10 + (m2 - 48)) by lia.
  set (hr := (h1 - 48) * 10 + (h2 - 48)). set (mm := (m1 - 48) * 10 + (m2 - 48)).
  destruct ((24 <? hr) || (60 <? mm)); [reflexivity|].
  destruct (sg =? 43); [f_equal; lia|]. destruct (sg =? 45); [f_equal; lia|reflexivity].
Qed.

Lemma commit_read_go_ag F s : (length s < F)%nat ->
  ag conv_commit (evp (commit_read go_parse_int go_parse_tz F) s) (CodecCommit.decode_commit s).
Proof. apply commit_read_ag; [apply go_parse_int_codec|apply go_parse_tz_codec]. Qed.

(* ================================================================== *)
(** * Packfile: object header, object, stream; pkt-line *)
Lemma shl64_eq x bits : DecPack.shl64 x bits = CodecPackfile.shl64 x bits.
Proof. reflexivity. Qed.

Lemma land_127 x : N.land x 127 = x mod 128.
Proof. change 127 with (N.ones 7). now rewrite N.land_ones. Qed.
Lemma land_15 x : N.land x 15 = x mod 16.
Proof. change 15 with (N.ones 4). now rewrite N.land_ones. Qed.
Lemma land_shr4_7 x : N.land (N.shiftr x 4) 7 = (x / 16) mod 8.
Proof. rewrite N.shiftr_div_pow2. change 7 with (N.ones 3). now rewrite N.land_ones. Qed.

Lemma land_128_zero x : (N.land x 128 =? 0) = ((x / 128) mod 2 =? 0).
Proof.
  pose proof (N.testbit_spec' x 7) as H. change (2 ^ 7) with 128 in H. rewrite <- H.
  assert (E : N.land x (2 ^ 7) = if N.testbit x 7 then 2 ^ 7 else 0).
  { apply N.bits_inj; intros m. rewrite N.land_spec, N.pow2_bits_eqb.
    destruct (N.testbit x 7) eqn:T7.
    - rewrite N.pow2_bits_eqb. destruct (N.eqb_spec 7 m) as [<-|Hm];
        [rewrite T7; reflexivity|apply andb_false_r].
    - rewrite N.bits_0. destruct (N.eqb_spec 7 m) as [<-|Hm];
        [rewrite T7; reflexivity|apply andb_false_r]. }
  change (2 ^ 7) with 128 in E. rewrite E. destruct (N.testbit x 7); reflexivity.
Qed.

Lemma evp_objhdr_step u bits s :
  evp (objhdr_step (u, bits)) s =
  match s with
  | [] => (Err COther, [])
  | x :: s' =>
      if (x / 128) mod 2 =? 0 then (Ok (inr (N.lor u (DecPack.shl64 (x mod 128) bits))), s')
      else (Ok (inl (N.lor u (DecPack.shl64 (x mod 128) bits), bits + 7)), s')
  end.
Proof.
  unfold objhdr_step. rewrite evp_bind, evp_rdf. destruct s as [|x s']; [reflexivity|].
  cbn [take]. rewrite pad_exact by reflexivity. cbn [idx nth_error lift bind evp].
  destruct ((x / 128) mod 2 =? 0); reflexivity.
Qed.

Lemma hdr_loop_ag : forall s fuel u bits, (length s < fuel)%nat ->
  match CodecPackfile.dec_cont s u bits with
  | Some (u', t) => evp (loop_u fuel objhdr_step (u, bits)) s = (Ok u', t) /\ (length t < length s)%nat
  | None => exists e t, evp (loop_u fuel objhdr_step (u, bits)) s = (Err e, t) /\ e <> CFuel /\ e <> CEof
  end.
Proof.
  induction s as [|x s IH]; intros fuel u bits Hf; (destruct fuel as [|fuel]; [lia|]);
    cbn [loop_u CodecPackfile.dec_cont]; rewrite evp_bind, evp_objhdr_step.
  - eexists _, _. split; [reflexivity|]. split; discriminate.
  - cbv zeta. rewrite land_127, land_128_zero, <- shl64_eq.
    destruct ((x / 128) mod 2 =? 0).
    + cbn [evp length]. split; [reflexivity|lia].
    + specialize (IH fuel (N.lor u (DecPack.shl64 (x mod 128) bits)) (bits + 7) ltac:(cbn [length] in Hf; lia)).
      destruct (CodecPackfile.dec_cont s _ (bits + 7)) as [[u' t]|].
      * destruct IH as [IH1 IH2]. split; [exact IH1|cbn [length]; lia].
      * exact IH.
Qed.

Lemma objhdr_read_ag F s : (length s < F)%nat ->
  ag_eof (fun v : N * N => v) s (evp (objhdr_read F) s) (CodecPackfile.decode_len s)
  /\ (forall v t, CodecPackfile.decode_len s = Some (v, t) -> (length t < length s)%nat).
Proof.
  intros Hs. unfold objhdr_read, CodecPackfile.decode_len.
  rewrite evp_alloc_bind, evp_bind, evp_rd_exact. destruct s as [|x s'].
  { split; [|discriminate]. cbn. eexists _, _. split; [reflexivity|]. split; [discriminate|tauto]. }
  cbn [take idx nth_error lift bind evp]. rewrite evp_bind.
  rewrite land_15, land_shr4_7.
  pose proof (hdr_loop_ag s' F (x mod 16) 4 ltac:(cbn [length] in Hs; lia)) as H.
  destruct (CodecPackfile.dec_cont s' (x mod 16) 4) as [[u t]|].
  - destruct H as [H1 H2]. rewrite H1. split; [reflexivity|].
    intros v t0 E. inv E. cbn [length]. lia.
  - split; [|discriminate]. destruct H as (e & t & -> & He1 & He2). cbn [ag_eof].
    eexists _, _. split; [reflexivity|]. split; [assumption|]. split; [congruence|discriminate].
Qed.

Lemma evp_cpf st n s :
  evp (cpf st n) s =
  if n <=? N.of_nat (length s) then (Ok (firstn (N.to_nat n) s, None), skipn (N.to_nat n) s)
  else (Ok (s, Some CEof), []).
Proof.
  unfold cpf. cbn [evp]. unfold pure_copy_n. destruct (n <=? N.of_nat (length s)); reflexivity.
Qed.

Lemma object_read_ag F s : (length s < F)%nat ->
  ag_eof (fun v : N * bytes => v) s (evp (object_read F) s) (CodecPackfile.decode_obj s)
  /\ (forall v t, CodecPackfile.decode_obj s = Some (v, t) -> (length t < length s)%nat).
Proof.
  intros Hs. unfold object_read, CodecPackfile.decode_obj. rewrite evp_bind.
  destruct (objhdr_read_ag F s Hs) as [H Hlen].
  destruct (CodecPackfile.decode_len s) as [[[ty u] b1]|]; cbn [ag_eof] in H.
  2:{ split; [|discriminate]. destruct H as (e & t & -> & He). cbn [ag_eof].
      eexists _, _. split; [reflexivity|exact He]. }
  rewrite H. specialize (Hlen _ _ eq_refl).
  change (2 ^ 63) with 9223372036854775808. unfold max_int64.
  destruct (N.ltb_spec 9223372036854775807 u) as [Hu|Hu].
  { replace (9223372036854775808 <=? u) with true by lia. split; [|discriminate].
    cbn [evp ag_eof]. eexists _, _. split; [reflexivity|]. split; [discriminate|].
    split; [discriminate|]. intros ->. cbn in Hlen. lia. }
  replace (9223372036854775808 <=? u) with false by lia.
  rewrite evp_bind, evp_cpf. unfold len.
  destruct (u <=? N.of_nat (length b1)) eqn:El.
  - rewrite take_firstn' by lia. rewrite evp_alloc_bind. cbn [evp ag_eof].
    split; [reflexivity|]. intros v t E. inv E. rewrite skipn_length. lia.
  - split; [|discriminate]. rewrite evp_alloc_bind. cbn [evp ag_eof].
    eexists _, _. split; [reflexivity|]. split; [discriminate|].
    split; [discriminate|]. intros ->. cbn in Hlen. lia.
Qed.

Lemma evp_object_read_nil F : evp (object_read F) [] = (Err CEof, []).
Proof. reflexivity. Qed.

Definition seq_body (F : nat) (objs : list (N * bytes)) :=
  bind (attempt (object_read F)) (fun r =>
  match r with
  | inl CFuel => Fail CFuel
  | inl e => Ret (inr (objs, e))
  | inr o => Ret (inl (objs ++ [o]))
  end).

Lemma evp_seq_body F objs s :
  evp (seq_body F objs) s =
  match evp (object_read F) s with
  | (Ok o, s') => (Ok (inl (objs ++ [o])), s')
  | (Err CFuel, s') => (Err CFuel, s')
  | (Err e, s') => (Ok (inr (objs, e)), s')
  | (Panic, s') => (Panic, s')
  end.
Proof.
  unfold seq_body. rewrite evp_bind, evp_attempt.
  destruct (evp (object_read F) s) as [[o|e|] s']; [reflexivity|destruct e; reflexivity|reflexivity].
Qed.

Lemma objs_ag F : forall fuel fc s objs, (length s < fuel)%nat -> (fuel <= F)%nat -> (length s <= fc)%nat ->
  match CodecPackfile.read_objs fc s with
  | Some r => evp (loop_u fuel (seq_body F) objs) s = (Ok (objs ++ r, CEof), [])
  | None => exists l e t, evp (loop_u fuel (seq_body F) objs) s = (Ok (l, e), t) /\ e <> CEof /\ e <> CFuel
  end.
Proof.
  induction fuel as [|fuel IH]; intros fc s objs Hs HF Hfc; [lia|].
  cbn [loop_u]. rewrite evp_bind, evp_seq_body.
  destruct s as [|c s'].
  - rewrite evp_object_read_nil. destruct fc; cbn; now rewrite app_nil_r.
  - destruct fc as [|fc]; [cbn in Hfc; lia|]. cbn [CodecPackfile.read_objs].
    destruct (object_read_ag F (c :: s') ltac:(lia)) as [H Hlen].
    destruct (CodecPackfile.decode_obj (c :: s')) as [[o b']|]; cbn [ag_eof] in H.
    + rewrite H. specialize (Hlen _ _ eq_refl).
      specialize (IH fc b' (objs ++ [o]) ltac:(cbn [length] in *; lia) ltac:(lia) ltac:(cbn [length] in *; lia)).
      destruct (CodecPackfile.read_objs fc b') as [r|].
      * rewrite IH. now rewrite <- app_assoc.
      * exact IH.
    + destruct H as (e & t & -> & He & Heof).
      destruct e; try congruence.
      * destruct Heof as [Heof _]. specialize (Heof eq_refl). discriminate.
      * cbn [evp]. eexists _, _, _. split; [reflexivity|]. split; discriminate.
      * cbn [evp]. eexists _, _, _. split; [reflexivity|]. split; discriminate.
Qed.

Lemma packfile_read_evp F s : (length s < F)%nat ->
  pack_view (fst (evp (packfile_read F) s))
    = match CodecPackfile.decode_packfile s with Some (vl, _) => Some vl | None => None end
  /\ fst (evp (packfile_read F) s) <> Panic /\ fst (evp (packfile_read F) s) <> Err CFuel
  /\ (forall v objs e, fst (evp (packfile_read F) s) = Ok (v, objs, e) -> e <> CFuel).
Proof.
  intros Hs. unfold packfile_read, CodecPackfile.decode_packfile, expect, rd_be, beq.
  rewrite evp_bind. unfold packfile_version. rewrite evp_alloc_bind, evp_bind, evp_rdf.
  change (length CodecPackfile.PACK) with 4%nat.
  destruct (take 4 s) as [[h b1]|] eqn:T.
  2:{ cbn. repeat split; try discriminate. }
  apply take_length in T. destruct T as [Th Ts].
  rewrite pad_exact by assumption. change pack_magic with CodecPackfile.PACK.
  destruct (beqb h CodecPackfile.PACK).
  2:{ cbn. repeat split; try discriminate. }
  rewrite evp_bind, evp_rdf.
  destruct (take 4 b1) as [[h2 b2]|] eqn:T2.
  2:{ cbn. repeat split; try discriminate. }
  apply take_length in T2. destruct T2 as [Th2 Ts2].
  rewrite pad_exact by assumption. unfold be_u32. rewrite be_uint_exact by assumption.
  cbn [lift evp]. rewrite evp_bind.
  pose proof (objs_ag F F (length b2) b2 [] ltac:(lia) ltac:(lia) ltac:(lia)) as H.
  change (object_seq F) with (loop_u F (seq_body F) []).
  destruct (CodecPackfile.read_objs (length b2) b2) as [r|].
  - rewrite H. cbn. repeat split; try discriminate. intros v objs e E. inversion E; subst; discriminate.
  - destruct H as (l & e & t & -> & He1 & He2). cbn [evp fst pack_view].
    split; [destruct e; congruence|]. repeat split; try discriminate.
    intros v objs e0 E. inversion E; subst; assumption.
Qed.

Lemma hex4_eq b : hex4 b = CodecPackfile.hex4val b.
Proof. reflexivity. Qed.

Lemma pktline_read_ag s :
  ag (fun v : bytes => v) (evp pktline_read s) (CodecPackfile.decode_pktline s).
Proof.
  unfold pktline_read, CodecPackfile.decode_pktline. rewrite evp_bind, evp_next_bytes.
  destruct (take 4 s) as [[h b1]|] eqn:T.
  2:{ cbn [ag]. eexists _, _. split; [reflexivity|apply eof_or_unexpected_nofuel]. }
  rewrite evp_alloc_bind, hex4_eq.
  destruct (CodecPackfile.hex4val h) as [u|].
  2:{ cbn [evp ag]. eexists _, _. split; [reflexivity|discriminate]. }
  destruct (u =? 0); [reflexivity|].
  rewrite evp_bind, evp_next_bytes.
  destruct (take (N.to_nat u) b1) as [[body b2]|] eqn:T2.
  2:{ cbn [ag]. eexists _, _. split; [reflexivity|apply eof_or_unexpected_nofuel]. }
  apply take_length in T2. destruct T2 as [Tb _].
  unfold slice_to. replace (N.to_nat u - 1 <=? length body)%nat with true
    by (symmetry; apply Nat.leb_le; lia).
  cbn [lift bind evp]. reflexivity.
Qed.

(* ================================================================== *)
(** * Table profile *)
Lemma evp_loop_u_S {St R} fuel (body : St -> prog (St + R)) st s :
  evp (loop_u (S fuel) body st) s =
  match evp (body st) s with
  | (Ok (inl st'), s') => evp (loop_u fuel body st') s'
  | (Ok (inr r), s') => (Ok r, s')
  | (Err e, s') => (Err e, s')
  | (Panic, s') => (Panic, s')
  end.
Proof.
  cbn [loop_u]. rewrite evp_bind. destruct (evp (body st) s) as [[[st'|r]|e|] s']; reflexivity.
Qed.

Lemma evp_next_bytes_pe n s :
  evp (next_bytes_pe n) s =
  match take n s with Some (h, t) => (Ok h, t) | None => (Err COther, []) end.
Proof.
  unfold next_bytes_pe. rewrite evp_bind, evp_next_bytes. destruct (take n s) as [[h t]|]; reflexivity.
Qed.

Definition topval_dec (_ : bool) (b : bytes) : option ((bytes * N) * bytes) :=
  match rd_be 4 b with
  | None => None
  | Some (c, b1) =>
      match dec_string b1 with
      | None => None
      | Some (v, b2) => Some ((v, c), b2)
      end
  end.

Lemma read_topvalues_repl : forall n b, CodecProfile.read_topvalues n b = repl topval_dec n b.
Proof.
  induction n as [|n IH]; intros b; [reflexivity|]. cbn [CodecProfile.read_topvalues repl].
  unfold topval_dec at 1. destruct (rd_be 4 b) as [[c b1]|]; [|reflexivity].
  destruct (dec_string b1) as [[v b2]|]; [|reflexivity]. now rewrite IH.
Qed.

Lemma topval_dec_consumes l s x t : topval_dec l s = Some (x, t) -> (length t < length s)%nat.
Proof.
  unfold topval_dec. destruct (rd_be 4 s) as [[c b1]|] eqn:R; [|discriminate]. apply rd_be_length in R.
  destruct (dec_string b1) as [[v b2]|] eqn:D; [|discriminate]. apply dec_string_le in D.
  intros H. inv H. lia.
Qed.

Definition topvalues_dec (s : bytes) : option (list (bytes * N) * bytes) :=
  match rd_be 4 s with
  | None => None
  | Some (n, b1) => if count_fits n b1 then CodecProfile.read_topvalues (N.to_nat n) b1 else None
  end.

Lemma topvalues_dec_le s t v : topvalues_dec s = Some (v, t) -> (length t <= length s)%nat.
Proof.
  unfold topvalues_dec. destruct (rd_be 4 s) as [[n b1]|] eqn:R; [|discriminate]. apply rd_be_le in R.
  destruct (count_fits n b1); [|discriminate]. rewrite read_topvalues_repl. intros H.
  apply repl_length in H; [lia|apply topval_dec_consumes].
Qed.

Lemma value_counts_ag pc F s : (length s < F)%nat ->
  ag (fun v : list (bytes * N) => v) (evp (value_counts_read pc F) s) (topvalues_dec s).
Proof.
  intros Hs. unfold value_counts_read, topvalues_dec, rd_be.
  rewrite evp_bind, evp_next_bytes_pe. destruct (take 4 s) as [[h b1]|] eqn:T.
  2:{ cbn [ag]. eexists _, _. split; [reflexivity|discriminate]. }
  apply take_length in T. destruct T as [Th Ts].
  unfold be_u32. rewrite evp_bind, be_uint_exact by assumption. cbn [lift evp].
  rewrite evp_alloc_bind.
  rewrite read_topvalues_repl, count_fits_repl by apply topval_dec_consumes.
  set (body := fun (_ : N) (a : list (bytes * N)) =>
          bind (next_bytes_pe 4) (fun b1 =>
          bind (lift (be_uint 4 b1)) (fun cnt =>
          bind (next_bytes_pe 2) (fun b2 =>
          bind (lift (be_u16 b2)) (fun l =>
          bind (next_bytes_pe (N.to_nat l)) (fun v =>
          bind (alloc (24 + l)) (fun _ => Ret (a ++ [(v, cnt)])))))))).
  pose proof (for_n_repl F body (unbe h) topval_dec (fun l : list (bytes * N) => l) (fun x => x)
                (fun _ => True)) as H.
  assert (Hb : forall (i : N) (st : list (bytes * N)) (s2 : list N),
     i < unbe h -> True -> (length s2 < F)%nat ->
     match topval_dec (i =? unbe h - 1) s2 with
     | Some (x, t) => exists st', evp (body i st) s2 = (Ok st', t)
             /\ st' = st ++ [x] /\ True /\ (length t < length s2)%nat
     | None => exists e t, evp (body i st) s2 = (Err e, t) /\ e <> CFuel
     end).
  { intros i st s2 _ _ _. pose proof (topval_dec_consumes (i =? unbe h - 1) s2) as Hc.
    unfold body, topval_dec, dec_string, rd_be in *.
    rewrite evp_bind, evp_next_bytes_pe.
    destruct (take 4 s2) as [[h2 t2]|] eqn:T2.
    2:{ eexists _, _. split; [reflexivity|discriminate]. }
    apply take_length in T2. rewrite evp_bind, be_uint_exact by tauto. cbn [lift evp].
    rewrite evp_bind, evp_next_bytes_pe.
    destruct (take 2 t2) as [[h3 t3]|] eqn:T3.
    2:{ eexists _, _. split; [reflexivity|discriminate]. }
    apply take_length in T3. unfold be_u16. rewrite evp_bind, be_uint_exact by tauto. cbn [lift evp].
    rewrite evp_bind, evp_next_bytes_pe.
    destruct (take (N.to_nat (unbe h3)) t3) as [[h4 t4]|] eqn:T4.
    2:{ eexists _, _. split; [reflexivity|discriminate]. }
    rewrite evp_alloc_bind. cbn [evp]. eexists. split; [reflexivity|]. split; [reflexivity|].
    split; [exact I|]. now apply (Hc (h4, unbe h2) t4). }
  specialize (H Hb [] b1 I ltac:(lia)).
  destruct (repl topval_dec (N.to_nat (unbe h)) b1) as [[r t]|]; cbn [ag].
  - destruct H as (st' & E & Hg & _). cbn [app] in Hg. rewrite map_id in Hg. subst st'. exact E.
  - exact H.
Qed.

(** the two field tables describe the same twelve fields in the same order *)
Definition pf_idx (f : pfield) : nat :=
  match f with
  | PF_name => 0 | PF_na => 1 | PF_min => 2 | PF_max => 3 | PF_mean => 4 | PF_median => 5
  | PF_std => 6 | PF_pct => 7 | PF_minlen => 8 | PF_maxlen => 9 | PF_avglen => 10 | PF_top => 11
  end%nat.
Definition pf_kind (f : pfield) : CodecProfile.kind :=
  match f with
  | PF_name => CodecProfile.KStr | PF_na => CodecProfile.KU32
  | PF_min | PF_max | PF_mean | PF_median | PF_std => CodecProfile.KF64
  | PF_pct => CodecProfile.KPct
  | PF_minlen | PF_maxlen | PF_avglen => CodecProfile.KU16
  | PF_top => CodecProfile.KTop
  end.

Lemma field_tables name :
  match CodecProfile.find_field name CodecProfile.profile_fields 0, pfield_of_name name with
  | Some (i, k), Some f => i = pf_idx f /\ k = pf_kind f
  | None, None => True
  | _, _ => False
  end.
Proof.
  unfold pfield_of_name, pfield_table, CodecProfile.profile_fields.
  cbn [CodecProfile.find_field pfield_lookup]. unfold beq.
  repeat (match goal with |- context [beqb ?k name] => destruct (beqb k name) end;
          [split; reflexivity|]).
  exact I.
Qed.

Lemma conv_list_of_col c : conv_col (list_of_col c) = c.
Proof. destruct c; reflexivity. Qed.

Lemma empty_col_list : list_of_col empty_col = CodecProfile.empty_col.
Proof. reflexivity. Qed.

Lemma floatlist_pct_ag pc F s : (length s < F)%nat ->
  ag (fun v : list N => v) (evp (bind (alloc 8) (fun _ => floatlist_read pc F)) s) (decode_floatlist s).
Proof. intros Hs. rewrite evp_alloc_bind. now apply floatlist_read_ag. Qed.

Lemma evp_read_float_field cur s :
  evp (read_float_field cur) s =
  match rd_be 8 s with
  | Some (v, t) => (Ok (Some v), t)
  | None => (Err (eof_or_unexpected s), [])
  end.
Proof.
  unfold read_float_field. rewrite evp_alloc_bind, evp_bind, read_f64_scalar, evp_scalar.
  destruct (rd_be 8 s) as [[v t]|]; reflexivity.
Qed.

Lemma pfield_step pc F f dcol s : (length s < F)%nat ->
  match CodecProfile.dec_val (pf_kind f) s with
  | Some (v, t) => exists dcol', evp (read_pfield pc F f dcol) s = (Ok dcol', t)
        /\ list_of_col dcol' = CodecProfile.set_nth (pf_idx f) v (list_of_col dcol)
        /\ (length t <= length s)%nat
  | None => exists e t, evp (read_pfield pc F f dcol) s = (Err e, t) /\ e <> CFuel
  end.
Proof.
  intros Hs. destruct dcol as [name na mn mx mean med std pct minl maxl avgl top].
  pose proof (ag_read_string s) as Hstr. pose proof (dec_string_le s) as Lstr.
  pose proof (ag_eof_ag _ _ _ _ (ag_scalar 4 s)) as H32. pose proof (rd_be_le 4 s) as L32.
  pose proof (ag_eof_ag _ _ _ _ (ag_scalar 2 s)) as H16. pose proof (rd_be_le 2 s) as L16.
  pose proof (ag_eof_ag _ _ _ _ (ag_scalar 8 s)) as H64. pose proof (rd_be_le 8 s) as L64.
  pose proof (floatlist_pct_ag pc F s Hs) as Hpct. pose proof (decode_words_le 8 s) as Lpct.
  pose proof (value_counts_ag pc F s Hs) as Htop. pose proof (topvalues_dec_le s) as Ltop.
  unfold topvalues_dec, decode_floatlist in *. unfold ag in *.
  destruct f; cbn [pf_kind pf_idx CodecProfile.dec_val read_pfield read_float_field];
    rewrite ?read_u16_scalar, ?read_u32_scalar, ?read_f64_scalar;
    rewrite ?evp_alloc_bind; rewrite evp_bind; rewrite ?evp_alloc_bind; rewrite ?evp_bind.
  - destruct (dec_string s) as [[v t]|].
    + rewrite Hstr. cbn [evp]. eexists. split; [reflexivity|]. split; [reflexivity|]. eapply Lstr; eauto.
    + destruct Hstr as (e & t & -> & He). eauto.
  - destruct (rd_be 4 s) as [[v t]|].
    + rewrite H32. cbn [evp]. eexists. split; [reflexivity|]. split; [reflexivity|]. eapply L32; eauto.
    + destruct H32 as (e & t & -> & He). eauto.
  - rewrite evp_read_float_field. destruct (rd_be 8 s) as [[v t]|].
    + cbn [evp]. eexists. split; [reflexivity|]. split; [reflexivity|]. eapply L64; eauto.
    + eexists _, _. split; [reflexivity|apply eof_or_unexpected_nofuel].
  - rewrite evp_read_float_field. destruct (rd_be 8 s) as [[v t]|].
    + cbn [evp]. eexists. split; [reflexivity|]. split; [reflexivity|]. eapply L64; eauto.
    + eexists _, _. split; [reflexivity|apply eof_or_unexpected_nofuel].
  - rewrite evp_read_float_field. destruct (rd_be 8 s) as [[v t]|].
    + cbn [evp]. eexists. split; [reflexivity|]. split; [reflexivity|]. eapply L64; eauto.
    + eexists _, _. split; [reflexivity|apply eof_or_unexpected_nofuel].
  - rewrite evp_read_float_field. destruct (rd_be 8 s) as [[v t]|].
    + cbn [evp]. eexists. split; [reflexivity|]. split; [reflexivity|]. eapply L64; eauto.
    + eexists _, _. split; [reflexivity|apply eof_or_unexpected_nofuel].
  - rewrite evp_read_float_field. destruct (rd_be 8 s) as [[v t]|].
    + cbn [evp]. eexists. split; [reflexivity|]. split; [reflexivity|]. eapply L64; eauto.
    + eexists _, _. split; [reflexivity|apply eof_or_unexpected_nofuel].
  - rewrite evp_alloc_bind in Hpct. unfold decode_floatlist. destruct (decode_words 8 s) as [[v t]|].
    + rewrite Hpct. cbn [evp]. eexists. split; [reflexivity|]. split; [reflexivity|]. eapply Lpct; eauto.
    + destruct Hpct as (e & t & -> & He). eauto.
  - destruct (rd_be 2 s) as [[v t]|].
    + rewrite H16. cbn [evp]. eexists. split; [reflexivity|]. split; [reflexivity|]. eapply L16; eauto.
    + destruct H16 as (e & t & -> & He). eauto.
  - destruct (rd_be 2 s) as [[v t]|].
    + rewrite H16. cbn [evp]. eexists. split; [reflexivity|]. split; [reflexivity|]. eapply L16; eauto.
    + destruct H16 as (e & t & -> & He). eauto.
  - destruct (rd_be 2 s) as [[v t]|].
    + rewrite H16. cbn [evp]. eexists. split; [reflexivity|]. split; [reflexivity|]. eapply L16; eauto.
    + destruct H16 as (e & t & -> & He). eauto.
  - destruct (rd_be 4 s) as [[n b1]|].
    + destruct (count_fits n b1).
      * destruct (CodecProfile.read_topvalues (N.to_nat n) b1) as [[v t]|].
        -- rewrite Htop. cbn [evp]. eexists. split; [reflexivity|]. split; [reflexivity|]. eapply Ltop; eauto.
        -- destruct Htop as (e & t & -> & He). eauto.
      * destruct Htop as (e & t & -> & He). eauto.
    + destruct Htop as (e & t & -> & He). eauto.
Qed.

Lemma evp_col_step pc F fields nf col s :
  evp (profile_col_step pc F fields nf col) s =
  match rd_be 2 s with
  | None => (Err (eof_or_unexpected s), [])
  | Some (j, b1) =>
      if j =? 0 then (Ok (inr col), b1)
      else if nf <? j then (Err COther, b1)
      else
        match idx fields (N.to_nat j - 1) with
        | Ok fld =>
            match pfield_of_name fld with
            | None => (Err COther, b1)
            | Some f =>
                match evp (read_pfield pc F f col) b1 with
                | (Ok col', t) => (Ok (inl col'), t)
                | (Err e, t) => (Err e, t)
                | (Panic, t) => (Panic, t)
                end
            end
        | Err e => (Err e, b1)
        | Panic => (Panic, b1)
        end
  end.
Proof.
  unfold profile_col_step. rewrite evp_bind, read_u16_scalar, evp_scalar.
  destruct (rd_be 2 s) as [[j b1]|]; [|reflexivity].
  destruct (j =? 0); [reflexivity|]. destruct (nf <? j); [reflexivity|].
  rewrite evp_bind. destruct (idx fields (N.to_nat j - 1)) as [fld|e|]; cbn [lift evp]; try reflexivity.
  destruct (pfield_of_name fld) as [f|]; [|reflexivity].
  rewrite evp_bind. destruct (evp (read_pfield pc F f col) b1) as [[col'|e|] t]; reflexivity.
Qed.

Lemma col_loop_ag pc F fields : forall fuel fc s dcol,
  (length s < fuel)%nat -> (fuel <= F)%nat -> (length s <= fc)%nat ->
  match CodecProfile.read_col fc fields (list_of_col dcol) s with
  | Some (l, t) =>
      exists c, evp (loop_u fuel (profile_col_step pc F fields (N.of_nat (length fields) mod 65536)) dcol) s
                = (Ok c, t) /\ l = list_of_col c /\ (length t < length s)%nat
  | None =>
      exists e t, evp (loop_u fuel (profile_col_step pc F fields (N.of_nat (length fields) mod 65536)) dcol) s
                  = (Err e, t) /\ e <> CFuel
  end.
Proof.
  induction fuel as [|fuel IH]; intros fc s dcol Hs HF Hfc; [lia|].
  rewrite evp_loop_u_S, evp_col_step.
  destruct fc as [|fc].
  { destruct s; [|cbn in Hfc; lia]. cbn. eexists _, _. split; [reflexivity|discriminate]. }
  cbn [CodecProfile.read_col].
  destruct (rd_be 2 s) as [[j b1]|] eqn:R.
  2:{ eexists _, _. split; [reflexivity|apply eof_or_unexpected_nofuel]. }
  apply rd_be_length in R.
  destruct (j =? 0) eqn:Ej.
  { exists dcol. split; [reflexivity|]. split; [reflexivity|lia]. }
  destruct (N.of_nat (length fields) mod 65536 <? j) eqn:Enf.
  { eexists _, _. split; [reflexivity|discriminate]. }
  assert (Hj : (N.to_nat j - 1 < length fields)%nat).
  { pose proof (N.mod_le (N.of_nat (length fields)) 65536 ltac:(lia)). lia. }
  unfold idx. replace (N.to_nat (j - 1)) with (N.to_nat j - 1)%nat by lia.
  destruct (nth_error fields (N.to_nat j - 1)) as [name|] eqn:En.
  2:{ apply nth_error_None in En. lia. }
  pose proof (field_tables name) as Ht.
  destruct (CodecProfile.find_field name CodecProfile.profile_fields 0) as [[i k]|];
    destruct (pfield_of_name name) as [f|]; try contradiction.
  2:{ eexists _, _. split; [reflexivity|discriminate]. }
  destruct Ht as [-> ->].
  pose proof (pfield_step pc F f dcol b1 ltac:(lia)) as Hp.
  destruct (CodecProfile.dec_val (pf_kind f) b1) as [[v b2]|].
  - destruct Hp as (dcol' & -> & Hl & Hlen). rewrite <- Hl.
    specialize (IH fc b2 dcol' ltac:(lia) ltac:(lia) ltac:(lia)).
    destruct (CodecProfile.read_col fc fields (list_of_col dcol') b2) as [[l t]|].
    + destruct IH as (c & E & Hc & Hlt). exists c. split; [exact E|]. split; [exact Hc|lia].
    + exact IH.
  - destruct Hp as (e & t & -> & He). eauto.
Qed.

Lemma read_cols_repl fields : forall n b,
  CodecProfile.read_cols n fields b
  = repl (fun _ b => CodecProfile.read_col (length b) fields CodecProfile.empty_col b) n b.
Proof.
  induction n as [|n IH]; intros b; [reflexivity|]. cbn [CodecProfile.read_cols repl].
  destruct (CodecProfile.read_col (length b) fields CodecProfile.empty_col b) as [[c b1]|]; [|reflexivity].
  now rewrite IH.
Qed.

Definition cols_dec (fields : list bytes) (count : N) (b : bytes) :=
  if count_fits count b then CodecProfile.read_cols (N.to_nat count) fields b else None.

Lemma profile_columns_ag pc F fields count s : (length s < F)%nat ->
  ag (map conv_col) (evp (profile_columns pc F fields count) s) (cols_dec fields count s)
  /\ (forall v t, cols_dec fields count s = Some (v, t) -> (length t <= length s)%nat).
Proof.
  intros Hs. unfold profile_columns, cols_dec. cbv zeta. rewrite evp_alloc_bind.
  set (nf := N.of_nat (length fields) mod 65536).
  set (cdec := fun (_ : bool) (b : bytes) => CodecProfile.read_col (length b) fields CodecProfile.empty_col b).
  assert (Hcons : forall (l : bool) s x t, cdec l s = Some (x, t) -> (length t < length s)%nat).
  { intros l0 s0 x t E. unfold cdec in E. rewrite <- empty_col_list in E.
    pose proof (col_loop_ag pc (S (length s0)) fields (S (length s0)) (length s0) s0 empty_col
                  ltac:(lia) ltac:(lia) ltac:(lia)) as H.
    rewrite E in H. destruct H as (c & _ & _ & H). exact H. }
  rewrite read_cols_repl. fold cdec. rewrite count_fits_repl by exact Hcons. fold cdec.
  set (body := fun (_ : N) (cols : list colprof) =>
          bind (alloc (8 + sz_colprof)) (fun _ =>
          bind (loop_u F (profile_col_step pc F fields nf) empty_col) (fun col =>
          Ret (cols ++ [col])))).
  pose proof (for_n_repl F body count cdec (fun l : list colprof => l) conv_col (fun _ => True)) as H.
  assert (Hb : forall (i : N) (st : list colprof) (s2 : list N),
     i < count -> True -> (length s2 < F)%nat ->
     match cdec (i =? count - 1) s2 with
     | Some (x, t) => exists st', evp (body i st) s2 = (Ok st', t)
             /\ st' = st ++ [conv_col x] /\ True /\ (length t < length s2)%nat
     | None => exists e t, evp (body i st) s2 = (Err e, t) /\ e <> CFuel
     end).
  { intros i st s2 _ _ Hs2. unfold body, cdec. rewrite evp_alloc_bind, evp_bind.
    rewrite <- empty_col_list.
    pose proof (col_loop_ag pc F fields F (length s2) s2 empty_col ltac:(lia) ltac:(lia) ltac:(lia)) as Hc.
    fold nf in Hc.
    destruct (CodecProfile.read_col (length s2) fields (list_of_col empty_col) s2) as [[l t]|].
    - destruct Hc as (c & -> & -> & Hlt). cbn [evp]. eexists. split; [reflexivity|].
      rewrite conv_list_of_col. auto.
    - destruct Hc as (e & t & -> & He). eauto. }
  specialize (H Hb [] s I Hs).
  destruct (repl cdec (N.to_nat count) s) as [[r t]|] eqn:R.
  - destruct H as (st' & E & Hg & _). cbn [app] in Hg. subst st'. split; [exact E|].
    intros v t0 E0. inv E0. apply repl_length in R; [lia|exact Hcons].
  - split; [exact H|discriminate].
Qed.

Lemma profile_read_ag pc F s : (length s < F)%nat ->
  ag conv_profile (evp (profile_read pc F) s) (CodecProfile.decode_profile s).
Proof.
  intros Hs. unfold profile_read, CodecProfile.decode_profile.
  apply (field_bind (fun v : N => v)); [reflexivity|intros t _; apply (ag_eof_ag _ t), (ag_scalar 4)|].
  intros ver b1 E1. apply dec_field_le in E1; [|apply rd_be_le]. cbv beta.
  apply (field_bind (fun v : list bytes => v)); [reflexivity|intros t Ht; apply strlist_read1_ag; lia|].
  intros fields b2 E2. apply dec_field_le in E2; [|apply decode_strlist_le]. cbv beta.
  apply (field_bind (fun v : N => v)); [reflexivity|intros t _; apply (ag_eof_ag _ t), (ag_scalar 4)|].
  intros rows b3 E3. apply dec_field_le in E3; [|apply rd_be_le]. cbv beta.
  apply (field_bind (fun v : N => v)); [reflexivity|intros t _; apply (ag_eof_ag _ t), (ag_scalar 4)|].
  intros count b4 E4. apply dec_field_le in E4; [|apply rd_be_le]. cbv beta.
  change (fun b : bytes => if count_fits count b then CodecProfile.read_cols (N.to_nat count) fields b else None)
    with (cols_dec fields count).
  rewrite evp_bind.
  pose proof (ag_read_field (map conv_col) L_columns (profile_columns pc F fields count)
                (cols_dec fields count) b4
                (fun t Ht => proj1 (profile_columns_ag pc F fields count t ltac:(lia)))) as H.
  change L_columns with CodecProfile.L_pcolumns in H at 2.
  destruct (dec_field CodecProfile.L_pcolumns (cols_dec fields count) b4) as [[cols b5]|]; cbn [ag_eof] in H.
  - rewrite H. reflexivity.
  - destruct H as (e & t & -> & He & _). cbn [ag]. eauto.
Qed.

(* ================================================================== *)
(** * B6a: agreement on every input, every chunking *)
Lemma fuel_ok (b : bytes) : (length b < dec_fuel b)%nat.
Proof. unfold dec_fuel. lia. Qed.

Theorem agree_strlist pc : codec_agrees (fun v : list bytes => v) (strlist_read1 pc) decode_strlist.
Proof. apply codec_agrees_of_evp. intros b. apply strlist_read1_ag, fuel_ok. Qed.

Lemma strlist_read1_reuse_ag pc F s : (length s < F)%nat ->
  ag (fun v : list bytes => v) (evp (strlist_read1_reuse pc F) s) (decode_strlist s).
Proof.
  intros Hs. unfold strlist_read1_reuse, decode_strlist. rewrite evp_alloc_bind, evp_bind.
  pose proof (strlist_read_ag true pc F strlist_cap0 s ltac:(unfold strlist_cap0; lia) Hs) as H.
  destruct (decode_strlist_g false s) as [[sl t]|]; cbn [ag].
  - destruct H as (cap' & E & _). rewrite E. reflexivity.
  - destruct H as (e & t & E & He). rewrite E. eauto.
Qed.

Theorem agree_strlist_reuse pc :
  codec_agrees (fun v : list bytes => v) (strlist_read1_reuse pc) decode_strlist.
Proof. apply codec_agrees_of_evp. intros b. apply strlist_read1_reuse_ag, fuel_ok. Qed.

Theorem agree_block pc : codec_agrees (fun v : list (list bytes) => v) (block_read pc) decode_block.
Proof. apply codec_agrees_of_evp. intros b. apply block_read_ag, fuel_ok. Qed.

Theorem agree_uintlist ru pc : codec_agrees (fun v : list N => v) (uintlist_read_g ru pc) decode_uintlist.
Proof. apply codec_agrees_of_evp. intros b. apply uintlist_read_ag, fuel_ok. Qed.

Theorem agree_floatlist ru pc : codec_agrees (fun v : list N => v) (floatlist_read_g ru pc) decode_floatlist.
Proof. apply codec_agrees_of_evp. intros b. apply floatlist_read_ag, fuel_ok. Qed.

Theorem agree_commit_gen pi ptz :
  (forall s, pi s = CodecObjline.parse_int s) -> (forall s, ptz s = codec_parse_tz s) ->
  codec_agrees conv_commit (commit_read pi ptz) CodecCommit.decode_commit.
Proof. intros Hpi Hptz. apply codec_agrees_of_evp. intros b. apply commit_read_ag; auto using fuel_ok. Qed.

Theorem agree_commit :
  codec_agrees conv_commit (commit_read go_parse_int go_parse_tz) CodecCommit.decode_commit.
Proof. apply agree_commit_gen; [apply go_parse_int_codec|apply go_parse_tz_codec]. Qed.

Theorem agree_table pc : codec_agrees conv_table (table_read pc) CodecTable.decode_table.
Proof. apply codec_agrees_of_evp. intros b. apply table_read_ag, fuel_ok. Qed.

Theorem agree_blockindex : codec_agrees conv_bidx blockindex_read CodecTable.decode_blockindex.
Proof. apply codec_agrees_of_evp. intros b. apply blockindex_read_ag, fuel_ok. Qed.

Theorem agree_profile pc : codec_agrees conv_profile (profile_read pc) CodecProfile.decode_profile.
Proof. apply codec_agrees_of_evp. intros b. apply profile_read_ag, fuel_ok. Qed.

Theorem agree_objhdr : codec_agrees (fun v : N * N => v) objhdr_read CodecPackfile.decode_len.
Proof.
  apply codec_agrees_of_evp. intros b. eapply ag_eof_ag. apply objhdr_read_ag, fuel_ok.
Qed.

Theorem agree_object : codec_agrees (fun v : N * bytes => v) object_read CodecPackfile.decode_obj.
Proof.
  apply codec_agrees_of_evp. intros b. eapply ag_eof_ag. apply object_read_ag, fuel_ok.
Qed.

Theorem agree_pktline :
  codec_agrees (fun v : bytes => v) (fun _ => pktline_read) CodecPackfile.decode_pktline.
Proof. apply codec_agrees_of_evp. intros b. apply pktline_read_ag. Qed.

Theorem agree_packfile : packfile_agrees.
Proof.
  intros k Hk b p e. cbv zeta.
  pose proof (run_on_evp (kinds_of k) (all_full_kinds k Hk) packfile_read b p e) as E.
  pose proof (packfile_read_evp (dec_fuel b) b (fuel_ok b)) as H.
  rewrite <- E in H. cbn [fst] in H. exact H.
Qed.

(** the persistence readers (objects.Get*: the decoder on the complete stored value) *)
Theorem agree_bytes_commit :
  codec_agrees_on_bytes conv_commit (commit_read go_parse_int go_parse_tz) CodecCommit.decode_commit.
Proof. apply codec_agrees_bytes_of_evp. intros b. apply commit_read_go_ag, fuel_ok. Qed.
Theorem agree_bytes_table pc : codec_agrees_on_bytes conv_table (table_read pc) CodecTable.decode_table.
Proof. apply codec_agrees_bytes_of_evp. intros b. apply table_read_ag, fuel_ok. Qed.
Theorem agree_bytes_block pc :
  codec_agrees_on_bytes (fun v : list (list bytes) => v) (block_read pc) decode_block.
Proof. apply codec_agrees_bytes_of_evp. intros b. apply block_read_ag, fuel_ok. Qed.
Theorem agree_bytes_blockindex :
  codec_agrees_on_bytes conv_bidx blockindex_read CodecTable.decode_blockindex.
Proof. apply codec_agrees_bytes_of_evp. intros b. apply blockindex_read_ag, fuel_ok. Qed.
Theorem agree_bytes_profile pc :
  codec_agrees_on_bytes conv_profile (profile_read pc) CodecProfile.decode_profile.
Proof. apply codec_agrees_bytes_of_evp. intros b. apply profile_read_ag, fuel_ok. Qed.

(** the EOF tolerance of StrListDecoder.Read is in BOTH models: ten bytes whose last cell
    announces 5 bytes and ends there decode, through any chunking, to one row with one "" *)
Lemma eof_tolerance_both :
  decode_block [0;0;0;1; 0;0;0;1; 0;5] = Some ([[[]]], []) /\
  forall k, all_full k -> forall p e,
    outcome (run_on (kinds_of k) (block_read precap_of_code) (chunked p [0;0;0;1; 0;0;0;1; 0;5] e))
    = Ok [[[]]].
Proof.
  split; [reflexivity|]. intros k Hk p e.
  pose proof (agree_block precap_of_code k Hk [0;0;0;1; 0;0;0;1; 0;5] p e) as H. cbv zeta in H.
  change (decode_block [0;0;0;1; 0;0;0;1; 0;5]) with (Some ([[[] : bytes]], [] : bytes)) in H.
  cbv beta iota in H. destruct H as [H _]. exact H.
Qed.

(* ================================================================== *)
(** * B6b / B6c: what is written is read back through any chunking *)
Lemma reads_back_of_agrees {A B} (conv : B -> A) D C bs v t :
  codec_agrees conv D C -> C bs = Some (v, t) -> reads_back conv D bs v.
Proof.
  intros H E k Hk p e. specialize (H k Hk bs p e). cbv zeta in H. rewrite E in H. tauto.
Qed.

Lemma reads_back_no_error {A B} (conv : B -> A) D bs v :
  reads_back conv D bs v ->
  forall k, all_full k -> forall p e,
    outcome (run_on (kinds_of k) D (chunked p bs e)) <> Panic /\
    forall c, outcome (run_on (kinds_of k) D (chunked p bs e)) <> Err c.
Proof. intros H k Hk p e. rewrite (H k Hk p e). split; [|intros c]; discriminate. Qed.

Theorem compose_strlist pc sl : wf_strlist sl ->
  exists b, encode_strlist sl = Some b /\ reads_back (fun v : list bytes => v) (strlist_read1 pc) b sl.
Proof.
  intros Hw. destruct (CodecStrList_proofs.strlist_roundtrip sl Hw) as (b & E & D).
  exists b. split; [exact E|]. specialize (D false []). rewrite app_nil_r in D.
  exact (reads_back_of_agrees _ _ _ _ _ _ (agree_strlist pc) D).
Qed.

Theorem compose_block pc rows : wf_block rows ->
  exists b, encode_block rows = Some b /\
            reads_back (fun v : list (list bytes) => v) (block_read pc) b rows.
Proof.
  intros Hw. destruct (CodecStrList_proofs.block_roundtrip rows Hw) as (b & E & D).
  exists b. split; [exact E|]. specialize (D false []). rewrite app_nil_r in D.
  exact (reads_back_of_agrees _ _ _ _ _ _ (agree_block pc) D).
Qed.

Theorem compose_uintlist ru pc l : wf_uintlist l ->
  exists b, encode_uintlist l = Some b /\ reads_back (fun v : list N => v) (uintlist_read_g ru pc) b l.
Proof.
  intros Hw. destruct (CodecC06_proofs.uintlist_roundtrip l Hw) as (b & E & D).
  exists b. split; [exact E|]. specialize (D []). rewrite app_nil_r in D.
  exact (reads_back_of_agrees _ _ _ _ _ _ (agree_uintlist ru pc) D).
Qed.

Theorem compose_floatlist ru pc l : wf_floatlist l ->
  exists b, encode_floatlist l = Some b /\ reads_back (fun v : list N => v) (floatlist_read_g ru pc) b l.
Proof.
  intros Hw. destruct (CodecC06_proofs.floatlist_roundtrip l Hw) as (b & E & D).
  exists b. split; [exact E|]. specialize (D []). rewrite app_nil_r in D.
  exact (reads_back_of_agrees _ _ _ _ _ _ (agree_floatlist ru pc) D).
Qed.

Theorem compose_commit c : CodecCommit.wf_commit c ->
  exists b, CodecCommit.encode_commit c = Some b /\
            reads_back conv_commit (commit_read go_parse_int go_parse_tz) b c.
Proof.
  intros Hw. destruct (CodecCommit_proofs.commit_roundtrip c Hw) as (b & E & D).
  exists b. split; [exact E|].
  exact (reads_back_of_agrees _ _ _ _ _ _ agree_commit (D false)).
Qed.

Theorem compose_table pc t : CodecTable.wf_table t ->
  exists b, CodecTable.encode_table t = Some b /\ reads_back conv_table (table_read pc) b t.
Proof.
  intros Hw. destruct (CodecTable_proofs.table_roundtrip t Hw) as (b & E & D).
  exists b. split; [exact E|]. specialize (D []). rewrite app_nil_r in D.
  exact (reads_back_of_agrees _ _ _ _ _ _ (agree_table pc) D).
Qed.

(** ... and a table followed by anything (Table.ReadFrom stops after the index sums) *)
Theorem compose_table_prefix pc t rest : CodecTable.wf_table t ->
  exists b, CodecTable.encode_table t = Some b /\
    forall k, all_full k -> forall p e,
      let x := run_on (kinds_of k) (table_read pc) (chunked p (b ++ rest) e) in
      outcome x = Ok (conv_table t) /\ Reader.rest (snd (fst x)) = rest.
Proof.
  intros Hw. destruct (CodecTable_proofs.table_roundtrip t Hw) as (b & E & D).
  exists b. split; [exact E|]. intros k Hk p e.
  pose proof (agree_table pc k Hk (b ++ rest) p e) as H. cbv zeta in H. rewrite (D rest) in H. exact H.
Qed.

Theorem compose_blockindex x : CodecTable.wf_blockindex x ->
  exists b, CodecTable.encode_blockindex x = Some b /\ reads_back conv_bidx blockindex_read b x.
Proof.
  intros Hw. destruct (CodecTable_proofs.blockindex_roundtrip x Hw) as (b & E & D).
  exists b. split; [exact E|]. specialize (D []). rewrite app_nil_r in D.
  exact (reads_back_of_agrees _ _ _ _ _ _ agree_blockindex D).
Qed.

Theorem compose_profile pc p : CodecProfile.wf_profile p ->
  exists b, CodecProfile.encode_profile p = Some b /\ reads_back conv_profile (profile_read pc) b p.
Proof.
  intros Hw. destruct (CodecProfile_proofs.profile_roundtrip p Hw) as (b & E & D).
  exists b. split; [exact E|]. specialize (D []). rewrite app_nil_r in D.
  exact (reads_back_of_agrees _ _ _ _ _ _ (agree_profile pc) D).
Qed.

Theorem compose_pktline s : CodecPackfile.wf_pktline s ->
  exists b, CodecPackfile.encode_pktline s = Some b /\
            reads_back (fun v : bytes => v) (fun _ => pktline_read) b s.
Proof.
  intros Hw. destruct (CodecPackfile_proofs.pktline_roundtrip s Hw) as (b & E & D).
  exists b. split; [exact E|]. specialize (D []). rewrite app_nil_r in D.
  exact (reads_back_of_agrees _ _ _ _ _ _ agree_pktline D).
Qed.

Theorem compose_header ty u rest : 1 <= ty <= 7 -> u < 2 ^ 64 ->
  forall k, all_full k -> forall p e,
    let x := run_on (kinds_of k) objhdr_read (chunked p (CodecPackfile.encode_len ty u ++ rest) e) in
    outcome x = Ok (ty, u) /\ Reader.rest (snd (fst x)) = rest.
Proof.
  intros Hty Hu k Hk p e.
  pose proof (agree_objhdr k Hk (CodecPackfile.encode_len ty u ++ rest) p e) as H. cbv zeta in H.
  rewrite (CodecPackfile_proofs.header_roundtrip ty u rest Hty Hu) in H. exact H.
Qed.

Theorem compose_object o rest : CodecPackfile.wf_obj o ->
  exists b, CodecPackfile.encode_obj o = Some b /\
    forall k, all_full k -> forall p e,
      let x := run_on (kinds_of k) object_read (chunked p (b ++ rest) e) in
      outcome x = Ok o /\ Reader.rest (snd (fst x)) = rest.
Proof.
  intros Hw. destruct (CodecPackfile_proofs.decode_obj_enc o rest Hw) as (b & E & _ & D).
  exists b. split; [exact E|]. intros k Hk p e.
  pose proof (agree_object k Hk (b ++ rest) p e) as H. cbv zeta in H. rewrite D in H. exact H.
Qed.

Lemma pack_view_some r v l : pack_view r = Some (v, l) -> r = Ok (v, l, CEof).
Proof.
  destruct r as [[[v' l'] e]|e|]; cbn; try discriminate. destruct e; try discriminate.
  intros H. inversion H; subst. reflexivity.
Qed.

Theorem compose_packfile l : CodecPackfile.wf_packfile l ->
  exists b, CodecPackfile.encode_packfile l = Some b /\
    forall k, all_full k -> forall p e,
      outcome (run_on (kinds_of k) packfile_read (chunked p b e)) = Ok (CodecPackfile.pack_version, l, CEof).
Proof.
  intros Hw. destruct (CodecPackfile_proofs.packfile_roundtrip l Hw) as (b & E & D).
  exists b. split; [exact E|]. intros k Hk p e.
  destruct (agree_packfile k Hk b p e) as [H _]. rewrite D in H. now apply pack_view_some.
Qed.

(* ================================================================== *)
(** * non-vacuity: concrete objects through a concrete chunking *)
Example compose_example_commit :
  CodecCommit.wf_commit CodecC06_proofs.ex_commit /\
  match CodecCommit.encode_commit CodecC06_proofs.ex_commit with
  | Some b =>
      outcome (run_on read_kinds_of_code (commit_read go_parse_int go_parse_tz)
                 (chunked [3; 0; 1; 7; 2; 100]%nat b true))
      = Ok (conv_commit CodecC06_proofs.ex_commit)
      /\ c_parents (conv_commit CodecC06_proofs.ex_commit) = [zeros16; zeros16]
      /\ c_time (conv_commit CodecC06_proofs.ex_commit) = mk_time 1700000000 (-34200)
  | None => False
  end.
Proof.
  split; [apply CodecC06_proofs.nonvacuous|]. vm_compute. repeat split.
Qed.

Example compose_example_table :
  CodecTable.wf_table CodecC06_proofs.ex_table /\
  match CodecTable.encode_table CodecC06_proofs.ex_table with
  | Some b =>
      outcome (run_on read_kinds_of_code (table_read precap_of_code)
                 (chunked [1; 1; 0; 50; 3]%nat b false))
      = Ok (conv_table CodecC06_proofs.ex_table)
      /\ length (tb_blocks (conv_table CodecC06_proofs.ex_table)) = 2%nat
  | None => False
  end.
Proof.
  split; [apply CodecC06_proofs.nonvacuous|]. vm_compute. repeat split.
Qed.

Example compose_example_profile :
  CodecProfile.wf_profile CodecC06_proofs.ex_profile /\
  match CodecProfile.encode_profile CodecC06_proofs.ex_profile with
  | Some b =>
      outcome (run_on read_kinds_of_code (profile_read precap_of_code)
                 (chunked [5; 5; 5; 5; 5; 5; 5; 5; 5; 5; 5; 5]%nat b true))
      = Ok (conv_profile CodecC06_proofs.ex_profile)
  | None => False
  end.
Proof.
  split; [apply CodecC06_proofs.nonvacuous|]. vm_compute. reflexivity.
Qed.
