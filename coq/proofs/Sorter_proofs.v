(** Proofs about the sorter model (C19; reused by C01/C02/C03). *)
From W.lib Require Import Tree Bytes.
From W.model Require Import Sorter SorterSpec.
From Coq Require Import Arith Lia Sorting.Sorted Sorting.Permutation.
Local Open Scope nat_scope.

(** * Order facts on [kcmp] *)

Lemma kcmp_gt_lt a b : kcmp a b = Gt <-> kcmp b a = Lt.
Proof. rewrite (kcmp_antisym a b). destruct (kcmp a b); cbn; split; congruence. Qed.

Lemma kcmp_le_trans a b c : kcmp a b <> Gt -> kcmp b c <> Gt -> kcmp a c <> Gt.
Proof.
  intros Hab Hbc.
  destruct (kcmp a b) eqn:Eab; try congruence.
  - apply kcmp_eq in Eab; subst; auto.
  - destruct (kcmp b c) eqn:Ebc; try congruence.
    + apply kcmp_eq in Ebc; subst. rewrite Eab. discriminate.
    + rewrite (kcmp_lt_trans _ _ _ Eab Ebc). discriminate.
Qed.

Lemma kcmp_lt_le_trans a b c : kcmp a b = Lt -> kcmp b c <> Gt -> kcmp a c = Lt.
Proof.
  intros Hab Hbc. destruct (kcmp b c) eqn:Ebc; try congruence.
  - apply kcmp_eq in Ebc; subst; auto.
  - eapply kcmp_lt_trans; eauto.
Qed.

Lemma kcmp_le_lt_trans a b c : kcmp a b <> Gt -> kcmp b c = Lt -> kcmp a c = Lt.
Proof.
  intros Hab Hbc. destruct (kcmp a b) eqn:Eab; try congruence.
  - apply kcmp_eq in Eab; subst; auto.
  - eapply kcmp_lt_trans; eauto.
Qed.

Lemma klt_false_le a b : klt a b = false <-> kcmp b a <> Gt.
Proof.
  unfold klt. rewrite (kcmp_antisym a b). destruct (kcmp a b); cbn; split; congruence.
Qed.

Lemma klt_true_lt a b : klt a b = true <-> kcmp a b = Lt.
Proof. unfold klt. destruct (kcmp a b); split; congruence. Qed.

Lemma key_eqb_eq a b : key_eqb a b = true <-> a = b.
Proof.
  unfold key_eqb, keqb. split.
  - intros H. apply andb_prop in H as [H _]. destruct (kcmp a b) eqn:E; try discriminate.
    now apply kcmp_eq.
  - intros ->. rewrite kcmp_refl, Nat.eqb_refl. reflexivity.
Qed.

Lemma key_eqb_neq a b : key_eqb a b = false <-> a <> b.
Proof.
  split.
  - intros H E. apply key_eqb_eq in E. congruence.
  - intros H. destruct (key_eqb a b) eqn:E; auto. apply key_eqb_eq in E. contradiction.
Qed.

(** * The comparison loops are the key order *)

Lemma ssl_pk_klt pk a b : ssl_pk pk a b = klt (key_of pk a) (key_of pk b).
Proof.
  induction pk as [|u pk IH]; cbn; [reflexivity|].
  unfold blt, bgt, klt. cbn. destruct (bcmp (nth u a []) (nth u b [])); auto.
Qed.

Lemma sll_cols_klt cols a b : sll_cols cols a b = klt (key_of cols a) (key_of cols b).
Proof.
  induction cols as [|u cols IH]; cbn; [reflexivity|].
  unfold klt. cbn. destruct (bcmp (nth u a []) (nth u b [])); auto.
Qed.

Lemma ssl_all_klt a b : length a = length b -> ssl_all a b = klt a b.
Proof.
  revert b; induction a as [|x a IH]; intros [|y b] Hl; cbn in *; try discriminate; [reflexivity|].
  unfold blt, bgt, klt. cbn. destruct (bcmp x y) eqn:E; auto.
  rewrite IH by lia. reflexivity.
Qed.

Lemma key_of_seq_gen (p r : row) :
  map (fun i => nth i (p ++ r) []) (seq (length p) (length r)) = r.
Proof.
  revert p; induction r as [|c r IH]; intros p; cbn; [reflexivity|].
  f_equal.
  - rewrite app_nth2 by lia. now rewrite Nat.sub_diag.
  - specialize (IH (p ++ [c])). rewrite app_length in IH. cbn in IH.
    rewrite Nat.add_1_r in IH. rewrite <- app_assoc in IH. exact IH.
Qed.

Lemma key_of_seq r : key_of (seq 0 (length r)) r = r.
Proof. exact (key_of_seq_gen [] r). Qed.

Lemma pk_indices_nonempty ncols u pk : pk_indices ncols (u :: pk) = u :: pk.
Proof. reflexivity. Qed.

Lemma ssl_dkey ncols pk a b :
  length a = ncols -> length b = ncols ->
  string_slice_is_less pk a b = klt (dkey ncols pk a) (dkey ncols pk b).
Proof.
  intros Ha Hb. unfold dkey. destruct pk as [|u pk].
  - cbn [string_slice_is_less pk_indices]. rewrite ssl_all_klt by congruence.
    rewrite <- Ha at 1. rewrite key_of_seq. rewrite <- Hb. now rewrite key_of_seq.
  - cbn [string_slice_is_less pk_indices]. apply ssl_pk_klt.
Qed.

Lemma sll_dkey ncols pk a b :
  length a = ncols -> length b = ncols ->
  strlist_less_than pk a b = klt (dkey ncols pk a) (dkey ncols pk b).
Proof.
  intros Ha Hb. unfold dkey. destruct pk as [|u pk].
  - cbn [strlist_less_than pk_indices]. rewrite sll_cols_klt. now rewrite Ha.
  - cbn [strlist_less_than pk_indices]. apply sll_cols_klt.
Qed.

(** * k-way merge, abstractly *)

Definition heads (runs : list (list row)) : list row :=
  flat_map (fun r => match r with [] => [] | x :: _ => [x] end) runs.

Fixpoint merge_seq (lt : row -> row -> bool) (fuel : nat) (runs : list (list row)) : list row :=
  match fuel with
  | O => []
  | S fuel' =>
      match pick_min lt runs with
      | None => []
      | Some (i, r) => r :: merge_seq lt fuel' (pop_run i runs)
      end
  end.

Section Merge.
  Variable K : row -> key.
  Variable P : row -> Prop.
  Variable lt : row -> row -> bool.
  Hypothesis Hlt : forall a b, P a -> P b -> lt a b = klt (K a) (K b).

  Definition le (a b : row) : Prop := kcmp (K a) (K b) <> Gt.

  Lemma le_refl a : le a a.
  Proof. unfold le. rewrite kcmp_refl. discriminate. Qed.
  Lemma le_trans a b c : le a b -> le b c -> le a c.
  Proof. unfold le. apply kcmp_le_trans. Qed.

  Lemma pick_min_from_none runs : forall i best,
    pick_min_from lt i runs best = None <-> best = None /\ Forall (fun r => r = []) runs.
  Proof.
    induction runs as [|run runs IH]; intros i best; cbn.
    - split; [intros ->; auto | tauto].
    - destruct run as [|x run].
      + rewrite IH. split; intros [H1 H2]; split; auto.
        inversion H2; auto.
      + assert (Hno : ~ Forall (fun r : list row => r = []) ((x :: run) :: runs)).
        { intros H; inversion H; discriminate. }
        destruct best as [[j m]|].
        * destruct (lt x m); rewrite IH; split; intros [H1 H2]; try discriminate; contradiction.
        * rewrite IH. split; intros [H1 H2]; try discriminate; contradiction.
  Qed.

  Lemma pick_min_from_spec runs : forall i best j r,
    Forall (Forall P) runs -> (forall j0 m, best = Some (j0, m) -> P m) ->
    pick_min_from lt i runs best = Some (j, r) ->
    (best = Some (j, r) \/ (exists tl, i <= j /\ nth_error runs (j - i) = Some (r :: tl))) /\
    Forall (le r) (heads runs) /\ (forall j0 m, best = Some (j0, m) -> le r m) /\ P r.
  Proof.
    induction runs as [|run runs IH]; intros i best j r HP Hb Hpick; cbn in Hpick.
    - subst best. split; [now left|]. split; [constructor|]. split.
      + intros j0 m E; inversion E; subst. apply le_refl.
      + eapply Hb; eauto.
    - inversion HP as [|? ? HPrun HPruns]; subst.
      destruct run as [|x run].
      + destruct (IH _ _ _ _ HPruns Hb Hpick) as (H1 & H2 & H3 & H4).
        repeat split; auto.
        destruct H1 as [H1|(tl & Hle & Hn)]; [now left|right].
        exists tl. split; [lia|]. replace (j - i) with (S (j - S i)) by lia. exact Hn.
      + inversion HPrun as [|? ? HPx _]; subst.
        destruct best as [[j0 m]|].
        * assert (HPm : P m) by (eapply Hb; eauto).
          destruct (lt x m) eqn:Elt.
          -- assert (Hb' : forall j1 m1, Some (i, x) = Some (j1, m1) -> P m1)
               by (intros ? ? E; inversion E; subst; auto).
             destruct (IH _ _ _ _ HPruns Hb' Hpick) as (H1 & H2 & H3 & H4).
             assert (Hrx : le r x) by (eapply H3; eauto).
             rewrite Hlt in Elt by auto. apply klt_true_lt in Elt.
             assert (Hrm : le r m).
             { unfold le in *. intro G. apply kcmp_gt_lt in G.
               assert (kcmp (K x) (K r) = Lt \/ True) by auto.
               pose proof (kcmp_le_lt_trans _ _ _ Hrx Elt) as L. apply kcmp_gt_lt in G.
               rewrite L in G. discriminate. }
             repeat split; auto.
             ++ destruct H1 as [H1|(tl & Hle & Hn)].
                ** inversion H1; subst. right. exists run. split; [lia|]. now rewrite Nat.sub_diag.
                ** right. exists tl. split; [lia|]. replace (j - i) with (S (j - S i)) by lia. exact Hn.
             ++ cbn. constructor; auto.
             ++ intros j1 m1 E; inversion E; subst; auto.
          -- destruct (IH _ _ _ _ HPruns Hb Hpick) as (H1 & H2 & H3 & H4).
             assert (Hrm : le r m) by (eapply H3; eauto).
             rewrite Hlt in Elt by auto. apply klt_false_le in Elt.
             assert (Hrx : le r x) by (eapply le_trans; eauto).
             repeat split; auto.
             ++ destruct H1 as [H1|(tl & Hle & Hn)]; [now left|right].
                exists tl. split; [lia|]. replace (j - i) with (S (j - S i)) by lia. exact Hn.
             ++ cbn. constructor; auto.
        * assert (Hb' : forall j1 m1, Some (i, x) = Some (j1, m1) -> P m1)
            by (intros ? ? E; inversion E; subst; auto).
          destruct (IH _ _ _ _ HPruns Hb' Hpick) as (H1 & H2 & H3 & H4).
          assert (Hrx : le r x) by (eapply H3; eauto).
          repeat split; auto.
          -- destruct H1 as [H1|(tl & Hle & Hn)].
             ++ inversion H1; subst. right. exists run. split; [lia|]. now rewrite Nat.sub_diag.
             ++ right. exists tl. split; [lia|]. replace (j - i) with (S (j - S i)) by lia. exact Hn.
          -- cbn. constructor; auto.
          -- intros ? ? E; discriminate.
  Qed.

  Lemma pick_min_spec runs i r :
    Forall (Forall P) runs -> pick_min lt runs = Some (i, r) ->
    (exists tl, nth_error runs i = Some (r :: tl)) /\ Forall (le r) (heads runs) /\ P r.
  Proof.
    intros HP Hp. unfold pick_min in Hp.
    destruct (pick_min_from_spec runs 0 None i r HP) as (H1 & H2 & _ & H4); auto.
    - intros ? ? E; discriminate.
    - destruct H1 as [H1|(tl & _ & Hn)]; [discriminate|].
      rewrite Nat.sub_0_r in Hn. eauto.
  Qed.

  Lemma pick_min_none runs : pick_min lt runs = None <-> Forall (fun r => r = []) runs.
  Proof. unfold pick_min. rewrite pick_min_from_none. tauto. Qed.
End Merge.

Lemma concat_all_nil (runs : list (list row)) : Forall (fun r => r = []) runs -> concat runs = [].
Proof. induction 1; cbn; subst; auto. Qed.

Lemma pop_run_split a (r : row) tl b :
  pop_run (length a) (a ++ (r :: tl) :: b) = a ++ tl :: b.
Proof. induction a as [|x a IH]; cbn; [reflexivity|]. now rewrite IH. Qed.

Lemma nth_error_split_run (runs : list (list row)) i run :
  nth_error runs i = Some run -> exists a b, runs = a ++ run :: b /\ length a = i.
Proof. apply nth_error_split. Qed.

Lemma pop_run_perm runs i r tl :
  nth_error runs i = Some (r :: tl) ->
  Permutation (concat runs) (r :: concat (pop_run i runs)).
Proof.
  intros Hn. destruct (nth_error_split_run _ _ _ Hn) as (a & b & -> & <-).
  rewrite pop_run_split. rewrite !concat_app. cbn.
  symmetry. apply Permutation_middle.
Qed.

Lemma pop_run_total runs i r tl :
  nth_error runs i = Some (r :: tl) -> total_rows runs = S (total_rows (pop_run i runs)).
Proof.
  intros Hn. unfold total_rows. rewrite (Permutation_length (pop_run_perm _ _ _ _ Hn)). reflexivity.
Qed.

Lemma pop_run_Forall (Q : list row -> Prop) runs i :
  (forall x l, Q (x :: l) -> Q l) -> Q [] ->
  Forall Q runs -> Forall Q (pop_run i runs).
Proof.
  intros Htl Hnil. revert i; induction runs as [|run runs IH]; intros i H; cbn; [constructor|].
  inversion H; subst. destruct i.
  - constructor; [|assumption]. destruct run; cbn; eauto.
  - constructor; [assumption|]. apply IH; assumption.
Qed.

Section MergeSorted.
  Variable K : row -> key.
  Variable P : row -> Prop.
  Variable lt : row -> row -> bool.
  Hypothesis Hlt : forall a b, P a -> P b -> lt a b = klt (K a) (K b).
  Notation le := (le K).

  Lemma merge_seq_perm fuel : forall runs,
    Forall (Forall P) runs -> total_rows runs < fuel ->
    Permutation (merge_seq lt fuel runs) (concat runs).
  Proof.
    induction fuel as [|fuel IH]; intros runs HP Hf; [lia|]. cbn.
    destruct (pick_min lt runs) as [[i r]|] eqn:Ep.
    - destruct (pick_min_spec K P lt Hlt runs i r HP Ep) as ((tl & Hn) & _ & _).
      rewrite (pop_run_perm _ _ _ _ Hn). constructor. apply IH.
      + apply pop_run_Forall; auto. intros x l H; now inversion H.
      + rewrite (pop_run_total _ _ _ _ Hn) in Hf. lia.
    - apply pick_min_none in Ep. now rewrite concat_all_nil.
  Qed.

  Lemma heads_le_all runs r :
    Forall (StronglySorted le) runs -> Forall (le r) (heads runs) -> Forall (le r) (concat runs).
  Proof.
    induction runs as [|run runs IH]; intros Hs Hh; cbn; [constructor|].
    inversion Hs as [|? ? Hrun Hruns]; subst. apply Forall_app. split.
    - destruct run as [|x run]; [constructor|]. cbn in Hh. inversion Hh as [|? ? Hrx _]; subst.
      constructor; auto. apply StronglySorted_inv in Hrun as [_ Hx].
      eapply Forall_impl; [|exact Hx]. intros y Hy. eapply le_trans; eauto.
    - apply IH; auto. destruct run; cbn in Hh; auto. now inversion Hh.
  Qed.

  Lemma merge_seq_sorted fuel : forall runs,
    Forall (Forall P) runs -> Forall (StronglySorted le) runs -> total_rows runs < fuel ->
    StronglySorted le (merge_seq lt fuel runs).
  Proof.
    induction fuel as [|fuel IH]; intros runs HP Hs Hf; [lia|]. cbn.
    destruct (pick_min lt runs) as [[i r]|] eqn:Ep; [|constructor].
    destruct (pick_min_spec K P lt Hlt runs i r HP Ep) as ((tl & Hn) & Hh & _).
    assert (HP' : Forall (Forall P) (pop_run i runs)).
    { apply pop_run_Forall; auto. intros x l H; now inversion H. }
    assert (Hf' : total_rows (pop_run i runs) < fuel).
    { rewrite (pop_run_total _ _ _ _ Hn) in Hf. lia. }
    constructor.
    - apply IH; auto. apply pop_run_Forall; auto; [|constructor].
      intros x l H. now apply StronglySorted_inv in H.
    - pose proof (heads_le_all runs r Hs Hh) as Hall.
      rewrite (pop_run_perm _ _ _ _ Hn) in Hall. inversion Hall; subst.
      rewrite (merge_seq_perm fuel _ HP' Hf'). assumption.
  Qed.
End MergeSorted.

(** two comparison functions that agree on the rows give the same merge *)
Lemma pick_min_from_ext (P : row -> Prop) lt1 lt2 :
  (forall a b, P a -> P b -> lt1 a b = lt2 a b) ->
  forall runs i best, Forall (Forall P) runs -> (forall j m, best = Some (j, m) -> P m) ->
  pick_min_from lt1 i runs best = pick_min_from lt2 i runs best.
Proof.
  intros H. induction runs as [|run runs IH]; intros i best HP Hb; cbn; [reflexivity|].
  inversion HP as [|? ? HPrun HPruns]; subst.
  destruct run as [|x run]; [apply IH; auto|].
  inversion HPrun; subst.
  assert (Hb' : forall j1 m1, Some (i, x) = Some (j1, m1) -> P m1)
    by (intros ? ? E; inversion E; subst; auto).
  destruct best as [[j m]|]; [|apply IH; auto].
  rewrite H by (auto; eapply Hb; eauto).
  destruct (lt2 x m); apply IH; auto.
Qed.

Lemma merge_seq_ext (P : row -> Prop) lt1 lt2 :
  (forall a b, P a -> P b -> lt1 a b = lt2 a b) ->
  forall fuel runs, Forall (Forall P) runs -> merge_seq lt1 fuel runs = merge_seq lt2 fuel runs.
Proof.
  intros H. induction fuel as [|fuel IH]; intros runs HP; cbn; [reflexivity|].
  unfold pick_min. rewrite (pick_min_from_ext P lt1 lt2 H runs 0 None HP) by (intros ? ? E; discriminate).
  destruct (pick_min_from lt2 0 runs None) as [[i r]|]; [|reflexivity].
  f_equal. apply IH. apply pop_run_Forall; auto. intros x l Hx; now inversion Hx.
Qed.

(** * Adjacent-duplicate removal with the first-row flag *)

Fixpoint dedup (K : row -> key) (prev : key) (first : bool) (l : list row) : list row :=
  match l with
  | [] => []
  | r :: l' =>
      let '(ok, prev', first') := pk_is_different (K r) prev first in
      if ok then r :: dedup K prev' first' l' else dedup K prev' first' l'
  end.

Section Dedup.
  Variable K : row -> key.
  Notation le := (le K).
  Definition ltk (a b : row) : Prop := kcmp (K a) (K b) = Lt.

  Lemma dedup_false l : forall prev,
    StronglySorted le l -> Forall (fun x => kcmp prev (K x) <> Gt) l ->
    StronglySorted ltk (dedup K prev false l) /\
    Forall (fun x => kcmp prev (K x) = Lt) (dedup K prev false l) /\
    incl (dedup K prev false l) l /\
    (forall x, In x l -> K x = prev \/ exists p, In p (dedup K prev false l) /\ K p = K x).
  Proof.
    induction l as [|r l IH]; intros prev Hs Hp; cbn.
    - split; [constructor|]. split; [constructor|]. split; intros x [].
    - apply StronglySorted_inv in Hs as [Hs Hr]. inversion Hp as [|? ? Hpr Hpl]; subst.
      unfold pk_is_different. destruct (key_eqb prev (K r)) eqn:E.
      + apply key_eqb_eq in E. destruct (IH prev Hs Hpl) as (I1 & I2 & I3 & I4).
        split; [assumption|]. split; [assumption|]. split.
        * intros x Hx. right. now apply I3.
        * intros x [->|Hx]; [left; congruence|]. apply I4; auto.
      + apply key_eqb_neq in E.
        assert (Hlt : kcmp prev (K r) = Lt).
        { destruct (kcmp prev (K r)) eqn:C; try congruence. apply kcmp_eq in C. contradiction. }
        destruct (IH (K r) Hs Hr) as (I1 & I2 & I3 & I4).
        split; [|split; [|split]].
        * constructor; auto.
        * constructor; auto. eapply Forall_impl; [|exact I2]. intros y Hy.
          eapply kcmp_lt_trans; eauto.
        * intros x [->|Hx]; [now left|]. right. now apply I3.
        * intros x [->|Hx].
          -- right. exists x. split; [now left|reflexivity].
          -- destruct (I4 x Hx) as [Ex|(p & Hp1 & Hp2)].
             ++ right. exists r. split; [now left|congruence].
             ++ right. exists p. split; [now right|assumption].
  Qed.

  Lemma dedup_true l prev :
    StronglySorted le l ->
    StronglySorted ltk (dedup K prev true l) /\
    incl (dedup K prev true l) l /\
    (forall x, In x l -> exists p, In p (dedup K prev true l) /\ K p = K x).
  Proof.
    destruct l as [|r l]; intros Hs; cbn.
    - split; [constructor|]. split; intros x [].
    - apply StronglySorted_inv in Hs as [Hs Hr].
      destruct (dedup_false l (K r) Hs Hr) as (I1 & I2 & I3 & I4).
      split; [|split].
      + constructor; auto.
      + intros x [->|Hx]; [now left|]. right. now apply I3.
      + intros x [->|Hx].
        * exists x. split; [now left|reflexivity].
        * destruct (I4 x Hx) as [Ex|(p & Hp1 & Hp2)].
          -- exists r. split; [now left|congruence].
          -- exists p. split; [now right|assumption].
  Qed.
End Dedup.
