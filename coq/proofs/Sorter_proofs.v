(** Proofs about the sorter model (C19; reused by C01/C02/C03). *)
From W.lib Require Import Tree Bytes.
From W.model Require Import Sorter SorterSpec.
From Coq Require Import Arith Lia Sorting.Sorted Sorting.Permutation.
Local Open Scope nat_scope.

(** * Order facts on [kcmp] *)

Lemma kcmp_gt_lt a b : kcmp a b = Gt <-> kcmp b a = Lt.
Proof. rewrite (kcmp_antisym a b). destruct (kcmp a b); cbn; split; congruence. Qed.

Lemma kcmp_le_trans a b c : kcmp a b <> Gt -> kcmp b c <> Gt -> kcmp a c <> Gt.
Proof.
  intros Hab Hbc.
  destruct (kcmp a b) eqn:Eab; try congruence.
  - apply kcmp_eq in Eab; subst; auto.
  - destruct (kcmp b c) eqn:Ebc; try congruence.
    + apply kcmp_eq in Ebc; subst. rewrite Eab. discriminate.
    + rewrite (kcmp_lt_trans _ _ _ Eab Ebc). discriminate.
Qed.

Lemma kcmp_lt_le_trans a b c : kcmp a b = Lt -> kcmp b c <> Gt -> kcmp a c = Lt.
Proof.
  intros Hab Hbc. destruct (kcmp b c) eqn:Ebc; try congruence.
  - apply kcmp_eq in Ebc; subst; auto.
  - eapply kcmp_lt_trans; eauto.
Qed.

Lemma kcmp_le_lt_trans a b c : kcmp a b <> Gt -> kcmp b c = Lt -> kcmp a c = Lt.
Proof.
  intros Hab Hbc. destruct (kcmp a b) eqn:Eab; try congruence.
  - apply kcmp_eq in Eab; subst; auto.
  - eapply kcmp_lt_trans; eauto.
Qed.

Lemma klt_false_le a b : klt a b = false <-> kcmp b a <> Gt.
Proof.
  unfold klt. rewrite (kcmp_antisym a b). destruct (kcmp a b); cbn; split; congruence.
Qed.

Lemma klt_true_lt a b : klt a b = true <-> kcmp a b = Lt.
Proof. unfold klt. destruct (kcmp a b); split; congruence. Qed.

Lemma key_eqb_eq a b : key_eqb a b = true <-> a = b.
Proof.
  unfold key_eqb, keqb. split.
  - intros H. apply andb_prop in H as [H _]. destruct (kcmp a b) eqn:E; try discriminate.
    now apply kcmp_eq.
  - intros ->. rewrite kcmp_refl, Nat.eqb_refl. reflexivity.
Qed.

Lemma key_eqb_neq a b : key_eqb a b = false <-> a <> b.
Proof.
  split.
  - intros H E. apply key_eqb_eq in E. congruence.
  - intros H. destruct (key_eqb a b) eqn:E; auto. apply key_eqb_eq in E. contradiction.
Qed.

(** * The comparison loops are the key order *)

Lemma ssl_pk_klt pk a b : ssl_pk pk a b = klt (key_of pk a) (key_of pk b).
Proof.
  induction pk as [|u pk IH]; cbn; [reflexivity|].
  unfold blt, bgt, klt. cbn. destruct (bcmp (nth u a []) (nth u b [])); auto.
Qed.

Lemma sll_cols_klt cols a b : sll_cols cols a b = klt (key_of cols a) (key_of cols b).
Proof.
  induction cols as [|u cols IH]; cbn; [reflexivity|].
  unfold klt. cbn. destruct (bcmp (nth u a []) (nth u b [])); auto.
Qed.

Lemma ssl_all_klt a b : length a = length b -> ssl_all a b = klt a b.
Proof.
  revert b; induction a as [|x a IH]; intros [|y b] Hl; cbn in *; try discriminate; [reflexivity|].
  unfold blt, bgt, klt. cbn. destruct (bcmp x y) eqn:E; auto.
  rewrite IH by lia. reflexivity.
Qed.

Lemma key_of_seq_gen (p r : row) :
  map (fun i => nth i (p ++ r) []) (seq (length p) (length r)) = r.
Proof.
  revert p; induction r as [|c r IH]; intros p; cbn; [reflexivity|].
  f_equal.
  - rewrite app_nth2 by lia. now rewrite Nat.sub_diag.
  - specialize (IH (p ++ [c])). rewrite app_length in IH. cbn in IH.
    rewrite Nat.add_1_r in IH. rewrite <- app_assoc in IH. exact IH.
Qed.

Lemma key_of_seq r : key_of (seq 0 (length r)) r = r.
Proof. exact (key_of_seq_gen [] r). Qed.

Lemma pk_indices_nonempty ncols u pk : pk_indices ncols (u :: pk) = u :: pk.
Proof. reflexivity. Qed.

Lemma ssl_dkey ncols pk a b :
  length a = ncols -> length b = ncols ->
  string_slice_is_less pk a b = klt (dkey ncols pk a) (dkey ncols pk b).
Proof.
  intros Ha Hb. unfold dkey. destruct pk as [|u pk].
  - cbn [string_slice_is_less pk_indices]. rewrite ssl_all_klt by congruence.
    rewrite <- Ha at 1. rewrite key_of_seq. rewrite <- Hb. now rewrite key_of_seq.
  - cbn [string_slice_is_less pk_indices]. apply ssl_pk_klt.
Qed.

Lemma sll_dkey ncols pk a b :
  length a = ncols -> length b = ncols ->
  strlist_less_than pk a b = klt (dkey ncols pk a) (dkey ncols pk b).
Proof.
  intros Ha Hb. unfold dkey. destruct pk as [|u pk].
  - cbn [strlist_less_than pk_indices]. rewrite sll_cols_klt. now rewrite Ha.
  - cbn [strlist_less_than pk_indices]. apply sll_cols_klt.
Qed.

(** * k-way merge, abstractly *)

Definition heads (runs : list (list row)) : list row :=
  flat_map (fun r => match r with [] => [] | x :: _ => [x] end) runs.

Fixpoint merge_seq (lt : row -> row -> bool) (fuel : nat) (runs : list (list row)) : list row :=
  match fuel with
  | O => []
  | S fuel' =>
      match pick_min lt runs with
      | None => []
      | Some (i, r) => r :: merge_seq lt fuel' (pop_run i runs)
      end
  end.

Section Merge.
  Variable K : row -> key.
  Variable P : row -> Prop.
  Variable lt : row -> row -> bool.
  Hypothesis Hlt : forall a b, P a -> P b -> lt a b = klt (K a) (K b).

  Definition le (a b : row) : Prop := kcmp (K a) (K b) <> Gt.

  Lemma le_refl a : le a a.
  Proof. unfold le. rewrite kcmp_refl. discriminate. Qed.
  Lemma le_trans a b c : le a b -> le b c -> le a c.
  Proof. unfold le. apply kcmp_le_trans. Qed.

  Lemma pick_min_from_none runs : forall i best,
    pick_min_from lt i runs best = None <-> best = None /\ Forall (fun r => r = []) runs.
  Proof.
    induction runs as [|run runs IH]; intros i best; cbn.
    - split; [intros ->; auto | tauto].
    - destruct run as [|x run].
      + rewrite IH. split; intros [H1 H2]; split; auto.
        inversion H2; auto.
      + assert (Hno : ~ Forall (fun r : list row => r = []) ((x :: run) :: runs)).
        { intros H; inversion H; discriminate. }
        destruct best as [[j m]|].
        * destruct (lt x m); rewrite IH; split; intros [H1 H2]; try discriminate; contradiction.
        * rewrite IH. split; intros [H1 H2]; try discriminate; contradiction.
  Qed.

  Lemma pick_min_from_spec runs : forall i best j r,
    Forall (Forall P) runs -> (forall j0 m, best = Some (j0, m) -> P m) ->
    pick_min_from lt i runs best = Some (j, r) ->
    (best = Some (j, r) \/ (exists tl, i <= j /\ nth_error runs (j - i) = Some (r :: tl))) /\
    Forall (le r) (heads runs) /\ (forall j0 m, best = Some (j0, m) -> le r m) /\ P r.
  Proof.
    induction runs as [|run runs IH]; intros i best j r HP Hb Hpick; cbn in Hpick.
    - subst best. split; [now left|]. split; [constructor|]. split.
      + intros j0 m E; inversion E; subst. apply le_refl.
      + eapply Hb; eauto.
    - inversion HP as [|? ? HPrun HPruns]; subst.
      destruct run as [|x run].
      + destruct (IH _ _ _ _ HPruns Hb Hpick) as (H1 & H2 & H3 & H4).
        repeat split; auto.
        destruct H1 as [H1|(tl & Hle & Hn)]; [now left|right].
        exists tl. split; [lia|]. replace (j - i) with (S (j - S i)) by lia. exact Hn.
      + inversion HPrun as [|? ? HPx _]; subst.
        destruct best as [[j0 m]|].
        * assert (HPm : P m) by (eapply Hb; eauto).
          destruct (lt x m) eqn:Elt.
          -- assert (Hb' : forall j1 m1, Some (i, x) = Some (j1, m1) -> P m1)
               by (intros ? ? E; inversion E; subst; auto).
             destruct (IH _ _ _ _ HPruns Hb' Hpick) as (H1 & H2 & H3 & H4).
             assert (Hrx : le r x) by (eapply H3; eauto).
             rewrite Hlt in Elt by auto. apply klt_true_lt in Elt.
             assert (Hrm : le r m).
             { unfold le in *. intro G. apply kcmp_gt_lt in G.
               assert (kcmp (K x) (K r) = Lt \/ True) by auto.
               pose proof (kcmp_le_lt_trans _ _ _ Hrx Elt) as L. apply kcmp_gt_lt in G.
               rewrite L in G. discriminate. }
             repeat split; auto.
             ++ destruct H1 as [H1|(tl & Hle & Hn)].
                ** inversion H1; subst. right. exists run. split; [lia|]. now rewrite Nat.sub_diag.
                ** right. exists tl. split; [lia|]. replace (j - i) with (S (j - S i)) by lia. exact Hn.
             ++ cbn. constructor; auto.
             ++ intros j1 m1 E; inversion E; subst; auto.
          -- destruct (IH _ _ _ _ HPruns Hb Hpick) as (H1 & H2 & H3 & H4).
             assert (Hrm : le r m) by (eapply H3; eauto).
             rewrite Hlt in Elt by auto. apply klt_false_le in Elt.
             assert (Hrx : le r x) by (eapply le_trans; eauto).
             repeat split; auto.
             ++ destruct H1 as [H1|(tl & Hle & Hn)]; [now left|right].
                exists tl. split; [lia|]. replace (j - i) with (S (j - S i)) by lia. exact Hn.
             ++ cbn. constructor; auto.
        * assert (Hb' : forall j1 m1, Some (i, x) = Some (j1, m1) -> P m1)
            by (intros ? ? E; inversion E; subst; auto).
          destruct (IH _ _ _ _ HPruns Hb' Hpick) as (H1 & H2 & H3 & H4).
          assert (Hrx : le r x) by (eapply H3; eauto).
          repeat split; auto.
          -- destruct H1 as [H1|(tl & Hle & Hn)].
             ++ inversion H1; subst. right. exists run. split; [lia|]. now rewrite Nat.sub_diag.
             ++ right. exists tl. split; [lia|]. replace (j - i) with (S (j - S i)) by lia. exact Hn.
          -- cbn. constructor; auto.
          -- intros ? ? E; discriminate.
  Qed.

  Lemma pick_min_spec runs i r :
    Forall (Forall P) runs -> pick_min lt runs = Some (i, r) ->
    (exists tl, nth_error runs i = Some (r :: tl)) /\ Forall (le r) (heads runs) /\ P r.
  Proof.
    intros HP Hp. unfold pick_min in Hp.
    destruct (pick_min_from_spec runs 0 None i r HP) as (H1 & H2 & _ & H4); auto.
    - intros ? ? E; discriminate.
    - destruct H1 as [H1|(tl & _ & Hn)]; [discriminate|].
      rewrite Nat.sub_0_r in Hn. eauto.
  Qed.

  Lemma pick_min_none runs : pick_min lt runs = None <-> Forall (fun r => r = []) runs.
  Proof. unfold pick_min. rewrite pick_min_from_none. tauto. Qed.
End Merge.

Lemma concat_all_nil (runs : list (list row)) : Forall (fun r => r = []) runs -> concat runs = [].
Proof. induction 1; cbn; subst; auto. Qed.

Lemma pop_run_split a (r : row) tl b :
  pop_run (length a) (a ++ (r :: tl) :: b) = a ++ tl :: b.
Proof. induction a as [|x a IH]; cbn; [reflexivity|]. now rewrite IH. Qed.

Lemma nth_error_split_run (runs : list (list row)) i run :
  nth_error runs i = Some run -> exists a b, runs = a ++ run :: b /\ length a = i.
Proof. apply nth_error_split. Qed.

Lemma pop_run_perm runs i r tl :
  nth_error runs i = Some (r :: tl) ->
  Permutation (concat runs) (r :: concat (pop_run i runs)).
Proof.
  intros Hn. destruct (nth_error_split_run _ _ _ Hn) as (a & b & -> & <-).
  rewrite pop_run_split. rewrite !concat_app. cbn.
  symmetry. apply Permutation_middle.
Qed.

Lemma pop_run_total runs i r tl :
  nth_error runs i = Some (r :: tl) -> total_rows runs = S (total_rows (pop_run i runs)).
Proof.
  intros Hn. unfold total_rows. rewrite (Permutation_length (pop_run_perm _ _ _ _ Hn)). reflexivity.
Qed.

Lemma pop_run_Forall (Q : list row -> Prop) runs i :
  (forall x l, Q (x :: l) -> Q l) -> Q [] ->
  Forall Q runs -> Forall Q (pop_run i runs).
Proof.
  intros Htl Hnil. revert i; induction runs as [|run runs IH]; intros i H; cbn; [constructor|].
  inversion H; subst. destruct i.
  - constructor; [|assumption]. destruct run; cbn; eauto.
  - constructor; [assumption|]. apply IH; assumption.
Qed.

Section MergeSorted.
  Variable K : row -> key.
  Variable P : row -> Prop.
  Variable lt : row -> row -> bool.
  Hypothesis Hlt : forall a b, P a -> P b -> lt a b = klt (K a) (K b).
  Notation le := (le K).

  Lemma merge_seq_perm fuel : forall runs,
    Forall (Forall P) runs -> total_rows runs < fuel ->
    Permutation (merge_seq lt fuel runs) (concat runs).
  Proof.
    induction fuel as [|fuel IH]; intros runs HP Hf; [lia|]. cbn.
    destruct (pick_min lt runs) as [[i r]|] eqn:Ep.
    - destruct (pick_min_spec K P lt Hlt runs i r HP Ep) as ((tl & Hn) & _ & _).
      rewrite (pop_run_perm _ _ _ _ Hn). constructor. apply IH.
      + apply pop_run_Forall; auto. intros x l H; now inversion H.
      + rewrite (pop_run_total _ _ _ _ Hn) in Hf. lia.
    - apply pick_min_none in Ep. now rewrite concat_all_nil.
  Qed.

  Lemma heads_le_all runs r :
    Forall (StronglySorted le) runs -> Forall (le r) (heads runs) -> Forall (le r) (concat runs).
  Proof.
    induction runs as [|run runs IH]; intros Hs Hh; cbn; [constructor|].
    inversion Hs as [|? ? Hrun Hruns]; subst. apply Forall_app. split.
    - destruct run as [|x run]; [constructor|]. cbn in Hh. inversion Hh as [|? ? Hrx _]; subst.
      constructor; auto. apply StronglySorted_inv in Hrun as [_ Hx].
      eapply Forall_impl; [|exact Hx]. intros y Hy. eapply le_trans; eauto.
    - apply IH; auto. destruct run; cbn in Hh; auto. now inversion Hh.
  Qed.

  Lemma merge_seq_sorted fuel : forall runs,
    Forall (Forall P) runs -> Forall (StronglySorted le) runs -> total_rows runs < fuel ->
    StronglySorted le (merge_seq lt fuel runs).
  Proof.
    induction fuel as [|fuel IH]; intros runs HP Hs Hf; [lia|]. cbn.
    destruct (pick_min lt runs) as [[i r]|] eqn:Ep; [|constructor].
    destruct (pick_min_spec K P lt Hlt runs i r HP Ep) as ((tl & Hn) & Hh & _).
    assert (HP' : Forall (Forall P) (pop_run i runs)).
    { apply pop_run_Forall; auto. intros x l H; now inversion H. }
    assert (Hf' : total_rows (pop_run i runs) < fuel).
    { rewrite (pop_run_total _ _ _ _ Hn) in Hf. lia. }
    constructor.
    - apply IH; auto. apply pop_run_Forall; auto; [|constructor].
      intros x l H. now apply StronglySorted_inv in H.
    - pose proof (heads_le_all runs r Hs Hh) as Hall.
      rewrite (pop_run_perm _ _ _ _ Hn) in Hall. inversion Hall; subst.
      rewrite (merge_seq_perm fuel _ HP' Hf'). assumption.
  Qed.
End MergeSorted.

(** two comparison functions that agree on the rows give the same merge *)
Lemma pick_min_from_ext (P : row -> Prop) lt1 lt2 :
  (forall a b, P a -> P b -> lt1 a b = lt2 a b) ->
  forall runs i best, Forall (Forall P) runs -> (forall j m, best = Some (j, m) -> P m) ->
  pick_min_from lt1 i runs best = pick_min_from lt2 i runs best.
Proof.
  intros H. induction runs as [|run runs IH]; intros i best HP Hb; cbn; [reflexivity|].
  inversion HP as [|? ? HPrun HPruns]; subst.
  destruct run as [|x run]; [apply IH; auto|].
  inversion HPrun; subst.
  assert (Hb' : forall j1 m1, Some (i, x) = Some (j1, m1) -> P m1)
    by (intros ? ? E; inversion E; subst; auto).
  destruct best as [[j m]|]; [|apply IH; auto].
  rewrite H by (auto; eapply Hb; eauto).
  destruct (lt2 x m); apply IH; auto.
Qed.

Lemma merge_seq_ext (P : row -> Prop) lt1 lt2 :
  (forall a b, P a -> P b -> lt1 a b = lt2 a b) ->
  forall fuel runs, Forall (Forall P) runs -> merge_seq lt1 fuel runs = merge_seq lt2 fuel runs.
Proof.
  intros H. induction fuel as [|fuel IH]; intros runs HP; cbn; [reflexivity|].
  unfold pick_min. rewrite (pick_min_from_ext P lt1 lt2 H runs 0 None HP) by (intros ? ? E; discriminate).
  destruct (pick_min_from lt2 0 runs None) as [[i r]|]; [|reflexivity].
  f_equal. apply IH. apply pop_run_Forall; auto. intros x l Hx; now inversion Hx.
Qed.

(** * Adjacent-duplicate removal with the first-row flag *)

Fixpoint dedup (K : row -> key) (prev : key) (first : bool) (l : list row) : list row :=
  match l with
  | [] => []
  | r :: l' =>
      let '(ok, prev', first') := pk_is_different (K r) prev first in
      if ok then r :: dedup K prev' first' l' else dedup K prev' first' l'
  end.

Section Dedup.
  Variable K : row -> key.
  Notation le := (le K).
  Definition ltk (a b : row) : Prop := kcmp (K a) (K b) = Lt.

  Lemma dedup_false l : forall prev,
    StronglySorted le l -> Forall (fun x => kcmp prev (K x) <> Gt) l ->
    StronglySorted ltk (dedup K prev false l) /\
    Forall (fun x => kcmp prev (K x) = Lt) (dedup K prev false l) /\
    incl (dedup K prev false l) l /\
    (forall x, In x l -> K x = prev \/ exists p, In p (dedup K prev false l) /\ K p = K x).
  Proof.
    induction l as [|r l IH]; intros prev Hs Hp; cbn.
    - split; [constructor|]. split; [constructor|]. split; intros x [].
    - apply StronglySorted_inv in Hs as [Hs Hr]. inversion Hp as [|? ? Hpr Hpl]; subst.
      unfold pk_is_different. destruct (key_eqb prev (K r)) eqn:E.
      + apply key_eqb_eq in E. destruct (IH prev Hs Hpl) as (I1 & I2 & I3 & I4).
        split; [assumption|]. split; [assumption|]. split.
        * intros x Hx. right. now apply I3.
        * intros x [->|Hx]; [left; congruence|]. apply I4; auto.
      + apply key_eqb_neq in E.
        assert (Hlt : kcmp prev (K r) = Lt).
        { destruct (kcmp prev (K r)) eqn:C; try congruence. apply kcmp_eq in C. contradiction. }
        destruct (IH (K r) Hs Hr) as (I1 & I2 & I3 & I4).
        split; [|split; [|split]].
        * constructor; auto.
        * constructor; auto. eapply Forall_impl; [|exact I2]. intros y Hy.
          eapply kcmp_lt_trans; eauto.
        * intros x [->|Hx]; [now left|]. right. now apply I3.
        * intros x [->|Hx].
          -- right. exists x. split; [now left|reflexivity].
          -- destruct (I4 x Hx) as [Ex|(p & Hp1 & Hp2)].
             ++ right. exists r. split; [now left|congruence].
             ++ right. exists p. split; [now right|assumption].
  Qed.

  Lemma dedup_true l prev :
    StronglySorted le l ->
    StronglySorted ltk (dedup K prev true l) /\
    incl (dedup K prev true l) l /\
    (forall x, In x l -> exists p, In p (dedup K prev true l) /\ K p = K x).
  Proof.
    destruct l as [|r l]; intros Hs; cbn.
    - split; [constructor|]. split; intros x [].
    - apply StronglySorted_inv in Hs as [Hs Hr].
      destruct (dedup_false l (K r) Hs Hr) as (I1 & I2 & I3 & I4).
      split; [|split].
      + constructor; auto.
      + intros x [->|Hx]; [now left|]. right. now apply I3.
      + intros x [->|Hx].
        * exists x. split; [now left|reflexivity].
        * destruct (I4 x Hx) as [Ex|(p & Hp1 & Hp2)].
          -- exists r. split; [now left|congruence].
          -- exists p. split; [now right|assumption].
  Qed.
End Dedup.

(** * The loops are merge ; dedup ; cut into blocks *)

Lemma pick_min_from_nth lt runs : forall i best j r,
  pick_min_from lt i runs best = Some (j, r) ->
  best = Some (j, r) \/ exists tl, i <= j /\ nth_error runs (j - i) = Some (r :: tl).
Proof.
  induction runs as [|run runs IH]; intros i best j r Hp; cbn in Hp; [now left|].
  assert (Hshift : forall tl, S i <= j -> nth_error runs (j - S i) = Some (r :: tl) ->
                              i <= j /\ nth_error (run :: runs) (j - i) = Some (r :: tl)).
  { intros tl Hle Hn. split; [lia|]. replace (j - i) with (S (j - S i)) by lia. exact Hn. }
  destruct run as [|x run].
  - destruct (IH _ _ _ _ Hp) as [H|(tl & Hle & Hn)]; [now left|right; exists tl; auto].
  - assert (Hx : pick_min_from lt (S i) runs (Some (i, x)) = Some (j, r) ->
                 exists tl, i <= j /\ nth_error ((x :: run) :: runs) (j - i) = Some (r :: tl)).
    { intros Hq. destruct (IH _ _ _ _ Hq) as [H|(tl & Hle & Hn)].
      - inversion H; subst. exists run. split; [lia|]. now rewrite Nat.sub_diag.
      - exists tl; auto. }
    destruct best as [[j0 m]|].
    + destruct (lt x m).
      * right. auto.
      * destruct (IH _ _ _ _ Hp) as [H|(tl & Hle & Hn)]; [now left|right; exists tl; auto].
    + right. auto.
Qed.

Lemma pick_min_nth lt runs i r :
  pick_min lt runs = Some (i, r) -> exists tl, nth_error runs i = Some (r :: tl).
Proof.
  intros Hp. destruct (pick_min_from_nth lt runs 0 None i r Hp) as [H|(tl & _ & Hn)]; [discriminate|].
  rewrite Nat.sub_0_r in Hn. eauto.
Qed.

Section LoopEq.
  Variable ncols : nat.
  Variable pk rem : list nat.
  Notation K := (dkey ncols pk).
  Notation f := (remove_cols rem).

  Fixpoint blocks_from (off : nat) (blk : list row) (blkPK : key) (l : list row) : list sblock :=
    match l with
    | [] => match blk with [] => [] | _ => [mk_sblock off blk blkPK] end
    | r :: l' =>
        let blk' := blk ++ [f r] in
        let blkPK' := if Nat.eqb (length blk) 0 then K r else blkPK in
        if Nat.eqb (length blk') block_size then mk_sblock off blk' blkPK' :: blocks_from (S off) [] [] l'
        else blocks_from off blk' blkPK' l'
    end.

  Fixpoint rows_from (off : nat) (rows : list row) (l : list row) : list srows :=
    match l with
    | [] => match rows with [] => [] | _ => [mk_srows off rows] end
    | r :: l' =>
        let rows' := rows ++ [f r] in
        if Nat.eqb (length rows') block_size then mk_srows off rows' :: rows_from (S off) [] l'
        else rows_from off rows' l'
    end.

  Lemma sb_loop_eq fuel : forall runs blk blkPK prev first off,
    length blk < block_size -> total_rows runs < fuel ->
    sb_loop ncols pk rem fuel runs blk blkPK prev first off =
    Some (blocks_from off blk blkPK (dedup K prev first (merge_seq (strlist_less_than pk) fuel runs))).
  Proof.
    induction fuel as [|fuel IH]; intros runs blk blkPK prev first off Hblk Hf; [lia|].
    cbn [sb_loop merge_seq].
    destruct (pick_min (strlist_less_than pk) runs) as [[i r]|] eqn:Ep.
    - destruct (pick_min_nth _ _ _ _ Ep) as (tl & Hn).
      assert (Hf' : total_rows (pop_run i runs) < fuel).
      { rewrite (pop_run_total _ _ _ _ Hn) in Hf. lia. }
      cbn [dedup]. fold (K r).
      destruct (pk_is_different (K r) prev first) as [[ok prev'] first'].
      destruct ok; cbn [andb].
      + cbn [blocks_from].
        destruct (Nat.eqb (length (blk ++ [f r])) block_size) eqn:E.
        * rewrite IH; auto. unfold block_size; cbn; lia.
        * apply IH; auto. apply Nat.eqb_neq in E. rewrite app_length in *. cbn in *.
          unfold block_size in *. lia.
      + assert (E : Nat.eqb (length blk) block_size = false) by (apply Nat.eqb_neq; lia).
        rewrite E. apply IH; auto.
    - reflexivity.
  Qed.

  Lemma sr_loop_eq fuel : forall runs rows prev first off,
    length rows < block_size -> total_rows runs < fuel ->
    sr_loop ncols pk rem fuel runs rows prev first off =
    Some (rows_from off rows (dedup K prev first (merge_seq (string_slice_is_less pk) fuel runs))).
  Proof.
    induction fuel as [|fuel IH]; intros runs rows prev first off Hblk Hf; [lia|].
    cbn [sr_loop merge_seq].
    destruct (pick_min (string_slice_is_less pk) runs) as [[i r]|] eqn:Ep.
    - destruct (pick_min_nth _ _ _ _ Ep) as (tl & Hn).
      assert (Hf' : total_rows (pop_run i runs) < fuel).
      { rewrite (pop_run_total _ _ _ _ Hn) in Hf. lia. }
      cbn [dedup]. fold (K r).
      destruct (pk_is_different (K r) prev first) as [[ok prev'] first'].
      destruct ok.
      + cbn [rows_from].
        destruct (Nat.eqb (length (rows ++ [f r])) block_size) eqn:E.
        * rewrite IH; auto. unfold block_size; cbn; lia.
        * apply IH; auto. apply Nat.eqb_neq in E. rewrite app_length in *. cbn in *.
          unfold block_size in *. lia.
      + assert (E : Nat.eqb (length rows) block_size = false) by (apply Nat.eqb_neq; lia).
        rewrite E. apply IH; auto.
    - reflexivity.
  Qed.

  Lemma rows_from_blocks_from l : forall off blk blkPK,
    rows_from off blk l = map (fun b => mk_srows (b_offset b) (b_rows b)) (blocks_from off blk blkPK l).
  Proof.
    induction l as [|r l IH]; intros off blk blkPK; cbn.
    - destruct blk; reflexivity.
    - destruct (Nat.eqb (length (blk ++ [f r])) block_size); cbn; [f_equal|]; apply IH.
  Qed.

  Lemma blocks_from_chunked l : forall off pre blkPK,
    length pre < block_size -> (pre <> [] -> blkPK = K (hd [] pre)) ->
    chunked ncols pk rem off (pre ++ l) (blocks_from off (map f pre) blkPK l).
  Proof.
    induction l as [|r l IH]; intros off pre blkPK Hlen Hpk.
    - rewrite app_nil_r. cbn. destruct pre as [|p pre]; cbn [map].
      + constructor.
      + rewrite Hpk by discriminate. apply ch_last; [discriminate|]. apply Nat.lt_le_incl. exact Hlen.
    - cbn [blocks_from].
      assert (Emap : map f pre ++ [f r] = map f (pre ++ [r])) by (now rewrite map_app).
      assert (EK : (if Nat.eqb (length (map f pre)) 0 then K r else blkPK) = K (hd [] (pre ++ [r]))).
      { destruct pre as [|p pre]; cbn; [reflexivity|]. apply Hpk. discriminate. }
      rewrite Emap, EK.
      replace (pre ++ r :: l) with ((pre ++ [r]) ++ l) by (now rewrite <- app_assoc).
      destruct (Nat.eqb (length (map f (pre ++ [r]))) block_size) eqn:E.
      + apply Nat.eqb_eq in E. rewrite map_length in E.
        destruct l as [|r2 l].
        * cbn. rewrite app_nil_r. apply ch_last.
          -- destruct pre; discriminate.
          -- apply Nat.eq_le_incl. exact E.
        * apply ch_full; auto; [discriminate|].
          apply (IH (S off) [] []); [cbn; unfold block_size; lia|]. intros H; contradiction.
      + apply Nat.eqb_neq in E. rewrite map_length in E. apply IH.
        * unfold row in *. rewrite app_length in *. cbn [length] in *. unfold block_size in *. lia.
        * intros _. reflexivity.
  Qed.

  Lemma chunked_concat off l bs :
    chunked ncols pk rem off l bs -> concat (map b_rows bs) = map f l.
  Proof.
    induction 1; cbn.
    - reflexivity.
    - now rewrite app_nil_r.
    - rewrite IHchunked. now rewrite map_app.
  Qed.
End LoopEq.

(** * Key columns survive the removal of other columns *)

Lemma nth_remove_from rem (r : row) : forall i u,
  existsb (Nat.eqb (i + u)) rem = false ->
  nth (length (filter (fun j => negb (existsb (Nat.eqb j) rem)) (seq i u))) (remove_from i rem r) []
  = nth u r [].
Proof.
  induction r as [|c r IH]; intros i u Hu.
  - cbn. destruct u; destruct (length _); reflexivity.
  - destruct u as [|u].
    + cbn. rewrite Nat.add_0_r in Hu. rewrite Hu. reflexivity.
    + cbn [seq filter remove_from].
      replace (i + S u) with (S i + u) in Hu by lia.
      destruct (existsb (Nat.eqb i) rem) eqn:Ei; cbn [negb].
      * rewrite (IH (S i) u Hu). reflexivity.
      * cbn [length nth]. rewrite (IH (S i) u Hu). reflexivity.
Qed.

Lemma key_of_removed rem idx (r : row) :
  (forall u, In u idx -> ~ In u rem) ->
  key_of (map (shift_idx rem) idx) (remove_cols rem r) = key_of idx r.
Proof.
  intros H. unfold key_of. rewrite map_map. apply map_ext_in. intros u Hu.
  unfold shift_idx, remove_cols. apply (nth_remove_from rem r 0 u). cbn.
  destruct (existsb (Nat.eqb u) rem) eqn:E; auto.
  apply existsb_exists in E as (x & Hx & Ex). apply Nat.eqb_eq in Ex. subst.
  exfalso. eapply H; eauto.
Qed.

(** * AddRow: totality, partition into runs *)

Lemma cell_too_long_false r :
  Forall (fun c => (blen c <= max_str_len)%N) r -> cell_too_long r = false.
Proof.
  intros H. unfold cell_too_long. destruct (existsb _ r) eqn:E; auto.
  apply existsb_exists in E as (c & Hc & Ec). rewrite Forall_forall in H.
  specialize (H c Hc). apply N.ltb_lt in Ec. lia.
Qed.

Lemma cell_too_long_true r :
  Exists (fun c => (max_str_len < blen c)%N) r -> cell_too_long r = true.
Proof.
  intros H. unfold cell_too_long. apply existsb_exists. apply Exists_exists in H as (c & Hc & Ec).
  exists c. split; auto. now apply N.ltb_lt.
Qed.

Section AddRows.
  Variable sort_rows : list nat -> list row -> list row.
  Variable run_size : N.
  Variable pk : list nat.
  Notation add_row := (add_row sort_rows run_size pk).
  Notation add_rows := (add_rows sort_rows run_size pk).

  Definition parts_inv (rows : list row) (s : sorter) : Prop :=
    exists parts, concat parts ++ s_current s = rows /\ s_chunks s = map (sort_rows pk) parts.

  Lemma add_row_parts rows s r s' :
    parts_inv rows s -> add_row s r = Some s' -> parts_inv (rows ++ [r]) s'.
  Proof.
    intros (parts & Hc & Hm) H. unfold Sorter.add_row in H.
    destruct (cell_too_long r); [discriminate|].
    destruct (run_size <=? s_size s + row_size r)%N; inversion H; subst; clear H; cbn.
    - exists (parts ++ [s_current s ++ [r]]). split.
      + rewrite concat_app. cbn [concat]. rewrite !app_nil_r. repeat rewrite <- app_assoc. reflexivity.
      + rewrite map_app, Hm. reflexivity.
    - exists parts. split; auto. repeat rewrite <- app_assoc. reflexivity.
  Qed.

  Lemma add_rows_parts rows : forall rows0 s s',
    parts_inv rows0 s -> add_rows s rows = Some s' -> parts_inv (rows0 ++ rows) s'.
  Proof.
    induction rows as [|r rows IH]; intros rows0 s s' Hi H; cbn in H.
    - inversion H; subst. now rewrite app_nil_r.
    - destruct (add_row s r) as [s1|] eqn:E; [|discriminate].
      replace (rows0 ++ r :: rows) with ((rows0 ++ [r]) ++ rows) by (now rewrite <- app_assoc).
      eapply IH; eauto. eapply add_row_parts; eauto.
  Qed.

  Lemma add_rows_total rows : forall s,
    cells_in_limit rows -> exists s', add_rows s rows = Some s'.
  Proof.
    induction rows as [|r rows IH]; intros s Hc; cbn; [eauto|].
    inversion Hc; subst. unfold Sorter.add_row. rewrite cell_too_long_false by assumption.
    destruct (run_size <=? s_size s + row_size r)%N; apply IH; auto.
  Qed.

  Lemma add_rows_refused rows : forall s,
    Exists (fun r => Exists (fun c => (max_str_len < blen c)%N) r) rows -> add_rows s rows = None.
  Proof.
    induction rows as [|r rows IH]; intros s H; [inversion H|]. cbn.
    destruct (add_row s r) as [s1|] eqn:E; [|reflexivity].
    inversion H; subst.
    - unfold Sorter.add_row in E. rewrite cell_too_long_true in E by assumption. discriminate.
    - apply IH; auto.
  Qed.

  (** the runs the merge reads are the sorted images of a partition of the input *)
  Lemma add_rows_partition rows s :
    add_rows new_sorter rows = Some s ->
    exists parts, concat parts = rows /\ runs_of sort_rows pk s = map (sort_rows pk) parts.
  Proof.
    intros H. destruct (add_rows_parts rows [] new_sorter s) as (parts & Hc & Hm); auto.
    - exists []. split; reflexivity.
    - cbn in Hc. exists (parts ++ [s_current s]). split.
      + rewrite concat_app. cbn. now rewrite app_nil_r.
      + unfold runs_of. rewrite map_app, Hm. reflexivity.
  Qed.
End AddRows.

Lemma wf_rows_concat ncols (parts : list (list row)) :
  wf_rows ncols (concat parts) -> Forall (wf_rows ncols) parts.
Proof.
  induction parts as [|p parts IH]; cbn; intros H; [constructor|].
  apply Forall_app in H as [H1 H2]. constructor; auto.
Qed.

Lemma sorted_parts ncols sort_rows pk parts :
  sort_ok ncols sort_rows -> wf_pk ncols pk -> Forall (wf_rows ncols) parts ->
  Permutation (concat (map (sort_rows pk) parts)) (concat parts) /\
  Forall (run_sorted pk) (map (sort_rows pk) parts).
Proof.
  intros Hs Hpk. induction 1 as [|p parts Hp _ IH]; cbn; [split; constructor|].
  destruct IH as [IH1 IH2]. destruct (Hs pk p Hpk Hp) as [S1 S2]. split.
  - now apply Permutation_app.
  - constructor; auto.
Qed.

(** * Chunk-file cleanup *)

Lemma remove_first_head x l : remove_first x (x :: l) = Some l.
Proof. cbn. now rewrite Nat.eqb_refl. Qed.

Lemma run_cleanups_self cl : run_cleanups cl cl = Some [].
Proof. induction cl as [|x cl IH]; cbn; [reflexivity|]. now rewrite Nat.eqb_refl. Qed.

Lemma run_cleanups_ignore_self cl : run_cleanups_ignore cl cl = [].
Proof. induction cl as [|x cl IH]; cbn; [reflexivity|]. now rewrite Nat.eqb_refl. Qed.

Lemma run_cleanups_ignore_nil cl : run_cleanups_ignore cl [] = [].
Proof. induction cl as [|x cl IH]; cbn; auto. Qed.

Lemma run_cleanups_nil cl l : run_cleanups cl [] = Some l -> l = [].
Proof. destruct cl; cbn; congruence. Qed.

(** invariant: before Close the live files are exactly the pending cleanups; after Close none *)
Definition cleanup_inv (closed : bool) (s : sorter) : Prop :=
  if closed then s_live s = [] else s_live s = s_cleanups s.

(** what the property demands of a history's trace *)
Fixpoint trace_clean (closed : bool) (ops : list sop) (tr : list (bool * nat)) : Prop :=
  match ops, tr with
  | [], [] => True
  | o :: ops', (ok, live) :: tr' =>
      match o with
      | OpAdd _ => trace_clean closed ops' tr'
      | OpReset => ok = true /\ live = 0 /\ trace_clean false ops' tr'
      | OpClose => (closed = false -> ok = true) /\ live = 0 /\ trace_clean true ops' tr'
      end
  | _, _ => False
  end.

Lemma cleanup_trace sort_rows run_size pk ops : forall closed s,
  cleanup_inv closed s -> well_used closed ops ->
  trace_clean closed ops (sop_trace sort_rows run_size pk s ops).
Proof.
  induction ops as [|o ops IH]; intros closed s Hi Hw; cbn; [exact I|].
  destruct o as [r| |]; cbn in Hw |- *.
  - destruct Hw as [-> Hw]. cbn in Hi.
    destruct (add_row sort_rows run_size pk s r) as [s'|] eqn:E; cbn.
    + apply IH; auto. unfold add_row in E. destruct (cell_too_long r); [discriminate|].
      destruct (run_size <=? s_size s + row_size r)%N; inversion E; subst; cbn; congruence.
    + apply IH; auto.
  - assert (Hl : s_live (reset s) = []).
    { cbn. destruct closed; cbn in Hi; rewrite Hi.
      - apply run_cleanups_ignore_nil.
      - apply run_cleanups_ignore_self. }
    change (length (run_cleanups_ignore (s_cleanups s) (s_live s))) with (length (s_live (reset s))).
    rewrite Hl. split; [reflexivity|]. split; [reflexivity|]. apply IH; auto.
  - unfold close. destruct closed; cbn in Hi.
    + rewrite Hi. destruct (run_cleanups (s_cleanups s) []) as [l|] eqn:E; cbn.
      * apply run_cleanups_nil in E. subst.
        split; [discriminate|]. split; [reflexivity|]. apply IH; [reflexivity|assumption].
      * rewrite Hi. split; [discriminate|]. split; [reflexivity|]. apply IH; [exact Hi|assumption].
    + rewrite Hi, run_cleanups_self. cbn.
      split; [reflexivity|]. split; [reflexivity|]. apply IH; [reflexivity|assumption].
Qed.

(** * Assembly: both outputs are the sorted key-deduplication of the input *)

Lemma Forall_concat_inv {A} (Q : A -> Prop) (ls : list (list A)) :
  Forall Q (concat ls) -> Forall (Forall Q) ls.
Proof.
  induction ls as [|l ls IH]; cbn; intros H; [constructor|].
  apply Forall_app in H as [H1 H2]. constructor; auto.
Qed.

Section Assembly.
  Variable ncols : nat.
  Variable pk rem : list nat.
  Notation K := (dkey ncols pk).
  Definition Pw (r : row) : Prop := length r = ncols.

  Lemma run_sorted_le run : Forall Pw run -> run_sorted pk run -> StronglySorted (le K) run.
  Proof.
    intros HP Hs. induction Hs as [|a l Hs IH Ha]; [constructor|].
    inversion HP as [|? ? HPa HPl]; subst. constructor; auto.
    rewrite Forall_forall in *. intros b Hb. specialize (Ha b Hb).
    rewrite (ssl_dkey ncols) in Ha by (auto; apply HPl; auto).
    unfold le. now apply klt_false_le.
  Qed.

  Lemma runs_sorted_le runs :
    Forall (Forall Pw) runs -> Forall (run_sorted pk) runs -> Forall (StronglySorted (le K)) runs.
  Proof.
    induction runs as [|run runs IH]; intros HP Hs; [constructor|].
    inversion HP; inversion Hs; subst. constructor; auto using run_sorted_le.
  Qed.

  Definition kept_of (runs : list (list row)) : list row :=
    dedup K (init_prev ncols pk) true (merge_seq (strlist_less_than pk) (S (total_rows runs)) runs).

  Lemma kept_spec runs rows :
    wf_rows ncols rows -> Permutation (concat runs) rows -> Forall (run_sorted pk) runs ->
    keys_strictly_ascending ncols pk (kept_of runs) /\
    (forall r, In r (kept_of runs) -> In r rows) /\
    (forall r, In r rows -> exists p, In p (kept_of runs) /\ K p = K r).
  Proof.
    intros Hwf Hperm Hs.
    assert (HP : Forall (Forall Pw) runs).
    { apply Forall_concat_inv. unfold wf_rows in Hwf. rewrite Forall_forall in *.
      intros r Hr. apply Hwf. eapply Permutation_in; eauto. }
    assert (Hlt : forall a b, Pw a -> Pw b -> strlist_less_than pk a b = klt (K a) (K b))
      by (intros; apply sll_dkey; auto).
    pose proof (runs_sorted_le runs HP Hs) as Hle.
    assert (Hf : total_rows runs < S (total_rows runs)) by lia.
    pose proof (merge_seq_sorted K Pw _ Hlt _ runs HP Hle Hf) as Hms.
    pose proof (merge_seq_perm K Pw _ Hlt _ runs HP Hf) as Hmp.
    destruct (dedup_true K _ (init_prev ncols pk) Hms) as (D1 & D2 & D3).
    split; [exact D1|]. split.
    - intros r Hr. eapply Permutation_in; [exact Hperm|]. eapply Permutation_in; [exact Hmp|].
      apply D2. exact Hr.
    - intros r Hr. apply D3. eapply Permutation_in; [symmetry; exact Hmp|].
      eapply Permutation_in; [symmetry; exact Hperm|]. exact Hr.
  Qed.

  Lemma sorted_blocks_runs_eq runs :
    sorted_blocks_runs ncols pk rem runs = Some (blocks_from ncols pk rem 0 [] [] (kept_of runs)).
  Proof.
    unfold sorted_blocks_runs, kept_of. apply sb_loop_eq; [cbn; unfold block_size; lia | lia].
  Qed.

  Lemma sorted_blocks_runs_chunked runs :
    chunked ncols pk rem 0 (kept_of runs) (blocks_from ncols pk rem 0 [] [] (kept_of runs)).
  Proof.
    apply (blocks_from_chunked ncols pk rem (kept_of runs) 0 [] []).
    - cbn; unfold block_size; lia.
    - intros H; contradiction.
  Qed.

  Lemma sorted_rows_runs_eq runs :
    Forall (Forall Pw) runs ->
    sorted_rows_runs ncols pk rem runs =
    Some (map (fun b => mk_srows (b_offset b) (b_rows b)) (blocks_from ncols pk rem 0 [] [] (kept_of runs))).
  Proof.
    intros HP. unfold sorted_rows_runs. rewrite sr_loop_eq by (cbn; unfold block_size; lia).
    f_equal. rewrite (rows_from_blocks_from ncols pk rem _ 0 [] []). unfold kept_of.
    rewrite (merge_seq_ext Pw (string_slice_is_less pk) (strlist_less_than pk)); auto.
    intros a b Ha Hb. rewrite (ssl_dkey ncols), (sll_dkey ncols); auto.
  Qed.

  Lemma sorted_dedup_of_kept runs rows :
    wf_rows ncols rows -> wf_removed ncols pk rem ->
    Permutation (concat runs) rows -> Forall (run_sorted pk) runs ->
    sorted_dedup_of ncols pk rem rows (map (remove_cols rem) (kept_of runs)).
  Proof.
    intros Hwf [_ Hrem] Hperm Hs. destruct (kept_spec runs rows Hwf Hperm Hs) as (S1 & S2 & S3).
    exists (kept_of runs). repeat (split; auto).
    intros p _. unfold dkey. apply key_of_removed. intros u Hu Hin. eapply Hrem; eauto.
  Qed.
End Assembly.

(** the statements used by props/C19.v *)

Theorem blocks_any_runs ncols pk rem rows runs :
  wf_rows ncols rows -> wf_removed ncols pk rem ->
  Permutation (concat runs) rows -> Forall (run_sorted pk) runs ->
  exists bs kept,
    sorted_blocks_runs ncols pk rem runs = Some bs /\
    chunked ncols pk rem 0 kept bs /\
    keys_strictly_ascending ncols pk kept /\
    (forall r, In r kept -> In r rows) /\
    (forall r, In r rows -> exists p, In p kept /\ dkey ncols pk p = dkey ncols pk r) /\
    sorted_dedup_of ncols pk rem rows (concat (map b_rows bs)).
Proof.
  intros Hwf Hrem Hperm Hs.
  exists (blocks_from ncols pk rem 0 [] [] (kept_of ncols pk runs)), (kept_of ncols pk runs).
  destruct (kept_spec ncols pk runs rows Hwf Hperm Hs) as (S1 & S2 & S3).
  split; [apply sorted_blocks_runs_eq|]. split; [apply sorted_blocks_runs_chunked|].
  split; [exact S1|]. split; [exact S2|]. split; [exact S3|].
  rewrite (chunked_concat _ _ _ _ _ _ (sorted_blocks_runs_chunked ncols pk rem runs)).
  apply sorted_dedup_of_kept; auto.
Qed.

Theorem rows_any_runs ncols pk rem rows runs :
  wf_rows ncols rows -> wf_removed ncols pk rem ->
  Permutation (concat runs) rows -> Forall (run_sorted pk) runs ->
  exists rs,
    sorted_rows_runs ncols pk rem runs = Some rs /\
    sorted_dedup_of ncols pk rem rows (concat (map r_rows rs)).
Proof.
  intros Hwf Hrem Hperm Hs.
  assert (HP : Forall (Forall (Pw ncols)) runs).
  { apply Forall_concat_inv. unfold wf_rows in Hwf. rewrite Forall_forall in *.
    intros r Hr. apply Hwf. eapply Permutation_in; eauto. }
  eexists. split; [apply sorted_rows_runs_eq; exact HP|].
  rewrite map_map.
  match goal with |- sorted_dedup_of _ _ _ _ (concat (map ?g ?l)) =>
    replace (map g l) with (map b_rows l) by (apply map_ext; reflexivity) end.
  rewrite (chunked_concat _ _ _ _ _ _ (sorted_blocks_runs_chunked ncols pk rem runs)).
  apply sorted_dedup_of_kept; auto.
Qed.

Theorem outputs_agree_runs ncols pk rem runs :
  wf_rows ncols (concat runs) ->
  exists bs rs,
    sorted_blocks_runs ncols pk rem runs = Some bs /\
    sorted_rows_runs ncols pk rem runs = Some rs /\
    rs = map (fun b => mk_srows (b_offset b) (b_rows b)) bs.
Proof.
  intros Hwf. apply Forall_concat_inv in Hwf.
  eexists. eexists. split; [apply sorted_blocks_runs_eq|]. split; [apply sorted_rows_runs_eq; exact Hwf|].
  reflexivity.
Qed.

(** from the sorter's own state: any run size *)
Lemma sorter_runs ncols sort_rows run_size pk rows :
  sort_ok ncols sort_rows -> wf_pk ncols pk -> wf_rows ncols rows -> cells_in_limit rows ->
  exists s, add_rows sort_rows run_size pk new_sorter rows = Some s /\
    Permutation (concat (runs_of sort_rows pk s)) rows /\
    Forall (run_sorted pk) (runs_of sort_rows pk s).
Proof.
  intros Hso Hpk Hwf Hc.
  destruct (add_rows_total sort_rows run_size pk rows new_sorter Hc) as (s & Hs).
  exists s. split; [exact Hs|].
  destruct (add_rows_partition sort_rows run_size pk rows s Hs) as (parts & Hcat & Hruns).
  rewrite Hruns. subst rows.
  destruct (sorted_parts ncols sort_rows pk parts Hso Hpk (wf_rows_concat _ _ Hwf)) as [P1 P2].
  split; assumption.
Qed.

Theorem sorter_blocks ncols sort_rows run_size pk rem rows :
  sort_ok ncols sort_rows -> wf_pk ncols pk -> wf_rows ncols rows -> cells_in_limit rows ->
  wf_removed ncols pk rem ->
  exists s bs, add_rows sort_rows run_size pk new_sorter rows = Some s /\
    sorted_blocks sort_rows pk ncols rem s = Some bs /\
    sorted_dedup_of ncols pk rem rows (concat (map b_rows bs)).
Proof.
  intros Hso Hpk Hwf Hc Hrem.
  destruct (sorter_runs ncols sort_rows run_size pk rows Hso Hpk Hwf Hc) as (s & Hs & Hperm & Hsorted).
  destruct (blocks_any_runs ncols pk rem rows _ Hwf Hrem Hperm Hsorted) as (bs & kept & H1 & _ & _ & _ & _ & H2).
  exists s, bs. auto.
Qed.

Theorem sorter_rows ncols sort_rows run_size pk rem rows :
  sort_ok ncols sort_rows -> wf_pk ncols pk -> wf_rows ncols rows -> cells_in_limit rows ->
  wf_removed ncols pk rem ->
  exists s rs, add_rows sort_rows run_size pk new_sorter rows = Some s /\
    sorted_rows sort_rows pk ncols rem s = Some rs /\
    sorted_dedup_of ncols pk rem rows (concat (map r_rows rs)).
Proof.
  intros Hso Hpk Hwf Hc Hrem.
  destruct (sorter_runs ncols sort_rows run_size pk rows Hso Hpk Hwf Hc) as (s & Hs & Hperm & Hsorted).
  destruct (rows_any_runs ncols pk rem rows _ Hwf Hrem Hperm Hsorted) as (rs & H1 & H2).
  exists s, rs. auto.
Qed.

Theorem sorter_outputs_agree ncols sort_rows run_size pk rem rows :
  sort_ok ncols sort_rows -> wf_pk ncols pk -> wf_rows ncols rows -> cells_in_limit rows ->
  exists s bs rs, add_rows sort_rows run_size pk new_sorter rows = Some s /\
    sorted_blocks sort_rows pk ncols rem s = Some bs /\
    sorted_rows sort_rows pk ncols rem s = Some rs /\
    rs = map (fun b => mk_srows (b_offset b) (b_rows b)) bs.
Proof.
  intros Hso Hpk Hwf Hc.
  destruct (sorter_runs ncols sort_rows run_size pk rows Hso Hpk Hwf Hc) as (s & Hs & Hperm & Hsorted).
  assert (Hw : wf_rows ncols (concat (runs_of sort_rows pk s))).
  { unfold wf_rows in *. rewrite Forall_forall in *. intros r Hr. apply Hwf.
    eapply Permutation_in; eauto. }
  destruct (outputs_agree_runs ncols pk rem _ Hw) as (bs & rs & H1 & H2 & H3).
  exists s, bs, rs. auto.
Qed.

Theorem nopk_removed_empty ncols rem : wf_removed ncols [] rem -> rem = [].
Proof.
  intros [H1 H2]. destruct rem as [|c rem]; [reflexivity|]. exfalso.
  inversion H1; subst. apply (H2 c); [now left|]. cbn. apply in_seq. lia.
Qed.

Theorem cleanup_all_histories sort_rows run_size pk ops :
  well_used false ops ->
  trace_clean false ops (sop_trace sort_rows run_size pk new_sorter ops).
Proof. intros H. apply cleanup_trace; auto. reflexivity. Qed.

(** * The executable in-memory sort satisfies [sort_ok] *)

Lemma insert_row_perm pk r l : Permutation (insert_row pk r l) (r :: l).
Proof.
  induction l as [|x l IH]; cbn; [reflexivity|].
  destruct (string_slice_is_less pk x r); [|reflexivity].
  rewrite IH. apply perm_swap.
Qed.

Lemma isort_rows_perm pk l : Permutation (isort_rows pk l) l.
Proof.
  induction l as [|r l IH]; cbn; [reflexivity|].
  fold (isort_rows pk l). rewrite insert_row_perm. now constructor.
Qed.

Lemma insert_row_sorted ncols pk r l :
  length r = ncols -> Forall (fun x => length x = ncols) l ->
  run_sorted pk l -> run_sorted pk (insert_row pk r l).
Proof.
  intros Hr Hl Hs. induction Hs as [|x l Hs IH Hx]; cbn.
  - constructor; constructor.
  - inversion Hl as [|? ? Hlx Hll]; subst.
    destruct (string_slice_is_less pk x r) eqn:E.
    + constructor; [apply IH; auto|].
      rewrite Forall_forall in *. intros y Hy.
      apply (Permutation_in _ (insert_row_perm pk r l)) in Hy. destruct Hy as [<-|Hy]; auto.
      rewrite (ssl_dkey (length r)) in * by auto.
      apply klt_true_lt in E. apply klt_false_le. rewrite E. discriminate.
    + constructor; [constructor; auto|]. constructor; [exact E|].
      rewrite Forall_forall in *. intros y Hy. specialize (Hx y Hy).
      rewrite (ssl_dkey (length r)) in * by (auto; apply Hll; auto).
      apply klt_false_le in E. apply klt_false_le in Hx. apply klt_false_le.
      eapply kcmp_le_trans; eauto.
Qed.

Theorem isort_ok ncols : sort_ok ncols isort_rows.
Proof.
  intros pk l _ Hwf. split; [apply isort_rows_perm|].
  induction Hwf as [|r l Hr Hl IH]; cbn; [constructor|].
  fold (isort_rows pk l). eapply insert_row_sorted; eauto.
  unfold wf_rows in *. rewrite Forall_forall in *. intros x Hx. apply Hl.
  eapply Permutation_in; [apply isort_rows_perm|exact Hx].
Qed.

(** * One sorter reused for several tables (Reset / SetColumns / PK between uses) *)

(** what the outputs of a sorter depend on *)
Definition ueq (a b : usorter) : Prop :=
  s_chunks (u_s a) = s_chunks (u_s b) /\ s_current (u_s a) = s_current (u_s b) /\
  s_size (u_s a) = s_size (u_s b) /\ u_ncols a = u_ncols b /\ u_pk a = u_pk b.

Lemma uop_step_ueq sort rs a b o :
  ueq a b ->
  ueq (fst (uop_step sort rs a o)) (fst (uop_step sort rs b o)) /\
  snd (uop_step sort rs a o) = snd (uop_step sort rs b o).
Proof.
  intros (E1 & E2 & E3 & E4 & E5). destruct a as [sa na pa], b as [sb nb pb].
  cbn [u_s u_ncols u_pk] in *. subst nb pb. unfold ueq.
  destruct o as [| n | pk | r | blocks rem]; cbn [uop_step fst snd u_s u_ncols u_pk].
  - cbn. auto 10.
  - auto 10.
  - auto 10.
  - unfold add_row. rewrite E2, E3, E1.
    destruct (cell_too_long r); cbn [fst snd u_s u_ncols u_pk]; [auto 10|].
    destruct (rs <=? s_size sb + row_size r)%N; cbn; auto 10.
  - assert (Er : runs_of sort pa sa = runs_of sort pa sb) by (unfold runs_of; now rewrite E1, E2).
    destruct blocks; cbn [fst snd u_s u_ncols u_pk drained s_chunks s_current s_size];
      unfold sorted_blocks, sorted_rows; rewrite Er, E1, E3; auto 10.
Qed.

Lemma uop_run_ueq sort rs ops : forall a b,
  ueq a b ->
  ueq (fst (uop_run sort rs a ops)) (fst (uop_run sort rs b ops)) /\
  snd (uop_run sort rs a ops) = snd (uop_run sort rs b ops).
Proof.
  induction ops as [|o ops IH]; intros a b E; cbn; [split; auto|].
  destruct (uop_step_ueq sort rs a b o E) as [E' Eo].
  destruct (uop_step sort rs a o) as [a' ra], (uop_step sort rs b o) as [b' rb]. cbn in E', Eo. subst rb.
  destruct (IH a' b' E') as [E'' Er].
  destruct (uop_run sort rs a' ops) as [a'' rsa], (uop_run sort rs b' ops) as [b'' rsb]. cbn in *.
  subst rsb. split; auto.
Qed.

Lemma uop_run_app sort rs ops1 : forall u ops2,
  uop_run sort rs u (ops1 ++ ops2) =
  (fst (uop_run sort rs (fst (uop_run sort rs u ops1)) ops2),
   snd (uop_run sort rs u ops1) ++ snd (uop_run sort rs (fst (uop_run sort rs u ops1)) ops2)).
Proof.
  induction ops1 as [|o ops1 IH]; intros u ops2; cbn.
  - now destruct (uop_run sort rs u ops2).
  - destruct (uop_step sort rs u o) as [u' r]. rewrite IH.
    destruct (uop_run sort rs u' ops1) as [u'' rs1]. cbn.
    destruct (uop_run sort rs u'' ops2) as [u3 rs2]. cbn.
    destruct r; reflexivity.
Qed.

(** whatever the sorter did before, the three configuration steps of a use put it in the
    state of a fresh sorter with that configuration *)
Lemma use_prefix_fresh sort rs u n pk :
  ueq (fst (uop_run sort rs u [UReset; USetColumns n; USetPK pk]))
      (fst (uop_run sort rs new_usorter [UReset; USetColumns n; USetPK pk])).
Proof. cbn. repeat split. Qed.

Lemma use_prefix_outs sort rs u n pk :
  snd (uop_run sort rs u [UReset; USetColumns n; USetPK pk]) = [].
Proof. reflexivity. Qed.

Lemma use_ops_split x :
  use_ops x = [UReset; USetColumns (us_ncols x); USetPK (us_pk x)] ++
              (map UAdd (us_rows x) ++ [UOut (us_blocks x) (us_rem x)]).
Proof. reflexivity. Qed.

Lemma use_outputs_fresh sort rs u x :
  snd (uop_run sort rs u (use_ops x)) = snd (uop_run sort rs new_usorter (use_ops x)).
Proof.
  rewrite use_ops_split.
  rewrite (uop_run_app sort rs [UReset; USetColumns (us_ncols x); USetPK (us_pk x)] u).
  rewrite (uop_run_app sort rs [UReset; USetColumns (us_ncols x); USetPK (us_pk x)] new_usorter).
  cbn [snd]. rewrite !use_prefix_outs. cbn [app].
  apply uop_run_ueq. apply use_prefix_fresh.
Qed.

Theorem reuse_is_fresh sort rs uses : forall u,
  snd (uop_run sort rs u (concat (map use_ops uses))) =
  concat (map (fun x => snd (uop_run sort rs new_usorter (use_ops x))) uses).
Proof.
  induction uses as [|x uses IH]; intros u; cbn [map concat]; [reflexivity|].
  rewrite uop_run_app. cbn [snd]. rewrite IH, use_outputs_fresh. reflexivity.
Qed.

(** a single use of a fresh sorter is AddRow for every row, then the output *)
Lemma uadds_run sort rs rows : forall s n pk s',
  add_rows sort rs pk s rows = Some s' ->
  uop_run sort rs (mk_us s n pk) (map UAdd rows) = (mk_us s' n pk, map (fun _ => UOAdd true) rows).
Proof.
  induction rows as [|r rows IH]; intros s n pk s' H; cbn in *.
  - inversion H; reflexivity.
  - destruct (add_row sort rs pk s r) as [s1|] eqn:E; [|discriminate].
    rewrite (IH s1 n pk s' H). reflexivity.
Qed.

Lemma fresh_use_run sort rs ncols pk rows blocks rem s :
  add_rows sort rs pk new_sorter rows = Some s ->
  snd (uop_run sort rs new_usorter (use_ops (mk_suse ncols pk rows blocks rem))) =
  map (fun _ => UOAdd true) rows ++
  match snd (uop_step sort rs (mk_us s ncols pk) (UOut blocks rem)) with Some o => [o] | None => [] end.
Proof.
  intros Ha. rewrite use_ops_split. cbn [us_ncols us_pk us_rows us_blocks us_rem].
  rewrite (uop_run_app sort rs [UReset; USetColumns ncols; USetPK pk] new_usorter). cbn [snd].
  rewrite use_prefix_outs. cbn [app].
  change (fst (uop_run sort rs new_usorter [UReset; USetColumns ncols; USetPK pk])) with (mk_us new_sorter ncols pk).
  rewrite (uop_run_app sort rs (map UAdd rows)), (uadds_run sort rs rows new_sorter ncols pk s Ha). cbn [fst snd].
  f_equal. cbn [uop_run]. destruct (uop_step sort rs (mk_us s ncols pk) (UOut blocks rem)) as [u' [o|]]; reflexivity.
Qed.

Theorem fresh_use_blocks ncols sort rs pk rem rows :
  sort_ok ncols sort -> wf_pk ncols pk -> wf_rows ncols rows -> cells_in_limit rows ->
  wf_removed ncols pk rem ->
  exists bs nch,
    snd (uop_run sort rs new_usorter (use_ops (mk_suse ncols pk rows true rem))) =
      map (fun _ => UOAdd true) rows ++ [UOBlocks nch (Some bs)] /\
    sorted_dedup_of ncols pk rem rows (concat (map b_rows bs)).
Proof.
  intros Hso Hpk Hwf Hc Hrem.
  destruct (sorter_blocks ncols sort rs pk rem rows Hso Hpk Hwf Hc Hrem) as (s & bs & Ha & Hb & Hspec).
  exists bs, (length (s_chunks s)). split; [|exact Hspec].
  rewrite (fresh_use_run sort rs ncols pk rows true rem s Ha). cbn [uop_step snd u_s u_ncols u_pk]. now rewrite Hb.
Qed.

Theorem fresh_use_rows ncols sort rs pk rem rows :
  sort_ok ncols sort -> wf_pk ncols pk -> wf_rows ncols rows -> cells_in_limit rows ->
  wf_removed ncols pk rem ->
  exists bs nch,
    snd (uop_run sort rs new_usorter (use_ops (mk_suse ncols pk rows false rem))) =
      map (fun _ => UOAdd true) rows ++ [UORows nch (Some bs)] /\
    sorted_dedup_of ncols pk rem rows (concat (map r_rows bs)).
Proof.
  intros Hso Hpk Hwf Hc Hrem.
  destruct (sorter_rows ncols sort rs pk rem rows Hso Hpk Hwf Hc Hrem) as (s & bs & Ha & Hb & Hspec).
  exists bs, (length (s_chunks s)). split; [|exact Hspec].
  rewrite (fresh_use_run sort rs ncols pk rows false rem s Ha). cbn [uop_step snd u_s u_ncols u_pk]. now rewrite Hb.
Qed.
