(** C08 - proofs, part 6: the statements of props/C08.v in their final form. *)
From Coq Require Import List NArith Bool Arith Lia Permutation.
From W.lib Require Import Tree.
From W.model Require Import ClosedSets ClosedSetsSpec.
From W.proofs Require Import ClosedSets_proofs ClosedSetsTerm_proofs ClosedSetsQueue_proofs
     ClosedSetsSession_proofs ClosedSetsSingle_proofs.
Import ListNotations.

Section Main.
  Variable qsort : list qitem -> list qitem.
  Variable ord : nat -> list cid -> list cid.
  Hypothesis Hsort : sort_fun qsort.
  Hypothesis Hord : order_fun ord.
  Variable g : store.
  Variable refs : list cid.
  Hypothesis Hacyc : acyclic g.
  Variable depth : nat.
  Variable rs : list round.
  Variable os : list round_obs.
  Variable f : finder.
  Variable L : list cid.
  Hypothesis Hrun : session qsort ord g refs depth rs = (os, Some (Ok (f, L))).

  Let HS : session_ok g refs depth rs os f L.
  Proof.
    destruct (session_spec qsort ord Hsort Hord g refs Hacyc depth rs _ _ Hrun) as [_ [_ [_ H]]].
    apply H. reflexivity.
  Qed.

  Lemma main_cover : forall w a, In w (accepted_wants rs os) -> anc g w a ->
    In a L \/ exists k, In k (all_acks os) /\ anc g k a.
  Proof.
    intros w a Hw Ha. destruct (so_cover _ _ _ _ _ _ _ HS w a Hw Ha) as [H|[k [Hk Hka]]]; auto.
    right. exists k. split; auto. apply (so_commons _ _ _ _ _ _ _ HS). auto.
  Qed.

  Lemma main_order : forall l1 c l2, L = l1 ++ c :: l2 ->
    forall p, parent_of g c p -> In p (all_acks os) \/ In p l1.
  Proof.
    intros l1 c l2 E p Hp. destruct (so_order _ _ _ _ _ _ _ HS l1 c l2 E p Hp) as [H|H]; auto.
    left. apply (so_commons _ _ _ _ _ _ _ HS). auto.
  Qed.

  Lemma main_sound :
    (forall x, In x L -> exists w, In w (accepted_wants rs os) /\ anc g w x) /\
    (forall r acks, In (r, ROk acks) (combine rs os) ->
       forall a, In a acks -> In a (r_haves r) /\ get_commit g a <> None /\ reach g refs a).
  Proof.
    split.
    - apply (so_sound _ _ _ _ _ _ _ HS).
    - intros r acks Hin a Ha. destruct (so_rounds _ _ _ _ _ _ _ HS r (ROk acks) Hin) as [H _]. auto.
  Qed.

  Lemma main_tables :
    tables_to_send ord g f = Ok (f, concat (f_tlists f)) /\
    forall t, In t (concat (f_tlists f)) ->
      exists w k x cm, In w (accepted_wants rs os) /\ path g w k x /\ get_commit g x = Some cm /\
                       c_table cm = t /\ depth_ok depth k = true.
  Proof.
    split.
    - unfold tables_to_send, flush_wants. rewrite (so_wants _ _ _ _ _ _ _ HS). reflexivity.
    - apply (so_tables _ _ _ _ _ _ _ HS).
  Qed.

  Lemma main_rounds : forall r o, In (r, o) (combine rs os) ->
    match o with
    | ROk _ => forall w, In w (r_wants r) -> reach g refs w /\ full g w
    | RUnrec sums => sums <> [] /\ exists w, In w (r_wants r) /\ ~ (reach g refs w /\ full g w)
    | RErr => ~ (closed g /\ refs_ok g refs)
    | RFuel => False
    end.
  Proof.
    intros r o Hin. pose proof (so_rounds _ _ _ _ _ _ _ HS r o Hin) as H.
    destruct o; simpl in H; auto. destruct H as [_ H]. exact H.
  Qed.
End Main.

(** termination / totality of whole sessions *)
Lemma main_terminates : forall qsort ord g refs depth rs os fin,
  sort_fun qsort -> order_fun ord -> acyclic g ->
  session qsort ord g refs depth rs = (os, fin) ->
  fin <> Some Fuel /\ (forall r, ~ In (r, RFuel) (combine rs os)) /\
  (closed g -> refs_ok g refs ->
   (forall r, ~ In (r, RErr) (combine rs os)) /\ exists f L, fin = Some (Ok (f, L))).
Proof.
  intros qsort ord g refs depth rs os fin Hs Ho Ha H.
  destruct (session_spec qsort ord Hs Ho g refs Ha depth rs os fin H) as [R1 [R2 [R3 _]]].
  split; [exact R2|split].
  - intros r Hin. apply (R1 r RFuel Hin).
  - intros Hc Hr. split; auto. intros r Hin. apply (R1 r RErr Hin). auto.
Qed.

(** the exact step count of one walk, and the recurrence that makes it a path count *)
Lemma main_steps : forall g depth seen commons defer w sums cl tl, acyclic g ->
  walk_want g depth seen commons defer w = WDone sums cl tl ->
  length sums = npaths_sat g (stopb seen commons) w.
Proof.
  intros g depth seen commons defer w sums cl tl Ha H.
  pose proof (walk_want_steps g depth seen commons defer w Ha) as Hs. rewrite H in Hs. exact Hs.
Qed.

(** the same statements with the binder order used in props/C08.v *)
Lemma cover_final : forall qsort ord g refs depth rs os f L,
  sort_fun qsort -> order_fun ord -> acyclic g ->
  session qsort ord g refs depth rs = (os, Some (Ok (f, L))) ->
  forall w a, In w (accepted_wants rs os) -> anc g w a ->
              In a L \/ exists k, In k (all_acks os) /\ anc g k a.
Proof. intros qsort ord g refs depth rs os f L Hs Ho Ha H. exact (main_cover qsort ord Hs Ho g refs Ha depth rs os f L H). Qed.

Lemma order_final : forall qsort ord g refs depth rs os f L,
  sort_fun qsort -> order_fun ord -> acyclic g ->
  session qsort ord g refs depth rs = (os, Some (Ok (f, L))) ->
  forall l1 c l2, L = l1 ++ c :: l2 ->
  forall p, parent_of g c p -> In p (all_acks os) \/ In p l1.
Proof. intros qsort ord g refs depth rs os f L Hs Ho Ha H. exact (main_order qsort ord Hs Ho g refs Ha depth rs os f L H). Qed.

Lemma sound_final : forall qsort ord g refs depth rs os f L,
  sort_fun qsort -> order_fun ord -> acyclic g ->
  session qsort ord g refs depth rs = (os, Some (Ok (f, L))) ->
  (forall x, In x L -> exists w, In w (accepted_wants rs os) /\ anc g w x) /\
  (forall r acks, In (r, ROk acks) (combine rs os) ->
     forall a, In a acks -> In a (r_haves r) /\ get_commit g a <> None /\ reach g refs a).
Proof. intros qsort ord g refs depth rs os f L Hs Ho Ha H. exact (main_sound qsort ord Hs Ho g refs Ha depth rs os f L H). Qed.

Lemma tables_final : forall qsort ord g refs depth rs os f L,
  sort_fun qsort -> order_fun ord -> acyclic g ->
  session qsort ord g refs depth rs = (os, Some (Ok (f, L))) ->
  tables_to_send ord g f = Ok (f, concat (f_tlists f)) /\
  forall t, In t (concat (f_tlists f)) ->
    exists w k x cm, In w (accepted_wants rs os) /\ path g w k x /\ get_commit g x = Some cm /\
                     c_table cm = t /\ depth_ok depth k = true.
Proof. intros qsort ord g refs depth rs os f L Hs Ho Ha H. exact (main_tables qsort ord Hs Ho g refs Ha depth rs os f L H). Qed.

Lemma rounds_final : forall qsort ord g refs depth rs os f L,
  sort_fun qsort -> order_fun ord -> acyclic g ->
  session qsort ord g refs depth rs = (os, Some (Ok (f, L))) ->
  forall r o, In (r, o) (combine rs os) ->
    match o with
    | ROk _ => forall w, In w (r_wants r) -> reach g refs w /\ full g w
    | RUnrec sums => sums <> [] /\ exists w, In w (r_wants r) /\ ~ (reach g refs w /\ full g w)
    | RErr => ~ (closed g /\ refs_ok g refs)
    | RFuel => False
    end.
Proof. intros qsort ord g refs depth rs os f L Hs Ho Ha H. exact (main_rounds qsort ord Hs Ho g refs Ha depth rs os f L H). Qed.

Lemma one_want_final : forall qsort ord g refs depth w haves done acks f L,
  sort_fun qsort -> order_fun ord -> acyclic g ->
  session qsort ord g refs depth [mkRound [w] haves done] = ([ROk acks], Some (Ok (f, L))) ->
  (forall x, In x L <-> exists k, vis g (stopb [] acks) w k x) /\
  (forall t, In t (concat (f_tlists f)) <->
             exists k x cm, vis g (stopb [] acks) w k x /\ get_commit g x = Some cm /\
                            c_table cm = t /\ depth_ok depth k = true) /\
  (forall l1 c l2, L = l1 ++ c :: l2 -> forall p, parent_of g c p -> In p acks \/ In p l1).
Proof.
  intros qsort ord g refs depth w haves done acks f L Hs Ho Ha.
  exact (single_want_exact qsort ord Hs Ho g refs Ha depth w haves done acks f L).
Qed.

Lemma set_final : forall qsort ord g refs depth r acks f L,
  sort_fun qsort -> order_fun ord -> acyclic g ->
  session qsort ord g refs depth [r] = ([ROk acks], Some (Ok (f, L))) ->
  forall x, In x L <-> exists w, In w (r_wants r) /\ exists k, vis g (stopb [] acks) w k x.
Proof.
  intros qsort ord g refs depth r acks f L Hs Ho Ha.
  exact (single_round_set qsort ord Hs Ho g refs Ha depth r acks f L).
Qed.

Lemma witness_final :
  order_fun (ord_of 0) /\ order_fun (ord_of 1) /\ sort_fun isort_time /\ acyclic wit_store /\
  wit_tables 0 = Some [11%N] /\ wit_tables 1 = Some [10%N; 11%N].
Proof.
  split; [apply ord_of_order_fun|split; [apply ord_of_order_fun|split; [exact isort_time_perm|
  split; [exact wit_acyclic|exact wit_order_dependent]]]].
Qed.
