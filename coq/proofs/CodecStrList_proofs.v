(** Proofs for model/CodecStrList.v: StrList, Block, UintList, FloatList round trips,
    canonicity of the strict readers, refusal of over-limit cells.  Axiom-free. *)
From W.lib Require Import Tree Bytes.
From W.model Require Import CodecBase CodecStrList.
From W.proofs Require Import CodecBase_proofs.
From Coq Require Import Arith Lia ZifyNat ZifyN ZifyBool List NArith Bool.
Import ListNotations.
Local Open Scope N_scope.

Lemma pow256_2 : 256 ^ N.of_nat 2 = 65536. Proof. reflexivity. Qed.
Lemma pow256_4 : 256 ^ N.of_nat 4 = 2 ^ 32. Proof. reflexivity. Qed.
Lemma pow256_8 : 256 ^ N.of_nat 8 = 2 ^ 64. Proof. reflexivity. Qed.
Lemma pow2_32 : 2 ^ 32 = 4294967296. Proof. reflexivity. Qed.

Lemma to_nat_len (s : bytes) : N.to_nat (len s) = length s.
Proof. unfold len. lia. Qed.

Lemma wf_bytes_app (a b : bytes) : wf_bytes (a ++ b) <-> wf_bytes a /\ wf_bytes b.
Proof. unfold wf_bytes. apply Forall_app. Qed.

(* ------------------------------------------------------------------ *)
(** * StrList *)

Lemma enc_cells_some sl :
  Forall (fun s => len s <= max_str_len) sl -> exists r, enc_cells sl = Some r.
Proof.
  induction 1 as [|s sl Hs _ [r IH]]; cbn [enc_cells]; [eauto|].
  apply N.ltb_ge in Hs. rewrite Hs, IH. eauto.
Qed.

Lemma enc_cells_none sl :
  Exists (fun s => max_str_len < len s) sl -> enc_cells sl = None.
Proof.
  induction 1 as [s sl Hs|s sl _ IH]; cbn [enc_cells].
  - apply N.ltb_lt in Hs. now rewrite Hs.
  - rewrite IH. now destruct (max_str_len <? len s).
Qed.

Lemma enc_cells_length sl r : enc_cells sl = Some r -> (length sl <= length r)%nat.
Proof.
  revert r; induction sl as [|s sl IH]; intros r H; cbn [enc_cells] in H.
  - cbn; lia.
  - destruct (max_str_len <? len s); [discriminate|].
    destruct (enc_cells sl) as [r'|]; [|discriminate].
    inv H. specialize (IH _ eq_refl).
    rewrite !app_length, be_length. cbn [length]. lia.
Qed.

Lemma read_cells_enc strict sl : forall r rest,
  enc_cells sl = Some r -> read_cells strict (length sl) (r ++ rest) = Some (sl, rest).
Proof.
  induction sl as [|s sl IH]; intros r rest H; cbn [enc_cells] in H.
  - inv H. reflexivity.
  - destruct (max_str_len <? len s) eqn:Hs; [discriminate|].
    destruct (enc_cells sl) as [r'|] eqn:E; [|discriminate].
    inv H. apply N.ltb_ge in Hs. unfold max_str_len in Hs.
    cbn [length read_cells]. rewrite <- !app_assoc.
    rewrite rd_be_app by (rewrite pow256_2; lia).
    rewrite to_nat_len, take_app. now rewrite (IH _ _ eq_refl).
Qed.

Theorem strlist_roundtrip sl :
  wf_strlist sl ->
  exists b, encode_strlist sl = Some b /\
    forall strict rest, decode_strlist_g strict (b ++ rest) = Some (sl, rest).
Proof.
  intros [Hn Hc]. destruct (enc_cells_some sl Hc) as [r Hr].
  exists (be 4 (N.of_nat (length sl)) ++ r). split.
  - unfold encode_strlist. rewrite Hr.
    destruct (2 ^ 32 <? N.of_nat (length sl)) eqn:E; [apply N.ltb_lt in E; lia|reflexivity].
  - intros strict rest. unfold decode_strlist_g. rewrite <- app_assoc.
    rewrite rd_be_app by (rewrite pow256_4; exact Hn).
    pose proof (enc_cells_length _ _ Hr) as Hl.
    unfold count_fits, len. rewrite app_length.
    destruct (N.of_nat (length sl) <=? N.of_nat (length r + length rest)) eqn:E;
      [|apply N.leb_gt in E; lia].
    rewrite Nat2N.id. now apply read_cells_enc.
Qed.

Theorem strlist_reject_overlimit sl :
  Exists (fun s => max_str_len < len s) sl -> encode_strlist sl = None.
Proof.
  intros H. unfold encode_strlist. rewrite (enc_cells_none _ H).
  now destruct (2 ^ 32 <? N.of_nat (length sl)).
Qed.

Lemma read_cells_strict_inv : forall n b sl rest,
  wf_bytes b -> read_cells true n b = Some (sl, rest) ->
  exists r, enc_cells sl = Some r /\ b = r ++ rest /\ length sl = n /\ wf_bytes rest /\
            Forall (fun s => len s <= max_str_len) sl.
Proof.
  induction n as [|n IH]; intros b sl rest Hw H; cbn [read_cells] in H.
  - inv H. exists []. repeat split; auto.
  - destruct (rd_be 2 b) as [[l b1]|] eqn:E1; [|discriminate].
    apply rd_be_inv in E1 as (-> & Hl & Hw1); [|assumption].
    rewrite pow256_2 in Hl.
    destruct (take (N.to_nat l) b1) as [[s b2]|] eqn:E2.
    + apply take_spec in E2 as [-> Hls].
      apply wf_bytes_app in Hw1 as [_ Hw2].
      destruct (read_cells true n b2) as [[r' t]|] eqn:E3; [|discriminate].
      inv H. apply IH in E3 as (r & Hr & -> & Hn & Hwt & Hall); [|assumption].
      assert (Hlen : len s = l) by (unfold len; lia).
      exists (be 2 l ++ s ++ r). cbn [enc_cells]. rewrite Hr, Hlen.
      destruct (max_str_len <? l) eqn:E; [apply N.ltb_lt in E; unfold max_str_len in E; lia|].
      repeat split; auto; try (now rewrite <- ?app_assoc); try (cbn; lia).
      constructor; [unfold max_str_len; lia|assumption].
    + destruct n, b1; discriminate.
Qed.

(** canonicity of the strict reader: what it accepts is exactly an encoding *)
Theorem strlist_reencode b sl rest :
  wf_bytes b -> decode_strlist_g true b = Some (sl, rest) ->
  exists b', encode_strlist sl = Some b' /\ b = b' ++ rest /\ wf_bytes rest /\ wf_strlist sl.
Proof.
  intros Hw H. unfold decode_strlist_g in H.
  destruct (rd_be 4 b) as [[count b1]|] eqn:E1; [|discriminate].
  apply rd_be_inv in E1 as (-> & Hc & Hw1); [|assumption]. rewrite pow256_4 in Hc.
  destruct (count_fits count b1); [|discriminate].
  apply read_cells_strict_inv in H as (r & Hr & -> & Hn & Hwt & Hall); [|assumption].
  exists (be 4 count ++ r). unfold encode_strlist, wf_strlist. rewrite Hr, Hn, N2Nat.id.
  destruct (2 ^ 32 <? count) eqn:E; [apply N.ltb_lt in E; lia|].
  repeat split; auto; try (now rewrite <- ?app_assoc).
Qed.

(** the strict reader is a restriction of the real one ... *)
Lemma read_cells_strict_real : forall n b r,
  read_cells true n b = Some r -> read_cells false n b = Some r.
Proof.
  induction n as [|n IH]; intros b r H; cbn [read_cells] in *; [assumption|].
  destruct (rd_be 2 b) as [[l b1]|]; [|discriminate].
  destruct (take (N.to_nat l) b1) as [[s b2]|].
  - destruct (read_cells true n b2) as [[r' t]|] eqn:E; [|discriminate].
    now rewrite (IH _ _ E).
  - destruct n, b1; discriminate.
Qed.

Lemma strlist_strict_real b r :
  decode_strlist_g true b = Some r -> decode_strlist b = Some r.
Proof.
  unfold decode_strlist, decode_strlist_g.
  destruct (rd_be 4 b) as [[count b1]|]; [|discriminate].
  destruct (count_fits count b1); [|discriminate]. apply read_cells_strict_real.
Qed.

(** ... and they differ only when the input ends inside the last cell *)
Lemma read_cells_real_strict : forall n b sl rest,
  read_cells false n b = Some (sl, rest) -> rest <> [] ->
  read_cells true n b = Some (sl, rest).
Proof.
  induction n as [|n IH]; intros b sl rest H Hr; cbn [read_cells] in *; [assumption|].
  destruct (rd_be 2 b) as [[l b1]|]; [|discriminate].
  destruct (take (N.to_nat l) b1) as [[s b2]|].
  - destruct (read_cells false n b2) as [[r' t]|] eqn:E; [|discriminate].
    inv H. now rewrite (IH _ _ _ E Hr).
  - destruct n; [|discriminate]. destruct b1; [|discriminate].
    inv H. now elim Hr.
Qed.

Lemma strlist_real_strict b sl rest :
  decode_strlist b = Some (sl, rest) -> rest <> [] -> decode_strlist_g true b = Some (sl, rest).
Proof.
  unfold decode_strlist, decode_strlist_g.
  destruct (rd_be 4 b) as [[count b1]|]; [|discriminate].
  destruct (count_fits count b1); [|discriminate]. apply read_cells_real_strict.
Qed.

Lemma strlist_decode_bytes sl b :
  wf_strlist sl -> encode_strlist sl = Some b -> decode_strlist_bytes b = Some sl.
Proof.
  intros Hw Hb. destruct (strlist_roundtrip sl Hw) as (b' & Hb' & Hd).
  rewrite Hb in Hb'. inversion Hb'; subst b'.
  unfold decode_strlist_bytes. specialize (Hd true []). rewrite app_nil_r in Hd. now rewrite Hd.
Qed.

(* ------------------------------------------------------------------ *)
(** * Block *)

Lemma enc_rows_some rows :
  Forall wf_strlist rows -> exists r, enc_rows rows = Some r.
Proof.
  induction 1 as [|row rows Hr _ [r IH]]; cbn [enc_rows]; [eauto|].
  destruct (strlist_roundtrip row Hr) as (b & Hb & _). rewrite Hb, IH. eauto.
Qed.

Lemma encode_strlist_length sl b : encode_strlist sl = Some b -> (4 <= length b)%nat.
Proof.
  unfold encode_strlist. destruct (2 ^ 32 <? N.of_nat (length sl)); [discriminate|].
  destruct (enc_cells sl); [|discriminate]. intros H; inv H.
  rewrite app_length, be_length. lia.
Qed.

Lemma enc_rows_length rows r : enc_rows rows = Some r -> (length rows <= length r)%nat.
Proof.
  revert r; induction rows as [|row rows IH]; intros r H; cbn [enc_rows] in H.
  - cbn; lia.
  - destruct (encode_strlist row) as [br|] eqn:E; [|discriminate].
    destruct (enc_rows rows) as [r'|]; [|discriminate].
    inv H. specialize (IH _ eq_refl). apply encode_strlist_length in E.
    rewrite app_length. cbn [length]. lia.
Qed.

Lemma read_rows_enc strict rows : forall r rest,
  Forall wf_strlist rows -> enc_rows rows = Some r ->
  read_rows strict (length rows) (r ++ rest) = Some (rows, rest).
Proof.
  induction rows as [|row rows IH]; intros r rest Hw H; cbn [enc_rows] in H.
  - inv H. reflexivity.
  - inversion Hw as [|? ? Hrow Hrows]; subst.
    destruct (strlist_roundtrip row Hrow) as (b & Hb & Hd). rewrite Hb in H.
    destruct (enc_rows rows) as [r'|] eqn:E; [|discriminate].
    inv H. cbn [length read_rows]. rewrite <- app_assoc, Hd.
    now rewrite (IH _ _ Hrows eq_refl).
Qed.

Theorem block_roundtrip rows :
  wf_block rows ->
  exists b, encode_block rows = Some b /\
    forall strict rest, decode_block_g strict (b ++ rest) = Some (rows, rest).
Proof.
  intros [Hn Hr]. destruct (enc_rows_some rows Hr) as [r Hrr].
  exists (be 4 (N.of_nat (length rows)) ++ r). split.
  - unfold encode_block. rewrite Hrr.
    destruct (2 ^ 32 <? N.of_nat (length rows)) eqn:E; [apply N.ltb_lt in E; lia|reflexivity].
  - intros strict rest. unfold decode_block_g. rewrite <- app_assoc.
    rewrite rd_be_app by (rewrite pow256_4; exact Hn).
    pose proof (enc_rows_length _ _ Hrr) as Hl.
    unfold count_fits, len. rewrite app_length.
    destruct (N.of_nat (length rows) <=? N.of_nat (length r + length rest)) eqn:E;
      [|apply N.leb_gt in E; lia].
    rewrite Nat2N.id. now apply read_rows_enc.
Qed.

Lemma enc_rows_none rows :
  Exists (fun row => Exists (fun s => max_str_len < len s) row) rows -> enc_rows rows = None.
Proof.
  induction 1 as [row rows Hs|row rows _ IH]; cbn [enc_rows].
  - now rewrite (strlist_reject_overlimit _ Hs).
  - rewrite IH. now destruct (encode_strlist row).
Qed.

Theorem block_reject_overlimit rows :
  Exists (fun row => Exists (fun s => max_str_len < len s) row) rows -> encode_block rows = None.
Proof.
  intros H. unfold encode_block. rewrite (enc_rows_none _ H).
  now destruct (2 ^ 32 <? N.of_nat (length rows)).
Qed.

Lemma read_rows_strict_inv : forall n b rows rest,
  wf_bytes b -> read_rows true n b = Some (rows, rest) ->
  exists r, enc_rows rows = Some r /\ b = r ++ rest /\ length rows = n /\ wf_bytes rest /\
            Forall wf_strlist rows.
Proof.
  induction n as [|n IH]; intros b rows rest Hw H; cbn [read_rows] in H.
  - inv H. exists []. repeat split; auto.
  - destruct (decode_strlist_g true b) as [[row b1]|] eqn:E1; [|discriminate].
    apply strlist_reencode in E1 as (br & Hbr & -> & Hw1 & Hrow); [|assumption].
    destruct (read_rows true n b1) as [[rs t]|] eqn:E2; [|discriminate].
    inv H. apply IH in E2 as (r & Hr & -> & Hn & Hwt & Hall); [|assumption].
    exists (br ++ r). cbn [enc_rows]. rewrite Hbr, Hr.
    repeat split; auto; try (now rewrite <- ?app_assoc); try (cbn; lia).
Qed.

Theorem block_reencode b rows rest :
  wf_bytes b -> decode_block_g true b = Some (rows, rest) ->
  exists b', encode_block rows = Some b' /\ b = b' ++ rest /\ wf_bytes rest /\ wf_block rows.
Proof.
  intros Hw H. unfold decode_block_g in H.
  destruct (rd_be 4 b) as [[count b1]|] eqn:E1; [|discriminate].
  apply rd_be_inv in E1 as (-> & Hc & Hw1); [|assumption]. rewrite pow256_4 in Hc.
  destruct (count_fits count b1); [|discriminate].
  apply read_rows_strict_inv in H as (r & Hr & -> & Hn & Hwt & Hall); [|assumption].
  exists (be 4 count ++ r). unfold encode_block, wf_block. rewrite Hr, Hn, N2Nat.id.
  destruct (2 ^ 32 <? count) eqn:E; [apply N.ltb_lt in E; lia|].
  repeat split; auto; try (now rewrite <- ?app_assoc).
Qed.

Lemma read_rows_strict_real : forall n b r,
  read_rows true n b = Some r -> read_rows false n b = Some r.
Proof.
  induction n as [|n IH]; intros b r H; cbn [read_rows] in *; [assumption|].
  destruct (decode_strlist_g true b) as [[row b1]|] eqn:E; [|discriminate].
  pose proof (strlist_strict_real _ _ E) as E'. unfold decode_strlist in E'. rewrite E'.
  destruct (read_rows true n b1) as [[rs t]|] eqn:E2; [|discriminate].
  now rewrite (IH _ _ E2).
Qed.

Lemma block_strict_real b r :
  decode_block_g true b = Some r -> decode_block b = Some r.
Proof.
  unfold decode_block, decode_block_g.
  destruct (rd_be 4 b) as [[count b1]|]; [|discriminate].
  destruct (count_fits count b1); [|discriminate]. apply read_rows_strict_real.
Qed.

Lemma read_rows_real_strict : forall n b rows rest,
  read_rows false n b = Some (rows, rest) -> rest <> [] ->
  read_rows true n b = Some (rows, rest).
Proof.
  induction n as [|n IH]; intros b rows rest H Hr; cbn [read_rows] in *; [assumption|].
  destruct (decode_strlist_g false b) as [[row b1]|] eqn:E; [|discriminate].
  destruct (read_rows false n b1) as [[rs t]|] eqn:E2; [|discriminate].
  inv H.
  assert (Hb1 : b1 <> []).
  { intros ->. destruct n; cbn [read_rows] in E2.
    - inv E2. now elim Hr.
    - unfold decode_strlist_g, rd_be in E2. cbn in E2. discriminate. }
  rewrite (strlist_real_strict _ _ _ E Hb1). now rewrite (IH _ _ _ E2 Hr).
Qed.

Lemma block_real_strict b rows rest :
  decode_block b = Some (rows, rest) -> rest <> [] -> decode_block_g true b = Some (rows, rest).
Proof.
  unfold decode_block, decode_block_g.
  destruct (rd_be 4 b) as [[count b1]|]; [|discriminate].
  destruct (count_fits count b1); [|discriminate]. apply read_rows_real_strict.
Qed.

(** the real block reader is not canonical: a block cut right after the length
    prefix of its very last cell is accepted *)
Lemma block_noncanonical :
  decode_block [0;0;0;1; 0;0;0;1; 0;5] = Some ([[[]]], []) /\
  encode_block [[[]]] = Some [0;0;0;1; 0;0;0;1; 0;0].
Proof. split; vm_compute; reflexivity. Qed.

(* ------------------------------------------------------------------ *)
(** * UintList / FloatList *)

Lemma enc_words_length w l : length (enc_words w l) = (w * length l)%nat.
Proof.
  induction l as [|u l IH]; cbn [enc_words length]; [lia|].
  rewrite app_length, be_length, IH. lia.
Qed.

Lemma read_words_enc w l : forall rest,
  Forall (fun u => u < 256 ^ N.of_nat w) l ->
  read_words w (length l) (enc_words w l ++ rest) = Some (l, rest).
Proof.
  induction l as [|u l IH]; intros rest Hw; [reflexivity|].
  inversion Hw as [|? ? Hu Hl]; subst.
  cbn [length read_words enc_words]. rewrite <- app_assoc, rd_be_app by assumption.
  now rewrite IH.
Qed.

Theorem words_roundtrip w l :
  (0 < w)%nat -> wf_words w l ->
  exists b, encode_words w l = Some b /\ forall rest, decode_words w (b ++ rest) = Some (l, rest).
Proof.
  intros Hw0 [Hn Hl]. exists (be 4 (N.of_nat (length l)) ++ enc_words w l). split.
  - unfold encode_words.
    destruct (2 ^ 32 <=? N.of_nat (length l)) eqn:E; [apply N.leb_le in E; lia|reflexivity].
  - intros rest. unfold decode_words. rewrite <- app_assoc.
    rewrite rd_be_app by (rewrite pow256_4; exact Hn).
    unfold count_fits, len. rewrite app_length, enc_words_length.
    destruct (N.of_nat (length l) <=? N.of_nat (w * length l + length rest)) eqn:E;
      [|apply N.leb_gt in E; nia].
    rewrite Nat2N.id. now apply read_words_enc.
Qed.

Lemma read_words_inv w : forall n b l rest,
  wf_bytes b -> read_words w n b = Some (l, rest) ->
  b = enc_words w l ++ rest /\ length l = n /\ wf_bytes rest /\
  Forall (fun u => u < 256 ^ N.of_nat w) l.
Proof.
  induction n as [|n IH]; intros b l rest Hw H; cbn [read_words] in H.
  - inv H. repeat split; auto.
  - destruct (rd_be w b) as [[u b1]|] eqn:E1; [|discriminate].
    apply rd_be_inv in E1 as (-> & Hu & Hw1); [|assumption].
    destruct (read_words w n b1) as [[r t]|] eqn:E2; [|discriminate].
    inv H. apply IH in E2 as (-> & Hn & Hwt & Hl); [|assumption].
    cbn [enc_words length]. rewrite <- app_assoc. repeat split; auto.
Qed.

Theorem words_reencode w b l rest :
  wf_bytes b -> decode_words w b = Some (l, rest) ->
  exists b', encode_words w l = Some b' /\ b = b' ++ rest /\ wf_bytes rest /\ wf_words w l.
Proof.
  intros Hw H. unfold decode_words in H.
  destruct (rd_be 4 b) as [[count b1]|] eqn:E1; [|discriminate].
  apply rd_be_inv in E1 as (-> & Hc & Hw1); [|assumption]. rewrite pow256_4 in Hc.
  destruct (count_fits count b1); [|discriminate].
  apply read_words_inv in H as (-> & Hn & Hwt & Hl); [|assumption].
  exists (be 4 count ++ enc_words w l). unfold encode_words, wf_words. rewrite Hn, N2Nat.id.
  destruct (2 ^ 32 <=? count) eqn:E; [apply N.leb_le in E; lia|].
  repeat split; auto; try (now rewrite <- ?app_assoc).
Qed.
