(** C08 - proofs, part 3: the time-ordered queue as a worklist (nothing depends on where
    Insert puts a commit), ensureWantsAreReachable (refusal), findCommons (acks). *)
From Coq Require Import List NArith Bool Arith Lia Permutation.
From W.lib Require Import Tree GoSort.
From W.model Require Import ClosedSets ClosedSetsSpec.
From W.proofs Require Import ClosedSets_proofs.
Import ListNotations.

Lemma splice_perm : forall (A : Type) (i : nat) (l : list A) (y : A),
  Permutation (firstn i l ++ y :: skipn i l) (y :: l).
Proof.
  intros A i l y. apply Permutation_sym.
  etransitivity; [|apply Permutation_middle]. rewrite firstn_skipn. reflexivity.
Qed.

Lemma filter_nil : forall (A : Type) (f : A -> bool) (l : list A),
  filter f l = [] <-> forall x, In x l -> f x = false.
Proof.
  intros A f. induction l as [|a l IH]; simpl.
  - split; auto. intros _ x [].
  - destruct (f a) eqn:E.
    + split; [discriminate|]. intros H. specialize (H a (or_introl eq_refl)). congruence.
    + rewrite IH. split.
      * intros H x [<-|Hx]; auto.
      * intros H x Hx. apply H; auto.
Qed.

Lemma seen_bound : forall g (l : list cid),
  NoDup l -> (forall x, In x l -> get_commit g x <> None) -> length l <= ncommits g.
Proof.
  intros g l Hnd Hex. unfold ncommits. rewrite <- (map_length fst (s_commits g)).
  apply NoDup_incl_length; auto. intros x Hx. specialize (Hex x Hx).
  destruct (get_commit g x) as [cm|] eqn:E; [|congruence]. eapply get_commit_dom; eauto.
Qed.

Ltac splits := repeat match goal with |- _ /\ _ => split end.

Section Queue.
  Variable g : store.
  Variable refs : list cid.

  (** [P] (ghost) = the commits popped so far *)
  Record qbase (q : cqueue) (P : list cid) : Prop := mk_qbase {
    qb_nodup : NoDup (q_seen q);
    qb_items : forall s c, In (s, c) (q_items q) -> get_commit g s = Some c /\ In s (q_seen q);
    qb_items_nodup : NoDup (map fst (q_items q));
    qb_split : forall x, In x (q_seen q) -> In x (map fst (q_items q)) \/ In x P;
    qb_P : forall x, In x P -> In x (q_seen q);
    qb_reach : forall x, In x (q_seen q) -> reach g refs x /\ get_commit g x <> None;
    qb_refs : forall r, In r refs -> In r (q_seen q)
  }.

  (** every parent of a popped commit has been seen *)
  Definition qclosed (q : cqueue) (P : list cid) : Prop :=
    forall x p, In x P -> parent_of g x p -> In p (q_seen q).

  Lemma qbase_lens : forall q P, qbase q P ->
    length (q_items q) <= length (q_seen q) /\ length (q_seen q) <= ncommits g.
  Proof.
    intros q P H. split.
    - assert (Hl : length (map fst (q_items q)) <= length (q_seen q)).
      { apply NoDup_incl_length.
        + apply (qb_items_nodup _ _ H).
        + intros x Hx. apply in_map_iff in Hx. destruct Hx as [[s c] [<- Hin]].
          apply (qb_items _ _ H) in Hin. simpl. tauto. }
      rewrite map_length in Hl. exact Hl.
    - apply seen_bound. apply (qb_nodup _ _ H). intros x Hx. apply (qb_reach _ _ H); auto.
  Qed.

  Lemma q_insert_spec : forall q P sum, qbase q P -> reach g refs sum ->
    match q_insert g q sum with
    | Ok q' => qbase q' P /\ In sum (q_seen q') /\ incl (q_seen q) (q_seen q') /\
               length (q_items q') + length (q_seen q) = length (q_items q) + length (q_seen q')
    | ErrStore => get_commit g sum = None
    | Fuel => False
    end.
  Proof.
    intros q P sum HB Hr. unfold q_insert. destruct (mem sum (q_seen q)) eqn:Em.
    - apply mem_In in Em. split; [exact HB|split; [auto|split; [apply incl_refl|reflexivity]]].
    - apply mem_false in Em. destruct (get_commit g sum) as [c|] eqn:Eg; auto.
      set (i := search _ _).
      pose proof (splice_perm _ i (q_items q) (sum, c)) as Hperm.
      repeat split; simpl; auto.
      + constructor; auto. apply (qb_nodup _ _ HB).
      + pose proof (Permutation_in _ Hperm H) as Hin. destruct Hin as [E|Hin].
        * inversion E; subst; auto.
        * apply (qb_items _ _ HB) in Hin. tauto.
      + pose proof (Permutation_in _ Hperm H) as Hin. destruct Hin as [E|Hin].
        * inversion E; subst; auto.
        * apply (qb_items _ _ HB) in Hin. tauto.
      + apply (Permutation_NoDup (Permutation_sym (Permutation_map fst Hperm))). simpl.
        constructor; [|apply (qb_items_nodup _ _ HB)].
        intros Hin. apply in_map_iff in Hin. destruct Hin as [[s c0] [E Hin]]. simpl in E; subst.
        apply (qb_items _ _ HB) in Hin. tauto.
      + intros x [<-|Hx].
        * left. apply (Permutation_in _ (Permutation_sym (Permutation_map fst Hperm))). left; auto.
        * destruct (qb_split _ _ HB x Hx) as [Hi|Hp]; auto.
          left. apply (Permutation_in _ (Permutation_sym (Permutation_map fst Hperm))). right; auto.
      + intros x Hx. right. apply (qb_P _ _ HB); auto.
      + destruct H as [<-|Hx]; auto. apply (qb_reach _ _ HB); auto.
      + destruct H as [<-|Hx]. rewrite Eg; discriminate. apply (qb_reach _ _ HB); auto.
      + intros r Hr'. right. apply (qb_refs _ _ HB); auto.
      + intros x Hx. right; auto.
      + pose proof (Permutation_length Hperm) as Hl. rewrite app_length in *. simpl in *. lia.
  Qed.

  Lemma q_insert_parents_spec : forall ps q P, qbase q P -> (forall p, In p ps -> reach g refs p) ->
    match q_insert_parents g q ps with
    | Ok q' => qbase q' P /\ (forall p, In p ps -> In p (q_seen q')) /\ incl (q_seen q) (q_seen q') /\
               length (q_items q') + length (q_seen q) = length (q_items q) + length (q_seen q')
    | ErrStore => exists p, In p ps /\ get_commit g p = None
    | Fuel => False
    end.
  Proof.
    induction ps as [|p r IH]; intros q P HB Hr; simpl.
    - splits; auto. intros ? []. apply incl_refl.
    - pose proof (q_insert_spec q P p HB (Hr p (or_introl eq_refl))) as Hi.
      destruct (q_insert g q p) as [q1| |]; auto.
      + destruct Hi as [HB1 [Hin [Hincl Hlen]]].
        specialize (IH q1 P HB1 (fun x Hx => Hr x (or_intror Hx))).
        destruct (q_insert_parents g q1 r) as [q2| |]; auto.
        * destruct IH as [HB2 [Hin2 [Hincl2 Hlen2]]]. splits; auto.
          -- intros x [<-|Hx]; auto.
          -- eapply incl_tran; eauto.
          -- lia.
        * destruct IH as [x [Hx Hn]]. exists x. split; auto.
      + exists p. split; auto.
  Qed.

  (** PopUntil: found, or the queue is exhausted without ever popping b *)
  Lemma pop_until_spec : forall fuel q P b, qbase q P -> qclosed q P ->
    ncommits g + length (q_items q) <= fuel + length (q_seen q) ->
    match pop_until g fuel q b with
    | PUFound q' c => exists P', qbase q' P' /\ qclosed q' P' /\ get_commit g b = Some c /\
                                 In b (q_seen q') /\ incl (q_seen q) (q_seen q')
    | PUEOF q' => exists P', qbase q' P' /\ qclosed q' P' /\ q_items q' = [] /\
                             (In b P' -> In b P) /\ incl (q_seen q) (q_seen q')
    | PUErr => ~ closed g
    | PUFuel => False
    end.
  Proof.
    induction fuel as [|f IH]; intros q P b HB HC Hlen.
    - destruct (qbase_lens q P HB) as [L1 L2]. destruct q as [items seen]. simpl in *.
      destruct items as [|[s c] rest]; simpl.
      + exists P. splits; auto. apply incl_refl.
      + simpl in Hlen. lia.
    - destruct (qbase_lens q P HB) as [L1 L2]. destruct q as [items seen].
      destruct items as [|[s c] rest]; simpl in *.
      + exists P. splits; auto. apply incl_refl.
      + assert (Hs : get_commit g s = Some c /\ In s seen) by (apply (qb_items _ _ HB); left; auto).
        destruct Hs as [Hgs Hss].
        assert (HB0 : qbase (mkQ rest seen) (s :: P)).
        { constructor; simpl.
          - apply (qb_nodup _ _ HB).
          - intros s0 c0 Hin. apply (qb_items _ _ HB). right; auto.
          - pose proof (qb_items_nodup _ _ HB) as Hn. simpl in Hn. inversion Hn; auto.
          - intros x Hx. destruct (qb_split _ _ HB x Hx) as [[<-|Hi]|Hp]; simpl; auto.
          - intros x [<-|Hx]; auto. apply (qb_P _ _ HB); auto.
          - apply (qb_reach _ _ HB).
          - apply (qb_refs _ _ HB). }
        assert (Hrp : forall p, In p (c_parents c) -> reach g refs p).
        { intros p Hp. destruct (qb_reach _ _ HB s Hss) as [[r [Hr Ha]] _].
          exists r. split; auto. eapply anc_snoc; eauto.
          unfold parent_of. rewrite (parents_of_get _ _ _ Hgs). auto. }
        pose proof (q_insert_parents_spec (c_parents c) _ _ HB0 Hrp) as Hi.
        destruct (q_insert_parents g (mkQ rest seen) (c_parents c)) as [q'| |]; simpl in Hi.
        * destruct Hi as [HB1 [Hin1 [Hincl1 Hlen1]]].
          assert (HC1 : qclosed q' (s :: P)).
          { intros x p [<-|Hx] Hp.
            - apply Hin1. unfold parent_of in Hp. rewrite (parents_of_get _ _ _ Hgs) in Hp. auto.
            - apply Hincl1. apply (HC x p Hx Hp). }
          destruct (N.eqb s b) eqn:Eb.
          -- apply N.eqb_eq in Eb. subst b. exists (s :: P). splits; auto.
          -- apply N.eqb_neq in Eb.
             assert (Hlen' : ncommits g + length (q_items q') <= f + length (q_seen q')) by lia.
             specialize (IH q' (s :: P) b HB1 HC1 Hlen').
             destruct (pop_until g f q' b) as [q2 c2|q2| |]; auto.
             ++ destruct IH as [P' [H1 [H2 [H3 [H4 H5]]]]]. exists P'. splits; auto.
                eapply incl_tran; eauto.
             ++ destruct IH as [P' [H1 [H2 [H3 [H4 H5]]]]]. exists P'. splits; auto.
                ** intros Hb. destruct (H4 Hb) as [E|Hp]; auto. congruence.
                ** eapply incl_tran; eauto.
        * destruct Hi as [p [Hp Hn]]. intros Hcl. apply (Hcl s p); auto.
          unfold parent_of. rewrite (parents_of_get _ _ _ Hgs). auto.
        * contradiction.
  Qed.

  (** once the queue is exhausted everything reachable from the refs has been seen *)
  Lemma exhausted_reach : forall q P, qbase q P -> qclosed q P -> q_items q = [] ->
    forall x, reach g refs x -> In x (q_seen q).
  Proof.
    intros q P HB HC He x [r [Hr Ha]]. apply (qb_refs _ _ HB) in Hr.
    induction Ha as [c|c p a Hp Ha IH]; auto.
    apply IH. destruct (qb_split _ _ HB c Hr) as [Hi|Hpp].
    - rewrite He in Hi. destruct Hi.
    - apply (HC c p Hpp Hp).
  Qed.

  Lemma pu_fuel_ok : forall q P, qbase q P ->
    ncommits g + length (q_items q) <= pu_fuel g + length (q_seen q).
  Proof. intros q P HB. destruct (qbase_lens q P HB). unfold pu_fuel. lia. Qed.

  (** ** NewCommitsQueue *)
  Definition rinv (items : list qitem) (seen : list cid) : Prop :=
    NoDup seen /\
    (forall s c, In (s, c) items -> get_commit g s = Some c /\ In s seen) /\
    NoDup (map fst items) /\
    (forall x, In x seen -> In x (map fst items)) /\
    (forall x, In x seen -> In x refs /\ get_commit g x <> None).

  Lemma reset_loop_spec : forall init items seen, rinv items seen -> incl init refs ->
    match q_reset_loop g init items seen with
    | Ok (items', seen') => rinv items' seen' /\ incl seen seen' /\ forall r, In r init -> In r seen'
    | ErrStore => exists r, In r init /\ get_commit g r = None
    | Fuel => False
    end.
  Proof.
    induction init as [|v r IH]; intros items seen HI Hincl; simpl.
    - split; [exact HI|split; [apply incl_refl|intros ? []]].
    - assert (Hincl' : incl r refs) by (intros x Hx; apply Hincl; right; auto).
      destruct (mem v seen) eqn:Em.
      + apply mem_In in Em. specialize (IH items seen HI Hincl').
        destruct (q_reset_loop g r items seen) as [[items' seen']| |]; auto.
        * destruct IH as [H1 [H2 H3]]. splits; auto. intros x [<-|Hx]; auto.
        * destruct IH as [x [Hx Hn]]. exists x. split; auto.
      + apply mem_false in Em. destruct (get_commit g v) as [c|] eqn:Eg.
        * destruct HI as [I1 [I2 [I3 [I4 I5]]]].
          assert (HI' : rinv (items ++ [(v, c)]) (v :: seen)).
          { unfold rinv. splits.
            - constructor; auto.
            - intros s0 c0 H. apply in_app_or in H. destruct H as [H|[E|[]]].
              + apply I2 in H. simpl. tauto.
              + inversion E; subst. split; auto. left; auto.
            - rewrite map_app. simpl.
              apply (Permutation_NoDup (Permutation_cons_append _ _)). constructor; auto.
              intros Hin. apply in_map_iff in Hin. destruct Hin as [[s c0] [E Hin]]. simpl in E; subst.
              apply I2 in Hin. tauto.
            - intros x [<-|Hx]; rewrite map_app, in_app_iff; simpl; auto.
            - intros x [<-|Hx].
              + split. apply Hincl; left; auto. rewrite Eg; discriminate.
              + apply I5; auto. }
          specialize (IH _ _ HI' Hincl').
          destruct (q_reset_loop g r (items ++ [(v, c)]) (v :: seen)) as [[items' seen']| |]; auto.
          -- destruct IH as [H1 [H2 H3]]. splits; auto.
             ++ intros x Hx. apply H2. right; auto.
             ++ intros x [<-|Hx]; auto. apply H2. left; auto.
          -- destruct IH as [x [Hx Hn]]. exists x. split; auto.
        * exists v. split; auto.
  Qed.

  Lemma q_new_spec : forall qsort, sort_fun qsort ->
    match q_new qsort g refs with
    | Ok q => qbase q [] /\ qclosed q []
    | ErrStore => ~ refs_ok g refs
    | Fuel => False
    end.
  Proof.
    intros qsort Hs. unfold q_new.
    assert (H0 : rinv [] []).
    { unfold rinv. splits; try apply NoDup_nil; try (intros ? []; fail); intros ? ? []. }
    pose proof (reset_loop_spec refs [] [] H0 (incl_refl _)) as H.
    destruct (q_reset_loop g refs [] []) as [[items seen]| |]; auto.
    - destruct H as [[I1 [I2 [I3 [I4 I5]]]] [_ H3]]. pose proof (Hs items) as Hp. split.
      + constructor; simpl; auto.
        * intros s c Hin. apply I2. eapply Permutation_in; eauto.
        * apply (Permutation_NoDup (Permutation_sym (Permutation_map fst Hp))). auto.
        * intros x Hx. left. apply (Permutation_in _ (Permutation_sym (Permutation_map fst Hp))). auto.
        * intros x [].
        * intros x Hx. destruct (I5 x Hx) as [Hr He]. split; auto. exists x. split; auto. apply anc_refl.
      + intros x p [].
    - destruct H as [r [Hr Hn]]. intros Hok. apply (Hok r Hr Hn).
  Qed.
End Queue.

(* ------------------------------------------------------------------ *)
(** * ensureWantsAreReachable *)
(* ------------------------------------------------------------------ *)

Definition good_want (g : store) (refs : list cid) (w : cid) : Prop :=
  reach g refs w /\ full g w.

Lemma confirm_In : forall g c w conf x,
  In x (confirm g c w conf) <-> (x = w /\ table_exist g (c_table c) = true) \/ In x conf.
Proof.
  intros g c w conf x. unfold confirm. destruct (table_exist g (c_table c)); simpl.
  - split; intros [H|H]; auto. destruct H; auto.
  - split; auto. intros [[_ H]|H]; auto. discriminate.
Qed.

Lemma ew_loop_spec : forall g refs wants q P conf, qbase g refs q P -> qclosed g q P ->
  match ew_loop g q wants conf with
  | Ok (q', conf') =>
      (exists P', qbase g refs q' P' /\ qclosed g q' P') /\
      (forall w, In w conf' -> In w conf \/ (In w wants /\ good_want g refs w)) /\
      (forall w, In w wants -> In w conf' \/ exists w', In w' wants /\ ~ good_want g refs w') /\
      incl conf conf'
  | ErrStore => ~ closed g
  | Fuel => False
  end.
Proof.
  intros g refs. induction wants as [|w r IH]; intros q P conf HB HC; cbn [ew_loop].
  - split; [eauto|split; [intros w Hw; auto|split; [intros ? []|apply incl_refl]]].
  - destruct (mem w (q_seen q)) eqn:Em.
    + apply mem_In in Em. destruct (qb_reach _ _ _ _ HB w Em) as [Hr He].
      destruct (get_commit g w) as [c|] eqn:Eg; [|congruence].
      specialize (IH q P (confirm g c w conf) HB HC).
      destruct (ew_loop g q r (confirm g c w conf)) as [[q' conf']| |]; auto.
      destruct IH as [HP [H1 [H2 H3]]]. splits; auto.
      * intros x Hx. destruct (H1 x Hx) as [Hc|[Hin Hg]].
        -- apply confirm_In in Hc. destruct Hc as [[-> Ht]|Hc]; auto.
           right. split; [simpl; auto|]. split; auto. exists c. auto.
        -- right. split; simpl; auto.
      * intros x [<-|Hx].
        -- destruct (table_exist g (c_table c)) eqn:Et.
           ++ left. apply H3. apply confirm_In. left. auto.
           ++ right. exists w. split; [simpl; auto|]. intros [_ [cm [Hcm Ht]]].
              rewrite Eg in Hcm. inversion Hcm; subst. congruence.
        -- destruct (H2 x Hx) as [Hc|[w' [Hw' Hb]]]; auto. right. exists w'. split; simpl; auto.
      * intros x Hx. apply H3. apply confirm_In. auto.
    + apply mem_false in Em.
      pose proof (pop_until_spec g refs (pu_fuel g) q P w HB HC (pu_fuel_ok g refs q P HB)) as Hp.
      destruct (pop_until g (pu_fuel g) q w) as [q1 c|q1| |]; auto.
      * destruct Hp as [P1 [HB1 [HC1 [Hg [Hin Hincl]]]]].
        specialize (IH q1 P1 (confirm g c w conf) HB1 HC1).
        destruct (ew_loop g q1 r (confirm g c w conf)) as [[q' conf']| |]; auto.
        destruct IH as [HP [H1 [H2 H3]]]. splits; auto.
        -- intros x Hx. destruct (H1 x Hx) as [Hc|[Hi Hgd]].
           ++ apply confirm_In in Hc. destruct Hc as [[-> Ht]|Hc]; auto.
              right. split; [simpl; auto|]. split.
              ** apply (qb_reach _ _ _ _ HB1 w Hin).
              ** exists c. auto.
           ++ right. split; simpl; auto.
        -- intros x [<-|Hx].
           ++ destruct (table_exist g (c_table c)) eqn:Et.
              ** left. apply H3. apply confirm_In. left. auto.
              ** right. exists w. split; [simpl; auto|]. intros [_ [cm [Hcm Ht]]].
                 rewrite Hg in Hcm. inversion Hcm; subst. congruence.
           ++ destruct (H2 x Hx) as [Hc|[w' [Hw' Hb]]]; auto. right. exists w'. split; simpl; auto.
        -- intros x Hx. apply H3. apply confirm_In. auto.
      * destruct Hp as [P1 [HB1 [HC1 [He [Hb Hincl]]]]]. splits; eauto.
        -- intros x Hx. right. exists w. split; [simpl; auto|]. intros [Hr _]. apply Em.
           assert (Hw : In w (q_seen q1)) by (eapply exhausted_reach; eauto).
           destruct (qb_split _ _ _ _ HB1 w Hw) as [Hi|Hpp].
           ++ rewrite He in Hi. destruct Hi.
           ++ apply (qb_P _ _ _ _ HB). auto.
        -- apply incl_refl.
Qed.

Lemma ensure_wants_spec : forall g refs wants q P, qbase g refs q P -> qclosed g q P ->
  match ensure_wants g q wants with
  | EOk q' => (exists P', qbase g refs q' P' /\ qclosed g q' P') /\
              forall w, In w wants -> good_want g refs w
  | EUnrec sums => sums <> [] /\ exists w, In w wants /\ ~ good_want g refs w
  | EErr => ~ closed g
  | EFuel => False
  end.
Proof.
  intros g refs wants q P HB HC. unfold ensure_wants.
  pose proof (ew_loop_spec g refs wants q P [] HB HC) as H.
  destruct (ew_loop g q wants []) as [[q' conf']| |]; auto.
  destruct H as [HP [H1 [H2 _]]].
  destruct (filter (fun w => negb (mem w conf')) wants) as [|s ss] eqn:Ef.
  - split; auto. intros w Hw. rewrite filter_nil in Ef. specialize (Ef w Hw).
    apply negb_false_iff in Ef. apply mem_In in Ef. destruct (H1 w Ef) as [[]|[_ Hg]]. auto.
  - split; [discriminate|].
    assert (Hs : In s (filter (fun w => negb (mem w conf')) wants)) by (rewrite Ef; left; auto).
    apply filter_In in Hs. destruct Hs as [Hsw Hns]. apply negb_true_iff in Hns. apply mem_false in Hns.
    destruct (H2 s Hsw) as [Hc|Hb]; auto. contradiction.
Qed.

(* ------------------------------------------------------------------ *)
(** * findCommons *)
(* ------------------------------------------------------------------ *)

Definition anc_ok (g : store) (anc : list cid) : Prop :=
  NoDup anc /\ forall x, In x anc -> get_commit g x <> None.

Lemma maxdeg_bound : forall g s c, get_commit g s = Some c -> length (c_parents c) <= maxdeg g.
Proof.
  intros g. unfold get_commit, maxdeg. induction (s_commits g) as [|[k v] r IH]; simpl; intros s c H.
  - discriminate.
  - destruct (N.eqb k s).
    + inversion H; subst. apply Nat.le_max_l.
    + apply IH in H. etransitivity; [exact H|apply Nat.le_max_r].
Qed.

Lemma anc_walk_spec : forall g fuel q anc, anc_ok g anc ->
  length q + (ncommits g - length anc) * (maxdeg g + 2) <= fuel ->
  match anc_walk g fuel q anc with
  | Ok anc' => anc_ok g anc'
  | ErrStore => closed g -> (forall x, In x q -> get_commit g x <> None) -> False
  | Fuel => False
  end.
Proof.
  intros g. induction fuel as [|f IH]; intros q anc HA Hf.
  - destruct q as [|s q']; simpl in *; auto. inversion Hf.
  - destruct q as [|s q']; simpl in *; auto.
    destruct (mem s anc) eqn:Em.
    + assert (Hf0 : length q' + (ncommits g - length anc) * (maxdeg g + 2) <= f).
      { set (X := (ncommits g - length anc) * (maxdeg g + 2)) in *. lia. }
      specialize (IH q' anc HA Hf0). destruct (anc_walk g f q' anc); auto.
    + apply mem_false in Em. destruct (get_commit g s) as [c|] eqn:Eg.
      * destruct HA as [HN HE].
        assert (HA' : anc_ok g (s :: anc)).
        { split. constructor; auto. intros x [<-|Hx]; auto. rewrite Eg; discriminate. }
        pose proof (seen_bound g (s :: anc) (proj1 HA') (proj2 HA')) as Hb. simpl in Hb.
        pose proof (maxdeg_bound g s c Eg) as Hd.
        assert (Hf' : length (q' ++ c_parents c) + (ncommits g - length (s :: anc)) * (maxdeg g + 2) <= f).
        { rewrite app_length. simpl.
          remember (ncommits g - S (length anc)) as k'.
          replace (ncommits g - length anc) with (S k') in Hf by lia.
          rewrite Nat.mul_succ_l in Hf. set (X := k' * (maxdeg g + 2)) in *. lia. }
        specialize (IH (q' ++ c_parents c) (s :: anc) HA' Hf').
        destruct (anc_walk g f (q' ++ c_parents c) (s :: anc)); auto.
        intros Hc Hq. apply IH; auto. intros x Hx. apply in_app_or in Hx. destruct Hx as [Hx|Hx]; auto.
        apply (Hc s x). unfold parent_of. rewrite (parents_of_get _ _ _ Eg). auto.
      * intros _ Hq. apply (Hq s); auto.
Qed.

Lemma add_to_commons_spec : forall g b commons anc, anc_ok g anc ->
  match add_to_commons g b commons anc with
  | Ok (commons', anc') => anc_ok g anc' /\ (forall a, In a commons' -> In a commons \/ a = b)
  | ErrStore => closed g -> get_commit g b <> None -> False
  | Fuel => False
  end.
Proof.
  intros g b commons anc HA. unfold add_to_commons. destruct (mem b anc).
  - split; auto.
  - assert (Hf : length [b] + (ncommits g - length anc) * (maxdeg g + 2) <= aw_fuel g).
    { unfold aw_fuel. simpl.
      assert (H : (ncommits g - length anc) * (maxdeg g + 2) <= ncommits g * S (S (maxdeg g))).
      { replace (S (S (maxdeg g))) with (maxdeg g + 2) by lia. apply Nat.mul_le_mono_r. lia. }
      lia. }
    pose proof (anc_walk_spec g (aw_fuel g) [b] anc HA Hf) as H.
    destruct (anc_walk g (aw_fuel g) [b] anc) as [anc'| |]; auto.
    + split; auto. intros a Ha. apply in_app_or in Ha. destruct Ha as [Ha|[<-|[]]]; auto.
    + intros Hc Hb. apply H; auto. intros x [<-|[]]; auto.
Qed.

Lemma fc_loop_spec : forall g refs haves q P commons anc,
  qbase g refs q P -> qclosed g q P -> anc_ok g anc ->
  match fc_loop g q haves commons anc with
  | Ok commons' => forall a, In a commons' ->
                             In a commons \/ (In a haves /\ get_commit g a <> None /\ reach g refs a)
  | ErrStore => ~ closed g
  | Fuel => False
  end.
Proof.
  intros g refs. induction haves as [|h r IH]; intros q P commons anc HB HC HA; cbn [fc_loop].
  - auto.
  - assert (Hlift : forall commons', (forall a, In a commons' ->
                In a commons \/ (In a r /\ get_commit g a <> None /\ reach g refs a)) ->
              forall a, In a commons' ->
                In a commons \/ (In a (h :: r) /\ get_commit g a <> None /\ reach g refs a)).
    { intros commons' H a Ha. destruct (H a Ha) as [Hc|[Hi Hr]]; auto. right. split; simpl; auto. }
    assert (Hadd : forall q1 P1, qbase g refs q1 P1 -> qclosed g q1 P1 -> In h (q_seen q1) ->
              match
                match add_to_commons g h commons anc with
                | Ok (commons', anc') => fc_loop g q1 r commons' anc'
                | ErrStore => ErrStore
                | Fuel => Fuel
                end
              with
              | Ok commons' => forall a, In a commons' ->
                  In a commons \/ (In a (h :: r) /\ get_commit g a <> None /\ reach g refs a)
              | ErrStore => ~ closed g
              | Fuel => False
              end).
    { intros q1 P1 HB1 HC1 Hs. destruct (qb_reach _ _ _ _ HB1 h Hs) as [Hr He].
      pose proof (add_to_commons_spec g h commons anc HA) as Hadd.
      destruct (add_to_commons g h commons anc) as [[commons' anc']| |]; auto.
      destruct Hadd as [HA' Hcm]. specialize (IH q1 P1 commons' anc' HB1 HC1 HA').
        destruct (fc_loop g q1 r commons' anc') as [cs| |]; auto.
        intros a Ha. destruct (IH a Ha) as [Hc|[Hi Hr']].
        + destruct (Hcm a Hc) as [Hc'| ->]; auto. right. split; simpl; auto.
        + right. split; simpl; auto. }
    destruct (mem h anc).
    + specialize (IH q P commons anc HB HC HA). destruct (fc_loop g q r commons anc) as [cs| |]; auto.
      apply Hlift. exact IH.
    + destruct (mem h (q_seen q)) eqn:Em.
      * apply mem_In in Em. apply (Hadd q P); auto.
      * pose proof (pop_until_spec g refs (pu_fuel g) q P h HB HC (pu_fuel_ok g refs q P HB)) as Hp.
        destruct (pop_until g (pu_fuel g) q h) as [q1 c|q1| |]; auto.
        destruct Hp as [P1 [HB1 [HC1 [Hg [Hin Hincl]]]]]. apply (Hadd q1 P1); auto.
Qed.

Lemma find_commons_spec : forall g refs haves q P, qbase g refs q P -> qclosed g q P ->
  match find_commons g q haves with
  | Ok commons => forall a, In a commons -> In a haves /\ get_commit g a <> None /\ reach g refs a
  | ErrStore => ~ closed g
  | Fuel => False
  end.
Proof.
  intros g refs haves q P HB HC. unfold find_commons.
  assert (HA : anc_ok g []) by (split; [constructor|intros ? []]).
  pose proof (fc_loop_spec g refs haves q P [] [] HB HC HA) as H.
  destruct (fc_loop g q haves [] []) as [cs| |]; auto.
  intros a Ha. destruct (H a Ha) as [[]|Hr]; auto.
Qed.
