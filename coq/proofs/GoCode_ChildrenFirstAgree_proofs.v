(** (i) corollary: the two independently written models of prune.childrenFirst
    (model/Prune.v for C12, model/Crash.v for C13) agree, because both equal the translated
    Go code. *)
From Coq Require Import List ZArith NArith Bool String Lia Arith.
From W.lib Require Import Tree Bytes GoLang.
From W.gen Require Import ExtractedCode.
From W.proofs Require Import GoLang_proofs.
From W.proofs Require GoCode_ChildrenFirst_proofs GoCode_ChildrenFirstPrune_proofs GoCode_ChildrenFirstCrash_proofs.
From W.model Require PruneRepo Prune CrashRepo Crash.
Import ListNotations.
Local Open Scope Z_scope.

Definition encN (n : N) : bytes := [n].
Lemma encN_inj a b : encN a = encN b -> a = b.
Proof. unfold encN. congruence. Qed.

Lemma map_inj {A B} (f : A -> B) : (forall a b, f a = f b -> a = b) -> forall l1 l2, map f l1 = map f l2 -> l1 = l2.
Proof.
  intros Hf. induction l1 as [|a l1 IH]; intros [|b l2] H; cbn in H; try discriminate; [reflexivity|].
  inversion H. f_equal; auto.
Qed.

Lemma VStr_inj a b : VStr a = VStr b -> a = b.
Proof. congruence. Qed.

Section Agree.
  Variable l : list CrashRepo.cid.                       (* the commits to remove, Crash.v's view *)
  Variable num : CrashRepo.cid -> N.                     (* their ids in Prune.v's view *)
  Variable cm : list (N * PruneRepo.commit).             (* Prune.v's commit map *)
  Hypothesis l_nodup : NoDup l.
  Hypothesis num_inj : forall a b, num a = num b -> a = b.
  Hypothesis cm_ok : forall c, In c l ->
    exists t, PruneRepo.get cm (num c) = Some (PruneRepo.mkCommit t (map num (CrashRepo.c_parents c))).
  Hypothesis small1 : 2 * Z.of_nat (length (flat_map (Prune.cf_parents cm (map num l)) (map num l))) < 2 ^ 62.
  Hypothesis small2 : 2 * Z.of_nat (length (flat_map (Crash.kparents l) l)) < 2 ^ 62.

  Definition par_cm (b : bytes) : option (list bytes) :=
    match b with
    | [n] => option_map (fun co => map encN (PruneRepo.c_parents co)) (PruneRepo.get cm n)
    | _ => None
    end.

  Theorem children_first_models_agree :
    Prune.children_first cm (map num l) = Some (map num (Crash.children_first l)).
  Proof.
    assert (Hnd : NoDup (map num l)).
    { clear -l_nodup num_inj. induction l as [|a l0 IH]; cbn; [constructor|].
      inversion l_nodup; subst. constructor; [|auto].
      intros H. apply in_map_iff in H. destruct H as (b & E & Hb). apply num_inj in E. subst. contradiction. }
    destruct (PruneOrder_proofs.children_first_spec cm (map num l) Hnd) as (out & E & _).
    rewrite E. f_equal.
    destruct (GoCode_ChildrenFirstPrune_proofs.go_childrenFirst_prune cm (map num l) Hnd encN par_cm out
                encN_inj) as [f1 R1]; [|exact E|exact small1|].
    { intros c _. reflexivity. }
    destruct (GoCode_ChildrenFirstCrash_proofs.go_childrenFirst_crash l l_nodup (fun c => encN (num c)) par_cm)
      as [f2 R2]; [| |exact small2|].
    { intros a b H. apply num_inj, encN_inj, H. }
    { intros c Hc. destruct (cm_ok c Hc) as [t Ht]. cbn [par_cm encN]. rewrite Ht. cbn. now rewrite map_map. }
    rewrite map_map in R1.
    pose proof (run_func_det _ _ _ _ _ _ _ R1 R2 ltac:(discriminate) ltac:(discriminate)) as H.
    inversion H as [H1]. unfold v_strs in H1.
    apply (map_inj VStr VStr_inj) in H1.
    rewrite <- (map_map num encN) in H1.
    apply (map_inj encN encN_inj) in H1. exact H1.
  Qed.
End Agree.
