(** Specs of the packfile reader and pkt-line decoders (model/DecPack.v). *)
From Coq Require Import String.
From Coq Require Import List Lia Arith ZArith ZifyNat ZifyN ZifyBool.
From W.lib Require Import Tree Bytes GoSlice Reader.
From W.model Require Import DecPrim DecPack.
From W.proofs Require Import DecSpec_proofs DecPrim_proofs.
Local Open Scope N_scope.

Lemma spec_objhdr_step F c st :
  spec F c (fun _ => 0)%Z 0%Z (objhdr_step st)
       (fun x n => match x with inl _ => (1 <= n)%nat /\ True | inr _ => (1 <= n)%nat end).
Proof.
  destruct st as [u bits]. unfold objhdr_step.
  eapply (spec_bind _ _ _ 0%Z); [apply spec_rdf|lia|].
  intros [b e] n1 (Hn & Hw & Hc). cbn [fst snd] in *.
  destruct Hc as [[-> Hl]|[[-> [-> Hn0]]|[-> Hl]]]; [|sfail|sfail].
  destruct (idx_ok (pad 1 b) 0) as (x & -> & _); [rewrite pad_length; lia|]. cbn [lift bind].
  destruct ((x / 128) mod 2 =? 0); cbn beta; apply spec_ret; cbn beta; try lia; try (split; [lia|exact I]).
Qed.

(* the header loop allocates nothing: proved at rate 0, so at rate c its >= 1 byte gains c *)
Lemma spec_objhdr_read F c :
  spec F c (fun _ => 1 - 2 * Z.of_N c)%Z 1%Z (objhdr_read F) (fun _ n => (2 <= n)%nat).
Proof.
  unfold objhdr_read.
  eapply (spec_bind _ _ _ 0%Z); [apply spec_alloc|lia|]. intros ?u n0 ->; cbn beta.
  eapply (spec_bind _ _ _ 0%Z); [apply spec_rd_exact; lia|lia|].
  intros b n1 (-> & Hl & Hw). unfold zc.
  destruct (idx_ok b 0) as (x & -> & _); [lia|]. cbn [lift bind].
  eapply (spec_bind _ _ _ 0%Z).
  { apply (spec_mono_c_gain F 0 c 1); [lia|intros a n H; exact H|].
    apply (spec_loop_u F 0 (fun _ => 0)%Z 0%Z (fun _ => True) objhdr_step (fun _ n => (1 <= n)%nat));
      [lia|intros; lia| |exact I].
    intros st _. eapply spec_conseq; [apply spec_objhdr_step| |lia].
    intros [y|y] n H; split; try lia; exact H. }
  { lia. }
  intros u0 n Hn. cbn beta in *. apply spec_ret; cbn beta; lia.
Qed.

Definition c_pack : N := 300.

Lemma spec_object_read F :
  spec F c_pack (fun _ => 0)%Z 600%Z (object_read F) (fun x n => (2 <= n)%nat /\ wf_bytes (snd x)).
Proof.
  unfold object_read, c_pack.
  eapply (spec_bind _ _ _ 1%Z); [apply spec_objhdr_read|lia|].
  intros [ot u] n1 Hn. cbn beta in *.
  destruct (max_int64 <? u); [sfail|].
  eapply (spec_bind _ _ _ 0%Z); [apply spec_cpf|lia|].
  intros [d e] n2 (Hn2 & Hw & Hc). cbn [fst snd] in *.
  eapply (spec_bind _ _ _ 0%Z); [apply spec_alloc|lia|]. intros ?u n3 ->; cbn beta.
  destruct Hc as [[-> Hl]|[-> Hl]].
  - apply spec_ret; cbn beta; [lia|]. cbn [snd]. split; [lia|assumption].
  - sfail.
Qed.

Lemma spec_packfile_version F c :
  spec F c (fun _ => 12 - 8 * Z.of_N c)%Z 12%Z (packfile_version F) (fun _ n => n = 8%nat).
Proof.
  unfold packfile_version.
  eapply (spec_bind _ _ _ 0%Z); [apply spec_alloc|lia|]. intros ?u n0 ->; cbn beta.
  eapply (spec_bind _ _ _ 0%Z); [apply spec_rdf|cbn; lia|].
  intros [m e] n1 (Hn & Hw & Hc). cbn [fst snd parser_buf_charge] in *.
  destruct Hc as [[-> Hl]|[[-> [-> Hn0]]|[-> Hl]]]; [|sfail|sfail].
  destruct (beqb (pad 4 m) pack_magic); [|sfail].
  eapply (spec_bind _ _ _ 0%Z); [apply spec_rdf|lia|].
  intros [v e2] n2 (Hn2 & Hw2 & Hc2). cbn [fst snd] in *.
  destruct Hc2 as [[-> Hl2]|[[-> [-> Hn02]]|[-> Hl2]]]; [|sfail|sfail].
  rewrite pad_exact by auto.
  destruct (be_u32_ok v Hl2 Hw2) as (x & -> & _). cbn [lift].
  apply spec_ret; cbn beta; lia.
Qed.

Lemma spec_object_seq F :
  spec F c_pack (fun _ => 600)%Z 0%Z (object_seq F) (fun _ _ => True).
Proof.
  unfold object_seq.
  apply (spec_loop_u F c_pack (fun _ => 600)%Z 0%Z (fun _ => True) _ (fun _ _ => True)); [lia|auto| |exact I].
  intros objs _.
  eapply (spec_bind _ _ _ 0%Z); [apply spec_attempt; apply spec_object_read|lia|].
  intros [e|o] n HR; cbn beta iota in *.
  - destruct e; try congruence; apply spec_ret; cbn beta; try lia; exact I.
  - destruct HR as [HR _]. apply spec_ret; cbn beta; [lia|]. split; [lia|exact I].
Qed.

Lemma spec_packfile_read F :
  spec F c_pack (fun _ => 612)%Z 12%Z (packfile_read F) (fun _ _ => True).
Proof.
  unfold packfile_read.
  eapply (spec_bind _ _ _ 12%Z); [apply spec_packfile_version|lia|].
  intros v n1 ->. cbn beta. unfold c_pack.
  eapply (spec_bind _ _ _ 0%Z); [apply spec_object_seq|lia|].
  intros [objs e] n2 _. cbn beta. unfold c_pack. apply spec_ret; cbn beta; [lia|exact I].
Qed.

(** pkt-lines *)
Lemma hexval_bound c v : hexval c = Some v -> v < 16.
Proof.
  unfold hexval.
  destruct ((48 <=? c) && (c <=? 57)) eqn:E1; [intros H; inversion H; lia|].
  destruct ((97 <=? c) && (c <=? 102)) eqn:E2; [intros H; inversion H; lia|].
  destruct ((65 <=? c) && (c <=? 70)) eqn:E3; [intros H; inversion H; lia|discriminate].
Qed.

Lemma hex4_bound b u : hex4 b = Some u -> u < 65536.
Proof.
  unfold hex4. destruct b as [|a [|b0 [|c [|d [|]]]]]; try discriminate.
  destruct (hexval a) eqn:Ea; try discriminate. destruct (hexval b0) eqn:Eb; try discriminate.
  destruct (hexval c) eqn:Ec; try discriminate. destruct (hexval d) eqn:Ed; try discriminate.
  apply hexval_bound in Ea, Eb, Ec, Ed. intros H; inversion H; subst. lia.
Qed.

Definition K_pkt : Z := 131100.

Lemma spec_pktline_read F :
  spec F 16 (fun _ => 0)%Z K_pkt pktline_read (fun _ n => (4 <= n)%nat).
Proof.
  unfold pktline_read, K_pkt.
  eapply (spec_bind _ _ _ 12%Z); [apply spec_next_bytes|lia|].
  intros [b e] n1 (Hl & Hw & Hc). unfold nb_J, zc. cbn [fst snd parser_buf_charge] in *.
  destruct Hc as [[-> Hn]|[[-> [Hn Hn0]]|[-> Hn]]]; [|sfail|sfail].
  eapply (spec_bind _ _ _ 0%Z); [apply spec_alloc|lia|]. intros ?u n2 ->; cbn beta.
  destruct (hex4 b) as [u0|] eqn:Eh; [|sfail].
  pose proof (hex4_bound _ _ Eh) as Hu.
  destruct (u0 =? 0) eqn:E0; [apply spec_ret; cbn beta; lia|]. apply N.eqb_neq in E0.
  assert (Hch : Z.of_N (parser_buf_charge (N.to_nat u0)) = (2 * Z.of_N u0 + 4)%Z).
  { unfold parser_buf_charge. destruct (N.to_nat u0) eqn:E; lia. }
  eapply (spec_bind _ _ _ 0%Z); [apply spec_next_bytes|lia|].
  intros [b2 e2] n3 (Hl2 & Hw2 & Hc2). unfold nb_J, zc. cbn [fst snd] in *.
  destruct Hc2 as [[-> Hn2]|[[-> [Hn2 Hn02]]|[-> Hn2]]]; [|sfail|sfail].
  unfold slice_to. replace (N.to_nat u0 - 1 <=? length b2)%nat with true
    by (symmetry; apply Nat.leb_le; lia). cbn [lift bind].
  eapply (spec_bind _ _ _ 0%Z); [apply spec_alloc|lia|]. intros ?u n4 ->; cbn beta.
  apply spec_ret; cbn beta; lia.
Qed.

Lemma spec_pktline_seq F :
  spec F 16 (fun _ => K_pkt)%Z 0%Z (pktline_seq F) (fun _ _ => True).
Proof.
  unfold pktline_seq.
  apply (spec_loop_u F 16 (fun _ => K_pkt)%Z 0%Z (fun _ => True) _ (fun _ _ => True)); [lia|auto| |exact I].
  intros ls _.
  eapply (spec_bind _ _ _ 0%Z); [apply spec_attempt; apply spec_pktline_read|lia|].
  intros [e|l] n HR; cbn beta iota in *.
  - destruct e; try congruence; apply spec_ret; cbn beta; try (unfold K_pkt; lia); exact I.
  - apply spec_ret; cbn beta; [lia|]. split; [lia|exact I].
Qed.
