(** Proofs for C04, part 2: facts about well-formed tables, global lookup vs lookup in a
    window of block indices. *)
From W.lib Require Import Tree Bytes.
From W.model Require Import Diff DiffSpec.
From W.proofs Require Import Diff_proofs.
From Coq Require Import Arith ZArith Lia ZifyNat ZifyBool Sorting.Sorted.

(** * StronglySorted helpers *)
Lemma SS_app_inv {A} (R : A -> A -> Prop) l1 l2 :
  StronglySorted R (l1 ++ l2) ->
  StronglySorted R l1 /\ StronglySorted R l2 /\ (forall x y, In x l1 -> In y l2 -> R x y).
Proof.
  induction l1 as [|a l1 IH]; cbn; intros H.
  - split; [constructor|]. split; [exact H|]. intros x y [].
  - inversion H as [|? ? HS HF]; subst. destruct (IH HS) as (I1 & I2 & I3).
    rewrite Forall_app in HF. destruct HF as (F1 & F2).
    split; [constructor; auto|]. split; [exact I2|].
    intros x y [->|Hx] Hy.
    + rewrite Forall_forall in F2. auto.
    + auto.
Qed.

Lemma SS_klt_NoDup l : StronglySorted klt_p l -> NoDup l.
Proof.
  induction 1 as [|a l HS IH HF]; constructor; auto.
  intros Hin. rewrite Forall_forall in HF. apply HF in Hin.
  unfold klt_p in Hin. rewrite kcmp_refl in Hin. discriminate.
Qed.

(** * lookup *)
Lemma lookup_none l k : lookup l k = None <-> ~ In k (map fst l).
Proof.
  induction l as [|[k' r] l IH]; cbn.
  - split; auto.
  - destruct (keqb k' k) eqn:E.
    + apply keqb_eq in E. subst. split; [discriminate|]. intros H. exfalso. apply H. now left.
    + destruct (lookup l k) as [[p r']|].
      * split; [discriminate|]. intros H. exfalso.
        assert (Some (p, r') = None -> False) by discriminate.
        apply H. right. destruct (in_dec (list_eq_dec (list_eq_dec N.eq_dec)) k (map fst l)) as [i|n]; auto.
        exfalso. apply IH in n. discriminate.
      * split; auto. intros _ [->|Hin].
        -- rewrite keqb_refl in E. discriminate.
        -- revert Hin. apply IH. reflexivity.
Qed.

Lemma lookup_some_nth l k p r : lookup l k = Some (p, r) -> nth_error l p = Some (k, r).
Proof.
  revert p; induction l as [|[k' r'] l IH]; cbn; intros p; [discriminate|].
  destruct (keqb k' k) eqn:E.
  - apply keqb_eq in E. subst. intros H. injection H as <- <-. reflexivity.
  - destruct (lookup l k) as [[q r'']|]; [|discriminate].
    intros H. injection H as <- <-. cbn. auto.
Qed.

Lemma nth_lookup l k p r :
  NoDup (map fst l) -> nth_error l p = Some (k, r) -> lookup l k = Some (p, r).
Proof.
  revert p; induction l as [|[k' r'] l IH]; intros p ND H.
  - destruct p; discriminate.
  - cbn in ND. inversion ND as [|? ? Hn ND']; subst. cbn [lookup].
    destruct p as [|p]; cbn in H.
    + injection H as -> ->. now rewrite keqb_refl.
    + destruct (keqb k' k) eqn:E.
      * apply keqb_eq in E. subst. exfalso. apply Hn.
        apply nth_error_In in H. change k with (fst (k, r)). now apply in_map.
      * now rewrite (IH p ND' H).
Qed.

Lemma lookup_in l k p r : lookup l k = Some (p, r) -> In (k, r) l.
Proof. intros H. eapply nth_error_In. eapply lookup_some_nth; eauto. Qed.

Lemma lookup_app l1 l2 k :
  lookup (l1 ++ l2) k =
  match lookup l1 k with
  | Some x => Some x
  | None => match lookup l2 k with Some (p, r) => Some (length l1 + p, r) | None => None end
  end.
Proof.
  induction l1 as [|[k' r'] l1 IH]; cbn.
  - destruct (lookup l2 k) as [[p r]|]; reflexivity.
  - destruct (keqb k' k); [reflexivity|]. rewrite IH.
    destruct (lookup l1 k) as [[p r]|]; [reflexivity|].
    destruct (lookup l2 k) as [[p r]|]; reflexivity.
Qed.

Lemma bget_from_lookup b k o :
  bget_from b k o = match lookup b k with Some (p, r) => Some (o + p, r) | None => None end.
Proof.
  revert o; induction b as [|[k' r'] b IH]; intros o; cbn; [reflexivity|].
  destruct (keqb k' k); [f_equal; f_equal; lia|].
  rewrite IH. destruct (lookup b k) as [[p r]|]; [|reflexivity]. f_equal. f_equal. lia.
Qed.
Lemma bget_lookup b k : bget b k = lookup b k.
Proof.
  unfold bget. rewrite bget_from_lookup. destruct (lookup b k) as [[p r]|]; reflexivity.
Qed.

(** * lookup through a list of block indices *)
Fixpoint find_blocks (bls : list block) (k : key) (kk : nat) : option (nat * nat * rowid) :=
  match bls with
  | [] => None
  | b :: bls' =>
      match bget b k with
      | Some (o, r) => Some (kk, o, r)
      | None => find_blocks bls' k (S kk)
      end
  end.

Lemma lookup_sl_find bls k kk : lookup_sl (map Some bls) k kk = Ok (find_blocks bls k kk).
Proof.
  revert kk; induction bls as [|b bls IH]; intros kk; cbn; [reflexivity|].
  destruct (bget b k) as [[o r]|]; [reflexivity|apply IH].
Qed.

Definition shift_blk (a : nat) (x : option (nat * nat * rowid)) :=
  match x with Some (j, o, r) => Some (a + j, o, r) | None => None end.

Lemma find_blocks_shift bls k a kk : find_blocks bls k (a + kk) = shift_blk a (find_blocks bls k kk).
Proof.
  revert kk; induction bls as [|b bls IH]; intros kk; cbn; [reflexivity|].
  destruct (bget b k) as [[o r]|]; [reflexivity|].
  replace (S (a + kk)) with (a + S kk) by lia. apply IH.
Qed.

Lemma find_blocks_none bls k kk :
  (forall b, In b bls -> lookup b k = None) -> find_blocks bls k kk = None.
Proof.
  revert kk; induction bls as [|b bls IH]; intros kk H; cbn; [reflexivity|].
  rewrite bget_lookup, (H b) by now left. apply IH. intros b' Hb'. apply H. now right.
Qed.

Lemma find_blocks_app l1 l2 k kk :
  find_blocks (l1 ++ l2) k kk =
  match find_blocks l1 k kk with
  | Some x => Some x
  | None => find_blocks l2 k (kk + length l1)
  end.
Proof.
  revert kk; induction l1 as [|b l1 IH]; intros kk; cbn.
  - now rewrite Nat.add_0_r.
  - destruct (bget b k) as [[o r]|]; [reflexivity|]. rewrite IH.
    replace (S kk + length l1) with (kk + S (length l1)) by lia. reflexivity.
Qed.

Definition full_but_last (bs : nat) (bl : list block) : Prop :=
  forall i, S i < length bl -> length (nth i bl []) = bs.

Lemma full_but_last_tl bs b bl : full_but_last bs (b :: bl) -> full_but_last bs bl.
Proof. intros H i Hi. apply (H (S i)). cbn. lia. Qed.

Lemma find_blocks_concat bs bls k :
  full_but_last bs bls ->
  match find_blocks bls k 0 with
  | Some (j, o, r) => lookup (concat bls) k = Some (j * bs + o, r)
  | None => lookup (concat bls) k = None
  end.
Proof.
  induction bls as [|b bls IH]; intros F; cbn [find_blocks concat]; [reflexivity|].
  rewrite lookup_app, bget_lookup.
  destruct (lookup b k) as [[o r]|]; [cbn; reflexivity|].
  specialize (IH (full_but_last_tl _ _ _ F)).
  change 1 with (1 + 0). rewrite find_blocks_shift.
  destruct (find_blocks bls k 0) as [[[j o] r]|]; cbn [shift_blk].
  - rewrite IH. f_equal. f_equal.
    assert (length b = bs).
    { apply (F 0). destruct bls; [discriminate|cbn; lia]. }
    cbn. lia.
  - now rewrite IH.
Qed.

Lemma firstn_nth_in {A} (l : list A) n j d : j < n -> j < length l -> In (nth j l d) (firstn n l).
Proof.
  revert n j; induction l as [|x l IH]; intros n j H1 H2; [cbn in H2; lia|].
  destruct n as [|n]; [lia|]. destruct j as [|j]; cbn; [now left|].
  right. apply IH; cbn in H2; lia.
Qed.

Lemma In_nth_ex {A} (l : list A) x d : In x l -> exists j, j < length l /\ nth j l d = x.
Proof. apply In_nth. Qed.

(** looking a key up in the window [s, e) of block indices finds what the global lookup finds,
    provided no block outside the window holds the key *)
Lemma window_lookup bs bl k s e :
  full_but_last bs bl -> s <= e -> e <= length bl ->
  (forall j, j < length bl -> lookup (nth j bl []) k <> None -> s <= j < e) ->
  match find_blocks (sub s e bl) k 0 with
  | Some (kk, o, r) => lookup (concat bl) k = Some ((s + kk) * bs + o, r)
  | None => lookup (concat bl) k = None
  end.
Proof.
  intros F Hse He Hwin.
  assert (G : match find_blocks (firstn s bl ++ sub s e bl ++ skipn e bl) k 0 with
              | Some (j, o, r) => lookup (concat bl) k = Some (j * bs + o, r)
              | None => lookup (concat bl) k = None
              end).
  { rewrite <- (split3 bl s e Hse). exact (find_blocks_concat bs bl k F). }
  rewrite find_blocks_app in G.
  rewrite find_blocks_none in G.
  2:{ intros b Hb. destruct (In_nth_ex _ _ [] Hb) as (j & Hj & <-).
      rewrite firstn_length in Hj.
      destruct (lookup (nth j (firstn s bl) []) k) eqn:E; [|first [reflexivity|exact E]].
      exfalso. assert (j < s) by lia. assert (j < length bl) by lia.
      assert (nth j (firstn s bl) [] = nth j bl []) as EE.
      { rewrite <- (firstn_skipn s bl) at 2. rewrite app_nth1; [reflexivity|]. rewrite firstn_length. lia. }
      rewrite EE in E. specialize (Hwin j ltac:(lia) ltac:(congruence)). lia. }
  rewrite find_blocks_app in G.
  rewrite firstn_length, Nat.add_0_l in G. replace (Nat.min s (length bl)) with s in G by lia.
  assert (ES : find_blocks (sub s e bl) k s = shift_blk s (find_blocks (sub s e bl) k 0)).
  { rewrite <- find_blocks_shift. f_equal. lia. }
  rewrite ES in G. clear ES.
  destruct (find_blocks (sub s e bl) k 0) as [[[kk o] r]|]; cbn [shift_blk] in G.
  - exact G.
  - rewrite find_blocks_none in G; [exact G|].
    intros b Hb. destruct (In_nth_ex _ _ [] Hb) as (j & Hj & <-).
    rewrite skipn_length in Hj. rewrite nth_skipn_add.
    destruct (lookup (nth (e + j) bl []) k) eqn:E; [|first [reflexivity|exact E]].
    exfalso. specialize (Hwin (e + j) ltac:(lia) ltac:(congruence)). lia.
Qed.

(** * facts about well-formed tables *)
Section WF.
  Variable bs : nat.
  Variable bl : list block.
  Hypothesis WF : WF_blocks bs bl.

  Lemma wf_nth_size i : i < length bl ->
    1 <= length (nth i bl []) <= bs /\ (S i < length bl -> length (nth i bl []) = bs).
  Proof.
    intros Hi. destruct WF as (Sz & _). apply Sz. apply nth_error_nth'. exact Hi.
  Qed.

  Lemma wf_full_but_last : full_but_last bs bl.
  Proof. intros i Hi. apply wf_nth_size; lia. Qed.

  Lemma wf_keys_NoDup : NoDup (map fst (concat bl)).
  Proof. apply SS_klt_NoDup. apply WF. Qed.

  Lemma concat_split_at q : q <= length bl ->
    concat bl = concat (firstn q bl) ++ nth q bl [] ++ concat (skipn (S q) bl).
  Proof.
    intros Hq. rewrite <- (firstn_skipn q bl) at 1. rewrite concat_app. f_equal.
    destruct (le_lt_dec (length bl) q) as [L|L].
    - rewrite !skipn_all2 by lia. rewrite nth_overflow by lia. reflexivity.
    - rewrite <- (firstn_skipn 1 (skipn q bl)). rewrite concat_app, skipn_skipn_add.
      replace (q + 1) with (S q) by lia. f_equal.
      assert (E : skipn q bl = nth q bl [] :: skipn (S q) bl).
      { clear WF. revert q Hq L. induction bl as [|x l IH]; intros q Hq L; [cbn in L; lia|].
        destruct q; cbn; [reflexivity|]. apply IH; cbn in *; lia. }
      rewrite E. cbn. now rewrite app_nil_r.
  Qed.

  Lemma in_block_in_concat_firstn p q x :
    p < q -> p < length bl -> In x (nth p bl []) -> In x (concat (firstn q bl)).
  Proof.
    intros H1 H2 Hx. apply in_concat. exists (nth p bl []). split; [|exact Hx].
    apply firstn_nth_in; auto.
  Qed.

  (** keys of an earlier block are below keys of a later block *)
  Lemma cross_blocks p q k r k' r' :
    p < q -> q < length bl -> In (k, r) (nth p bl []) -> In (k', r') (nth q bl []) ->
    kcmp k k' = Lt.
  Proof.
    intros Hpq Hq H1 H2. destruct WF as (_ & SS).
    rewrite (concat_split_at q ltac:(lia)), map_app in SS.
    apply SS_app_inv in SS. destruct SS as (_ & _ & X). apply X.
    - change k with (fst (k, r)). apply in_map.
      apply (in_block_in_concat_firstn p q); auto. lia.
    - change k' with (fst (k', r')). apply in_map. apply in_or_app. now left.
  Qed.

  Lemma block_sorted i : i < length bl -> StronglySorted klt_p (map fst (nth i bl [])).
  Proof.
    intros Hi. destruct WF as (_ & SS).
    rewrite (concat_split_at i ltac:(lia)), !map_app in SS.
    apply SS_app_inv in SS. destruct SS as (_ & SS & _).
    apply SS_app_inv in SS. apply SS.
  Qed.

  Lemma block_nonempty i : i < length bl -> nth i bl [] <> [].
  Proof.
    intros Hi E. pose proof (wf_nth_size i Hi) as (H & _). rewrite E in H. cbn in H. lia.
  Qed.

  Lemma first_key_in i : i < length bl -> exists r, In (first_key (nth i bl []), r) (nth i bl []).
  Proof.
    intros Hi. pose proof (block_nonempty i Hi) as N.
    destruct (nth i bl []) as [|[k r] b]; [congruence|]. exists r. now left.
  Qed.

  Lemma tindex_nth i : nth i (tindex bl) [] = first_key (nth i bl []).
  Proof. unfold tindex. exact (map_nth first_key bl [] i). Qed.

  Lemma tindex_length : length (tindex bl) = length bl.
  Proof. apply map_length. Qed.

  Lemma tindex_isorted : isorted (tindex bl).
  Proof.
    intros p q Hpq Hq. rewrite tindex_length in Hq. rewrite !tindex_nth.
    destruct (first_key_in p ltac:(lia)) as (r & H1).
    destruct (first_key_in q Hq) as (r' & H2).
    exact (cross_blocks p q _ r _ r' Hpq Hq H1 H2).
  Qed.

  (** a key of block i lies in [A[i], A[i+1]) *)
  Lemma key_ge_first i k r : i < length bl -> In (k, r) (nth i bl []) ->
    kcmp (nth i (tindex bl) []) k <> Gt.
  Proof.
    intros Hi Hin. rewrite tindex_nth. pose proof (block_sorted i Hi) as SS.
    destruct (nth i bl []) as [|[k0 r0] b]; [destruct Hin|]. cbn [first_key].
    destruct Hin as [E|Hin].
    - injection E as -> ->. rewrite kcmp_refl. discriminate.
    - cbn in SS. inversion SS as [|? ? _ HF]; subst. rewrite Forall_forall in HF.
      assert (In k (map fst b)) as Hk by (change k with (fst (k, r)); now apply in_map).
      apply HF in Hk. unfold klt_p in Hk. rewrite Hk. discriminate.
  Qed.

  Lemma key_lt_next i k r : S i < length bl -> In (k, r) (nth i bl []) ->
    kcmp k (nth (S i) (tindex bl) []) = Lt.
  Proof.
    intros Hi Hin. rewrite tindex_nth. destruct (first_key_in (S i) Hi) as (r' & H2).
    exact (cross_blocks i (S i) _ r _ r' ltac:(lia) Hi Hin H2).
  Qed.
End WF.

(** * boolean well-formedness check is sound *)
Lemma sorted_keysb_sound l : sorted_keysb l = true -> StronglySorted klt_p l.
Proof.
  intros H. apply Sorted_StronglySorted.
  - intros a b c. unfold klt_p. apply kcmp_lt_trans.
  - induction l as [|a l IH]; [constructor|].
    cbn in H. destruct l as [|b l]; [repeat constructor|].
    apply andb_prop in H. destruct H as (H1 & H2). constructor; [apply IH; exact H2|].
    constructor. unfold klt_p, klt in *. destruct (kcmp a b); congruence.
Qed.

Lemma sizes_okb_sound bs bl : sizes_okb bs bl = true ->
  forall i b, nth_error bl i = Some b -> 1 <= length b <= bs /\ (S i < length bl -> length b = bs).
Proof.
  induction bl as [|b0 bl IH]; intros H i b Hn; [destruct i; discriminate|].
  cbn [sizes_okb] in H. destruct bl as [|b1 bl].
  - destruct i as [|i]; [|destruct i; discriminate]. injection Hn as <-.
    apply andb_prop in H. destruct H as (H1 & H2).
    apply Nat.leb_le in H1, H2. split; [lia|]. cbn. lia.
  - apply andb_prop in H. destruct H as (H & H3). apply andb_prop in H. destruct H as (H1 & H2).
    apply Nat.leb_le in H1. apply Nat.eqb_eq in H2.
    destruct i as [|i].
    + injection Hn as <-. split; [lia|auto].
    + cbn in Hn. destruct (IH H3 i b Hn) as (I1 & I2). split; [exact I1|].
      intros L. apply I2. cbn in L |- *. lia.
Qed.

Lemma wf_blocksb_sound bs bl : wf_blocksb bs bl = true -> WF_blocks bs bl.
Proof.
  unfold wf_blocksb. intros H. apply andb_prop in H. destruct H as (H1 & H2). split.
  - now apply sizes_okb_sound.
  - now apply sorted_keysb_sound.
Qed.
