(** (a) diff.RowToBlockAndOffset, translated body (gen/ExtractedCode.v) = the models'
    [row_to_block_and_offset] (model/Ingest.v with Sorter.block_size, model/Diff.v with bs = 255). *)
From Coq Require Import List ZArith NArith Bool String Lia Arith.
From W.lib Require Import Tree Bytes GoLang.
From W.proofs Require Import GoLang_proofs.
From W.gen Require Import ExtractedCode.
From W.model Require Sorter Ingest Diff.
Import ListNotations.
Local Open Scope Z_scope.

(** the specification both models are instances of *)
Definition row_addr_spec (bs row : nat) : nat * nat := ((row / bs)%nat, (row - (row / bs) * bs)%nat).

Lemma go_RowToBlockAndOffset_spec (row : nat) :
  Z.of_nat row < 2 ^ 32 ->
  exists fuel, run_func fuel go_prog go_RowToBlockAndOffset [v_nat row]
               = FOk [v_nat (fst (row_addr_spec 255 row)); v_nat (snd (row_addr_spec 255 row))] [].
Proof.
  intros Hrow. start_func go_RowToBlockAndOffset. unfold v_nat.
  steps.
  (* everything the code can compute from row is a function of q = row quot 255, r = row rem 255 *)
  pose proof (Z.quot_rem' (Z.of_nat row) 255) as Hqr.
  pose proof (Z.rem_bound_pos (Z.of_nat row) 255 ltac:(lia) ltac:(lia)) as Hr.
  pose proof (Z.quot_pos (Z.of_nat row) 255 ltac:(lia) ltac:(lia)) as Hq.
  assert (Q : Z.quot (Z.of_nat row) 255 = Z.of_nat (row / 255)).
  { rewrite Z.quot_div_nonneg by lia. now rewrite Nat2Z.inj_div. }
  pose proof (Nat.mul_div_le row 255 ltac:(lia)) as Hle.
  set (q := Z.quot (Z.of_nat row) 255) in *. set (r := Z.rem (Z.of_nat row) 255) in *.
  unwrap.
  cbn [row_addr_spec fst snd]. repeat f_equal; lia.
Qed.

Lemma go_RowToBlockAndOffset_model_ingest (row : nat) :
  Z.of_nat row < 2 ^ 32 ->
  exists fuel, run_func fuel go_prog go_RowToBlockAndOffset [v_nat row]
               = FOk [v_nat (fst (Ingest.row_to_block_and_offset row));
                      v_nat (snd (Ingest.row_to_block_and_offset row))] [].
Proof. exact (go_RowToBlockAndOffset_spec row). Qed.

Lemma go_RowToBlockAndOffset_model_diff (row : nat) :
  Z.of_nat row < 2 ^ 32 ->
  exists fuel, run_func fuel go_prog go_RowToBlockAndOffset [v_nat row]
               = FOk [v_nat (fst (Diff.row_to_block_and_offset 255 row));
                      v_nat (snd (Diff.row_to_block_and_offset 255 row))] [].
Proof. exact (go_RowToBlockAndOffset_spec row). Qed.
