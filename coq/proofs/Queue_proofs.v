(** Lemmas about model/Queue.v: the CommitsQueue worklist, for ANY placement [ins]
    and ANY initial ordering [srt] that are permutations. *)
From W.lib Require Import GoSort.
From W.model Require Import Graph Queue.
From W.proofs Require Import Graph_proofs.
From Coq Require Import List NArith ZArith Bool Arith Lia Permutation.
Import ListNotations.

Section Generic.
  Variable g : graph.
  Variable ins : id -> list id -> list id.
  Variable srt : list id -> list id.
  Hypothesis Hins : forall c q, Permutation (ins c q) (c :: q).
  Hypothesis Hsrt : forall l, Permutation (srt l) l.

  Notation insert := (insert g ins).
  Notation insert_all := (insert_all g ins).
  Notation pop_insert_parents := (pop_insert_parents g ins).
  Notation new_queue := (new_queue g srt).

  (** already returned by a pop: seen and no longer queued *)
  Definition popped_of (q : cq) (x : id) : Prop := In x (q_seen q) /\ ~ In x (q_items q).

  (** InsertParents: the fresh commits [nw] are consed on seen and placed somewhere in items *)
  Lemma insert_all_spec : forall ps q q',
    insert_all q ps = Ok q' ->
    exists nw, q_seen q' = nw ++ q_seen q /\ Permutation (q_items q') (nw ++ q_items q) /\
      NoDup nw /\
      (forall x, In x nw -> In x ps /\ ~ In x (q_seen q) /\ lookup g x <> None) /\
      (forall x, In x ps -> In x (q_seen q) \/ In x nw).
  Proof.
    induction ps as [|p ps IH]; intros q q' H; simpl in H.
    - inversion H; subst. exists []. simpl. repeat split; auto; try tauto. constructor.
    - unfold Queue.insert in H. unfold seen in H. destruct (mem p (q_seen q)) eqn:E.
      + destruct (IH q q' H) as [nw [H1 [H2 [H3 [H4 H5]]]]]. exists nw. repeat split; auto.
        * right. now apply H4.
        * now apply H4.
        * now apply H4.
        * intros x [<-|Hx]; [left; now apply mem_In | now apply H5].
      + apply mem_false in E. destruct (lookup g p) as [c|] eqn:El; [|discriminate].
        destruct (IH _ q' H) as [nw [H1 [H2 [H3 [H4 H5]]]]]. simpl in *.
        exists (nw ++ [p]). rewrite <- !app_assoc. simpl. split; [exact H1|]. split; [|split; [|split]].
        * eapply Permutation_trans; [exact H2|]. apply Permutation_app_head. apply Hins.
        * apply NoDup_snoc; auto. intros Hp. apply H4 in Hp.
          destruct Hp as [_ [Hp _]]. apply Hp. now left.
        * intros x Hx. apply in_app_or in Hx. destruct Hx as [Hx|[<-|[]]].
          -- destruct (H4 x Hx) as [Ha [Hb Hc]]. split; [now right|]. split; [|exact Hc].
             intros Hs. apply Hb. now right.
          -- split; [now left|]. split; [exact E | congruence].
        * intros x [<-|Hx].
          -- right. apply in_or_app. right. now left.
          -- destruct (H5 x Hx) as [[<-|Hs]|Hn].
             ++ right. apply in_or_app. right. now left.
             ++ now left.
             ++ right. apply in_or_app. now left.
  Qed.

  Lemma insert_all_ok : forall ps q,
    (forall p, In p ps -> lookup g p <> None) -> exists q', insert_all q ps = Ok q'.
  Proof.
    induction ps as [|p ps IH]; intros q H; simpl.
    - now exists q.
    - unfold Queue.insert. destruct (seen q p).
      + apply IH. intros x Hx. apply H. now right.
      + destruct (lookup g p) eqn:El.
        * apply IH. intros x Hx. apply H. now right.
        * exfalso. apply (H p); [now left | exact El].
  Qed.

  (** Reset *)
  Lemma reset_loop_spec : forall l items sn items' sn',
    reset_loop g l items sn = Ok (items', sn') ->
    Permutation items sn -> NoDup sn ->
    Permutation items' sn' /\ NoDup sn' /\
    (forall x, In x sn' <-> In x sn \/ In x l) /\
    (forall x, In x sn' -> In x sn \/ lookup g x <> None).
  Proof.
    induction l as [|v l IH]; intros items sn items' sn' H Hp Hn; simpl in H.
    - inversion H; subst. repeat split; auto; simpl; tauto.
    - destruct (mem v sn) eqn:E.
      + destruct (IH _ _ _ _ H Hp Hn) as [H1 [H2 [H3 H4]]]. repeat split; auto.
        * intros Hx. apply H3 in Hx. destruct Hx; [now left | right; now right].
        * intros [Hx|[<-|Hx]]; apply H3; [now left | left; now apply mem_In | now right].
      + apply mem_false in E. destruct (lookup g v) eqn:El; [|discriminate].
        destruct (IH _ _ _ _ H) as [H1 [H2 [H3 H4]]].
        * eapply Permutation_trans; [apply Permutation_app_comm|]. simpl. now constructor.
        * now constructor.
        * repeat split; auto.
          -- intros Hx. apply H3 in Hx. destruct Hx as [[<-|Hx]|Hx]; [right; now left | now left | right; now right].
          -- intros [Hx|[<-|Hx]]; apply H3; [left; now right | left; now left | now right].
          -- intros x Hx. destruct (H4 x Hx) as [[<-|Hs]|Hs]; [right; congruence | now left | now right].
  Qed.

  Lemma reset_loop_ok : forall l items sn,
    (forall x, In x l -> lookup g x <> None) -> exists r, reset_loop g l items sn = Ok r.
  Proof.
    induction l as [|v l IH]; intros items sn H; simpl.
    - eexists; reflexivity.
    - destruct (mem v sn).
      + apply IH. intros x Hx. apply H. now right.
      + destruct (lookup g v) eqn:El.
        * apply IH. intros x Hx. apply H. now right.
        * exfalso. apply (H v); [now left | exact El].
  Qed.

  (** worklist invariant of a queue that walks the history below [roots]
      (DESIGN 10a; [popped] is represented as seen minus items) *)
  Definition q_inv (roots : list id) (q : cq) : Prop :=
    NoDup (q_items q) /\ NoDup (q_seen q) /\ incl (q_items q) (q_seen q) /\
    (forall x, In x (q_seen q) -> reach g roots x) /\
    (forall x, In x (q_seen q) -> lookup g x <> None) /\
    (forall r, In r roots -> In r (q_seen q)) /\
    (forall x p, popped_of q x -> In p (parents_of g x) -> In p (q_seen q)).

  (** remaining pops are bounded by this measure *)
  Definition q_meas (q : cq) : nat := length g - length (q_seen q) + length (q_items q).

  Lemma seen_bound : forall roots q, q_inv roots q -> length (q_seen q) <= length g.
  Proof.
    intros roots q [_ [I2 [_ [_ [I5 _]]]]].
    rewrite <- (map_length fst g). apply NoDup_incl_length; [exact I2|].
    intros x Hx. specialize (I5 x Hx). destruct (lookup g x) eqn:E; [|congruence].
    eapply lookup_nodes; eauto.
  Qed.

  Lemma new_queue_inv : forall roots q,
    new_queue roots = Ok q ->
    q_inv roots q /\ q_meas q = length g /\
    (forall x, In x (q_seen q) <-> In x roots) /\ (forall x, ~ popped_of q x).
  Proof.
    intros roots q H. unfold Queue.new_queue in H.
    destruct (reset_loop g roots [] []) as [[items sn]| |] eqn:E; try discriminate.
    inversion H; subst; clear H.
    destruct (reset_loop_spec _ _ _ _ _ E (Permutation_refl _) (NoDup_nil _)) as [H1 [H2 [H3 H4]]].
    assert (Hp : Permutation (srt items) sn) by (eapply Permutation_trans; [apply Hsrt | exact H1]).
    assert (Hnp : forall x, ~ popped_of (mk_cq (srt items) sn) x).
    { intros x [Ha Hb]. simpl in *. apply Hb. eapply Permutation_in; [apply Permutation_sym; exact Hp | exact Ha]. }
    split; [|split; [|split]]; simpl.
    - unfold q_inv; simpl. repeat split.
      + eapply Permutation_NoDup; [apply Permutation_sym; exact Hp | exact H2].
      + exact H2.
      + intros x Hx. eapply Permutation_in; eauto.
      + intros x Hx. apply reach_root. apply H3 in Hx. now destruct Hx.
      + intros x Hx. destruct (H4 x Hx) as [[]|Hx']. exact Hx'.
      + intros r Hr. apply H3. now right.
      + intros x p Hx. now apply Hnp in Hx.
    - unfold q_meas. simpl. rewrite (Permutation_length Hp).
      assert (length sn <= length g).
      { rewrite <- (map_length fst g). apply NoDup_incl_length; [exact H2|].
        intros x Hx. destruct (H4 x Hx) as [[]|Hx']. destruct (lookup g x) eqn:El; [|congruence].
        eapply lookup_nodes; eauto. }
      lia.
    - intros x. rewrite H3. simpl. tauto.
    - exact Hnp.
  Qed.

  Lemma new_queue_ok : forall roots,
    (forall r, In r roots -> lookup g r <> None) -> exists q, new_queue roots = Ok q.
  Proof.
    intros roots H. unfold Queue.new_queue.
    destruct (reset_loop_ok roots [] [] H) as [[items sn] E]. rewrite E. eexists; reflexivity.
  Qed.

  (** one PopInsertParents on a history that is complete below the roots *)
  Lemma pop_step : forall roots q,
    q_inv roots q ->
    (forall x, reach g roots x -> lookup g x <> None) ->
    (pop_insert_parents q = PEof /\ q_items q = []) \/
    (exists x q', pop_insert_parents q = POk x q' /\ q_inv roots q' /\
        In x (q_items q) /\ S (q_meas q') = q_meas q /\
        incl (q_seen q) (q_seen q') /\
        (forall y, popped_of q' y <-> popped_of q y \/ y = x)).
  Proof.
    intros roots q Hinv Hpres. unfold Queue.pop_insert_parents.
    destruct (q_items q) as [|x r] eqn:Ei; [left; now split|right].
    assert (Hb := seen_bound roots q Hinv).
    destruct Hinv as [I1 [I2 [I3 [I4 [I5 [I6 I7]]]]]]. rewrite Ei in *.
    assert (Hxs : In x (q_seen q)) by (apply I3; now left).
    destruct (insert_all_ok (parents_of g x) (mk_cq r (q_seen q))) as [q' Hq'].
    { intros p Hp. apply Hpres. eapply reach_parents_of; [apply I4; exact Hxs | exact Hp]. }
    rewrite Hq'. exists x, q'. split; [reflexivity|].
    destruct (insert_all_spec _ _ _ Hq') as [nw [H1 [H2 [H3 [H4 H5]]]]]. simpl in *.
    inversion I1 as [|x' r' Hxr Hr]; subst x' r'.
    assert (Hnd : NoDup (nw ++ r)).
    { apply NoDup_app_intro; auto. intros y Hy Hin. destruct (H4 y Hy) as [_ [Hns _]].
      apply Hns. apply I3. now right. }
    assert (Hpop : forall y, popped_of q' y <-> popped_of q y \/ y = x).
    { intros y. unfold popped_of. rewrite H1, Ei. split.
      - intros [Ha Hb']. assert (Hny : ~ In y (nw ++ r)).
        { intros Hin. apply Hb'. eapply Permutation_in; [apply Permutation_sym; exact H2 | exact Hin]. }
        apply in_app_or in Ha. destruct Ha as [Ha|Ha].
        + exfalso. apply Hny. apply in_or_app. now left.
        + destruct (N.eq_dec y x) as [->|Hne]; [now right|]. left. split; [exact Ha|].
          intros [Hin|Hin]; [now apply Hne | apply Hny; apply in_or_app; now right].
      - intros [[Ha Hb']| ->].
        + split; [apply in_or_app; now right|]. intros Hin.
          apply (Permutation_in _ H2) in Hin. apply in_app_or in Hin. destruct Hin as [Hin|Hin].
          * destruct (H4 y Hin) as [_ [Hns _]]. now apply Hns.
          * apply Hb'. now right.
        + split; [apply in_or_app; now right|]. intros Hin.
          apply (Permutation_in _ H2) in Hin. apply in_app_or in Hin. destruct Hin as [Hin|Hin].
          * destruct (H4 x Hin) as [_ [Hns _]]. now apply Hns.
          * now apply Hxr. }
    split; [|split; [now left|split; [|split; [|exact Hpop]]]].
    - unfold q_inv. rewrite H1. repeat split.
      + eapply Permutation_NoDup; [apply Permutation_sym; exact H2 | exact Hnd].
      + apply NoDup_app_intro; auto. intros y Hy. now apply H4.
      + intros y Hy. apply (Permutation_in _ H2) in Hy. apply in_app_or in Hy. apply in_or_app.
        destruct Hy as [Hy|Hy]; [now left | right; apply I3; now right].
      + intros y Hy. apply in_app_or in Hy. destruct Hy as [Hy|Hy]; [|now apply I4].
        eapply reach_parents_of; [apply I4; exact Hxs | now apply H4].
      + intros y Hy. apply in_app_or in Hy. destruct Hy as [Hy|Hy]; [now apply H4 | now apply I5].
      + intros r0 Hr0. apply in_or_app. right. now apply I6.
      + intros y p Hy Hp. apply Hpop in Hy. destruct Hy as [Hy| ->].
        * apply in_or_app. right. eapply I7; eauto.
        * apply in_or_app. destruct (H5 p Hp); [now right | now left].
    - unfold q_meas. rewrite H1, (Permutation_length H2), Ei, !app_length. simpl.
      assert (length (nw ++ q_seen q) <= length g).
      { rewrite <- (map_length fst g). apply NoDup_incl_length.
        - apply NoDup_app_intro; auto. intros y Hy. now apply H4.
        - intros y Hy. apply in_app_or in Hy.
          assert (Hl : lookup g y <> None) by (destruct Hy as [Hy|Hy]; [now apply H4 | now apply I5]).
          destruct (lookup g y) eqn:El; [|congruence]. eapply lookup_nodes; eauto. }
      rewrite app_length in H. lia.
    - intros y Hy. rewrite H1. apply in_or_app. now right.
  Qed.

  (** at EOF the seen set is exactly the reachable set *)
  Lemma eof_complete : forall roots q,
    q_inv roots q -> q_items q = [] -> forall x, reach g roots x <-> In x (q_seen q).
  Proof.
    intros roots q [I1 [I2 [I3 [I4 [I5 [I6 I7]]]]]] He x. split; [|apply I4].
    apply (reach_least g roots (fun y => In y (q_seen q))); [exact I6|].
    intros a b Ha Hb. apply (I7 a b); [|exact Hb]. split; [exact Ha|]. rewrite He. tauto.
  Qed.

  (** the history walk: every commit reachable from the roots exactly once *)
  Lemma walk_loop_spec : forall roots fuel q acc,
    q_inv roots q ->
    (forall x, reach g roots x -> lookup g x <> None) ->
    q_meas q < fuel ->
    NoDup acc -> (forall x, In x acc <-> popped_of q x) ->
    exists l, walk_loop g ins fuel q acc = (0, l) /\ NoDup l /\
              forall x, In x l <-> reach g roots x.
  Proof.
    intros roots. induction fuel as [|fuel IH]; intros q acc Hinv Hpres Hf Hnd Hacc; [lia|].
    simpl. destruct (pop_step roots q Hinv Hpres) as [[He Hi]|[x [q' [He [Hinv' [Hx [Hm [_ Hpop]]]]]]]];
      rewrite He.
    - exists (rev acc). split; [reflexivity|]. split; [now apply NoDup_rev|].
      intros x. rewrite <- in_rev, Hacc, (eof_complete roots q Hinv Hi). unfold popped_of.
      rewrite Hi. simpl. tauto.
    - apply IH; auto; [lia| |].
      + constructor; [|exact Hnd]. intros Hin. apply Hacc in Hin. now destruct Hin.
      + intros y. rewrite Hpop, <- Hacc. simpl. split; intros [H|H]; auto.
  Qed.

  Theorem walk_spec : forall roots,
    (forall x, reach g roots x -> lookup g x <> None) ->
    exists l, walk g ins srt roots = (0, l) /\ NoDup l /\ forall x, In x l <-> reach g roots x.
  Proof.
    intros roots Hpres. unfold walk.
    destruct (new_queue_ok roots) as [q Hq].
    { intros r Hr. apply Hpres. now apply reach_root. }
    rewrite Hq. destruct (new_queue_inv roots q Hq) as [Hinv [Hm [_ Hnp]]].
    apply (walk_loop_spec roots); auto.
    - unfold walk_fuel. lia.
    - constructor.
    - intros x. split; [intros [] | intros H; now apply Hnp in H].
  Qed.

  (* ------------------------------------------------------------------ *)
  (** the walk continued from any queue state; PopUntil; RemoveAncestors *)
  Lemma walk_loop_acc : forall fuel q acc,
    walk_loop g ins fuel q acc =
      (fst (walk_loop g ins fuel q []), rev acc ++ snd (walk_loop g ins fuel q [])).
  Proof.
    induction fuel as [|fuel IH]; intros q acc; simpl.
    - now rewrite app_nil_r.
    - destruct (pop_insert_parents q) as [|x q'|]; simpl; try now rewrite app_nil_r.
      rewrite (IH q' (x :: acc)), (IH q' [x]). simpl. now rewrite <- app_assoc.
  Qed.

  Lemma meas_bound : forall roots q, q_inv roots q -> q_meas q <= length g.
  Proof.
    intros roots q Hinv. assert (Hb := seen_bound roots q Hinv).
    destruct Hinv as [I1 [_ [I3 _]]]. assert (H := NoDup_incl_length I1 I3). unfold q_meas. lia.
  Qed.

  Lemma walk_fuel_indep : forall roots f1 f2 q,
    q_inv roots q -> complete g roots -> q_meas q < f1 -> q_meas q < f2 ->
    walk_loop g ins f1 q [] = walk_loop g ins f2 q [].
  Proof.
    intros roots. induction f1 as [|f1 IH]; intros f2 q Hinv Hp H1 H2; [lia|].
    destruct f2 as [|f2]; [lia|]. simpl.
    destruct (pop_step roots q Hinv Hp) as [[He Hi]|[x [q' [He [Hinv' [Hx [Hm _]]]]]]]; rewrite He; [reflexivity|].
    rewrite (walk_loop_acc f1 q' [x]), (walk_loop_acc f2 q' [x]).
    rewrite (IH f2 q'); auto; lia.
  Qed.

  (** the walk continued from a queue state enumerates, without duplicates, exactly the
      reachable commits that have not been popped yet *)
  Lemma walk_tail_spec : forall roots fuel q,
    q_inv roots q -> complete g roots -> q_meas q < fuel ->
    exists l, walk_loop g ins fuel q [] = (0, l) /\ NoDup l /\
              forall x, In x l <-> reach g roots x /\ ~ popped_of q x.
  Proof.
    intros roots. induction fuel as [|fuel IH]; intros q Hinv Hp Hf; [lia|].
    simpl. destruct (pop_step roots q Hinv Hp) as [[He Hi]|[x [q' [He [Hinv' [Hx [Hm [_ Hpop]]]]]]]];
      rewrite He.
    - exists []. split; [reflexivity|]. split; [constructor|]. intros x. split; [intros []|].
      intros [Hr Hn]. apply Hn. apply (eof_complete roots q Hinv Hi) in Hr. split; [exact Hr|].
      rewrite Hi. tauto.
    - destruct (IH q' Hinv' Hp) as [l [Hw [Hnd Hl]]]; [lia|].
      rewrite (walk_loop_acc fuel q' [x]), Hw. simpl. exists (x :: l). split; [reflexivity|].
      split.
      + constructor; [|exact Hnd]. intros Hin. apply Hl in Hin. apply (proj2 Hin). apply Hpop. now right.
      + intros y. simpl. rewrite Hl, Hpop. split.
        * intros [<-|[Hr Hn]].
          -- destruct Hinv as [_ [_ [I3 [I4 _]]]]. split; [apply I4; now apply I3|].
             intros [_ Hn]. now apply Hn.
          -- split; [exact Hr | tauto].
        * intros [Hr Hn]. destruct (N.eq_dec x y) as [E|E]; [now left|right].
          split; [exact Hr|]. intros [H|H]; [now apply Hn | now apply E].
  Qed.

  (** PopUntil b from a queue state: let l be the walk continued from that state.
      Either b occurs in l = l1 ++ b :: l2: b is returned, exactly l1 ++ [b] has been popped
      and the walk continued afterwards is l2; or b does not occur: EOF, everything (l)
      has been popped and the queue is empty. *)
  Definition pop_until_post (roots : list id) (fuel : nat) (q : cq) (b : id) (l : list id) : Prop :=
    (exists l1 l2 q', l = l1 ++ b :: l2 /\ ~ In b l1 /\
        pop_until g ins fuel q b = Ok (Some b, q', l1 ++ [b]) /\ q_inv roots q' /\
        (forall y, popped_of q' y <-> popped_of q y \/ In y (l1 ++ [b])) /\
        (forall fuel', q_meas q' < fuel' -> walk_loop g ins fuel' q' [] = (0, l2))) \/
    (~ In b l /\ exists q', pop_until g ins fuel q b = Ok (None, q', l) /\
        q_items q' = [] /\ q_inv roots q' /\
        (forall y, popped_of q' y <-> popped_of q y \/ In y l)).

  Lemma pop_until_walk : forall roots fuel q b,
    q_inv roots q -> complete g roots -> q_meas q < fuel ->
    exists l, walk_loop g ins fuel q [] = (0, l) /\ pop_until_post roots fuel q b l.
  Proof.
    intros roots. induction fuel as [|fuel IH]; intros q b Hinv Hp Hf; [lia|].
    unfold pop_until_post. simpl.
    destruct (pop_step roots q Hinv Hp) as [[He Hi]|[x [q' [He [Hinv' [Hx [Hm [_ Hpop]]]]]]]];
      rewrite He.
    - exists []. split; [reflexivity|]. right. split; [tauto|]. exists q.
      split; [reflexivity|]. split; [exact Hi|]. split; [exact Hinv|].
      intros y. simpl. tauto.
    - assert (Hf' : q_meas q' < fuel) by lia.
      destruct (IH q' b Hinv' Hp Hf') as [l [Hw Hpost]].
      rewrite (walk_loop_acc fuel q' [x]), Hw. simpl. exists (x :: l). split; [reflexivity|].
      destruct (N.eqb x b) eqn:E.
      + apply N.eqb_eq in E. subst x. left. exists [], l, q'. simpl.
        split; [reflexivity|]. split; [tauto|]. split; [reflexivity|]. split; [exact Hinv'|]. split.
        * intros y. rewrite Hpop. split; [intros [H| ->]; auto | intros [H|[<-|[]]]; auto].
        * intros fuel' Hf2. rewrite <- Hw. eapply walk_fuel_indep; eauto.
      + apply N.eqb_neq in E. destruct Hpost as [[l1 [l2 [q2 [Hl [Hn [Hu [Hi2 [Hp2 Hw2]]]]]]]]|[Hn [q2 [Hu [Hi2 [Hinv2 Hp2]]]]]].
        * left. exists (x :: l1), l2, q2. rewrite Hu. simpl. split; [now rewrite Hl|].
          split; [intros [H|H]; [now apply E | now apply Hn]|]. split; [reflexivity|].
          split; [exact Hi2|]. split; [|exact Hw2].
          intros y. rewrite Hp2, Hpop. simpl.
          split; [intros [[H| ->]|H]; auto | intros [H|[->|H]]; auto].
        * right. split; [intros [H|H]; [now apply E | now apply Hn]|].
          exists q2. rewrite Hu. split; [reflexivity|]. split; [exact Hi2|]. split; [exact Hinv2|].
          intros y. rewrite Hp2, Hpop. simpl. split; [intros [[H| ->]|H]; auto | intros [H|[->|H]]; auto].
  Qed.

  Theorem pop_until_spec : forall roots q b,
    q_inv roots q -> complete g roots ->
    exists l, walk_loop g ins (walk_fuel g) q [] = (0, l) /\ NoDup l /\
      (forall x, In x l <-> reach g roots x /\ ~ popped_of q x) /\
      pop_until_post roots (walk_fuel g) q b l.
  Proof.
    intros roots q b Hinv Hp.
    assert (Hf : q_meas q < walk_fuel g) by (assert (H := meas_bound roots q Hinv); unfold walk_fuel; lia).
    destruct (pop_until_walk roots (walk_fuel g) q b Hinv Hp Hf) as [l [Hw Hpost]].
    destruct (walk_tail_spec roots (walk_fuel g) q Hinv Hp Hf) as [l' [Hw' [Hnd Hl]]].
    rewrite Hw in Hw'. inversion Hw'; subst l'. exists l. auto.
  Qed.

  (** RemoveAncestors *)
  Lemma ra_loop_spec : forall sums items q2,
    q_inv sums q2 -> complete g sums ->
    ra_loop g ins items q2 = Ok (filter (fun x => negb (reachb g sums x)) items).
  Proof.
    intros sums. induction items as [|x r IH]; intros q2 Hinv Hp; [reflexivity|].
    cbn [ra_loop filter]. unfold seen. destruct (mem x (q_seen q2)) eqn:Es.
    - apply mem_In in Es. assert (Hr : reach g sums x) by (destruct Hinv as [_ [_ [_ [I4 _]]]]; now apply I4).
      apply reachb_spec in Hr. rewrite Hr. simpl. now apply IH.
    - apply mem_false in Es.
      assert (Hnp : ~ popped_of q2 x) by (intros [H _]; now apply Es).
      destruct (pop_until_spec sums q2 x Hinv Hp) as [l [_ [_ [Hl Hpost]]]].
      destruct Hpost as [[l1 [l2 [q' [Hl' [_ [Hu [Hinv' _]]]]]]]|[Hn [q' [Hu [_ [Hinv' _]]]]]]; rewrite Hu.
      + assert (Hr : reach g sums x).
        { apply (Hl x). rewrite Hl'. apply in_or_app. right. now left. }
        apply reachb_spec in Hr. rewrite Hr. simpl. now apply IH.
      + assert (Hr : reachb g sums x = false).
        { apply reachb_false. intros Hr. apply Hn. apply Hl. now split. }
        rewrite Hr. simpl. now rewrite (IH q' Hinv' Hp).
  Qed.

  Theorem remove_ancestors_spec : forall sums q,
    complete g sums ->
    exists q', remove_ancestors g ins srt q sums = Ok q' /\
      q_items q' = filter (fun x => negb (reachb g sums x)) (q_items q) /\
      q_seen q' = q_seen q /\
      (forall x, In x (q_items q') <-> In x (q_items q) /\ ~ reach g sums x).
  Proof.
    intros sums q Hp. unfold remove_ancestors.
    destruct (new_queue_ok sums) as [q2 Hq2].
    { intros r Hr. apply Hp. now apply reach_root. }
    rewrite Hq2. destruct (new_queue_inv sums q2 Hq2) as [Hinv _].
    rewrite (ra_loop_spec sums (q_items q) q2 Hinv Hp). eexists. split; [reflexivity|]. simpl.
    repeat split; auto.
    - apply filter_In in H. tauto.
    - apply filter_In in H. destruct H as [_ H]. apply negb_true_iff in H. now apply reachb_false in H.
    - intros [H1 H2]. apply filter_In. split; [exact H1|]. apply negb_true_iff. now apply reachb_false.
  Qed.
End Generic.

(** the placement and the sort used by the Go code are permutations *)
Lemma ins_time_perm : forall g c q, Permutation (ins_time g c q) (c :: q).
Proof.
  intros g c q. unfold ins_time.
  set (i := search _ _). rewrite <- (firstn_skipn i q) at 3.
  apply Permutation_sym. apply Permutation_middle.
Qed.

Lemma sins_perm : forall g x l, Permutation (sins g x l) (x :: l).
Proof.
  induction l as [|y r IH]; simpl; [apply Permutation_refl|].
  destruct (Z.leb (ctime g y) (ctime g x)); [apply Permutation_refl|].
  eapply Permutation_trans; [apply perm_skip; exact IH | apply perm_swap].
Qed.

Lemma srt_time_perm : forall g l, Permutation (srt_time g l) l.
Proof.
  induction l as [|x l IH]; simpl; [constructor|].
  eapply Permutation_trans; [apply sins_perm | now apply perm_skip].
Qed.
